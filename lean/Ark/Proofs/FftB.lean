import Mathlib.Algebra.Ring.GeomSum
import Mathlib.Data.List.Sort
import Mathlib.LinearAlgebra.Lagrange
import Mathlib.RingTheory.Polynomial.Cyclotomic.Basic
import Ark.Model.Fft
import Ark.Proofs.FieldOps
import Mathlib.Algebra.Field.Basic
import Mathlib.Tactic.Ring
import Mathlib.Tactic.FieldSimp
import Mathlib.Tactic.Linarith
import Mathlib.Tactic.NormNum
import Mathlib.Data.Nat.Log
import Mathlib.GroupTheory.OrderOfElement
import Mathlib.RingTheory.RootsOfUnity.PrimitiveRoots
/-
  Ark.Proofs.FftB — helper lemmas for property C07 (part b): evaluation-domain construction,
  vanishing polynomial, Lagrange coefficients, re-indexing and the mixed-radix FFT of
  `Ark.Model.Fft`, proved over an abstract `[Field F]`.
-/
set_option linter.unusedSectionVars false
set_option linter.unusedVariables false

namespace Ark.Fft
open Ark

/-! ## integer helpers -/

theorem U64_eq : U64 = 2 ^ 64 := rfl

theorem isPowerOfTwo_iff (x : Nat) : isPowerOfTwo x = true ↔ ∃ k, x = 2 ^ k := by
  unfold isPowerOfTwo
  constructor
  · intro h
    simp only [Bool.and_eq_true, bne_iff_ne, ne_eq, beq_iff_eq] at h
    exact ⟨x.log2, h.2.symm⟩
  · rintro ⟨k, rfl⟩
    simp only [Bool.and_eq_true, bne_iff_ne, ne_eq, beq_iff_eq, Nat.log2_two_pow, and_true]
    exact (Nat.two_pow_pos k).ne'

/-- the model's `log2` is the ceiling logarithm `Nat.clog 2` -/
theorem log2_eq_clog (x : Nat) : log2 x = Nat.clog 2 x := by
  unfold log2
  by_cases h0 : x = 0
  · simp [h0]
  · rw [if_neg h0]
    by_cases hp : isPowerOfTwo x = true
    · rw [if_pos hp]
      obtain ⟨k, rfl⟩ := (isPowerOfTwo_iff x).1 hp
      rw [Nat.log2_two_pow, Nat.clog_pow 2 k (by norm_num)]
    · rw [if_neg hp]
      symm
      have hlt : 2 ^ x.log2 < x := by
        have h1 : 2 ^ x.log2 ≤ x := Nat.log2_self_le h0
        rcases Nat.lt_or_ge (2 ^ x.log2) x with h | h
        · exact h
        · exact absurd ((isPowerOfTwo_iff x).2 ⟨x.log2, le_antisymm h h1⟩) hp
      have hub : x < 2 ^ (x.log2 + 1) := Nat.lt_log2_self
      apply le_antisymm
      · exact (Nat.clog_le_iff_le_pow (by norm_num)).2 hub.le
      · by_contra hc
        have : Nat.clog 2 x ≤ x.log2 := by omega
        have h2 := (Nat.clog_le_iff_le_pow (b := 2) (by norm_num)).1 this
        omega

theorem le_two_pow_clog (n : Nat) : n ≤ 2 ^ Nat.clog 2 n := Nat.le_pow_clog (by norm_num) n

theorem nextPowerOfTwo_eq (n : Nat) :
    nextPowerOfTwo n = if Nat.clog 2 n < 64 then 2 ^ Nat.clog 2 n else 0 := by
  unfold nextPowerOfTwo checkedNextPowerOfTwo
  by_cases h1 : n ≤ 1
  · rw [if_pos h1]
    have : Nat.clog 2 n = 0 := Nat.clog_of_right_le_one h1 2
    simp [this]
  · rw [if_neg h1, log2_eq_clog]
    by_cases h : Nat.clog 2 n < 64
    · have h' : 2 ^ Nat.clog 2 n < U64 := Nat.pow_lt_pow_right (by norm_num) h
      rw [if_pos h, if_pos h']; rfl
    · have h' : ¬ 2 ^ Nat.clog 2 n < U64 := fun hc =>
        h ((Nat.pow_lt_pow_iff_right (by norm_num)).1 hc)
      rw [if_neg h, if_neg h']; rfl

theorem trailingZerosAux_two_pow (k : Nat) : ∀ (fuel r : Nat), k < fuel →
    trailingZerosAux fuel (2 ^ k) r = r + k := by
  induction k with
  | zero =>
    intro fuel r h
    obtain ⟨f, rfl⟩ : ∃ f, fuel = f + 1 := ⟨fuel - 1, by omega⟩
    simp [trailingZerosAux]
  | succ k ih =>
    intro fuel r h
    obtain ⟨f, rfl⟩ : ∃ f, fuel = f + 1 := ⟨fuel - 1, by omega⟩
    have e1 : 2 ^ (k + 1) % 2 = 0 := by rw [Nat.pow_succ]; omega
    have e2 : 2 ^ (k + 1) / 2 = 2 ^ k := by rw [Nat.pow_succ]; omega
    rw [trailingZerosAux, if_pos e1, e2, ih f (r + 1) (by omega)]
    omega

theorem trailingZeros_two_pow (k : Nat) (hk : k < 64) : trailingZeros (2 ^ k) = k := by
  unfold trailingZeros
  rw [if_neg (Nat.two_pow_pos k).ne', trailingZerosAux_two_pow k 64 0 hk]
  omega

theorem trailingZeros_zero : trailingZeros 0 = 64 := rfl

/-! ## `k_adicity` -/

theorem kAdicityAux_spec (q : Nat) (hq : 2 ≤ q) (m : Nat) (hm : 1 ≤ m) (hqm : ¬ q ∣ m) :
    ∀ (b fuel r : Nat), b ≤ fuel → kAdicityAux q fuel (q ^ b * m) r = r + b := by
  intro b
  induction b with
  | zero =>
    intro fuel r _
    cases fuel with
    | zero => rfl
    | succ f =>
      simp only [pow_zero, one_mul, Nat.add_zero]
      rw [kAdicityAux]
      split
      · rw [if_neg]
        intro h
        exact hqm (Nat.dvd_of_mod_eq_zero h)
      · rfl
  | succ b ih =>
    intro fuel r h
    obtain ⟨f, rfl⟩ : ∃ f, fuel = f + 1 := ⟨fuel - 1, by omega⟩
    have hpos : 0 < q ^ b * m := Nat.mul_pos (Nat.pow_pos (by omega)) hm
    have e : q ^ (b + 1) * m = q * (q ^ b * m) := by ring
    have h1 : q ^ (b + 1) * m > 1 := by rw [e]; nlinarith
    have h2 : q ^ (b + 1) * m % q = 0 := by rw [e]; exact Nat.mul_mod_right _ _
    have h3 : q ^ (b + 1) * m / q = q ^ b * m := by
      rw [e]; exact Nat.mul_div_cancel_left _ (by omega)
    rw [kAdicityAux, if_pos h1, if_pos h2, h3, ih f (r + 1) (by omega)]
    omega

theorem kAdicity_spec (q : Nat) (hq : 2 ≤ q) (m b : Nat) (hm : 1 ≤ m) (hqm : ¬ q ∣ m)
    (hb : b ≤ 64) : kAdicity q (q ^ b * m) = b := by
  unfold kAdicity
  rw [kAdicityAux_spec q hq m hm hqm b 64 0 hb]; omega

/-! ## `pow`, `iter` over a field -/

theorem bitsToNat_testBit (n : Nat) : ∀ e : Nat,
    bitsToNat ((List.range n).map (fun i => e.testBit i)) = e % 2 ^ n := by
  induction n with
  | zero => intro e; simp [bitsToNat, Nat.mod_one]
  | succ n ih =>
    intro e
    rw [List.range_succ_eq_map, List.map_cons, List.map_map, bitsToNat]
    have : ((fun i => e.testBit i) ∘ Nat.succ) = fun i => (e / 2).testBit i := by
      funext i; simp [Nat.testBit_add_one]
    rw [this, ih (e / 2), Nat.testBit_zero]
    have h2 : e % 2 ^ (n + 1) = e % 2 + 2 * (e / 2 % 2 ^ n) := by
      rw [Nat.pow_succ, Nat.mul_comm, Nat.mod_mul]
    rw [h2]
    rcases Nat.mod_two_eq_zero_or_one e with h | h <;> simp [h]

theorem bitsValBE_bitsBE64 (e : Nat) : bitsValBE (bitsBE64 e) = e % 2 ^ 64 := by
  rw [bitsValBE_eq_bitsToNat_reverse, bitsBE64, ← List.map_reverse, List.reverse_reverse,
    bitsToNat_testBit]

section Field
variable {F : Type} [Field F] [DecidableEq F]

/-- the identity interpretation of `fieldOps` over a field -/
def fieldInterp : (fieldOps F).Interp F where
  V := fun _ => True
  φ := id
  one_V := trivial
  one_φ := rfl
  mul_V := fun _ _ => trivial
  mul_φ := fun _ _ => rfl
  square_V := fun _ => trivial
  square_φ := fun _ => rfl
  isZero_iff := fun _ => by simp [fieldOps]
  inv_some := fun {a} _ h => ⟨a⁻¹, by simp only [id] at h; simp [fieldOps, h], trivial, rfl⟩

theorem pow_eq_mod (a : F) (e : Nat) : pow a e = a ^ (e % 2 ^ 64) := by
  have h := (Ops.pow_correct (fieldInterp (F := F)) (a := a) trivial (bitsBE64 e)).2
  rw [bitsValBE_bitsBE64] at h
  exact h

theorem pow_eq (a : F) (e : Nat) (he : e < 2 ^ 64) : pow a e = a ^ e := by
  rw [pow_eq_mod, Nat.mod_eq_of_lt he]

theorem iter_sq (k : Nat) : ∀ x : F, iter (fun w => w * w) k x = x ^ (2 ^ k) := by
  induction k with
  | zero => intro x; simp [iter]
  | succ k ih => intro x; rw [iter, ih, pow_succ 2 k, ← pow_two, ← pow_mul]; ring_nf

theorem iter_pow (q : Nat) (hq : q < 2 ^ 64) (k : Nat) :
    ∀ x : F, iter (fun w => pow w q) k x = x ^ (q ^ k) := by
  induction k with
  | zero => intro x; simp [iter]
  | succ k ih => intro x; rw [iter, ih, pow_eq _ _ hq, ← pow_mul, pow_succ q k, Nat.mul_comm]

theorem inv?_zero : inv? (0 : F) = none := by simp [inv?]
theorem inv?_ne {a : F} (h : a ≠ 0) : inv? a = some a⁻¹ := by simp [inv?, h]

end Field

/-! ## well-formed parameters and `get_root_of_unity` -/
section Field
variable {F : Type} [Field F] [DecidableEq F]

/-- Well-formed `FftField` constants: `TWO_ADIC_ROOT_OF_UNITY` has order exactly
    `2^TWO_ADICITY`; when a `LARGE_SUBGROUP_ROOT_OF_UNITY` is present so are the small subgroup
    base `q` (odd, `≥ 3`, a `u32`/`u64`) and adicity `k`, and the large root has order exactly
    `2^TWO_ADICITY · q^k`. -/
structure Params.WF (P : Params F) : Prop where
  root_order : orderOf P.twoAdicRoot = 2 ^ P.twoAdicity
  large : ∀ w, P.largeRoot = some w →
    ∃ q k, P.smallBase = some q ∧ P.smallAdicity = some k ∧ 2 ≤ q ∧ q % 2 = 1 ∧ q < 2 ^ 64 ∧
      orderOf w = 2 ^ P.twoAdicity * q ^ k

theorem not_dvd_two_pow_of_odd {q : Nat} (hq : 2 ≤ q) (hodd : q % 2 = 1) (a : Nat) : ¬ q ∣ 2 ^ a := by
  intro h
  have hc : Nat.Coprime q (2 ^ a) := by
    apply Nat.Coprime.pow_right
    rw [Nat.coprime_two_right, Nat.odd_iff]; exact hodd
  have := Nat.Coprime.eq_one_of_dvd hc h
  omega

theorem not_two_dvd_odd_pow {q : Nat} (hodd : q % 2 = 1) (b : Nat) : ¬ 2 ∣ q ^ b := by
  intro h
  have : (q ^ b) % 2 = 1 := by rw [Nat.pow_mod, hodd]; simp
  omega

theorem exp_lt_64 {q : Nat} (hq : 2 ≤ q) {b n : Nat} (h : q ^ b ≤ n) (hn : n < 2 ^ 64) : b < 64 := by
  by_contra hc
  have h1 : 2 ^ 64 ≤ 2 ^ b := Nat.pow_le_pow_right (by norm_num) (by omega)
  have h2 : 2 ^ b ≤ q ^ b := Nat.pow_le_pow_left hq b
  omega

theorem checkedPow_of_lt {b e : Nat} (h : b ^ e < 2 ^ 64) : checkedPow b e = some (b ^ e) := by
  unfold checkedPow; rw [if_pos (by rw [U64_eq]; exact h)]

theorem orderOf_pow_pow {x : F} {N m : Nat} (hx : orderOf x = N * m) (hm : 0 < m) :
    orderOf (x ^ m) = N := by
  rw [orderOf_pow_of_dvd hm.ne' (by rw [hx]; exact Dvd.intro_left N rfl), hx,
    Nat.mul_div_cancel _ hm]

/-- `get_root_of_unity` with a large subgroup root: for `n = 2^a · q^b` (`a ≤ s`, `b ≤ k`,
    `n < 2^64`) it returns an element of order exactly `n` -/
theorem getRootOfUnity_large (P : Params F) (w : F) (q k : Nat) (hw : P.largeRoot = some w)
    (hq : P.smallBase = some q) (hk : P.smallAdicity = some k) (hq2 : 2 ≤ q) (hodd : q % 2 = 1)
    (hq64 : q < 2 ^ 64) (hord : orderOf w = 2 ^ P.twoAdicity * q ^ k)
    (a b : Nat) (ha : a ≤ P.twoAdicity) (hb : b ≤ k) (hn : 2 ^ a * q ^ b < 2 ^ 64) :
    getRootOfUnity P (2 ^ a * q ^ b) = .ok (some ((w ^ (q ^ (k - b))) ^ (2 ^ (P.twoAdicity - a)))) ∧
    orderOf ((w ^ (q ^ (k - b))) ^ (2 ^ (P.twoAdicity - a))) = 2 ^ a * q ^ b := by
  have hqpos : 0 < q := by omega
  have hqb : q ^ b ≤ 2 ^ a * q ^ b := Nat.le_mul_of_pos_left _ (Nat.two_pow_pos a)
  have h2a : 2 ^ a ≤ 2 ^ a * q ^ b := Nat.le_mul_of_pos_right _ (Nat.pow_pos hqpos)
  have hb64 : b < 64 := exp_lt_64 hq2 hqb hn
  have ha64 : a < 64 := exp_lt_64 (le_refl 2) h2a hn
  have hkq : kAdicity q (2 ^ a * q ^ b) = b := by
    rw [Nat.mul_comm]
    exact kAdicity_spec q hq2 (2 ^ a) b (Nat.two_pow_pos a) (not_dvd_two_pow_of_odd hq2 hodd a)
      (by omega)
  have hk2 : kAdicity 2 (2 ^ a * q ^ b) = a :=
    kAdicity_spec 2 (le_refl 2) (q ^ b) a (Nat.pow_pos hqpos) (not_two_dvd_odd_pow hodd b) (by omega)
  constructor
  · unfold getRootOfUnity
    simp only [hw, hq, hk, hkq, hk2]
    rw [checkedPow_of_lt (lt_of_le_of_lt hqb hn), checkedPow_of_lt (lt_of_le_of_lt h2a hn)]
    simp only
    have hmod : (2 ^ a * q ^ b) % U64 = 2 ^ a * q ^ b := Nat.mod_eq_of_lt (by rw [U64_eq]; exact hn)
    rw [if_neg (by rw [hmod]; omega), iter_pow q hq64, iter_sq]
  · have e1 : orderOf (w ^ (q ^ (k - b))) = 2 ^ P.twoAdicity * q ^ b := by
      apply orderOf_pow_pow _ (Nat.pow_pos hqpos)
      rw [hord, Nat.mul_assoc, ← pow_add]; congr 2; omega
    have e2 : 2 ^ P.twoAdicity * q ^ b = (2 ^ a * q ^ b) * 2 ^ (P.twoAdicity - a) := by
      rw [Nat.mul_right_comm, ← pow_add]; congr 2; omega
    exact orderOf_pow_pow (e1.trans e2) (Nat.two_pow_pos _)

/-- `get_root_of_unity` without a large subgroup root, on a power of two `2^a`, `a ≤ s` -/
theorem getRootOfUnity_small (P : Params F) (hw : P.largeRoot = none)
    (hord : orderOf P.twoAdicRoot = 2 ^ P.twoAdicity) (a : Nat) (ha : a ≤ P.twoAdicity)
    (ha64 : a < 64) :
    getRootOfUnity P (2 ^ a) = .ok (some (P.twoAdicRoot ^ (2 ^ (P.twoAdicity - a)))) ∧
    orderOf (P.twoAdicRoot ^ (2 ^ (P.twoAdicity - a))) = 2 ^ a := by
  constructor
  · unfold getRootOfUnity
    simp only [hw]
    have e : nextPowerOfTwo (2 ^ a) = 2 ^ a := by
      rw [nextPowerOfTwo_eq, Nat.clog_pow 2 a (by norm_num), if_pos ha64]
    have e2 : log2 (2 ^ a) = a := by rw [log2_eq_clog, Nat.clog_pow 2 a (by norm_num)]
    rw [e, e2, if_neg (by omega), iter_sq]
  · apply orderOf_pow_pow _ (Nat.two_pow_pos _)
    rw [hord, ← pow_add]; congr 1; omega

/-- on `0` (the wrapped `next_power_of_two`) `get_root_of_unity` returns `None` or panics only
    on an inconsistent configuration -/
theorem getRootOfUnity_zero (P : Params F) (hP : P.WF) : getRootOfUnity P 0 = .ok none := by
  unfold getRootOfUnity
  cases hw : P.largeRoot with
  | none => simp [nextPowerOfTwo, checkedNextPowerOfTwo]
  | some w =>
    obtain ⟨q, k, hq, hk, -, -, -, -⟩ := hP.large w hw
    simp [hq, hk, kAdicity, kAdicityAux, checkedPow, U64]

/-- under well-formed parameters, on `2^a · q^b` resp. `2^a` the root exists with the right order -/
theorem getRootOfUnity_two_pow (P : Params F) (hP : P.WF) (a : Nat) (ha : a ≤ P.twoAdicity)
    (ha64 : a < 64) : ∃ g, getRootOfUnity P (2 ^ a) = .ok (some g) ∧ orderOf g = 2 ^ a := by
  cases hw : P.largeRoot with
  | none => exact ⟨_, getRootOfUnity_small P hw hP.root_order a ha ha64⟩
  | some w =>
    obtain ⟨q, k, hq, hk, hq2, hodd, hq64, hord⟩ := hP.large w hw
    have := getRootOfUnity_large P w q k hw hq hk hq2 hodd hq64 hord a 0 ha (Nat.zero_le _)
      (by simpa using Nat.pow_lt_pow_right (by norm_num) ha64)
    simp only [pow_zero, mul_one] at this
    exact ⟨_, this⟩

end Field

/-! ## domains -/
section Field
variable {F : Type} [Field F] [DecidableEq F]

/-- the invariant of a constructed domain (any offset): the nine struct fields are coherent -/
structure Domain.Good (d : Domain F) : Prop where
  size_pos : 0 < d.size
  size_lt : d.size < 2 ^ 64
  sizeF : d.sizeAsFieldElement = (d.size : F)
  sizeInv : d.sizeInv * (d.size : F) = 1
  gen_order : orderOf d.groupGen = d.size
  genInv : d.groupGenInv * d.groupGen = 1
  offInv : d.offsetInv * d.offset = 1
  offPow : d.offsetPowSize = d.offset ^ d.size

theorem natCast_ne_zero_of_orderOf {g : F} {N : Nat} (hN : 0 < N) (hg : orderOf g = N) :
    ((N : Nat) : F) ≠ 0 := by
  have hp : IsPrimitiveRoot g N := hg ▸ IsPrimitiveRoot.orderOf g
  have : NeZero N := ⟨hN.ne'⟩
  exact (hp.neZero').ne

theorem ne_zero_of_orderOf {g : F} {N : Nat} (hN : 0 < N) (hg : orderOf g = N) : g ≠ 0 := by
  rintro rfl
  have h1 : (0 : F) ^ N = 1 := hg ▸ pow_orderOf_eq_one (0 : F)
  rw [zero_pow hN.ne'] at h1
  exact zero_ne_one h1

/-- the record built at the end of `Radix2EvaluationDomain::new` / `MixedRadixEvaluationDomain::new` -/
def mkDom (g : F) (N lg : Nat) : Domain F :=
  { size := N, logSizeOfGroup := lg, sizeAsFieldElement := (N : F),
    sizeInv := ((N : F))⁻¹, groupGen := g, groupGenInv := g⁻¹,
    offset := 1, offsetInv := 1, offsetPowSize := 1 }

theorem mkDomain_good {g : F} {N lg : Nat} (hN : 0 < N) (hlt : N < 2 ^ 64) (hg : orderOf g = N) :
    inv? ((N : Nat) : F) = some ((N : F))⁻¹ ∧ inv? g = some g⁻¹ ∧ Domain.Good (mkDom g N lg) := by
  have h1 := natCast_ne_zero_of_orderOf hN hg
  have h2 := ne_zero_of_orderOf hN hg
  refine ⟨inv?_ne h1, inv?_ne h2, ⟨hN, hlt, rfl, ?_, hg, ?_, ?_, ?_⟩⟩
  · exact inv_mul_cancel₀ h1
  · exact inv_mul_cancel₀ h2
  · simp [mkDom]
  · simp [mkDom]

/-- the complete specification of `Radix2EvaluationDomain::new` under well-formed parameters -/
theorem radix2New_cases (P : Params F) (hP : P.WF) (n : Nat) :
    (radix2New P n = .ok none ∧ (P.twoAdicity < Nat.clog 2 n ∨ 64 ≤ Nat.clog 2 n)) ∨
    (Nat.clog 2 n ≤ P.twoAdicity ∧ Nat.clog 2 n < 64 ∧
      ∃ g : F, orderOf g = 2 ^ Nat.clog 2 n ∧
        radix2New P n = .ok (some (mkDom g (2 ^ Nat.clog 2 n) (Nat.clog 2 n)))) := by
  unfold radix2New
  rw [nextPowerOfTwo_eq]
  by_cases h64 : Nat.clog 2 n < 64
  · rw [if_pos h64]
    simp only [trailingZeros_two_pow _ h64]
    by_cases hs : Nat.clog 2 n ≤ P.twoAdicity
    · right
      refine ⟨hs, h64, ?_⟩
      obtain ⟨g, hg, hord⟩ := getRootOfUnity_two_pow P hP _ hs h64
      obtain ⟨e1, e2, -⟩ := mkDomain_good (lg := Nat.clog 2 n) (Nat.two_pow_pos _)
        (Nat.pow_lt_pow_right (by norm_num) h64) hord
      refine ⟨g, hord, ?_⟩
      rw [if_neg (by omega), hg]
      simp only [e1, e2, mkDom]
    · left
      rw [if_pos (by omega)]
      exact ⟨rfl, Or.inl (by omega)⟩
  · left
    rw [if_neg h64]
    refine ⟨?_, Or.inr (by omega)⟩
    simp only [trailingZeros_zero, getRootOfUnity_zero P hP]
    split <;> rfl

end Field

/-! ## cosets, elements, `GeneralEvaluationDomain::new` -/
section Field
variable {F : Type} [Field F] [DecidableEq F]

theorem mkDom_offsets (g : F) (N lg : Nat) :
    (mkDom g N lg).offset = 1 ∧ (mkDom g N lg).offsetInv = 1 ∧ (mkDom g N lg).offsetPowSize = 1 :=
  ⟨rfl, rfl, rfl⟩

theorem getCoset_zero (d : Domain F) : getCoset d 0 = none := by
  simp [getCoset, inv?_zero]

theorem getCoset_ne (d : Domain F) (hlt : d.size < 2 ^ 64) {h : F} (hh : h ≠ 0) :
    getCoset d h = some { d with offset := h, offsetInv := h⁻¹, offsetPowSize := h ^ d.size } := by
  simp only [getCoset, inv?_ne hh, pow_eq _ _ hlt]

theorem getCoset_good (d : Domain F) (hd : d.Good) {h : F} (hh : h ≠ 0) :
    ∃ d', getCoset d h = some d' ∧ d'.Good ∧ d'.size = d.size ∧
      d'.logSizeOfGroup = d.logSizeOfGroup ∧ d'.groupGen = d.groupGen ∧
      d'.groupGenInv = d.groupGenInv ∧ d'.sizeInv = d.sizeInv ∧
      d'.sizeAsFieldElement = d.sizeAsFieldElement ∧
      d'.offset = h ∧ d'.offsetInv * h = 1 ∧ d'.offsetPowSize = h ^ d.size := by
  refine ⟨_, getCoset_ne d hd.size_lt hh, ⟨hd.size_pos, hd.size_lt, hd.sizeF, hd.sizeInv,
    hd.gen_order, hd.genInv, inv_mul_cancel₀ hh, rfl⟩, rfl, rfl, rfl, rfl, rfl, rfl, rfl,
    inv_mul_cancel₀ hh, rfl⟩

theorem element_eq (d : Domain F) (i : Nat) (hi : i < 2 ^ 64) :
    element d i = d.offset * d.groupGen ^ i := by
  unfold element
  simp only [pow_eq _ _ hi]
  by_cases h : d.offset = 1
  · simp [h]
  · simp only [ne_eq, h, not_false_eq_true, if_true]; ring

theorem elementsAux_eq (g : F) (n : Nat) : ∀ cur : F,
    elementsAux g n cur = (List.range n).map (fun i => cur * g ^ i) := by
  induction n with
  | zero => intro cur; rfl
  | succ n ih =>
    intro cur
    rw [elementsAux, ih, List.range_succ_eq_map, List.map_cons, List.map_map]
    simp only [pow_zero, mul_one, List.cons.injEq, true_and]
    apply List.map_congr_left
    intro i _
    simp only [Function.comp, Nat.succ_eq_add_one, pow_succ]; ring

theorem elements_eq (d : Domain F) :
    elements d = (List.range d.size).map (fun i => d.offset * d.groupGen ^ i) :=
  elementsAux_eq _ _ _

theorem elements_eq_map_element (d : Domain F) (hlt : d.size ≤ 2 ^ 64) :
    elements d = (List.range d.size).map (element d) := by
  rw [elements_eq]
  apply List.map_congr_left
  intro i hi
  rw [element_eq d i (lt_of_lt_of_le (List.mem_range.1 hi) hlt)]

theorem elements_length (d : Domain F) : (elements d).length = d.size := by
  rw [elements_eq]; simp

/-- `GeneralEvaluationDomain::new` = the radix-2 domain when that exists, else the mixed one
    (tried only when the field has a small subgroup) -/
theorem generalNew_eq (P : Params F) (n : Nat) :
    generalNew P n =
      match radix2New P n with
      | .panic => .panic
      | .ok (some d) => .ok (some (.radix2 d))
      | .ok none =>
        if P.smallBase.isSome then
          (match mixedNew P n with
           | .panic => .panic
           | .ok (some d) => .ok (some (.mixedRadix d))
           | .ok none => .ok none)
        else .ok none := rfl

theorem generalNew_of_radix2_some (P : Params F) (n : Nat) (d : Domain F)
    (h : radix2New P n = .ok (some d)) : generalNew P n = .ok (some (.radix2 d)) := by
  simp only [generalNew, h]

theorem generalNew_of_radix2_none (P : Params F) (n : Nat) (h : radix2New P n = .ok none) :
    generalNew P n = (match mixedNew P n with
      | .panic => .panic
      | .ok (some d) => .ok (some (.mixedRadix d))
      | .ok none => .ok none) := by
  simp only [generalNew, h]
  cases hb : P.smallBase with
  | none => simp [mixedNew, hb]
  | some q =>
    simp only [Option.isSome_some, if_true]
    cases mixedNew P n with
    | panic => rfl
    | ok o => cases o <;> rfl

end Field

/-! ## `best_mixed_domain_size`, `MixedRadixEvaluationDomain::new` -/

theorem growAux_spec (n : Nat) : ∀ (fuel r ta : Nat), n ≤ r * 2 ^ fuel →
    ∃ j, growAux n fuel r ta = (r * 2 ^ j, ta + j) ∧ n ≤ r * 2 ^ j ∧ ∀ i, i < j → r * 2 ^ i < n := by
  intro fuel
  induction fuel with
  | zero =>
    intro r ta h
    exact ⟨0, by simp [growAux], by simpa using h, fun i hi => absurd hi (Nat.not_lt_zero i)⟩
  | succ fuel ih =>
    intro r ta h
    by_cases hr : r < n
    · obtain ⟨j, hj, hge, hlt⟩ := ih (r * 2) (ta + 1) (by rw [Nat.pow_succ] at h; linarith)
      refine ⟨j + 1, ?_, ?_, ?_⟩
      · rw [growAux, if_pos hr, hj, Nat.pow_succ]
        congr 1
        · ring
        · omega
      · rw [Nat.pow_succ]; linarith
      · intro i hi
        cases i with
        | zero => simpa using hr
        | succ i =>
          have := hlt i (by omega)
          rw [Nat.pow_succ]; linarith
    · exact ⟨0, by simp [growAux, hr], by simp; omega, fun i hi => absurd hi (Nat.not_lt_zero i)⟩

theorem foldl_min_spec {β : Type} (p : β → Prop) [DecidablePred p] (f : β → Nat) (l : List β) :
    ∀ init : Nat,
      let R := l.foldl (fun best b => if p b then min best (f b) else best) init
      R ≤ init ∧ (∀ b ∈ l, p b → R ≤ f b) ∧ (R = init ∨ ∃ b ∈ l, p b ∧ R = f b) := by
  induction l with
  | nil => intro init; simp
  | cons x xs ih =>
    intro init
    simp only [List.foldl_cons]
    obtain ⟨h1, h2, h3⟩ := ih (if p x then min init (f x) else init)
    have hle : (if p x then min init (f x) else init) ≤ init := by
      split
      · exact Nat.min_le_left _ _
      · exact le_refl _
    refine ⟨le_trans h1 hle, ?_, ?_⟩
    · intro b hb hpb
      rcases List.mem_cons.1 hb with rfl | hb
      · refine le_trans h1 ?_
        rw [if_pos hpb]; exact Nat.min_le_right _ _
      · exact h2 b hb hpb
    · rcases h3 with h3 | ⟨b, hb, hpb, hR⟩
      · by_cases hpx : p x
        · simp only [if_pos hpx] at h3 ⊢
          rcases Nat.le_total init (f x) with hc | hc
          · left; rw [h3, Nat.min_eq_left hc]
          · right; exact ⟨x, List.mem_cons_self, hpx, by rw [h3, Nat.min_eq_right hc]⟩
        · simp only [if_neg hpx] at h3 ⊢; exact Or.inl h3
      · exact Or.inr ⟨b, List.mem_cons_of_mem _ hb, hpb, hR⟩

section Field
variable {F : Type} [Field F] [DecidableEq F]

theorem mixedNew_no_base (P : Params F) (n : Nat) (h : P.smallBase = none) :
    mixedNew P n = .ok none := by
  simp only [mixedNew, h]

/-- `best_mixed_domain_size` as a fold over `.1`/`.2` of `growAux` -/
theorem bestMixedDomainSize_eq (P : Params F) (n q k : Nat) (hq : P.smallBase = some q)
    (hk : P.smallAdicity = some k) :
    bestMixedDomainSize P n = .ok ((List.range (k + 1)).foldl (fun best b =>
      if (growAux n 65 (q ^ b) 0).2 ≤ P.twoAdicity then min best (growAux n 65 (q ^ b) 0).1
      else best) usizeMax) := by
  simp only [bestMixedDomainSize, hq, hk]

/-- `best_mixed_domain_size(n)` (for `n ≤ 2^63`, base `q ≥ 1`): the result `R` is
    `min(usize::MAX, least 2^a·q^b ≥ n with a ≤ s, b ≤ k)` -/
theorem bestMixedDomainSize_spec (P : Params F) (n q k : Nat) (hq : P.smallBase = some q)
    (hk : P.smallAdicity = some k) (hq1 : 1 ≤ q) (hn : n ≤ 2 ^ 63) :
    ∃ R, bestMixedDomainSize P n = .ok R ∧ R ≤ usizeMax ∧
      (∀ a b, a ≤ P.twoAdicity → b ≤ k → n ≤ 2 ^ a * q ^ b → R ≤ 2 ^ a * q ^ b) ∧
      (R = usizeMax ∨ ∃ a b, a ≤ P.twoAdicity ∧ b ≤ k ∧ n ≤ 2 ^ a * q ^ b ∧ R = 2 ^ a * q ^ b) := by
  refine ⟨_, bestMixedDomainSize_eq P n q k hq hk, ?_⟩
  have hfuel : ∀ b, n ≤ q ^ b * 2 ^ 65 := by
    intro b
    have h1 : 1 ≤ q ^ b := Nat.pow_pos hq1
    have : (2 : Nat) ^ 63 ≤ 2 ^ 65 := by norm_num
    nlinarith
  obtain ⟨h1, h2, h3⟩ := foldl_min_spec (fun b => (growAux n 65 (q ^ b) 0).2 ≤ P.twoAdicity)
    (fun b => (growAux n 65 (q ^ b) 0).1) (List.range (k + 1)) usizeMax
  refine ⟨h1, ?_, ?_⟩
  · intro a b ha hb hge
    obtain ⟨j, hj, hjge, hjlt⟩ := growAux_spec n 65 (q ^ b) 0 (hfuel b)
    have hja : j ≤ a := by
      by_contra hc
      have := hjlt a (by omega)
      rw [Nat.mul_comm] at this; omega
    refine le_trans (h2 b (List.mem_range.2 (by omega)) (by rw [hj]; simp; omega)) ?_
    rw [hj]
    simp only
    rw [Nat.mul_comm]
    exact Nat.mul_le_mul_right _ (Nat.pow_le_pow_right (by norm_num) hja)
  · rcases h3 with h3 | ⟨b, hb, hpb, hR⟩
    · exact Or.inl h3
    · right
      obtain ⟨j, hj, hjge, hjlt⟩ := growAux_spec n 65 (q ^ b) 0 (hfuel b)
      rw [hj] at hpb hR
      simp only [Nat.zero_add] at hpb hR
      exact ⟨j, b, hpb, by have := List.mem_range.1 hb; omega, by rw [Nat.mul_comm]; exact hjge,
        by rw [hR, Nat.mul_comm]⟩

theorem bestMixedDomainSize_ne_panic (P : Params F) (n q k : Nat) (hq : P.smallBase = some q)
    (hk : P.smallAdicity = some k) : bestMixedDomainSize P n ≠ .panic := by
  rw [bestMixedDomainSize_eq P n q k hq hk]; exact (by intro h; cases h)

theorem getRootOfUnity_ne_panic (P : Params F) (n : Nat)
    (h : P.largeRoot.isSome → P.smallBase.isSome ∧ P.smallAdicity.isSome) :
    getRootOfUnity P n ≠ .panic := by
  unfold getRootOfUnity
  cases hw : P.largeRoot with
  | none => simp only; split <;> exact (by intro h; cases h)
  | some w =>
    obtain ⟨h1, h2⟩ := h (by simp [hw])
    obtain ⟨q, hq⟩ := Option.isSome_iff_exists.1 h1
    obtain ⟨k, hk⟩ := Option.isSome_iff_exists.1 h2
    simp only [hq, hk]
    repeat' split
    all_goals exact (by intro h; cases h)

/-- `MixedRadixEvaluationDomain::new` does not panic when `SMALL_SUBGROUP_BASE` and
    `SMALL_SUBGROUP_BASE_ADICITY` are both present or both absent -/
theorem mixedNew_ne_panic (P : Params F) (n : Nat)
    (h : P.smallBase.isSome ↔ P.smallAdicity.isSome) : mixedNew P n ≠ .panic := by
  cases hq : P.smallBase with
  | none => rw [mixedNew_no_base P n hq]; exact (by intro h; cases h)
  | some q =>
    obtain ⟨k, hk⟩ := Option.isSome_iff_exists.1 (h.1 (by simp [hq]))
    have hroot : ∀ m, getRootOfUnity P m ≠ .panic := fun m =>
      getRootOfUnity_ne_panic P m (fun _ => ⟨by simp [hq], by simp [hk]⟩)
    unfold mixedNew
    simp only [hq, bestMixedDomainSize_eq P n q k hq hk]
    repeat' split
    all_goals first | (intro h; cases h; done) | skip
    all_goals (rename_i heq; exact absurd heq (hroot _))

end Field

theorem kAdicity_two_q {q : Nat} (hq2 : 2 ≤ q) (hodd : q % 2 = 1) (a b : Nat)
    (hn : 2 ^ a * q ^ b < 2 ^ 64) :
    a < 64 ∧ b < 64 ∧ kAdicity q (2 ^ a * q ^ b) = b ∧ kAdicity 2 (2 ^ a * q ^ b) = a ∧
    q ^ b < 2 ^ 64 ∧ 2 ^ a < 2 ^ 64 := by
  have hqpos : 0 < q := by omega
  have hqb : q ^ b ≤ 2 ^ a * q ^ b := Nat.le_mul_of_pos_left _ (Nat.two_pow_pos a)
  have h2a : 2 ^ a ≤ 2 ^ a * q ^ b := Nat.le_mul_of_pos_right _ (Nat.pow_pos hqpos)
  have hb64 : b < 64 := exp_lt_64 hq2 hqb hn
  have ha64 : a < 64 := exp_lt_64 (le_refl 2) h2a hn
  refine ⟨ha64, hb64, ?_, ?_, lt_of_le_of_lt hqb hn, lt_of_le_of_lt h2a hn⟩
  · rw [Nat.mul_comm]
    exact kAdicity_spec q hq2 (2 ^ a) b (Nat.two_pow_pos a) (not_dvd_two_pow_of_odd hq2 hodd a)
      (by omega)
  · exact kAdicity_spec 2 (le_refl 2) (q ^ b) a (Nat.pow_pos hqpos) (not_two_dvd_odd_pow hodd b)
      (by omega)

section Field
variable {F : Type} [Field F] [DecidableEq F]

/-- `MixedRadixEvaluationDomain::new(n)` (for `n ≤ 2^63`) on a field with a large subgroup root:
    when some `2^a·q^b ≥ n` (`a ≤ s`, `b ≤ k`) fits in a `u64`, the result is the domain of the
    LEAST such size, with a generator of exactly that order -/
theorem mixedNew_some (P : Params F) (w : F) (q k : Nat) (hw : P.largeRoot = some w)
    (hq : P.smallBase = some q) (hk : P.smallAdicity = some k) (hq2 : 2 ≤ q) (hodd : q % 2 = 1)
    (hq64 : q < 2 ^ 64) (hord : orderOf w = 2 ^ P.twoAdicity * q ^ k)
    (n : Nat) (hn : n ≤ 2 ^ 63) (a b : Nat) (ha : a ≤ P.twoAdicity) (hb : b ≤ k)
    (hge : n ≤ 2 ^ a * q ^ b) (hlt : 2 ^ a * q ^ b < 2 ^ 64) :
    ∃ a' b' g, a' ≤ P.twoAdicity ∧ b' ≤ k ∧ n ≤ 2 ^ a' * q ^ b' ∧ 2 ^ a' * q ^ b' < 2 ^ 64 ∧
      (∀ a b, a ≤ P.twoAdicity → b ≤ k → n ≤ 2 ^ a * q ^ b → 2 ^ a' * q ^ b' ≤ 2 ^ a * q ^ b) ∧
      orderOf g = 2 ^ a' * q ^ b' ∧
      mixedNew P n = .ok (some (mkDom g (2 ^ a' * q ^ b') a')) ∧
      (mkDom g (2 ^ a' * q ^ b') a').Good := by
  obtain ⟨R, hR, hRmax, hRmin, hRcase⟩ := bestMixedDomainSize_spec P n q k hq hk (by omega) hn
  have hRle := hRmin a b ha hb hge
  obtain ⟨a', b', ha', hb', hge', hRe⟩ : ∃ a' b', a' ≤ P.twoAdicity ∧ b' ≤ k ∧
      n ≤ 2 ^ a' * q ^ b' ∧ R = 2 ^ a' * q ^ b' := by
    rcases hRcase with h | h
    · refine ⟨a, b, ha, hb, hge, ?_⟩
      have : usizeMax = 2 ^ 64 - 1 := rfl
      omega
    · exact h
  have hlt' : 2 ^ a' * q ^ b' < 2 ^ 64 := by omega
  obtain ⟨ha64, hb64, hkq, hk2, hqb, h2a⟩ := kAdicity_two_q hq2 hodd a' b' hlt'
  obtain ⟨hg, hgord⟩ := getRootOfUnity_large P w q k hw hq hk hq2 hodd hq64 hord a' b' ha' hb' hlt'
  have hpos : 0 < 2 ^ a' * q ^ b' := Nat.mul_pos (Nat.two_pow_pos _) (Nat.pow_pos (by omega))
  obtain ⟨e1, e2, hgood⟩ := mkDomain_good (lg := a') hpos hlt' hgord
  refine ⟨a', b', _, ha', hb', hge', hlt', ?_, hgord, ?_, hgood⟩
  · intro a b ha hb hge
    rw [← hRe]; exact hRmin a b ha hb hge
  · unfold mixedNew
    simp only [hq, hR, hRe, hkq, hk2, checkedPow_of_lt hqb, checkedPow_of_lt h2a]
    have hmod : (q ^ b' * 2 ^ a') % U64 = 2 ^ a' * q ^ b' := by
      rw [Nat.mul_comm]; exact Nat.mod_eq_of_lt (by rw [U64_eq]; exact hlt')
    rw [if_neg (by rw [hmod]; exact fun h => h rfl), hg]
    simp only [e1, e2, mkDom]

end Field

/-! ## vanishing polynomial -/

theorem list_prod_range_eq_finset {M : Type} [CommMonoid M] (f : Nat → M) (n : Nat) :
    ((List.range n).map f).prod = ∏ i ∈ Finset.range n, f i := by
  induction n with
  | zero => simp
  | succ n ih => rw [List.range_succ, List.map_append, List.prod_append, ih, Finset.prod_range_succ]; simp

theorem list_sum_range_eq_finset {M : Type} [AddCommMonoid M] (f : Nat → M) (n : Nat) :
    ((List.range n).map f).sum = ∑ i ∈ Finset.range n, f i := by
  induction n with
  | zero => simp
  | succ n ih => rw [List.range_succ, List.map_append, List.sum_append, ih, Finset.sum_range_succ]; simp

/-- `x^n − y^n = ∏_{i<n} (x − ζ^i·y)` for a primitive `n`-th root `ζ` in a domain -/
theorem prod_range_sub_pow {R : Type} [CommRing R] [IsDomain R] {ζ : R} {n : Nat} (hpos : 0 < n)
    (hζ : IsPrimitiveRoot ζ n) (x y : R) :
    ∏ i ∈ Finset.range n, (x - ζ ^ i * y) = x ^ n - y ^ n := by
  rw [hζ.pow_sub_pow_eq_prod_sub_mul x y hpos]
  have : NeZero n := ⟨hpos.ne'⟩
  apply Finset.prod_nbij (fun i => ζ ^ i)
  · intro i _
    rw [Polynomial.mem_nthRootsFinset hpos, ← pow_mul, mul_comm, pow_mul, hζ.pow_eq_one, one_pow]
  · intro i hi j hj h
    exact hζ.pow_inj (Finset.mem_range.1 hi) (Finset.mem_range.1 hj) h
  · intro ξ hξ
    obtain ⟨i, hi, rfl⟩ := hζ.eq_pow_of_pow_eq_one ((Polynomial.mem_nthRootsFinset hpos (1 : R)).1 hξ)
    exact ⟨i, Finset.mem_range.2 hi, rfl⟩
  · intro i _; rfl

section Field
variable {F : Type} [Field F] [DecidableEq F]

theorem Domain.Good.prim {d : Domain F} (hd : d.Good) : IsPrimitiveRoot d.groupGen d.size :=
  hd.gen_order ▸ IsPrimitiveRoot.orderOf d.groupGen

theorem Domain.Good.offset_ne {d : Domain F} (hd : d.Good) : d.offset ≠ 0 := by
  intro h
  have := hd.offInv
  rw [h, mul_zero] at this
  exact zero_ne_one this

theorem Domain.Good.gen_ne {d : Domain F} (hd : d.Good) : d.groupGen ≠ 0 :=
  ne_zero_of_orderOf hd.size_pos hd.gen_order

theorem Domain.Good.size_ne {d : Domain F} (hd : d.Good) : (d.size : F) ≠ 0 :=
  natCast_ne_zero_of_orderOf hd.size_pos hd.gen_order

/-- `evaluate_vanishing_polynomial(τ) = τ^n − h^n` -/
theorem evaluateVanishingPolynomial_eq (d : Domain F) (hd : d.Good) (tau : F) :
    evaluateVanishingPolynomial d tau = tau ^ d.size - d.offset ^ d.size := by
  rw [evaluateVanishingPolynomial, pow_eq _ _ hd.size_lt, hd.offPow]

/-- `τ^n − h^n = ∏_{x ∈ elements} (τ − x)` -/
theorem prod_sub_elements (d : Domain F) (hd : d.Good) (tau : F) :
    ((elements d).map (fun x => tau - x)).prod = tau ^ d.size - d.offset ^ d.size := by
  rw [elements_eq, List.map_map, list_prod_range_eq_finset,
    ← prod_range_sub_pow hd.size_pos hd.prim tau d.offset]
  apply Finset.prod_congr rfl
  intro i _
  simp only [Function.comp]; ring

theorem mem_elements_iff (d : Domain F) (x : F) :
    x ∈ elements d ↔ ∃ i, i < d.size ∧ x = d.offset * d.groupGen ^ i := by
  rw [elements_eq, List.mem_map]
  constructor
  · rintro ⟨i, hi, rfl⟩; exact ⟨i, List.mem_range.1 hi, rfl⟩
  · rintro ⟨i, hi, rfl⟩; exact ⟨i, List.mem_range.2 hi, rfl⟩

/-- the vanishing polynomial vanishes exactly on the domain elements -/
theorem evaluateVanishingPolynomial_eq_zero_iff (d : Domain F) (hd : d.Good) (tau : F) :
    evaluateVanishingPolynomial d tau = 0 ↔ tau ∈ elements d := by
  rw [evaluateVanishingPolynomial_eq d hd, ← prod_sub_elements d hd, List.prod_eq_zero_iff,
    List.mem_map]
  constructor
  · rintro ⟨x, hx, h⟩
    rwa [← sub_eq_zero.1 h] at hx
  · intro h; exact ⟨tau, h, sub_self _⟩

/-- evaluation of a sparse polynomial `Σ c·X^i` -/
def evalSparse (s : List (Nat × F)) (x : F) : F := (s.map (fun ic => ic.2 * x ^ ic.1)).sum

theorem vanishingPolynomial_eq (d : Domain F) :
    vanishingPolynomial d = .ok [(0, -d.offsetPowSize), (d.size, 1)] := by
  simp [vanishingPolynomial, sparseFromCoefficientsVec, dropZerosS, insertByDeg]

theorem evalSparse_vanishing (d : Domain F) (hd : d.Good) (tau : F) :
    evalSparse [(0, -d.offsetPowSize), (d.size, 1)] tau = evaluateVanishingPolynomial d tau := by
  rw [evaluateVanishingPolynomial_eq d hd, hd.offPow]
  simp [evalSparse]; ring

end Field

/-! ## Lagrange coefficients -/
section Field
variable {F : Type} [Field F] [DecidableEq F]
open Polynomial

/-- the `i`-th domain element `h·g^i` -/
def node (d : Domain F) (i : Nat) : F := d.offset * d.groupGen ^ i

/-- the Lagrange basis value `L_i(τ) = ∏_{j ≠ i, j < n} (τ − x_j)/(x_i − x_j)` -/
def lagSpec (d : Domain F) (tau : F) (i : Nat) : F :=
  ∏ j ∈ (Finset.range d.size).erase i, (tau - node d j) / (node d i - node d j)

theorem node_inj (d : Domain F) (hd : d.Good) {i j : Nat} (hi : i < d.size) (hj : j < d.size)
    (h : node d i = node d j) : i = j :=
  hd.prim.pow_inj hi hj (mul_left_cancel₀ hd.offset_ne h)

theorem node_injOn (d : Domain F) (hd : d.Good) :
    Set.InjOn (node d) (Finset.range d.size : Set Nat) := by
  intro i hi j hj h
  exact node_inj d hd (Finset.mem_range.1 (by exact_mod_cast hi))
    (Finset.mem_range.1 (by exact_mod_cast hj)) h

theorem lagSpec_eq_eval_basis (d : Domain F) (tau : F) (i : Nat) :
    lagSpec d tau i = eval tau (Lagrange.basis (Finset.range d.size) (node d) i) := by
  rw [lagSpec, Lagrange.basis, eval_prod]
  apply Finset.prod_congr rfl
  intro j _
  simp [Lagrange.basisDivisor, div_eq_mul_inv, mul_comm]

theorem nodal_eq_X_pow_sub (d : Domain F) (hd : d.Good) :
    Lagrange.nodal (Finset.range d.size) (node d) = X ^ d.size - C (d.offset ^ d.size) := by
  have hp : IsPrimitiveRoot (C d.groupGen : F[X]) d.size :=
    hd.prim.map_of_injective (f := (C : F →+* F[X])) C_injective
  rw [Lagrange.nodal_eq, map_pow, ← prod_range_sub_pow hd.size_pos hp X (C d.offset)]
  apply Finset.prod_congr rfl
  intro i _
  simp only [node, map_mul, map_pow]; ring

theorem node_pow_size (d : Domain F) (hd : d.Good) (i : Nat) :
    node d i ^ d.size = d.offset ^ d.size := by
  rw [node, mul_pow, ← pow_mul, mul_comm i, pow_mul, hd.prim.pow_eq_one, one_pow, mul_one]

theorem node_ne_zero (d : Domain F) (hd : d.Good) (i : Nat) : node d i ≠ 0 :=
  mul_ne_zero hd.offset_ne (pow_ne_zero _ hd.gen_ne)

/-- `L_i(τ)` at a point off the coset: the barycentric closed form -/
theorem lagSpec_off (d : Domain F) (hd : d.Good) (tau : F) {i : Nat} (hi : i < d.size)
    (h : tau ≠ node d i) :
    lagSpec d tau i = (tau ^ d.size - d.offset ^ d.size) *
      (((d.size : F) * node d i ^ (d.size - 1))⁻¹ * (tau - node d i)⁻¹) := by
  rw [lagSpec_eq_eval_basis, Lagrange.eval_basis_not_at_node (Finset.mem_range.2 hi) h,
    Lagrange.nodalWeight_eq_eval_derivative_nodal (Finset.mem_range.2 hi),
    nodal_eq_X_pow_sub d hd]
  have hder : eval (node d i) (derivative (X ^ d.size - C (d.offset ^ d.size) : F[X])) =
      (d.size : F) * node d i ^ (d.size - 1) := by
    rw [derivative_sub, derivative_X_pow, derivative_C, sub_zero]; simp
  rw [hder]
  simp

/-- `L_i(x_m) = δ_{im}` -/
theorem lagSpec_on (d : Domain F) (hd : d.Good) {i m : Nat} (hi : i < d.size) (hm : m < d.size) :
    lagSpec d (node d m) i = if node d i = node d m then 1 else 0 := by
  rw [lagSpec_eq_eval_basis]
  by_cases h : i = m
  · subst h
    rw [if_pos rfl, Lagrange.eval_basis_self (node_injOn d hd) (Finset.mem_range.2 hi)]
  · rw [if_neg (fun e => h (node_inj d hd hi hm e)),
      Lagrange.eval_basis_of_ne h (Finset.mem_range.2 hm)]

theorem lagrangeFind_eq (tau g : F) (n : Nat) : ∀ cur : F,
    (∀ i j, i < n → j < n → cur * g ^ i = cur * g ^ j → i = j) →
    lagrangeFind tau g n cur = (List.range n).map (fun i => if cur * g ^ i = tau then 1 else 0) := by
  induction n with
  | zero => intro cur _; rfl
  | succ n ih =>
    intro cur hinj
    rw [lagrangeFind, List.range_succ_eq_map, List.map_cons, List.map_map]
    by_cases hc : cur = tau
    · subst hc
      rw [if_pos rfl]
      simp only [pow_zero, mul_one, if_true, List.cons.injEq, true_and]
      symm
      rw [List.eq_replicate_iff]
      refine ⟨by simp, ?_⟩
      intro b hb
      obtain ⟨i, hi, rfl⟩ := List.mem_map.1 hb
      simp only [Function.comp]
      rw [if_neg]
      intro e
      have := hinj (i + 1) 0 (by have := List.mem_range.1 hi; omega) (by omega)
        (by rw [pow_zero, mul_one]; exact e)
      omega
    · rw [if_neg hc]
      simp only [pow_zero, mul_one, hc, if_false, List.cons.injEq, true_and]
      rw [ih (cur * g)]
      · apply List.map_congr_left
        intro i _
        simp only [Function.comp, Nat.succ_eq_add_one, pow_succ]
        congr 2; ring
      · intro i j hi hj e
        have := hinj (i + 1) (j + 1) (by omega) (by omega) (by
          rw [pow_succ, pow_succ]; linear_combination e)
        omega

theorem lagrangeInvs_eq (tau g gInv : F) (n : Nat) : ∀ li negCur : F,
    lagrangeInvs tau g gInv n li negCur =
      (List.range n).map (fun i => li * gInv ^ i * (tau + negCur * g ^ i)) := by
  induction n with
  | zero => intro li negCur; rfl
  | succ n ih =>
    intro li negCur
    rw [lagrangeInvs, ih, List.range_succ_eq_map, List.map_cons, List.map_map]
    simp only [pow_zero, mul_one, List.cons.injEq, true_and]
    apply List.map_congr_left
    intro i _
    simp only [Function.comp, Nat.succ_eq_add_one, pow_succ]; ring

/-- `batch_inversion` on a vector of non-zero entries inverts every entry -/
theorem batchInversion_of_ne_zero (l : List F) (hl : ∀ x ∈ l, x ≠ 0) :
    batchInversion l = some (l.map (fun x => x⁻¹)) := by
  obtain ⟨w, hw, hlen, -, hspec⟩ := Ops.batchInvMul_correct (fieldInterp (F := F)) l 1
    (fun _ _ => trivial) trivial
  rw [batchInversion, hw]
  congr 1
  apply List.ext_getElem
  · simp [hlen]
  · intro i h1 h2
    have hi : i < l.length := by simpa using h2
    have := (hspec i hi h1).2 (hl _ (List.getElem_mem hi))
    simp only [fieldInterp, id] at this
    rw [this, List.getElem_map, one_mul]

end Field

section Field
variable {F : Type} [Field F] [DecidableEq F]
open Polynomial

theorem Domain.Good.genInv_eq {d : Domain F} (hd : d.Good) : d.groupGenInv = d.groupGen⁻¹ :=
  eq_inv_of_mul_eq_one_left hd.genInv

/-- `evaluate_all_lagrange_coefficients(τ)` never panics and returns the Lagrange basis values
    `L_i(τ) = ∏_{j≠i} (τ − x_j)/(x_i − x_j)`, in both branches -/
theorem evaluateAllLagrangeCoefficients_eq (d : Domain F) (hd : d.Good) (tau : F) :
    evaluateAllLagrangeCoefficients d tau = .ok ((List.range d.size).map (lagSpec d tau)) := by
  unfold evaluateAllLagrangeCoefficients
  by_cases hz : evaluateVanishingPolynomial d tau = 0
  · simp only [hz, if_true]
    obtain ⟨m, hm, rfl⟩ := (mem_elements_iff d tau).1
      ((evaluateVanishingPolynomial_eq_zero_iff d hd tau).1 hz)
    rw [lagrangeFind_eq _ _ _ _ (fun i j hi hj e => node_inj d hd hi hj e)]
    congr 1
    apply List.map_congr_left
    intro i hi
    exact (lagSpec_on d hd (List.mem_range.1 hi) hm).symm
  · simp only [hz, if_false, inv?_ne hz]
    have hnot : ∀ i, i < d.size → tau ≠ node d i := by
      intro i hi e
      exact hz ((evaluateVanishingPolynomial_eq_zero_iff d hd tau).2
        ((mem_elements_iff d tau).2 ⟨i, hi, e⟩))
    have hgi : d.groupGenInv ≠ 0 := by rw [hd.genInv_eq]; exact inv_ne_zero hd.gen_ne
    rw [lagrangeInvs_eq, pow_eq _ _ (by have := hd.size_lt; omega), batchInversion_of_ne_zero]
    · simp only [List.map_map]
      congr 1
      apply List.map_congr_left
      intro i hi
      have hi' := List.mem_range.1 hi
      rw [Function.comp, lagSpec_off d hd tau hi' (hnot i hi'), ← evaluateVanishingPolynomial_eq d hd]
      have hgn : (d.groupGen ^ i) ^ (d.size - 1) = d.groupGenInv ^ i := by
        rw [hd.genInv_eq, inv_pow]
        apply eq_inv_of_mul_eq_one_left
        rw [← pow_succ, Nat.sub_add_cancel hd.size_pos, ← pow_mul, mul_comm, pow_mul,
          hd.prim.pow_eq_one, one_pow]
      rw [node, mul_pow, hgn]
      have h1 := sub_ne_zero.2 (hnot i hi')
      have h2 := hd.size_ne
      have h3 : d.offset ^ (d.size - 1) ≠ 0 := pow_ne_zero _ hd.offset_ne
      have h4 : d.groupGenInv ^ i ≠ 0 := pow_ne_zero _ hgi
      rw [node] at h1
      have eB : tau + -d.offset * d.groupGen ^ i = tau - d.offset * d.groupGen ^ i := by ring
      rw [eB]
      generalize tau - d.offset * d.groupGen ^ i = B at h1 ⊢
      generalize evaluateVanishingPolynomial d tau = z at hz ⊢
      generalize d.offset ^ (d.size - 1) = hh at h3 ⊢
      generalize d.groupGenInv ^ i = gg at h4 ⊢
      generalize (d.size : F) = nn at h2 ⊢
      field_simp
    · intro x hx
      obtain ⟨i, hi, rfl⟩ := List.mem_map.1 hx
      have hi' := List.mem_range.1 hi
      have h1 := sub_ne_zero.2 (hnot i hi')
      rw [node] at h1
      refine mul_ne_zero (mul_ne_zero (mul_ne_zero (inv_ne_zero hz)
        (mul_ne_zero hd.size_ne (pow_ne_zero _ hd.offset_ne))) (pow_ne_zero _ hgi)) ?_
      intro e
      apply h1
      rw [← e]; ring

/-- Horner evaluation of the dense coefficient list `c` (low degree first) -/
def evalL (c : List F) (x : F) : F := c.foldr (fun a acc => a + x * acc) 0

/-- the polynomial with coefficient list `c` -/
noncomputable def polyOf : List F → F[X]
  | [] => 0
  | a :: cs => C a + X * polyOf cs

theorem eval_polyOf (c : List F) (x : F) : eval x (polyOf c) = evalL c x := by
  induction c with
  | nil => simp [polyOf, evalL]
  | cons a cs ih => simp only [polyOf, eval_add, eval_C, eval_mul, eval_X, ih, evalL, List.foldr_cons]

theorem coeff_polyOf_of_ge (c : List F) : ∀ m, c.length ≤ m → (polyOf c).coeff m = 0 := by
  induction c with
  | nil => intro m _; simp [polyOf]
  | cons a cs ih =>
    intro m hm
    obtain ⟨m', rfl⟩ : ∃ m', m = m' + 1 := ⟨m - 1, by simp at hm; omega⟩
    rw [polyOf, coeff_add, coeff_C_succ, coeff_X_mul, zero_add]
    exact ih m' (by simp at hm; omega)

theorem degree_polyOf_lt (c : List F) {n : Nat} (h : c.length ≤ n) : (polyOf c).degree < n := by
  rw [degree_lt_iff_coeff_zero]
  intro m hm
  exact coeff_polyOf_of_ge c m (le_trans h hm)

/-- Lagrange interpolation: `Σ_i L_i(τ)·p(x_i) = p(τ)` for `deg p < n` -/
theorem sum_lagSpec_mul_eval (d : Domain F) (hd : d.Good) (tau : F) (c : List F)
    (hc : c.length ≤ d.size) :
    ∑ i ∈ Finset.range d.size, lagSpec d tau i * evalL c (node d i) = evalL c tau := by
  have hdeg : (polyOf c).degree < (Finset.range d.size).card := by
    rw [Finset.card_range]; exact degree_polyOf_lt c hc
  have h := congrArg (eval tau) (Lagrange.eq_interpolate (node_injOn d hd) hdeg)
  rw [Lagrange.interpolate_apply, eval_finsetSum, eval_polyOf] at h
  rw [h]
  apply Finset.sum_congr rfl
  intro i _
  rw [eval_mul, eval_C, eval_polyOf, lagSpec_eq_eval_basis, mul_comm]

theorem zipWith_map_map {α β γ δ : Type} (f : β → γ → δ) (g : α → β) (h : α → γ) (l : List α) :
    List.zipWith f (l.map g) (l.map h) = l.map (fun x => f (g x) (h x)) := by
  induction l with
  | nil => rfl
  | cons x xs ih => simp [ih]

/-- list form: the inner product of the returned coefficients with the evaluations of `c` on the
    domain is the evaluation at `τ` -/
theorem lagrange_interpolation (d : Domain F) (hd : d.Good) (tau : F) (c : List F)
    (hc : c.length ≤ d.size) :
    ∃ L, evaluateAllLagrangeCoefficients d tau = .ok L ∧ L.length = d.size ∧
      (List.zipWith (· * ·) L ((elements d).map (evalL c))).sum = evalL c tau := by
  refine ⟨_, evaluateAllLagrangeCoefficients_eq d hd tau, by simp, ?_⟩
  rw [elements_eq, List.map_map, zipWith_map_map, list_sum_range_eq_finset,
    ← sum_lagSpec_mul_eval d hd tau c hc]
  rfl

end Field

/-! ## `reindex_by_subdomain` -/

/-- the non-multiples of `q+1` below `m·(q+1)`, in increasing order, are `i + i/q + 1`, `i < m·q` -/
theorem filter_not_dvd_range (m q : Nat) (hq : 1 ≤ q) :
    (List.range (m * (q + 1))).filter (fun j => decide (j % (q + 1) ≠ 0)) =
      (List.range (m * q)).map (fun i => i + i / q + 1) := by
  apply List.Pairwise.eq_of_mem_iff (r := (· < ·))
  · exact List.Pairwise.filter _ List.pairwise_lt_range
  · apply List.Pairwise.map _ _ List.pairwise_lt_range
    intro a b hab
    have := Nat.div_le_div_right (c := q) (Nat.le_of_lt hab)
    show a + a / q + 1 < b + b / q + 1
    omega
  · intro a
    simp only [List.mem_filter, List.mem_range, decide_eq_true_eq, List.mem_map]
    constructor
    · rintro ⟨halt, hmod⟩
      have hk : a / (q + 1) < m := Nat.div_lt_of_lt_mul (by rw [Nat.mul_comm]; exact halt)
      have hdm := Nat.div_add_mod a (q + 1)
      have htl : a % (q + 1) < q + 1 := Nat.mod_lt _ (by omega)
      generalize a / (q + 1) = k at hk hdm
      generalize a % (q + 1) = t at hmod hdm htl
      have e1 : (q + 1) * k = q * k + k := by ring
      refine ⟨q * k + (t - 1), ?_, ?_⟩
      · have : q * (k + 1) ≤ q * m := Nat.mul_le_mul_left q hk
        have e2 : q * (k + 1) = q * k + q := by ring
        rw [Nat.mul_comm m q]; omega
      · have : (q * k + (t - 1)) / q = k := by
          rw [Nat.mul_add_div (by omega), Nat.div_eq_of_lt (by omega)]; omega
        rw [this]; omega
    · rintro ⟨i, hi, rfl⟩
      have hk : i / q < m := Nat.div_lt_of_lt_mul (by rw [Nat.mul_comm]; exact hi)
      have hdm := Nat.div_add_mod i q
      have hr : i % q < q := Nat.mod_lt _ (by omega)
      generalize i / q = k at hk hdm
      generalize i % q = r at hdm hr
      have e : i + k + 1 = (r + 1) + (q + 1) * k := by rw [← hdm]; ring
      rw [e]
      constructor
      · have : (q + 1) * (k + 1) ≤ (q + 1) * m := Nat.mul_le_mul_left _ hk
        have e2 : (q + 1) * (k + 1) = (q + 1) * k + (q + 1) := by ring
        rw [Nat.mul_comm m]; omega
      · rw [Nat.add_mul_mod_self_left, Nat.mod_eq_of_lt (by omega)]; omega

/-- the multiples of `p` below `m·p` -/
theorem filter_dvd_range (m p : Nat) (hp : 1 ≤ p) :
    (List.range (m * p)).filter (fun j => decide (j % p = 0)) = (List.range m).map (· * p) := by
  apply List.Pairwise.eq_of_mem_iff (r := (· < ·))
  · exact List.Pairwise.filter _ List.pairwise_lt_range
  · apply List.Pairwise.map _ _ List.pairwise_lt_range
    intro a b hab
    exact Nat.mul_lt_mul_of_pos_right hab hp
  · intro a
    simp only [List.mem_filter, List.mem_range, decide_eq_true_eq, List.mem_map]
    constructor
    · rintro ⟨halt, hmod⟩
      obtain ⟨k, rfl⟩ := Nat.dvd_of_mod_eq_zero hmod
      refine ⟨k, ?_, Nat.mul_comm _ _⟩
      rw [Nat.mul_comm p k] at halt
      exact Nat.lt_of_mul_lt_mul_right halt
    · rintro ⟨k, hk, rfl⟩
      exact ⟨Nat.mul_lt_mul_of_pos_right hk hp, Nat.mul_mod_left _ _⟩

/-- the re-indexing order: first the multiples of `period`, then all other indices -/
def reindexOrder (N m : Nat) : List Nat :=
  (List.range m).map (· * (N / m)) ++ (List.range N).filter (fun j => decide (j % (N / m) ≠ 0))

/-- `reindexOrder` enumerates `[0, N)` exactly once -/
theorem reindexOrder_perm (N m : Nat) (hN : 0 < N) (hdvd : m ∣ N) :
    (reindexOrder N m).Perm (List.range N) := by
  obtain ⟨p, rfl⟩ := hdvd
  have hm : 0 < m := Nat.pos_of_mul_pos_right hN
  have hp : 0 < p := Nat.pos_of_mul_pos_left hN
  unfold reindexOrder
  rw [Nat.mul_div_cancel_left p hm, ← filter_dvd_range m p hp]
  have := List.filter_append_perm (fun j => decide (j % p = 0)) (List.range (m * p))
  refine List.Perm.trans ?_ this
  apply List.Perm.append (List.Perm.refl _)
  apply List.Perm.of_eq
  apply List.filter_congr
  intro j _
  simp

section Field
variable {F : Type} [Field F] [DecidableEq F]

/-- `reindex_by_subdomain(other, idx)` for a subdomain size dividing the domain size and an
    index inside the domain: no panic, and the result is the `idx`-th entry of `reindexOrder` -/
theorem reindexBySubdomain_spec (self other : Domain F) (idx : Nat)
    (hdvd : other.size ∣ self.size) (hidx : idx < self.size) (hlt : self.size ≤ 2 ^ 64) :
    ∃ r, reindexBySubdomain self other idx = .ok r ∧
      (reindexOrder self.size other.size)[idx]? = some r := by
  obtain ⟨p, hNp⟩ := hdvd
  have hN : 0 < self.size := by omega
  have hm : 0 < other.size := by
    rcases Nat.eq_zero_or_pos other.size with h | h
    · rw [h, Nat.zero_mul] at hNp; omega
    · exact h
  have hp : 0 < p := by
    rcases Nat.eq_zero_or_pos p with h | h
    · rw [h, Nat.mul_zero] at hNp; omega
    · exact h
  have hle : other.size ≤ self.size := by rw [hNp]; exact Nat.le_mul_of_pos_right _ hp
  have hper : self.size / other.size = p := by rw [hNp, Nat.mul_div_cancel_left p hm]
  unfold reindexBySubdomain reindexOrder
  rw [if_neg (by omega), if_neg (by omega)]
  simp only [hper]
  by_cases hi : idx < other.size
  · rw [if_pos hi]
    have hb : idx * p < self.size := by rw [hNp]; exact Nat.mul_lt_mul_of_pos_right hi hp
    refine ⟨_, rfl, ?_⟩
    rw [List.getElem?_append_left (by simpa using hi), Nat.mod_eq_of_lt (by rw [U64_eq]; omega)]
    simp [hi]
  · rw [if_neg hi]
    have hp2 : 2 ≤ p := by
      by_contra hc
      have : p = 1 := by omega
      rw [this, Nat.mul_one] at hNp; omega
    rw [if_neg (by omega)]
    obtain ⟨q, rfl⟩ : ∃ q, p = q + 1 := ⟨p - 1, by omega⟩
    have hq : 1 ≤ q := by omega
    have hmq : other.size * (q + 1) = other.size * q + other.size := by ring
    have hi2 : idx - other.size < other.size * q := by omega
    have hget : ((List.range self.size).filter (fun j => decide (j % (q + 1) ≠ 0)))[idx - other.size]?
        = some (idx - other.size + (idx - other.size) / q + 1) := by
      rw [hNp, filter_not_dvd_range _ q hq]
      simp [hi2]
    have hbound : idx - other.size + (idx - other.size) / q + 1 < self.size := by
      have := List.mem_of_getElem? hget
      exact List.mem_range.1 (List.mem_filter.1 this).1
    refine ⟨_, rfl, ?_⟩
    rw [List.getElem?_append_right (by simpa using Nat.le_of_not_lt hi)]
    simp only [List.length_map, List.length_range, Nat.add_sub_cancel]
    rw [hget, Nat.mod_eq_of_lt (by rw [U64_eq]; omega)]

end Field

/-! ## `Radix2EvaluationDomain::new`: derived forms -/
section Field
variable {F : Type} [Field F] [DecidableEq F]

theorem radix2New_ne_panic (P : Params F) (hP : P.WF) (n : Nat) : radix2New P n ≠ .panic := by
  rcases radix2New_cases P hP n with ⟨h, -⟩ | ⟨-, -, g, -, h⟩ <;> rw [h] <;> (intro h; cases h)

theorem radix2New_none_iff (P : Params F) (hP : P.WF) (n : Nat) :
    radix2New P n = .ok none ↔ (P.twoAdicity < Nat.clog 2 n ∨ 64 ≤ Nat.clog 2 n) := by
  rcases radix2New_cases P hP n with ⟨h, h'⟩ | ⟨h1, h2, g, -, h⟩
  · exact ⟨fun _ => h', fun _ => h⟩
  · constructor
    · intro e; rw [h] at e; cases e
    · intro e; omega

/-- the successful case: the domain of the least power of two `≥ n` -/
theorem radix2New_some (P : Params F) (hP : P.WF) (n : Nat) (h1 : Nat.clog 2 n ≤ P.twoAdicity)
    (h2 : Nat.clog 2 n < 64) :
    ∃ d, radix2New P n = .ok (some d) ∧ d.Good ∧
      d.logSizeOfGroup = Nat.clog 2 n ∧ d.size = 2 ^ d.logSizeOfGroup ∧ n ≤ d.size ∧
      (∀ k, n ≤ 2 ^ k → d.size ≤ 2 ^ k) ∧
      orderOf d.groupGen = d.size ∧ d.groupGenInv * d.groupGen = 1 ∧
      d.sizeInv * (d.size : F) = 1 ∧ d.sizeAsFieldElement = (d.size : F) ∧
      d.offset = 1 ∧ d.offsetInv = 1 ∧ d.offsetPowSize = 1 := by
  rcases radix2New_cases P hP n with ⟨-, h'⟩ | ⟨-, -, g, hg, h⟩
  · omega
  · have hgood := (mkDomain_good (lg := Nat.clog 2 n) (Nat.two_pow_pos _)
      (Nat.pow_lt_pow_right (by norm_num) h2) hg).2.2
    refine ⟨_, h, hgood, rfl, rfl, le_two_pow_clog n, ?_, hgood.gen_order, hgood.genInv,
      hgood.sizeInv, hgood.sizeF, rfl, rfl, rfl⟩
    intro k hk
    exact Nat.pow_le_pow_right (by norm_num) ((Nat.clog_le_iff_le_pow (by norm_num)).2 hk)

end Field

/-! ## mixed-radix FFT: specification-level definitions -/

/-- position of index `i` after the mixed-radix digit reversal with radices `R` (the head of `R`
    is the radix of the least significant digit of `i`, which becomes the most significant) -/
def pos : List Nat → Nat → Nat
  | [], _ => 0
  | r :: R, i => (i % r) * R.prod + pos R (i / r)

section Field
variable {F : Type} [Field F] [DecidableEq F]

/-- a list as a function (`0` outside) -/
def fn (l : List F) : Nat → F := fun i => l.getD i 0

/-- the table `[f 0, …, f (N-1)]` -/
def tab (N : Nat) (f : Nat → F) : List F := (List.range N).map f

/-- the DFT sum `Σ_{i<N} x_i·W^(i·k)` -/
def dftF (N : Nat) (W : F) (x : Nat → F) (k : Nat) : F := ∑ i ∈ Finset.range N, x i * W ^ (i * k)

/-- one radix-`r` decimation-in-time pass on consecutive chunks of `r·m` entries:
    `out[b·rm + K] = Σ_{l<r} in[b·rm + l·m + K mod m]·W^(l·K)` (`K < r·m`) -/
def passF (r m : Nat) (W : F) (y : Nat → F) : Nat → F :=
  fun p => ∑ l ∈ Finset.range r, y (p / (r * m) * (r * m) + l * m + p % m) * W ^ (l * (p % (r * m)))

theorem tab_length (N : Nat) (f : Nat → F) : (tab N f).length = N := by simp [tab]

theorem fn_tab (N : Nat) (f : Nat → F) {i : Nat} (hi : i < N) : fn (tab N f) i = f i := by
  simp [fn, tab, List.getD, hi]

theorem tab_congr {N : Nat} {f g : Nat → F} (h : ∀ i, i < N → f i = g i) : tab N f = tab N g := by
  apply List.map_congr_left
  intro i hi
  exact h i (List.mem_range.1 hi)

theorem tab_fn (l : List F) : tab l.length (fn l) = l := by
  apply List.ext_getElem
  · simp [tab]
  · intro i h1 h2
    simp [tab, fn, List.getD, h2]

theorem tab_add (a b : Nat) (f : Nat → F) : tab (a + b) f = tab a f ++ tab b (fun i => f (a + i)) := by
  simp [tab, List.range_add, List.map_map, Function.comp]

end Field

/-! ## mixed-radix FFT: the function-level correctness argument -/
section Field
variable {F : Type} [Field F] [DecidableEq F]

theorem sum_range_mul_eq {M : Type} [AddCommMonoid M] (r m : Nat) (f : Nat → M) :
    ∑ I ∈ Finset.range (r * m), f I =
      ∑ l ∈ Finset.range r, ∑ i ∈ Finset.range m, f (r * i + l) := by
  induction m with
  | zero => simp
  | succ m ih =>
    rw [Nat.mul_succ, Finset.sum_range_add, ih, ← Finset.sum_add_distrib]
    apply Finset.sum_congr rfl
    intro l _
    rw [Finset.sum_range_succ]

/-- the decimation-in-time step: a radix-`r` pass turns the `r` DFTs (size `m`, root `W^r`) of the
    residue-class subsequences into the DFT (size `r·m`, root `W`) of the whole sequence -/
theorem passF_step (r m : Nat) (hr : 0 < r) (hm : 0 < m) (W : F) (hW : (W ^ r) ^ m = 1)
    (x y : Nat → F)
    (hy : ∀ c, c < r → ∀ j, j < m → y (c * m + j) = dftF m (W ^ r) (fun i => x (r * i + c)) j) :
    ∀ K, K < r * m → passF r m W y K = dftF (r * m) W x K := by
  intro K hK
  have hKm : K % m < m := Nat.mod_lt _ hm
  unfold passF dftF
  rw [sum_range_mul_eq, Nat.div_eq_of_lt hK, Nat.mod_eq_of_lt hK]
  apply Finset.sum_congr rfl
  intro l hl
  have hl' := Finset.mem_range.1 hl
  rw [Nat.zero_mul, Nat.zero_add, hy l hl' _ hKm]
  unfold dftF
  rw [Finset.sum_mul]
  apply Finset.sum_congr rfl
  intro i _
  have e : W ^ ((r * i + l) * K) = (W ^ r) ^ (i * (K % m)) * W ^ (l * K) := by
    have hK2 : K = m * (K / m) + K % m := (Nat.div_add_mod K m).symm
    have : (W ^ r) ^ (i * K) = (W ^ r) ^ (i * (K % m)) := by
      conv_lhs => rw [hK2]
      rw [Nat.mul_add, pow_add, ← Nat.mul_assoc, Nat.mul_comm i m, Nat.mul_assoc, pow_mul, hW,
        one_pow, one_mul]
    rw [← this, ← pow_mul, ← pow_add]
    congr 1; ring
  rw [e]; ring

/-- a pass commutes with shifting the array by a multiple of the chunk size -/
theorem passF_shift (r m : Nat) (hrm : 0 < r * m) (W : F) (y : Nat → F) (k : Nat) :
    passF r m W (fun p => y (k * (r * m) + p)) = fun p => passF r m W y (k * (r * m) + p) := by
  funext p
  unfold passF
  apply Finset.sum_congr rfl
  intro l _
  have hm : 0 < m := Nat.pos_of_mul_pos_left hrm
  have e1 : (k * (r * m) + p) / (r * m) = k + p / (r * m) := by
    rw [Nat.mul_comm k, Nat.mul_add_div hrm]
  have e2 : (k * (r * m) + p) % (r * m) = p % (r * m) := by
    rw [Nat.mul_comm k, Nat.mul_add_mod]
  have e3 : (k * (r * m) + p) % m = p % m := by
    rw [show k * (r * m) = m * (k * r) by ring, Nat.mul_add_mod]
  simp only [e1, e2, e3]
  rw [show k * (r * m) + (p / (r * m) * (r * m) + l * m + p % m) =
    (k + p / (r * m)) * (r * m) + l * m + p % m by ring]

/-- the passes for the radix list `R` (head = LAST pass), twiddles from `Ω` of order `n` -/
def algF (Ω : F) (n : Nat) : List Nat → (Nat → F) → (Nat → F)
  | [], y => y
  | r :: R, y => passF r R.prod (Ω ^ (n / (r * R.prod))) (algF Ω n R y)

theorem algF_shift (Ω : F) (n : Nat) : ∀ (R : List Nat), (∀ r ∈ R, 0 < r) → ∀ (y : Nat → F) (k : Nat),
    algF Ω n R (fun p => y (k * R.prod + p)) = fun p => algF Ω n R y (k * R.prod + p) := by
  intro R
  induction R with
  | nil => intro _ y k; rfl
  | cons r R ih =>
    intro hR y k
    have hr : 0 < r := hR r List.mem_cons_self
    have hR' : ∀ r' ∈ R, 0 < r' := fun r' h => hR r' (List.mem_cons_of_mem _ h)
    have hp : 0 < R.prod := List.prod_pos (by simpa using hR')
    simp only [algF, List.prod_cons]
    have := ih hR' y (k * r)
    rw [show k * r * R.prod = k * (r * R.prod) by ring] at this
    rw [this, passF_shift r R.prod (Nat.mul_pos hr hp)]

theorem pos_cons_mul_add (r : Nat) (R : List Nat) (hr : 0 < r) (i c : Nat) (hc : c < r) :
    pos (r :: R) (r * i + c) = c * R.prod + pos R i := by
  rw [pos, Nat.mul_add_mod, Nat.mod_eq_of_lt hc, Nat.mul_add_div hr, Nat.div_eq_of_lt hc,
    Nat.add_zero]

/-- correctness of the pass sequence: on the digit-reversed input the passes compute the DFT -/
theorem algF_spec (Ω : F) (n : Nat) (hΩ : Ω ^ n = 1) : ∀ (R : List Nat), (∀ r ∈ R, 0 < r) →
    R.prod ∣ n → ∀ (x y : Nat → F), (∀ i, i < R.prod → y (pos R i) = x i) →
    ∀ K, K < R.prod → algF Ω n R y K = dftF R.prod (Ω ^ (n / R.prod)) x K := by
  intro R
  induction R with
  | nil =>
    intro _ _ x y h K hK
    simp only [List.prod_nil, Nat.lt_one_iff] at hK
    subst hK
    have := h 0 (by simp)
    simp only [pos] at this
    simp [algF, dftF, this]
  | cons r R ih =>
    intro hR hdvd x y h K hK
    have hr : 0 < r := hR r List.mem_cons_self
    have hR' : ∀ r' ∈ R, 0 < r' := fun r' h => hR r' (List.mem_cons_of_mem _ h)
    have hp : 0 < R.prod := List.prod_pos (by simpa using hR')
    rw [List.prod_cons] at hdvd hK h ⊢
    obtain ⟨t, ht⟩ := hdvd
    have hdvd' : R.prod ∣ n := ⟨r * t, by rw [ht]; ring⟩
    have e1 : n / (r * R.prod) = t := by rw [ht, Nat.mul_div_cancel_left _ (Nat.mul_pos hr hp)]
    have e2 : n / R.prod = r * t := by
      rw [ht, show r * R.prod * t = R.prod * (r * t) by ring, Nat.mul_div_cancel_left _ hp]
    have hWr : (Ω ^ t) ^ r = Ω ^ (n / R.prod) := by rw [e2, ← pow_mul, Nat.mul_comm]
    have hW1 : ((Ω ^ t) ^ r) ^ R.prod = 1 := by
      have e3 : t * (r * R.prod) = n := by rw [ht]; ring
      rw [← pow_mul, ← pow_mul, e3]; exact hΩ
    simp only [algF, e1]
    apply passF_step r R.prod hr hp (Ω ^ t) hW1 x
    · intro c hc j hj
      have hs := congrFun (algF_shift Ω n R hR' y c) j
      rw [← hs, hWr]
      apply ih hR' hdvd' _ _ _ j hj
      intro i hi
      rw [← pos_cons_mul_add r R hr i c hc]
      apply h
      calc r * i + c < r * i + r := by omega
        _ = r * (i + 1) := by ring
        _ ≤ r * R.prod := Nat.mul_le_mul_left r hi
    · exact hK

end Field

/-- number of indices `< n` not yet marked in `seen` -/
def permUnseenCnt (n : Nat) (seen : Array Bool) : Nat :=
  ((Finset.range n).filter (fun j => seen[j]? = some false)).card

theorem permUnseenCnt_le (n : Nat) (seen : Array Bool) : permUnseenCnt n seen ≤ n := by
  unfold permUnseenCnt
  exact (Finset.card_filter_le _ _).trans (by simp)

theorem permUnseenCnt_set_lt (n : Nat) (seen : Array Bool) (i : Nat) (hi : i < n)
    (hsi : seen[i]? = some false) :
    permUnseenCnt n (seen.setIfInBounds i true) < permUnseenCnt n seen := by
  unfold permUnseenCnt
  apply Finset.card_lt_card
  rw [Finset.ssubset_iff_of_subset]
  · refine ⟨i, ?_, ?_⟩
    · simp [hi, hsi]
    · simp only [Finset.mem_filter, Finset.mem_range, not_and]
      intro _
      rw [Array.getElem?_setIfInBounds]
      simp
  · intro j
    simp only [Finset.mem_filter, Finset.mem_range]
    rintro ⟨hj, h⟩
    refine ⟨hj, ?_⟩
    rw [Array.getElem?_setIfInBounds] at h
    by_cases hij : i = j
    · simp [hij] at h
    · simpa [hij] using h

/-- outer-level invariant of the cycle-walking permutation loop -/
structure PermInv {F : Type} (perm : Nat → Nat) (a0 : List F) (arr : Array F) (seen : Array Bool) :
    Prop where
  hsz1 : arr.size = a0.length
  hsz2 : seen.size = a0.length
  I1 : ∀ j, seen[j]? = some true → arr[perm j]? = a0[j]?
  I2 : ∀ j, seen[j]? = some false → arr[perm j]? = a0[perm j]?
  I4 : ∀ k : Nat, seen[k]? = some false → arr[k]? = a0[k]?

theorem permuteCycle_inv {F : Type} (perm : Nat → Nat) (a0 : List F)
    (hmap : ∀ i, i < a0.length → perm i < a0.length)
    (hinj : ∀ i j, i < a0.length → j < a0.length → perm i = perm j → i = j) :
    ∀ (fuel : Nat) (arr : Array F) (seen : Array Bool) (i : Nat) (ai : F),
      arr.size = a0.length → seen.size = a0.length → i < a0.length →
      (∀ j, seen[j]? = some true → arr[perm j]? = a0[j]?) →
      (∀ j, seen[j]? = some false → arr[perm j]? = a0[perm j]?) →
      (∀ k : Nat, seen[k]? = some false → k ≠ i → arr[k]? = a0[k]?) →
      (seen[i]? = some false → a0[i]? = some ai) →
      permUnseenCnt a0.length seen < fuel →
      PermInv perm a0 (permuteCycle perm fuel (arr, seen) i ai).1
          (permuteCycle perm fuel (arr, seen) i ai).2 ∧
        (∀ j : Nat, seen[j]? = some true → (permuteCycle perm fuel (arr, seen) i ai).2[j]? = some true) ∧
        (permuteCycle perm fuel (arr, seen) i ai).2[i]? = some true := by
  intro fuel
  induction fuel with
  | zero => intro arr seen i ai _ _ _ _ _ _ _ h; omega
  | succ fuel ih =>
    intro arr seen i ai hs1 hs2 hi I1 I2 I4 Iai hcnt
    have hsi : seen[i]? = some seen[i] := Array.getElem?_eq_getElem (by omega)
    cases hb : seen[i] with
    | true =>
      rw [hb] at hsi
      simp only [permuteCycle, hsi]
      refine ⟨⟨hs1, hs2, I1, I2, ?_⟩, fun j h => h, trivial⟩
      intro k hk
      apply I4 k hk
      rintro rfl
      rw [hsi] at hk; cases hk
    | false =>
      rw [hb] at hsi
      have hd : perm i < arr.size := by have := hmap i hi; omega
      have hdest : arr[perm i]? = some arr[perm i] := Array.getElem?_eq_getElem hd
      have hlt : ∀ j b, seen[j]? = some b → j < a0.length := by
        intro j b h
        by_contra hc
        rw [Array.getElem?_eq_none (by omega)] at h
        cases h
      simp only [permuteCycle, hsi, hdest]
      have key := ih (arr.setIfInBounds (perm i) ai) (seen.setIfInBounds i true) (perm i)
        arr[perm i] (by simp [hs1]) (by simp [hs2]) (hmap i hi) ?_ ?_ ?_ ?_ ?_
      · obtain ⟨k1, k2, k3⟩ := key
        refine ⟨k1, ?_, ?_⟩
        · intro j hj
          apply k2
          rw [Array.getElem?_setIfInBounds]
          by_cases hij : i = j
          · subst hij; rw [hsi] at hj; cases hj
          · simp [hij, hj]
        · apply k2
          rw [Array.getElem?_setIfInBounds]
          simp; omega
      · -- I1
        intro j hj
        rw [Array.getElem?_setIfInBounds] at hj
        rw [Array.getElem?_setIfInBounds]
        by_cases hij : i = j
        · subst hij
          simp [hd, Iai hsi]
        · simp only [hij, if_false] at hj
          have hne : perm i ≠ perm j := fun h => hij (hinj i j hi (hlt j _ hj) h)
          simp only [hne, if_false]
          exact I1 j hj
      · -- I2
        intro j hj
        rw [Array.getElem?_setIfInBounds] at hj
        rw [Array.getElem?_setIfInBounds]
        by_cases hij : i = j
        · subst hij
          simp at hj
        · simp only [hij, if_false] at hj
          have hne : perm i ≠ perm j := fun h => hij (hinj i j hi (hlt j _ hj) h)
          simp only [hne, if_false]
          exact I2 j hj
      · -- I4'
        intro k hk hne
        rw [Array.getElem?_setIfInBounds] at hk
        rw [Array.getElem?_setIfInBounds]
        by_cases hik : i = k
        · subst hik
          simp at hk
        · simp only [hik, if_false] at hk
          simp only [Ne.symm hne, if_false]
          exact I4 k hk (Ne.symm hik)
      · -- Iai
        intro _
        rw [← I2 i hsi, hdest]
      · have := permUnseenCnt_set_lt a0.length seen i hi hsi
        omega

theorem applyPermutation_fold {F : Type} (perm : Nat → Nat) (a0 : List F)
    (hmap : ∀ i, i < a0.length → perm i < a0.length)
    (hinj : ∀ i j, i < a0.length → j < a0.length → perm i = perm j → i = j) :
    ∀ m, m ≤ a0.length →
      PermInv perm a0
        ((List.range m).foldl (fun (st : Array F × Array Bool) k =>
          match st.1[k]? with
          | some ak => permuteCycle perm (a0.length + 1) st k ak
          | none => st) (a0.toArray, Array.replicate a0.length false)).1
        ((List.range m).foldl (fun (st : Array F × Array Bool) k =>
          match st.1[k]? with
          | some ak => permuteCycle perm (a0.length + 1) st k ak
          | none => st) (a0.toArray, Array.replicate a0.length false)).2 ∧
      ∀ k, k < m →
        ((List.range m).foldl (fun (st : Array F × Array Bool) k =>
          match st.1[k]? with
          | some ak => permuteCycle perm (a0.length + 1) st k ak
          | none => st) (a0.toArray, Array.replicate a0.length false)).2[k]? = some true := by
  intro m
  induction m with
  | zero =>
    intro _
    refine ⟨⟨by simp, by simp, ?_, ?_, ?_⟩, by intro k hk; omega⟩
    · intro j hj
      simp only [List.range_zero, List.foldl_nil] at hj
      rw [Array.getElem?_replicate] at hj
      split at hj <;> cases hj
    · intro j hj
      simp
    · intro j hj
      simp
  | succ m ih =>
    intro hm
    obtain ⟨inv, hall⟩ := ih (by omega)
    rw [List.range_succ, List.foldl_append]
    generalize ((List.range m).foldl (fun (st : Array F × Array Bool) k =>
          match st.1[k]? with
          | some ak => permuteCycle perm (a0.length + 1) st k ak
          | none => st) (a0.toArray, Array.replicate a0.length false)) = st at inv hall ⊢
    obtain ⟨arr, seen⟩ := st
    simp only at inv hall
    have hmlt : m < arr.size := by have := inv.hsz1; omega
    have hget : arr[m]? = some arr[m] := Array.getElem?_eq_getElem hmlt
    simp only [List.foldl_cons, List.foldl_nil, hget]
    have key := permuteCycle_inv perm a0 hmap hinj (a0.length + 1) arr seen m arr[m]
      inv.hsz1 inv.hsz2 (by omega) inv.I1 inv.I2 (fun k hk _ => inv.I4 k hk)
      (fun h => by rw [← inv.I4 m h, hget])
      (by have := permUnseenCnt_le a0.length seen; omega)
    obtain ⟨k1, k2, k3⟩ := key
    refine ⟨k1, ?_⟩
    intro k hk
    by_cases hkm : k = m
    · subst hkm; exact k3
    · exact k2 k (hall k (by omega))

theorem applyPermutation_spec {F : Type} (perm : Nat → Nat) (a : List F)
    (hmap : ∀ i, i < a.length → perm i < a.length)
    (hinj : ∀ i j, i < a.length → j < a.length → perm i = perm j → i = j) :
    (applyPermutation perm a).length = a.length ∧
    ∀ i, i < a.length → (applyPermutation perm a)[perm i]? = a[i]? := by
  obtain ⟨inv, hall⟩ := applyPermutation_fold perm a hmap hinj a.length le_rfl
  unfold applyPermutation
  refine ⟨?_, ?_⟩
  · simp only [Array.length_toList]
    exact inv.hsz1
  · intro i hi
    simp only [Array.getElem?_toList]
    exact inv.I1 i (hall i hi)

/-- non-vacuity: a genuine 3-cycle on a 4-element list -/
example : applyPermutation (fun i => if i < 3 then (i + 1) % 3 else i) [10, 20, 30, 40]
    = [30, 10, 20, 40] := by decide

/-! ## bit reversal (`utils::bitreverse`, `bitreverse_permutation_in_place`) -/

theorem pos_replicate_two_succ (w i : Nat) :
    pos (List.replicate (w + 1) 2) i = (i % 2) * 2 ^ w + pos (List.replicate w 2) (i / 2) := by
  rw [List.replicate_succ, pos, List.prod_replicate]

theorem pos_replicate_two_lt (w k : Nat) : pos (List.replicate w 2) k < 2 ^ w := by
  induction w generalizing k with
  | zero => simp [pos]
  | succ w ih =>
    rw [pos_replicate_two_succ, Nat.pow_succ]
    have h1 := ih (k / 2)
    have h2 : k % 2 < 2 := Nat.mod_lt _ (by omega)
    generalize pos (List.replicate w 2) (k / 2) = y at h1
    generalize 2 ^ w = P at *
    rcases (by omega : k % 2 = 0 ∨ k % 2 = 1) with h | h <;> rw [h] <;> omega

/-- second recursion: the new most significant input bit becomes the least significant output bit -/
theorem pos_replicate_two_succ' (w i : Nat) :
    pos (List.replicate (w + 1) 2) i = 2 * pos (List.replicate w 2) i + (i / 2 ^ w) % 2 := by
  induction w generalizing i with
  | zero => simp [pos]
  | succ w ih =>
    rw [pos_replicate_two_succ, ih (i / 2), pos_replicate_two_succ w i, Nat.div_div_eq_div_mul,
      ← Nat.pow_succ', Nat.pow_succ]
    generalize pos (List.replicate w 2) (i / 2) = y
    generalize (i / (2 ^ w * 2)) % 2 = z
    generalize 2 ^ w = P
    rcases (by omega : i % 2 = 0 ∨ i % 2 = 1) with h | h <;> rw [h] <;> omega

theorem pos_replicate_two_add_mul (w x c : Nat) :
    pos (List.replicate w 2) (x + c * 2 ^ w) = pos (List.replicate w 2) x := by
  induction w generalizing x with
  | zero => simp [pos]
  | succ w ih =>
    rw [pos_replicate_two_succ, pos_replicate_two_succ]
    have e1 : (x + c * 2 ^ (w + 1)) % 2 = x % 2 := by
      rw [Nat.pow_succ, ← Nat.mul_assoc]; omega
    have e2 : (x + c * 2 ^ (w + 1)) / 2 = x / 2 + c * 2 ^ w := by
      rw [Nat.pow_succ, ← Nat.mul_assoc]; omega
    rw [e1, e2, ih]

theorem pos_replicate_two_invol (w k : Nat) (hk : k < 2 ^ w) :
    pos (List.replicate w 2) (pos (List.replicate w 2) k) = k := by
  induction w generalizing k with
  | zero => simp [pos]; omega
  | succ w ih =>
    have hk2 : k / 2 < 2 ^ w := by rw [Nat.pow_succ] at hk; omega
    have hy := pos_replicate_two_lt w (k / 2)
    have hinv := ih (k / 2) hk2
    rw [pos_replicate_two_succ w k, pos_replicate_two_succ', Nat.add_comm (k % 2 * 2 ^ w),
      pos_replicate_two_add_mul, hinv]
    have e : (pos (List.replicate w 2) (k / 2) + k % 2 * 2 ^ w) / 2 ^ w = k % 2 := by
      rw [Nat.add_mul_div_right _ _ (Nat.two_pow_pos w), Nat.div_eq_of_lt hy]; omega
    rw [e]; omega

theorem bitreverse_fold (w : Nat) (hw : w ≤ 32) (k : Nat) (hk : k < 2 ^ w) (t : Nat) (ht : t ≤ w) :
    (List.range t).foldl
      (fun (st : Nat × Nat) _ => (((st.1 * 2) % 2 ^ 32) ||| (st.2 % 2), st.2 / 2)) (0, k)
      = (pos (List.replicate t 2) k, k / 2 ^ t) := by
  induction t with
  | zero => simp [pos]
  | succ t ih =>
    rw [List.range_succ, List.foldl_append, ih (by omega)]
    simp only [List.foldl_cons, List.foldl_nil]
    have hlt := pos_replicate_two_lt t k
    have hp : 2 ^ t ≤ 2 ^ 31 := Nat.pow_le_pow_right (by omega) (by omega)
    have h2 : (k / 2 ^ t) % 2 < 2 ^ 1 := Nat.mod_lt _ (by omega)
    rw [pos_replicate_two_succ', Nat.div_div_eq_div_mul, ← Nat.pow_succ,
      Nat.mod_eq_of_lt (by omega), Nat.mul_comm _ 2]
    have := Nat.two_pow_add_eq_or_of_lt h2 (pos (List.replicate t 2) k)
    rw [Nat.pow_one] at this
    rw [this]

theorem bitreverse_eq_pos (w : Nat) (hw : w ≤ 32) (k : Nat) (hk : k < 2 ^ w) :
    bitreverse k w = pos (List.replicate w 2) k := by
  have hp : 2 ^ w ≤ 2 ^ 32 := Nat.pow_le_pow_right (by omega) hw
  unfold bitreverse
  rw [Nat.mod_eq_of_lt (by omega), bitreverse_fold w hw k hk w (le_refl _)]

/-- the swap loop of an involution `r` of `[0,n)` realises the permutation `r` -/
theorem swapLoop_spec {F : Type} (n : Nat) (r : Nat → Nat) (hr : ∀ i, i < n → r i < n)
    (hinv : ∀ i, i < n → r (r i) = i) (arr : Array F) (harr : arr.size = n)
    (K : Nat) (hK : K ≤ n) :
    ∃ arr' : Array F,
      (List.range K).foldl (fun (st : Option (Array F)) k =>
        match st with
        | none => none
        | some arr =>
          if k < r k then (if r k < n then some (arr.swapIfInBounds k (r k)) else none)
          else some arr)
        (some arr) = some arr' ∧ arr'.size = n ∧
      ∀ i, i < n → arr'[i]? = if min i (r i) < K then arr[r i]? else arr[i]? := by
  induction K with
  | zero => exact ⟨arr, rfl, harr, fun i hi => by simp⟩
  | succ K ih =>
    obtain ⟨a', e, hs, hg⟩ := ih (by omega)
    rw [List.range_succ, List.foldl_append, e]
    simp only [List.foldl_cons, List.foldl_nil]
    have hKn : K < n := by omega
    have hrK := hr K hKn
    by_cases hlt : K < r K
    · rw [if_pos hlt, if_pos hrK]
      refine ⟨_, rfl, by simp [hs], ?_⟩
      intro i hi
      have hsw : a'.swapIfInBounds K (r K) = a'.swap K (r K) (by omega) (by omega) := by
        rw [Array.swapIfInBounds_def, dif_pos (by omega), dif_pos (by omega)]
      rw [hsw, Array.getElem?_swap]
      have gK := hg K hKn
      have grK := hg (r K) hrK
      rw [hinv K hKn] at grK
      rw [if_neg (by omega)] at gK grK
      have aK : a'[K]? = some (a'[K]'(by omega)) := Array.getElem?_eq_getElem (by omega)
      have arK : a'[r K]? = some (a'[r K]'(by omega)) := Array.getElem?_eq_getElem (by omega)
      by_cases h1 : r K = i
      · rw [if_pos h1, ← aK, gK]
        subst h1
        rw [hinv K hKn, if_pos (by omega)]
      · rw [if_neg h1]
        by_cases h2 : K = i
        · rw [if_pos h2, ← arK, grK]
          subst h2
          rw [if_pos (by omega)]
        · rw [if_neg h2, hg i hi]
          have h3 : r i ≠ K := by
            intro h; apply h1; rw [← h, hinv i hi]
          by_cases h4 : min i (r i) < K
          · rw [if_pos h4, if_pos (by omega)]
          · rw [if_neg h4, if_neg (by omega)]
    · rw [if_neg hlt]
      refine ⟨a', rfl, hs, ?_⟩
      intro i hi
      rw [hg i hi]
      by_cases h4 : min i (r i) < K
      · rw [if_pos h4, if_pos (by omega)]
      · rw [if_neg h4]
        by_cases h5 : min i (r i) < K + 1
        · rw [if_pos h5]
          have h6 : r i = i := by
            rcases (by omega : i = K ∨ r i = K) with h | h
            · subst h; omega
            · have := hinv i hi
              rw [h] at this
              omega
          rw [h6]
        · rw [if_neg h5]

theorem bitreversePermutation_spec {F : Type} (a : List F) (w : Nat) (hw : w ≤ 32)
    (hlen : a.length = 2 ^ w) :
    ∃ b, bitreversePermutation a w = .ok b ∧ b.length = a.length ∧
      ∀ i, i < a.length → b[pos (List.replicate w 2) i]? = a[i]? := by
  have hfold : ∀ (s : Option (Array F)),
      (List.range a.length).foldl (fun (st : Option (Array F)) k =>
        match st with
        | none => none
        | some arr =>
          if k < bitreverse k w then
            (if bitreverse k w < a.length then some (arr.swapIfInBounds k (bitreverse k w)) else none)
          else some arr) s =
      (List.range a.length).foldl (fun (st : Option (Array F)) k =>
        match st with
        | none => none
        | some arr =>
          if k < pos (List.replicate w 2) k then
            (if pos (List.replicate w 2) k < a.length then
              some (arr.swapIfInBounds k (pos (List.replicate w 2) k)) else none)
          else some arr) s := by
    intro s
    apply List.foldl_ext
    intro st k hk
    rw [bitreverse_eq_pos w hw k (by rw [← hlen]; exact List.mem_range.1 hk)]
  obtain ⟨arr', e, hs, hg⟩ := swapLoop_spec (F := F) a.length (pos (List.replicate w 2))
    (fun i _ => by rw [hlen]; exact pos_replicate_two_lt w i)
    (fun i hi => pos_replicate_two_invol w i (by rw [← hlen]; exact hi))
    a.toArray (by simp) a.length (le_refl _)
  refine ⟨arr'.toList, ?_, by simp [hs], ?_⟩
  · unfold bitreversePermutation
    simp only []
    erw [hfold, e]
  · intro i hi
    have hri : pos (List.replicate w 2) i < a.length := by
      rw [hlen]; exact pos_replicate_two_lt w i
    have := hg _ hri
    rw [pos_replicate_two_invol w i (by rw [← hlen]; exact hi), if_pos (by omega)] at this
    simpa using this

example : ∃ b, bitreversePermutation [10, 11, 12, 13, 14, 15, 16, 17] 3 = .ok b ∧
    b = [10, 14, 12, 16, 11, 15, 13, 17] := ⟨_, by decide +kernel, rfl⟩

section QChunk
variable {F : Type} [Field F] [DecidableEq F]

theorem qc_cpmc_eq (n : Nat) (w v : F) :
    computePowersAndMulByConstSerial n w v = (List.range n).map (fun i => v * w ^ i) := by
  induction n generalizing v with
  | zero => simp [computePowersAndMulByConstSerial]
  | succ n ih =>
    rw [computePowersAndMulByConstSerial, ih, List.range_succ_eq_map]
    simp only [List.map_cons, pow_zero, mul_one, List.map_map, List.cons.injEq, true_and]
    apply List.map_congr_left
    intro i _
    simp only [Function.comp, pow_succ]
    ring

theorem qc_powers_eq (n : Nat) (w : F) :
    computePowersSerial n w = (List.range n).map (fun i => w ^ i) := by
  rw [computePowersSerial, qc_cpmc_eq]
  simp

theorem qc_transposeAux_eq (n : Nat) (ls : List (List F)) :
    transposeAux n ls = (List.range n).map (fun j => ls.filterMap (fun l => l[j]?)) := by
  induction n generalizing ls with
  | zero => simp [transposeAux]
  | succ n ih =>
    rw [transposeAux, ih, List.range_succ_eq_map]
    simp only [List.map_cons, List.map_map, headsOf]
    congr 1
    · congr 1
      funext l
      cases l <;> simp
    · apply List.map_congr_left
      intro j _
      simp only [Function.comp, List.filterMap_map]
      congr 1
      funext l
      cases l <;> simp

theorem qc_transposeAux_rect (n k : Nat) (g : Nat → Nat → F) :
    transposeAux n ((List.range k).map (fun l => (List.range n).map (fun j => g l j))) =
      (List.range n).map (fun j => (List.range k).map (fun l => g l j)) := by
  rw [qc_transposeAux_eq]
  apply List.map_congr_left
  intro j hj
  rw [List.mem_range] at hj
  rw [List.filterMap_map]
  rw [← List.filterMap_eq_map]
  apply List.filterMap_congr
  intro l _
  simp [hj]

theorem qc_block_eq (m i : Nat) (c : List F) (h : i * m + m ≤ c.length) :
    (c.drop (i * m)).take m = (List.range m).map (fun j => fn c (i * m + j)) := by
  apply List.ext_getElem
  · simp only [List.length_take, List.length_drop, List.length_map, List.length_range]
    omega
  · intro j h1 h2
    simp only [List.length_map, List.length_range] at h2
    simp only [List.getElem_take, List.getElem_drop, List.getElem_map, List.getElem_range, fn]
    rw [List.getD_eq_getElem?_getD, List.getElem?_eq_getElem (by omega), Option.getD_some]

theorem qc_blocks_eq (q m : Nat) (c : List F) (hc : c.length = q * m) :
    (List.range q).map (fun i => (c.drop (i * m)).take m) =
      (List.range q).map (fun l => (List.range m).map (fun j => fn c (l * m + j))) := by
  apply List.map_congr_left
  intro i hi
  rw [List.mem_range] at hi
  apply qc_block_eq
  rw [hc]
  calc i * m + m = (i + 1) * m := by ring
    _ ≤ q * m := Nat.mul_le_mul_right m hi

theorem qc_terms_foldl (wj : F) (rest : List F) (acc : List F) (v : F) :
    rest.foldl (fun (acc : List F × F) x => (acc.1 ++ [x * acc.2], acc.2 * wj)) (acc, v) =
      (acc ++ (List.range rest.length).map (fun t => fn rest t * (v * wj ^ t)),
        v * wj ^ rest.length) := by
  induction rest generalizing acc v with
  | nil => simp
  | cons x xs ih =>
    rw [List.foldl_cons, ih, List.length_cons, List.range_succ_eq_map]
    simp only [List.map_cons, List.map_map, List.append_assoc, List.singleton_append, fn,
      List.getD_cons_zero, pow_zero, mul_one, Prod.mk.injEq]
    refine ⟨?_, by ring⟩
    congr 2
    apply List.map_congr_left
    intro t _
    simp only [Function.comp, List.getD_cons_succ, pow_succ]
    ring

theorem qc_foldl_add_range (n : Nat) (h : Nat → F) (base : F) :
    (List.range n).foldl (fun acc t => acc + h t) base = base + ∑ t ∈ Finset.range n, h t := by
  induction n with
  | zero => simp
  | succ n ih =>
    rw [List.range_succ, List.foldl_append, ih, Finset.sum_range_succ]
    simp only [List.foldl_cons, List.foldl_nil]
    ring

theorem qc_zip_foldl (n : Nat) (T G : Nat → F) (base : F) :
    ((List.range n).zip ((List.range n).map T)).foldl
        (fun acc (lt : Nat × F) => acc + lt.2 * G lt.1) base =
      base + ∑ t ∈ Finset.range n, T t * G t := by
  rw [← qc_foldl_add_range]
  have : (List.range n).zip ((List.range n).map T) = (List.range n).map (fun t => (t, T t)) := by
    rw [List.zip_map_right]
    induction (List.range n) with
    | nil => rfl
    | cons a l ih => simp [ih]
  rw [this, List.foldl_map]

theorem qc_qColumn_eq (q : Nat) (hq : 1 ≤ q) (wq wj : F) (u : Nat → F) :
    qColumn q (computePowersSerial q wq) wj ((List.range q).map u) =
      (List.range q).map (fun i => ∑ l ∈ Finset.range q, u l * wj ^ l * wq ^ ((i * l) % q)) := by
  obtain ⟨k, rfl⟩ : ∃ k, q = k + 1 := ⟨q - 1, by omega⟩
  have hcol : (List.range (k + 1)).map u = u 0 :: (List.range k).map (fun t => u (t + 1)) := by
    rw [List.range_succ_eq_map]; simp [Function.comp_def]
  rw [hcol]
  unfold qColumn
  simp only
  rw [qc_terms_foldl]
  simp only [List.nil_append, List.length_map, List.length_range]
  have hterms : (List.range k).map
        (fun t => fn ((List.range k).map (fun t => u (t + 1))) t * (wj * wj ^ t)) =
      (List.range k).map (fun t => u (t + 1) * wj ^ (t + 1)) := by
    apply List.map_congr_left
    intro t ht
    rw [List.mem_range] at ht
    have := fn_tab k (fun t => u (t + 1)) ht
    rw [tab] at this
    rw [this, pow_succ]
    ring
  rw [hterms]
  apply List.map_congr_left
  intro i hi
  rw [qc_zip_foldl k (fun t => u (t + 1) * wj ^ (t + 1))
    (fun t => ((computePowersSerial (k + 1) wq)[(i * (t + 1)) % (k + 1)]?).getD 0) (u 0)]
  rw [Finset.sum_range_succ']
  simp only [pow_zero, mul_one, Nat.mul_zero, Nat.zero_mod]
  rw [add_comm]
  congr 1
  apply Finset.sum_congr rfl
  intro t _
  have hlt : (i * (t + 1)) % (k + 1) < k + 1 := Nat.mod_lt _ (by omega)
  rw [qc_powers_eq]
  simp [hlt]

theorem qc_tab_flatten (q m : Nat) (f : Nat → F) :
    tab (q * m) f =
      ((List.range q).map (fun i => (List.range m).map (fun j => f (i * m + j)))).flatten := by
  induction q with
  | zero => simp [tab]
  | succ q ih =>
    rw [Nat.succ_mul, tab_add, ih, List.range_succ, List.map_append, List.flatten_append]
    simp [tab]

theorem qChunk_eq (q m : Nat) (hq : 1 ≤ q) (hm : 1 ≤ m)
    (wm wq : F) (c : List F) (hc : c.length = q * m) :
    qChunk q m (computePowersSerial q wq) wm c =
      tab (q * m) (fun p => ∑ l ∈ Finset.range q,
        fn c (l * m + p % m) * (wm ^ (p % m)) ^ l * wq ^ ((p / m * l) % q)) := by
  unfold qChunk
  simp only
  rw [qc_blocks_eq q m c hc, qc_transposeAux_rect, qc_powers_eq m wm, List.zipWith_map]
  have hz : ∀ (l : List Nat) (g : Nat → Nat → List F),
      List.zipWith g l l = l.map (fun x => g x x) := by
    intro l g
    induction l with
    | nil => rfl
    | cons a l ih => simp
  rw [hz]
  have hcols : (List.range m).map (fun j => qColumn q (computePowersSerial q wq) (wm ^ j)
        ((List.range q).map (fun l => fn c (l * m + j)))) =
      (List.range m).map (fun j => (List.range q).map (fun i =>
        ∑ l ∈ Finset.range q, fn c (l * m + j) * (wm ^ j) ^ l * wq ^ ((i * l) % q))) := by
    apply List.map_congr_left
    intro j _
    exact qc_qColumn_eq q hq wq (wm ^ j) (fun l => fn c (l * m + j))
  rw [hcols, qc_transposeAux_rect q m (fun j i =>
        ∑ l ∈ Finset.range q, fn c (l * m + j) * (wm ^ j) ^ l * wq ^ ((i * l) % q)),
    qc_tab_flatten]
  congr 1
  apply List.map_congr_left
  intro i _
  apply List.map_congr_left
  intro j hj
  rw [List.mem_range] at hj
  have h1 : (i * m + j) % m = j := by
    rw [Nat.add_comm, Nat.add_mul_mod_self_right, Nat.mod_eq_of_lt hj]
  have h2 : (i * m + j) / m = i := by
    rw [Nat.add_comm, Nat.add_mul_div_right _ _ (by omega), Nat.div_eq_of_lt hj, Nat.zero_add]
  rw [h1, h2]

/-- non-vacuity: the hypotheses hold for `q = 3`, `m = 2` over `ℚ` -/
example := qChunk_eq (F := ℚ) 3 2 (by omega) (by omega) 2 3 [1, 2, 3, 4, 5, 6] rfl

end QChunk

/-! ## the digit-reversal position function and `mixed_radix_fft_permute` -/

theorem pos_lt : ∀ (R : List Nat), (∀ r ∈ R, 0 < r) → ∀ i, pos R i < R.prod := by
  intro R
  induction R with
  | nil => intro _ i; simp [pos]
  | cons r R ih =>
    intro hR i
    have hr : 0 < r := hR r List.mem_cons_self
    have hR' : ∀ r' ∈ R, 0 < r' := fun r' h => hR r' (List.mem_cons_of_mem _ h)
    have h1 := ih hR' (i / r)
    have h2 : i % r < r := Nat.mod_lt _ hr
    rw [pos, List.prod_cons]
    calc i % r * R.prod + pos R (i / r) < i % r * R.prod + R.prod := by omega
      _ = (i % r + 1) * R.prod := by ring
      _ ≤ r * R.prod := Nat.mul_le_mul_right _ h2

theorem pos_inj : ∀ (R : List Nat), (∀ r ∈ R, 0 < r) → ∀ i j, i < R.prod → j < R.prod →
    pos R i = pos R j → i = j := by
  intro R
  induction R with
  | nil => intro _ i j hi hj _; simp at hi hj; omega
  | cons r R ih =>
    intro hR i j hi hj h
    have hr : 0 < r := hR r List.mem_cons_self
    have hR' : ∀ r' ∈ R, 0 < r' := fun r' h => hR r' (List.mem_cons_of_mem _ h)
    have hp : 0 < R.prod := List.prod_pos (by simpa using hR')
    rw [List.prod_cons] at hi hj
    simp only [pos] at h
    have li := pos_lt R hR' (i / r)
    have lj := pos_lt R hR' (j / r)
    have hmod : i % r = j % r := by
      have := congrArg (· / R.prod) h
      beta_reduce at this
      rw [Nat.mul_comm (i % r), Nat.mul_comm (j % r), Nat.mul_add_div hp, Nat.mul_add_div hp,
        Nat.div_eq_of_lt li, Nat.div_eq_of_lt lj] at this
      omega
    have hdiv : pos R (i / r) = pos R (j / r) := by rw [hmod] at h; omega
    have hdi : i / r < R.prod := Nat.div_lt_of_lt_mul hi
    have hdj : j / r < R.prod := Nat.div_lt_of_lt_mul hj
    have := ih hR' _ _ hdi hdj hdiv
    rw [← Nat.div_add_mod i r, ← Nat.div_add_mod j r, this, hmod]

/-- one digit step of `mixed_radix_fft_permute`: state `(res, shift, i)` -/
def digitStep (r : Nat) (st : Nat × Nat × Nat) : Nat × Nat × Nat :=
  (st.1 + (st.2.2 % r) * (st.2.1 / r), st.2.1 / r, st.2.2 / r)

theorem digitStep_foldl : ∀ (R : List Nat), (∀ r ∈ R, 0 < r) → ∀ (res s i : Nat),
    R.foldl (fun st r => digitStep r st) (res, R.prod * s, i) = (res + s * pos R i, s, i / R.prod) := by
  intro R
  induction R with
  | nil => intro _ res s i; simp [pos]
  | cons r R ih =>
    intro hR res s i
    have hr : 0 < r := hR r List.mem_cons_self
    have hR' : ∀ r' ∈ R, 0 < r' := fun r' h => hR r' (List.mem_cons_of_mem _ h)
    have e : (r * R.prod * s) / r = R.prod * s := by
      rw [Nat.mul_assoc, Nat.mul_div_cancel_left _ hr]
    rw [List.foldl_cons, List.prod_cons, digitStep]
    simp only [e]
    rw [ih hR', pos, Nat.div_div_eq_div_mul]
    congr 1
    ring

theorem foldl_range_const {α : Type} (f : α → α) (k : Nat) (r : Nat) (g : Nat → α → α)
    (hg : g r = f) (s : α) :
    (List.range k).foldl (fun st _ => f st) s = (List.replicate k r).foldl (fun st r => g r st) s := by
  induction k generalizing s with
  | zero => rfl
  | succ k ih =>
    rw [List.range_succ, List.foldl_append, List.replicate_succ', List.foldl_append, ih]
    simp [hg]

/-- `mixed_radix_fft_permute` is the digit reversal for the radix list `2^twoAd ++ q^qAd` -/
theorem mixedRadixFftPermute_eq (twoAd qAd q n i : Nat) (hq : 0 < q)
    (hn : n = 2 ^ twoAd * q ^ qAd) :
    mixedRadixFftPermute twoAd qAd q n i =
      pos (List.replicate twoAd 2 ++ List.replicate qAd q) i := by
  unfold mixedRadixFftPermute
  have h2 := foldl_range_const (fun (st : Nat × Nat × Nat) => digitStep 2 st) twoAd 2
    (fun r st => digitStep r st) rfl (0, n, i)
  have hq' := fun s => foldl_range_const (fun (st : Nat × Nat × Nat) => digitStep q st) qAd q
    (fun r st => digitStep r st) rfl s
  simp only [digitStep] at h2 hq'
  simp only [h2, hq']
  have := digitStep_foldl (List.replicate twoAd 2 ++ List.replicate qAd q)
    (by intro r hr; rcases List.mem_append.1 hr with h | h <;>
        · rw [List.mem_replicate] at h; omega) 0 1 i
  simp only [digitStep, List.foldl_append, List.prod_append, List.prod_replicate, Nat.mul_one,
    Nat.zero_add, Nat.one_mul] at this
  rw [hn, this]


/-! ## the model's passes (`mapChunks`, `qChunk`, butterflies) as `passF` -/
section Field
variable {F : Type} [Field F] [DecidableEq F]

theorem passF_index_lt (r m k p l : Nat) (hm : 0 < m) (hp : p < k * (r * m)) (hl : l < r) :
    p / (r * m) * (r * m) + l * m + p % m < k * (r * m) := by
  have hrm : 0 < r * m := Nat.mul_pos (by omega) hm
  have h1 : p / (r * m) < k := Nat.div_lt_of_lt_mul (by rw [Nat.mul_comm]; exact hp)
  have h2 : p % m < m := Nat.mod_lt _ hm
  have h3 : (l + 1) * m ≤ r * m := Nat.mul_le_mul_right _ hl
  have h4 : (p / (r * m) + 1) * (r * m) ≤ k * (r * m) := Nat.mul_le_mul_right _ h1
  have e3 : (l + 1) * m = l * m + m := by ring
  have e4 : (p / (r * m) + 1) * (r * m) = p / (r * m) * (r * m) + r * m := by ring
  omega

/-- a pass only reads the chunk it writes -/
theorem passF_congr (r m : Nat) (hm : 0 < m) (W : F) (y y' : Nat → F) (k : Nat)
    (h : ∀ i, i < k * (r * m) → y i = y' i) (p : Nat) (hp : p < k * (r * m)) :
    passF r m W y p = passF r m W y' p := by
  unfold passF
  apply Finset.sum_congr rfl
  intro l hl
  rw [h _ (passF_index_lt r m k p l hm hp (Finset.mem_range.1 hl))]

theorem fn_take (l : List F) (n i : Nat) (hi : i < n) : fn (l.take n) i = fn l i := by
  simp [fn, List.getD, hi]

theorem fn_drop (l : List F) (n i : Nat) : fn (l.drop n) i = fn l (n + i) := by
  simp [fn, List.getD]

/-- `chunks_mut(r·m).for_each(f)` where `f` is a radix-`r` pass on one chunk -/
theorem mapChunks_pass (f : List F → List F) (r m : Nat) (hr : 0 < r) (hm : 0 < m) (W : F)
    (hf : ∀ c : List F, c.length = r * m → f c = tab (r * m) (passF r m W (fn c))) :
    ∀ (k fuel : Nat) (l : List F), l.length = k * (r * m) → k ≤ fuel →
      mapChunks f (r * m) fuel l = tab l.length (passF r m W (fn l)) := by
  have hrm : 0 < r * m := Nat.mul_pos hr hm
  intro k
  induction k with
  | zero =>
    intro fuel l hl _
    have : l = [] := List.length_eq_zero_iff.1 (by simpa using hl)
    subst this
    cases fuel <;> simp [mapChunks, tab]
  | succ k ih =>
    intro fuel l hl hk
    obtain ⟨fuel', rfl⟩ : ∃ f', fuel = f' + 1 := ⟨fuel - 1, by omega⟩
    have hlen : l.length = r * m + k * (r * m) := by rw [hl]; ring
    cases l with
    | nil => simp at hlen; omega
    | cons x xs =>
      rw [mapChunks]
      generalize x :: xs = l at hl hlen ⊢
      have htake : (l.take (r * m)).length = r * m := by rw [List.length_take]; omega
      have hdrop : (l.drop (r * m)).length = k * (r * m) := by rw [List.length_drop]; omega
      rw [hf _ htake, ih fuel' _ hdrop (by omega), hdrop, hlen, tab_add]
      congr 1
      · apply tab_congr
        intro i hi
        apply passF_congr r m hm W _ _ 1 _ i (by omega)
        intro j hj
        exact fn_take l _ j (by omega)
      · apply tab_congr
        intro i _
        have h1 : fn (l.drop (r * m)) = fun p => fn l (1 * (r * m) + p) := by
          funext p; rw [fn_drop, Nat.one_mul]
        rw [h1, passF_shift r m hrm W (fn l) 1, Nat.one_mul]

theorem tab_succ' (N : Nat) (f : Nat → F) : tab (N + 1) f = f 0 :: tab N (fun i => f (i + 1)) := by
  simp [tab, List.range_succ_eq_map, List.map_map, Function.comp]

theorem zipButterflyOI_tab (m : Nat) : ∀ (u v w : Nat → F),
    zipButterfly butterflyOI (tab m u) (tab m v) (tab m w) =
      (tab m (fun j => u j + v j * w j), tab m (fun j => u j - v j * w j)) := by
  induction m with
  | zero => intro u v w; simp [tab, zipButterfly]
  | succ m ih =>
    intro u v w
    simp only [tab_succ', zipButterfly, ih, butterflyOI]

theorem stepByAux_one : ∀ (fuel : Nat) (l : List F), l.length ≤ fuel → stepByAux 1 fuel l = l := by
  intro fuel
  induction fuel with
  | zero => intro l h; simp at h; subst h; rfl
  | succ fuel ih =>
    intro l h
    cases l with
    | nil => rfl
    | cons x xs =>
      simp only [stepByAux, Nat.sub_self, List.drop_zero]
      rw [ih xs (by simpa using h)]

theorem stepBy_one (l : List F) : stepBy 1 l = l := stepByAux_one _ l (le_refl _)

theorem computePowersSerial_eq_tab (n : Nat) (w : F) : computePowersSerial n w = tab n (fun i => w ^ i) :=
  qc_powers_eq n w

/-- one chunk of a radix-2 pass (`butterfly_fn_oi` with twiddles `wm^j`, `wm^m = −1`) -/
theorem chunkButterflyOI_eq (m : Nat) (hm : 0 < m) (wm : F) (hw : wm ^ m = -1) (c : List F)
    (hc : c.length = 2 * m) :
    chunkButterfly butterflyOI (stepBy 1 (computePowersSerial m wm)) m c =
      tab (2 * m) (passF 2 m wm (fn c)) := by
  have h1 : c.take m = tab m (fn c) := by
    have := tab_fn (c.take m)
    rw [List.length_take, Nat.min_eq_left (by omega)] at this
    rw [← this]
    exact tab_congr (fun i hi => fn_take c m i hi)
  have h2 : c.drop m = tab m (fun j => fn c (m + j)) := by
    have := tab_fn (c.drop m)
    rw [List.length_drop, show c.length - m = m by omega] at this
    rw [← this]
    exact tab_congr (fun i hi => fn_drop c m i)
  rw [chunkButterfly, stepBy_one, computePowersSerial_eq_tab, h1, h2, zipButterflyOI_tab,
    show 2 * m = m + m by ring, tab_add]
  have e2 : ∀ j, j < m → (m + j) / (m + m) = 0 ∧ (m + j) % (m + m) = m + j ∧ (m + j) % m = j := by
    intro j hj
    refine ⟨Nat.div_eq_of_lt (by omega), Nat.mod_eq_of_lt (by omega), ?_⟩
    rw [Nat.add_mod_left, Nat.mod_eq_of_lt hj]
  congr 1
  · apply tab_congr
    intro j hj
    simp only [passF, show 2 * m = m + m by ring, Nat.div_eq_of_lt (show j < m + m by omega),
      Nat.mod_eq_of_lt (show j < m + m by omega), Nat.mod_eq_of_lt hj, Finset.sum_range_succ,
      Finset.sum_range_zero]
    simp
  · apply tab_congr
    intro j hj
    obtain ⟨a1, a2, a3⟩ := e2 j hj
    simp only [passF, show 2 * m = m + m by ring, a1, a2, a3, Finset.sum_range_succ,
      Finset.sum_range_zero]
    simp only [Nat.zero_mul, pow_zero, mul_one, zero_add, Nat.one_mul, pow_add, hw]
    ring

/-- a full radix-2 pass of the model -/
theorem applyButterflyOI_eq (m : Nat) (hm : 0 < m) (wm : F) (hw : wm ^ m = -1) (l : List F) (k : Nat)
    (hl : l.length = k * (2 * m)) :
    applyButterfly butterflyOI l (computePowersSerial m wm) 1 (2 * m) m =
      tab l.length (passF 2 m wm (fn l)) := by
  have hk : k ≤ l.length := by
    rw [hl]; exact Nat.le_mul_of_pos_right _ (by omega)
  exact mapChunks_pass _ 2 m (by norm_num) hm wm (chunkButterflyOI_eq m hm wm hw) k _ l hl hk

/-- one chunk of a radix-`q` pass in `passF` form (`q`-th roots `wq = wm^m`, `wq^q = 1`) -/
theorem qChunk_eq_passF (q m : Nat) (hq : 0 < q) (hm : 0 < m) (wm wq : F) (hwq : wq = wm ^ m)
    (hq1 : wq ^ q = 1) (c : List F) (hc : c.length = q * m) :
    qChunk q m (computePowersSerial q wq) wm c = tab (q * m) (passF q m wm (fn c)) := by
  rw [qChunk_eq q m hq hm wm wq c hc]
  apply tab_congr
  intro p hp
  unfold passF
  rw [Nat.div_eq_of_lt hp, Nat.mod_eq_of_lt hp, Nat.zero_mul]
  apply Finset.sum_congr rfl
  intro l _
  rw [Nat.zero_add]
  have e : wm ^ (l * p) = (wm ^ (p % m)) ^ l * wq ^ ((p / m * l) % q) := by
    have h1 : wq ^ ((p / m * l) % q) = wq ^ (p / m * l) := by
      conv_rhs => rw [← Nat.div_add_mod (p / m * l) q]
      rw [pow_add, pow_mul, hq1, one_pow, one_mul]
    rw [h1, hwq, ← pow_mul, ← pow_mul, ← pow_add]
    congr 1
    conv_lhs => rw [← Nat.div_add_mod p m]
    ring
  rw [e]; ring

/-- a full radix-`q` pass of the model -/
theorem mapChunks_qChunk_eq (q m : Nat) (hq : 0 < q) (hm : 0 < m) (wm wq : F) (hwq : wq = wm ^ m)
    (hq1 : wq ^ q = 1) (l : List F) (k : Nat) (hl : l.length = k * (q * m)) :
    mapChunks (qChunk q m (computePowersSerial q wq) wm) (q * m) l.length l =
      tab l.length (passF q m wm (fn l)) := by
  have hk : k ≤ l.length := by
    rw [hl]; exact Nat.le_mul_of_pos_right _ (Nat.mul_pos hq hm)
  exact mapChunks_pass _ q m hq hm wm (qChunk_eq_passF q m hq hm wm wq hwq hq1) k _ l hl hk

end Field

/-! ## `serial_mixed_radix_fft` -/
section Field
variable {F : Type} [Field F] [DecidableEq F]

theorem foldl_range_iterate {α : Type} (f : α → α) (t : Nat) (s : α) :
    (List.range t).foldl (fun st _ => f st) s = f^[t] s := by
  induction t generalizing s with
  | zero => rfl
  | succ t ih =>
    rw [List.range_succ, List.foldl_append, ih, Function.iterate_succ_apply']
    rfl

/-- iterating a step that prepends one radix-`r` pass -/
theorem iterate_pass (ω : F) (n r : Nat) (y0 : Nat → F) (stepfn : List F × Nat → List F × Nat)
    (R0 : List Nat) (T : Nat)
    (hstep : ∀ t, t < T → stepfn (tab n (algF ω n (List.replicate t r ++ R0) y0),
        (List.replicate t r ++ R0).prod) =
      (tab n (algF ω n (r :: (List.replicate t r ++ R0)) y0), (r :: (List.replicate t r ++ R0)).prod)) :
    ∀ t, t ≤ T → stepfn^[t] (tab n (algF ω n R0 y0), R0.prod) =
      (tab n (algF ω n (List.replicate t r ++ R0) y0), (List.replicate t r ++ R0).prod) := by
  intro t
  induction t with
  | zero => intro _; rfl
  | succ t ih =>
    intro ht
    rw [Function.iterate_succ_apply', ih (by omega), hstep t (by omega)]
    rfl

theorem tab_passF_fn_tab (r m : Nat) (hm : 0 < m) (W : F) (g : Nat → F) (n k : Nat)
    (hn : n = k * (r * m)) :
    tab n (passF r m W (fn (tab n g))) = tab n (passF r m W g) := by
  apply tab_congr
  intro p hp
  subst hn
  apply passF_congr r m hm W _ _ k _ p hp
  intro i hi
  exact fn_tab _ g hi

/-- one radix-`q` pass of the model's loop -/
theorem qStep (ω : F) (n q : Nat) (hq : 0 < q) (hn64 : n < 2 ^ 64) (hω : ω ^ n = 1) (y0 : Nat → F)
    (R : List Nat) (hR : ∀ r ∈ R, 0 < r) (hdvd : (q :: R).prod ∣ n) :
    (fun (st : List F × Nat) =>
      (mapChunks (qChunk q st.2 (computePowersSerial q (pow ω (n / q))) (pow ω (n / (q * st.2))))
        (q * st.2) st.1.length st.1, st.2 * q)) (tab n (algF ω n R y0), R.prod) =
    (tab n (algF ω n (q :: R) y0), (q :: R).prod) := by
  have hp : 0 < R.prod := List.prod_pos (by simpa using hR)
  obtain ⟨t, ht⟩ := hdvd
  rw [List.prod_cons] at ht
  have hnpos_or : True := trivial
  simp only [List.prod_cons]
  have e1 : n / (q * R.prod) = t := by rw [ht, Nat.mul_div_cancel_left _ (Nat.mul_pos hq hp)]
  have e2 : n / q = R.prod * t := by
    rw [ht, Nat.mul_assoc, Nat.mul_div_cancel_left _ hq]
  have hle1 : n / (q * R.prod) < 2 ^ 64 := lt_of_le_of_lt (Nat.div_le_self _ _) hn64
  have hle2 : n / q < 2 ^ 64 := lt_of_le_of_lt (Nat.div_le_self _ _) hn64
  rw [pow_eq _ _ hle1, pow_eq _ _ hle2]
  have hwq : ω ^ (n / q) = (ω ^ (n / (q * R.prod))) ^ R.prod := by
    rw [e1, e2, ← pow_mul, Nat.mul_comm]
  have hq1 : (ω ^ (n / q)) ^ q = 1 := by
    rw [e2, ← pow_mul, show R.prod * t * q = n by rw [ht]; ring, hω]
  have hlen : (tab n (algF ω n R y0)).length = t * (q * R.prod) := by
    rw [tab_length, ht, Nat.mul_comm]
  rw [mapChunks_qChunk_eq q R.prod hq hp _ _ hwq hq1 _ t hlen, tab_length,
    tab_passF_fn_tab q R.prod hp _ _ n t (by rw [ht, Nat.mul_comm])]
  simp only [algF, Nat.mul_comm R.prod q]

/-- one radix-2 pass of the model's loop -/
theorem twoStep (ω : F) (n : Nat) (hn64 : n < 2 ^ 64) (hω : IsPrimitiveRoot ω n) (y0 : Nat → F)
    (R : List Nat) (hR : ∀ r ∈ R, 0 < r) (hdvd : (2 :: R).prod ∣ n) (hn : 0 < n) :
    (fun (st : List F × Nat) =>
      (applyButterfly butterflyOI st.1 (computePowersSerial st.2 (pow ω (n / (2 * st.2)))) 1
        (2 * st.2) st.2, st.2 * 2)) (tab n (algF ω n R y0), R.prod) =
    (tab n (algF ω n (2 :: R) y0), (2 :: R).prod) := by
  have hp : 0 < R.prod := List.prod_pos (by simpa using hR)
  obtain ⟨t, ht⟩ := hdvd
  rw [List.prod_cons] at ht
  simp only [List.prod_cons]
  have e1 : n / (2 * R.prod) = t := by rw [ht, Nat.mul_div_cancel_left _ (Nat.mul_pos (by norm_num) hp)]
  have htpos : 0 < t := by
    rcases Nat.eq_zero_or_pos t with h | h
    · rw [h, Nat.mul_zero] at ht; omega
    · exact h
  have hle1 : n / (2 * R.prod) < 2 ^ 64 := lt_of_le_of_lt (Nat.div_le_self _ _) hn64
  rw [pow_eq _ _ hle1]
  have hw : (ω ^ (n / (2 * R.prod))) ^ R.prod = -1 := by
    rw [e1, ← pow_mul]
    have hd : t * R.prod ∣ n := ⟨2, by rw [ht]; ring⟩
    have := hω.pow_of_dvd (Nat.mul_pos htpos hp).ne' hd
    have e : n / (t * R.prod) = 2 := by
      rw [ht, show 2 * R.prod * t = 2 * (t * R.prod) by ring,
        Nat.mul_div_cancel _ (Nat.mul_pos htpos hp)]
    rw [e] at this
    exact this.eq_neg_one_of_two_right
  have hlen : (tab n (algF ω n R y0)).length = t * (2 * R.prod) := by
    rw [tab_length, ht, Nat.mul_comm]
  rw [applyButterflyOI_eq R.prod hp _ hw _ t hlen, tab_length,
    tab_passF_fn_tab 2 R.prod hp _ _ n t (by rw [ht, Nat.mul_comm])]
  simp only [algF, Nat.mul_comm R.prod 2]

end Field

section Field
variable {F : Type} [Field F] [DecidableEq F]

theorem fn_eq_of_getElem? {l l' : List F} {i j : Nat} (h : l[i]? = l'[j]?) : fn l i = fn l' j := by
  simp [fn, List.getD, h]

/-- the two pass loops of `serial_mixed_radix_fft` on a digit-reversed array `L0` of `x` -/
theorem passLoops_spec (ω : F) (n q s k : Nat) (hq : 0 < q) (hn : n = 2 ^ s * q ^ k)
    (hn64 : n < 2 ^ 64) (hω : IsPrimitiveRoot ω n) (L0 : List F) (hL0 : L0.length = n)
    (x : Nat → F)
    (hx : ∀ i, i < n → fn L0 (pos (List.replicate s 2 ++ List.replicate k q) i) = x i) :
    ((fun (st : List F × Nat) =>
        (applyButterfly butterflyOI st.1 (computePowersSerial st.2 (pow ω (n / (2 * st.2)))) 1
          (2 * st.2) st.2, st.2 * 2))^[s]
      ((fun (st : List F × Nat) =>
        (mapChunks (qChunk q st.2 (computePowersSerial q (pow ω (n / q))) (pow ω (n / (q * st.2))))
          (q * st.2) st.1.length st.1, st.2 * q))^[k] (L0, 1))).1 = tab n (dftF n ω x) := by
  have hnpos : 0 < n := by rw [hn]; exact Nat.mul_pos (Nat.two_pow_pos _) (Nat.pow_pos hq)
  have h0 : (L0, 1) = (tab n (algF ω n [] (fn L0)), ([] : List Nat).prod) := by
    rw [← hL0]; simp [algF, tab_fn]
  have hposq : ∀ t, ∀ r ∈ List.replicate t q ++ ([] : List Nat), 0 < r := by
    intro t r hr
    simp only [List.append_nil, List.mem_replicate] at hr
    omega
  have hpos2 : ∀ t, ∀ r ∈ List.replicate t 2 ++ (List.replicate k q ++ ([] : List Nat)), 0 < r := by
    intro t r hr
    simp only [List.append_nil, List.mem_append, List.mem_replicate] at hr
    omega
  rw [h0, iterate_pass ω n q (fn L0) _ [] k
    (fun t ht => qStep ω n q hq hn64 hω.pow_eq_one (fn L0) _ (hposq t) (by
      simp only [List.append_nil, List.prod_cons, List.prod_replicate]
      rw [hn, ← pow_succ']
      exact Dvd.dvd.mul_left (pow_dvd_pow q (by omega)) _)) k (le_refl k),
    iterate_pass ω n 2 (fn L0) _ (List.replicate k q ++ []) s
    (fun t ht => twoStep ω n hn64 hω (fn L0) _ (hpos2 t) (by
      simp only [List.append_nil, List.prod_cons, List.prod_append, List.prod_replicate]
      rw [hn, ← Nat.mul_assoc, ← pow_succ']
      exact Nat.mul_dvd_mul_right (pow_dvd_pow 2 (by omega)) _) hnpos) s (le_refl s)]
  apply tab_congr
  intro K hK
  have hprod : (List.replicate s 2 ++ (List.replicate k q ++ [])).prod = n := by
    simp [hn]
  have := algF_spec ω n hω.pow_eq_one _ (hpos2 s) (by rw [hprod]) x (fn L0)
    (by rw [hprod]; simpa using hx) K (by rw [hprod]; exact hK)
  rw [this, hprod, Nat.div_self hnpos, pow_one]

/-- `serial_mixed_radix_fft(a, ω, s)` for `|a| = 2^s·q^k < 2^64` and `ω` a primitive `|a|`-th
    root: no panic, the result is the DFT `[Σ_i a_i·ω^(i·K)]_K`.  (`k = 0`: the 32-bit
    `bitreverse` needs `s ≤ 32`.) -/
theorem serialMixedRadixFft_spec (P : Params F) (q : Nat) (hq : P.smallBase = some q) (hq2 : 2 ≤ q)
    (hodd : q % 2 = 1) (a : List F) (ω : F) (s k : Nat) (hlen : a.length = 2 ^ s * q ^ k)
    (hlt : a.length < 2 ^ 64) (hω : IsPrimitiveRoot ω a.length) (h32 : k = 0 → s ≤ 32) :
    serialMixedRadixFft P a ω s = .ok (tab a.length (dftF a.length ω (fn a))) := by
  obtain ⟨hs64, hk64, hkq, hk2, hqk, h2s⟩ := kAdicity_two_q hq2 hodd s k (hlen ▸ hlt)
  have hqpos : 0 < q := by omega
  have hmod : a.length = (q ^ k * 2 ^ s) % U64 := by
    rw [Nat.mul_comm, ← hlen, Nat.mod_eq_of_lt (by rw [U64_eq]; exact hlt)]
  have hposR : ∀ r ∈ List.replicate s 2 ++ List.replicate k q, 0 < r := by
    intro r hr
    simp only [List.mem_append, List.mem_replicate] at hr
    omega
  have hprod : (List.replicate s 2 ++ List.replicate k q).prod = a.length := by simp [hlen]
  unfold serialMixedRadixFft
  simp only [hq]
  rw [hlen, hkq, ← hlen, checkedPow_of_lt hqk, checkedPow_of_lt h2s]
  simp only []
  rw [if_neg (not_not.2 hmod)]
  by_cases hk : k > 0
  · rw [if_pos hk]
    simp only [foldl_range_iterate]
    have hperm : mixedRadixFftPermute s k q a.length =
        pos (List.replicate s 2 ++ List.replicate k q) := by
      funext i; exact mixedRadixFftPermute_eq s k q a.length i hqpos hlen
    obtain ⟨hL, hget⟩ := applyPermutation_spec (mixedRadixFftPermute s k q a.length) a
      (by intro i _; rw [hperm, ← hprod]; exact pos_lt _ hposR i)
      (by intro i j hi hj h; rw [hperm] at h
          exact pos_inj _ hposR i j (by rw [hprod]; exact hi) (by rw [hprod]; exact hj) h)
    rw [passLoops_spec ω a.length q s k hqpos hlen hlt hω _ hL (fn a)
      (by intro i hi; rw [← hperm]; exact fn_eq_of_getElem? (hget i hi))]
  · have hk0 : k = 0 := by omega
    subst hk0
    rw [if_neg hk]
    obtain ⟨b, hb, hbl, hbget⟩ := bitreversePermutation_spec a s (h32 rfl) (by simpa using hlen)
    rw [hb]
    simp only [foldl_range_iterate]
    have := passLoops_spec ω a.length q s 0 hqpos hlen hlt hω b hbl (fn a)
      (by intro i hi; simp only [List.replicate_zero, List.append_nil]
          exact fn_eq_of_getElem? (hbget i hi))
    simp only [Function.iterate_zero, id] at this
    rw [this]

end Field

/-! ## `MixedRadixEvaluationDomain::fft_in_place` / `ifft_in_place` -/
section Field
variable {F : Type} [Field F] [DecidableEq F]

theorem fn_of_length_le (l : List F) {i : Nat} (h : l.length ≤ i) : fn l i = 0 := by
  simp [fn, List.getD, List.getElem?_eq_none h]

theorem fn_cons_zero (a : F) (l : List F) : fn (a :: l) 0 = a := rfl
theorem fn_cons_succ (a : F) (l : List F) (i : Nat) : fn (a :: l) (i + 1) = fn l i := rfl

theorem evalL_eq_sum (c : List F) (x : F) :
    evalL c x = ∑ i ∈ Finset.range c.length, fn c i * x ^ i := by
  induction c with
  | nil => simp [evalL]
  | cons a cs ih =>
    rw [List.length_cons, Finset.sum_range_succ', fn_cons_zero, pow_zero, mul_one]
    simp only [fn_cons_succ]
    have : evalL (a :: cs) x = a + x * evalL cs x := rfl
    rw [this, ih, Finset.mul_sum, add_comm]
    congr 1
    apply Finset.sum_congr rfl
    intro i _
    rw [pow_succ]; ring

theorem evalL_eq_sum_of_le (c : List F) (x : F) {n : Nat} (h : c.length ≤ n) :
    evalL c x = ∑ i ∈ Finset.range n, fn c i * x ^ i := by
  obtain ⟨e, rfl⟩ := Nat.exists_eq_add_of_le h
  rw [evalL_eq_sum, Finset.sum_range_add]
  have : ∑ i ∈ Finset.range e, fn c (c.length + i) * x ^ (c.length + i) = 0 := by
    apply Finset.sum_eq_zero
    intro i _
    rw [fn_of_length_le c (by omega), zero_mul]
  rw [this, add_zero]

theorem resize_length (l : List F) (n : Nat) (z : F) : (resize l n z).length = n := by
  simp [resize]; omega

theorem fn_resize_zero (l : List F) (n i : Nat) (hi : i < n) : fn (resize l n 0) i = fn l i := by
  unfold resize fn
  simp only [List.getD]
  by_cases h : i < l.length
  · rw [List.getElem?_append_left (by simp; omega), List.getElem?_take, if_pos hi]
  · rw [List.getElem?_append_right (by simp; omega), List.getElem?_replicate,
      List.getElem?_eq_none (by omega : l.length ≤ i)]
    split <;> rfl

theorem distributePowersAndMulByConst_eq (xs : List F) (g : F) : ∀ powr : F,
    distributePowersAndMulByConst xs g powr = tab xs.length (fun i => fn xs i * (powr * g ^ i)) := by
  induction xs with
  | nil => intro powr; rfl
  | cons x xs ih =>
    intro powr
    rw [distributePowersAndMulByConst, ih, List.length_cons, tab_succ']
    simp only [fn_cons_zero, fn_cons_succ, pow_zero, mul_one, List.cons.injEq, true_and]
    apply tab_congr
    intro i _
    rw [pow_succ]; ring

/-- the coefficient vector entering `serial_mixed_radix_fft` -/
theorem fn_fft_input (d : Domain F) (c : List F) (hc : c.length ≤ d.size) (i : Nat) (hi : i < d.size) :
    fn (resize (if d.offset ≠ 1 then distributePowers c d.offset else c) d.size 0) i =
      fn c i * d.offset ^ i := by
  rw [fn_resize_zero _ _ _ hi]
  by_cases h : d.offset = 1
  · simp [h]
  · simp only [ne_eq, h, not_false_eq_true, if_true, distributePowers,
      distributePowersAndMulByConst_eq, one_mul]
    by_cases hi' : i < c.length
    · rw [fn_tab _ _ hi']
    · rw [fn_of_length_le _ (by rw [tab_length]; omega), fn_of_length_le c (by omega), zero_mul]

/-- `MixedRadixEvaluationDomain::fft_in_place`: the evaluations of `c` on the (coset) domain -/
theorem mixedFft_spec (P : Params F) (q : Nat) (hq : P.smallBase = some q) (hq2 : 2 ≤ q)
    (hodd : q % 2 = 1) (d : Domain F) (hd : d.Good) (k : Nat)
    (hsize : d.size = 2 ^ d.logSizeOfGroup * q ^ k) (h32 : k = 0 → d.logSizeOfGroup ≤ 32)
    (c : List F) (hc : c.length ≤ d.size) :
    mixedFft P d c = .ok ((elements d).map (evalL c)) := by
  unfold mixedFft
  have hlen := resize_length (if d.offset ≠ 1 then distributePowers c d.offset else c) d.size 0
  rw [serialMixedRadixFft_spec P q hq hq2 hodd _ d.groupGen d.logSizeOfGroup k
    (by rw [hlen]; exact hsize) (by rw [hlen]; exact hd.size_lt) (by rw [hlen]; exact hd.prim) h32,
    hlen, elements_eq, List.map_map]
  congr 1
  apply tab_congr
  intro K hK
  rw [Function.comp, evalL_eq_sum_of_le c _ hc]
  unfold dftF
  apply Finset.sum_congr rfl
  intro i hi
  rw [fn_fft_input d c hc i (Finset.mem_range.1 hi), mul_pow, ← pow_mul, Nat.mul_comm K i, mul_assoc]

/-- orthogonality of the characters of the cyclic group generated by a primitive root -/
theorem orth_sum {g ginv : F} {n : Nat} (hg : IsPrimitiveRoot g n) (hinv : ginv * g = 1)
    {j K : Nat} (hj : j < n) (hK : K < n) :
    ∑ i ∈ Finset.range n, ginv ^ (j * i) * g ^ (K * i) = if j = K then (n : F) else 0 := by
  have e : ∀ i, ginv ^ (j * i) * g ^ (K * i) = (ginv ^ j * g ^ K) ^ i := by
    intro i; rw [mul_pow, ← pow_mul, ← pow_mul]
  simp only [e]
  by_cases h : j = K
  · subst h
    rw [if_pos rfl, ← mul_pow, hinv, one_pow]
    simp
  · rw [if_neg h]
    have hne : ginv ^ j * g ^ K ≠ 1 := by
      intro e1
      apply h
      apply hg.pow_inj hj hK
      have : g ^ j * (ginv ^ j * g ^ K) = g ^ K := by
        rw [← mul_assoc, ← mul_pow, mul_comm g ginv, hinv, one_pow, one_mul]
      rw [← this, e1, mul_one]
    have h1 : (ginv ^ j * g ^ K) ^ n = 1 := by
      have hginv : ginv ^ n = 1 := by
        have : (ginv * g) ^ n = 1 := by rw [hinv, one_pow]
        rwa [mul_pow, hg.pow_eq_one, mul_one] at this
      rw [mul_pow, ← pow_mul, ← pow_mul, Nat.mul_comm j n, Nat.mul_comm K n, pow_mul, pow_mul,
        hginv, hg.pow_eq_one, one_pow, one_pow, one_mul]
    have := geom_sum_mul (ginv ^ j * g ^ K) n
    rw [h1, sub_self] at this
    exact (mul_eq_zero.1 this).resolve_right (sub_ne_zero.2 hne)

theorem Domain.Good.offsetInv_pow {d : Domain F} (hd : d.Good) (i : Nat) :
    d.offsetInv ^ i * d.offset ^ i = 1 := by
  rw [← mul_pow, hd.offInv, one_pow]

theorem Domain.Good.primInv {d : Domain F} (hd : d.Good) : IsPrimitiveRoot d.groupGenInv d.size := by
  rw [hd.genInv_eq]; exact hd.prim.inv

/-- closed form of `MixedRadixEvaluationDomain::ifft_in_place` -/
theorem mixedIfft_closed (P : Params F) (q : Nat) (hq : P.smallBase = some q) (hq2 : 2 ≤ q)
    (hodd : q % 2 = 1) (d : Domain F) (hd : d.Good) (k : Nat)
    (hsize : d.size = 2 ^ d.logSizeOfGroup * q ^ k) (h32 : k = 0 → d.logSizeOfGroup ≤ 32)
    (evals : List F) :
    mixedIfft P d evals = .ok (tab d.size (fun i =>
      dftF d.size d.groupGenInv (fn (resize evals d.size 0)) i * (d.sizeInv * d.offsetInv ^ i))) := by
  unfold mixedIfft
  have hlen := resize_length evals d.size 0
  rw [serialMixedRadixFft_spec P q hq hq2 hodd _ d.groupGenInv d.logSizeOfGroup k
    (by rw [hlen]; exact hsize) (by rw [hlen]; exact hd.size_lt) (by rw [hlen]; exact hd.primInv) h32,
    hlen]
  simp only
  congr 1
  by_cases h : d.offset = 1
  · rw [if_pos h]
    have h1 : d.offsetInv = 1 := by have := hd.offInv; rwa [h, mul_one] at this
    simp only [tab, List.map_map, h1, one_pow, mul_one]
    rfl
  · rw [if_neg h, distributePowersAndMulByConst_eq, tab_length]
    apply tab_congr
    intro i hi
    rw [fn_tab _ _ hi]

/-- `ifft_in_place` interpolates: the output `c` (length `n`) evaluates to the (zero-padded) input
    on the domain -/
theorem mixedIfft_spec (P : Params F) (q : Nat) (hq : P.smallBase = some q) (hq2 : 2 ≤ q)
    (hodd : q % 2 = 1) (d : Domain F) (hd : d.Good) (k : Nat)
    (hsize : d.size = 2 ^ d.logSizeOfGroup * q ^ k) (h32 : k = 0 → d.logSizeOfGroup ≤ 32)
    (evals : List F) :
    ∃ c, mixedIfft P d evals = .ok c ∧ c.length = d.size ∧
      (elements d).map (evalL c) = resize evals d.size 0 := by
  refine ⟨_, mixedIfft_closed P q hq hq2 hodd d hd k hsize h32 evals, tab_length _ _, ?_⟩
  rw [elements_eq, List.map_map]
  have hl := resize_length evals d.size 0
  conv_rhs => rw [← tab_fn (resize evals d.size 0), hl]
  apply tab_congr
  intro K hK
  rw [Function.comp, evalL_eq_sum_of_le _ _ (le_of_eq (tab_length _ _))]
  set e := fn (resize evals d.size 0) with he
  have step : ∀ i ∈ Finset.range d.size,
      fn (tab d.size (fun i => dftF d.size d.groupGenInv e i * (d.sizeInv * d.offsetInv ^ i))) i *
        (d.offset * d.groupGen ^ K) ^ i =
      ∑ j ∈ Finset.range d.size, e j * d.sizeInv * (d.groupGenInv ^ (j * i) * d.groupGen ^ (K * i)) := by
    intro i hi
    rw [fn_tab _ _ (Finset.mem_range.1 hi), dftF, Finset.sum_mul, Finset.sum_mul]
    apply Finset.sum_congr rfl
    intro j _
    rw [mul_pow, ← pow_mul]
    have := hd.offsetInv_pow i
    linear_combination (e j * d.groupGenInv ^ (j * i) * d.sizeInv * d.groupGen ^ (K * i)) * this
  rw [Finset.sum_congr rfl step, Finset.sum_comm]
  have step2 : ∀ j ∈ Finset.range d.size,
      ∑ i ∈ Finset.range d.size, e j * d.sizeInv * (d.groupGenInv ^ (j * i) * d.groupGen ^ (K * i)) =
      if j = K then e j else 0 := by
    intro j hj
    rw [← Finset.mul_sum, orth_sum hd.prim hd.genInv (Finset.mem_range.1 hj) hK]
    split
    · rw [mul_assoc, hd.sizeInv, mul_one]
    · rw [mul_zero]
  rw [Finset.sum_congr rfl step2, Finset.sum_ite_eq' (Finset.range d.size) K]
  simp [hK]

/-- round trip: `ifft(fft(c))` is `c` zero-padded to the domain size -/
theorem mixedIfft_mixedFft (P : Params F) (q : Nat) (hq : P.smallBase = some q) (hq2 : 2 ≤ q)
    (hodd : q % 2 = 1) (d : Domain F) (hd : d.Good) (k : Nat)
    (hsize : d.size = 2 ^ d.logSizeOfGroup * q ^ k) (h32 : k = 0 → d.logSizeOfGroup ≤ 32)
    (c : List F) (hc : c.length ≤ d.size) :
    ∃ ys, mixedFft P d c = .ok ys ∧ mixedIfft P d ys = .ok (resize c d.size 0) := by
  refine ⟨_, mixedFft_spec P q hq hq2 hodd d hd k hsize h32 c hc, ?_⟩
  rw [mixedIfft_closed P q hq hq2 hodd d hd k hsize h32]
  congr 1
  have hl := resize_length c d.size 0
  conv_rhs => rw [← tab_fn (resize c d.size 0), hl]
  have hev : (elements d).map (evalL c) = tab d.size (fun K => evalL c (d.offset * d.groupGen ^ K)) := by
    rw [elements_eq, List.map_map]; rfl
  apply tab_congr
  intro i hi
  rw [fn_resize_zero c _ _ hi, dftF]
  have step : ∀ K ∈ Finset.range d.size,
      fn (resize ((elements d).map (evalL c)) d.size 0) K * d.groupGenInv ^ (K * i) =
      ∑ j ∈ Finset.range d.size, fn c j * d.offset ^ j * (d.groupGenInv ^ (i * K) * d.groupGen ^ (j * K)) := by
    intro K hK
    have hK' := Finset.mem_range.1 hK
    rw [fn_resize_zero _ _ _ hK', hev, fn_tab _ _ hK', evalL_eq_sum_of_le c _ hc, Finset.sum_mul]
    apply Finset.sum_congr rfl
    intro j _
    rw [mul_pow, ← pow_mul, Nat.mul_comm K j, Nat.mul_comm K i]; ring
  rw [Finset.sum_congr rfl step, Finset.sum_comm]
  have step2 : ∀ j ∈ Finset.range d.size,
      ∑ K ∈ Finset.range d.size, fn c j * d.offset ^ j * (d.groupGenInv ^ (i * K) * d.groupGen ^ (j * K)) =
      if i = j then fn c j * d.offset ^ j * (d.size : F) else 0 := by
    intro j hj
    rw [← Finset.mul_sum, orth_sum hd.prim hd.genInv hi (Finset.mem_range.1 hj)]
    split
    · rfl
    · rw [mul_zero]
  rw [Finset.sum_congr rfl step2, Finset.sum_ite_eq (Finset.range d.size) i]
  simp only [Finset.mem_range, hi, if_true]
  have h1 := hd.offsetInv_pow i
  have h2 := hd.sizeInv
  linear_combination (fn c i * d.offset ^ i * d.offsetInv ^ i) * h2 + fn c i * h1

end Field

/-! ## the permutation step is a bijection -/

theorem surj_of_inj_lt (f : Nat → Nat) (n : Nat) (hmap : ∀ i, i < n → f i < n)
    (hinj : ∀ i j, i < n → j < n → f i = f j → i = j) : ∀ p, p < n → ∃ i, i < n ∧ f i = p := by
  intro p hp
  have hsub : (Finset.range n).image f ⊆ Finset.range n := by
    intro x hx
    obtain ⟨i, hi, rfl⟩ := Finset.mem_image.1 hx
    exact Finset.mem_range.2 (hmap i (Finset.mem_range.1 hi))
  have hcard : ((Finset.range n).image f).card = n := by
    rw [Finset.card_image_of_injOn, Finset.card_range]
    intro i hi j hj h
    exact hinj i j (Finset.mem_range.1 (by exact_mod_cast hi)) (Finset.mem_range.1 (by exact_mod_cast hj)) h
  have heq := Finset.eq_of_subset_of_card_le hsub (by rw [hcard, Finset.card_range])
  have : p ∈ (Finset.range n).image f := by rw [heq]; exact Finset.mem_range.2 hp
  obtain ⟨i, hi, rfl⟩ := Finset.mem_image.1 this
  exact ⟨i, Finset.mem_range.1 hi, rfl⟩

/-- `mixed_radix_fft_permute(s, k, q, n, ·)` is a bijection of `[0, n)` for `n = 2^s·q^k` -/
theorem mixedRadixFftPermute_bij (s k q n : Nat) (hq : 0 < q) (hn : n = 2 ^ s * q ^ k) :
    (∀ i, i < n → mixedRadixFftPermute s k q n i < n) ∧
    (∀ i j, i < n → j < n → mixedRadixFftPermute s k q n i = mixedRadixFftPermute s k q n j → i = j) ∧
    (∀ p, p < n → ∃ i, i < n ∧ mixedRadixFftPermute s k q n i = p) := by
  have hposR : ∀ r ∈ List.replicate s 2 ++ List.replicate k q, 0 < r := by
    intro r hr
    simp only [List.mem_append, List.mem_replicate] at hr
    omega
  have hprod : (List.replicate s 2 ++ List.replicate k q).prod = n := by simp [hn]
  have h1 : ∀ i, i < n → mixedRadixFftPermute s k q n i < n := by
    intro i _
    rw [mixedRadixFftPermute_eq s k q n i hq hn]
    conv_rhs => rw [← hprod]
    exact pos_lt _ hposR i
  have h2 : ∀ i j, i < n → j < n →
      mixedRadixFftPermute s k q n i = mixedRadixFftPermute s k q n j → i = j := by
    intro i j hi hj h
    rw [mixedRadixFftPermute_eq s k q n i hq hn, mixedRadixFftPermute_eq s k q n j hq hn] at h
    exact pos_inj _ hposR i j (by rw [hprod]; exact hi) (by rw [hprod]; exact hj) h
  exact ⟨h1, h2, surj_of_inj_lt _ n h1 h2⟩

/-- "Applying the permutation": entry `i` moves to position `perm i` -/
theorem applyPermutation_mixedRadix {F : Type} (s k q : Nat) (hq : 0 < q) (a : List F)
    (hn : a.length = 2 ^ s * q ^ k) :
    (applyPermutation (mixedRadixFftPermute s k q a.length) a).length = a.length ∧
    ∀ i, i < a.length →
      (applyPermutation (mixedRadixFftPermute s k q a.length) a)[mixedRadixFftPermute s k q a.length i]?
        = a[i]? := by
  obtain ⟨h1, h2, -⟩ := mixedRadixFftPermute_bij s k q a.length hq hn
  exact applyPermutation_spec _ a h1 h2


/-! ## end to end: `new` → `get_coset` → `fft_in_place` / `ifft_in_place` -/
section Field
variable {F : Type} [Field F] [DecidableEq F]

theorem mixedFft_of_mixedNew (P : Params F) (w : F) (q k : Nat) (hw : P.largeRoot = some w)
    (hq : P.smallBase = some q) (hk : P.smallAdicity = some k) (hq2 : 2 ≤ q) (hodd : q % 2 = 1)
    (hq64 : q < 2 ^ 64) (hord : orderOf w = 2 ^ P.twoAdicity * q ^ k)
    (n : Nat) (hn : n ≤ 2 ^ 63) (a b : Nat) (ha : a ≤ P.twoAdicity) (hb : b ≤ k)
    (hge : n ≤ 2 ^ a * q ^ b) (hlt : 2 ^ a * q ^ b ≤ 2 ^ 32) (h : F) (hh : h ≠ 0) :
    ∃ d d', mixedNew P n = .ok (some d) ∧ getCoset d h = some d' ∧ d'.Good ∧ n ≤ d'.size ∧
      d'.offset = h ∧
      ∀ c : List F, c.length ≤ d'.size →
        mixedFft P d' c = .ok ((elements d').map (evalL c)) ∧
        mixedIfft P d' ((elements d').map (evalL c)) = .ok (resize c d'.size 0) := by
  obtain ⟨a', b', g, ha', hb', hge', hlt', hmin, hgord, hnew, hgood⟩ :=
    mixedNew_some P w q k hw hq hk hq2 hodd hq64 hord n hn a b ha hb hge
      (lt_of_le_of_lt hlt (by norm_num))
  obtain ⟨d', hd', hgood', hsz, hlog, -, -, -, -, hoff, -, -⟩ := getCoset_good _ hgood hh
  have hsize : d'.size = 2 ^ d'.logSizeOfGroup * q ^ b' := by rw [hsz, hlog]; rfl
  have h32 : b' = 0 → d'.logSizeOfGroup ≤ 32 := by
    intro hb0
    have hle : 2 ^ a' * q ^ b' ≤ 2 ^ 32 := le_trans (hmin a b ha hb hge) hlt
    rw [hb0, pow_zero, Nat.mul_one] at hle
    rw [hlog]
    exact (Nat.pow_le_pow_iff_right (by norm_num)).1 hle
  refine ⟨_, d', hnew, hd', hgood', by rw [hsz]; exact hge', hoff, ?_⟩
  intro c hc
  obtain ⟨ys, h1, h2⟩ := mixedIfft_mixedFft P q hq hq2 hodd d' hgood' b' hsize h32 c hc
  have h3 := mixedFft_spec P q hq hq2 hodd d' hgood' b' hsize h32 c hc
  rw [h3] at h1
  cases h1
  exact ⟨h3, h2⟩

end Field

end Ark.Fft
