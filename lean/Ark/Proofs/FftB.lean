import Mathlib.Data.List.Sort
import Mathlib.LinearAlgebra.Lagrange
import Mathlib.RingTheory.Polynomial.Cyclotomic.Basic
import Ark.Model.Fft
import Ark.Proofs.FieldOps
import Mathlib.Algebra.Field.Basic
import Mathlib.Tactic.Ring
import Mathlib.Tactic.FieldSimp
import Mathlib.Tactic.Linarith
import Mathlib.Tactic.NormNum
import Mathlib.Data.Nat.Log
import Mathlib.GroupTheory.OrderOfElement
import Mathlib.RingTheory.RootsOfUnity.PrimitiveRoots
/-
  Ark.Proofs.FftB — helper lemmas for property C07 (part b): evaluation-domain construction,
  vanishing polynomial, Lagrange coefficients, re-indexing and the mixed-radix FFT of
  `Ark.Model.Fft`, proved over an abstract `[Field F]`.
-/
set_option linter.unusedSectionVars false
set_option linter.unusedVariables false

namespace Ark.Fft
open Ark

/-! ## integer helpers -/

theorem U64_eq : U64 = 2 ^ 64 := rfl

theorem isPowerOfTwo_iff (x : Nat) : isPowerOfTwo x = true ↔ ∃ k, x = 2 ^ k := by
  unfold isPowerOfTwo
  constructor
  · intro h
    simp only [Bool.and_eq_true, bne_iff_ne, ne_eq, beq_iff_eq] at h
    exact ⟨x.log2, h.2.symm⟩
  · rintro ⟨k, rfl⟩
    simp only [Bool.and_eq_true, bne_iff_ne, ne_eq, beq_iff_eq, Nat.log2_two_pow, and_true]
    exact (Nat.two_pow_pos k).ne'

/-- the model's `log2` is the ceiling logarithm `Nat.clog 2` -/
theorem log2_eq_clog (x : Nat) : log2 x = Nat.clog 2 x := by
  unfold log2
  by_cases h0 : x = 0
  · simp [h0]
  · rw [if_neg h0]
    by_cases hp : isPowerOfTwo x = true
    · rw [if_pos hp]
      obtain ⟨k, rfl⟩ := (isPowerOfTwo_iff x).1 hp
      rw [Nat.log2_two_pow, Nat.clog_pow 2 k (by norm_num)]
    · rw [if_neg hp]
      symm
      have hlt : 2 ^ x.log2 < x := by
        have h1 : 2 ^ x.log2 ≤ x := Nat.log2_self_le h0
        rcases Nat.lt_or_ge (2 ^ x.log2) x with h | h
        · exact h
        · exact absurd ((isPowerOfTwo_iff x).2 ⟨x.log2, le_antisymm h h1⟩) hp
      have hub : x < 2 ^ (x.log2 + 1) := Nat.lt_log2_self
      apply le_antisymm
      · exact (Nat.clog_le_iff_le_pow (by norm_num)).2 hub.le
      · by_contra hc
        have : Nat.clog 2 x ≤ x.log2 := by omega
        have h2 := (Nat.clog_le_iff_le_pow (b := 2) (by norm_num)).1 this
        omega

theorem le_two_pow_clog (n : Nat) : n ≤ 2 ^ Nat.clog 2 n := Nat.le_pow_clog (by norm_num) n

theorem nextPowerOfTwo_eq (n : Nat) :
    nextPowerOfTwo n = if Nat.clog 2 n < 64 then 2 ^ Nat.clog 2 n else 0 := by
  unfold nextPowerOfTwo checkedNextPowerOfTwo
  by_cases h1 : n ≤ 1
  · rw [if_pos h1]
    have : Nat.clog 2 n = 0 := Nat.clog_of_right_le_one h1 2
    simp [this]
  · rw [if_neg h1, log2_eq_clog]
    by_cases h : Nat.clog 2 n < 64
    · have h' : 2 ^ Nat.clog 2 n < U64 := Nat.pow_lt_pow_right (by norm_num) h
      rw [if_pos h, if_pos h']; rfl
    · have h' : ¬ 2 ^ Nat.clog 2 n < U64 := fun hc =>
        h ((Nat.pow_lt_pow_iff_right (by norm_num)).1 hc)
      rw [if_neg h, if_neg h']; rfl

theorem trailingZerosAux_two_pow (k : Nat) : ∀ (fuel r : Nat), k < fuel →
    trailingZerosAux fuel (2 ^ k) r = r + k := by
  induction k with
  | zero =>
    intro fuel r h
    obtain ⟨f, rfl⟩ : ∃ f, fuel = f + 1 := ⟨fuel - 1, by omega⟩
    simp [trailingZerosAux]
  | succ k ih =>
    intro fuel r h
    obtain ⟨f, rfl⟩ : ∃ f, fuel = f + 1 := ⟨fuel - 1, by omega⟩
    have e1 : 2 ^ (k + 1) % 2 = 0 := by rw [Nat.pow_succ]; omega
    have e2 : 2 ^ (k + 1) / 2 = 2 ^ k := by rw [Nat.pow_succ]; omega
    rw [trailingZerosAux, if_pos e1, e2, ih f (r + 1) (by omega)]
    omega

theorem trailingZeros_two_pow (k : Nat) (hk : k < 64) : trailingZeros (2 ^ k) = k := by
  unfold trailingZeros
  rw [if_neg (Nat.two_pow_pos k).ne', trailingZerosAux_two_pow k 64 0 hk]
  omega

theorem trailingZeros_zero : trailingZeros 0 = 64 := rfl

/-! ## `k_adicity` -/

theorem kAdicityAux_spec (q : Nat) (hq : 2 ≤ q) (m : Nat) (hm : 1 ≤ m) (hqm : ¬ q ∣ m) :
    ∀ (b fuel r : Nat), b ≤ fuel → kAdicityAux q fuel (q ^ b * m) r = r + b := by
  intro b
  induction b with
  | zero =>
    intro fuel r _
    cases fuel with
    | zero => rfl
    | succ f =>
      simp only [pow_zero, one_mul, Nat.add_zero]
      rw [kAdicityAux]
      split
      · rw [if_neg]
        intro h
        exact hqm (Nat.dvd_of_mod_eq_zero h)
      · rfl
  | succ b ih =>
    intro fuel r h
    obtain ⟨f, rfl⟩ : ∃ f, fuel = f + 1 := ⟨fuel - 1, by omega⟩
    have hpos : 0 < q ^ b * m := Nat.mul_pos (Nat.pow_pos (by omega)) hm
    have e : q ^ (b + 1) * m = q * (q ^ b * m) := by ring
    have h1 : q ^ (b + 1) * m > 1 := by rw [e]; nlinarith
    have h2 : q ^ (b + 1) * m % q = 0 := by rw [e]; exact Nat.mul_mod_right _ _
    have h3 : q ^ (b + 1) * m / q = q ^ b * m := by
      rw [e]; exact Nat.mul_div_cancel_left _ (by omega)
    rw [kAdicityAux, if_pos h1, if_pos h2, h3, ih f (r + 1) (by omega)]
    omega

theorem kAdicity_spec (q : Nat) (hq : 2 ≤ q) (m b : Nat) (hm : 1 ≤ m) (hqm : ¬ q ∣ m)
    (hb : b ≤ 64) : kAdicity q (q ^ b * m) = b := by
  unfold kAdicity
  rw [kAdicityAux_spec q hq m hm hqm b 64 0 hb]; omega

/-! ## `pow`, `iter` over a field -/

theorem bitsToNat_testBit (n : Nat) : ∀ e : Nat,
    bitsToNat ((List.range n).map (fun i => e.testBit i)) = e % 2 ^ n := by
  induction n with
  | zero => intro e; simp [bitsToNat, Nat.mod_one]
  | succ n ih =>
    intro e
    rw [List.range_succ_eq_map, List.map_cons, List.map_map, bitsToNat]
    have : ((fun i => e.testBit i) ∘ Nat.succ) = fun i => (e / 2).testBit i := by
      funext i; simp [Nat.testBit_add_one]
    rw [this, ih (e / 2), Nat.testBit_zero]
    have h2 : e % 2 ^ (n + 1) = e % 2 + 2 * (e / 2 % 2 ^ n) := by
      rw [Nat.pow_succ, Nat.mul_comm, Nat.mod_mul]
    rw [h2]
    rcases Nat.mod_two_eq_zero_or_one e with h | h <;> simp [h]

theorem bitsValBE_bitsBE64 (e : Nat) : bitsValBE (bitsBE64 e) = e % 2 ^ 64 := by
  rw [bitsValBE_eq_bitsToNat_reverse, bitsBE64, ← List.map_reverse, List.reverse_reverse,
    bitsToNat_testBit]

section Field
variable {F : Type} [Field F] [DecidableEq F]

/-- the identity interpretation of `fieldOps` over a field -/
def fieldInterp : (fieldOps F).Interp F where
  V := fun _ => True
  φ := id
  one_V := trivial
  one_φ := rfl
  mul_V := fun _ _ => trivial
  mul_φ := fun _ _ => rfl
  square_V := fun _ => trivial
  square_φ := fun _ => rfl
  isZero_iff := fun _ => by simp [fieldOps]
  inv_some := fun {a} _ h => ⟨a⁻¹, by simp only [id] at h; simp [fieldOps, h], trivial, rfl⟩

theorem pow_eq_mod (a : F) (e : Nat) : pow a e = a ^ (e % 2 ^ 64) := by
  have h := (Ops.pow_correct (fieldInterp (F := F)) (a := a) trivial (bitsBE64 e)).2
  rw [bitsValBE_bitsBE64] at h
  exact h

theorem pow_eq (a : F) (e : Nat) (he : e < 2 ^ 64) : pow a e = a ^ e := by
  rw [pow_eq_mod, Nat.mod_eq_of_lt he]

theorem iter_sq (k : Nat) : ∀ x : F, iter (fun w => w * w) k x = x ^ (2 ^ k) := by
  induction k with
  | zero => intro x; simp [iter]
  | succ k ih => intro x; rw [iter, ih, pow_succ 2 k, ← pow_two, ← pow_mul]; ring_nf

theorem iter_pow (q : Nat) (hq : q < 2 ^ 64) (k : Nat) :
    ∀ x : F, iter (fun w => pow w q) k x = x ^ (q ^ k) := by
  induction k with
  | zero => intro x; simp [iter]
  | succ k ih => intro x; rw [iter, ih, pow_eq _ _ hq, ← pow_mul, pow_succ q k, Nat.mul_comm]

theorem inv?_zero : inv? (0 : F) = none := by simp [inv?]
theorem inv?_ne {a : F} (h : a ≠ 0) : inv? a = some a⁻¹ := by simp [inv?, h]

end Field

/-! ## well-formed parameters and `get_root_of_unity` -/
section Field
variable {F : Type} [Field F] [DecidableEq F]

/-- Well-formed `FftField` constants: `TWO_ADIC_ROOT_OF_UNITY` has order exactly
    `2^TWO_ADICITY`; when a `LARGE_SUBGROUP_ROOT_OF_UNITY` is present so are the small subgroup
    base `q` (odd, `≥ 3`, a `u32`/`u64`) and adicity `k`, and the large root has order exactly
    `2^TWO_ADICITY · q^k`. -/
structure Params.WF (P : Params F) : Prop where
  root_order : orderOf P.twoAdicRoot = 2 ^ P.twoAdicity
  large : ∀ w, P.largeRoot = some w →
    ∃ q k, P.smallBase = some q ∧ P.smallAdicity = some k ∧ 2 ≤ q ∧ q % 2 = 1 ∧ q < 2 ^ 64 ∧
      orderOf w = 2 ^ P.twoAdicity * q ^ k

theorem not_dvd_two_pow_of_odd {q : Nat} (hq : 2 ≤ q) (hodd : q % 2 = 1) (a : Nat) : ¬ q ∣ 2 ^ a := by
  intro h
  have hc : Nat.Coprime q (2 ^ a) := by
    apply Nat.Coprime.pow_right
    rw [Nat.coprime_two_right, Nat.odd_iff]; exact hodd
  have := Nat.Coprime.eq_one_of_dvd hc h
  omega

theorem not_two_dvd_odd_pow {q : Nat} (hodd : q % 2 = 1) (b : Nat) : ¬ 2 ∣ q ^ b := by
  intro h
  have : (q ^ b) % 2 = 1 := by rw [Nat.pow_mod, hodd]; simp
  omega

theorem exp_lt_64 {q : Nat} (hq : 2 ≤ q) {b n : Nat} (h : q ^ b ≤ n) (hn : n < 2 ^ 64) : b < 64 := by
  by_contra hc
  have h1 : 2 ^ 64 ≤ 2 ^ b := Nat.pow_le_pow_right (by norm_num) (by omega)
  have h2 : 2 ^ b ≤ q ^ b := Nat.pow_le_pow_left hq b
  omega

theorem checkedPow_of_lt {b e : Nat} (h : b ^ e < 2 ^ 64) : checkedPow b e = some (b ^ e) := by
  unfold checkedPow; rw [if_pos (by rw [U64_eq]; exact h)]

theorem orderOf_pow_pow {x : F} {N m : Nat} (hx : orderOf x = N * m) (hm : 0 < m) :
    orderOf (x ^ m) = N := by
  rw [orderOf_pow_of_dvd hm.ne' (by rw [hx]; exact Dvd.intro_left N rfl), hx,
    Nat.mul_div_cancel _ hm]

/-- `get_root_of_unity` with a large subgroup root: for `n = 2^a · q^b` (`a ≤ s`, `b ≤ k`,
    `n < 2^64`) it returns an element of order exactly `n` -/
theorem getRootOfUnity_large (P : Params F) (w : F) (q k : Nat) (hw : P.largeRoot = some w)
    (hq : P.smallBase = some q) (hk : P.smallAdicity = some k) (hq2 : 2 ≤ q) (hodd : q % 2 = 1)
    (hq64 : q < 2 ^ 64) (hord : orderOf w = 2 ^ P.twoAdicity * q ^ k)
    (a b : Nat) (ha : a ≤ P.twoAdicity) (hb : b ≤ k) (hn : 2 ^ a * q ^ b < 2 ^ 64) :
    getRootOfUnity P (2 ^ a * q ^ b) = .ok (some ((w ^ (q ^ (k - b))) ^ (2 ^ (P.twoAdicity - a)))) ∧
    orderOf ((w ^ (q ^ (k - b))) ^ (2 ^ (P.twoAdicity - a))) = 2 ^ a * q ^ b := by
  have hqpos : 0 < q := by omega
  have hqb : q ^ b ≤ 2 ^ a * q ^ b := Nat.le_mul_of_pos_left _ (Nat.two_pow_pos a)
  have h2a : 2 ^ a ≤ 2 ^ a * q ^ b := Nat.le_mul_of_pos_right _ (Nat.pow_pos hqpos)
  have hb64 : b < 64 := exp_lt_64 hq2 hqb hn
  have ha64 : a < 64 := exp_lt_64 (le_refl 2) h2a hn
  have hkq : kAdicity q (2 ^ a * q ^ b) = b := by
    rw [Nat.mul_comm]
    exact kAdicity_spec q hq2 (2 ^ a) b (Nat.two_pow_pos a) (not_dvd_two_pow_of_odd hq2 hodd a)
      (by omega)
  have hk2 : kAdicity 2 (2 ^ a * q ^ b) = a :=
    kAdicity_spec 2 (le_refl 2) (q ^ b) a (Nat.pow_pos hqpos) (not_two_dvd_odd_pow hodd b) (by omega)
  constructor
  · unfold getRootOfUnity
    simp only [hw, hq, hk, hkq, hk2]
    rw [checkedPow_of_lt (lt_of_le_of_lt hqb hn), checkedPow_of_lt (lt_of_le_of_lt h2a hn)]
    simp only
    have hmod : (2 ^ a * q ^ b) % U64 = 2 ^ a * q ^ b := Nat.mod_eq_of_lt (by rw [U64_eq]; exact hn)
    rw [if_neg (by rw [hmod]; omega), iter_pow q hq64, iter_sq]
  · have e1 : orderOf (w ^ (q ^ (k - b))) = 2 ^ P.twoAdicity * q ^ b := by
      apply orderOf_pow_pow _ (Nat.pow_pos hqpos)
      rw [hord, Nat.mul_assoc, ← pow_add]; congr 2; omega
    have e2 : 2 ^ P.twoAdicity * q ^ b = (2 ^ a * q ^ b) * 2 ^ (P.twoAdicity - a) := by
      rw [Nat.mul_right_comm, ← pow_add]; congr 2; omega
    exact orderOf_pow_pow (e1.trans e2) (Nat.two_pow_pos _)

/-- `get_root_of_unity` without a large subgroup root, on a power of two `2^a`, `a ≤ s` -/
theorem getRootOfUnity_small (P : Params F) (hw : P.largeRoot = none)
    (hord : orderOf P.twoAdicRoot = 2 ^ P.twoAdicity) (a : Nat) (ha : a ≤ P.twoAdicity)
    (ha64 : a < 64) :
    getRootOfUnity P (2 ^ a) = .ok (some (P.twoAdicRoot ^ (2 ^ (P.twoAdicity - a)))) ∧
    orderOf (P.twoAdicRoot ^ (2 ^ (P.twoAdicity - a))) = 2 ^ a := by
  constructor
  · unfold getRootOfUnity
    simp only [hw]
    have e : nextPowerOfTwo (2 ^ a) = 2 ^ a := by
      rw [nextPowerOfTwo_eq, Nat.clog_pow 2 a (by norm_num), if_pos ha64]
    have e2 : log2 (2 ^ a) = a := by rw [log2_eq_clog, Nat.clog_pow 2 a (by norm_num)]
    rw [e, e2, if_neg (by omega), iter_sq]
  · apply orderOf_pow_pow _ (Nat.two_pow_pos _)
    rw [hord, ← pow_add]; congr 1; omega

/-- on `0` (the wrapped `next_power_of_two`) `get_root_of_unity` returns `None` or panics only
    on an inconsistent configuration -/
theorem getRootOfUnity_zero (P : Params F) (hP : P.WF) : getRootOfUnity P 0 = .ok none := by
  unfold getRootOfUnity
  cases hw : P.largeRoot with
  | none => simp [nextPowerOfTwo, checkedNextPowerOfTwo]
  | some w =>
    obtain ⟨q, k, hq, hk, -, -, -, -⟩ := hP.large w hw
    simp [hq, hk, kAdicity, kAdicityAux, checkedPow, U64]

/-- under well-formed parameters, on `2^a · q^b` resp. `2^a` the root exists with the right order -/
theorem getRootOfUnity_two_pow (P : Params F) (hP : P.WF) (a : Nat) (ha : a ≤ P.twoAdicity)
    (ha64 : a < 64) : ∃ g, getRootOfUnity P (2 ^ a) = .ok (some g) ∧ orderOf g = 2 ^ a := by
  cases hw : P.largeRoot with
  | none => exact ⟨_, getRootOfUnity_small P hw hP.root_order a ha ha64⟩
  | some w =>
    obtain ⟨q, k, hq, hk, hq2, hodd, hq64, hord⟩ := hP.large w hw
    have := getRootOfUnity_large P w q k hw hq hk hq2 hodd hq64 hord a 0 ha (Nat.zero_le _)
      (by simpa using Nat.pow_lt_pow_right (by norm_num) ha64)
    simp only [pow_zero, mul_one] at this
    exact ⟨_, this⟩

end Field

/-! ## domains -/
section Field
variable {F : Type} [Field F] [DecidableEq F]

/-- the invariant of a constructed domain (any offset): the nine struct fields are coherent -/
structure Domain.Good (d : Domain F) : Prop where
  size_pos : 0 < d.size
  size_lt : d.size < 2 ^ 64
  sizeF : d.sizeAsFieldElement = (d.size : F)
  sizeInv : d.sizeInv * (d.size : F) = 1
  gen_order : orderOf d.groupGen = d.size
  genInv : d.groupGenInv * d.groupGen = 1
  offInv : d.offsetInv * d.offset = 1
  offPow : d.offsetPowSize = d.offset ^ d.size

theorem natCast_ne_zero_of_orderOf {g : F} {N : Nat} (hN : 0 < N) (hg : orderOf g = N) :
    ((N : Nat) : F) ≠ 0 := by
  have hp : IsPrimitiveRoot g N := hg ▸ IsPrimitiveRoot.orderOf g
  have : NeZero N := ⟨hN.ne'⟩
  exact (hp.neZero').ne

theorem ne_zero_of_orderOf {g : F} {N : Nat} (hN : 0 < N) (hg : orderOf g = N) : g ≠ 0 := by
  rintro rfl
  have h1 : (0 : F) ^ N = 1 := hg ▸ pow_orderOf_eq_one (0 : F)
  rw [zero_pow hN.ne'] at h1
  exact zero_ne_one h1

/-- the record built at the end of `Radix2EvaluationDomain::new` / `MixedRadixEvaluationDomain::new` -/
def mkDom (g : F) (N lg : Nat) : Domain F :=
  { size := N, logSizeOfGroup := lg, sizeAsFieldElement := (N : F),
    sizeInv := ((N : F))⁻¹, groupGen := g, groupGenInv := g⁻¹,
    offset := 1, offsetInv := 1, offsetPowSize := 1 }

theorem mkDomain_good {g : F} {N lg : Nat} (hN : 0 < N) (hlt : N < 2 ^ 64) (hg : orderOf g = N) :
    inv? ((N : Nat) : F) = some ((N : F))⁻¹ ∧ inv? g = some g⁻¹ ∧ Domain.Good (mkDom g N lg) := by
  have h1 := natCast_ne_zero_of_orderOf hN hg
  have h2 := ne_zero_of_orderOf hN hg
  refine ⟨inv?_ne h1, inv?_ne h2, ⟨hN, hlt, rfl, ?_, hg, ?_, ?_, ?_⟩⟩
  · exact inv_mul_cancel₀ h1
  · exact inv_mul_cancel₀ h2
  · simp [mkDom]
  · simp [mkDom]

/-- the complete specification of `Radix2EvaluationDomain::new` under well-formed parameters -/
theorem radix2New_cases (P : Params F) (hP : P.WF) (n : Nat) :
    (radix2New P n = .ok none ∧ (P.twoAdicity < Nat.clog 2 n ∨ 64 ≤ Nat.clog 2 n)) ∨
    (Nat.clog 2 n ≤ P.twoAdicity ∧ Nat.clog 2 n < 64 ∧
      ∃ g : F, orderOf g = 2 ^ Nat.clog 2 n ∧
        radix2New P n = .ok (some (mkDom g (2 ^ Nat.clog 2 n) (Nat.clog 2 n)))) := by
  unfold radix2New
  rw [nextPowerOfTwo_eq]
  by_cases h64 : Nat.clog 2 n < 64
  · rw [if_pos h64]
    simp only [trailingZeros_two_pow _ h64]
    by_cases hs : Nat.clog 2 n ≤ P.twoAdicity
    · right
      refine ⟨hs, h64, ?_⟩
      obtain ⟨g, hg, hord⟩ := getRootOfUnity_two_pow P hP _ hs h64
      obtain ⟨e1, e2, -⟩ := mkDomain_good (lg := Nat.clog 2 n) (Nat.two_pow_pos _)
        (Nat.pow_lt_pow_right (by norm_num) h64) hord
      refine ⟨g, hord, ?_⟩
      rw [if_neg (by omega), hg]
      simp only [e1, e2, mkDom]
    · left
      rw [if_pos (by omega)]
      exact ⟨rfl, Or.inl (by omega)⟩
  · left
    rw [if_neg h64]
    refine ⟨?_, Or.inr (by omega)⟩
    simp only [trailingZeros_zero, getRootOfUnity_zero P hP]
    split <;> rfl

end Field

/-! ## cosets, elements, `GeneralEvaluationDomain::new` -/
section Field
variable {F : Type} [Field F] [DecidableEq F]

theorem mkDom_offsets (g : F) (N lg : Nat) :
    (mkDom g N lg).offset = 1 ∧ (mkDom g N lg).offsetInv = 1 ∧ (mkDom g N lg).offsetPowSize = 1 :=
  ⟨rfl, rfl, rfl⟩

theorem getCoset_zero (d : Domain F) : getCoset d 0 = none := by
  simp [getCoset, inv?_zero]

theorem getCoset_ne (d : Domain F) (hlt : d.size < 2 ^ 64) {h : F} (hh : h ≠ 0) :
    getCoset d h = some { d with offset := h, offsetInv := h⁻¹, offsetPowSize := h ^ d.size } := by
  simp only [getCoset, inv?_ne hh, pow_eq _ _ hlt]

theorem getCoset_good (d : Domain F) (hd : d.Good) {h : F} (hh : h ≠ 0) :
    ∃ d', getCoset d h = some d' ∧ d'.Good ∧ d'.size = d.size ∧
      d'.logSizeOfGroup = d.logSizeOfGroup ∧ d'.groupGen = d.groupGen ∧
      d'.groupGenInv = d.groupGenInv ∧ d'.sizeInv = d.sizeInv ∧
      d'.sizeAsFieldElement = d.sizeAsFieldElement ∧
      d'.offset = h ∧ d'.offsetInv * h = 1 ∧ d'.offsetPowSize = h ^ d.size := by
  refine ⟨_, getCoset_ne d hd.size_lt hh, ⟨hd.size_pos, hd.size_lt, hd.sizeF, hd.sizeInv,
    hd.gen_order, hd.genInv, inv_mul_cancel₀ hh, rfl⟩, rfl, rfl, rfl, rfl, rfl, rfl, rfl,
    inv_mul_cancel₀ hh, rfl⟩

theorem element_eq (d : Domain F) (i : Nat) (hi : i < 2 ^ 64) :
    element d i = d.offset * d.groupGen ^ i := by
  unfold element
  simp only [pow_eq _ _ hi]
  by_cases h : d.offset = 1
  · simp [h]
  · simp only [ne_eq, h, not_false_eq_true, if_true]; ring

theorem elementsAux_eq (g : F) (n : Nat) : ∀ cur : F,
    elementsAux g n cur = (List.range n).map (fun i => cur * g ^ i) := by
  induction n with
  | zero => intro cur; rfl
  | succ n ih =>
    intro cur
    rw [elementsAux, ih, List.range_succ_eq_map, List.map_cons, List.map_map]
    simp only [pow_zero, mul_one, List.cons.injEq, true_and]
    apply List.map_congr_left
    intro i _
    simp only [Function.comp, Nat.succ_eq_add_one, pow_succ]; ring

theorem elements_eq (d : Domain F) :
    elements d = (List.range d.size).map (fun i => d.offset * d.groupGen ^ i) :=
  elementsAux_eq _ _ _

theorem elements_eq_map_element (d : Domain F) (hlt : d.size ≤ 2 ^ 64) :
    elements d = (List.range d.size).map (element d) := by
  rw [elements_eq]
  apply List.map_congr_left
  intro i hi
  rw [element_eq d i (lt_of_lt_of_le (List.mem_range.1 hi) hlt)]

theorem elements_length (d : Domain F) : (elements d).length = d.size := by
  rw [elements_eq]; simp

/-- `GeneralEvaluationDomain::new` = the radix-2 domain when that exists, else the mixed one
    (tried only when the field has a small subgroup) -/
theorem generalNew_eq (P : Params F) (n : Nat) :
    generalNew P n =
      match radix2New P n with
      | .panic => .panic
      | .ok (some d) => .ok (some (.radix2 d))
      | .ok none =>
        if P.smallBase.isSome then
          (match mixedNew P n with
           | .panic => .panic
           | .ok (some d) => .ok (some (.mixedRadix d))
           | .ok none => .ok none)
        else .ok none := rfl

theorem generalNew_of_radix2_some (P : Params F) (n : Nat) (d : Domain F)
    (h : radix2New P n = .ok (some d)) : generalNew P n = .ok (some (.radix2 d)) := by
  simp only [generalNew, h]

theorem generalNew_of_radix2_none (P : Params F) (n : Nat) (h : radix2New P n = .ok none) :
    generalNew P n = (match mixedNew P n with
      | .panic => .panic
      | .ok (some d) => .ok (some (.mixedRadix d))
      | .ok none => .ok none) := by
  simp only [generalNew, h]
  cases hb : P.smallBase with
  | none => simp [mixedNew, hb]
  | some q =>
    simp only [Option.isSome_some, if_true]
    cases mixedNew P n with
    | panic => rfl
    | ok o => cases o <;> rfl

end Field

/-! ## `best_mixed_domain_size`, `MixedRadixEvaluationDomain::new` -/

theorem growAux_spec (n : Nat) : ∀ (fuel r ta : Nat), n ≤ r * 2 ^ fuel →
    ∃ j, growAux n fuel r ta = (r * 2 ^ j, ta + j) ∧ n ≤ r * 2 ^ j ∧ ∀ i, i < j → r * 2 ^ i < n := by
  intro fuel
  induction fuel with
  | zero =>
    intro r ta h
    exact ⟨0, by simp [growAux], by simpa using h, fun i hi => absurd hi (Nat.not_lt_zero i)⟩
  | succ fuel ih =>
    intro r ta h
    by_cases hr : r < n
    · obtain ⟨j, hj, hge, hlt⟩ := ih (r * 2) (ta + 1) (by rw [Nat.pow_succ] at h; linarith)
      refine ⟨j + 1, ?_, ?_, ?_⟩
      · rw [growAux, if_pos hr, hj, Nat.pow_succ]
        congr 1
        · ring
        · omega
      · rw [Nat.pow_succ]; linarith
      · intro i hi
        cases i with
        | zero => simpa using hr
        | succ i =>
          have := hlt i (by omega)
          rw [Nat.pow_succ]; linarith
    · exact ⟨0, by simp [growAux, hr], by simp; omega, fun i hi => absurd hi (Nat.not_lt_zero i)⟩

theorem foldl_min_spec {β : Type} (p : β → Prop) [DecidablePred p] (f : β → Nat) (l : List β) :
    ∀ init : Nat,
      let R := l.foldl (fun best b => if p b then min best (f b) else best) init
      R ≤ init ∧ (∀ b ∈ l, p b → R ≤ f b) ∧ (R = init ∨ ∃ b ∈ l, p b ∧ R = f b) := by
  induction l with
  | nil => intro init; simp
  | cons x xs ih =>
    intro init
    simp only [List.foldl_cons]
    obtain ⟨h1, h2, h3⟩ := ih (if p x then min init (f x) else init)
    have hle : (if p x then min init (f x) else init) ≤ init := by
      split
      · exact Nat.min_le_left _ _
      · exact le_refl _
    refine ⟨le_trans h1 hle, ?_, ?_⟩
    · intro b hb hpb
      rcases List.mem_cons.1 hb with rfl | hb
      · refine le_trans h1 ?_
        rw [if_pos hpb]; exact Nat.min_le_right _ _
      · exact h2 b hb hpb
    · rcases h3 with h3 | ⟨b, hb, hpb, hR⟩
      · by_cases hpx : p x
        · simp only [if_pos hpx] at h3 ⊢
          rcases Nat.le_total init (f x) with hc | hc
          · left; rw [h3, Nat.min_eq_left hc]
          · right; exact ⟨x, List.mem_cons_self, hpx, by rw [h3, Nat.min_eq_right hc]⟩
        · simp only [if_neg hpx] at h3 ⊢; exact Or.inl h3
      · exact Or.inr ⟨b, List.mem_cons_of_mem _ hb, hpb, hR⟩

section Field
variable {F : Type} [Field F] [DecidableEq F]

theorem mixedNew_no_base (P : Params F) (n : Nat) (h : P.smallBase = none) :
    mixedNew P n = .ok none := by
  simp only [mixedNew, h]

/-- `best_mixed_domain_size` as a fold over `.1`/`.2` of `growAux` -/
theorem bestMixedDomainSize_eq (P : Params F) (n q k : Nat) (hq : P.smallBase = some q)
    (hk : P.smallAdicity = some k) :
    bestMixedDomainSize P n = .ok ((List.range (k + 1)).foldl (fun best b =>
      if (growAux n 65 (q ^ b) 0).2 ≤ P.twoAdicity then min best (growAux n 65 (q ^ b) 0).1
      else best) usizeMax) := by
  simp only [bestMixedDomainSize, hq, hk]

/-- `best_mixed_domain_size(n)` (for `n ≤ 2^63`, base `q ≥ 1`): the result `R` is
    `min(usize::MAX, least 2^a·q^b ≥ n with a ≤ s, b ≤ k)` -/
theorem bestMixedDomainSize_spec (P : Params F) (n q k : Nat) (hq : P.smallBase = some q)
    (hk : P.smallAdicity = some k) (hq1 : 1 ≤ q) (hn : n ≤ 2 ^ 63) :
    ∃ R, bestMixedDomainSize P n = .ok R ∧ R ≤ usizeMax ∧
      (∀ a b, a ≤ P.twoAdicity → b ≤ k → n ≤ 2 ^ a * q ^ b → R ≤ 2 ^ a * q ^ b) ∧
      (R = usizeMax ∨ ∃ a b, a ≤ P.twoAdicity ∧ b ≤ k ∧ n ≤ 2 ^ a * q ^ b ∧ R = 2 ^ a * q ^ b) := by
  refine ⟨_, bestMixedDomainSize_eq P n q k hq hk, ?_⟩
  have hfuel : ∀ b, n ≤ q ^ b * 2 ^ 65 := by
    intro b
    have h1 : 1 ≤ q ^ b := Nat.pow_pos hq1
    have : (2 : Nat) ^ 63 ≤ 2 ^ 65 := by norm_num
    nlinarith
  obtain ⟨h1, h2, h3⟩ := foldl_min_spec (fun b => (growAux n 65 (q ^ b) 0).2 ≤ P.twoAdicity)
    (fun b => (growAux n 65 (q ^ b) 0).1) (List.range (k + 1)) usizeMax
  refine ⟨h1, ?_, ?_⟩
  · intro a b ha hb hge
    obtain ⟨j, hj, hjge, hjlt⟩ := growAux_spec n 65 (q ^ b) 0 (hfuel b)
    have hja : j ≤ a := by
      by_contra hc
      have := hjlt a (by omega)
      rw [Nat.mul_comm] at this; omega
    refine le_trans (h2 b (List.mem_range.2 (by omega)) (by rw [hj]; simp; omega)) ?_
    rw [hj]
    simp only
    rw [Nat.mul_comm]
    exact Nat.mul_le_mul_right _ (Nat.pow_le_pow_right (by norm_num) hja)
  · rcases h3 with h3 | ⟨b, hb, hpb, hR⟩
    · exact Or.inl h3
    · right
      obtain ⟨j, hj, hjge, hjlt⟩ := growAux_spec n 65 (q ^ b) 0 (hfuel b)
      rw [hj] at hpb hR
      simp only [Nat.zero_add] at hpb hR
      exact ⟨j, b, hpb, by have := List.mem_range.1 hb; omega, by rw [Nat.mul_comm]; exact hjge,
        by rw [hR, Nat.mul_comm]⟩

theorem bestMixedDomainSize_ne_panic (P : Params F) (n q k : Nat) (hq : P.smallBase = some q)
    (hk : P.smallAdicity = some k) : bestMixedDomainSize P n ≠ .panic := by
  rw [bestMixedDomainSize_eq P n q k hq hk]; exact (by intro h; cases h)

theorem getRootOfUnity_ne_panic (P : Params F) (n : Nat)
    (h : P.largeRoot.isSome → P.smallBase.isSome ∧ P.smallAdicity.isSome) :
    getRootOfUnity P n ≠ .panic := by
  unfold getRootOfUnity
  cases hw : P.largeRoot with
  | none => simp only; split <;> exact (by intro h; cases h)
  | some w =>
    obtain ⟨h1, h2⟩ := h (by simp [hw])
    obtain ⟨q, hq⟩ := Option.isSome_iff_exists.1 h1
    obtain ⟨k, hk⟩ := Option.isSome_iff_exists.1 h2
    simp only [hq, hk]
    repeat' split
    all_goals exact (by intro h; cases h)

/-- `MixedRadixEvaluationDomain::new` does not panic when `SMALL_SUBGROUP_BASE` and
    `SMALL_SUBGROUP_BASE_ADICITY` are both present or both absent -/
theorem mixedNew_ne_panic (P : Params F) (n : Nat)
    (h : P.smallBase.isSome ↔ P.smallAdicity.isSome) : mixedNew P n ≠ .panic := by
  cases hq : P.smallBase with
  | none => rw [mixedNew_no_base P n hq]; exact (by intro h; cases h)
  | some q =>
    obtain ⟨k, hk⟩ := Option.isSome_iff_exists.1 (h.1 (by simp [hq]))
    have hroot : ∀ m, getRootOfUnity P m ≠ .panic := fun m =>
      getRootOfUnity_ne_panic P m (fun _ => ⟨by simp [hq], by simp [hk]⟩)
    unfold mixedNew
    simp only [hq, bestMixedDomainSize_eq P n q k hq hk]
    repeat' split
    all_goals first | (intro h; cases h; done) | skip
    all_goals (rename_i heq; exact absurd heq (hroot _))

end Field

theorem kAdicity_two_q {q : Nat} (hq2 : 2 ≤ q) (hodd : q % 2 = 1) (a b : Nat)
    (hn : 2 ^ a * q ^ b < 2 ^ 64) :
    a < 64 ∧ b < 64 ∧ kAdicity q (2 ^ a * q ^ b) = b ∧ kAdicity 2 (2 ^ a * q ^ b) = a ∧
    q ^ b < 2 ^ 64 ∧ 2 ^ a < 2 ^ 64 := by
  have hqpos : 0 < q := by omega
  have hqb : q ^ b ≤ 2 ^ a * q ^ b := Nat.le_mul_of_pos_left _ (Nat.two_pow_pos a)
  have h2a : 2 ^ a ≤ 2 ^ a * q ^ b := Nat.le_mul_of_pos_right _ (Nat.pow_pos hqpos)
  have hb64 : b < 64 := exp_lt_64 hq2 hqb hn
  have ha64 : a < 64 := exp_lt_64 (le_refl 2) h2a hn
  refine ⟨ha64, hb64, ?_, ?_, lt_of_le_of_lt hqb hn, lt_of_le_of_lt h2a hn⟩
  · rw [Nat.mul_comm]
    exact kAdicity_spec q hq2 (2 ^ a) b (Nat.two_pow_pos a) (not_dvd_two_pow_of_odd hq2 hodd a)
      (by omega)
  · exact kAdicity_spec 2 (le_refl 2) (q ^ b) a (Nat.pow_pos hqpos) (not_two_dvd_odd_pow hodd b)
      (by omega)

section Field
variable {F : Type} [Field F] [DecidableEq F]

/-- `MixedRadixEvaluationDomain::new(n)` (for `n ≤ 2^63`) on a field with a large subgroup root:
    when some `2^a·q^b ≥ n` (`a ≤ s`, `b ≤ k`) fits in a `u64`, the result is the domain of the
    LEAST such size, with a generator of exactly that order -/
theorem mixedNew_some (P : Params F) (w : F) (q k : Nat) (hw : P.largeRoot = some w)
    (hq : P.smallBase = some q) (hk : P.smallAdicity = some k) (hq2 : 2 ≤ q) (hodd : q % 2 = 1)
    (hq64 : q < 2 ^ 64) (hord : orderOf w = 2 ^ P.twoAdicity * q ^ k)
    (n : Nat) (hn : n ≤ 2 ^ 63) (a b : Nat) (ha : a ≤ P.twoAdicity) (hb : b ≤ k)
    (hge : n ≤ 2 ^ a * q ^ b) (hlt : 2 ^ a * q ^ b < 2 ^ 64) :
    ∃ a' b' g, a' ≤ P.twoAdicity ∧ b' ≤ k ∧ n ≤ 2 ^ a' * q ^ b' ∧ 2 ^ a' * q ^ b' < 2 ^ 64 ∧
      (∀ a b, a ≤ P.twoAdicity → b ≤ k → n ≤ 2 ^ a * q ^ b → 2 ^ a' * q ^ b' ≤ 2 ^ a * q ^ b) ∧
      orderOf g = 2 ^ a' * q ^ b' ∧
      mixedNew P n = .ok (some (mkDom g (2 ^ a' * q ^ b') a')) ∧
      (mkDom g (2 ^ a' * q ^ b') a').Good := by
  obtain ⟨R, hR, hRmax, hRmin, hRcase⟩ := bestMixedDomainSize_spec P n q k hq hk (by omega) hn
  have hRle := hRmin a b ha hb hge
  obtain ⟨a', b', ha', hb', hge', hRe⟩ : ∃ a' b', a' ≤ P.twoAdicity ∧ b' ≤ k ∧
      n ≤ 2 ^ a' * q ^ b' ∧ R = 2 ^ a' * q ^ b' := by
    rcases hRcase with h | h
    · refine ⟨a, b, ha, hb, hge, ?_⟩
      have : usizeMax = 2 ^ 64 - 1 := rfl
      omega
    · exact h
  have hlt' : 2 ^ a' * q ^ b' < 2 ^ 64 := by omega
  obtain ⟨ha64, hb64, hkq, hk2, hqb, h2a⟩ := kAdicity_two_q hq2 hodd a' b' hlt'
  obtain ⟨hg, hgord⟩ := getRootOfUnity_large P w q k hw hq hk hq2 hodd hq64 hord a' b' ha' hb' hlt'
  have hpos : 0 < 2 ^ a' * q ^ b' := Nat.mul_pos (Nat.two_pow_pos _) (Nat.pow_pos (by omega))
  obtain ⟨e1, e2, hgood⟩ := mkDomain_good (lg := a') hpos hlt' hgord
  refine ⟨a', b', _, ha', hb', hge', hlt', ?_, hgord, ?_, hgood⟩
  · intro a b ha hb hge
    rw [← hRe]; exact hRmin a b ha hb hge
  · unfold mixedNew
    simp only [hq, hR, hRe, hkq, hk2, checkedPow_of_lt hqb, checkedPow_of_lt h2a]
    have hmod : (q ^ b' * 2 ^ a') % U64 = 2 ^ a' * q ^ b' := by
      rw [Nat.mul_comm]; exact Nat.mod_eq_of_lt (by rw [U64_eq]; exact hlt')
    rw [if_neg (by rw [hmod]; exact fun h => h rfl), hg]
    simp only [e1, e2, mkDom]

end Field

/-! ## vanishing polynomial -/

theorem list_prod_range_eq_finset {M : Type} [CommMonoid M] (f : Nat → M) (n : Nat) :
    ((List.range n).map f).prod = ∏ i ∈ Finset.range n, f i := by
  induction n with
  | zero => simp
  | succ n ih => rw [List.range_succ, List.map_append, List.prod_append, ih, Finset.prod_range_succ]; simp

theorem list_sum_range_eq_finset {M : Type} [AddCommMonoid M] (f : Nat → M) (n : Nat) :
    ((List.range n).map f).sum = ∑ i ∈ Finset.range n, f i := by
  induction n with
  | zero => simp
  | succ n ih => rw [List.range_succ, List.map_append, List.sum_append, ih, Finset.sum_range_succ]; simp

/-- `x^n − y^n = ∏_{i<n} (x − ζ^i·y)` for a primitive `n`-th root `ζ` in a domain -/
theorem prod_range_sub_pow {R : Type} [CommRing R] [IsDomain R] {ζ : R} {n : Nat} (hpos : 0 < n)
    (hζ : IsPrimitiveRoot ζ n) (x y : R) :
    ∏ i ∈ Finset.range n, (x - ζ ^ i * y) = x ^ n - y ^ n := by
  rw [hζ.pow_sub_pow_eq_prod_sub_mul x y hpos]
  have : NeZero n := ⟨hpos.ne'⟩
  apply Finset.prod_nbij (fun i => ζ ^ i)
  · intro i _
    rw [Polynomial.mem_nthRootsFinset hpos, ← pow_mul, mul_comm, pow_mul, hζ.pow_eq_one, one_pow]
  · intro i hi j hj h
    exact hζ.pow_inj (Finset.mem_range.1 hi) (Finset.mem_range.1 hj) h
  · intro ξ hξ
    obtain ⟨i, hi, rfl⟩ := hζ.eq_pow_of_pow_eq_one ((Polynomial.mem_nthRootsFinset hpos (1 : R)).1 hξ)
    exact ⟨i, Finset.mem_range.2 hi, rfl⟩
  · intro i _; rfl

section Field
variable {F : Type} [Field F] [DecidableEq F]

theorem Domain.Good.prim {d : Domain F} (hd : d.Good) : IsPrimitiveRoot d.groupGen d.size :=
  hd.gen_order ▸ IsPrimitiveRoot.orderOf d.groupGen

theorem Domain.Good.offset_ne {d : Domain F} (hd : d.Good) : d.offset ≠ 0 := by
  intro h
  have := hd.offInv
  rw [h, mul_zero] at this
  exact zero_ne_one this

theorem Domain.Good.gen_ne {d : Domain F} (hd : d.Good) : d.groupGen ≠ 0 :=
  ne_zero_of_orderOf hd.size_pos hd.gen_order

theorem Domain.Good.size_ne {d : Domain F} (hd : d.Good) : (d.size : F) ≠ 0 :=
  natCast_ne_zero_of_orderOf hd.size_pos hd.gen_order

/-- `evaluate_vanishing_polynomial(τ) = τ^n − h^n` -/
theorem evaluateVanishingPolynomial_eq (d : Domain F) (hd : d.Good) (tau : F) :
    evaluateVanishingPolynomial d tau = tau ^ d.size - d.offset ^ d.size := by
  rw [evaluateVanishingPolynomial, pow_eq _ _ hd.size_lt, hd.offPow]

/-- `τ^n − h^n = ∏_{x ∈ elements} (τ − x)` -/
theorem prod_sub_elements (d : Domain F) (hd : d.Good) (tau : F) :
    ((elements d).map (fun x => tau - x)).prod = tau ^ d.size - d.offset ^ d.size := by
  rw [elements_eq, List.map_map, list_prod_range_eq_finset,
    ← prod_range_sub_pow hd.size_pos hd.prim tau d.offset]
  apply Finset.prod_congr rfl
  intro i _
  simp only [Function.comp]; ring

theorem mem_elements_iff (d : Domain F) (x : F) :
    x ∈ elements d ↔ ∃ i, i < d.size ∧ x = d.offset * d.groupGen ^ i := by
  rw [elements_eq, List.mem_map]
  constructor
  · rintro ⟨i, hi, rfl⟩; exact ⟨i, List.mem_range.1 hi, rfl⟩
  · rintro ⟨i, hi, rfl⟩; exact ⟨i, List.mem_range.2 hi, rfl⟩

/-- the vanishing polynomial vanishes exactly on the domain elements -/
theorem evaluateVanishingPolynomial_eq_zero_iff (d : Domain F) (hd : d.Good) (tau : F) :
    evaluateVanishingPolynomial d tau = 0 ↔ tau ∈ elements d := by
  rw [evaluateVanishingPolynomial_eq d hd, ← prod_sub_elements d hd, List.prod_eq_zero_iff,
    List.mem_map]
  constructor
  · rintro ⟨x, hx, h⟩
    rwa [← sub_eq_zero.1 h] at hx
  · intro h; exact ⟨tau, h, sub_self _⟩

/-- evaluation of a sparse polynomial `Σ c·X^i` -/
def evalSparse (s : List (Nat × F)) (x : F) : F := (s.map (fun ic => ic.2 * x ^ ic.1)).sum

theorem vanishingPolynomial_eq (d : Domain F) :
    vanishingPolynomial d = .ok [(0, -d.offsetPowSize), (d.size, 1)] := by
  simp [vanishingPolynomial, sparseFromCoefficientsVec, dropZerosS, insertByDeg]

theorem evalSparse_vanishing (d : Domain F) (hd : d.Good) (tau : F) :
    evalSparse [(0, -d.offsetPowSize), (d.size, 1)] tau = evaluateVanishingPolynomial d tau := by
  rw [evaluateVanishingPolynomial_eq d hd, hd.offPow]
  simp [evalSparse]; ring

end Field

/-! ## Lagrange coefficients -/
section Field
variable {F : Type} [Field F] [DecidableEq F]
open Polynomial

/-- the `i`-th domain element `h·g^i` -/
def node (d : Domain F) (i : Nat) : F := d.offset * d.groupGen ^ i

/-- the Lagrange basis value `L_i(τ) = ∏_{j ≠ i, j < n} (τ − x_j)/(x_i − x_j)` -/
def lagSpec (d : Domain F) (tau : F) (i : Nat) : F :=
  ∏ j ∈ (Finset.range d.size).erase i, (tau - node d j) / (node d i - node d j)

theorem node_inj (d : Domain F) (hd : d.Good) {i j : Nat} (hi : i < d.size) (hj : j < d.size)
    (h : node d i = node d j) : i = j :=
  hd.prim.pow_inj hi hj (mul_left_cancel₀ hd.offset_ne h)

theorem node_injOn (d : Domain F) (hd : d.Good) :
    Set.InjOn (node d) (Finset.range d.size : Set Nat) := by
  intro i hi j hj h
  exact node_inj d hd (Finset.mem_range.1 (by exact_mod_cast hi))
    (Finset.mem_range.1 (by exact_mod_cast hj)) h

theorem lagSpec_eq_eval_basis (d : Domain F) (tau : F) (i : Nat) :
    lagSpec d tau i = eval tau (Lagrange.basis (Finset.range d.size) (node d) i) := by
  rw [lagSpec, Lagrange.basis, eval_prod]
  apply Finset.prod_congr rfl
  intro j _
  simp [Lagrange.basisDivisor, div_eq_mul_inv, mul_comm]

theorem nodal_eq_X_pow_sub (d : Domain F) (hd : d.Good) :
    Lagrange.nodal (Finset.range d.size) (node d) = X ^ d.size - C (d.offset ^ d.size) := by
  have hp : IsPrimitiveRoot (C d.groupGen : F[X]) d.size :=
    hd.prim.map_of_injective (f := (C : F →+* F[X])) C_injective
  rw [Lagrange.nodal_eq, map_pow, ← prod_range_sub_pow hd.size_pos hp X (C d.offset)]
  apply Finset.prod_congr rfl
  intro i _
  simp only [node, map_mul, map_pow]; ring

theorem node_pow_size (d : Domain F) (hd : d.Good) (i : Nat) :
    node d i ^ d.size = d.offset ^ d.size := by
  rw [node, mul_pow, ← pow_mul, mul_comm i, pow_mul, hd.prim.pow_eq_one, one_pow, mul_one]

theorem node_ne_zero (d : Domain F) (hd : d.Good) (i : Nat) : node d i ≠ 0 :=
  mul_ne_zero hd.offset_ne (pow_ne_zero _ hd.gen_ne)

/-- `L_i(τ)` at a point off the coset: the barycentric closed form -/
theorem lagSpec_off (d : Domain F) (hd : d.Good) (tau : F) {i : Nat} (hi : i < d.size)
    (h : tau ≠ node d i) :
    lagSpec d tau i = (tau ^ d.size - d.offset ^ d.size) *
      (((d.size : F) * node d i ^ (d.size - 1))⁻¹ * (tau - node d i)⁻¹) := by
  rw [lagSpec_eq_eval_basis, Lagrange.eval_basis_not_at_node (Finset.mem_range.2 hi) h,
    Lagrange.nodalWeight_eq_eval_derivative_nodal (Finset.mem_range.2 hi),
    nodal_eq_X_pow_sub d hd]
  have hder : eval (node d i) (derivative (X ^ d.size - C (d.offset ^ d.size) : F[X])) =
      (d.size : F) * node d i ^ (d.size - 1) := by
    rw [derivative_sub, derivative_X_pow, derivative_C, sub_zero]; simp
  rw [hder]
  simp

/-- `L_i(x_m) = δ_{im}` -/
theorem lagSpec_on (d : Domain F) (hd : d.Good) {i m : Nat} (hi : i < d.size) (hm : m < d.size) :
    lagSpec d (node d m) i = if node d i = node d m then 1 else 0 := by
  rw [lagSpec_eq_eval_basis]
  by_cases h : i = m
  · subst h
    rw [if_pos rfl, Lagrange.eval_basis_self (node_injOn d hd) (Finset.mem_range.2 hi)]
  · rw [if_neg (fun e => h (node_inj d hd hi hm e)),
      Lagrange.eval_basis_of_ne h (Finset.mem_range.2 hm)]

theorem lagrangeFind_eq (tau g : F) (n : Nat) : ∀ cur : F,
    (∀ i j, i < n → j < n → cur * g ^ i = cur * g ^ j → i = j) →
    lagrangeFind tau g n cur = (List.range n).map (fun i => if cur * g ^ i = tau then 1 else 0) := by
  induction n with
  | zero => intro cur _; rfl
  | succ n ih =>
    intro cur hinj
    rw [lagrangeFind, List.range_succ_eq_map, List.map_cons, List.map_map]
    by_cases hc : cur = tau
    · subst hc
      rw [if_pos rfl]
      simp only [pow_zero, mul_one, if_true, List.cons.injEq, true_and]
      symm
      rw [List.eq_replicate_iff]
      refine ⟨by simp, ?_⟩
      intro b hb
      obtain ⟨i, hi, rfl⟩ := List.mem_map.1 hb
      simp only [Function.comp]
      rw [if_neg]
      intro e
      have := hinj (i + 1) 0 (by have := List.mem_range.1 hi; omega) (by omega)
        (by rw [pow_zero, mul_one]; exact e)
      omega
    · rw [if_neg hc]
      simp only [pow_zero, mul_one, hc, if_false, List.cons.injEq, true_and]
      rw [ih (cur * g)]
      · apply List.map_congr_left
        intro i _
        simp only [Function.comp, Nat.succ_eq_add_one, pow_succ]
        congr 2; ring
      · intro i j hi hj e
        have := hinj (i + 1) (j + 1) (by omega) (by omega) (by
          rw [pow_succ, pow_succ]; linear_combination e)
        omega

theorem lagrangeInvs_eq (tau g gInv : F) (n : Nat) : ∀ li negCur : F,
    lagrangeInvs tau g gInv n li negCur =
      (List.range n).map (fun i => li * gInv ^ i * (tau + negCur * g ^ i)) := by
  induction n with
  | zero => intro li negCur; rfl
  | succ n ih =>
    intro li negCur
    rw [lagrangeInvs, ih, List.range_succ_eq_map, List.map_cons, List.map_map]
    simp only [pow_zero, mul_one, List.cons.injEq, true_and]
    apply List.map_congr_left
    intro i _
    simp only [Function.comp, Nat.succ_eq_add_one, pow_succ]; ring

/-- `batch_inversion` on a vector of non-zero entries inverts every entry -/
theorem batchInversion_of_ne_zero (l : List F) (hl : ∀ x ∈ l, x ≠ 0) :
    batchInversion l = some (l.map (fun x => x⁻¹)) := by
  obtain ⟨w, hw, hlen, -, hspec⟩ := Ops.batchInvMul_correct (fieldInterp (F := F)) l 1
    (fun _ _ => trivial) trivial
  rw [batchInversion, hw]
  congr 1
  apply List.ext_getElem
  · simp [hlen]
  · intro i h1 h2
    have hi : i < l.length := by simpa using h2
    have := (hspec i hi h1).2 (hl _ (List.getElem_mem hi))
    simp only [fieldInterp, id] at this
    rw [this, List.getElem_map, one_mul]

end Field

section Field
variable {F : Type} [Field F] [DecidableEq F]
open Polynomial

theorem Domain.Good.genInv_eq {d : Domain F} (hd : d.Good) : d.groupGenInv = d.groupGen⁻¹ :=
  eq_inv_of_mul_eq_one_left hd.genInv

/-- `evaluate_all_lagrange_coefficients(τ)` never panics and returns the Lagrange basis values
    `L_i(τ) = ∏_{j≠i} (τ − x_j)/(x_i − x_j)`, in both branches -/
theorem evaluateAllLagrangeCoefficients_eq (d : Domain F) (hd : d.Good) (tau : F) :
    evaluateAllLagrangeCoefficients d tau = .ok ((List.range d.size).map (lagSpec d tau)) := by
  unfold evaluateAllLagrangeCoefficients
  by_cases hz : evaluateVanishingPolynomial d tau = 0
  · simp only [hz, if_true]
    obtain ⟨m, hm, rfl⟩ := (mem_elements_iff d tau).1
      ((evaluateVanishingPolynomial_eq_zero_iff d hd tau).1 hz)
    rw [lagrangeFind_eq _ _ _ _ (fun i j hi hj e => node_inj d hd hi hj e)]
    congr 1
    apply List.map_congr_left
    intro i hi
    exact (lagSpec_on d hd (List.mem_range.1 hi) hm).symm
  · simp only [hz, if_false, inv?_ne hz]
    have hnot : ∀ i, i < d.size → tau ≠ node d i := by
      intro i hi e
      exact hz ((evaluateVanishingPolynomial_eq_zero_iff d hd tau).2
        ((mem_elements_iff d tau).2 ⟨i, hi, e⟩))
    have hgi : d.groupGenInv ≠ 0 := by rw [hd.genInv_eq]; exact inv_ne_zero hd.gen_ne
    rw [lagrangeInvs_eq, pow_eq _ _ (by have := hd.size_lt; omega), batchInversion_of_ne_zero]
    · simp only [List.map_map]
      congr 1
      apply List.map_congr_left
      intro i hi
      have hi' := List.mem_range.1 hi
      rw [Function.comp, lagSpec_off d hd tau hi' (hnot i hi'), ← evaluateVanishingPolynomial_eq d hd]
      have hgn : (d.groupGen ^ i) ^ (d.size - 1) = d.groupGenInv ^ i := by
        rw [hd.genInv_eq, inv_pow]
        apply eq_inv_of_mul_eq_one_left
        rw [← pow_succ, Nat.sub_add_cancel hd.size_pos, ← pow_mul, mul_comm, pow_mul,
          hd.prim.pow_eq_one, one_pow]
      rw [node, mul_pow, hgn]
      have h1 := sub_ne_zero.2 (hnot i hi')
      have h2 := hd.size_ne
      have h3 : d.offset ^ (d.size - 1) ≠ 0 := pow_ne_zero _ hd.offset_ne
      have h4 : d.groupGenInv ^ i ≠ 0 := pow_ne_zero _ hgi
      rw [node] at h1
      have eB : tau + -d.offset * d.groupGen ^ i = tau - d.offset * d.groupGen ^ i := by ring
      rw [eB]
      generalize tau - d.offset * d.groupGen ^ i = B at h1 ⊢
      generalize evaluateVanishingPolynomial d tau = z at hz ⊢
      generalize d.offset ^ (d.size - 1) = hh at h3 ⊢
      generalize d.groupGenInv ^ i = gg at h4 ⊢
      generalize (d.size : F) = nn at h2 ⊢
      field_simp
    · intro x hx
      obtain ⟨i, hi, rfl⟩ := List.mem_map.1 hx
      have hi' := List.mem_range.1 hi
      have h1 := sub_ne_zero.2 (hnot i hi')
      rw [node] at h1
      refine mul_ne_zero (mul_ne_zero (mul_ne_zero (inv_ne_zero hz)
        (mul_ne_zero hd.size_ne (pow_ne_zero _ hd.offset_ne))) (pow_ne_zero _ hgi)) ?_
      intro e
      apply h1
      rw [← e]; ring

/-- Horner evaluation of the dense coefficient list `c` (low degree first) -/
def evalL (c : List F) (x : F) : F := c.foldr (fun a acc => a + x * acc) 0

/-- the polynomial with coefficient list `c` -/
noncomputable def polyOf : List F → F[X]
  | [] => 0
  | a :: cs => C a + X * polyOf cs

theorem eval_polyOf (c : List F) (x : F) : eval x (polyOf c) = evalL c x := by
  induction c with
  | nil => simp [polyOf, evalL]
  | cons a cs ih => simp only [polyOf, eval_add, eval_C, eval_mul, eval_X, ih, evalL, List.foldr_cons]

theorem coeff_polyOf_of_ge (c : List F) : ∀ m, c.length ≤ m → (polyOf c).coeff m = 0 := by
  induction c with
  | nil => intro m _; simp [polyOf]
  | cons a cs ih =>
    intro m hm
    obtain ⟨m', rfl⟩ : ∃ m', m = m' + 1 := ⟨m - 1, by simp at hm; omega⟩
    rw [polyOf, coeff_add, coeff_C_succ, coeff_X_mul, zero_add]
    exact ih m' (by simp at hm; omega)

theorem degree_polyOf_lt (c : List F) {n : Nat} (h : c.length ≤ n) : (polyOf c).degree < n := by
  rw [degree_lt_iff_coeff_zero]
  intro m hm
  exact coeff_polyOf_of_ge c m (le_trans h hm)

/-- Lagrange interpolation: `Σ_i L_i(τ)·p(x_i) = p(τ)` for `deg p < n` -/
theorem sum_lagSpec_mul_eval (d : Domain F) (hd : d.Good) (tau : F) (c : List F)
    (hc : c.length ≤ d.size) :
    ∑ i ∈ Finset.range d.size, lagSpec d tau i * evalL c (node d i) = evalL c tau := by
  have hdeg : (polyOf c).degree < (Finset.range d.size).card := by
    rw [Finset.card_range]; exact degree_polyOf_lt c hc
  have h := congrArg (eval tau) (Lagrange.eq_interpolate (node_injOn d hd) hdeg)
  rw [Lagrange.interpolate_apply, eval_finsetSum, eval_polyOf] at h
  rw [h]
  apply Finset.sum_congr rfl
  intro i _
  rw [eval_mul, eval_C, eval_polyOf, lagSpec_eq_eval_basis, mul_comm]

theorem zipWith_map_map {α β γ δ : Type} (f : β → γ → δ) (g : α → β) (h : α → γ) (l : List α) :
    List.zipWith f (l.map g) (l.map h) = l.map (fun x => f (g x) (h x)) := by
  induction l with
  | nil => rfl
  | cons x xs ih => simp [ih]

/-- list form: the inner product of the returned coefficients with the evaluations of `c` on the
    domain is the evaluation at `τ` -/
theorem lagrange_interpolation (d : Domain F) (hd : d.Good) (tau : F) (c : List F)
    (hc : c.length ≤ d.size) :
    ∃ L, evaluateAllLagrangeCoefficients d tau = .ok L ∧ L.length = d.size ∧
      (List.zipWith (· * ·) L ((elements d).map (evalL c))).sum = evalL c tau := by
  refine ⟨_, evaluateAllLagrangeCoefficients_eq d hd tau, by simp, ?_⟩
  rw [elements_eq, List.map_map, zipWith_map_map, list_sum_range_eq_finset,
    ← sum_lagSpec_mul_eval d hd tau c hc]
  rfl

end Field

/-! ## `reindex_by_subdomain` -/

/-- the non-multiples of `q+1` below `m·(q+1)`, in increasing order, are `i + i/q + 1`, `i < m·q` -/
theorem filter_not_dvd_range (m q : Nat) (hq : 1 ≤ q) :
    (List.range (m * (q + 1))).filter (fun j => decide (j % (q + 1) ≠ 0)) =
      (List.range (m * q)).map (fun i => i + i / q + 1) := by
  apply List.Pairwise.eq_of_mem_iff (r := (· < ·))
  · exact List.Pairwise.filter _ List.pairwise_lt_range
  · apply List.Pairwise.map _ _ List.pairwise_lt_range
    intro a b hab
    have := Nat.div_le_div_right (c := q) (Nat.le_of_lt hab)
    show a + a / q + 1 < b + b / q + 1
    omega
  · intro a
    simp only [List.mem_filter, List.mem_range, decide_eq_true_eq, List.mem_map]
    constructor
    · rintro ⟨halt, hmod⟩
      have hk : a / (q + 1) < m := Nat.div_lt_of_lt_mul (by rw [Nat.mul_comm]; exact halt)
      have hdm := Nat.div_add_mod a (q + 1)
      have htl : a % (q + 1) < q + 1 := Nat.mod_lt _ (by omega)
      generalize a / (q + 1) = k at hk hdm
      generalize a % (q + 1) = t at hmod hdm htl
      have e1 : (q + 1) * k = q * k + k := by ring
      refine ⟨q * k + (t - 1), ?_, ?_⟩
      · have : q * (k + 1) ≤ q * m := Nat.mul_le_mul_left q hk
        have e2 : q * (k + 1) = q * k + q := by ring
        rw [Nat.mul_comm m q]; omega
      · have : (q * k + (t - 1)) / q = k := by
          rw [Nat.mul_add_div (by omega), Nat.div_eq_of_lt (by omega)]; omega
        rw [this]; omega
    · rintro ⟨i, hi, rfl⟩
      have hk : i / q < m := Nat.div_lt_of_lt_mul (by rw [Nat.mul_comm]; exact hi)
      have hdm := Nat.div_add_mod i q
      have hr : i % q < q := Nat.mod_lt _ (by omega)
      generalize i / q = k at hk hdm
      generalize i % q = r at hdm hr
      have e : i + k + 1 = (r + 1) + (q + 1) * k := by rw [← hdm]; ring
      rw [e]
      constructor
      · have : (q + 1) * (k + 1) ≤ (q + 1) * m := Nat.mul_le_mul_left _ hk
        have e2 : (q + 1) * (k + 1) = (q + 1) * k + (q + 1) := by ring
        rw [Nat.mul_comm m]; omega
      · rw [Nat.add_mul_mod_self_left, Nat.mod_eq_of_lt (by omega)]; omega

/-- the multiples of `p` below `m·p` -/
theorem filter_dvd_range (m p : Nat) (hp : 1 ≤ p) :
    (List.range (m * p)).filter (fun j => decide (j % p = 0)) = (List.range m).map (· * p) := by
  apply List.Pairwise.eq_of_mem_iff (r := (· < ·))
  · exact List.Pairwise.filter _ List.pairwise_lt_range
  · apply List.Pairwise.map _ _ List.pairwise_lt_range
    intro a b hab
    exact Nat.mul_lt_mul_of_pos_right hab hp
  · intro a
    simp only [List.mem_filter, List.mem_range, decide_eq_true_eq, List.mem_map]
    constructor
    · rintro ⟨halt, hmod⟩
      obtain ⟨k, rfl⟩ := Nat.dvd_of_mod_eq_zero hmod
      refine ⟨k, ?_, Nat.mul_comm _ _⟩
      rw [Nat.mul_comm p k] at halt
      exact Nat.lt_of_mul_lt_mul_right halt
    · rintro ⟨k, hk, rfl⟩
      exact ⟨Nat.mul_lt_mul_of_pos_right hk hp, Nat.mul_mod_left _ _⟩

/-- the re-indexing order: first the multiples of `period`, then all other indices -/
def reindexOrder (N m : Nat) : List Nat :=
  (List.range m).map (· * (N / m)) ++ (List.range N).filter (fun j => decide (j % (N / m) ≠ 0))

/-- `reindexOrder` enumerates `[0, N)` exactly once -/
theorem reindexOrder_perm (N m : Nat) (hN : 0 < N) (hdvd : m ∣ N) :
    (reindexOrder N m).Perm (List.range N) := by
  obtain ⟨p, rfl⟩ := hdvd
  have hm : 0 < m := Nat.pos_of_mul_pos_right hN
  have hp : 0 < p := Nat.pos_of_mul_pos_left hN
  unfold reindexOrder
  rw [Nat.mul_div_cancel_left p hm, ← filter_dvd_range m p hp]
  have := List.filter_append_perm (fun j => decide (j % p = 0)) (List.range (m * p))
  refine List.Perm.trans ?_ this
  apply List.Perm.append (List.Perm.refl _)
  apply List.Perm.of_eq
  apply List.filter_congr
  intro j _
  simp

section Field
variable {F : Type} [Field F] [DecidableEq F]

/-- `reindex_by_subdomain(other, idx)` for a subdomain size dividing the domain size and an
    index inside the domain: no panic, and the result is the `idx`-th entry of `reindexOrder` -/
theorem reindexBySubdomain_spec (self other : Domain F) (idx : Nat)
    (hdvd : other.size ∣ self.size) (hidx : idx < self.size) (hlt : self.size ≤ 2 ^ 64) :
    ∃ r, reindexBySubdomain self other idx = .ok r ∧
      (reindexOrder self.size other.size)[idx]? = some r := by
  obtain ⟨p, hNp⟩ := hdvd
  have hN : 0 < self.size := by omega
  have hm : 0 < other.size := by
    rcases Nat.eq_zero_or_pos other.size with h | h
    · rw [h, Nat.zero_mul] at hNp; omega
    · exact h
  have hp : 0 < p := by
    rcases Nat.eq_zero_or_pos p with h | h
    · rw [h, Nat.mul_zero] at hNp; omega
    · exact h
  have hle : other.size ≤ self.size := by rw [hNp]; exact Nat.le_mul_of_pos_right _ hp
  have hper : self.size / other.size = p := by rw [hNp, Nat.mul_div_cancel_left p hm]
  unfold reindexBySubdomain reindexOrder
  rw [if_neg (by omega), if_neg (by omega)]
  simp only [hper]
  by_cases hi : idx < other.size
  · rw [if_pos hi]
    have hb : idx * p < self.size := by rw [hNp]; exact Nat.mul_lt_mul_of_pos_right hi hp
    refine ⟨_, rfl, ?_⟩
    rw [List.getElem?_append_left (by simpa using hi), Nat.mod_eq_of_lt (by rw [U64_eq]; omega)]
    simp [hi]
  · rw [if_neg hi]
    have hp2 : 2 ≤ p := by
      by_contra hc
      have : p = 1 := by omega
      rw [this, Nat.mul_one] at hNp; omega
    rw [if_neg (by omega)]
    obtain ⟨q, rfl⟩ : ∃ q, p = q + 1 := ⟨p - 1, by omega⟩
    have hq : 1 ≤ q := by omega
    have hmq : other.size * (q + 1) = other.size * q + other.size := by ring
    have hi2 : idx - other.size < other.size * q := by omega
    have hget : ((List.range self.size).filter (fun j => decide (j % (q + 1) ≠ 0)))[idx - other.size]?
        = some (idx - other.size + (idx - other.size) / q + 1) := by
      rw [hNp, filter_not_dvd_range _ q hq]
      simp [hi2]
    have hbound : idx - other.size + (idx - other.size) / q + 1 < self.size := by
      have := List.mem_of_getElem? hget
      exact List.mem_range.1 (List.mem_filter.1 this).1
    refine ⟨_, rfl, ?_⟩
    rw [List.getElem?_append_right (by simpa using Nat.le_of_not_lt hi)]
    simp only [List.length_map, List.length_range, Nat.add_sub_cancel]
    rw [hget, Nat.mod_eq_of_lt (by rw [U64_eq]; omega)]

end Field

/-! ## `Radix2EvaluationDomain::new`: derived forms -/
section Field
variable {F : Type} [Field F] [DecidableEq F]

theorem radix2New_ne_panic (P : Params F) (hP : P.WF) (n : Nat) : radix2New P n ≠ .panic := by
  rcases radix2New_cases P hP n with ⟨h, -⟩ | ⟨-, -, g, -, h⟩ <;> rw [h] <;> (intro h; cases h)

theorem radix2New_none_iff (P : Params F) (hP : P.WF) (n : Nat) :
    radix2New P n = .ok none ↔ (P.twoAdicity < Nat.clog 2 n ∨ 64 ≤ Nat.clog 2 n) := by
  rcases radix2New_cases P hP n with ⟨h, h'⟩ | ⟨h1, h2, g, -, h⟩
  · exact ⟨fun _ => h', fun _ => h⟩
  · constructor
    · intro e; rw [h] at e; cases e
    · intro e; omega

/-- the successful case: the domain of the least power of two `≥ n` -/
theorem radix2New_some (P : Params F) (hP : P.WF) (n : Nat) (h1 : Nat.clog 2 n ≤ P.twoAdicity)
    (h2 : Nat.clog 2 n < 64) :
    ∃ d, radix2New P n = .ok (some d) ∧ d.Good ∧
      d.logSizeOfGroup = Nat.clog 2 n ∧ d.size = 2 ^ d.logSizeOfGroup ∧ n ≤ d.size ∧
      (∀ k, n ≤ 2 ^ k → d.size ≤ 2 ^ k) ∧
      orderOf d.groupGen = d.size ∧ d.groupGenInv * d.groupGen = 1 ∧
      d.sizeInv * (d.size : F) = 1 ∧ d.sizeAsFieldElement = (d.size : F) ∧
      d.offset = 1 ∧ d.offsetInv = 1 ∧ d.offsetPowSize = 1 := by
  rcases radix2New_cases P hP n with ⟨-, h'⟩ | ⟨-, -, g, hg, h⟩
  · omega
  · have hgood := (mkDomain_good (lg := Nat.clog 2 n) (Nat.two_pow_pos _)
      (Nat.pow_lt_pow_right (by norm_num) h2) hg).2.2
    refine ⟨_, h, hgood, rfl, rfl, le_two_pow_clog n, ?_, hgood.gen_order, hgood.genInv,
      hgood.sizeInv, hgood.sizeF, rfl, rfl, rfl⟩
    intro k hk
    exact Nat.pow_le_pow_right (by norm_num) ((Nat.clog_le_iff_le_pow (by norm_num)).2 hk)

end Field

/-! ## mixed-radix FFT: specification-level definitions -/

/-- position of index `i` after the mixed-radix digit reversal with radices `R` (the head of `R`
    is the radix of the least significant digit of `i`, which becomes the most significant) -/
def pos : List Nat → Nat → Nat
  | [], _ => 0
  | r :: R, i => (i % r) * R.prod + pos R (i / r)

section Field
variable {F : Type} [Field F] [DecidableEq F]

/-- a list as a function (`0` outside) -/
def fn (l : List F) : Nat → F := fun i => l.getD i 0

/-- the table `[f 0, …, f (N-1)]` -/
def tab (N : Nat) (f : Nat → F) : List F := (List.range N).map f

/-- the DFT sum `Σ_{i<N} x_i·W^(i·k)` -/
def dftF (N : Nat) (W : F) (x : Nat → F) (k : Nat) : F := ∑ i ∈ Finset.range N, x i * W ^ (i * k)

/-- one radix-`r` decimation-in-time pass on consecutive chunks of `r·m` entries:
    `out[b·rm + K] = Σ_{l<r} in[b·rm + l·m + K mod m]·W^(l·K)` (`K < r·m`) -/
def passF (r m : Nat) (W : F) (y : Nat → F) : Nat → F :=
  fun p => ∑ l ∈ Finset.range r, y (p / (r * m) * (r * m) + l * m + p % m) * W ^ (l * (p % (r * m)))

theorem tab_length (N : Nat) (f : Nat → F) : (tab N f).length = N := by simp [tab]

theorem fn_tab (N : Nat) (f : Nat → F) {i : Nat} (hi : i < N) : fn (tab N f) i = f i := by
  simp [fn, tab, List.getD, hi]

theorem tab_congr {N : Nat} {f g : Nat → F} (h : ∀ i, i < N → f i = g i) : tab N f = tab N g := by
  apply List.map_congr_left
  intro i hi
  exact h i (List.mem_range.1 hi)

theorem tab_fn (l : List F) : tab l.length (fn l) = l := by
  apply List.ext_getElem
  · simp [tab]
  · intro i h1 h2
    simp [tab, fn, List.getD, h2]

theorem tab_add (a b : Nat) (f : Nat → F) : tab (a + b) f = tab a f ++ tab b (fun i => f (a + i)) := by
  simp [tab, List.range_add, List.map_map, Function.comp]

end Field

end Ark.Fft
