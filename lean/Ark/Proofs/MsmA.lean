import Ark.Model.Msm
import Ark.Model.DrvC05
import Ark.Proofs.LimbsB
import Mathlib.Algebra.BigOperators.Group.Finset.Basic
import Mathlib.Algebra.BigOperators.Group.List.Basic
import Mathlib.Algebra.Module.NatInt
import Mathlib.Algebra.BigOperators.GroupWithZero.Action
import Mathlib.Tactic.Abel
import Mathlib.Tactic.Ring
import Mathlib.Tactic.Linarith
import Mathlib.Data.Nat.Bitwise
/-
  Helper lemmas for C05 (part A): `make_digits`, the bucket methods `msm_bigint_wnaf` / `msm_bigint`,
  window-size rule, running-sum reduction, window combination and the entry points
  `msm_bigint` / `msm_unchecked` / `msm` of `Ark.Model.Msm`.
-/
namespace Ark.Msm
open Ark

/-! ## `Outcome` plumbing -/

@[simp] theorem obind_ok {α β : Type} (a : α) (f : α → Outcome β) : obind (.ok a) f = f a := rfl
@[simp] theorem obind_panic {α β : Type} (f : α → Outcome β) : obind (.panic : Outcome α) f = .panic := rfl
@[simp] theorem ofOption_some {α : Type} (a : α) : ofOption (some a) = .ok a := rfl
@[simp] theorem ofOption_none {α : Type} : ofOption (none : Option α) = .panic := rfl

theorem omapMGo_ok {α β : Type} (f : α → Outcome β) (g : α → β) (l : List α) (acc : List β)
    (h : ∀ a ∈ l, f a = .ok (g a)) : omapMGo f l acc = .ok (acc.reverse ++ l.map g) := by
  induction l generalizing acc with
  | nil => simp [omapMGo]
  | cons a as ih =>
    rw [omapMGo, h a (by simp), obind_ok, ih _ (fun x hx => h x (by simp [hx]))]
    simp

theorem omapM_ok {α β : Type} (f : α → Outcome β) (g : α → β) (l : List α)
    (h : ∀ a ∈ l, f a = .ok (g a)) : omapM f l = .ok (l.map g) := by
  unfold omapM; rw [omapMGo_ok f g l [] h]; simp

/-! ## weighted sums -/

section Alg
variable {G : Type} [AddCommGroup G]

/-- `Σ_j (j+1) • bs[j]` -/
def wsum : List G → G
  | [] => 0
  | b :: bs => b + (bs.sum + wsum bs)

/-- `Σ_i 2^(c·i) • ws[i]` -/
def hsum (c : Nat) : List G → G
  | [] => 0
  | w :: ws => w + (2 ^ c : ℕ) • hsum c ws

theorem sum_eq_finset (bs : List G) :
    bs.sum = ∑ j ∈ Finset.range bs.length, bs.getD j 0 := by
  induction bs with
  | nil => simp
  | cons b bs ih =>
    rw [List.sum_cons, List.length_cons, Finset.sum_range_succ', ih]
    simp [add_comm]

theorem wsum_eq_finset (bs : List G) :
    wsum bs = ∑ j ∈ Finset.range bs.length, (j + 1) • bs.getD j 0 := by
  induction bs with
  | nil => simp [wsum]
  | cons b bs ih =>
    rw [wsum, List.length_cons, Finset.sum_range_succ', ih, sum_eq_finset]
    simp only [List.getD_cons_succ, List.getD_cons_zero, zero_add, one_smul]
    rw [add_comm, ← Finset.sum_add_distrib]
    congr 1
    apply Finset.sum_congr rfl
    intro j _
    rw [add_smul (j + 1) 1, one_smul, add_comm]

theorem hsum_eq_finset (c : Nat) (ws : List G) :
    hsum c ws = ∑ i ∈ Finset.range ws.length, (2 ^ (c * i) : ℕ) • ws.getD i 0 := by
  induction ws with
  | nil => simp [hsum]
  | cons w ws ih =>
    rw [hsum, List.length_cons, Finset.sum_range_succ', ih, Finset.smul_sum]
    simp only [List.getD_cons_succ, List.getD_cons_zero, Nat.mul_zero, pow_zero, one_smul]
    rw [add_comm]
    congr 1
    apply Finset.sum_congr rfl
    intro i _
    rw [← mul_smul, Nat.mul_succ, pow_add, mul_comm]

theorem wsum_replicate_zero (n : Nat) : wsum (List.replicate n (0 : G)) = 0 := by
  induction n with
  | zero => rfl
  | succ n ih => simp [List.replicate_succ, wsum, ih]

/-! ## running sum, doubling, combination -/

theorem runningSum_aux (res0 : G) (bs : List G) :
    bs.reverse.foldl (fun (st : G × G) b => let r := st.1 + b; (r, st.2 + r)) ((0 : G), res0)
      = (bs.sum, res0 + wsum bs) := by
  induction bs with
  | nil => simp [wsum]
  | cons b bs ih =>
    rw [List.reverse_cons, List.foldl_append, ih]
    simp only [List.foldl_cons, List.foldl_nil, List.sum_cons, wsum, Prod.mk.injEq]
    constructor <;> abel

theorem runningSum_wsum (res0 : G) (bs : List G) : runningSum res0 bs = res0 + wsum bs := by
  unfold runningSum; rw [runningSum_aux]

theorem dblN_eq (c : Nat) (x : G) : dblN c x = (2 ^ c : ℕ) • x := by
  unfold dblN
  induction c generalizing x with
  | zero => simp [iter]
  | succ c ih =>
    rw [iter, ih, pow_succ, mul_smul, two_smul]

theorem combine_fold (c : Nat) (ws : List G) :
    ws.reverse.foldl (fun total s => dblN c (total + s)) (0 : G) = (2 ^ c : ℕ) • hsum c ws := by
  induction ws with
  | nil => simp [hsum]
  | cons w ws ih =>
    rw [List.reverse_cons, List.foldl_append, ih]
    simp only [List.foldl_cons, List.foldl_nil, dblN_eq, hsum]
    rw [add_comm]

theorem combine_hsum (c : Nat) (w : G) (ws : List G) : combine c (w :: ws) = .ok (hsum c (w :: ws)) := by
  simp only [combine, combine_fold, hsum]

theorem combine_nil (c : Nat) : combine c ([] : List G) = .panic := rfl

end Alg

/-! ## window-size rule -/

theorem log2_le_succ (x : Nat) : log2 x ≤ Nat.log2 x + 1 := by
  unfold log2; split
  · omega
  · split <;> omega

theorem log2_ge (x : Nat) (h : x ≠ 0) : Nat.log2 x ≤ log2 x := by
  unfold log2; rw [if_neg h]; split <;> omega

theorem lnWithoutFloats_ge (n : Nat) (h : 32 ≤ n) : 3 ≤ lnWithoutFloats n := by
  unfold lnWithoutFloats
  have h0 : n ≠ 0 := by omega
  have h1 : 5 ≤ Nat.log2 n := (Nat.le_log2 h0).mpr (by omega)
  have h2 := log2_ge n h0
  omega

theorem lnWithoutFloats_le (n : Nat) (h : n < 2 ^ 64) : lnWithoutFloats n ≤ 44 := by
  unfold lnWithoutFloats
  have h2 := log2_le_succ n
  by_cases h0 : n = 0
  · subst h0; simp [log2]
  · have h1 : Nat.log2 n < 64 := (Nat.log2_lt h0).mpr h
    omega

theorem windowSize_ge (n : Nat) : 3 ≤ windowSize n := by
  unfold windowSize; split
  · omega
  · have := lnWithoutFloats_ge n (by omega); omega

theorem windowSize_le (n : Nat) (h : n < 2 ^ 64) : windowSize n ≤ 46 := by
  unfold windowSize; split
  · omega
  · have := lnWithoutFloats_le n h; omega

theorem divCeil_pos {a b : Nat} (ha : 0 < a) (hb : 0 < b) : 0 < divCeil a b := by
  unfold divCeil
  exact Nat.div_pos (by omega) hb

theorem divCeil_zero (b : Nat) (hb : 0 < b) : divCeil 0 b = 0 := by
  unfold divCeil
  exact Nat.div_eq_of_lt (by omega)

theorem le_mul_divCeil (a b : Nat) (hb : 0 < b) : a ≤ b * divCeil a b := by
  unfold divCeil
  have := Nat.div_add_mod (a + b - 1) b
  have := Nat.mod_lt (a + b - 1) hb
  generalize b * ((a + b - 1) / b) = t at *
  omega

theorem pred_divCeil_mul_lt (a b : Nat) (ha : 0 < a) (hb : 0 < b) : (divCeil a b - 1) * b < a := by
  have hp := divCeil_pos ha hb
  unfold divCeil at *
  have := Nat.div_mul_le_self (a + b - 1) b
  rw [Nat.sub_mul]
  omega


/-! ## `make_digits`: the bit buffer -/

theorem getD_lt_B (s : List Nat) (hs : WF s) (k : Nat) : s.getD k 0 < B := by
  by_cases hk : k < s.length
  · rw [List.getD_eq_getElem _ _ hk]; exact hs _ (List.getElem_mem hk)
  · rw [List.getD_eq_default _ _ (by omega)]; exact B_pos

theorem testBit_value (s : List Nat) (hs : WF s) (j : Nat) :
    (value s).testBit j = (s.getD (j / 64) 0).testBit (j % 64) := by
  rw [← value_digit s hs (j / 64), B_pow_eq]
  have hB : B = 2 ^ 64 := rfl
  rw [hB, Nat.testBit_mod_two_pow, Nat.testBit_div_two_pow]
  have h1 : j % 64 < 64 := Nat.mod_lt _ (by omega)
  have h2 : j % 64 + 64 * (j / 64) = j := by omega
  simp [h1, h2]

theorem testBit_value_lo (s : List Nat) (hs : WF s) (off j : Nat) (h : off % 64 + j < 64) :
    (value s).testBit (off + j) = (s.getD (off / 64) 0).testBit (off % 64 + j) := by
  rw [testBit_value s hs]
  have h1 : (off + j) / 64 = off / 64 := by omega
  have h2 : (off + j) % 64 = off % 64 + j := by omega
  rw [h1, h2]

theorem testBit_value_hi (s : List Nat) (hs : WF s) (off j : Nat) (h : 64 ≤ off % 64 + j)
    (h' : off % 64 + j < 128) :
    (value s).testBit (off + j) = (s.getD (off / 64 + 1) 0).testBit (off % 64 + j - 64) := by
  rw [testBit_value s hs]
  have h1 : (off + j) / 64 = off / 64 + 1 := by omega
  have h2 : (off + j) % 64 = off % 64 + j - 64 := by omega
  rw [h1, h2]

theorem testBit_false_of_lt_B {l k : Nat} (hl : l < B) (hk : 64 ≤ k) : l.testBit k = false := by
  apply Nat.testBit_lt_two_pow
  calc l < 2 ^ 64 := hl
    _ ≤ 2 ^ k := Nat.pow_le_pow_right (by omega) hk

theorem bitBuf_spec (s : List Nat) (w i : Nat) (hs : WF s) (hw1 : 1 ≤ w) (hw : w ≤ 62)
    (hi : i * w < 64 * s.length) :
    ∃ b, bitBuf s w i = .ok b ∧ b % 2 ^ w = (value s / 2 ^ (i * w)) % 2 ^ w := by
  unfold bitBuf
  generalize i * w = off at *
  have hq : off / 64 < s.length := by omega
  have hr : off % 64 < 64 := Nat.mod_lt _ (by omega)
  have hl : s[off / 64]? = some (s.getD (off / 64) 0) := by
    rw [List.getD_eq_getElem _ _ hq, List.getElem?_eq_getElem hq]
  have hlB := getD_lt_B s hs (off / 64)
  simp only []
  split
  · rename_i hc
    rw [hl]
    refine ⟨_, rfl, ?_⟩
    apply Nat.eq_of_testBit_eq
    intro j
    rw [Nat.testBit_mod_two_pow, Nat.testBit_mod_two_pow, Nat.testBit_shiftRight,
      Nat.testBit_div_two_pow]
    by_cases hj : j < w
    · simp only [hj, decide_true, Bool.true_and]
      rw [Nat.add_comm j off]
      by_cases hlt : off % 64 + j < 64
      · rw [testBit_value_lo s hs off j hlt]
      · have hlast : off / 64 = s.length - 1 := by omega
        rw [testBit_value_hi s hs off j (by omega) (by omega),
          testBit_false_of_lt_B hlB (by omega), List.getD_eq_default _ _ (by omega)]
        simp
    · simp [hj]
  · rename_i hc
    have hq1 : off / 64 + 1 < s.length := by omega
    have hh : s[off / 64 + 1]? = some (s.getD (off / 64 + 1) 0) := by
      rw [List.getD_eq_getElem _ _ hq1, List.getElem?_eq_getElem hq1]
    rw [hl, hh]
    refine ⟨_, rfl, ?_⟩
    apply Nat.eq_of_testBit_eq
    intro j
    have hB : B = 2 ^ 64 := rfl
    rw [Nat.testBit_mod_two_pow, Nat.testBit_mod_two_pow, Nat.testBit_or, Nat.testBit_shiftRight,
      Nat.testBit_div_two_pow, hB, Nat.testBit_mod_two_pow, Nat.testBit_shiftLeft]
    by_cases hj : j < w
    · simp only [hj, decide_true, Bool.true_and]
      rw [Nat.add_comm j off]
      by_cases hlt : off % 64 + j < 64
      · rw [testBit_value_lo s hs off j hlt]
        have : ¬ (j ≥ 64 - off % 64) := by omega
        simp [this]
      · rw [testBit_value_hi s hs off j (by omega) (by omega),
          testBit_false_of_lt_B hlB (by omega)]
        have h1 : j < 64 := by omega
        have h2 : j ≥ 64 - off % 64 := by omega
        have h3 : j - (64 - off % 64) = off % 64 + j - 64 := by omega
        simp [h1, h2, h3]
    · simp [hj]


/-! ## `make_digits`: one digit, the loop -/

open Ark.DrvC05 (digitsValueW)

/-- the range condition on a digit string: all but the last digit are recentred, the last one is
    left in `[0, 2^w]` (exactly the check of the driver) -/
def DigitsOK (w : Nat) (ds : List Int) : Prop :=
  (∀ d ∈ ds.dropLast, -(2 : Int) ^ (w - 1) ≤ d ∧ d < (2 : Int) ^ (w - 1)) ∧
  (∀ d ∈ ds.getLast?, 0 ≤ d ∧ d ≤ (2 : Int) ^ w)

theorem two_pow_half (w : Nat) (hw1 : 1 ≤ w) : 2 ^ w = 2 * 2 ^ (w - 1) ∧ 2 ^ w / 2 = 2 ^ (w - 1) := by
  obtain ⟨k, rfl⟩ : ∃ k, w = k + 1 := ⟨w - 1, by omega⟩
  simp only [Nat.add_sub_cancel, pow_succ]
  omega

theorem digitStep_spec (s : List Nat) (w D i carry : Nat) (hs : WF s) (hw1 : 1 ≤ w) (hw : w ≤ 62)
    (hi : i * w < 64 * s.length) :
    digitStep s w D i carry = .ok
      ((if i = D - 1 then ((carry + value s / 2 ^ (i * w) % 2 ^ w : ℕ) : ℤ)
        else ((carry + value s / 2 ^ (i * w) % 2 ^ w : ℕ) : ℤ)
          - (((carry + value s / 2 ^ (i * w) % 2 ^ w + 2 ^ (w - 1)) / 2 ^ w * 2 ^ w : ℕ) : ℤ)),
       (carry + value s / 2 ^ (i * w) % 2 ^ w + 2 ^ (w - 1)) / 2 ^ w) := by
  obtain ⟨b, hb, hbm⟩ := bitBuf_spec s w i hs hw1 hw hi
  unfold digitStep
  rw [hb]
  simp only [obind_ok, Nat.shiftLeft_eq, Nat.one_mul, Nat.and_two_pow_sub_one_eq_mod,
    Nat.shiftRight_eq_div_pow, hbm, (two_pow_half w hw1).2]
  congr 2
  split
  · rw [sub_add_cancel]
  · rfl

theorem carry_digit_bounds (P h coef : Nat) (hP : P = 2 * h) (hh : 0 < h) (hc : coef ≤ P) :
    (coef + h) / P ≤ 1 ∧ -(h : Int) ≤ (coef : Int) - (((coef + h) / P * P : ℕ) : ℤ) ∧
      (coef : Int) - (((coef + h) / P * P : ℕ) : ℤ) < h := by
  have hPpos : 0 < P := by omega
  have h1 := Nat.div_add_mod (coef + h) P
  have h2 := Nat.mod_lt (coef + h) hPpos
  have h3 : (coef + h) / P ≤ 1 := by
    have : (coef + h) / P < 2 := Nat.div_lt_of_lt_mul (by omega)
    omega
  refine ⟨h3, ?_⟩
  rw [Nat.mul_comm]
  generalize (coef + h) / P = q at *
  generalize (coef + h) % P = r at *
  have : q = 0 ∨ q = 1 := by omega
  rcases this with rfl | rfl
  · simp only [Nat.mul_zero, Nat.cast_zero, sub_zero]; omega
  · simp only [Nat.mul_one]; omega

theorem makeDigitsLoop_spec (s : List Nat) (w D : Nat) (hs : WF s) (hw1 : 1 ≤ w) (hw : w ≤ 62)
    (hD : (D - 1) * w < 64 * s.length) :
    ∀ fuel i carry, i + (fuel + 1) = D → carry ≤ 1 →
    ∃ ds, makeDigitsLoop s w D (fuel + 1) i carry = .ok ds ∧ ds.length = fuel + 1 ∧
      digitsValueW w ds = ((carry + value s / 2 ^ (i * w) % 2 ^ (w * (fuel + 1)) : ℕ) : ℤ) ∧
      DigitsOK w ds := by
  intro fuel
  induction fuel with
  | zero =>
    intro i carry hiD hc
    have hi : i * w < 64 * s.length := by
      have : i = D - 1 := by omega
      rwa [this]
    rw [makeDigitsLoop, digitStep_spec s w D i carry hs hw1 hw hi]
    have hlast : i = D - 1 := by omega
    simp only [obind_ok, makeDigitsLoop, if_pos hlast]
    refine ⟨_, rfl, rfl, ?_, ?_⟩
    · simp [digitsValueW]
    · have ha := Nat.mod_lt (value s / 2 ^ (i * w)) (Nat.two_pow_pos w)
      refine ⟨by simp, ?_⟩
      intro d hd
      simp only [List.getLast?_singleton, Option.mem_def, Option.some.injEq] at hd
      subst hd
      constructor
      · exact Int.natCast_nonneg _
      · have : carry + value s / 2 ^ (i * w) % 2 ^ w ≤ 2 ^ w := by omega
        exact_mod_cast this
  | succ fuel ih =>
    intro i carry hiD hc
    have hle : i * w ≤ (D - 1) * w := Nat.mul_le_mul_right w (by omega)
    have hi : i * w < 64 * s.length := by omega
    have hnl : ¬ (i = D - 1) := by omega
    rw [makeDigitsLoop, digitStep_spec s w D i carry hs hw1 hw hi]
    simp only [obind_ok, if_neg hnl]
    have ha := Nat.mod_lt (value s / 2 ^ (i * w)) (Nat.two_pow_pos w)
    obtain ⟨hP, _⟩ := two_pow_half w hw1
    have hhpos : 0 < 2 ^ (w - 1) := Nat.two_pow_pos _
    obtain ⟨hc', hlo, hhi⟩ := carry_digit_bounds (2 ^ w) (2 ^ (w - 1))
      (carry + value s / 2 ^ (i * w) % 2 ^ w) hP hhpos (by omega)
    obtain ⟨ds, hds, hlen, hval, hok⟩ := ih (i + 1) _ (by omega) hc'
    rw [hds]
    refine ⟨_, rfl, by simp [hlen], ?_, ?_⟩
    · rw [digitsValueW, hval]
      have e1 : value s / 2 ^ ((i + 1) * w) = value s / 2 ^ (i * w) / 2 ^ w := by
        rw [Nat.add_mul, Nat.one_mul, pow_add, Nat.div_div_eq_div_mul]
      have e2 : value s / 2 ^ (i * w) % 2 ^ (w * (fuel + 1 + 1))
          = value s / 2 ^ (i * w) % 2 ^ w
            + 2 ^ w * (value s / 2 ^ (i * w) / 2 ^ w % 2 ^ (w * (fuel + 1))) := by
        rw [Nat.mul_succ w (fuel + 1), Nat.add_comm (w * (fuel + 1)) w, pow_add, Nat.mod_mul]
      rw [e1, e2]
      push_cast
      ring
    · cases ds with
      | nil => simp at hlen
      | cons d' ds' =>
        obtain ⟨hdl, hla⟩ := hok
        refine ⟨?_, ?_⟩
        · intro d hd
          rw [List.dropLast_cons_cons, List.mem_cons] at hd
          rcases hd with rfl | hd
          · refine ⟨?_, ?_⟩
            · have := hlo; push_cast at this ⊢; exact this
            · have := hhi; push_cast at this ⊢; exact this
          · exact hdl d hd
        · intro d hd
          rw [List.getLast?_cons_cons] at hd
          exact hla d hd


/-! ## `make_digits` -/

theorem makeDigits_w0 (s : List Nat) (nb : Nat) : makeDigits s 0 nb = .panic := rfl

theorem makeDigits_spec (s : List Nat) (w nb : Nat) (hs : WF s) (hw1 : 1 ≤ w) (hw : w ≤ 62)
    (hnb : (if nb = 0 then numBits s else nb) ≤ 64 * s.length) :
    ∃ ds, makeDigits s w nb = .ok ds ∧
      ds.length = divCeil (if nb = 0 then numBits s else nb) w ∧
      digitsValueW w ds
        = ((value s % 2 ^ (w * divCeil (if nb = 0 then numBits s else nb) w) : ℕ) : ℤ) ∧
      DigitsOK w ds := by
  unfold makeDigits
  rw [if_neg (by omega)]
  simp only []
  generalize (if nb = 0 then numBits s else nb) = nb' at *
  have hwpos : 0 < w := hw1
  rcases Nat.eq_zero_or_pos nb' with h0 | hpos
  · subst h0
    rw [divCeil_zero w hwpos]
    refine ⟨[], rfl, rfl, ?_, ?_⟩
    · simp [digitsValueW, Nat.mod_one]
    · exact ⟨by simp, by simp⟩
  · have hDpos := divCeil_pos hpos hwpos
    have hD : (divCeil nb' w - 1) * w < 64 * s.length := by
      have := pred_divCeil_mul_lt nb' w hpos hwpos
      omega
    obtain ⟨f, hf⟩ : ∃ f, divCeil nb' w = f + 1 := ⟨divCeil nb' w - 1, by omega⟩
    obtain ⟨ds, h1, h2, h3, h4⟩ :=
      makeDigitsLoop_spec s w (divCeil nb' w) hs hw1 hw hD f 0 0 (by omega) (by omega)
    rw [hf] at h1 ⊢
    refine ⟨ds, h1, h2, ?_, h4⟩
    rw [h3]
    simp

/-- inside the scalar domain the digit string denotes the scalar itself -/
theorem mod_window_eq (v w nb : Nat) (hw : 0 < w) (hv : v < 2 ^ nb) :
    v % 2 ^ (w * divCeil nb w) = v := by
  apply Nat.mod_eq_of_lt
  calc v < 2 ^ nb := hv
    _ ≤ 2 ^ (w * divCeil nb w) := Nat.pow_le_pow_right (by omega) (le_mul_divCeil nb w hw)

theorem value_lt_two_pow_numBits (s : List Nat) (hs : WF s) : value s < 2 ^ numBits s := by
  rw [numBits_spec s hs]
  exact (bitLen_le_iff _ _).mp (Nat.le_refl _)

theorem numBits_le (s : List Nat) (hs : WF s) : numBits s ≤ 64 * s.length := by
  rw [numBits_spec s hs, bitLen_le_iff, ← B_pow_eq]
  exact value_lt s hs

theorem mem_dropLast_of_lt {α : Type} (l : List α) (k : Nat) (h : k + 1 < l.length) :
    l[k]'(by omega) ∈ l.dropLast := by
  have hk : k < l.dropLast.length := by rw [List.length_dropLast]; omega
  have := List.getElem_mem hk
  rwa [List.getElem_dropLast] at this

/-- index form of the digit ranges -/
theorem DigitsOK.index {w : Nat} {ds : List Int} (h : DigitsOK w ds) :
    (∀ k (hk : k + 1 < ds.length), -(2 : Int) ^ (w - 1) ≤ ds[k]'(by omega) ∧ ds[k]'(by omega) < (2 : Int) ^ (w - 1)) ∧
    (∀ (hl : 0 < ds.length), 0 ≤ ds[ds.length - 1]'(by omega) ∧ ds[ds.length - 1]'(by omega) ≤ (2 : Int) ^ w) := by
  refine ⟨fun k hk => h.1 _ (mem_dropLast_of_lt ds k hk), fun hl => h.2 _ ?_⟩
  rw [List.getLast?_eq_getElem?, Option.mem_def, List.getElem?_eq_getElem (by omega)]

/-- every digit indexes a bucket of the `2^w`-bucket array -/
theorem DigitsOK.abs_le {w : Nat} {ds : List Int} (h : DigitsOK w ds) (hw1 : 1 ≤ w) :
    ∀ d ∈ ds, -(2 : Int) ^ w ≤ d ∧ d ≤ (2 : Int) ^ w := by
  intro d hd
  have hP : (2 : Int) ^ w = 2 * 2 ^ (w - 1) := by
    have := (two_pow_half w hw1).1
    exact_mod_cast this
  have hpos : (0 : Int) < 2 ^ (w - 1) := by positivity
  rcases List.eq_nil_or_concat ds with rfl | ⟨l, a, rfl⟩
  · simp at hd
  · rw [DigitsOK] at h
    simp only [List.concat_eq_append, List.dropLast_concat, List.getLast?_concat, Option.mem_def,
      Option.some.injEq, forall_eq'] at h
    rw [List.concat_eq_append, List.mem_append, List.mem_singleton] at hd
    rcases hd with hd | rfl
    · have := h.1 d hd; constructor <;> linarith
    · have := h.2; constructor <;> linarith


/-! ## buckets -/

section Buckets
variable {G : Type} [AddCommGroup G]

theorem modifyAt_spec (f : G → G) (δ : G) (hf : ∀ b, f b = b + δ) (bs : List G) (j : Nat)
    (hj : j < bs.length) :
    ∃ bs', modifyAt f bs j = some bs' ∧ bs'.length = bs.length ∧ bs'.sum = bs.sum + δ ∧
      wsum bs' = wsum bs + (j + 1) • δ := by
  induction bs generalizing j with
  | nil => simp at hj
  | cons b bs ih =>
    cases j with
    | zero =>
      refine ⟨_, rfl, rfl, ?_, ?_⟩
      · simp only [List.sum_cons, hf]; abel
      · simp only [wsum, hf, zero_add, one_smul]; abel
    | succ j =>
      obtain ⟨bs', h1, h2, h3, h4⟩ := ih j (by simpa using hj)
      refine ⟨b :: bs', ?_, by simp [h2], ?_, ?_⟩
      · simp [modifyAt, h1]
      · simp only [List.sum_cons, h3]; abel
      · simp only [wsum, h3, h4]
        rw [add_smul (j + 1) 1 δ, one_smul]; abel

/-- the signed-digit bucket-filling loop: no panic, bucket count kept, and the weighted bucket sum
    grows by `Σ ds[i] • P` -/
theorem wnafFill_spec (i : Nat) (pairs : List (List Int × G)) (bs : List G)
    (h : ∀ p ∈ pairs, ∃ d, p.1[i]? = some d ∧ -(bs.length : Int) ≤ d ∧ d ≤ bs.length) :
    ∃ bs', wnafFill i bs pairs = .ok bs' ∧ bs'.length = bs.length ∧
      wsum bs' = wsum bs + (pairs.map (fun p => p.1.getD i 0 • p.2)).sum := by
  induction pairs generalizing bs with
  | nil => exact ⟨bs, rfl, rfl, by simp⟩
  | cons p ps ih =>
    obtain ⟨digits, base⟩ := p
    obtain ⟨d, hd, hlo, hhi⟩ := h (digits, base) (by simp)
    have hd' : digits[i]? = some d := hd
    have hgetD : digits.getD i 0 = d := by simp [List.getD_eq_getElem?_getD, hd']
    have hrest : ∀ bs' : List G, bs'.length = bs.length →
        ∀ p ∈ ps, ∃ d, p.1[i]? = some d ∧ -(bs'.length : Int) ≤ d ∧ d ≤ bs'.length := by
      intro bs' hl p hp; rw [hl]; exact h p (by simp [hp])
    rw [wnafFill, hd', ofOption_some, obind_ok]
    simp only [List.map_cons, List.sum_cons, hgetD]
    by_cases hpos : 0 < d
    · rw [if_pos hpos]
      obtain ⟨bs1, h1, h2, _, h4⟩ := modifyAt_spec (· + base) base (fun _ => rfl) bs (d - 1).toNat
        (by omega)
      rw [h1, ofOption_some, obind_ok]
      obtain ⟨bs', h5, h6, h7⟩ := ih bs1 (hrest bs1 h2)
      refine ⟨bs', h5, by rw [h6, h2], ?_⟩
      rw [h7, h4]
      have e : (((d - 1).toNat + 1 : ℕ) : ℤ) = d := by omega
      rw [← natCast_zsmul, e]; abel
    · rw [if_neg hpos]
      by_cases hneg : d < 0
      · rw [if_pos hneg]
        obtain ⟨bs1, h1, h2, _, h4⟩ := modifyAt_spec (· - base) (-base)
          (fun b => sub_eq_add_neg b base) bs (-d - 1).toNat (by omega)
        rw [h1, ofOption_some, obind_ok]
        obtain ⟨bs', h5, h6, h7⟩ := ih bs1 (hrest bs1 h2)
        refine ⟨bs', h5, by rw [h6, h2], ?_⟩
        rw [h7, h4]
        have e : (((-d - 1).toNat + 1 : ℕ) : ℤ) = -d := by omega
        rw [← natCast_zsmul, e, smul_neg, neg_smul, neg_neg]; abel
      · rw [if_neg hneg]
        have : d = 0 := by omega
        subst this
        obtain ⟨bs', h5, h6, h7⟩ := ih bs (hrest bs rfl)
        refine ⟨bs', h5, h6, ?_⟩
        rw [h7, zero_smul, zero_add]

theorem wnafWindow_spec (c i : Nat) (pairs : List (List Int × G))
    (h : ∀ p ∈ pairs, ∃ d, p.1[i]? = some d ∧ -(2 : Int) ^ c ≤ d ∧ d ≤ (2 : Int) ^ c) :
    wnafWindow c i pairs = .ok (pairs.map (fun p => p.1.getD i 0 • p.2)).sum := by
  unfold wnafWindow
  have hlen : (List.replicate (1 <<< c) (0 : G)).length = 2 ^ c := by
    simp [Nat.shiftLeft_eq]
  obtain ⟨bs', h1, _, h3⟩ := wnafFill_spec i pairs (List.replicate (1 <<< c) (0 : G)) (by
    intro p hp
    obtain ⟨d, hd1, hd2, hd3⟩ := h p hp
    refine ⟨d, hd1, ?_, ?_⟩ <;> rw [hlen] <;> push_cast <;> assumption)
  rw [h1, obind_ok, runningSum_wsum, h3, wsum_replicate_zero]
  simp

end Buckets


/-! ## chunks, window sums -/

theorem chunksGo_flatten {α : Type} (k : Nat) (hk : 0 < k) (L : List (List α))
    (hL : ∀ l ∈ L, l.length = k) :
    ∀ fuel acc, L.length ≤ fuel → chunksGo k fuel L.flatten acc = acc.reverse ++ L := by
  induction L with
  | nil =>
    intro fuel acc _
    cases fuel <;> simp [chunksGo]
  | cons l L ih =>
    intro fuel acc hf
    cases fuel with
    | zero => simp at hf
    | succ f =>
      have hl : l.length = k := hL l (by simp)
      have hne : l ≠ [] := by intro h; rw [h] at hl; simp at hl; omega
      have he : (l ++ L.flatten).isEmpty = false := by
        cases l with
        | nil => exact absurd rfl hne
        | cons a l => rfl
      rw [List.flatten_cons, chunksGo, he]
      simp only [Bool.false_eq_true, if_false]
      rw [List.drop_left' hl, List.take_left' hl, ih (fun x hx => hL x (by simp [hx])) f _
        (by simpa using hf)]
      simp

theorem length_le_flatten {α : Type} (k : Nat) (hk : 0 < k) (L : List (List α))
    (hL : ∀ l ∈ L, l.length = k) : L.length ≤ L.flatten.length := by
  induction L with
  | nil => simp
  | cons l L ih =>
    have := ih (fun x hx => hL x (by simp [hx]))
    have hl : l.length = k := hL l (by simp)
    simp only [List.length_cons, List.flatten_cons, List.length_append]
    omega

theorem chunksOf_flatten {α : Type} (k : Nat) (hk : 0 < k) (L : List (List α))
    (hL : ∀ l ∈ L, l.length = k) : chunksOf k L.flatten = L := by
  unfold chunksOf
  rw [chunksGo_flatten k hk L hL _ _ (length_le_flatten k hk L hL)]
  simp

theorem range_map_getD (ds : List Int) : (List.range ds.length).map (fun i => ds.getD i 0) = ds := by
  apply List.ext_getElem
  · simp
  · intro i h1 h2
    simp [List.getElem?_eq_getElem h2]

section Windows
variable {G : Type} [AddCommGroup G]

theorem combine_ok (c : Nat) (ws : List G) (h : ws ≠ []) : combine c ws = .ok (hsum c ws) := by
  cases ws with
  | nil => exact absurd rfl h
  | cons w ws => exact combine_hsum c w ws

theorem hsum_replicate_zero (c n : Nat) : hsum c (List.replicate n (0 : G)) = 0 := by
  induction n with
  | zero => rfl
  | succ n ih => simp [List.replicate_succ, hsum, ih]

theorem hsum_map_add {ι : Type} (c : Nat) (f g : ι → G) (l : List ι) :
    hsum c (l.map (fun i => f i + g i)) = hsum c (l.map f) + hsum c (l.map g) := by
  induction l with
  | nil => simp [hsum]
  | cons a l ih =>
    simp only [List.map_cons, hsum, ih, smul_add]; abel

theorem hsum_map_smul (c : Nat) (ds : List Int) (P : G) :
    hsum c (ds.map (· • P)) = digitsValueW c ds • P := by
  induction ds with
  | nil => simp [hsum, digitsValueW]
  | cons d ds ih =>
    simp only [List.map_cons, hsum, ih, digitsValueW]
    rw [add_smul, ← natCast_zsmul, ← mul_smul]
    push_cast
    rfl

/-- exchanging the sum over windows and the sum over the `(scalar, base)` pairs -/
theorem hsum_windows {α : Type} (c D : Nat) (dg : ℕ → α → ℤ) (pairs : List (α × G)) :
    hsum c ((List.range D).map (fun i => (pairs.map (fun p => dg i p.1 • p.2)).sum))
      = (pairs.map (fun p => digitsValueW c ((List.range D).map (fun i => dg i p.1)) • p.2)).sum := by
  induction pairs with
  | nil => simp [hsum_replicate_zero]
  | cons p ps ih =>
    simp only [List.map_cons, List.sum_cons]
    rw [hsum_map_add, ih, ← hsum_map_smul, List.map_map]
    rfl

end Windows


/-! ## `msm_bigint_wnaf` -/

/-- the digit string of a scalar (total version of `makeDigits`) -/
def digitsOf (c nb : Nat) (s : List Nat) : List Int :=
  match makeDigits s c nb with
  | .ok ds => ds
  | .panic => []

theorem digitsOf_spec (c nb N : Nat) (s : List Nat) (hc1 : 1 ≤ c) (hc : c ≤ 62) (hnb : 0 < nb)
    (hnbN : nb ≤ 64 * N) (hs : WF s) (hN : s.length = N) :
    makeDigits s c nb = .ok (digitsOf c nb s) ∧ (digitsOf c nb s).length = divCeil nb c ∧
      digitsValueW c (digitsOf c nb s) = ((value s % 2 ^ (c * divCeil nb c) : ℕ) : ℤ) ∧
      DigitsOK c (digitsOf c nb s) := by
  have hne : nb ≠ 0 := by omega
  obtain ⟨ds, h1, h2, h3, h4⟩ := makeDigits_spec s c nb hs hc1 hc (by rw [if_neg hne, hN]; exact hnbN)
  rw [if_neg hne] at h2 h3
  have : digitsOf c nb s = ds := by unfold digitsOf; rw [h1]
  rw [this]
  exact ⟨h1, h2, h3, h4⟩

theorem zip_take_min {α β : Type} (l₁ : List α) (l₂ : List β) :
    (l₁.take (min l₂.length l₁.length)).zip (l₂.take (min l₂.length l₁.length)) = l₁.zip l₂ := by
  rw [Nat.min_comm]
  exact List.zip_eq_zip_take_min.symm

section Wnaf
variable {G : Type} [AddCommGroup G]

theorem msmBigintWnaf_nb0 (bases : List G) (ks : List (List Nat)) :
    msmBigintWnaf 0 bases ks = .panic := by
  unfold msmBigintWnaf
  simp only []
  have hc := windowSize_ge (min bases.length ks.length)
  rw [divCeil_zero _ (by omega)]
  cases omapM (fun s => makeDigits s (windowSize (min bases.length ks.length)) 0)
      (List.take (min bases.length ks.length) ks) with
  | panic => rfl
  | ok ds => rfl

theorem msmBigintWnaf_spec (nb N : Nat) (bases : List G) (ks : List (List Nat))
    (hnb : 0 < nb) (hnbN : nb ≤ 64 * N) (hks : ∀ s ∈ ks, WF s ∧ s.length = N)
    (hsize : min bases.length ks.length < 2 ^ 64) :
    msmBigintWnaf nb bases ks = .ok
      ((ks.zip bases).map (fun p =>
        (value p.1 % 2 ^ (windowSize (min bases.length ks.length)
          * divCeil nb (windowSize (min bases.length ks.length)))) • p.2)).sum := by
  unfold msmBigintWnaf
  simp only []
  generalize hsz : min bases.length ks.length = size at *
  have hc3 := windowSize_ge size
  have hc46 := windowSize_le size hsize
  generalize hcdef : windowSize size = c at *
  have hc1 : 1 ≤ c := by omega
  have hc62 : c ≤ 62 := by omega
  have hD : 0 < divCeil nb c := divCeil_pos hnb (by omega)
  generalize hDdef : divCeil nb c = D at *
  have hsc : ∀ s ∈ ks.take size, WF s ∧ s.length = N := fun s hs => hks s (List.mem_of_mem_take hs)
  have hdig : ∀ s ∈ ks.take size, makeDigits s c nb = .ok (digitsOf c nb s) ∧
      (digitsOf c nb s).length = D ∧
      digitsValueW c (digitsOf c nb s) = ((value s % 2 ^ (c * D) : ℕ) : ℤ) ∧
      DigitsOK c (digitsOf c nb s) := by
    intro s hs
    have := digitsOf_spec c nb N s hc1 hc62 hnb hnbN (hsc s hs).1 (hsc s hs).2
    rwa [hDdef] at this
  rw [omapM_ok _ (digitsOf c nb) _ (fun s hs => (hdig s hs).1), obind_ok]
  rw [chunksOf_flatten D hD _ (by
    intro l hl
    obtain ⟨s, hs, rfl⟩ := List.mem_map.mp hl
    exact (hdig s hs).2.1)]
  -- the windows
  have hwin : ∀ i ∈ List.range D,
      wnafWindow c i (((ks.take size).map (digitsOf c nb)).zip (bases.take size))
        = .ok ((((ks.take size).map (digitsOf c nb)).zip (bases.take size)).map
            (fun p => p.1.getD i 0 • p.2)).sum := by
    intro i hi
    apply wnafWindow_spec
    intro p hp
    obtain ⟨s, hs, hps⟩ := List.mem_map.mp (List.of_mem_zip hp).1
    obtain ⟨_, hlen, _, hok⟩ := hdig s hs
    rw [← hps]
    have hiD : i < (digitsOf c nb s).length := by rw [hlen]; exact List.mem_range.mp hi
    refine ⟨_, List.getElem?_eq_getElem hiD, ?_⟩
    exact hok.abs_le hc1 _ (List.getElem_mem hiD)
  rw [omapM_ok _ _ _ hwin, obind_ok]
  rw [combine_ok _ _ (by
    intro h
    have := congrArg List.length h
    simp at this; omega)]
  rw [hsum_windows c D (fun i (ds : List Int) => ds.getD i 0)]
  rw [List.zip_map_left, List.map_map, ← hsz, zip_take_min]
  refine congrArg Outcome.ok (congrArg List.sum (List.map_congr_left ?_))
  intro p hp
  have hp1 : p.1 ∈ ks.take size := by
    have : p ∈ (ks.take size).zip (bases.take size) := by
      rw [← hsz, zip_take_min]; exact hp
    exact (List.of_mem_zip this).1
  obtain ⟨_, hlen, hval, _⟩ := hdig p.1 hp1
  simp only [Function.comp_apply, Prod.map_fst, Prod.map_snd, id_eq]
  have hr := range_map_getD (digitsOf c nb p.1)
  rw [hlen] at hr
  rw [hr, hval, natCast_zsmul]

end Wnaf


/-! ## plain bucket method: private `msm_bigint` -/

theorem isZero_of_value_zero (a : List Nat) (h : value a = 0) : isZero a = true := by
  induction a with
  | nil => rfl
  | cons l ls ih =>
    rw [value] at h
    have h1 : l = 0 := by omega
    have h2 : value ls = 0 := by
      have : B * value ls = 0 := by omega
      rcases Nat.mul_eq_zero.mp this with hB | hv
      · have := B_pos; omega
      · exact hv
    have := ih h2
    unfold isZero at this ⊢
    simp [List.all_cons, h1, this]

theorem shr_head (s : List Nat) (n : Nat) (hs : WF s) (hne : s ≠ []) :
    (shr s n)[0]? = some (value s / 2 ^ n % B) := by
  obtain ⟨h1, h2, h3⟩ := shr_spec s n hs
  have hlen : 0 < (shr s n).length := by
    rw [h3]; exact List.length_pos_of_ne_nil hne
  have := value_digit (shr s n) h2 0
  rw [pow_zero, Nat.div_one, h1, List.getD_eq_getElem _ _ hlen] at this
  rw [List.getElem?_eq_getElem hlen, this]

theorem natDigits_value (c D v : Nat) :
    digitsValueW c ((List.range D).map (fun i => ((v / 2 ^ (i * c) % 2 ^ c : ℕ) : ℤ)))
      = ((v % 2 ^ (c * D) : ℕ) : ℤ) := by
  induction D generalizing v with
  | zero => simp [digitsValueW, Nat.mod_one]
  | succ D ih =>
    rw [List.range_succ_eq_map, List.map_cons, List.map_map, digitsValueW]
    have e : ((fun i => ((v / 2 ^ (i * c) % 2 ^ c : ℕ) : ℤ)) ∘ Nat.succ)
        = fun i => ((v / 2 ^ c / 2 ^ (i * c) % 2 ^ c : ℕ) : ℤ) := by
      funext i
      simp only [Function.comp_apply, Nat.succ_eq_add_one]
      rw [Nat.add_mul, Nat.one_mul, Nat.add_comm (i * c) c, pow_add, Nat.div_div_eq_div_mul]
    rw [e, ih, Nat.zero_mul, pow_zero, Nat.div_one, Nat.mul_succ, Nat.add_comm (c * D) c, pow_add,
      Nat.mod_mul]
    push_cast
    rfl

section Plain
variable {G : Type} [AddCommGroup G]

theorem sum_map_filter {α : Type} (q : α → Bool) (f : α → G) (l : List α)
    (h : ∀ x ∈ l, q x = false → f x = 0) : ((l.filter q).map f).sum = (l.map f).sum := by
  induction l with
  | nil => rfl
  | cons a l ih =>
    have ih := ih (fun x hx => h x (by simp [hx]))
    cases hq : q a with
    | true => rw [List.filter_cons_of_pos hq]; simp [ih]
    | false =>
      rw [List.filter_cons_of_neg (by simp [hq])]
      simp [ih, h a (by simp) hq]

/-- the plain bucket-filling loop: no panic, and `res + Σ_j (j+1)•bucket[j]` grows by
    `Σ digit_{wStart}(s) • P` -/
theorem plainFill_spec (c wStart : Nat) (one : List Nat) (hc1 : 1 ≤ c) (hc : c ≤ 64)
    (pairs : List (List Nat × G)) (res : G) (bs : List G) (hbs : bs.length = 2 ^ c - 1)
    (h : ∀ p ∈ pairs, WF p.1 ∧ p.1 ≠ [] ∧ (p.1 = one → value p.1 = 1)) :
    ∃ res' bs', plainFill c wStart one res bs pairs = .ok (res', bs') ∧ bs'.length = bs.length ∧
      res' + wsum bs' = res + wsum bs
        + (pairs.map (fun p => (value p.1 / 2 ^ wStart % 2 ^ c) • p.2)).sum := by
  induction pairs generalizing res bs with
  | nil => exact ⟨res, bs, rfl, rfl, by simp⟩
  | cons p ps ih =>
    obtain ⟨scalar, base⟩ := p
    obtain ⟨hwf, hne, h1⟩ := h (scalar, base) (by simp)
    have hrest : ∀ p ∈ ps, WF p.1 ∧ p.1 ≠ [] ∧ (p.1 = one → value p.1 = 1) :=
      fun p hp => h p (by simp [hp])
    have h2c : 2 ≤ 2 ^ c := by
      calc 2 = 2 ^ 1 := rfl
        _ ≤ 2 ^ c := Nat.pow_le_pow_right (by omega) hc1
    rw [plainFill]
    simp only [List.map_cons, List.sum_cons]
    by_cases hone : scalar = one
    · rw [if_pos hone]
      have hv : value scalar = 1 := h1 hone
      simp only [hv]
      by_cases hw0 : wStart = 0
      · rw [if_pos hw0]
        obtain ⟨res', bs', e1, e2, e3⟩ := ih (res + base) bs hbs hrest
        refine ⟨res', bs', e1, e2, ?_⟩
        rw [e3, hw0, pow_zero, Nat.div_one, Nat.mod_eq_of_lt (by omega), one_smul]
        abel
      · rw [if_neg hw0]
        obtain ⟨res', bs', e1, e2, e3⟩ := ih res bs hbs hrest
        refine ⟨res', bs', e1, e2, ?_⟩
        have : 1 / 2 ^ wStart = 0 := by
          apply Nat.div_eq_of_lt
          calc 1 < 2 ^ 1 := by norm_num
            _ ≤ 2 ^ wStart := Nat.pow_le_pow_right (by omega) (by omega)
        rw [e3, this, Nat.zero_mod, zero_smul, zero_add]
    · rw [if_neg hone, shr_head scalar wStart hwf hne, ofOption_some, obind_ok]
      have hmm : value scalar / 2 ^ wStart % B % (1 <<< c) = value scalar / 2 ^ wStart % 2 ^ c := by
        rw [Nat.shiftLeft_eq, Nat.one_mul]
        apply Nat.mod_mod_of_dvd
        exact Nat.pow_dvd_pow 2 hc
      simp only [hmm]
      generalize value scalar / 2 ^ wStart % 2 ^ c = d at *
      have hd : d < 2 ^ c := by
        rw [← hmm]; rw [Nat.shiftLeft_eq, Nat.one_mul]; exact Nat.mod_lt _ (by omega)
      by_cases hd0 : d = 0
      · rw [if_neg (by simp [hd0])]
        obtain ⟨res', bs', e1, e2, e3⟩ := ih res bs hbs hrest
        refine ⟨res', bs', e1, e2, ?_⟩
        rw [e3, hd0, zero_smul, zero_add]
      · rw [if_pos hd0]
        obtain ⟨bs1, m1, m2, _, m4⟩ := modifyAt_spec (· + base) base (fun _ => rfl) bs (d - 1)
          (by omega)
        rw [m1, ofOption_some, obind_ok]
        obtain ⟨res', bs', e1, e2, e3⟩ := ih res bs1 (by rw [m2, hbs]) hrest
        refine ⟨res', bs', e1, by rw [e2, m2], ?_⟩
        rw [e3, m4, Nat.sub_add_cancel (by omega)]
        abel

theorem plainWindow_spec (c wStart : Nat) (one : List Nat) (hc1 : 1 ≤ c) (hc : c ≤ 64)
    (pairs : List (List Nat × G))
    (h : ∀ p ∈ pairs, WF p.1 ∧ p.1 ≠ [] ∧ (p.1 = one → value p.1 = 1)) :
    plainWindow c wStart one pairs
      = .ok (pairs.map (fun p => (value p.1 / 2 ^ wStart % 2 ^ c) • p.2)).sum := by
  unfold plainWindow
  obtain ⟨res', bs', e1, _, e3⟩ := plainFill_spec c wStart one hc1 hc pairs (0 : G)
    (List.replicate ((1 <<< c) - 1) (0 : G)) (by simp [Nat.shiftLeft_eq]) h
  rw [e1, obind_ok, runningSum_wsum, e3, wsum_replicate_zero]
  simp

theorem msmBigintPlain_nb0 (one : List Nat) (bases : List G) (ks : List (List Nat)) :
    msmBigintPlain 0 one bases ks = .panic := by
  unfold msmBigintPlain windowStarts
  simp only []
  have hc := windowSize_ge (min bases.length ks.length)
  rw [divCeil_zero _ (by omega)]
  rfl

theorem msmBigintPlain_spec (nb : Nat) (one : List Nat) (bases : List G) (ks : List (List Nat))
    (hnb : 0 < nb) (hone : value one ≤ 1) (hks : ∀ s ∈ ks, WF s)
    (hsize : min bases.length ks.length < 2 ^ 64) :
    msmBigintPlain nb one bases ks = .ok
      ((ks.zip bases).map (fun p =>
        (value p.1 % 2 ^ (windowSize (min bases.length ks.length)
          * divCeil nb (windowSize (min bases.length ks.length)))) • p.2)).sum := by
  unfold msmBigintPlain windowStarts
  simp only []
  rw [zip_take_min]
  have hc3 := windowSize_ge (min bases.length ks.length)
  have hc46 := windowSize_le _ hsize
  generalize windowSize (min bases.length ks.length) = c at *
  have hD : 0 < divCeil nb c := divCeil_pos hnb (by omega)
  generalize divCeil nb c = D at *
  generalize hpairs : (ks.zip bases).filter (fun sb => !isZero sb.1) = pairs
  have hp : ∀ p ∈ pairs, WF p.1 ∧ p.1 ≠ [] ∧ (p.1 = one → value p.1 = 1) := by
    intro p hp
    rw [← hpairs, List.mem_filter] at hp
    obtain ⟨hmem, hnz⟩ := hp
    have hnz' : isZero p.1 = false := by simpa using hnz
    refine ⟨hks _ (List.of_mem_zip hmem).1, ?_, ?_⟩
    · intro h; rw [h] at hnz'; simp [isZero] at hnz'
    · intro h1
      have : value p.1 ≠ 0 := by
        intro h0; rw [isZero_of_value_zero _ h0] at hnz'; simp at hnz'
      rw [h1] at this ⊢
      omega
  have hwin : ∀ wStart ∈ (List.range D).map (· * c), plainWindow c wStart one pairs
      = .ok (pairs.map (fun p => (value p.1 / 2 ^ wStart % 2 ^ c) • p.2)).sum :=
    fun wStart _ => plainWindow_spec c wStart one (by omega) (by omega) pairs hp
  rw [omapM_ok _ _ _ hwin, obind_ok, List.map_map]
  rw [combine_ok _ _ (by
    intro h
    have := congrArg List.length h
    simp at this; omega)]
  have e : ((fun wStart => (pairs.map (fun p => (value p.1 / 2 ^ wStart % 2 ^ c) • p.2)).sum)
        ∘ fun x => x * c)
      = fun i => (pairs.map (fun p =>
          (fun (i : ℕ) (s : List Nat) => ((value s / 2 ^ (i * c) % 2 ^ c : ℕ) : ℤ)) i p.1 • p.2)).sum := by
    funext i
    simp only [Function.comp_apply, natCast_zsmul]
  rw [e, hsum_windows c D (fun (i : ℕ) (s : List Nat) => ((value s / 2 ^ (i * c) % 2 ^ c : ℕ) : ℤ))]
  simp only [natDigits_value, natCast_zsmul]
  rw [← hpairs]
  refine congrArg Outcome.ok (sum_map_filter _ _ _ ?_)
  intro p _ hz
  have hz' : isZero p.1 = true := by simpa using hz
  rw [isZero_value hz', Nat.zero_mod, zero_smul]

end Plain


/-! ## the scalar-field configuration -/

theorem toLimbs_value' (n v : Nat) : value (toLimbs n v) = v % B ^ n := by
  induction n generalizing v with
  | zero => simp [toLimbs, value, Nat.mod_one]
  | succ n ih =>
    simp only [toLimbs, value, ih]
    rw [Nat.pow_succ, Nat.mul_comm (B ^ n) B, Nat.mod_mul]

theorem toLimbs_wf' (n v : Nat) : WF (toLimbs n v) := by
  induction n generalizing v with
  | zero => simp [toLimbs, WF]
  | succ n ih => exact WF_cons.mpr ⟨Nat.mod_lt _ B_pos, ih _⟩

theorem toLimbs_length' (n v : Nat) : (toLimbs n v).length = n := by
  induction n generalizing v with
  | zero => simp [toLimbs]
  | succ n ih => simp [toLimbs, ih]

theorem toLimbs_top (n v d : Nat) : (toLimbs (n + 1) v).getLastD d = v / B ^ n % B := by
  induction n generalizing v d with
  | zero => simp [toLimbs]
  | succ n ih =>
    rw [toLimbs, List.getLastD_cons, ih, Nat.div_div_eq_div_mul, pow_succ']

/-- `MODULUS_BIT_SIZE` for a configuration with `limbs = n + 1` -/
theorem Cfg.numBits_succ (cfg : Cfg) (n : Nat) (hn : cfg.limbs = n + 1) :
    cfg.numBits = n * 64 + bitLen (cfg.r / B ^ n % B) := by
  unfold Cfg.numBits
  rw [hn, toLimbs_top]
  simp

theorem Cfg.r_lt_two_pow_numBits (cfg : Cfg) (hr : cfg.r < 2 ^ (64 * cfg.limbs)) :
    cfg.r < 2 ^ cfg.numBits := by
  rcases Nat.eq_zero_or_pos cfg.limbs with h0 | hpos
  · rw [h0] at hr
    have : cfg.r = 0 := by simpa using hr
    rw [this]; exact Nat.two_pow_pos _
  · obtain ⟨n, hn⟩ : ∃ n, cfg.limbs = n + 1 := ⟨cfg.limbs - 1, by omega⟩
    rw [cfg.numBits_succ n hn]
    rw [hn, ← B_pow_eq, pow_succ] at hr
    have hBn : 0 < B ^ n := Nat.pow_pos B_pos
    have ht : cfg.r / B ^ n < B := Nat.div_lt_of_lt_mul hr
    rw [Nat.mod_eq_of_lt ht]
    have h1 : cfg.r < B ^ n * (cfg.r / B ^ n + 1) := Nat.lt_mul_div_succ _ hBn
    have h2 : cfg.r / B ^ n < 2 ^ bitLen (cfg.r / B ^ n) :=
      (bitLen_le_iff _ _).mp (Nat.le_refl _)
    rw [pow_add, Nat.mul_comm n 64, ← B_pow_eq]
    calc cfg.r < B ^ n * (cfg.r / B ^ n + 1) := h1
      _ ≤ B ^ n * 2 ^ bitLen (cfg.r / B ^ n) := Nat.mul_le_mul_left _ h2

theorem Cfg.numBits_pos (cfg : Cfg) (hr0 : 0 < cfg.r) (hr : cfg.r < 2 ^ (64 * cfg.limbs)) :
    0 < cfg.numBits := by
  have := cfg.r_lt_two_pow_numBits hr
  rcases Nat.eq_zero_or_pos cfg.numBits with h | h
  · rw [h] at this; omega
  · exact h

theorem Cfg.numBits_le (cfg : Cfg) (hr0 : 0 < cfg.r) (hr : cfg.r < 2 ^ (64 * cfg.limbs)) :
    cfg.numBits ≤ 64 * cfg.limbs := by
  rcases Nat.eq_zero_or_pos cfg.limbs with h0 | hpos
  · rw [h0] at hr; omega
  · obtain ⟨n, hn⟩ : ∃ n, cfg.limbs = n + 1 := ⟨cfg.limbs - 1, by omega⟩
    rw [cfg.numBits_succ n hn, hn]
    have : bitLen (cfg.r / B ^ n % B) ≤ 64 := (bitLen_le_iff _ _).mpr (Nat.mod_lt _ B_pos)
    omega

theorem Cfg.value_one_le (cfg : Cfg) : value cfg.one ≤ 1 := by
  unfold Cfg.one
  rw [toLimbs_value']
  calc 1 % cfg.r % B ^ cfg.limbs ≤ 1 % cfg.r := Nat.mod_le _ _
    _ ≤ 1 := Nat.mod_le _ _

/-! ## the entry points -/

section Entry
variable {G : Type} [AddCommGroup G]

/-- list form ↔ index form of `Σ_{i<min} f(kᵢ) • Pᵢ` -/
theorem zipSum_eq_finset {α : Type} (f : α → ℕ) (d : α) (ks : List α) (bases : List G) :
    ((ks.zip bases).map (fun p => f p.1 • p.2)).sum
      = ∑ i ∈ Finset.range (min bases.length ks.length), f (ks.getD i d) • bases.getD i 0 := by
  induction ks generalizing bases with
  | nil => simp
  | cons k ks ih =>
    cases bases with
    | nil => simp
    | cons b bs =>
      rw [List.zip_cons_cons, List.map_cons, List.sum_cons, ih, List.length_cons, List.length_cons,
        Nat.succ_min_succ, Finset.sum_range_succ']
      simp [add_comm]

theorem msmBigint_spec (cfg : Cfg) (hr0 : 0 < cfg.r) (hr : cfg.r < 2 ^ (64 * cfg.limbs))
    (bases : List G) (ks : List (List Nat)) (hks : ∀ k ∈ ks, WF k ∧ k.length = cfg.limbs)
    (hsize : min bases.length ks.length < 2 ^ 64) :
    msmBigint cfg bases ks = .ok
      ((ks.zip bases).map (fun p =>
        (value p.1 % 2 ^ (windowSize (min bases.length ks.length)
          * divCeil cfg.numBits (windowSize (min bases.length ks.length)))) • p.2)).sum := by
  unfold msmBigint
  split
  · exact msmBigintWnaf_spec cfg.numBits cfg.limbs bases ks (cfg.numBits_pos hr0 hr)
      (cfg.numBits_le hr0 hr) hks hsize
  · exact msmBigintPlain_spec cfg.numBits cfg.one bases ks (cfg.numBits_pos hr0 hr)
      cfg.value_one_le (fun s hs => (hks s hs).1) hsize

theorem msmBigint_exact (cfg : Cfg) (hr0 : 0 < cfg.r) (hr : cfg.r < 2 ^ (64 * cfg.limbs))
    (bases : List G) (ks : List (List Nat))
    (hks : ∀ k ∈ ks, WF k ∧ k.length = cfg.limbs ∧ value k < 2 ^ cfg.numBits)
    (hsize : min bases.length ks.length < 2 ^ 64) :
    msmBigint cfg bases ks = .ok ((ks.zip bases).map (fun p => value p.1 • p.2)).sum := by
  rw [msmBigint_spec cfg hr0 hr bases ks (fun k hk => ⟨(hks k hk).1, (hks k hk).2.1⟩) hsize]
  refine congrArg Outcome.ok (congrArg List.sum (List.map_congr_left ?_))
  intro p hp
  have hc := windowSize_ge (min bases.length ks.length)
  rw [mod_window_eq _ _ _ (by omega) (hks _ (List.of_mem_zip hp).1).2.2]

/-- the same in the `(bases.zip ks)` orientation -/
theorem msmBigint_spec_zip (cfg : Cfg) (hr0 : 0 < cfg.r) (hr : cfg.r < 2 ^ (64 * cfg.limbs))
    (bases : List G) (ks : List (List Nat))
    (hks : ∀ k ∈ ks, k.length = cfg.limbs ∧ WF k ∧ value k < 2 ^ cfg.numBits)
    (hsize : min bases.length ks.length < 2 ^ 64) :
    msmBigint cfg bases ks = .ok ((bases.zip ks).map (fun a => value a.2 • a.1)).sum := by
  rw [msmBigint_exact cfg hr0 hr bases ks
    (fun k hk => ⟨(hks k hk).2.1, (hks k hk).1, (hks k hk).2.2⟩) hsize]
  rw [← List.zip_swap bases ks, List.map_map]
  rfl

theorem msmUnchecked_spec (cfg : Cfg) (hr0 : 0 < cfg.r) (hr : cfg.r < 2 ^ (64 * cfg.limbs))
    (bases : List G) (ks : List Nat) (hks : ∀ k ∈ ks, k < cfg.r)
    (hsize : min bases.length ks.length < 2 ^ 64) :
    msmUnchecked cfg bases ks = .ok ((ks.zip bases).map (fun p => p.1 • p.2)).sum := by
  unfold msmUnchecked
  have hrn := cfg.r_lt_two_pow_numBits hr
  have hval : ∀ k ∈ ks, value (cfg.intoBigint k) = k := by
    intro k hk
    unfold Cfg.intoBigint
    rw [toLimbs_value', B_pow_eq]
    exact Nat.mod_eq_of_lt (Nat.lt_trans (hks k hk) hr)
  rw [msmBigint_exact cfg hr0 hr bases (ks.map cfg.intoBigint) (by
    intro k hk
    obtain ⟨k0, hk0, rfl⟩ := List.mem_map.mp hk
    refine ⟨toLimbs_wf' _ _, toLimbs_length' _ _, ?_⟩
    rw [hval k0 hk0]
    exact Nat.lt_trans (hks k0 hk0) hrn) (by simpa using hsize)]
  rw [List.zip_map_left, List.map_map]
  refine congrArg Outcome.ok (congrArg List.sum (List.map_congr_left ?_))
  intro p hp
  simp only [Function.comp_apply, Prod.map_fst, Prod.map_snd, id_eq]
  rw [hval _ (List.of_mem_zip hp).1]

theorem msm_spec_eq (cfg : Cfg) (hr0 : 0 < cfg.r) (hr : cfg.r < 2 ^ (64 * cfg.limbs))
    (bases : List G) (ks : List Nat) (hks : ∀ k ∈ ks, k < cfg.r) (hlen : bases.length = ks.length)
    (hsize : ks.length < 2 ^ 64) :
    msm cfg bases ks = .ok (.ok ((ks.zip bases).map (fun p => p.1 • p.2)).sum) := by
  unfold msm
  rw [if_pos hlen, msmUnchecked_spec cfg hr0 hr bases ks hks (by rw [hlen]; simpa using hsize)]
  rfl

theorem msm_spec_ne (cfg : Cfg) (bases : List G) (ks : List Nat) (hlen : bases.length ≠ ks.length) :
    msm cfg bases ks = .ok (.error (min bases.length ks.length)) := by
  unfold msm
  rw [if_neg hlen]

end Entry


end Ark.Msm
