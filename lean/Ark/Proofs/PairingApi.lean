import Ark.Proofs.Pairing
import Ark.Proofs.FieldOps
/-
  Ark.Proofs.PairingApi — helper lemmas for `Ark/Props/C06b.lean`: the rest of the public API of
  `ec/src/pairing.rs` (section `api` of `Ark.Model.Pairing`): `MillerLoopOutput * scalar`,
  `Valid for PairingOutput`, `CanonicalDeserialize`, `Sum`, `mul_bigint`, the repaired `mul_bits_be`,
  `Neg` / `Sub` / `double_in_place`, `Zeroize`.

  `bitsValBE` (the number denoted by a big-endian bit list) is `Ark.bitsValBE` of
  `Ark/Proofs/FieldOps.lean`.
-/
namespace Ark.PairingApi
open Ark Ark.Ext Ark.Pairing Ark.PairingP Ark.ExtB
set_option linter.unusedSectionVars false

/-! ## `Field::pow`: square-and-multiply over the bits without leading zeros -/

section pow
variable {P T : Type} [Field T] [DecidableEq T]

theorem pow_fold (D : FieldD P T) (hsq : ∀ f, D.square f = f * f) (a : T) :
    ∀ (bits : List Bool) (res : T) (n : ℕ), res = a ^ n →
      bits.foldl (fun res bit => let s := D.square res; if bit then s * a else s) res =
        a ^ bits.foldl (fun n b => 2 * n + (if b then 1 else 0)) n := by
  intro bits
  induction bits with
  | nil => intro res n h; exact h
  | cons b bs ih =>
    intro res n h
    simp only [List.foldl_cons]
    apply ih
    cases b
    · simp only [Bool.false_eq_true, if_false, Nat.add_zero, hsq, h]; ring
    · simp only [if_true, hsq, h]; ring

/-- `Field::pow` over an arbitrary big-endian bit list -/
theorem pow_bits (D : FieldD P T) (hsq : ∀ f, D.square f = f * f) (a : T) (bits : List Bool) :
    (bits.dropWhile (· == false)).foldl
      (fun res bit => let s := D.square res; if bit then s * a else s) 1 = a ^ bitsValBE bits := by
  rw [← bitsValBE_dropWhile bits]
  exact pow_fold D hsq a _ 1 0 (pow_zero a).symm

/-- `fieldPow D a e = a ^ value e` for every field element `a` (also `0`) and every list of `u64` limbs -/
theorem fieldPow_eq (D : FieldD P T) (hsq : ∀ f, D.square f = f * f) (a : T) (e : List Nat)
    (he : WF e) : fieldPow D a e = a ^ value e := by
  unfold fieldPow
  rw [pow_bits D hsq a, bitsValBE_toBitsBE e he]

theorem outCheck_iff (D : FieldD P T) (hsq : ∀ f, D.square f = f * f) (r : List Nat) (hr : WF r)
    (a : T) : outCheck D r a = true ↔ a ^ value r = 1 := by
  unfold outCheck
  rw [fieldPow_eq D hsq a r hr, decide_eq_true_iff]

theorem outBatchCheck_iff (D : FieldD P T) (hsq : ∀ f, D.square f = f * f) (r : List Nat)
    (hr : WF r) (l : List T) : outBatchCheck D r l = true ↔ ∀ x ∈ l, x ^ value r = 1 := by
  unfold outBatchCheck
  rw [List.all_eq_true]
  exact forall₂_congr fun x _ => outCheck_iff D hsq r hr x

/-- `deserialize_with_mode(.., Validate::Yes)` after a successful decoding of the field element -/
theorem outDeserialize_true (D : FieldD P T) (r : List Nat) (f : T) :
    outDeserialize D r (.ok f) true =
      if outCheck D r f = true then .ok f else .error "invalid" := by
  show (if (true && !outCheck D r f) = true then Except.error "invalid" else Except.ok f) = _
  generalize outCheck D r f = c
  cases c <;> rfl

/-- with validation on, the result is either the decoded element or the error `"invalid"` -/
theorem outDeserialize_validate (D : FieldD P T) (hsq : ∀ f, D.square f = f * f) (r : List Nat)
    (hr : WF r) (f : T) :
    outDeserialize D r (.ok f) true = if f ^ value r = 1 then .ok f else .error "invalid" := by
  rw [outDeserialize_true]
  simp only [outCheck_iff D hsq r hr f]

theorem outDeserialize_ok_iff (D : FieldD P T) (hsq : ∀ f, D.square f = f * f) (r : List Nat)
    (hr : WF r) (f : T) : outDeserialize D r (.ok f) true = .ok f ↔ f ^ value r = 1 := by
  rw [outDeserialize_validate D hsq r hr]
  by_cases hf : f ^ value r = 1
  · simp [hf]
  · simp [hf]

end pow

/-! ## `final_exponentiation (f ^ n)` -/

section fepow
variable {T : Type} [Field T] [DecidableEq T]

/-- the `n`-th power lifted through `Outcome (Option ·)`: the `n`-fold `omul`
    (`opow x 0 = Some 1` whatever `x` is — this is what the code does: `0 ^ 0 = 1`) -/
def opow (x : Outcome (Option T)) : ℕ → Outcome (Option T)
  | 0 => .ok (some 1)
  | n + 1 => omul (opow x n) x

theorem opow_some (w : T) (n : ℕ) : opow (.ok (some w)) n = .ok (some (w ^ n)) := by
  induction n with
  | zero => simp [opow]
  | succ n ih => simp [opow, ih, omul, pow_succ]

theorem opow_none {n : ℕ} (hn : n ≠ 0) : opow (.ok (none : Option T)) n = .ok none := by
  induction n with
  | zero => exact absurd rfl hn
  | succ n ih =>
    cases n with
    | zero => simp [opow, omul]
    | succ m => rw [opow, ih (Nat.succ_ne_zero m)]; rfl

theorem opow_panic {n : ℕ} (hn : n ≠ 0) : opow (.panic : Outcome (Option T)) n = .panic := by
  cases n with
  | zero => exact absurd rfl hn
  | succ n =>
    rw [opow]
    cases opow (.panic : Outcome (Option T)) n with
    | panic => rfl
    | ok o => cases o <;> rfl

/-- a multiplicative `fe` with `fe 1 = Some 1` sends powers to powers -/
theorem fe_pow_of_mul (fe : T → Outcome (Option T))
    (hmul : ∀ f g, fe (f * g) = omul (fe f) (fe g)) (h1 : fe 1 = .ok (some 1)) (f : T) (n : ℕ) :
    fe (f ^ n) = opow (fe f) n := by
  induction n with
  | zero => rw [pow_zero, h1]; rfl
  | succ n ih => rw [pow_succ, hmul, ih]; rfl

theorem fe_pow_some (fe : T → Outcome (Option T))
    (hmul : ∀ f g, fe (f * g) = omul (fe f) (fe g)) (h1 : fe 1 = .ok (some 1)) (f w : T) (n : ℕ)
    (hw : fe f = .ok (some w)) : fe (f ^ n) = .ok (some (w ^ n)) := by
  rw [fe_pow_of_mul fe hmul h1, hw, opow_some]

theorem fe_one_of_eq (Φ : T → T) (hΦ : Φ 1 = 1) (fe : T → Outcome (Option T))
    (h : ∀ f, fe f = .ok (if f = 0 then none else some (Φ f))) : fe 1 = .ok (some 1) := by
  rw [h, if_neg one_ne_zero, hΦ]

theorem fe_one_of_eq' (Φ : T → T) (hΦ : Φ 1 = 1) (fe : T → Outcome (Option T))
    (h : ∀ f, fe f = if f = 0 then .panic else .ok (some (Φ f))) : fe 1 = .ok (some 1) := by
  rw [h, if_neg one_ne_zero, hΦ]

end fepow

/-! ## `Sum` -/

section sum
variable {T : Type} [Field T] [DecidableEq T]

theorem outSum_eq_prod (l : List T) : outSum l = l.prod := by
  have : outSum l = product l := rfl
  rw [this, product_eq_prod]

end sum

/-! ## the limbs rebuilt by `mul_bits_be` -/

section bits

theorem chunks_value (fuel : Nat) : ∀ bits : List Bool, bits.length ≤ fuel →
    value ((chunks 64 bits fuel).map bitsToNat) = bitsToNat bits ∧
    WF ((chunks 64 bits fuel).map bitsToNat) := by
  induction fuel with
  | zero =>
    intro bits h
    have : bits = [] := List.eq_nil_of_length_eq_zero (by omega)
    subst this
    simp only [chunks, List.map_nil]
    exact ⟨rfl, WF_nil⟩
  | succ fuel ih =>
    intro bits h
    by_cases he : bits = []
    · subst he
      simp only [chunks, List.isEmpty_nil, if_true, List.map_nil]
      exact ⟨rfl, WF_nil⟩
    · have he' : bits.isEmpty = false := by simpa using he
      have hpos : 0 < bits.length := List.length_pos_iff.mpr he
      simp only [chunks, he', Bool.false_eq_true, if_false, List.map_cons]
      have hd : (bits.drop 64).length ≤ fuel := by
        simp only [List.length_drop]; omega
      obtain ⟨i1, i2⟩ := ih (bits.drop 64) hd
      have hc : bitsToNat (bits.take 64) < B := by
        have h1 := bitsToNat_lt (bits.take 64)
        have h2 : 2 ^ (bits.take 64).length ≤ 2 ^ 64 :=
          Nat.pow_le_pow_right (by omega) (by rw [List.length_take]; omega)
        exact Nat.lt_of_lt_of_le h1 h2
      refine ⟨?_, WF_cons.mpr ⟨hc, i2⟩⟩
      simp only [value]
      rw [i1]
      conv_rhs => rw [← List.take_append_drop 64 bits, bitsToNat_append]
      by_cases hlen : 64 ≤ bits.length
      · rw [List.length_take, Nat.min_eq_left hlen]; rfl
      · have : bits.drop 64 = [] := List.drop_eq_nil_of_le (by omega)
        rw [this]; simp [bitsToNat]

/-- the repaired conversion: the limbs denote the big-endian value of the bits; all limbs are `u64`s -/
theorem bitsToLimbsAsCoded_spec (bits : List Bool) :
    value (bitsToLimbsAsCoded bits) = bitsValBE bits ∧ WF (bitsToLimbsAsCoded bits) := by
  unfold bitsToLimbsAsCoded
  obtain ⟨h1, h2⟩ := chunks_value bits.length bits.reverse (by simp)
  exact ⟨by rw [h1, bitsValBE_eq_bitsToNat_reverse], h2⟩

/-- the conversion of `mul_bits_be` BEFORE the repair (`dea047b`): the collected bits were chunked
    without being reversed, so the FIRST bit of the big-endian iterator became the least significant -/
def bitsToLimbsOld (bits : List Bool) : List Nat := (chunks 64 bits bits.length).map bitsToNat

/-- the old conversion computed the value of the *reversed* bit string -/
theorem bitsToLimbsOld_value (bits : List Bool) :
    value (bitsToLimbsOld bits) = bitsValBE bits.reverse := by
  unfold bitsToLimbsOld
  rw [(chunks_value bits.length bits (Nat.le_refl _)).1, bitsValBE_eq_bitsToNat_reverse,
    List.reverse_reverse]

theorem bitsToLimbsOld_witness :
    value (bitsToLimbsOld [true, false]) = 1 ∧ bitsValBE [true, false] = 2 ∧
    value (bitsToLimbsAsCoded [true, false]) = 2 := by decide

end bits

/-! ## `PairingOutput`: `mul_bigint`, `mul_bits_be`, `Neg`, `Sub`, `double_in_place` -/

section out
variable {P T : Type} [Field T] [DecidableEq T] {DT : FieldD P T} {C : CycD T}
  {L : TargetLawful DT C}

theorem outMulBitsBE_eq (CL : CycLawful L) {a : T} (ha : a ∈ CL.Cyc) (bits : List Bool) :
    outMulBitsBE C a bits = .ok (a ^ bitsValBE bits) := by
  unfold outMulBitsBE
  obtain ⟨h1, h2⟩ := bitsToLimbsAsCoded_spec bits
  rw [CL.cycExp_eq a ha _ h2, h1]

/-- `cyclotomic_exp` of `0` returns `0` — also when the exponent is `0` (where `0 ^ 0 = 1`) -/
theorem cycExp_zero' (C : CycD T) (e : List Nat) : cycExp C (0 : T) e = .ok 0 := cycExp_zero C e

theorem pow_mod_of_pow_eq_one {a : T} {r : ℕ} (har : a ^ r = 1) (n : ℕ) : a ^ n = a ^ (n % r) := by
  conv_lhs => rw [← Nat.div_add_mod n r, pow_add, pow_mul, har, one_pow, one_mul]

theorem pow_pow_eq_one {a : T} {r : ℕ} (har : a ^ r = 1) (n : ℕ) : (a ^ n) ^ r = 1 := by
  rw [← pow_mul, mul_comm, pow_mul, har, one_pow]

theorem outNeg_eq (L : TargetLawful DT C) (a : T) :
    outNeg C a = if a = 0 then .panic else .ok (L.conj a) := L.invUnwrap_cycInverse a

theorem outSub_eq (L : TargetLawful DT C) (a b : T) :
    outSub C a b = if b = 0 then .panic else .ok (a * L.conj b) := by
  unfold outSub
  rw [L.invUnwrap_cycInverse]
  by_cases hb : b = 0
  · simp [hb]
  · simp [hb]

theorem outNeg_cyc (CL : CycLawful L) {a : T} (ha : a ∈ CL.Cyc) : outNeg C a = .ok a⁻¹ := by
  rw [outNeg_eq L, if_neg (CL.ne_zero a ha), CL.conj_eq a ha]

theorem outSub_cyc (CL : CycLawful L) (a : T) {b : T} (hb : b ∈ CL.Cyc) :
    outSub C a b = .ok (a / b) := by
  rw [outSub_eq L, if_neg (CL.ne_zero b hb), CL.conj_eq b hb, div_eq_mul_inv]

theorem outDouble_cyc (CL : CycLawful L) {a : T} (ha : a ∈ CL.Cyc) : outDouble C a = a * a :=
  CL.cycSquare_eq a ha

end out

end Ark.PairingApi
