import Ark.Model.Serial
/-
  Ark.Proofs.Serial — helper lemmas for property C18 (containers / wrappers / derived
  serialisations of `ark-serialize`), about the executable model `Ark.Model.Serial`.

  Contents: induction principle on the nested type universe; derive = tuple (T10); pins / wrappers
  (T9); byte lemmas; `serialized_size` (T1); the normal form `lenHdr` of all length-prefixed
  readers; the safety invariant `Safe` of every run (T3, T6, T8); the order on values (T11);
  round trip / truncation (`RTT`, T2 + T4); canonicity (`CW`, T7); refusal of invalid values
  (`INV`, T2c); `vcheck` versus `check`; malformed input (T5).
  Core Lean only.
-/
namespace Ark.Serial

/-! ## Induction principle on the nested type universe -/

theorem Ty.ind {P : Ty → Prop} {Q : List Ty → Prop}
    (int : ∀ k, P (.int k)) (bool : P .bool) (phantom : P .phantom) (ml : P .ml)
    (opt : ∀ t, P t → P (.opt t)) (tup : ∀ ts, Q ts → P (.tup ts))
    (arr : ∀ n t, P t → P (.arr n t)) (vec : ∀ esz t, P t → P (.vec esz t))
    (deq : ∀ esz t, P t → P (.deq esz t)) (list : ∀ t, P t → P (.list t))
    (slice : ∀ t, P t → P (.slice t)) (str : P .str) (big : P .big)
    (map : ∀ k v, P k → P v → P (.map k v)) (set : ∀ t, P t → P (.set t))
    (wrap : ∀ w t, P t → P (.wrap w t)) (pin : ∀ p t, P t → P (.pin p t))
    (struct : ∀ fs, Q fs → P (.struct fs))
    (nil : Q []) (cons : ∀ t ts, P t → Q ts → Q (t :: ts)) : ∀ t, P t :=
  fun t => @Ty.rec P Q int bool phantom ml opt tup arr vec deq list slice str big map set wrap pin
    struct nil cons t

theorem Ty.indList {P : Ty → Prop} (h : ∀ t, P t) (Q : List Ty → Prop)
    (nil : Q []) (cons : ∀ t ts, P t → Q ts → Q (t :: ts)) : ∀ ts, Q ts := by
  intro ts; induction ts with
  | nil => exact nil
  | cons t ts ih => exact cons t ts (h t) ih

/-! ## T10: the derive macro's flattening is the tuple impl -/

theorem encodeFields_eq_aux : ∀ t : Ty,
    (∀ us, t = .tup us → ∀ c vs, encodeFields us c vs = encodeTup us c vs) := by
  apply Ty.ind (P := fun t => ∀ us, t = .tup us → ∀ c vs, encodeFields us c vs = encodeTup us c vs)
    (Q := fun ts => ∀ c vs, encodeFields ts c vs = encodeTup ts c vs)
  case tup => intro ts h us e; cases e; exact h
  case nil => intro c vs; cases vs <;> simp [encodeFields, encodeTup]
  case cons =>
    intro t ts hP hQ c vs
    cases vs with
    | nil => cases t <;> simp [encodeFields, encodeTup]
    | cons v vs =>
      cases t
      case tup us =>
        cases v <;> simp [encodeFields, encodeTup, encode, hQ, hP us rfl]
      all_goals simp [encodeFields, encodeTup, hQ]
  all_goals intros; simp_all

theorem encodeFields_eq (fs : List Ty) (c : Compress) (vs : List Val) :
    encodeFields fs c vs = encodeTup fs c vs :=
  encodeFields_eq_aux (.tup fs) fs rfl c vs

theorem sizeFields_eq_aux : ∀ t : Ty,
    (∀ us, t = .tup us → ∀ c vs, sizeFields us c vs = sizeTup us c vs) := by
  apply Ty.ind (P := fun t => ∀ us, t = .tup us → ∀ c vs, sizeFields us c vs = sizeTup us c vs)
    (Q := fun ts => ∀ c vs, sizeFields ts c vs = sizeTup ts c vs)
  case tup => intro ts h us e; cases e; exact h
  case nil => intro c vs; cases vs <;> simp [sizeFields, sizeTup]
  case cons =>
    intro t ts hP hQ c vs
    cases vs with
    | nil => cases t <;> simp [sizeFields, sizeTup]
    | cons v vs =>
      cases t
      case tup us =>
        cases v <;> simp [sizeFields, sizeTup, size, hQ, hP us rfl]
      all_goals simp [sizeFields, sizeTup, hQ]
  all_goals intros; simp_all

theorem sizeFields_eq (fs : List Ty) (c : Compress) (vs : List Val) :
    sizeFields fs c vs = sizeTup fs c vs :=
  sizeFields_eq_aux (.tup fs) fs rfl c vs

theorem checkFields_eq_aux : ∀ t : Ty,
    (∀ us, t = .tup us → ∀ vs, checkFields us vs = checkTup us vs) := by
  apply Ty.ind (P := fun t => ∀ us, t = .tup us → ∀ vs, checkFields us vs = checkTup us vs)
    (Q := fun ts => ∀ vs, checkFields ts vs = checkTup ts vs)
  case tup => intro ts h us e; cases e; exact h
  case nil => intro vs; cases vs <;> simp [checkFields, checkTup]
  case cons =>
    intro t ts hP hQ vs
    cases vs with
    | nil => cases t <;> simp [checkFields, checkTup]
    | cons v vs =>
      cases t
      case tup us =>
        cases v <;> simp [checkFields, checkTup, check, hQ, hP us rfl]
      all_goals simp [checkFields, checkTup, hQ]
  all_goals intros; simp_all

theorem checkFields_eq (fs : List Ty) (vs : List Val) :
    checkFields fs vs = checkTup fs vs :=
  checkFields_eq_aux (.tup fs) fs rfl vs

/-! ## The monad -/

def R.st {α} : R α → St
  | .ok _ s => s
  | .fail _ s => s

@[simp] theorem run_pure {α} (a : α) (s : St) : (pure a : M α) s = .ok a s := rfl
@[simp] theorem run_bind {α β} (m : M α) (k : α → M β) (s : St) :
    (m >>= k) s = match m s with
      | .ok a s' => k a s'
      | .fail f s' => .fail f s' := rfl
@[simp] theorem run_failM {α} (f : Fail) (s : St) : (failM f : M α) s = .fail f s := rfl

theorem M.ext {α} {m n : M α} (h : ∀ s, m s = n s) : m = n := funext h

theorem M.bind_assoc {α β γ} (m : M α) (f : α → M β) (g : β → M γ) :
    m >>= f >>= g = m >>= fun a => f a >>= g := by
  apply M.ext; intro s; simp only [run_bind]; cases m s <;> rfl

theorem M.pure_bind {α β} (a : α) (f : α → M β) : pure a >>= f = f a := rfl

theorem M.bind_pure {α} (m : M α) : m >>= pure = m := by
  apply M.ext; intro s; simp only [run_bind]; cases m s <;> rfl

theorem decodeFields_eq_aux (L : Limits) : ∀ t : Ty,
    (∀ us, t = .tup us → ∀ c v, decodeFields L us c v = decodeTup L us c v) := by
  apply Ty.ind (P := fun t => ∀ us, t = .tup us → ∀ c v, decodeFields L us c v = decodeTup L us c v)
    (Q := fun ts => ∀ c v, decodeFields L ts c v = decodeTup L ts c v)
  case tup => intro ts h us e; cases e; exact h
  case nil => intro c v; simp [decodeFields, decodeTup]
  case cons =>
    intro t ts hP hQ c v
    cases t
    case tup us =>
      simp only [decodeFields, decodeTup, decode, hQ, hP us rfl, M.bind_assoc, M.pure_bind]
    all_goals simp [decodeFields, decodeTup, hQ]
  all_goals intros; simp_all

theorem decodeFields_eq (L : Limits) (fs : List Ty) (c : Compress) (v : Validate) :
    decodeFields L fs c v = decodeTup L fs c v :=
  decodeFields_eq_aux L (.tup fs) fs rfl c v

/-! ### `struct` is `tup` everywhere -/

theorem encode_struct (fs c v) : encode (.struct fs) c v = encode (.tup fs) c v := by
  cases v <;> simp [encode, encodeFields_eq]
theorem size_struct (fs c v) : size (.struct fs) c v = size (.tup fs) c v := by
  cases v <;> simp [size, sizeFields_eq]
theorem check_struct (fs v) : check (.struct fs) v = check (.tup fs) v := by
  cases v <;> simp [check, checkFields_eq]
theorem decode_struct (L fs c v) : decode L (.struct fs) c v = decode L (.tup fs) c v := by
  simp [decode, decodeFields_eq]
theorem zeroWidth_struct (fs) : zeroWidth (.struct fs) = zeroWidth (.tup fs) := by
  simp [zeroWidth]
theorem canonical_struct (fs) : canonical (.struct fs) = canonical (.tup fs) := by
  simp [canonical]

/-! ## T9: pins fix the modes, wrappers are transparent -/

theorem encode_pin (p t c v) : encode (.pin p t) c v = encode t p.compress v := by simp [encode]
theorem size_pin (p t c v) : size (.pin p t) c v = size t p.compress v := by simp [size]
theorem decode_pin (L p t c vd) : decode L (.pin p t) c vd = decode L t p.compress p.validate := by
  simp [decode]
theorem check_pin (p t v) : check (.pin p t) v = check t v := by simp [check]
theorem encode_wrap (w t c v) : encode (.wrap w t) c v = encode t c v := by simp [encode]
theorem size_wrap (w t c v) : size (.wrap w t) c v = size t c v := by simp [size]
theorem decode_wrap (L w t c vd) : decode L (.wrap w t) c vd = decode L t c vd := by simp [decode]
theorem check_wrap (w t v) : check (.wrap w t) v = check t v := by simp [check]

/-! ## Little-endian bytes -/

@[simp] theorem leBytes_length (w n : Nat) : (leBytes w n).length = w := by
  induction w generalizing n with
  | zero => rfl
  | succ w ih => simp [leBytes, ih]

theorem leValue_leBytes (w n : Nat) (h : n < 256 ^ w) : leValue (leBytes w n) = n := by
  induction w generalizing n with
  | zero => simp at h; simp [leBytes, leValue, h]
  | succ w ih =>
    have h2 : n / 256 < 256 ^ w := by
      rw [Nat.div_lt_iff_lt_mul (by decide)]; rw [Nat.pow_succ] at h; exact h
    simp only [leBytes, leValue, ih _ h2]; omega

theorem leBytes_lt (w n : Nat) : ∀ b ∈ leBytes w n, b < 256 := by
  induction w generalizing n with
  | zero => simp [leBytes]
  | succ w ih =>
    intro b hb; simp only [leBytes, List.mem_cons] at hb
    rcases hb with rfl | hb
    · omega
    · exact ih _ b hb

theorem leValue_lt (bs : List Nat) (h : ∀ b ∈ bs, b < 256) : leValue bs < 256 ^ bs.length := by
  induction bs with
  | nil => simp [leValue]
  | cons b bs ih =>
    have h1 := h b (by simp)
    have h2 := ih (fun x hx => h x (by simp [hx]))
    simp only [leValue, List.length_cons, Nat.pow_succ]; omega

theorem leBytes_leValue (bs : List Nat) (h : ∀ b ∈ bs, b < 256) :
    leBytes bs.length (leValue bs) = bs := by
  induction bs with
  | nil => rfl
  | cons b bs ih =>
    have h1 := h b (by simp)
    have h2 := ih (fun x hx => h x (by simp [hx]))
    simp only [List.length_cons, leBytes, leValue]
    have e1 : (b + 256 * leValue bs) % 256 = b := by omega
    have e2 : (b + 256 * leValue bs) / 256 = leValue bs := by omega
    rw [e1, e2, h2]

@[simp] theorem leValue_single (b : Nat) : leValue [b] = b := by simp [leValue]

/-! ## Primitive readers on concrete states -/

theorem readExact_append (n : Nat) (bs rest : List Nat) (e : List Ev) (h : bs.length = n) :
    readExact n ⟨bs ++ rest, e⟩ = .ok bs ⟨rest, e⟩ := by
  subst h; simp [readExact]

theorem readExact_short (n : Nat) (s : St) (h : s.inp.length < n) :
    readExact n s = .fail (.err .io) s := by
  simp [readExact, h]

theorem decU_append (w : Nat) (bs rest : List Nat) (e : List Ev) (h : bs.length = w) :
    decU w ⟨bs ++ rest, e⟩ = .ok (leValue bs) ⟨rest, e⟩ := by
  simp [decU, readExact_append w bs rest e h]

theorem decU_short (w : Nat) (s : St) (h : s.inp.length < w) :
    decU w s = .fail (.err .io) s := by
  simp [decU, readExact_short w s h]

theorem decU1_cons (b : Nat) (rest : List Nat) (e : List Ev) :
    decU 1 ⟨b :: rest, e⟩ = .ok b ⟨rest, e⟩ := by
  simpa using decU_append 1 [b] rest e rfl

theorem decBool_cons (b : Nat) (rest : List Nat) (e : List Ev) :
    decBool ⟨b :: rest, e⟩ =
      if b = 0 then .ok false ⟨rest, e⟩ else if b = 1 then .ok true ⟨rest, e⟩
      else .fail (.err .invalid) ⟨rest, e⟩ := by
  simp only [decBool, run_bind, decU1_cons]
  split
  · rfl
  · split <;> rfl

theorem decBool_nil (e : List Ev) : decBool ⟨[], e⟩ = .fail (.err .io) ⟨[], e⟩ := by
  simp [decBool, decU_short 1 ⟨[], e⟩ (by simp)]

/-- reading `n` single bytes -/
theorem repeat_decU1 (bs rest : List Nat) (e : List Ev) :
    repeatM (decU 1) bs.length ⟨bs ++ rest, e⟩ = .ok bs ⟨rest, e⟩ := by
  induction bs with
  | nil => rfl
  | cons b bs ih =>
    simp only [List.length_cons, repeatM, List.cons_append, run_bind, decU1_cons, ih, run_pure]

/-! ## Allocation -/

def usedEv (e : List Ev) : Nat := e.foldl (fun a e => a + e.bytes) 0

theorem St.used_eq (s : St) : s.used = usedEv s.evs := rfl

theorem foldl_bytes (e : List Ev) (a : Nat) :
    e.foldl (fun a e => a + e.bytes) a = a + usedEv e := by
  unfold usedEv
  induction e generalizing a with
  | nil => simp
  | cons x xs ih => simp only [List.foldl_cons]; rw [ih, ih (0 + x.bytes)]; omega

theorem usedEv_append (e f : List Ev) : usedEv (e ++ f) = usedEv e + usedEv f := by
  unfold usedEv; rw [List.foldl_append, foldl_bytes]; rfl

@[simp] theorem usedEv_nil : usedEv [] = 0 := rfl
@[simp] theorem usedEv_single (x : Ev) : usedEv [x] = x.bytes := by simp [usedEv]

/-- the lemma of T3: a capped pre-allocation is at most `MAX_PREALLOCATION_BYTES` -/
theorem cappedCapacity_mul_le (esz len : Nat) : cappedCapacity esz len * esz ≤ 4096 := by
  unfold cappedCapacity maxPrealloc
  rcases Nat.eq_zero_or_pos esz with h | h
  · subst h; simp
  · have h1 : max esz 1 = esz := by omega
    rw [h1]
    have h2 : 4096 / esz * esz ≤ 4096 := Nat.div_mul_le_self 4096 esz
    have h3 : min len (4096 / esz) * esz ≤ 4096 / esz * esz :=
      Nat.mul_le_mul_right _ (Nat.min_le_right _ _)
    omega

theorem cappedCapacity_le (esz len : Nat) : cappedCapacity esz len ≤ len := by
  unfold cappedCapacity; exact Nat.min_le_left _ _

theorem withCapacity_ok (L : Limits) (esz len : Nat) (s : St)
    (h : s.used + 4096 ≤ L.mem) :
    withCapacity L (cappedCapacity esz len) esz s =
      .ok () ⟨s.inp, s.evs ++ [⟨cappedCapacity esz len, esz, s.inp.length⟩]⟩ := by
  have h1 := cappedCapacity_mul_le esz len
  unfold withCapacity
  simp only
  split
  · rfl
  · rw [if_neg (by unfold isizeMax; omega), if_neg (by omega)]

/-! ## T1: `serialized_size` = bytes written -/

theorem concatMapM_length {f : Val → Option (List Nat)} {g : Val → Nat}
    (h : ∀ v b, f v = some b → g v = b.length) :
    ∀ vs bs, concatMapM f vs = some bs → sumMap g vs = bs.length := by
  intro vs
  induction vs with
  | nil => intro bs e; simp [concatMapM] at e; subst e; simp [sumMap]
  | cons v vs ih =>
    intro bs e
    simp only [concatMapM] at e
    cases hv : f v with
    | none => simp [hv] at e
    | some a =>
      cases hvs : concatMapM f vs with
      | none => simp [hv, hvs] at e
      | some b =>
        simp only [hv, hvs, Option.some.injEq] at e
        subst e
        simp [sumMap, h v a hv, ih b hvs]

theorem encSeq_length {f : Val → Option (List Nat)} {g : Val → Nat}
    (h : ∀ v b, f v = some b → g v = b.length) (vs bs) (e : encSeq f vs = some bs) :
    8 + sumMap g vs = bs.length := by
  unfold encSeq at e
  cases hc : concatMapM f vs with
  | none => simp [hc] at e
  | some b =>
    simp only [hc, Option.map_some, Option.some.injEq] at e
    subst e
    simp [concatMapM_length h vs b hc]

theorem IntTy.enc_length (k : IntTy) (i : Int) (bs) (e : k.enc i = some bs) : bs.length = k.width := by
  unfold IntTy.enc at e
  simp only at e
  split at e <;> split at e <;> simp at e <;> subst e <;> simp

theorem size_eq_length : ∀ t c v bs, encode t c v = some bs → size t c v = bs.length := by
  apply Ty.ind (P := fun t => ∀ c v bs, encode t c v = some bs → size t c v = bs.length)
    (Q := fun ts => ∀ c vs bs, encodeTup ts c vs = some bs → sizeTup ts c vs = bs.length)
  case int =>
    intro k c v bs e; cases v <;> simp [encode] at e
    simp [size, IntTy.enc_length k _ bs e]
  case bool => intro c v bs e; cases v <;> simp [encode] at e; subst e; simp [size]
  case phantom =>
    intro c v bs e
    cases v with
    | seq vs => cases vs <;> simp [encode] at e; subst e; simp [size]
    | _ => simp [encode] at e
  case ml =>
    intro c v bs e; cases v <;> simp [encode] at e
    cases c <;> simp at e <;> simp [size, ← e.2]
  case opt =>
    intro t ih c v bs e; cases v <;> simp [encode] at e
    · subst e; simp [size]
    · obtain ⟨b, hb, rfl⟩ := e; simp [size, ih c _ b hb]; omega
  case tup => intro ts ih c v bs e; cases v <;> simp [encode] at e; simp [size, ih c _ bs e]
  case arr =>
    intro n t ih c v bs e; cases v <;> simp [encode] at e
    simp only [size]; exact concatMapM_length (fun v b h => ih c v b h) _ _ e.2
  case vec =>
    intro esz t ih c v bs e; cases v <;> simp [encode] at e
    simp only [size]; exact encSeq_length (fun v b h => ih c v b h) _ _ e
  case deq =>
    intro esz t ih c v bs e; cases v <;> simp [encode] at e
    simp only [size]; exact encSeq_length (fun v b h => ih c v b h) _ _ e
  case list =>
    intro t ih c v bs e; cases v <;> simp [encode] at e
    simp only [size]; exact encSeq_length (fun v b h => ih c v b h) _ _ e
  case slice =>
    intro t ih c v bs e; cases v <;> simp [encode] at e
    simp only [size]; exact encSeq_length (fun v b h => ih c v b h) _ _ e
  case set =>
    intro t ih c v bs e; cases v <;> simp [encode] at e
    simp only [size]; exact encSeq_length (fun v b h => ih c v b h) _ _ e.2
  case str =>
    intro c v bs e; cases v <;> simp [encode] at e
    obtain ⟨_, rfl⟩ := e; simp [size]
  case big =>
    intro c v bs e; cases v <;> simp [encode] at e
    obtain ⟨_, rfl⟩ := e; simp [size]
  case map =>
    intro k v ihk ihv c x bs e; cases x <;> simp [encode] at e
    obtain ⟨_, b, hb, rfl⟩ := e
    simp only [size, List.length_append, leBytes_length]
    congr 1
    refine concatMapM_length ?_ _ _ hb
    intro e b he
    split at he
    · rename_i a b'
      cases ha : encode k c a with
      | none => simp [ha] at he
      | some x =>
        cases hb' : encode v c b' with
        | none => simp [ha, hb'] at he
        | some y =>
          simp only [ha, hb', Option.some.injEq] at he; subst he
          simp [ihk c a x ha, ihv c b' y hb']
    · simp at he
  case wrap => intro w t ih c v bs e; rw [encode_wrap] at e; rw [size_wrap]; exact ih c v bs e
  case pin => intro p t ih c v bs e; rw [encode_pin] at e; rw [size_pin]; exact ih _ v bs e
  case struct =>
    intro ts ih c v bs e; rw [encode_struct] at e; rw [size_struct]
    cases v <;> simp [encode] at e; simp [size, ih c _ bs e]
  case nil => intro c vs bs e; cases vs <;> simp [encodeTup] at e; subst e; simp [sizeTup]
  case cons =>
    intro t ts iht ihts c vs bs e
    cases vs with
    | nil => simp [encodeTup] at e
    | cons v vs =>
      simp only [encodeTup] at e
      cases hv : encode t c v with
      | none => simp [hv] at e
      | some a =>
        cases hvs : encodeTup ts c vs with
        | none => simp [hv, hvs] at e
        | some b =>
          simp only [hv, hvs, Option.some.injEq] at e; subst e
          simp [sizeTup, iht c v a hv, ihts c vs b hvs]

/-! ## Normal form of the length-prefixed readers -/

/-- optional capped pre-allocation -/
def capM (L : Limits) (cap : Option Nat) (len : Nat) : M Unit :=
  match cap with
  | some esz => withCapacity L (cappedCapacity esz len) esz
  | none => pure ()

/-- common shape of `Vec` / `VecDeque` / `LinkedList` / slice / map / set / `Vec<u8>` readers:
    length prefix, optional `try_into` check, optional capped pre-allocation, element loop,
    continuation -/
def lenHdr {α β} (L : Limits) (chk : Bool) (cap : Option Nat) (zw : Bool) (f : M α)
    (k : List α → M β) : M β := fun s =>
  match decU 8 s with
  | .fail e s' => .fail e s'
  | .ok len s1 =>
    if chk = true ∧ len ≥ 2 ^ 64 then .fail (.err .notenough) s1
    else
      match capM L cap len s1 with
      | .fail e s' => .fail e s'
      | .ok _ s2 =>
        if zw = true ∧ len > L.steps then .fail .hang s2
        else
          match repeatM f len s2 with
          | .fail e s' => .fail e s'
          | .ok vs s3 => k vs s3

def seqK (t : Ty) (v : Validate) (vs : List Val) : M Val := do
  batchM v (vs.all (fun x => check t x))
  pure (.seq vs)

theorem lenHdr_eq {α β} (L : Limits) (chk : Bool) (cap : Option Nat) (zw : Bool) (f : M α)
    (k : List α → M β) :
    lenHdr L chk cap zw f k = (decU 8 >>= fun len =>
      if chk = true ∧ len ≥ 2 ^ 64 then failM (.err .notenough)
      else (match cap with
            | some esz => withCapacity L (cappedCapacity esz len) esz
            | none => pure ()) >>= fun _ =>
           (if zw && len > L.steps then failM .hang else repeatM f len) >>= k) := by
  apply M.ext; intro s
  simp only [lenHdr, run_bind]
  cases decU 8 s with
  | fail e s' => rfl
  | ok len s1 =>
    simp only
    by_cases h : chk = true ∧ len ≥ 2 ^ 64
    · simp only [h, and_self, if_true, run_failM]
    · simp only [h, if_false, run_bind]
      have e1 : (match cap with
            | some esz => withCapacity L (cappedCapacity esz len) esz
            | none => pure ()) s1 = capM L cap len s1 := by cases cap <;> rfl
      rw [e1]
      cases capM L cap len s1 with
      | fail e s' => rfl
      | ok u s2 =>
        simp only
        by_cases h2 : zw = true ∧ len > L.steps
        · have : (zw && decide (len > L.steps)) = true := by simp [h2]
          rw [if_pos h2, if_pos this]; rfl
        · have : ¬ (zw && decide (len > L.steps)) = true := by simpa using h2
          rw [if_neg h2, if_neg this]; cases repeatM f len s2 <;> rfl

theorem decode_vec (L esz t c v) : decode L (.vec esz t) c v =
    lenHdr L true (some esz) (zeroWidth t) (decode L t c .no) (seqK t v) := by
  rw [lenHdr_eq]; simp only [decode, loopM, true_and]; rfl

theorem decode_deq (L esz t c v) : decode L (.deq esz t) c v =
    lenHdr L true (some esz) (zeroWidth t) (decode L t c .no) (seqK t v) := by
  rw [lenHdr_eq]; simp only [decode, loopM, true_and]; rfl

theorem decode_list (L t c v) : decode L (.list t) c v =
    lenHdr L true none (zeroWidth t) (decode L t c .no) (seqK t v) := by
  rw [lenHdr_eq]; simp only [decode, loopM, true_and]; rfl

theorem decode_slice (L t c v) : decode L (.slice t) c v =
    lenHdr L false none (zeroWidth t) (decode L t c .no) (seqK t v) := by
  rw [lenHdr_eq]; simp only [decode, loopM]; rfl

def entryM (L : Limits) (k vt : Ty) (c : Compress) (v : Validate) : M Val := do
  let a ← decode L k c v
  let b ← decode L vt c v
  pure (.seq [a, b])

theorem decode_map (L k vt c v) : decode L (.map k vt) c v =
    lenHdr L false none (zeroWidth k && zeroWidth vt) (entryM L k vt c v)
      (fun es => pure (.seq (fromIter entryKey es))) := by
  rw [lenHdr_eq]; simp only [decode, loopM, entryM]; rfl

theorem decode_set (L t c v) : decode L (.set t) c v =
    lenHdr L false none (zeroWidth t) (decode L t c v)
      (fun es => pure (.seq (fromIter id es))) := by
  rw [lenHdr_eq]; simp only [decode, loopM]; rfl

theorem decVecU8_eq (L) : decVecU8 L = lenHdr L true (some 1) false (decU 1) pure := by
  rw [lenHdr_eq]; simp only [decVecU8, true_and, Bool.false_and, M.bind_pure]
  congr 1


/-! ## Safety invariant of every run: T3, T6, T8 -/

/-- an allocation event is small and is caused by a length prefix at least as large, located in the
    input immediately before the `rem` bytes that were still unread -/
def EvOK (inp : List Nat) (ev : Ev) : Prop :=
  ev.n * ev.esz ≤ 4096 ∧
  ∃ pre l8 post, inp = pre ++ l8 ++ post ∧ l8.length = 8 ∧ post.length = ev.rem ∧ ev.n ≤ leValue l8

/-- the length prefix just before the unread input `inp'` exceeds `L.steps` -/
def HW (L : Limits) (inp inp' : List Nat) : Prop :=
  ∃ pre l8, inp = pre ++ l8 ++ inp' ∧ l8.length = 8 ∧ L.steps < leValue l8

theorem EvOK.mono {inp : List Nat} {ev : Ev} (p : List Nat) (h : EvOK inp ev) : EvOK (p ++ inp) ev := by
  obtain ⟨h1, pre, l8, post, e, h2, h3, h4⟩ := h
  exact ⟨h1, p ++ pre, l8, post, by simp [e], h2, h3, h4⟩

theorem HW.mono {L : Limits} {inp inp' : List Nat} (p : List Nat) (h : HW L inp inp') :
    HW L (p ++ inp) inp' := by
  obtain ⟨pre, l8, e, h2, h3⟩ := h
  exact ⟨p ++ pre, l8, by simp [e], h2, h3⟩

structure Step (s s' : St) : Prop where
  suf : ∃ pre, s.inp = pre ++ s'.inp
  evs : ∃ evs, s'.evs = s.evs ++ evs ∧ ∀ ev ∈ evs, EvOK s.inp ev
  pot : s'.used + 512 * s'.inp.length ≤ s.used + 512 * s.inp.length

theorem Step.refl (s : St) : Step s s :=
  ⟨⟨[], rfl⟩, ⟨[], by simp⟩, Nat.le_refl _⟩

theorem Step.trans {s s1 s2 : St} (h1 : Step s s1) (h2 : Step s1 s2) : Step s s2 := by
  obtain ⟨⟨p1, e1⟩, ⟨ev1, f1, g1⟩, q1⟩ := h1
  obtain ⟨⟨p2, e2⟩, ⟨ev2, f2, g2⟩, q2⟩ := h2
  refine ⟨⟨p1 ++ p2, by rw [e1, e2]; simp⟩, ⟨ev1 ++ ev2, by rw [f2, f1]; simp, ?_⟩, by omega⟩
  intro ev hev
  rcases List.mem_append.1 hev with h | h
  · exact g1 ev h
  · rw [e1]; exact (g2 ev h).mono p1

def FailOK (L : Limits) (Z : Prop) (s : St) (f : Fail) (s' : St) : Prop :=
  f ≠ .panic ∧ (f = .abort → L.mem < s.used + 512 * s.inp.length) ∧
  (f = .hang → Z ∧ HW L s.inp s'.inp)

theorem FailOK.step {L Z s s1 f s'} (h1 : Step s s1) (h : FailOK L Z s1 f s') : FailOK L Z s f s' := by
  obtain ⟨a, b, c⟩ := h
  refine ⟨a, fun e => Nat.lt_of_lt_of_le (b e) h1.pot, fun e => ⟨(c e).1, ?_⟩⟩
  obtain ⟨p, hp⟩ := h1.suf
  rw [hp]; exact (c e).2.mono p

theorem FailOK.err {L Z s e s'} : FailOK L Z s (.err e) s' :=
  ⟨by simp, by simp, by simp⟩

/-- `m` consumes a prefix of the input, only appends small allocation events caused by length
    prefixes, never panics, aborts only when the memory limit is below `used + 512·|input|`, and
    hangs only (if `Z`) on a length prefix above `L.steps` -/
def Safe {α} (L : Limits) (Z : Prop) (m : M α) : Prop :=
  ∀ s, Step s (m s).st ∧ ∀ f s', m s = .fail f s' → FailOK L Z s f s'

theorem Safe.mono {α} {L : Limits} {Z Z' : Prop} {m : M α} (hz : Z → Z') (h : Safe L Z m) :
    Safe L Z' m := by
  intro s; refine ⟨(h s).1, fun f s' e => ?_⟩
  obtain ⟨a, b, c⟩ := (h s).2 f s' e
  exact ⟨a, b, fun e => ⟨hz (c e).1, (c e).2⟩⟩

theorem Safe.pure {α} {L Z} (a : α) : Safe L Z (pure a : M α) := by
  intro s; exact ⟨Step.refl s, fun f s' e => by simp at e⟩

theorem Safe.failErr {α} {L Z} (e : Err) : Safe L Z (failM (.err e) : M α) := by
  intro s; refine ⟨Step.refl s, fun f s' h => ?_⟩
  simp only [run_failM, R.fail.injEq] at h; rw [← h.1]; exact FailOK.err

theorem Safe.bind {α β} {L Z} {m : M α} {k : α → M β} (hm : Safe L Z m) (hk : ∀ a, Safe L Z (k a)) :
    Safe L Z (m >>= k) := by
  intro s
  have h1 := hm s
  simp only [run_bind]
  cases hms : m s with
  | fail f s1 =>
    rw [hms] at h1
    exact ⟨h1.1, fun f' s' e => by cases e; exact h1.2 _ _ rfl⟩
  | ok a s1 =>
    rw [hms] at h1
    have h2 := hk a s1
    exact ⟨h1.1.trans h2.1, fun f s' e => (h2.2 f s' e).step h1.1⟩

theorem Safe.ite {α} {L Z} {c : Prop} [Decidable c] {m n : M α} (hm : Safe L Z m) (hn : Safe L Z n) :
    Safe L Z (if c then m else n) := by
  split <;> assumption

theorem Safe.readExact {L Z} (n : Nat) : Safe L Z (readExact n) := by
  intro s
  unfold Ark.Serial.readExact
  split
  · exact ⟨Step.refl s, fun f s' e => by cases e; exact FailOK.err⟩
  · refine ⟨⟨⟨s.inp.take n, by simp [R.st]⟩, ⟨[], by simp [R.st]⟩, ?_⟩, fun f s' e => by simp at e⟩
    simp only [R.st, St.used, List.length_drop]; omega

theorem Safe.decU {L Z} (w : Nat) : Safe L Z (decU w) :=
  Safe.bind (Safe.readExact w) (fun _ => Safe.pure _)

theorem Safe.decBool {L Z} : Safe L Z decBool := by
  unfold Ark.Serial.decBool
  refine Safe.bind (Safe.decU 1) (fun b => ?_)
  exact Safe.ite (Safe.pure _) (Safe.ite (Safe.pure _) (Safe.failErr _))

theorem Safe.decMl {L Z} (c : Compress) (v : Validate) : Safe L Z (decMl c v) := by
  unfold Ark.Serial.decMl
  have hj : ∀ x : Nat, Safe L Z (if (decide (v = Validate.yes) && x == 238) = true
      then failM (Fail.err Err.invalid) else Pure.pure (Val.int ↑x) : M Val) :=
    fun x => Safe.ite (Safe.failErr _) (Safe.pure _)
  cases c
  · exact Safe.bind (Safe.decU 1) hj
  · refine Safe.bind (Safe.readExact 2) (fun bs => ?_)
    split
    · split
      · exact Safe.bind (Safe.pure _) hj
      · exact Safe.bind (Safe.failErr _) hj
    · exact Safe.bind (Safe.failErr _) hj

theorem Safe.batchM {L Z} (v : Validate) (ok : Bool) : Safe L Z (batchM v ok) := by
  unfold Ark.Serial.batchM
  exact Safe.ite (Safe.failErr _) (Safe.pure _)

theorem Safe.repeatM {α} {L Z} {f : M α} (hf : Safe L Z f) (n : Nat) : Safe L Z (repeatM f n) := by
  induction n with
  | zero => exact Safe.pure _
  | succ n ih => exact Safe.bind hf (fun _ => Safe.bind ih (fun _ => Safe.pure _))

theorem Safe.seqK {L Z} (t : Ty) (v : Validate) (vs : List Val) : Safe L Z (seqK t v vs) :=
  Safe.bind (Safe.batchM _ _) (fun _ => Safe.pure _)

/-- the allocation step right after an 8-byte length prefix `l8` -/
theorem capM_spec (L : Limits) (Z : Prop) (cap : Option Nat) (l8 rest : List Nat) (e : List Ev)
    (hl8 : l8.length = 8) :
    ∃ ev2, (capM L cap (leValue l8) ⟨rest, e⟩).st = ⟨rest, e ++ ev2⟩ ∧
      Step ⟨l8 ++ rest, e⟩ ⟨rest, e ++ ev2⟩ ∧
      ∀ f s', capM L cap (leValue l8) ⟨rest, e⟩ = .fail f s' → FailOK L Z ⟨l8 ++ rest, e⟩ f s' := by
  have st1 : Step ⟨l8 ++ rest, e⟩ ⟨rest, e⟩ :=
    ⟨⟨l8, rfl⟩, ⟨[], by simp⟩, by simp [St.used]; omega⟩
  cases cap with
  | none => exact ⟨[], by simp [R.st, capM], by simpa using st1, fun f s' h => by simp [capM] at h⟩
  | some esz =>
    have hc := cappedCapacity_mul_le esz (leValue l8)
    have hev : EvOK (l8 ++ rest) ⟨cappedCapacity esz (leValue l8), esz, rest.length⟩ :=
      ⟨hc, [], l8, rest, by simp, hl8, rfl, cappedCapacity_le _ _⟩
    have st2 : Step ⟨l8 ++ rest, e⟩
        ⟨rest, e ++ [⟨cappedCapacity esz (leValue l8), esz, rest.length⟩]⟩ := by
      refine ⟨⟨l8, rfl⟩, ⟨_, rfl, ?_⟩, ?_⟩
      · intro ev hev'; simp only [List.mem_singleton] at hev'; subst hev'; exact hev
      · simp only [St.used_eq, usedEv_append, usedEv_single, Ev.bytes, List.length_append]
        omega
    refine ⟨[⟨cappedCapacity esz (leValue l8), esz, rest.length⟩], ?_, st2, ?_⟩
    · unfold capM withCapacity; simp only; split
      · rfl
      · split
        · rfl
        · split <;> rfl
    · intro f s' h
      unfold capM withCapacity at h
      simp only at h
      split at h
      · simp at h
      · rw [if_neg (by unfold isizeMax; omega)] at h
        split at h
        · rename_i hmem
          simp only [R.fail.injEq] at h
          rw [← h.1]
          refine ⟨by simp, fun _ => ?_, by simp⟩
          simp only [St.used_eq, List.length_append] at hmem ⊢
          omega
        · simp at h

/-- length prefix followed by an optional capped pre-allocation -/
theorem Safe.lenHdr {α β} {L : Limits} {Z : Prop} (chk : Bool) (cap : Option Nat) (zw : Bool) {f : M α}
    {k : List α → M β} (hz : zw = true → Z) (hf : Safe L Z f) (hk : ∀ vs, Safe L Z (k vs)) :
    Safe L Z (lenHdr L chk cap zw f k) := by
  intro s
  unfold Ark.Serial.lenHdr
  by_cases hlen : s.inp.length < 8
  · rw [decU_short 8 s hlen]
    exact ⟨Step.refl s, fun f s' e => by cases e; exact FailOK.err⟩
  · obtain ⟨inp, e⟩ := s
    simp only at hlen
    obtain ⟨l8, rest, hi, hl8⟩ : ∃ l8 rest, inp = l8 ++ rest ∧ l8.length = 8 :=
      ⟨inp.take 8, inp.drop 8, by simp, by simp; omega⟩
    subst hi
    rw [decU_append 8 l8 rest e hl8]
    simp only
    have st1 : Step ⟨l8 ++ rest, e⟩ ⟨rest, e⟩ :=
      ⟨⟨l8, rfl⟩, ⟨[], by simp⟩, by simp [St.used]; omega⟩
    split
    · exact ⟨st1, fun f s' e => by cases e; exact FailOK.err⟩
    · obtain ⟨ev2, hst, st2, hfail⟩ := capM_spec L Z cap l8 rest e hl8
      cases hcap : capM L cap (leValue l8) ⟨rest, e⟩ with
      | fail f s' =>
        rw [hcap] at hst
        simp only [R.st] at hst
        simp only
        exact ⟨by simp only [R.st]; rw [hst]; exact st2, fun f' s'' h => by cases h; exact hfail _ _ hcap⟩
      | ok u s2 =>
        rw [hcap] at hst
        simp only [R.st] at hst
        subst hst
        simp only
        split
        · rename_i hh
          refine ⟨st2, fun f s' h => ?_⟩
          cases h
          exact ⟨by simp, by simp, fun _ => ⟨hz hh.1, [], l8, by simp, hl8, hh.2⟩⟩
        · have h3 := (Safe.bind (Safe.repeatM hf (leValue l8)) hk) ⟨rest, e ++ ev2⟩
          simp only [run_bind] at h3
          cases hr : Ark.Serial.repeatM f (leValue l8) ⟨rest, e ++ ev2⟩ with
          | fail f' s' =>
            rw [hr] at h3
            exact ⟨st2.trans h3.1, fun f s' h => (h3.2 f s' h).step st2⟩
          | ok vs s3 =>
            rw [hr] at h3
            exact ⟨st2.trans h3.1, fun f s' h => (h3.2 f s' h).step st2⟩

mutual
/-- the type contains a length-prefixed container of zero-width elements -/
def zwLoop : Ty → Bool
  | .opt t => zwLoop t
  | .tup ts => zwLoopAny ts
  | .arr _ t => zwLoop t
  | .vec _ t => zeroWidth t || zwLoop t
  | .deq _ t => zeroWidth t || zwLoop t
  | .list t => zeroWidth t || zwLoop t
  | .slice t => zeroWidth t || zwLoop t
  | .set t => zeroWidth t || zwLoop t
  | .map k v => (zeroWidth k && zeroWidth v) || zwLoop k || zwLoop v
  | .wrap _ t => zwLoop t
  | .pin _ t => zwLoop t
  | .struct fs => zwLoopAny fs
  | _ => false
def zwLoopAny : List Ty → Bool
  | [] => false
  | t :: ts => zwLoop t || zwLoopAny ts
end

theorem Safe.decVecU8 {L Z} : Safe L Z (decVecU8 L) := by
  rw [decVecU8_eq]
  exact Safe.lenHdr _ _ _ (by simp) (Safe.decU 1) (fun _ => Safe.pure _)

theorem safe_decode (L : Limits) : ∀ t c vd, Safe L (zwLoop t = true) (decode L t c vd) := by
  apply Ty.ind (P := fun t => ∀ c vd, Safe L (zwLoop t = true) (decode L t c vd))
    (Q := fun ts => ∀ c vd, Safe L (zwLoopAny ts = true) (decodeTup L ts c vd))
  case int => intro k c vd; simp only [decode]; exact Safe.bind (Safe.readExact _) (fun _ => Safe.pure _)
  case bool => intro c vd; simp only [decode]; exact Safe.bind Safe.decBool (fun _ => Safe.pure _)
  case phantom => intro c vd; simp only [decode]; exact Safe.pure _
  case ml => intro c vd; simp only [decode]; exact Safe.decMl c vd
  case opt =>
    intro t ih c vd; simp only [decode]
    refine Safe.bind Safe.decBool (fun b => ?_)
    cases b
    · exact Safe.pure _
    · exact Safe.bind ((ih c vd).mono (by simp [zwLoop])) (fun _ => Safe.pure _)
  case tup =>
    intro ts ih c vd; simp only [decode]
    exact Safe.bind ((ih c vd).mono (by simp [zwLoop])) (fun _ => Safe.pure _)
  case arr =>
    intro n t ih c vd; simp only [decode]
    exact Safe.bind (Safe.repeatM ((ih c .no).mono (by simp [zwLoop])) n)
      (fun _ => Safe.bind (Safe.batchM _ _) (fun _ => Safe.pure _))
  case vec =>
    intro esz t ih c vd; rw [decode_vec]
    exact Safe.lenHdr _ _ _ (by simp +contextual [zwLoop])
      ((ih c .no).mono (by simp +contextual [zwLoop])) (fun _ => Safe.seqK _ _ _)
  case deq =>
    intro esz t ih c vd; rw [decode_deq]
    exact Safe.lenHdr _ _ _ (by simp +contextual [zwLoop])
      ((ih c .no).mono (by simp +contextual [zwLoop])) (fun _ => Safe.seqK _ _ _)
  case list =>
    intro t ih c vd; rw [decode_list]
    exact Safe.lenHdr _ _ _ (by simp +contextual [zwLoop])
      ((ih c .no).mono (by simp +contextual [zwLoop])) (fun _ => Safe.seqK _ _ _)
  case slice =>
    intro t ih c vd; rw [decode_slice]
    exact Safe.lenHdr _ _ _ (by simp +contextual [zwLoop])
      ((ih c .no).mono (by simp +contextual [zwLoop])) (fun _ => Safe.seqK _ _ _)
  case str =>
    intro c vd; simp only [decode]
    exact Safe.bind Safe.decVecU8 (fun _ => Safe.ite (Safe.pure _) (Safe.failErr _))
  case big =>
    intro c vd; simp only [decode]
    exact Safe.bind Safe.decVecU8 (fun _ => Safe.pure _)
  case map =>
    intro k v ihk ihv c vd; rw [decode_map]
    refine Safe.lenHdr _ _ _ (by simp +contextual [zwLoop]) ?_ (fun _ => Safe.pure _)
    exact Safe.bind ((ihk c vd).mono (by simp +contextual [zwLoop]))
      (fun _ => Safe.bind ((ihv c vd).mono (by simp +contextual [zwLoop])) (fun _ => Safe.pure _))
  case set =>
    intro t ih c vd; rw [decode_set]
    exact Safe.lenHdr _ _ _ (by simp +contextual [zwLoop])
      ((ih c vd).mono (by simp +contextual [zwLoop])) (fun _ => Safe.pure _)
  case wrap => intro w t ih c vd; rw [decode_wrap]; exact (ih c vd).mono (by simp [zwLoop])
  case pin => intro p t ih c vd; rw [decode_pin]; exact (ih _ _).mono (by simp [zwLoop])
  case struct =>
    intro ts ih c vd; rw [decode_struct]; simp only [decode]
    exact Safe.bind ((ih c vd).mono (by simp [zwLoop])) (fun _ => Safe.pure _)
  case nil => intro c vd; simp only [decodeTup]; exact Safe.pure _
  case cons =>
    intro t ts iht ihts c vd; simp only [decodeTup]
    exact Safe.bind ((iht c vd).mono (by simp +contextual [zwLoopAny]))
      (fun _ => Safe.bind ((ihts c vd).mono (by simp +contextual [zwLoopAny])) (fun _ => Safe.pure _))

/-! ## T11: the order on values -/

theorem Val.ind {P : Val → Prop} {Q : List Val → Prop}
    (int : ∀ i, P (.int i)) (bool : ∀ b, P (.bool b)) (bytes : ∀ bs, P (.bytes bs))
    (none : P .none) (some : ∀ v, P v → P (.some v)) (seq : ∀ vs, Q vs → P (.seq vs))
    (nil : Q []) (cons : ∀ v vs, P v → Q vs → Q (v :: vs)) : ∀ v, P v :=
  fun v => @Val.rec P Q int bool bytes none some seq nil cons v

def oswap : Ordering → Ordering
  | .lt => .gt | .eq => .eq | .gt => .lt

theorem cmpNats_swap : ∀ a b, cmpNats b a = oswap (cmpNats a b) := by
  intro a
  induction a with
  | nil => intro b; cases b <;> simp [cmpNats, oswap]
  | cons x xs ih =>
    intro b
    cases b with
    | nil => simp [cmpNats, oswap]
    | cons y ys =>
      simp only [cmpNats]
      by_cases h1 : x < y
      · have : ¬ y < x := by omega
        simp [h1, this, oswap]
      · by_cases h2 : y < x
        · simp [h1, h2, oswap]
        · simp [h1, h2, ih ys]

theorem cmpNats_refl : ∀ a, cmpNats a a = .eq := by
  intro a; induction a with
  | nil => rfl
  | cons x xs ih => simp [cmpNats, ih]

theorem cmpNats_eq : ∀ a b, cmpNats a b = .eq → a = b := by
  intro a
  induction a with
  | nil => intro b; cases b <;> simp [cmpNats]
  | cons x xs ih =>
    intro b
    cases b with
    | nil => simp [cmpNats]
    | cons y ys =>
      simp only [cmpNats]
      by_cases h1 : x < y
      · simp [h1]
      · by_cases h2 : y < x
        · simp [h1, h2]
        · simp only [h1, h2, if_false]
          intro h; rw [ih ys h]; congr 1; omega

theorem cmpNats_trans : ∀ a b c, cmpNats a b = .lt → cmpNats b c = .lt → cmpNats a c = .lt := by
  intro a
  induction a with
  | nil => intro b c; cases b <;> cases c <;> simp [cmpNats]
  | cons x xs ih =>
    intro b c
    cases b with
    | nil => simp [cmpNats]
    | cons y ys =>
      cases c with
      | nil => simp [cmpNats]
      | cons z zs =>
        simp only [cmpNats]
        intro h1 h2
        by_cases a1 : x < y
        · by_cases a2 : y < z
          · have : x < z := by omega
            simp [this]
          · by_cases a3 : z < y
            · simp [a2, a3] at h2
            · have : x < z := by omega
              simp [this]
        · by_cases a1' : y < x
          · simp [a1, a1'] at h1
          · simp only [a1, a1', if_false] at h1
            have exy : x = y := by omega
            subst exy
            by_cases a2 : x < z
            · simp [a2]
            · by_cases a3 : z < x
              · simp [a2, a3] at h2
              · simp only [a2, a3, if_false] at h2 ⊢
                exact ih ys zs h1 h2

theorem Val.cmp_swap : ∀ a b, Val.cmp b a = oswap (Val.cmp a b) := by
  apply Val.ind (P := fun a => ∀ b, Val.cmp b a = oswap (Val.cmp a b))
    (Q := fun as => ∀ bs, Val.cmpList bs as = oswap (Val.cmpList as bs))
  case int =>
    intro i b; cases b <;> simp [Val.cmp, oswap]
    rename_i j
    by_cases h1 : i < j
    · have : ¬ j < i := by omega
      simp [h1, this]
    · by_cases h2 : j < i <;> simp [h1, h2]
  case bool => intro x b; cases b <;> simp [Val.cmp, oswap]; rename_i y; cases x <;> cases y <;> simp
  case bytes => intro x b; cases b <;> simp [Val.cmp, oswap]; exact cmpNats_swap _ _
  case none => intro b; cases b <;> simp [Val.cmp, oswap]
  case some => intro v ih b; cases b <;> simp [Val.cmp, oswap]; exact ih _
  case seq => intro vs ih b; cases b <;> simp [Val.cmp, oswap]; exact ih _
  case nil => intro bs; cases bs <;> simp [Val.cmpList, oswap]
  case cons =>
    intro v vs ihv ihvs bs
    cases bs with
    | nil => simp [Val.cmpList, oswap]
    | cons b bs =>
      simp only [Val.cmpList]
      rw [ihv b]
      cases h : Val.cmp v b <;> simp [oswap, ihvs bs]

theorem Val.cmp_refl : ∀ a, Val.cmp a a = .eq := by
  apply Val.ind (P := fun a => Val.cmp a a = .eq) (Q := fun as => Val.cmpList as as = .eq)
  case int => intro i; simp [Val.cmp]
  case bool => intro b; simp [Val.cmp]
  case bytes => intro b; simp [Val.cmp, cmpNats_refl]
  case none => simp [Val.cmp]
  case some => intro v ih; simpa [Val.cmp] using ih
  case seq => intro vs ih; simpa [Val.cmp] using ih
  case nil => simp [Val.cmpList]
  case cons => intro v vs h1 h2; simp [Val.cmpList, h1, h2]

theorem Val.cmp_gt_iff (a b : Val) : Val.cmp a b = .gt ↔ Val.cmp b a = .lt := by
  rw [Val.cmp_swap a b]; cases Val.cmp a b <;> simp [oswap]

theorem Val.cmp_eq_comm (a b : Val) : Val.cmp a b = .eq ↔ Val.cmp b a = .eq := by
  rw [Val.cmp_swap a b]; cases Val.cmp a b <;> simp [oswap]

/-! ### well-typed values -/

/-- `v` is a value of the Rust type `t` -/
def WT (t : Ty) (v : Val) : Prop := ∃ c, (encode t c v).isSome
def WTs (ts : List Ty) (vs : List Val) : Prop := ∃ c, (encodeTup ts c vs).isSome

theorem concatMapM_isSome (f : Val → Option (List Nat)) :
    ∀ vs, (concatMapM f vs).isSome ↔ ∀ v ∈ vs, (f v).isSome := by
  intro vs
  induction vs with
  | nil => simp [concatMapM]
  | cons v vs ih =>
    simp only [concatMapM, List.mem_cons, forall_eq_or_imp, ← ih]
    cases f v <;> cases concatMapM f vs <;> simp

theorem encSeq_isSome (f : Val → Option (List Nat)) (vs) :
    (encSeq f vs).isSome ↔ ∀ v ∈ vs, (f v).isSome := by
  unfold encSeq; rw [Option.isSome_map]; exact concatMapM_isSome f vs

/-- the entry serialiser of a map is the serialiser of the pair type -/
theorem entryEnc_isSome (k v : Ty) (c : Compress) (e : Val) :
    (match e with
      | .seq [a, b] =>
        match encode k c a, encode v c b with
        | some x, some y => some (x ++ y)
        | _, _ => none
      | _ => none : Option (List Nat)) = encode (.tup [k, v]) c e := by
  cases e with
  | seq vs =>
    match vs with
    | [] => simp [encode, encodeTup]
    | [a] => simp [encode, encodeTup]
    | [a, b] =>
      simp only [encode, encodeTup]
      cases encode k c a <;> cases encode v c b <;> simp
    | a :: b :: x :: r =>
      simp only [encode, encodeTup]
      cases encode k c a <;> cases encode v c b <;> simp
  | _ => simp [encode]

theorem encode_map_eq (k v : Ty) (c : Compress) (es : List Val) :
    encode (.map k v) c (.seq es) =
      if sortedBy entryKey es then encSeq (fun e => encode (.tup [k, v]) c e) es else none := by
  simp only [encode, encSeq]
  split
  · congr 2
    funext e
    exact entryEnc_isSome k v c e
  · rfl

theorem WT.int_inv {k v} (h : WT (.int k) v) : ∃ i, v = .int i := by
  obtain ⟨c, h⟩ := h; cases v <;> simp [encode] at h; exact ⟨_, rfl⟩
theorem WT.bool_inv {v} (h : WT .bool v) : ∃ b, v = .bool b := by
  obtain ⟨c, h⟩ := h; cases v <;> simp [encode] at h; exact ⟨_, rfl⟩
theorem WT.phantom_inv {v} (h : WT .phantom v) : v = .seq [] := by
  obtain ⟨c, h⟩ := h
  cases v with
  | seq vs => cases vs <;> simp [encode] at h; rfl
  | _ => simp [encode] at h
theorem WT.ml_inv {v} (h : WT .ml v) : ∃ i, v = .int i := by
  obtain ⟨c, h⟩ := h; cases v <;> simp [encode] at h; exact ⟨_, rfl⟩
theorem WT.opt_inv {t v} (h : WT (.opt t) v) : v = .none ∨ ∃ x, v = .some x ∧ WT t x := by
  obtain ⟨c, h⟩ := h
  cases v with
  | none => exact Or.inl rfl
  | some x => simp [encode] at h; exact Or.inr ⟨x, rfl, c, h⟩
  | _ => simp [encode] at h
theorem WT.tup_inv {ts v} (h : WT (.tup ts) v) : ∃ vs, v = .seq vs ∧ WTs ts vs := by
  obtain ⟨c, h⟩ := h; cases v <;> simp [encode] at h
  exact ⟨_, rfl, c, h⟩
theorem WT.arr_inv {n t v} (h : WT (.arr n t) v) : ∃ vs, v = .seq vs ∧ ∀ x ∈ vs, WT t x := by
  obtain ⟨c, h⟩ := h; cases v <;> simp [encode] at h
  refine ⟨_, rfl, fun x hx => ⟨c, ?_⟩⟩
  split at h
  · exact (concatMapM_isSome _ _).1 h x hx
  · simp at h
theorem WT.vec_inv {n t v} (h : WT (.vec n t) v) : ∃ vs, v = .seq vs ∧ ∀ x ∈ vs, WT t x := by
  obtain ⟨c, h⟩ := h; cases v <;> simp only [encode] at h <;> try simp at h
  exact ⟨_, rfl, fun x hx => ⟨c, (encSeq_isSome _ _).1 h x hx⟩⟩
theorem WT.deq_inv {n t v} (h : WT (.deq n t) v) : ∃ vs, v = .seq vs ∧ ∀ x ∈ vs, WT t x := by
  obtain ⟨c, h⟩ := h; cases v <;> simp only [encode] at h <;> try simp at h
  exact ⟨_, rfl, fun x hx => ⟨c, (encSeq_isSome _ _).1 h x hx⟩⟩
theorem WT.list_inv {t v} (h : WT (.list t) v) : ∃ vs, v = .seq vs ∧ ∀ x ∈ vs, WT t x := by
  obtain ⟨c, h⟩ := h; cases v <;> simp only [encode] at h <;> try simp at h
  exact ⟨_, rfl, fun x hx => ⟨c, (encSeq_isSome _ _).1 h x hx⟩⟩
theorem WT.slice_inv {t v} (h : WT (.slice t) v) : ∃ vs, v = .seq vs ∧ ∀ x ∈ vs, WT t x := by
  obtain ⟨c, h⟩ := h; cases v <;> simp only [encode] at h <;> try simp at h
  exact ⟨_, rfl, fun x hx => ⟨c, (encSeq_isSome _ _).1 h x hx⟩⟩
theorem WT.set_inv {t v} (h : WT (.set t) v) :
    ∃ vs, v = .seq vs ∧ sortedBy id vs = true ∧ ∀ x ∈ vs, WT t x := by
  obtain ⟨c, h⟩ := h; cases v <;> simp only [encode] at h <;> try simp at h
  split at h
  · rename_i hs
    exact ⟨_, rfl, hs, fun x hx => ⟨c, (encSeq_isSome _ _).1 h x hx⟩⟩
  · simp at h
theorem WT.map_inv {k v x} (h : WT (.map k v) x) :
    ∃ es, x = .seq es ∧ sortedBy entryKey es = true ∧ ∀ e ∈ es, WT (.tup [k, v]) e := by
  obtain ⟨c, h⟩ := h
  cases x with
  | seq es =>
    rw [encode_map_eq] at h
    split at h
    · rename_i hs
      exact ⟨_, rfl, hs, fun x hx => ⟨c, (encSeq_isSome _ _).1 h x hx⟩⟩
    · simp at h
  | _ => simp [encode] at h
theorem WT.str_inv {v} (h : WT .str v) : ∃ bs, v = .bytes bs := by
  obtain ⟨c, h⟩ := h; cases v <;> simp only [encode] at h <;> try simp at h
  exact ⟨_, rfl⟩
theorem WT.big_inv {v} (h : WT .big v) : ∃ i, v = .int i := by
  obtain ⟨c, h⟩ := h; cases v <;> simp only [encode] at h <;> try simp at h
  exact ⟨_, rfl⟩
theorem WT.wrap_inv {w t v} (h : WT (.wrap w t) v) : WT t v := by
  obtain ⟨c, h⟩ := h; rw [encode_wrap] at h; exact ⟨c, h⟩
theorem WT.pin_inv {p t v} (h : WT (.pin p t) v) : WT t v := by
  obtain ⟨c, h⟩ := h; rw [encode_pin] at h; exact ⟨_, h⟩
theorem WT.struct_inv {ts v} (h : WT (.struct ts) v) : WT (.tup ts) v := by
  obtain ⟨c, h⟩ := h; rw [encode_struct] at h; exact ⟨_, h⟩
theorem WTs.nil_inv {vs} (h : WTs [] vs) : vs = [] := by
  obtain ⟨c, h⟩ := h; cases vs <;> simp [encodeTup] at h; rfl
theorem WTs.cons_inv {t ts vs} (h : WTs (t :: ts) vs) :
    ∃ v vs', vs = v :: vs' ∧ WT t v ∧ WTs ts vs' := by
  obtain ⟨c, h⟩ := h
  cases vs with
  | nil => simp [encodeTup] at h
  | cons v vs =>
    refine ⟨v, vs, rfl, ⟨c, ?_⟩, ⟨c, ?_⟩⟩ <;>
    · simp only [encodeTup] at h
      cases h1 : encode t c v <;> cases h2 : encodeTup ts c vs <;> simp [h1, h2] at h ⊢

/-- pair entries of a map -/
theorem WT.pair_inv {k v e} (h : WT (.tup [k, v]) e) : ∃ a b, e = .seq [a, b] ∧ WT k a ∧ WT v b := by
  obtain ⟨vs, rfl, h1⟩ := h.tup_inv
  obtain ⟨a, vs1, rfl, ha, h2⟩ := h1.cons_inv
  obtain ⟨b, vs2, rfl, hb, h3⟩ := h2.cons_inv
  rw [h3.nil_inv]
  exact ⟨a, b, rfl, ha, hb⟩

/-! ### `Val.cmp` is a total order on the values of one type -/

structure OrdOn (W : Val → Prop) : Prop where
  eq_imp : ∀ a b, W a → W b → Val.cmp a b = .eq → a = b
  trans : ∀ a b c, W a → W b → W c → Val.cmp a b = .lt → Val.cmp b c = .lt → Val.cmp a c = .lt

structure OrdOnL (W : List Val → Prop) : Prop where
  eq_imp : ∀ a b, W a → W b → Val.cmpList a b = .eq → a = b
  trans : ∀ a b c, W a → W b → W c → Val.cmpList a b = .lt → Val.cmpList b c = .lt →
    Val.cmpList a c = .lt

theorem OrdOn.mono {W W' : Val → Prop} (h : OrdOn W) (hw : ∀ v, W' v → W v) : OrdOn W' :=
  ⟨fun a b ha hb => h.eq_imp a b (hw a ha) (hw b hb),
   fun a b c ha hb hc => h.trans a b c (hw a ha) (hw b hb) (hw c hc)⟩

theorem OrdOnL.seq {WL : List Val → Prop} (h : OrdOnL WL) :
    OrdOn (fun v => ∃ vs, v = .seq vs ∧ WL vs) := by
  constructor
  · rintro a b ⟨as, rfl, ha⟩ ⟨bs, rfl, hb⟩ e
    simp only [Val.cmp] at e; rw [h.eq_imp as bs ha hb e]
  · rintro a b c ⟨as, rfl, ha⟩ ⟨bs, rfl, hb⟩ ⟨cs, rfl, hc⟩ e1 e2
    simp only [Val.cmp] at e1 e2 ⊢; exact h.trans as bs cs ha hb hc e1 e2

theorem OrdOnL.nil : OrdOnL (fun vs => vs = []) := by
  constructor
  · rintro a b rfl rfl _; rfl
  · rintro a b c rfl rfl rfl e; simp [Val.cmpList] at e

theorem OrdOnL.cons {W : Val → Prop} {WL : List Val → Prop} (h : OrdOn W) (hl : OrdOnL WL) :
    OrdOnL (fun vs => ∃ v vs', vs = v :: vs' ∧ W v ∧ WL vs') := by
  constructor
  · rintro _ _ ⟨a, as, rfl, ha, has⟩ ⟨b, bs, rfl, hb, hbs⟩ e
    simp only [Val.cmpList] at e
    cases hab : Val.cmp a b with
    | eq =>
      simp only [hab] at e
      rw [h.eq_imp a b ha hb hab, hl.eq_imp as bs has hbs e]
    | lt => simp [hab] at e
    | gt => simp [hab] at e
  · rintro _ _ _ ⟨a, as, rfl, ha, has⟩ ⟨b, bs, rfl, hb, hbs⟩ ⟨c, cs, rfl, hc, hcs⟩ e1 e2
    simp only [Val.cmpList] at e1 e2 ⊢
    cases hab : Val.cmp a b with
    | gt => simp [hab] at e1
    | lt =>
      cases hbc : Val.cmp b c with
      | gt => simp [hbc] at e2
      | lt => simp [h.trans a b c ha hb hc hab hbc]
      | eq => rw [← h.eq_imp b c hb hc hbc]; simp [hab]
    | eq =>
      have := h.eq_imp a b ha hb hab; subst this
      cases hbc : Val.cmp a c with
      | gt => simp [hbc] at e2
      | lt => rfl
      | eq =>
        simp only [hab] at e1; simp only [hbc] at e2 ⊢
        exact hl.trans as bs cs has hbs hcs e1 e2

/-- homogeneous sequences -/
theorem OrdOnL.all {W : Val → Prop} (h : OrdOn W) : OrdOnL (fun vs => ∀ x ∈ vs, W x) := by
  constructor
  · intro a
    induction a with
    | nil => intro b _ _ e; cases b <;> simp [Val.cmpList] at e ⊢
    | cons a as ih =>
      intro b ha hb e
      cases b with
      | nil => simp [Val.cmpList] at e
      | cons b bs =>
        simp only [Val.cmpList] at e
        have wa := ha a (by simp); have wb := hb b (by simp)
        cases hab : Val.cmp a b with
        | eq =>
          simp only [hab] at e
          rw [h.eq_imp a b wa wb hab,
            ih bs (fun x hx => ha x (by simp [hx])) (fun x hx => hb x (by simp [hx])) e]
        | lt => simp [hab] at e
        | gt => simp [hab] at e
  · intro a
    induction a with
    | nil => intro b c _ _ _ e1 e2; cases b <;> cases c <;> simp [Val.cmpList] at e1 e2 ⊢
    | cons a as ih =>
      intro b c ha hb hc e1 e2
      cases b with
      | nil => simp [Val.cmpList] at e1
      | cons b bs =>
        cases c with
        | nil => simp [Val.cmpList] at e2
        | cons c cs =>
          have wa := ha a (by simp); have wb := hb b (by simp); have wc := hc c (by simp)
          simp only [Val.cmpList] at e1 e2 ⊢
          cases hab : Val.cmp a b with
          | gt => simp [hab] at e1
          | lt =>
            cases hbc : Val.cmp b c with
            | gt => simp [hbc] at e2
            | lt => simp [h.trans a b c wa wb wc hab hbc]
            | eq => rw [← h.eq_imp b c wb wc hbc]; simp [hab]
          | eq =>
            have := h.eq_imp a b wa wb hab; subst this
            cases hbc : Val.cmp a c with
            | gt => simp [hbc] at e2
            | lt => rfl
            | eq =>
              simp only [hab] at e1; simp only [hbc] at e2 ⊢
              exact ih bs cs (fun x hx => ha x (by simp [hx])) (fun x hx => hb x (by simp [hx]))
                (fun x hx => hc x (by simp [hx])) e1 e2

theorem OrdOnL.mono {W W' : List Val → Prop} (h : OrdOnL W) (hw : ∀ v, W' v → W v) : OrdOnL W' :=
  ⟨fun a b ha hb => h.eq_imp a b (hw a ha) (hw b hb),
   fun a b c ha hb hc => h.trans a b c (hw a ha) (hw b hb) (hw c hc)⟩

theorem OrdOn.seqAll {W : Val → Prop} (h : OrdOn W) :
    OrdOn (fun v => ∃ vs, v = .seq vs ∧ ∀ x ∈ vs, W x) := (OrdOnL.all h).seq

theorem ordOn_int : OrdOn (fun v => ∃ i, v = Val.int i) := by
  constructor
  · rintro _ _ ⟨a, rfl⟩ ⟨b, rfl⟩ e
    simp only [Val.cmp] at e
    by_cases h1 : a < b
    · simp [h1] at e
    · by_cases h2 : b < a
      · simp [h1, h2] at e
      · congr 1; omega
  · rintro _ _ _ ⟨a, rfl⟩ ⟨b, rfl⟩ ⟨c, rfl⟩ e1 e2
    simp only [Val.cmp] at e1 e2 ⊢
    by_cases h1 : a < b
    · by_cases h2 : b < c
      · have : a < c := by omega
        simp [this]
      · by_cases h3 : c < b <;> simp [h2, h3] at e2
    · by_cases h3 : b < a <;> simp [h1, h3] at e1

theorem ordOn_opt {W : Val → Prop} (h : OrdOn W) :
    OrdOn (fun v => v = .none ∨ ∃ x, v = .some x ∧ W x) := by
  constructor
  · rintro _ _ (rfl | ⟨x, rfl, hx⟩) (rfl | ⟨y, rfl, hy⟩) e
    · rfl
    · simp [Val.cmp] at e
    · simp [Val.cmp] at e
    · simp only [Val.cmp] at e; rw [h.eq_imp x y hx hy e]
  · rintro _ _ _ (rfl | ⟨x, rfl, hx⟩) (rfl | ⟨y, rfl, hy⟩) (rfl | ⟨z, rfl, hz⟩) e1 e2 <;>
      simp only [Val.cmp] at e1 e2 ⊢ <;> try simp at e1 e2
    exact h.trans x y z hx hy hz e1 e2

theorem ordOn_tup {ts} (h : OrdOnL (WTs ts)) : OrdOn (WT (.tup ts)) :=
  h.seq.mono (fun _ hv => hv.tup_inv)

theorem ordOnL_cons {t ts} (h : OrdOn (WT t)) (hl : OrdOnL (WTs ts)) : OrdOnL (WTs (t :: ts)) :=
  (OrdOnL.cons h hl).mono (fun _ hv => hv.cons_inv)

theorem ordOnL_nil : OrdOnL (WTs []) := OrdOnL.nil.mono (fun _ hv => hv.nil_inv)

/-- T11: `Val.cmp` is a total order on the well-typed values of each type -/
theorem ordOn_WT : ∀ t, OrdOn (WT t) := by
  apply Ty.ind (P := fun t => OrdOn (WT t)) (Q := fun ts => OrdOnL (WTs ts))
  case int => intro k; exact ordOn_int.mono (fun _ h => h.int_inv)
  case bool =>
    refine OrdOn.mono (W := fun v => ∃ b, v = Val.bool b) ?_ (fun _ h => h.bool_inv)
    constructor
    · rintro _ _ ⟨a, rfl⟩ ⟨b, rfl⟩ e; cases a <;> cases b <;> simp [Val.cmp] at e ⊢
    · rintro _ _ _ ⟨a, rfl⟩ ⟨b, rfl⟩ ⟨c, rfl⟩ e1 e2
      cases a <;> cases b <;> cases c <;> simp [Val.cmp] at e1 e2 ⊢
  case phantom =>
    refine OrdOn.mono (W := fun v => v = .seq []) ?_ (fun _ h => h.phantom_inv)
    constructor
    · rintro _ _ rfl rfl _; rfl
    · rintro _ _ _ rfl rfl rfl e; simp [Val.cmp, Val.cmpList] at e
  case ml => exact ordOn_int.mono (fun _ h => h.ml_inv)
  case opt => intro t ih; exact (ordOn_opt ih).mono (fun _ h => h.opt_inv)
  case tup => intro ts ih; exact ordOn_tup ih
  case arr => intro n t ih; exact ih.seqAll.mono (fun _ h => h.arr_inv)
  case vec => intro n t ih; exact ih.seqAll.mono (fun _ h => h.vec_inv)
  case deq => intro n t ih; exact ih.seqAll.mono (fun _ h => h.deq_inv)
  case list => intro t ih; exact ih.seqAll.mono (fun _ h => h.list_inv)
  case slice => intro t ih; exact ih.seqAll.mono (fun _ h => h.slice_inv)
  case set =>
    intro t ih
    exact ih.seqAll.mono (fun _ h => by obtain ⟨vs, e, _, h⟩ := h.set_inv; exact ⟨vs, e, h⟩)
  case str =>
    refine OrdOn.mono (W := fun v => ∃ b, v = Val.bytes b) ?_ (fun _ h => h.str_inv)
    constructor
    · rintro _ _ ⟨a, rfl⟩ ⟨b, rfl⟩ e; simp only [Val.cmp] at e; rw [cmpNats_eq a b e]
    · rintro _ _ _ ⟨a, rfl⟩ ⟨b, rfl⟩ ⟨c, rfl⟩ e1 e2
      simp only [Val.cmp] at e1 e2 ⊢; exact cmpNats_trans a b c e1 e2
  case big => exact ordOn_int.mono (fun _ h => h.big_inv)
  case map =>
    intro k v ihk ihv
    have hp : OrdOn (WT (.tup [k, v])) := ordOn_tup (ordOnL_cons ihk (ordOnL_cons ihv ordOnL_nil))
    exact hp.seqAll.mono (fun _ h => by obtain ⟨vs, e, _, h⟩ := h.map_inv; exact ⟨vs, e, h⟩)
  case wrap => intro w t ih; exact ih.mono (fun _ h => h.wrap_inv)
  case pin => intro p t ih; exact ih.mono (fun _ h => h.pin_inv)
  case struct => intro ts ih; exact (ordOn_tup ih).mono (fun _ h => h.struct_inv)
  case nil => exact ordOnL_nil
  case cons => intro t ts h hl; exact ordOnL_cons h hl

/-! ### `insertBy`, `fromIter`, `sortedBy` -/

section Sorted
variable {W : Val → Prop} (hW : OrdOn W) (key : Val → Val)

/-- strictly ascending keys, every pair -/
def Asc (key : Val → Val) (l : List Val) : Prop :=
  l.Pairwise (fun a b => Val.cmp (key a) (key b) = .lt)

theorem sortedBy_of_asc : ∀ l, Asc key l → sortedBy key l = true := by
  intro l
  induction l with
  | nil => intro _; rfl
  | cons a l ih =>
    intro h
    cases l with
    | nil => rfl
    | cons b r =>
      have h' := List.pairwise_cons.1 h
      simp only [sortedBy, Bool.and_eq_true, beq_iff_eq]
      exact ⟨h'.1 b (by simp), ih h'.2⟩

include hW in
theorem asc_of_sortedBy : ∀ l, (∀ x ∈ l, W (key x)) → sortedBy key l = true → Asc key l := by
  intro l
  induction l with
  | nil => intro _ _; exact List.Pairwise.nil
  | cons a l ih =>
    intro hw h
    cases l with
    | nil => exact List.pairwise_singleton _ _
    | cons b r =>
      simp only [sortedBy, Bool.and_eq_true, beq_iff_eq] at h
      have ihr := ih (fun x hx => hw x (by simp [hx])) h.2
      refine List.pairwise_cons.2 ⟨?_, ihr⟩
      intro x hx
      rcases List.mem_cons.1 hx with rfl | hx
      · exact h.1
      · exact hW.trans _ _ _ (hw a (by simp)) (hw b (by simp)) (hw x (by simp [hx])) h.1
          ((List.pairwise_cons.1 ihr).1 x hx)

include hW in
theorem mem_insertBy (e : Val) : ∀ l, (∀ x ∈ e :: l, W (key x)) → Asc key l →
    ∀ y, y ∈ insertBy key e l ↔ y = e ∨ (y ∈ l ∧ Val.cmp (key e) (key y) ≠ .eq) := by
  intro l
  induction l with
  | nil => intro _ _ y; simp [insertBy]
  | cons x xs ih =>
    intro hw ha y
    have ha' := List.pairwise_cons.1 ha
    have we := hw e (by simp); have wx := hw x (by simp)
    simp only [insertBy]
    cases hc : Val.cmp (key e) (key x) with
    | lt =>
      simp only [List.mem_cons]
      constructor
      · rintro (h | h | h)
        · exact Or.inl h
        · subst h; exact Or.inr ⟨Or.inl rfl, by simp [hc]⟩
        · refine Or.inr ⟨Or.inr h, ?_⟩
          rw [hW.trans _ _ _ we wx (hw y (by simp [h])) hc (ha'.1 y h)]; simp
      · rintro (h | ⟨h | h, _⟩)
        · exact Or.inl h
        · exact Or.inr (Or.inl h)
        · exact Or.inr (Or.inr h)
    | eq =>
      have hk := hW.eq_imp _ _ we wx hc
      simp only [List.mem_cons]
      constructor
      · rintro (h | h)
        · exact Or.inl h
        · refine Or.inr ⟨Or.inr h, ?_⟩
          rw [hk, ha'.1 y h]; simp
      · rintro (h | ⟨h | h, h2⟩)
        · exact Or.inl h
        · subst h; exact absurd hc h2
        · exact Or.inr h
    | gt =>
      simp only [List.mem_cons]
      rw [ih (fun z hz => hw z (by
        rcases List.mem_cons.1 hz with h | h
        · simp [h]
        · simp [h])) ha'.2 y]
      constructor
      · rintro (h | h | ⟨h, h2⟩)
        · subst h; exact Or.inr ⟨Or.inl rfl, by simp [hc]⟩
        · exact Or.inl h
        · exact Or.inr ⟨Or.inr h, h2⟩
      · rintro (h | ⟨h | h, h2⟩)
        · exact Or.inr (Or.inl h)
        · exact Or.inl h
        · exact Or.inr (Or.inr ⟨h, h2⟩)

include hW in
theorem asc_insertBy (e : Val) : ∀ l, (∀ x ∈ e :: l, W (key x)) → Asc key l →
    Asc key (insertBy key e l) := by
  intro l
  induction l with
  | nil => intro _ _; exact List.pairwise_singleton _ _
  | cons x xs ih =>
    intro hw ha
    have ha' := List.pairwise_cons.1 ha
    have we := hw e (by simp); have wx := hw x (by simp)
    have hw' : ∀ z ∈ e :: xs, W (key z) := fun z hz => hw z (by
        rcases List.mem_cons.1 hz with h | h
        · simp [h]
        · simp [h])
    simp only [insertBy]
    cases hc : Val.cmp (key e) (key x) with
    | lt =>
      refine List.pairwise_cons.2 ⟨?_, ha⟩
      intro y hy
      rcases List.mem_cons.1 hy with rfl | hy
      · exact hc
      · exact hW.trans _ _ _ we wx (hw y (by simp [hy])) hc (ha'.1 y hy)
    | eq =>
      have hk := hW.eq_imp _ _ we wx hc
      refine List.pairwise_cons.2 ⟨?_, ha'.2⟩
      intro y hy; rw [hk]; exact ha'.1 y hy
    | gt =>
      refine List.pairwise_cons.2 ⟨?_, ih hw' ha'.2⟩
      intro y hy
      rcases (mem_insertBy hW key e xs hw' ha'.2 y).1 hy with rfl | ⟨hy, _⟩
      · exact (Val.cmp_gt_iff _ _).1 hc
      · exact ha'.1 y hy

theorem insertBy_subset (e : Val) : ∀ l y, y ∈ insertBy key e l → y = e ∨ y ∈ l := by
  intro l
  induction l with
  | nil => intro y; simp [insertBy]
  | cons x xs ih =>
    intro y
    simp only [insertBy]
    cases Val.cmp (key e) (key x) with
    | lt => simp only [List.mem_cons]; exact id
    | eq => simp only [List.mem_cons]; rintro (h | h); exact Or.inl h; exact Or.inr (Or.inr h)
    | gt =>
      simp only [List.mem_cons]
      rintro (h | h)
      · exact Or.inr (Or.inl h)
      · rcases ih y h with h | h
        · exact Or.inl h
        · exact Or.inr (Or.inr h)

theorem insertBy_end (e : Val) : ∀ l, (∀ x ∈ l, Val.cmp (key x) (key e) = .lt) →
    insertBy key e l = l ++ [e] := by
  intro l
  induction l with
  | nil => intro _; rfl
  | cons x xs ih =>
    intro h
    have : Val.cmp (key e) (key x) = .gt := (Val.cmp_gt_iff _ _).2 (h x (by simp))
    simp only [insertBy, this, List.cons_append]
    rw [ih (fun y hy => h y (by simp [hy]))]

theorem foldl_insertBy_subset : ∀ (es acc : List Val) (y : Val),
    y ∈ es.foldl (fun acc e => insertBy key e acc) acc → y ∈ es ∨ y ∈ acc := by
  intro es
  induction es with
  | nil => intro acc y h; exact Or.inr h
  | cons e es ih =>
    intro acc y h
    simp only [List.foldl_cons] at h
    rcases ih _ y h with h | h
    · exact Or.inl (by simp [h])
    · rcases insertBy_subset key e acc y h with h | h
      · exact Or.inl (by simp [h])
      · exact Or.inr h

include hW in
theorem asc_foldl : ∀ es acc, (∀ x ∈ es ++ acc, W (key x)) → Asc key acc →
    Asc key (es.foldl (fun acc e => insertBy key e acc) acc) := by
  intro es
  induction es with
  | nil => intro acc _ h; exact h
  | cons e es ih =>
    intro acc hw ha
    simp only [List.foldl_cons]
    apply ih
    · intro x hx
      rcases List.mem_append.1 hx with h | h
      · exact hw x (by simp [h])
      · rcases insertBy_subset key e acc x h with h | h
        · exact hw x (by simp [h])
        · exact hw x (by simp [h])
    · exact asc_insertBy hW key e acc (fun x hx => hw x (by
        rcases List.mem_cons.1 hx with h | h
        · simp [h]
        · simp [h])) ha

include hW in
/-- T11: the result of `from_iter` is strictly ascending -/
theorem sortedBy_fromIter (es : List Val) (hw : ∀ x ∈ es, W (key x)) :
    sortedBy key (fromIter key es) = true :=
  sortedBy_of_asc key _ (asc_foldl hW key es [] (by simpa using hw) List.Pairwise.nil)

theorem mem_fromIter_subset (es : List Val) (y : Val) (h : y ∈ fromIter key es) : y ∈ es := by
  rcases foldl_insertBy_subset key es [] y h with h | h
  · exact h
  · simp at h

include hW in
theorem mem_foldl_insertBy : ∀ es acc, (∀ x ∈ es ++ acc, W (key x)) → Asc key acc → ∀ y,
    (y ∈ es.foldl (fun acc e => insertBy key e acc) acc ↔
      (∃ l1 l2, es = l1 ++ y :: l2 ∧ ∀ z ∈ l2, Val.cmp (key z) (key y) ≠ .eq) ∨
      (y ∈ acc ∧ ∀ z ∈ es, Val.cmp (key z) (key y) ≠ .eq)) := by
  intro es
  induction es with
  | nil => intro acc _ _ y; simp
  | cons e es ih =>
    intro acc hw ha y
    have hw1 : ∀ x ∈ e :: acc, W (key x) := fun x hx => hw x (by
        rcases List.mem_cons.1 hx with h | h
        · simp [h]
        · simp [h])
    have hw2 : ∀ x ∈ es ++ insertBy key e acc, W (key x) := by
      intro x hx
      rcases List.mem_append.1 hx with h | h
      · exact hw x (by simp [h])
      · rcases insertBy_subset key e acc x h with h | h
        · exact hw x (by simp [h])
        · exact hw x (by simp [h])
    simp only [List.foldl_cons]
    rw [ih _ hw2 (asc_insertBy hW key e acc hw1 ha) y, mem_insertBy hW key e acc hw1 ha y]
    constructor
    · rintro (⟨l1, l2, rfl, h⟩ | ⟨h1 | ⟨h1, h2⟩, h3⟩)
      · exact Or.inl ⟨e :: l1, l2, rfl, h⟩
      · subst h1; exact Or.inl ⟨[], es, rfl, h3⟩
      · refine Or.inr ⟨h1, ?_⟩
        intro z hz
        rcases List.mem_cons.1 hz with rfl | hz
        · exact h2
        · exact h3 z hz
    · rintro (⟨l1, l2, e1, h⟩ | ⟨h1, h2⟩)
      · cases l1 with
        | nil =>
          simp only [List.nil_append, List.cons.injEq] at e1
          obtain ⟨rfl, rfl⟩ := e1
          exact Or.inr ⟨Or.inl rfl, h⟩
        | cons a l1 =>
          simp only [List.cons_append, List.cons.injEq] at e1
          obtain ⟨rfl, rfl⟩ := e1
          exact Or.inl ⟨l1, l2, rfl, h⟩
      · exact Or.inr ⟨Or.inr ⟨h1, h2 e (by simp)⟩, fun z hz => h2 z (by simp [hz])⟩

include hW in
/-- T11: `from_iter` keeps, for every key, exactly the last entry with that key (and the result is
    strictly ascending: it is the stable sort followed by last-wins de-duplication) -/
theorem mem_fromIter (es : List Val) (hw : ∀ x ∈ es, W (key x)) (y : Val) :
    y ∈ fromIter key es ↔
      ∃ l1 l2, es = l1 ++ y :: l2 ∧ ∀ z ∈ l2, Val.cmp (key z) (key y) ≠ .eq := by
  unfold fromIter
  rw [mem_foldl_insertBy hW key es [] (by simpa using hw) List.Pairwise.nil y]
  simp

theorem foldl_insertBy_sorted : ∀ es acc, Asc key (acc ++ es) →
    es.foldl (fun acc e => insertBy key e acc) acc = acc ++ es := by
  intro es
  induction es with
  | nil => intro acc _; simp
  | cons e es ih =>
    intro acc ha
    simp only [List.foldl_cons]
    have h1 : ∀ x ∈ acc, Val.cmp (key x) (key e) = .lt := by
      intro x hx
      exact (List.pairwise_append.1 ha).2.2 x hx e (by simp)
    rw [insertBy_end key e acc h1, ih]
    · simp
    · simpa using ha

include hW in
/-- an already sorted sequence is a fixed point of `from_iter` -/
theorem fromIter_of_sorted (es : List Val) (hw : ∀ x ∈ es, W (key x)) (hs : sortedBy key es = true) :
    fromIter key es = es := by
  unfold fromIter
  have := foldl_insertBy_sorted key es [] (by simpa using asc_of_sortedBy hW key es hw hs)
  simpa using this

end Sorted

/-! ## T2 / T4: round trip and truncation -/

mutual
/-- every sequence length fits a `u64` and no loop over zero-width elements exceeds `L.steps` -/
def fits (L : Limits) : Ty → Val → Bool
  | .opt t, .some v => fits L t v
  | .tup ts, .seq vs => fitsTup L ts vs
  | .arr _ t, .seq vs => vs.all (fun v => fits L t v)
  | .vec _ t, .seq vs => decide (vs.length < 2 ^ 64) && (!zeroWidth t || decide (vs.length ≤ L.steps))
      && vs.all (fun v => fits L t v)
  | .deq _ t, .seq vs => decide (vs.length < 2 ^ 64) && (!zeroWidth t || decide (vs.length ≤ L.steps))
      && vs.all (fun v => fits L t v)
  | .list t, .seq vs => decide (vs.length < 2 ^ 64) && (!zeroWidth t || decide (vs.length ≤ L.steps))
      && vs.all (fun v => fits L t v)
  | .slice t, .seq vs => decide (vs.length < 2 ^ 64) && (!zeroWidth t || decide (vs.length ≤ L.steps))
      && vs.all (fun v => fits L t v)
  | .set t, .seq vs => decide (vs.length < 2 ^ 64) && (!zeroWidth t || decide (vs.length ≤ L.steps))
      && vs.all (fun v => fits L t v)
  | .str, .bytes bs => decide (bs.length < 2 ^ 64)
  | .big, .int i => decide ((bigBytes i.toNat).length < 2 ^ 64)
  | .map k v, .seq es => decide (es.length < 2 ^ 64) &&
      (!(zeroWidth k && zeroWidth v) || decide (es.length ≤ L.steps)) &&
      es.all (fun e => match e with
        | .seq [a, b] => fits L k a && fits L v b
        | _ => true)
  | .wrap _ t, v => fits L t v
  | .pin _ t, v => fits L t v
  | .struct fs, .seq vs => fitsTup L fs vs
  | _, _ => true
def fitsTup (L : Limits) : List Ty → List Val → Bool
  | t :: ts, v :: vs => fits L t v && fitsTup L ts vs
  | _, _ => true
end

mutual
/-- what `deserialize_with_mode(…, validate)` actually validates: the leaf checks in mode `vd`
    (`pin` replaces the mode), and the `batch_check` of sequences, which runs the full `check` -/
def vcheck : Ty → Validate → Val → Bool
  | .ml, vd, .int x => !(decide (vd = .yes) && x == 0xEE)
  | .opt t, vd, .some v => vcheck t vd v
  | .tup ts, vd, .seq vs => vcheckTup ts vd vs
  | .arr _ t, vd, .seq vs => vs.all (fun v => vcheck t .no v) &&
      (decide (vd = .no) || vs.all (fun v => check t v))
  | .vec _ t, vd, .seq vs => vs.all (fun v => vcheck t .no v) &&
      (decide (vd = .no) || vs.all (fun v => check t v))
  | .deq _ t, vd, .seq vs => vs.all (fun v => vcheck t .no v) &&
      (decide (vd = .no) || vs.all (fun v => check t v))
  | .list t, vd, .seq vs => vs.all (fun v => vcheck t .no v) &&
      (decide (vd = .no) || vs.all (fun v => check t v))
  | .slice t, vd, .seq vs => vs.all (fun v => vcheck t .no v) &&
      (decide (vd = .no) || vs.all (fun v => check t v))
  | .map k v, vd, .seq es => es.all (fun e => match e with
        | .seq [a, b] => vcheck k vd a && vcheck v vd b
        | _ => true)
  | .set t, vd, .seq vs => vs.all (fun v => vcheck t vd v)
  | .wrap _ t, vd, v => vcheck t vd v
  | .pin p t, _, v => vcheck t p.validate v
  | .struct fs, vd, .seq vs => vcheckTup fs vd vs
  | _, _, _ => true
def vcheckTup : List Ty → Validate → List Val → Bool
  | t :: ts, vd, v :: vs => vcheck t vd v && vcheckTup ts vd vs
  | _, _, _ => true
end

/-- `d` reads the value `a` from exactly the bytes `b` -/
def RT {α} (L : Limits) (d : M α) (b : List Nat) (a : α) : Prop :=
  ∀ rest e, usedEv e + 512 * b.length ≤ L.mem →
    ∃ evs, d ⟨b ++ rest, e⟩ = .ok a ⟨rest, e ++ evs⟩ ∧ usedEv evs ≤ 512 * b.length

/-- every strict prefix of `b` makes `d` fail with `IoError` -/
def TR {α} (L : Limits) (d : M α) (b : List Nat) : Prop :=
  ∀ p q e, b = p ++ q → q ≠ [] → usedEv e + 512 * b.length ≤ L.mem →
    ∃ s', d ⟨p, e⟩ = .fail (.err .io) s'

structure RTT {α} (L : Limits) (d : M α) (b : List Nat) (a : α) : Prop where
  rt : RT L d b a
  tr : TR L d b

theorem RTT.pure {α} {L} (a : α) : RTT L (pure a : M α) [] a :=
  ⟨fun rest e _ => ⟨[], by simp⟩, fun p q e h hq _ => by
    have := congrArg List.length h
    simp only [List.length_nil, List.length_append] at this
    exact absurd (List.eq_nil_of_length_eq_zero (by omega)) hq⟩

theorem RTT.bind {α β} {L} {d : M α} {k : α → M β} {b1 b2 : List Nat} {a : α} {r : β}
    (h1 : RTT L d b1 a) (h2 : RTT L (k a) b2 r) : RTT L (d >>= k) (b1 ++ b2) r := by
  constructor
  · intro rest e hm
    simp only [List.length_append] at hm
    obtain ⟨ev1, e1, u1⟩ := h1.rt (b2 ++ rest) e (by omega)
    obtain ⟨ev2, e2, u2⟩ := h2.rt rest (e ++ ev1) (by rw [usedEv_append]; omega)
    refine ⟨ev1 ++ ev2, ?_, ?_⟩
    · simp only [run_bind, List.append_assoc, e1, e2]
    · rw [usedEv_append, List.length_append]; omega
  · intro p q e h hq hm
    simp only [List.length_append] at hm
    rcases List.append_eq_append_iff.1 h with ⟨a', hp, hb2⟩ | ⟨c', hb1, hq'⟩
    · -- p = b1 ++ a'
      obtain ⟨ev1, e1, u1⟩ := h1.rt a' e (by omega)
      obtain ⟨s', e2⟩ := h2.tr a' q (e ++ ev1) hb2 hq (by rw [usedEv_append]; omega)
      exact ⟨s', by simp only [run_bind, hp, e1, e2]⟩
    · by_cases hc : c' = []
      · subst hc
        simp only [List.append_nil, List.nil_append] at hb1 hq'
        subst hb1 hq'
        obtain ⟨ev1, e1, u1⟩ := h1.rt [] e (by omega)
        obtain ⟨s', e2⟩ := h2.tr [] q (e ++ ev1) (by simp) hq (by rw [usedEv_append]; omega)
        simp only [List.append_nil] at e1
        exact ⟨s', by simp only [run_bind, e1, e2]⟩
      · obtain ⟨s', e1⟩ := h1.tr p c' e hb1 hc (by omega)
        exact ⟨s', by simp only [run_bind, e1]⟩

theorem RTT.of_eq {α} {L} {d : M α} {b b' : List Nat} {a : α} (h : RTT L d b a) (e : b = b') :
    RTT L d b' a := e ▸ h

theorem RTT.readExact {L} (n : Nat) (b : List Nat) (h : b.length = n) : RTT L (readExact n) b b := by
  constructor
  · intro rest e _; exact ⟨[], by simp [readExact_append n b rest e h]⟩
  · intro p q e hb hq _
    refine ⟨_, readExact_short n ⟨p, e⟩ ?_⟩
    have h1 := congrArg List.length hb
    have h2 : q.length ≠ 0 := fun h0 => hq (List.eq_nil_of_length_eq_zero h0)
    simp only [List.length_append] at h1
    simp only; omega

theorem RTT.decU {L} (w : Nat) (b : List Nat) (h : b.length = w) : RTT L (decU w) b (leValue b) := by
  have := RTT.bind (RTT.readExact (L := L) w b h) (RTT.pure (L := L) (leValue b))
    (k := fun bs => Pure.pure (leValue bs))
  simpa [Ark.Serial.decU] using this

theorem RTT.repeatM {L} {d : M Val} {f : Val → Option (List Nat)} {p : Val → Prop}
    (h : ∀ v b, f v = some b → p v → RTT L d b v) :
    ∀ vs bs, concatMapM f vs = some bs → (∀ v ∈ vs, p v) →
      RTT L (repeatM d vs.length) bs vs := by
  intro vs
  induction vs with
  | nil => intro bs e _; simp [concatMapM] at e; subst e; exact RTT.pure _
  | cons v vs ih =>
    intro bs e hp
    simp only [concatMapM] at e
    cases hv : f v with
    | none => simp [hv] at e
    | some a =>
      cases hvs : concatMapM f vs with
      | none => simp [hv, hvs] at e
      | some b =>
        simp only [hv, hvs, Option.some.injEq] at e
        subst e
        have h1 := h v a hv (hp v (by simp))
        have h2 := ih b hvs (fun x hx => hp x (by simp [hx]))
        have := RTT.bind h1 (k := fun x => Ark.Serial.repeatM d vs.length >>= fun xs => Pure.pure (x :: xs))
          (RTT.bind h2 (k := fun xs => Pure.pure (v :: xs)) (RTT.pure (v :: vs)))
        simpa [Ark.Serial.repeatM] using this

/-- the event recorded by the optional pre-allocation -/
def capEv (cap : Option Nat) (n rem : Nat) : List Ev :=
  match cap with
  | some esz => [⟨cappedCapacity esz n, esz, rem⟩]
  | none => []

theorem usedEv_capEv (cap n rem) : usedEv (capEv cap n rem) ≤ 4096 := by
  cases cap with
  | none => simp [capEv]
  | some esz => simp [capEv, Ev.bytes]; exact cappedCapacity_mul_le esz n

theorem pow256_8 : (256 : Nat) ^ 8 = 2 ^ 64 := by decide

/-- a length-prefixed reader on an input that starts with the prefix `n` -/
theorem lenHdr_run {α β} (L : Limits) (chk : Bool) (cap : Option Nat) (zw : Bool) (f : M α)
    (k : List α → M β) (n : Nat) (inp : List Nat) (e : List Ev)
    (hn : n < 2 ^ 64) (hz : zw = true → n ≤ L.steps) (hm : usedEv e + 4096 ≤ L.mem) :
    lenHdr L chk cap zw f k ⟨leBytes 8 n ++ inp, e⟩ =
      (repeatM f n >>= k) ⟨inp, e ++ capEv cap n inp.length⟩ := by
  unfold lenHdr
  rw [decU_append 8 (leBytes 8 n) inp e (by simp), leValue_leBytes 8 n (by rw [pow256_8]; exact hn)]
  simp only
  rw [if_neg (by omega)]
  have hc : capM L cap n ⟨inp, e⟩ = .ok () ⟨inp, e ++ capEv cap n inp.length⟩ := by
    cases cap with
    | none => simp [capM, capEv]
    | some esz => simp only [capM, capEv]; exact withCapacity_ok L esz n ⟨inp, e⟩ hm
  rw [hc]
  simp only
  rw [if_neg (by intro h; have := hz h.1; omega)]
  simp only [run_bind]
  cases repeatM f n ⟨inp, e ++ capEv cap n inp.length⟩ <;> rfl

theorem RTT.lenHdr {α β} {L} (chk : Bool) (cap : Option Nat) (zw : Bool) {f : M α}
    {k : List α → M β} (n : Nat) (body : List Nat) (r : β)
    (hn : n < 2 ^ 64) (hz : zw = true → n ≤ L.steps)
    (h : RTT L (Ark.Serial.repeatM f n >>= k) body r) :
    RTT L (lenHdr L chk cap zw f k) (leBytes 8 n ++ body) r := by
  constructor
  · intro rest e hm
    simp only [List.length_append, leBytes_length] at hm
    rw [List.append_assoc, lenHdr_run L chk cap zw f k n (body ++ rest) e hn hz (by omega)]
    have hu := usedEv_capEv cap n (body ++ rest).length
    obtain ⟨evs, e1, u1⟩ := h.rt rest (e ++ capEv cap n (body ++ rest).length)
      (by rw [usedEv_append]; omega)
    refine ⟨capEv cap n (body ++ rest).length ++ evs, by rw [e1, List.append_assoc], ?_⟩
    simp only [usedEv_append, List.length_append, leBytes_length] at *; omega
  · intro p q e hb hq hm
    simp only [List.length_append, leBytes_length] at hm
    have short : p.length < 8 → ∃ s', Ark.Serial.lenHdr L chk cap zw f k ⟨p, e⟩ = .fail (.err .io) s' := by
      intro hp
      refine ⟨⟨p, e⟩, ?_⟩
      unfold Ark.Serial.lenHdr
      rw [decU_short 8 ⟨p, e⟩ hp]
    rcases List.append_eq_append_iff.1 hb with ⟨a', hp, hbody⟩ | ⟨c', hl8, hq'⟩
    · subst hp
      rw [lenHdr_run L chk cap zw f k n a' e hn hz (by omega)]
      have hu := usedEv_capEv cap n a'.length
      exact h.tr a' q _ hbody hq (by rw [usedEv_append]; omega)
    · by_cases hc : c' = []
      · subst hc
        simp only [List.append_nil, List.nil_append] at hl8 hq'
        subst hl8
        have := lenHdr_run L chk cap zw f k n [] e hn hz (by omega)
        simp only [List.append_nil] at this
        rw [this]
        have hu := usedEv_capEv cap n ([] : List Nat).length
        exact h.tr [] q _ (by simpa using hq'.symm) hq (by rw [usedEv_append]; omega)
      · apply short
        have h1 := congrArg List.length hl8
        have h2 : c'.length ≠ 0 := fun h0 => hc (List.eq_nil_of_length_eq_zero h0)
        simp only [leBytes_length, List.length_append] at h1
        omega
theorem ite_some_eq {α} {c : Prop} [Decidable c] {a b : α}
    (h : (if c then some a else none) = some b) : c ∧ a = b := by
  by_cases hc : c <;> simp [hc] at h; exact ⟨hc, h⟩

theorem IntTy.dec_of (k : IntTy) (bs : List Nat) (n : Nat) (hn : leValue bs = n) :
    k.dec bs = if k.signed = true ∧ n ≥ 256 ^ k.width / 2 then (n : Int) - ((256 ^ k.width : Nat) : Int)
      else (n : Int) := by
  subst hn; unfold IntTy.dec
  simp only [Bool.and_eq_true, decide_eq_true_eq]

theorem IntTy.enc_of (k : IntTy) (i : Int) (bs : List Nat) (h : k.enc i = some bs) :
    ∃ n, bs = leBytes k.width n ∧ n < 256 ^ k.width ∧
      (if k.signed = true ∧ n ≥ 256 ^ k.width / 2 then (n : Int) - ((256 ^ k.width : Nat) : Int)
        else (n : Int)) = i := by
  unfold IntTy.enc at h
  cases k <;> simp only [IntTy.width, IntTy.signed] at h ⊢ <;>
    simp only [Bool.false_eq_true, if_false, if_true] at h <;>
    obtain ⟨hr, rfl⟩ := ite_some_eq h <;>
    refine ⟨_, rfl, ?_⟩ <;> simp <;> omega

theorem IntTy.dec_enc (k : IntTy) (i : Int) (bs : List Nat) (h : k.enc i = some bs) : k.dec bs = i := by
  obtain ⟨n, rfl, hn, hi⟩ := IntTy.enc_of k i bs h
  rw [IntTy.dec_of k _ n (leValue_leBytes _ _ hn)]; exact hi

theorem leValue_bigBytes (n : Nat) : leValue (bigBytes n) = n := by
  unfold bigBytes
  split
  · rename_i h; subst h; simp [leValue]
  · apply leValue_leBytes
    have h1 : n < 2 ^ (n.log2 + 1) := Nat.lt_log2_self
    have h2 : (256 : Nat) ^ (n.log2 / 8 + 1) = 2 ^ (8 * (n.log2 / 8 + 1)) := by
      rw [Nat.pow_mul]
    rw [h2]
    exact Nat.lt_of_lt_of_le h1 (Nat.pow_le_pow_right (by decide) (by omega))

theorem IntTy.enc_len (k : IntTy) (i : Int) (bs : List Nat) (h : k.enc i = some bs) :
    bs.length = k.width := by
  obtain ⟨n, rfl, _⟩ := IntTy.enc_of k i bs h; simp

theorem RTT.int {L} (k : IntTy) (c vd) (i : Int) (bs : List Nat) (h : k.enc i = some bs) :
    RTT L (decode L (.int k) c vd) bs (.int i) := by
  simp only [decode]
  have := RTT.bind (RTT.readExact (L := L) k.width bs (IntTy.enc_len k i bs h))
    (k := fun bs => Pure.pure (Val.int (k.dec bs))) (RTT.pure _)
  rw [IntTy.dec_enc k i bs h] at this
  simpa using this

theorem RTT.decBool {L} (b : Bool) : RTT L decBool [if b then 1 else 0] b := by
  constructor
  · intro rest e _
    refine ⟨[], ?_, by simp⟩
    cases b <;> simp [decBool_cons]
  · intro p q e hb hq _
    have : p = [] := by
      cases p with
      | nil => rfl
      | cons x p =>
        have h1 := congrArg List.length hb
        have h2 : q.length ≠ 0 := fun h0 => hq (List.eq_nil_of_length_eq_zero h0)
        simp only [List.length_cons, List.length_nil, List.length_append] at h1; omega
    subst this
    exact ⟨_, decBool_nil e⟩

theorem RTT.bool {L} (c vd) (b : Bool) :
    RTT L (decode L .bool c vd) [if b then 1 else 0] (.bool b) := by
  simp only [decode]
  have := RTT.bind (RTT.decBool (L := L) b) (k := fun b => Pure.pure (Val.bool b)) (RTT.pure _)
  simpa using this

/-- the encoding of the leaf `ml` -/
def mlBytes (c : Compress) (x : Nat) : List Nat :=
  match c with
  | .yes => [x]
  | .no => [x, 255 - x]

theorem decMl_run (c : Compress) (vd : Validate) (x : Nat) (rest : List Nat) (e : List Ev) :
    decMl c vd ⟨mlBytes c x ++ rest, e⟩ =
      if vd = .yes ∧ x = 0xEE then .fail (.err .invalid) ⟨rest, e⟩ else .ok (.int x) ⟨rest, e⟩ := by
  cases c
  · simp only [mlBytes, decMl, run_bind, List.cons_append, List.nil_append, decU1_cons]
    by_cases h : vd = .yes ∧ x = 0xEE
    · simp [h]
    · rw [if_neg h]
      have : ¬ ((decide (vd = Validate.yes) && x == 238) = true) := by simpa using h
      rw [if_neg this]; rfl
  · simp only [mlBytes, decMl, run_bind, List.cons_append, List.nil_append]
    have hr : readExact 2 ⟨x :: (255 - x) :: rest, e⟩ = .ok [x, 255 - x] ⟨rest, e⟩ :=
      readExact_append 2 [x, 255 - x] rest e rfl
    rw [hr]
    simp only [if_true, run_pure, run_bind]
    by_cases h : vd = .yes ∧ x = 0xEE
    · simp [h]
    · rw [if_neg h]
      have : ¬ ((decide (vd = Validate.yes) && x == 238) = true) := by simpa using h
      rw [if_neg this]; rfl

theorem decMl_short (c : Compress) (vd : Validate) (p : List Nat) (e : List Ev)
    (h : p.length < (mlBytes c 0).length) :
    decMl c vd ⟨p, e⟩ = .fail (.err .io) ⟨p, e⟩ := by
  cases c
  · simp only [decMl, run_bind, decU_short 1 ⟨p, e⟩ h]
  · simp only [decMl, run_bind, readExact_short 2 ⟨p, e⟩ h]

theorem RTT.ml {L} (c vd) (x : Int) (bs : List Nat) (h : encode .ml c (.int x) = some bs)
    (hv : vcheck .ml vd (.int x) = true) : RTT L (decode L .ml c vd) bs (.int x) := by
  simp only [decode]
  simp only [encode] at h
  have hx : 0 ≤ x ∧ x < 256 := by
    by_cases hx : 0 ≤ x ∧ x < 256
    · exact hx
    · rw [if_neg hx] at h; simp at h
  rw [if_pos hx] at h
  have hbs : bs = mlBytes c x.toNat := by
    cases c <;> simp [mlBytes] at h ⊢ <;> exact h.symm
  have hnot : ¬ (vd = .yes ∧ x.toNat = 0xEE) := by
    simp only [vcheck, Bool.not_eq_true', Bool.and_eq_false_iff, decide_eq_false_iff_not,
      beq_eq_false_iff_ne] at hv
    rintro ⟨h1, h2⟩
    rcases hv with hv | hv
    · exact hv h1
    · apply hv; omega
  have hxx : ((x.toNat : Nat) : Int) = x := by omega
  subst hbs
  constructor
  · intro rest e _
    refine ⟨[], ?_, by simp⟩
    rw [decMl_run c vd x.toNat rest e, if_neg hnot, hxx]; simp
  · intro p q e hb hq _
    refine ⟨_, decMl_short c vd p e ?_⟩
    have h1 := congrArg List.length hb
    have h2 : q.length ≠ 0 := fun h0 => hq (List.eq_nil_of_length_eq_zero h0)
    cases c <;> simp only [mlBytes, List.length_cons, List.length_nil, List.length_append] at h1 ⊢ <;> omega

theorem repeat_decU1_short (e : List Ev) : ∀ n p, p.length < n →
    ∃ s', repeatM (decU 1) n ⟨p, e⟩ = .fail (.err .io) s' := by
  intro n
  induction n with
  | zero => intro p h; omega
  | succ n ih =>
    intro p h
    cases p with
    | nil => exact ⟨⟨[], e⟩, by simp only [repeatM, run_bind, decU_short 1 ⟨[], e⟩ (by simp)]⟩
    | cons x p =>
      obtain ⟨s', hs⟩ := ih p (by simpa using h)
      exact ⟨s', by simp only [repeatM, run_bind, decU1_cons, hs]⟩

theorem RTT.repeatU1 {L} (bs : List Nat) :
    RTT L (Ark.Serial.repeatM (Ark.Serial.decU 1) bs.length) bs bs := by
  constructor
  · intro rest e _; exact ⟨[], by simp [repeat_decU1], by simp⟩
  · intro p q e hb hq _
    apply repeat_decU1_short
    have h1 := congrArg List.length hb
    have h2 : q.length ≠ 0 := fun h0 => hq (List.eq_nil_of_length_eq_zero h0)
    simp only [List.length_append] at h1; omega

theorem RTT.decVecU8 {L} (bs : List Nat) (hn : bs.length < 2 ^ 64) :
    RTT L (Ark.Serial.decVecU8 L) (leBytes 8 bs.length ++ bs) bs := by
  rw [decVecU8_eq]
  apply RTT.lenHdr _ _ _ _ _ _ hn (by simp)
  have := RTT.bind (RTT.repeatU1 (L := L) bs) (k := Pure.pure) (RTT.pure bs)
  simpa using this

theorem RTT.container {α} {L} (chk : Bool) (cap : Option Nat) (zw : Bool) {d : M Val}
    {f : Val → Option (List Nat)} {p : Val → Prop} {k : List Val → M α} {r : α}
    (h : ∀ v b, f v = some b → p v → RTT L d b v) (vs : List Val) (bs : List Nat)
    (he : encSeq f vs = some bs) (hn : vs.length < 2 ^ 64) (hz : zw = true → vs.length ≤ L.steps)
    (hp : ∀ v ∈ vs, p v) (hk : RTT L (k vs) [] r) :
    RTT L (Ark.Serial.lenHdr L chk cap zw d k) bs r := by
  unfold encSeq at he
  cases hc : concatMapM f vs with
  | none => simp [hc] at he
  | some body =>
    simp only [hc, Option.map_some, Option.some.injEq] at he
    subst he
    apply RTT.lenHdr _ _ _ _ _ _ hn hz
    have := RTT.bind (RTT.repeatM h vs body hc hp) hk
    simpa using this

theorem RTT.seqK {L} (t : Ty) (vd : Validate) (vs : List Val)
    (h : vd = .no ∨ vs.all (fun v => check t v) = true) :
    RTT L (Ark.Serial.seqK t vd vs) [] (Val.seq vs) := by
  have : Ark.Serial.seqK t vd vs = Pure.pure (Val.seq vs) := by
    unfold Ark.Serial.seqK batchM
    rcases h with h | h
    · subst h; simp; rfl
    · rw [h]; simp; rfl
  rw [this]; exact RTT.pure _

theorem entryM_eq (L k vt c v) : entryM L k vt c v = decode L (.tup [k, vt]) c v := by
  simp only [entryM, decode, decodeTup, M.bind_assoc, M.pure_bind]

theorem concatMapM_mem {f : Val → Option (List Nat)} : ∀ {vs bs}, concatMapM f vs = some bs →
    ∀ v ∈ vs, ∃ b, f v = some b := by
  intro vs bs h v hv
  have := (concatMapM_isSome f vs).1 (by rw [h]; rfl) v hv
  exact Option.isSome_iff_exists.1 this

theorem encSeq_mem {f : Val → Option (List Nat)} {vs bs} (h : encSeq f vs = some bs) :
    ∀ v ∈ vs, ∃ b, f v = some b := by
  intro v hv
  have := (encSeq_isSome f vs).1 (by rw [h]; rfl) v hv
  exact Option.isSome_iff_exists.1 this

def PT (L : Limits) (t : Ty) : Prop :=
  ∀ c vd v bs, encode t c v = some bs → fits L t v = true → vcheck t vd v = true →
    RTT L (decode L t c vd) bs v
def QT (L : Limits) (ts : List Ty) : Prop :=
  ∀ c vd vs bs, encodeTup ts c vs = some bs → fitsTup L ts vs = true → vcheckTup ts vd vs = true →
    RTT L (decodeTup L ts c vd) bs vs

theorem rtt_nil (L) : QT L [] := by
  intro c vd vs bs e _ _
  cases vs <;> simp [encodeTup] at e
  subst e; simp only [decodeTup]; exact RTT.pure _

theorem rtt_cons {L t ts} (ht : PT L t) (hts : QT L ts) : QT L (t :: ts) := by
  intro c vd vs bs e hf hv
  cases vs with
  | nil => simp [encodeTup] at e
  | cons v vs =>
    simp only [encodeTup] at e
    cases h1 : encode t c v with
    | none => simp [h1] at e
    | some a =>
      cases h2 : encodeTup ts c vs with
      | none => simp [h1, h2] at e
      | some b =>
        simp only [h1, h2, Option.some.injEq] at e; subst e
        simp only [fitsTup, vcheckTup, Bool.and_eq_true] at hf hv
        simp only [decodeTup]
        have := RTT.bind (ht c vd v a h1 hf.1 hv.1)
          (k := fun x => decodeTup L ts c vd >>= fun xs => Pure.pure (x :: xs))
          (RTT.bind (hts c vd vs b h2 hf.2 hv.2) (k := fun xs => Pure.pure (v :: xs)) (RTT.pure _))
        simpa using this

theorem rtt_tup {L ts} (h : QT L ts) : PT L (.tup ts) := by
  intro c vd v bs e hf hv
  cases v <;> simp [encode] at e
  simp only [fits, vcheck] at hf hv
  simp only [decode]
  have := RTT.bind (h c vd _ bs e hf hv) (k := fun xs => Pure.pure (Val.seq xs)) (RTT.pure _)
  simpa using this

theorem rtt_seq {L t} (ih : PT L t) (chk : Bool) (cap : Option Nat) (c vd) (vs : List Val) (bs)
    (e : encSeq (fun v => encode t c v) vs = some bs)
    (hf : (decide (vs.length < 2 ^ 64) && (!zeroWidth t || decide (vs.length ≤ L.steps))
      && vs.all (fun v => fits L t v)) = true)
    (hv : (vs.all (fun v => vcheck t .no v) &&
      (decide (vd = .no) || vs.all (fun v => check t v))) = true) :
    RTT L (lenHdr L chk cap (zeroWidth t) (decode L t c .no) (seqK t vd)) bs (.seq vs) := by
  simp only [Bool.and_eq_true, Bool.or_eq_true, decide_eq_true_eq, Bool.not_eq_true',
    List.all_eq_true] at hf hv
  refine RTT.container chk cap _ (p := fun v => fits L t v = true ∧ vcheck t .no v = true)
    (fun v b h1 h2 => ih c .no v b h1 h2.1 h2.2) vs bs e hf.1.1 ?_
    (fun v hv' => ⟨hf.2 v hv', hv.1 v hv'⟩) (RTT.seqK t vd vs ?_)
  · intro hz; rcases hf.1.2 with h | h
    · rw [hz] at h; cases h
    · exact h
  · rcases hv.2 with h | h
    · exact Or.inl h
    · exact Or.inr (List.all_eq_true.2 h)

/-- T2 + T4, by induction on the type universe -/
theorem rtt_decode (L : Limits) : ∀ t, PT L t := by
  apply Ty.ind (P := PT L) (Q := QT L)
  case int => intro k c vd v bs e _ _; cases v <;> simp [encode] at e; exact RTT.int k c vd _ bs e
  case bool =>
    intro c vd v bs e _ _; cases v <;> simp [encode] at e
    subst e; exact RTT.bool c vd _
  case phantom =>
    intro c vd v bs e _ _
    cases v with
    | seq vs => cases vs <;> simp [encode] at e; subst e; simp only [decode]; exact RTT.pure _
    | _ => simp [encode] at e
  case ml =>
    intro c vd v bs e _ hv
    cases v with
    | int x => exact RTT.ml c vd x bs e hv
    | _ => simp [encode] at e
  case opt =>
    intro t ih c vd v bs e hf hv
    cases v with
    | none =>
      simp [encode] at e; subst e; simp only [decode]
      have := RTT.bind (RTT.decBool (L := L) false)
        (k := fun b => if b = true then decode L t c vd >>= fun x => Pure.pure (Val.some x)
          else Pure.pure Val.none) (r := Val.none) (b2 := []) (by simpa using RTT.pure _)
      simpa using this
    | some x =>
      simp [encode] at e
      obtain ⟨b, hb, rfl⟩ := e
      simp only [fits, vcheck] at hf hv
      simp only [decode]
      have h2 := RTT.bind (ih c vd x b hb hf hv) (k := fun x => Pure.pure (Val.some x)) (RTT.pure _)
      have := RTT.bind (RTT.decBool (L := L) true)
        (k := fun b => if b = true then decode L t c vd >>= fun x => Pure.pure (Val.some x)
          else Pure.pure Val.none) (r := Val.some x) (b2 := b ++ []) (by simpa using h2)
      simpa using this
    | _ => simp [encode] at e
  case tup => intro ts ih; exact rtt_tup ih
  case arr =>
    intro n t ih c vd v bs e hf hv
    cases v <;> simp [encode] at e
    rename_i vs
    obtain ⟨hn, e⟩ := e
    subst hn
    simp only [fits, vcheck, Bool.and_eq_true, Bool.or_eq_true, decide_eq_true_eq,
      List.all_eq_true] at hf hv
    simp only [decode]
    have h1 := RTT.repeatM (L := L) (d := decode L t c .no)
      (p := fun v => fits L t v = true ∧ vcheck t .no v = true)
      (fun v b h1 h2 => ih c .no v b h1 h2.1 h2.2) vs bs e (fun v hv' => ⟨hf v hv', hv.1 v hv'⟩)
    have h2 := RTT.seqK (L := L) t vd vs (by
      rcases hv.2 with h | h
      · exact Or.inl h
      · exact Or.inr (List.all_eq_true.2 h))
    exact (RTT.bind h1 h2).of_eq (by simp)
  case vec =>
    intro esz t ih c vd v bs e hf hv
    cases v <;> simp only [encode] at e <;> try simp at e
    rw [decode_vec]; exact rtt_seq ih _ _ c vd _ bs e hf hv
  case deq =>
    intro esz t ih c vd v bs e hf hv
    cases v <;> simp only [encode] at e <;> try simp at e
    rw [decode_deq]; exact rtt_seq ih _ _ c vd _ bs e hf hv
  case list =>
    intro t ih c vd v bs e hf hv
    cases v <;> simp only [encode] at e <;> try simp at e
    rw [decode_list]; exact rtt_seq ih _ _ c vd _ bs e hf hv
  case slice =>
    intro t ih c vd v bs e hf hv
    cases v <;> simp only [encode] at e <;> try simp at e
    rw [decode_slice]; exact rtt_seq ih _ _ c vd _ bs e hf hv
  case str =>
    intro c vd v bs e hf _
    cases v <;> simp only [encode] at e <;> try simp at e
    rename_i s _
    obtain ⟨⟨hu, _⟩, rfl⟩ := e
    simp only [fits, decide_eq_true_eq] at hf
    simp only [decode]
    have := RTT.bind (RTT.decVecU8 (L := L) s hf)
      (k := fun bs => if utf8Valid bs = true then Pure.pure (Val.bytes bs) else failM (.err .invalid))
      (r := Val.bytes s) (b2 := []) (by rw [hu]; simpa using RTT.pure _)
    simpa using this
  case big =>
    intro c vd v bs e hf _
    cases v <;> simp only [encode] at e <;> try simp at e
    rename_i i _
    obtain ⟨hi, rfl⟩ := e
    simp only [fits, decide_eq_true_eq] at hf
    simp only [decode]
    have := RTT.bind (RTT.decVecU8 (L := L) (bigBytes i.toNat) hf)
      (k := fun bs => Pure.pure (Val.int (leValue bs)))
      (r := Val.int i) (b2 := []) (by
        rw [leValue_bigBytes]
        have : ((i.toNat : Nat) : Int) = i := by omega
        rw [this]; exact RTT.pure _)
    simpa using this
  case set =>
    intro t ih c vd v bs e hf hv
    cases v <;> simp only [encode] at e <;> try simp at e
    rename_i vs
    obtain ⟨hs, e⟩ := e
    simp only [fits, vcheck, Bool.and_eq_true, Bool.or_eq_true, decide_eq_true_eq,
      Bool.not_eq_true', List.all_eq_true] at hf hv
    rw [decode_set]
    have hfix : fromIter id vs = vs :=
      fromIter_of_sorted (ordOn_WT t) id vs
        (fun x hx => by obtain ⟨b, hb⟩ := encSeq_mem e x hx; exact ⟨c, by simp only [id]; rw [hb]; rfl⟩) hs
    refine RTT.container _ _ _ (p := fun v => fits L t v = true ∧ vcheck t vd v = true)
      (fun v b h1 h2 => ih c vd v b h1 h2.1 h2.2) vs bs e hf.1.1 ?_
      (fun v hv' => ⟨hf.2 v hv', hv v hv'⟩) (by rw [hfix]; exact RTT.pure _)
    intro hz; rcases hf.1.2 with h | h
    · rw [hz] at h; cases h
    · exact h
  case map =>
    intro k v ihk ihv c vd x bs e hf hv
    cases x with
    | seq es =>
      rw [encode_map_eq] at e
      have hs : sortedBy entryKey es = true := by
        by_cases hs : sortedBy entryKey es = true
        · exact hs
        · rw [if_neg hs] at e; cases e
      rw [if_pos hs] at e
      simp only [fits, vcheck, Bool.and_eq_true, Bool.or_eq_true, decide_eq_true_eq,
        Bool.not_eq_true', List.all_eq_true] at hf hv
      rw [decode_map, entryM_eq]
      have hp : PT L (.tup [k, v]) := rtt_tup (rtt_cons ihk (rtt_cons ihv (rtt_nil L)))
      have hwt : ∀ x ∈ es, WT (.tup [k, v]) x := fun x hx => by
        obtain ⟨b, hb⟩ := encSeq_mem e x hx; exact ⟨c, by rw [hb]; rfl⟩
      have hfix : fromIter entryKey es = es :=
        fromIter_of_sorted (ordOn_WT k) entryKey es
          (fun x hx => by
            obtain ⟨a, b, rfl, ha, _⟩ := (hwt x hx).pair_inv
            exact ha) hs
      refine RTT.container _ _ _
        (p := fun e => fits L (.tup [k, v]) e = true ∧ vcheck (.tup [k, v]) vd e = true)
        (fun x b h1 h2 => hp c vd x b h1 h2.1 h2.2) es bs e hf.1.1 ?_ ?_
        (by rw [hfix]; exact RTT.pure _)
      · intro hz; rcases hf.1.2 with h | h
        · rw [hz] at h; cases h
        · exact h
      · intro x hx
        obtain ⟨a, b, rfl, _, _⟩ := (hwt x hx).pair_inv
        have h1 := hf.2 _ hx
        have h2 := hv _ hx
        simp only [Bool.and_eq_true] at h1 h2
        simp [fits, fitsTup, vcheck, vcheckTup, h1, h2]
    | _ => simp [encode] at e
  case wrap =>
    intro w t ih c vd v bs e hf hv
    rw [encode_wrap] at e; rw [decode_wrap]
    simp only [fits, vcheck] at hf hv
    exact ih c vd v bs e hf hv
  case pin =>
    intro p t ih c vd v bs e hf hv
    rw [encode_pin] at e; rw [decode_pin]
    simp only [fits, vcheck] at hf hv
    exact ih _ _ v bs e hf hv
  case struct =>
    intro ts ih c vd v bs e hf hv
    rw [encode_struct] at e; rw [decode_struct]
    cases v with
    | seq vs =>
      simp only [fits, vcheck] at hf hv
      exact rtt_tup ih c vd (.seq vs) bs e (by simpa [fits] using hf) (by simpa [vcheck] using hv)
    | _ => simp [encode] at e
  case nil => exact rtt_nil L
  case cons => intro t ts h1 h2; exact rtt_cons h1 h2

/-! ## T7: canonicity and well-typedness of decoded values -/

/-- on inputs made of bytes, an `ok` run of `d` consumes a prefix, returns a value accepted by the
    serialiser `enc`, and (if `can`) the serialisation of that value is the consumed prefix -/
def CW {α} (can : Bool) (d : M α) (enc : α → Option (List Nat)) : Prop :=
  ∀ s a s', (∀ b ∈ s.inp, b < 256) → d s = .ok a s' →
    ∃ pre, s.inp = pre ++ s'.inp ∧ (enc a).isSome ∧ (can = true → enc a = some pre)

theorem bytes_suffix {inp pre rest : List Nat} (h : ∀ b ∈ inp, b < 256) (e : inp = pre ++ rest) :
    (∀ b ∈ pre, b < 256) ∧ (∀ b ∈ rest, b < 256) := by
  subst e
  exact ⟨fun b hb => h b (by simp [hb]), fun b hb => h b (by simp [hb])⟩

theorem repeatM_length {α} (d : M α) : ∀ n s vs s', repeatM d n s = .ok vs s' → vs.length = n := by
  intro n
  induction n with
  | zero => intro s vs s' h; simp [repeatM] at h; simp [← h.1]
  | succ n ih =>
    intro s vs s' h
    simp only [repeatM, run_bind] at h
    cases h1 : d s with
    | fail f s1 => simp [h1] at h
    | ok a s1 =>
      simp only [h1] at h
      cases h2 : repeatM d n s1 with
      | fail f s2 => simp [h2] at h
      | ok as s2 =>
        simp only [h2, run_pure, R.ok.injEq] at h
        rw [← h.1]; simp [ih s1 as s2 h2]

theorem CW.repeatM {can : Bool} {d : M Val} {enc : Val → Option (List Nat)} (h : CW can d enc) :
    ∀ n, CW can (repeatM d n) (concatMapM enc) := by
  intro n
  induction n with
  | zero =>
    intro s a s' _ hd
    simp [Ark.Serial.repeatM] at hd
    obtain ⟨rfl, rfl⟩ := hd
    exact ⟨[], rfl, by simp [concatMapM], fun _ => by simp [concatMapM]⟩
  | succ n ih =>
    intro s a s' hb hd
    simp only [Ark.Serial.repeatM, run_bind] at hd
    cases h1 : d s with
    | fail f s1 => simp [h1] at hd
    | ok x s1 =>
      simp only [h1] at hd
      cases h2 : Ark.Serial.repeatM d n s1 with
      | fail f s2 => simp [h2] at hd
      | ok xs s2 =>
        simp only [h2, run_pure, R.ok.injEq] at hd
        obtain ⟨rfl, rfl⟩ := hd
        obtain ⟨p1, e1, w1, c1⟩ := h s x s1 hb h1
        obtain ⟨p2, e2, w2, c2⟩ := ih s1 xs s2 (bytes_suffix hb e1).2 h2
        refine ⟨p1 ++ p2, by rw [e1, e2]; simp, ?_, ?_⟩
        · simp only [concatMapM]
          obtain ⟨a1, ha1⟩ := Option.isSome_iff_exists.1 w1
          obtain ⟨a2, ha2⟩ := Option.isSome_iff_exists.1 w2
          simp [ha1, ha2]
        · intro hc; simp [concatMapM, c1 hc, c2 hc]

/-- what an `ok` run of a length-prefixed reader looks like -/
theorem lenHdr_ok {α β} {L : Limits} {chk : Bool} {cap : Option Nat} {zw : Bool} {f : M α}
    {k : List α → M β} {s : St} {r : β} {s' : St} (h : lenHdr L chk cap zw f k s = .ok r s') :
    ∃ l8 rest evs vs s3, s.inp = l8 ++ rest ∧ l8.length = 8 ∧
      repeatM f (leValue l8) ⟨rest, s.evs ++ evs⟩ = .ok vs s3 ∧ k vs s3 = .ok r s' := by
  unfold lenHdr at h
  by_cases hlen : s.inp.length < 8
  · rw [decU_short 8 s hlen] at h; cases h
  · obtain ⟨inp, e⟩ := s
    simp only at hlen
    obtain ⟨l8, rest, hi, hl8⟩ : ∃ l8 rest, inp = l8 ++ rest ∧ l8.length = 8 :=
      ⟨inp.take 8, inp.drop 8, by simp, by simp; omega⟩
    subst hi
    rw [decU_append 8 l8 rest e hl8] at h
    simp only at h
    split at h
    · cases h
    · obtain ⟨ev2, hst, _, _⟩ := capM_spec L True cap l8 rest e hl8
      cases hcap : capM L cap (leValue l8) ⟨rest, e⟩ with
      | fail f s1 => rw [hcap] at h; cases h
      | ok u s2 =>
        rw [hcap] at h hst
        simp only [R.st] at hst
        subst hst
        simp only at h
        split at h
        · cases h
        · cases hr : repeatM f (leValue l8) ⟨rest, e ++ ev2⟩ with
          | fail f s1 => rw [hr] at h; cases h
          | ok vs s3 =>
            rw [hr] at h
            exact ⟨l8, rest, ev2, vs, s3, rfl, hl8, hr, h⟩

theorem IntTy.enc_dec (k : IntTy) (bs : List Nat) (hl : bs.length = k.width)
    (hb : ∀ b ∈ bs, b < 256) : k.enc (k.dec bs) = some bs := by
  have hn := leValue_lt bs hb; rw [hl] at hn
  have hbs := leBytes_leValue bs hb; rw [hl] at hbs
  rw [IntTy.dec_of k bs _ rfl]
  generalize leValue bs = n at *
  unfold IntTy.enc
  cases k <;> simp only [IntTy.width, IntTy.signed] at hn hbs ⊢ <;>
    simp only [Bool.false_eq_true, false_and, if_false, if_true, true_and, Nat.reducePow,
      Nat.reduceDiv] at hn hbs ⊢
  all_goals subst hbs
  all_goals first
    | (rw [if_pos ⟨by omega, by simp only [Int.reducePow]; omega⟩, Int.toNat_natCast])
    | (by_cases h : n ≥ 128 <;> simp only [h, if_true, if_false, Int.reducePow, Int.reduceDiv, Int.reduceNeg] <;>
        rw [if_pos (by omega)] <;> congr 2 <;> omega)
    | skip

theorem bind_ok {α β} {m : M α} {k : α → M β} {s : St} {b : β} {s' : St}
    (h : (m >>= k) s = .ok b s') : ∃ a s1, m s = .ok a s1 ∧ k a s1 = .ok b s' := by
  simp only [run_bind] at h
  cases h1 : m s with
  | fail f s1 => simp [h1] at h
  | ok a s1 => rw [h1] at h; exact ⟨a, s1, rfl, h⟩

theorem pure_ok {α} {a b : α} {s s' : St} (h : (pure a : M α) s = .ok b s') : b = a ∧ s' = s := by
  simp only [run_pure, R.ok.injEq] at h; exact ⟨h.1.symm, h.2.symm⟩

theorem readExact_ok {n : Nat} {s : St} {bs : List Nat} {s' : St} (h : readExact n s = .ok bs s') :
    s.inp = bs ++ s'.inp ∧ bs.length = n ∧ s'.evs = s.evs := by
  unfold readExact at h
  split at h
  · cases h
  · simp only [R.ok.injEq] at h
    obtain ⟨rfl, rfl⟩ := h
    refine ⟨by simp, by simp; omega, rfl⟩

theorem decU_ok {w : Nat} {s : St} {n : Nat} {s' : St} (h : decU w s = .ok n s') :
    ∃ bs, s.inp = bs ++ s'.inp ∧ bs.length = w ∧ n = leValue bs := by
  unfold decU at h
  obtain ⟨bs, s1, h1, h2⟩ := bind_ok h
  obtain ⟨rfl, rfl⟩ := pure_ok h2
  obtain ⟨e, l, _⟩ := readExact_ok h1
  exact ⟨bs, e, l, rfl⟩

theorem decBool_ok {s : St} {b : Bool} {s' : St} (h : decBool s = .ok b s') :
    s.inp = (if b then 1 else 0) :: s'.inp := by
  unfold decBool at h
  obtain ⟨n, s1, h1, h2⟩ := bind_ok h
  obtain ⟨bs, e, l, rfl⟩ := decU_ok h1
  match bs, l with
  | [x], _ =>
    simp only [leValue_single] at h2
    by_cases h0 : x = 0
    · rw [if_pos h0] at h2; obtain ⟨rfl, rfl⟩ := pure_ok h2; simp [e, h0]
    · rw [if_neg h0] at h2
      by_cases hx1 : x = 1
      · rw [if_pos hx1] at h2; obtain ⟨rfl, rfl⟩ := pure_ok h2; simp [e, hx1]
      · rw [if_neg hx1] at h2; cases h2

theorem decMl_ok {c : Compress} {vd : Validate} {s : St} {v : Val} {s' : St}
    (h : decMl c vd s = .ok v s') : ∃ x : Nat, v = .int x ∧ s.inp = mlBytes c x ++ s'.inp := by
  unfold decMl at h
  have hj : ∀ (x : Nat) (s1 : St), (if (decide (vd = Validate.yes) && x == 238) = true
      then failM (Fail.err Err.invalid) else Pure.pure (Val.int ↑x) : M Val) s1 = .ok v s' →
      v = .int x ∧ s' = s1 := by
    intro x s1 h
    split at h
    · cases h
    · exact pure_ok h
  cases c
  · obtain ⟨n, s1, h1, h2⟩ := bind_ok h
    obtain ⟨bs, e, l, rfl⟩ := decU_ok h1
    obtain ⟨rfl, rfl⟩ := hj _ _ h2
    match bs, l with
    | [x], _ => exact ⟨x, by simp, by simp [mlBytes, e]⟩
  · obtain ⟨bs, s1, h1, h2⟩ := bind_ok h
    obtain ⟨e, l, _⟩ := readExact_ok h1
    match bs, l with
    | [a, b], _ =>
      simp only at h2
      split at h2
      · rename_i hb
        obtain ⟨x, s2, h3, h4⟩ := bind_ok h2
        obtain ⟨rfl, rfl⟩ := pure_ok h3
        obtain ⟨rfl, rfl⟩ := hj _ _ h4
        exact ⟨x, rfl, by simp [mlBytes, e, hb]⟩
      · obtain ⟨x, s2, h3, h4⟩ := bind_ok h2
        cases h3

theorem repeat_decU1_ok : ∀ (n : Nat) (s : St) (bs : List Nat) (s' : St),
    repeatM (decU 1) n s = .ok bs s' → s.inp = bs ++ s'.inp ∧ bs.length = n := by
  intro n
  induction n with
  | zero => intro s bs s' h; obtain ⟨rfl, rfl⟩ := pure_ok h; simp
  | succ n ih =>
    intro s bs s' h
    simp only [repeatM] at h
    obtain ⟨x, s1, h1, h2⟩ := bind_ok h
    obtain ⟨xs, s2, h3, h4⟩ := bind_ok h2
    obtain ⟨rfl, rfl⟩ := pure_ok h4
    obtain ⟨b1, e1, l1, rfl⟩ := decU_ok h1
    obtain ⟨e2, l2⟩ := ih s1 xs s' h3
    match b1, l1 with
    | [y], _ => simp [e1, e2, l2]

theorem decVecU8_ok {L : Limits} {s : St} {bs : List Nat} {s' : St} (h : decVecU8 L s = .ok bs s') :
    ∃ l8, s.inp = l8 ++ (bs ++ s'.inp) ∧ l8.length = 8 ∧ leValue l8 = bs.length := by
  rw [decVecU8_eq] at h
  obtain ⟨l8, rest, evs, vs, s3, e, hl, hr, hk⟩ := lenHdr_ok h
  obtain ⟨rfl, rfl⟩ := pure_ok hk
  obtain ⟨e2, l2⟩ := repeat_decU1_ok _ _ _ _ hr
  exact ⟨l8, by rw [e]; simp only at e2; rw [e2], hl, l2.symm⟩

theorem seqK_ok {t : Ty} {vd : Validate} {vs : List Val} {s : St} {r : Val} {s' : St}
    (h : seqK t vd vs s = .ok r s') : r = .seq vs ∧ s' = s := by
  unfold seqK batchM at h
  obtain ⟨u, s1, h1, h2⟩ := bind_ok h
  obtain ⟨rfl, rfl⟩ := pure_ok h2
  split at h1
  · cases h1
  · obtain ⟨_, rfl⟩ := pure_ok h1; exact ⟨rfl, rfl⟩

theorem lenHdr_cw {can : Bool} {d : M Val} {enc : Val → Option (List Nat)} (h : CW can d enc)
    {L : Limits} {chk : Bool} {cap : Option Nat} {zw : Bool} {k : List Val → M Val}
    {s : St} {r : Val} {s' : St} (hb : ∀ b ∈ s.inp, b < 256)
    (hd : lenHdr L chk cap zw d k s = .ok r s') :
    ∃ vs s3 pre, k vs s3 = .ok r s' ∧ s.inp = pre ++ s3.inp ∧ (∀ v ∈ vs, (enc v).isSome) ∧
      (can = true → encSeq enc vs = some pre) := by
  obtain ⟨l8, rest, evs, vs, s3, e, hl, hr, hk⟩ := lenHdr_ok hd
  obtain ⟨hb1, hb2⟩ := bytes_suffix hb e
  obtain ⟨p, e2, w, c⟩ := CW.repeatM h _ _ vs s3 hb2 hr
  have hlen := repeatM_length d _ _ _ _ hr
  refine ⟨vs, s3, l8 ++ p, hk, by rw [e]; simp only at e2; rw [e2]; simp,
    (concatMapM_isSome enc vs).1 w, ?_⟩
  intro hc
  unfold encSeq
  rw [c hc, hlen]
  have := leBytes_leValue l8 hb1
  rw [hl] at this
  simp [this]

def PC (L : Limits) (t : Ty) : Prop := ∀ c vd, CW (canonical t) (decode L t c vd) (encode t c)
def QC (L : Limits) (ts : List Ty) : Prop :=
  ∀ c vd, CW (canonicalAll ts) (decodeTup L ts c vd) (encodeTup ts c)

theorem cw_nil (L) : QC L [] := by
  intro c vd s a s' _ h
  simp only [decodeTup] at h
  obtain ⟨rfl, rfl⟩ := pure_ok h
  exact ⟨[], rfl, by simp [encodeTup], fun _ => by simp [encodeTup]⟩

theorem cw_cons {L t ts} (ht : PC L t) (hts : QC L ts) : QC L (t :: ts) := by
  intro c vd s a s' hb h
  simp only [decodeTup] at h
  obtain ⟨x, s1, h1, h2⟩ := bind_ok h
  obtain ⟨xs, s2, h3, h4⟩ := bind_ok h2
  obtain ⟨rfl, rfl⟩ := pure_ok h4
  obtain ⟨p1, e1, w1, c1⟩ := ht c vd s x s1 hb h1
  obtain ⟨p2, e2, w2, c2⟩ := hts c vd s1 xs s' (bytes_suffix hb e1).2 h3
  refine ⟨p1 ++ p2, by rw [e1, e2]; simp, ?_, ?_⟩
  · simp only [encodeTup]
    obtain ⟨a1, ha1⟩ := Option.isSome_iff_exists.1 w1
    obtain ⟨a2, ha2⟩ := Option.isSome_iff_exists.1 w2
    simp [ha1, ha2]
  · intro hc
    simp only [canonicalAll, Bool.and_eq_true] at hc
    simp [encodeTup, c1 hc.1, c2 hc.2]

theorem cw_tup {L ts} (h : QC L ts) : PC L (.tup ts) := by
  intro c vd s a s' hb hd
  simp only [decode] at hd
  obtain ⟨xs, s1, h1, h2⟩ := bind_ok hd
  obtain ⟨rfl, rfl⟩ := pure_ok h2
  obtain ⟨p, e, w, cc⟩ := h c vd s xs s' hb h1
  exact ⟨p, e, by simpa [encode] using w, fun hc => by
    simp only [canonical] at hc; simpa [encode] using cc hc⟩

theorem cw_seq {L t} (ih : PC L t) (chk : Bool) (cap : Option Nat) (c vd)
    (E : Val → Option (List Nat)) (hE : ∀ vs, E (.seq vs) = encSeq (fun v => encode t c v) vs) :
    CW (canonical t) (lenHdr L chk cap (zeroWidth t) (decode L t c .no) (seqK t vd)) E := by
  intro s a s' hb hd
  obtain ⟨vs, s3, pre, hk, e, w, cc⟩ := lenHdr_cw (ih c .no) hb hd
  obtain ⟨rfl, rfl⟩ := seqK_ok hk
  refine ⟨pre, e, ?_, fun hc => ?_⟩
  · rw [hE]; exact (encSeq_isSome _ _).2 w
  · rw [hE]; exact cc hc

/-- T7, by induction on the type universe -/
theorem cw_decode (L : Limits) : ∀ t, PC L t := by
  apply Ty.ind (P := PC L) (Q := QC L)
  case int =>
    intro k c vd s a s' hb hd
    simp only [decode] at hd
    obtain ⟨bs, s1, h1, h2⟩ := bind_ok hd
    obtain ⟨rfl, rfl⟩ := pure_ok h2
    obtain ⟨e, l, _⟩ := readExact_ok h1
    have := IntTy.enc_dec k bs l (bytes_suffix hb e).1
    exact ⟨bs, e, by simp [encode, this], fun _ => by simp [encode, this]⟩
  case bool =>
    intro c vd s a s' hb hd
    simp only [decode] at hd
    obtain ⟨b, s1, h1, h2⟩ := bind_ok hd
    obtain ⟨rfl, rfl⟩ := pure_ok h2
    exact ⟨[if b then 1 else 0], by simpa using decBool_ok h1, by simp [encode], fun _ => by simp [encode]⟩
  case phantom =>
    intro c vd s a s' hb hd
    simp only [decode] at hd
    obtain ⟨rfl, rfl⟩ := pure_ok hd
    exact ⟨[], rfl, by simp [encode], fun _ => by simp [encode]⟩
  case ml =>
    intro c vd s a s' hb hd
    simp only [decode] at hd
    obtain ⟨x, rfl, e⟩ := decMl_ok hd
    have hx : x < 256 := (bytes_suffix hb e).1 x (by cases c <;> simp [mlBytes])
    have henc : encode .ml c (.int x) = some (mlBytes c x) := by
      simp only [encode]
      rw [if_pos ⟨by omega, by omega⟩]
      cases c <;> simp [mlBytes]
    exact ⟨mlBytes c x, e, by simp [henc], fun _ => henc⟩
  case opt =>
    intro t ih c vd s a s' hb hd
    simp only [decode] at hd
    obtain ⟨b, s1, h1, h2⟩ := bind_ok hd
    have e1 := decBool_ok h1
    cases b with
    | false =>
      simp only [Bool.false_eq_true, if_false] at h2 e1
      obtain ⟨rfl, rfl⟩ := pure_ok h2
      exact ⟨[0], by simpa using e1, by simp [encode], fun _ => by simp [encode]⟩
    | true =>
      simp only [if_true] at h2 e1
      obtain ⟨x, s2, h3, h4⟩ := bind_ok h2
      obtain ⟨rfl, rfl⟩ := pure_ok h4
      have hb1 : ∀ b ∈ s1.inp, b < 256 := fun b hb' => hb b (by rw [e1]; simp [hb'])
      obtain ⟨p, e, w, cc⟩ := ih c vd s1 x s' hb1 h3
      refine ⟨1 :: p, by rw [e1, e]; simp, by simpa [encode] using w, fun hc => ?_⟩
      simp only [canonical] at hc
      simp [encode, cc hc]
  case tup => intro ts ih; exact cw_tup ih
  case arr =>
    intro n t ih c vd s a s' hb hd
    simp only [decode] at hd
    have hd' : (repeatM (decode L t c .no) n >>= seqK t vd) s = .ok a s' := hd
    obtain ⟨vs, s1, h1, h2⟩ := bind_ok hd'
    obtain ⟨rfl, rfl⟩ := seqK_ok h2
    obtain ⟨p, e, w, cc⟩ := CW.repeatM (ih c .no) n s vs s' hb h1
    have hl := repeatM_length _ _ _ _ _ h1
    refine ⟨p, e, by simpa [encode, hl] using w, fun hc => ?_⟩
    simp only [canonical] at hc
    simp [encode, hl, cc hc]
  case vec =>
    intro esz t ih c vd; rw [decode_vec]
    exact cw_seq ih _ _ c vd _ (fun vs => by simp [encode])
  case deq =>
    intro esz t ih c vd; rw [decode_deq]
    exact cw_seq ih _ _ c vd _ (fun vs => by simp [encode])
  case list =>
    intro t ih c vd; rw [decode_list]
    exact cw_seq ih _ _ c vd _ (fun vs => by simp [encode])
  case slice =>
    intro t ih c vd; rw [decode_slice]
    exact cw_seq ih _ _ c vd _ (fun vs => by simp [encode])
  case str =>
    intro c vd s a s' hb hd
    simp only [decode] at hd
    obtain ⟨bs, s1, h1, h2⟩ := bind_ok hd
    obtain ⟨l8, e, hl, hv⟩ := decVecU8_ok h1
    split at h2
    · rename_i hu
      obtain ⟨rfl, rfl⟩ := pure_ok h2
      obtain ⟨hb1, hb2⟩ := bytes_suffix hb e
      have hbs : ∀ b ∈ bs, b < 256 := fun b hb' => hb2 b (by simp [hb'])
      have h8 := leBytes_leValue l8 hb1
      rw [hl, hv] at h8
      have henc : encode .str c (.bytes bs) = some (l8 ++ bs) := by
        simp only [encode]
        rw [if_pos (by simp [hu]; exact hbs), h8]
      exact ⟨l8 ++ bs, by rw [e]; simp, by simp [henc], fun _ => henc⟩
    · cases h2
  case big =>
    intro c vd s a s' hb hd
    simp only [decode] at hd
    obtain ⟨bs, s1, h1, h2⟩ := bind_ok hd
    obtain ⟨l8, e, hl, hv⟩ := decVecU8_ok h1
    obtain ⟨rfl, rfl⟩ := pure_ok h2
    exact ⟨l8 ++ bs, by rw [e]; simp, by simp [encode], fun hc => by simp [canonical] at hc⟩
  case set =>
    intro t ih c vd s a s' hb hd
    rw [decode_set] at hd
    obtain ⟨vs, s3, pre, hk, e, w, _⟩ := lenHdr_cw (ih c vd) hb hd
    obtain ⟨rfl, rfl⟩ := pure_ok hk
    refine ⟨pre, e, ?_, fun hc => by simp [canonical] at hc⟩
    have hs : sortedBy id (fromIter id vs) = true :=
      sortedBy_fromIter (ordOn_WT t) id vs (fun x hx => ⟨c, w x hx⟩)
    simp only [encode, hs, if_true]
    exact (encSeq_isSome _ _).2 (fun v hv => w v (mem_fromIter_subset id vs v hv))
  case map =>
    intro k v ihk ihv c vd s a s' hb hd
    rw [decode_map, entryM_eq] at hd
    have hp : PC L (.tup [k, v]) := cw_tup (cw_cons ihk (cw_cons ihv (cw_nil L)))
    obtain ⟨vs, s3, pre, hk, e, w, _⟩ := lenHdr_cw (hp c vd) hb hd
    obtain ⟨rfl, rfl⟩ := pure_ok hk
    refine ⟨pre, e, ?_, fun hc => by simp [canonical] at hc⟩
    have hs : sortedBy entryKey (fromIter entryKey vs) = true :=
      sortedBy_fromIter (ordOn_WT k) entryKey vs (fun x hx => by
        obtain ⟨a, b, rfl, ha, _⟩ := (WT.pair_inv ⟨c, w x hx⟩)
        exact ha)
    rw [encode_map_eq, if_pos hs]
    exact (encSeq_isSome _ _).2 (fun v hv => w v (mem_fromIter_subset entryKey vs v hv))
  case wrap =>
    intro w t ih c vd
    simp only [decode_wrap, canonical]
    have : encode (.wrap w t) c = encode t c := by funext v; exact encode_wrap w t c v
    rw [this]; exact ih c vd
  case pin =>
    intro p t ih c vd
    simp only [decode_pin, canonical]
    have : encode (.pin p t) c = encode t p.compress := by funext v; exact encode_pin p t c v
    rw [this]; exact ih _ _
  case struct =>
    intro ts ih c vd
    rw [decode_struct, canonical_struct]
    have : encode (.struct ts) c = encode (.tup ts) c := by funext v; exact encode_struct ts c v
    rw [this]; exact cw_tup ih c vd
  case nil => exact cw_nil L
  case cons => intro t ts h1 h2; exact cw_cons h1 h2

/-! ## T2c: a value that does not pass validation is refused with `InvalidData` -/

def INV {α} (L : Limits) (d : M α) (b : List Nat) : Prop :=
  ∀ rest e, usedEv e + 512 * b.length ≤ L.mem → ∃ s', d ⟨b ++ rest, e⟩ = .fail (.err .invalid) s'

theorem INV.bind_left {α β} {L} {d : M α} {k : α → M β} {b1 : List Nat} (b2 : List Nat)
    (h : INV L d b1) : INV L (d >>= k) (b1 ++ b2) := by
  intro rest e hm
  simp only [List.length_append] at hm
  obtain ⟨s', hs⟩ := h (b2 ++ rest) e (by omega)
  exact ⟨s', by simp only [run_bind, List.append_assoc, hs]⟩

theorem INV.bind_right {α β} {L} {d : M α} {k : α → M β} {b1 b2 : List Nat} {a : α}
    (h1 : RTT L d b1 a) (h2 : INV L (k a) b2) : INV L (d >>= k) (b1 ++ b2) := by
  intro rest e hm
  simp only [List.length_append] at hm
  obtain ⟨ev1, e1, u1⟩ := h1.rt (b2 ++ rest) e (by omega)
  obtain ⟨s', hs⟩ := h2 rest (e ++ ev1) (by rw [usedEv_append]; omega)
  exact ⟨s', by simp only [run_bind, List.append_assoc, e1, hs]⟩

theorem INV.of_eq {α} {L} {d : M α} {b b' : List Nat} (h : INV L d b) (e : b = b') : INV L d b' :=
  e ▸ h

theorem INV.repeatM {L} {d : M Val} {f : Val → Option (List Nat)} {q : Val → Prop} {p : Val → Bool}
    (h : ∀ v b, f v = some b → q v → (p v = true → RTT L d b v) ∧ (p v = false → INV L d b)) :
    ∀ vs bs, concatMapM f vs = some bs → (∀ v ∈ vs, q v) → (∃ v ∈ vs, p v = false) →
      INV L (Ark.Serial.repeatM d vs.length) bs := by
  intro vs
  induction vs with
  | nil => intro bs _ _ ⟨v, hv, _⟩; simp at hv
  | cons v vs ih =>
    intro bs e hq hex
    simp only [concatMapM] at e
    cases hv : f v with
    | none => simp [hv] at e
    | some a =>
      cases hvs : concatMapM f vs with
      | none => simp [hv, hvs] at e
      | some b =>
        simp only [hv, hvs, Option.some.injEq] at e
        subst e
        simp only [List.length_cons, Ark.Serial.repeatM]
        have hh := h v a hv (hq v (by simp))
        cases hp : p v with
        | false => exact INV.bind_left b (hh.2 hp)
        | true =>
          have hex' : ∃ x ∈ vs, p x = false := by
            obtain ⟨x, hx, hpx⟩ := hex
            rcases List.mem_cons.1 hx with rfl | hx
            · rw [hp] at hpx; cases hpx
            · exact ⟨x, hx, hpx⟩
          have := ih b hvs (fun x hx => hq x (by simp [hx])) hex'
          exact INV.bind_right (hh.1 hp) ((INV.bind_left [] this).of_eq (by simp))

theorem INV.lenHdr {α β} {L} (chk : Bool) (cap : Option Nat) (zw : Bool) {f : M α}
    {k : List α → M β} (n : Nat) (body : List Nat)
    (hn : n < 2 ^ 64) (hz : zw = true → n ≤ L.steps)
    (h : INV L (Ark.Serial.repeatM f n >>= k) body) :
    INV L (Ark.Serial.lenHdr L chk cap zw f k) (leBytes 8 n ++ body) := by
  intro rest e hm
  simp only [List.length_append, leBytes_length] at hm
  rw [List.append_assoc, lenHdr_run L chk cap zw f k n (body ++ rest) e hn hz (by omega)]
  have hu := usedEv_capEv cap n (body ++ rest).length
  exact h rest _ (by rw [usedEv_append]; omega)

/-- a length-prefixed container one of whose elements is refused, or whose continuation refuses -/
theorem INV.container {α} {L} (chk : Bool) (cap : Option Nat) (zw : Bool) {d : M Val}
    {f : Val → Option (List Nat)} {q : Val → Prop} {p : Val → Bool} {k : List Val → M α}
    (h : ∀ v b, f v = some b → q v → (p v = true → RTT L d b v) ∧ (p v = false → INV L d b))
    (vs : List Val) (bs : List Nat)
    (he : encSeq f vs = some bs) (hn : vs.length < 2 ^ 64) (hz : zw = true → vs.length ≤ L.steps)
    (hq : ∀ v ∈ vs, q v)
    (hbad : (∃ v ∈ vs, p v = false) ∨ ((∀ v ∈ vs, p v = true) ∧ INV L (k vs) [])) :
    INV L (Ark.Serial.lenHdr L chk cap zw d k) bs := by
  unfold encSeq at he
  cases hc : concatMapM f vs with
  | none => simp [hc] at he
  | some body =>
    simp only [hc, Option.map_some, Option.some.injEq] at he
    subst he
    apply INV.lenHdr _ _ _ _ _ hn hz
    rcases hbad with hex | ⟨hall, hk⟩
    · exact (INV.bind_left [] (INV.repeatM h vs body hc hq hex)).of_eq (by simp)
    · have hr := RTT.repeatM (L := L) (d := d) (f := f) (p := fun v => q v ∧ p v = true)
        (fun v b h1 h2 => (h v b h1 h2.1).1 h2.2) vs body hc (fun v hv => ⟨hq v hv, hall v hv⟩)
      exact (INV.bind_right hr hk).of_eq (by simp)

theorem INV.seqK {L} (t : Ty) (vs : List Val)
    (h : vs.all (fun v => check t v) = false) : INV L (Ark.Serial.seqK t .yes vs) [] := by
  intro rest e _
  refine ⟨⟨rest, e⟩, ?_⟩
  simp [Ark.Serial.seqK, batchM, h]

theorem all_false_ex {α} {p : α → Bool} : ∀ {l : List α}, l.all p = false → ∃ x ∈ l, p x = false := by
  intro l
  induction l with
  | nil => intro h; simp at h
  | cons a l ih =>
    intro h
    simp only [List.all_cons, Bool.and_eq_false_iff] at h
    rcases h with h | h
    · exact ⟨a, by simp, h⟩
    · obtain ⟨x, hx, hp⟩ := ih h; exact ⟨x, by simp [hx], hp⟩

def PI (L : Limits) (t : Ty) : Prop :=
  ∀ c vd v bs, encode t c v = some bs → fits L t v = true → vcheck t vd v = false →
    INV L (decode L t c vd) bs
def QI (L : Limits) (ts : List Ty) : Prop :=
  ∀ c vd vs bs, encodeTup ts c vs = some bs → fitsTup L ts vs = true → vcheckTup ts vd vs = false →
    INV L (decodeTup L ts c vd) bs

theorem inv_nil (L) : QI L [] := by
  intro c vd vs bs e _ hv
  cases vs <;> simp [vcheckTup] at hv

theorem inv_cons {L t ts} (ht : PI L t) (hts : QI L ts) : QI L (t :: ts) := by
  intro c vd vs bs e hf hv
  cases vs with
  | nil => simp [encodeTup] at e
  | cons v vs =>
    simp only [encodeTup] at e
    cases h1 : encode t c v with
    | none => simp [h1] at e
    | some a =>
      cases h2 : encodeTup ts c vs with
      | none => simp [h1, h2] at e
      | some b =>
        simp only [h1, h2, Option.some.injEq] at e; subst e
        simp only [fitsTup, Bool.and_eq_true] at hf
        simp only [vcheckTup] at hv
        simp only [decodeTup]
        cases hp : vcheck t vd v with
        | false => exact INV.bind_left b (ht c vd v a h1 hf.1 hp)
        | true =>
          rw [hp, Bool.true_and] at hv
          exact INV.bind_right (rtt_decode L t c vd v a h1 hf.1 hp)
            ((INV.bind_left [] (hts c vd vs b h2 hf.2 hv)).of_eq (by simp))

theorem inv_tup {L ts} (h : QI L ts) : PI L (.tup ts) := by
  intro c vd v bs e hf hv
  cases v <;> simp [encode] at e
  simp only [fits, vcheck] at hf hv
  simp only [decode]
  exact (INV.bind_left [] (h c vd _ bs e hf hv)).of_eq (by simp)

theorem elem_facts {L t} (ih : PI L t) (c vd) : ∀ v b, encode t c v = some b → fits L t v = true →
    (vcheck t vd v = true → RTT L (decode L t c vd) b v) ∧
    (vcheck t vd v = false → INV L (decode L t c vd) b) :=
  fun v b h1 h2 => ⟨rtt_decode L t c vd v b h1 h2, ih c vd v b h1 h2⟩

theorem inv_seq {L t} (ih : PI L t) (chk : Bool) (cap : Option Nat) (c vd) (vs : List Val) (bs)
    (e : encSeq (fun v => encode t c v) vs = some bs)
    (hf : (decide (vs.length < 2 ^ 64) && (!zeroWidth t || decide (vs.length ≤ L.steps))
      && vs.all (fun v => fits L t v)) = true)
    (hv : (vs.all (fun v => vcheck t .no v) &&
      (decide (vd = .no) || vs.all (fun v => check t v))) = false) :
    INV L (lenHdr L chk cap (zeroWidth t) (decode L t c .no) (seqK t vd)) bs := by
  simp only [Bool.and_eq_true, Bool.or_eq_true, decide_eq_true_eq, Bool.not_eq_true',
    List.all_eq_true] at hf
  refine INV.container chk cap _ (q := fun v => fits L t v = true) (p := fun v => vcheck t .no v)
    (elem_facts ih c .no) vs bs e hf.1.1 ?_ hf.2 ?_
  · intro hz; rcases hf.1.2 with h | h
    · rw [hz] at h; cases h
    · exact h
  · cases hA : vs.all (fun v => vcheck t .no v) with
    | false => exact Or.inl (all_false_ex hA)
    | true =>
      rw [hA, Bool.true_and, Bool.or_eq_false_iff] at hv
      have hvd : vd = .yes := by
        cases vd
        · rfl
        · simp at hv
      subst hvd
      exact Or.inr ⟨List.all_eq_true.1 hA, INV.seqK t vs hv.2⟩

/-- T2c, by induction on the type universe -/
theorem inv_decode (L : Limits) : ∀ t, PI L t := by
  apply Ty.ind (P := PI L) (Q := QI L)
  case int => intro k c vd v bs e _ hv; cases v <;> simp [vcheck] at hv
  case bool => intro c vd v bs e _ hv; cases v <;> simp [vcheck] at hv
  case phantom => intro c vd v bs e _ hv; cases v <;> simp [vcheck] at hv
  case str => intro c vd v bs e _ hv; cases v <;> simp [vcheck] at hv
  case big => intro c vd v bs e _ hv; cases v <;> simp [vcheck] at hv
  case ml =>
    intro c vd v bs e _ hv
    cases v with
    | int x =>
      simp only [encode] at e
      have hx : 0 ≤ x ∧ x < 256 := by
        by_cases hx : 0 ≤ x ∧ x < 256
        · exact hx
        · rw [if_neg hx] at e; simp at e
      rw [if_pos hx] at e
      have hbs : bs = mlBytes c x.toNat := by
        cases c <;> simp [mlBytes] at e ⊢ <;> exact e.symm
      subst hbs
      simp only [vcheck, Bool.not_eq_eq_eq_not, Bool.not_false, Bool.and_eq_true, decide_eq_true_eq,
        beq_iff_eq] at hv
      intro rest e' _
      refine ⟨⟨rest, e'⟩, ?_⟩
      simp only [decode]
      rw [decMl_run c vd x.toNat rest e', if_pos ⟨hv.1, by omega⟩]
    | _ => simp [encode] at e
  case opt =>
    intro t ih c vd v bs e hf hv
    cases v with
    | some x =>
      simp [encode] at e
      obtain ⟨b, hb, rfl⟩ := e
      simp only [fits, vcheck] at hf hv
      simp only [decode]
      have h2 := (INV.bind_left [] (ih c vd x b hb hf hv) (k := fun x => Pure.pure (Val.some x)))
      have := INV.bind_right (RTT.decBool (L := L) true)
        (k := fun b => if b = true then decode L t c vd >>= fun x => Pure.pure (Val.some x)
          else Pure.pure Val.none) (b2 := b ++ []) (by simpa using h2)
      simpa using this
    | _ => simp [vcheck] at hv
  case tup => intro ts ih; exact inv_tup ih
  case arr =>
    intro n t ih c vd v bs e hf hv
    cases v with
    | seq vs =>
      simp [encode] at e
      obtain ⟨hn, e⟩ := e
      subst hn
      simp only [fits, List.all_eq_true] at hf
      simp only [vcheck] at hv
      simp only [decode]
      show INV L (repeatM (decode L t c .no) vs.length >>= seqK t vd) bs
      cases hA : vs.all (fun v => vcheck t .no v) with
      | false =>
        exact (INV.bind_left [] (INV.repeatM (q := fun v => fits L t v = true)
          (p := fun v => vcheck t .no v) (elem_facts ih c .no) vs bs e hf (all_false_ex hA))).of_eq
          (by simp)
      | true =>
        rw [hA, Bool.true_and, Bool.or_eq_false_iff] at hv
        have hvd : vd = .yes := by
          cases vd
          · rfl
          · simp at hv
        subst hvd
        have hr := RTT.repeatM (L := L) (d := decode L t c .no) (f := fun v => encode t c v)
          (p := fun v => fits L t v = true ∧ vcheck t .no v = true)
          (fun v b h1 h2 => rtt_decode L t c .no v b h1 h2.1 h2.2) vs bs e
          (fun v hv' => ⟨hf v hv', List.all_eq_true.1 hA v hv'⟩)
        exact (INV.bind_right hr (INV.seqK t vs hv.2)).of_eq (by simp)
    | _ => simp [vcheck] at hv
  case vec =>
    intro esz t ih c vd v bs e hf hv
    cases v <;> simp only [encode] at e <;> try simp at e
    rw [decode_vec]; exact inv_seq ih _ _ c vd _ bs e hf hv
  case deq =>
    intro esz t ih c vd v bs e hf hv
    cases v <;> simp only [encode] at e <;> try simp at e
    rw [decode_deq]; exact inv_seq ih _ _ c vd _ bs e hf hv
  case list =>
    intro t ih c vd v bs e hf hv
    cases v <;> simp only [encode] at e <;> try simp at e
    rw [decode_list]; exact inv_seq ih _ _ c vd _ bs e hf hv
  case slice =>
    intro t ih c vd v bs e hf hv
    cases v <;> simp only [encode] at e <;> try simp at e
    rw [decode_slice]; exact inv_seq ih _ _ c vd _ bs e hf hv
  case set =>
    intro t ih c vd v bs e hf hv
    cases v with
    | seq vs =>
      simp only [encode] at e
      have hs : sortedBy id vs = true := by
        by_cases hs : sortedBy id vs = true
        · exact hs
        · rw [if_neg hs] at e; cases e
      rw [if_pos hs] at e
      simp only [fits, Bool.and_eq_true, Bool.or_eq_true, decide_eq_true_eq,
        Bool.not_eq_true', List.all_eq_true] at hf
      simp only [vcheck] at hv
      rw [decode_set]
      refine INV.container _ _ _ (q := fun v => fits L t v = true) (p := fun v => vcheck t vd v)
        (elem_facts ih c vd) vs bs e hf.1.1 ?_ hf.2 (Or.inl (all_false_ex hv))
      intro hz; rcases hf.1.2 with h | h
      · rw [hz] at h; cases h
      · exact h
    | _ => simp [vcheck] at hv
  case map =>
    intro k v ihk ihv c vd x bs e hf hv
    cases x with
    | seq es =>
      rw [encode_map_eq] at e
      have hs : sortedBy entryKey es = true := by
        by_cases hs : sortedBy entryKey es = true
        · exact hs
        · rw [if_neg hs] at e; cases e
      rw [if_pos hs] at e
      simp only [fits, Bool.and_eq_true, Bool.or_eq_true, decide_eq_true_eq,
        Bool.not_eq_true', List.all_eq_true] at hf
      simp only [vcheck] at hv
      rw [decode_map, entryM_eq]
      have hp : PI L (.tup [k, v]) := inv_tup (inv_cons ihk (inv_cons ihv (inv_nil L)))
      have hwt : ∀ x ∈ es, WT (.tup [k, v]) x := fun x hx => by
        obtain ⟨b, hb⟩ := encSeq_mem e x hx; exact ⟨c, by rw [hb]; rfl⟩
      obtain ⟨x, hx, hpx⟩ := all_false_ex hv
      refine INV.container _ _ _ (q := fun e => fits L (.tup [k, v]) e = true)
        (p := fun e => vcheck (.tup [k, v]) vd e) (elem_facts hp c vd) es bs e hf.1.1 ?_ ?_
        (Or.inl ⟨x, hx, ?_⟩)
      · intro hz; rcases hf.1.2 with h | h
        · rw [hz] at h; cases h
        · exact h
      · intro y hy
        obtain ⟨a, b, rfl, _, _⟩ := (hwt y hy).pair_inv
        have h1 := hf.2 _ hy
        simp only [Bool.and_eq_true] at h1
        simp [fits, fitsTup, h1]
      · obtain ⟨a, b, rfl, _, _⟩ := (hwt x hx).pair_inv
        simp only at hpx
        simpa [vcheck, vcheckTup] using hpx
    | _ => simp [vcheck] at hv
  case wrap =>
    intro w t ih c vd v bs e hf hv
    rw [encode_wrap] at e; rw [decode_wrap]
    simp only [fits, vcheck] at hf hv
    exact ih c vd v bs e hf hv
  case pin =>
    intro p t ih c vd v bs e hf hv
    rw [encode_pin] at e; rw [decode_pin]
    simp only [fits, vcheck] at hf hv
    exact ih _ _ v bs e hf hv
  case struct =>
    intro ts ih c vd v bs e hf hv
    rw [encode_struct] at e; rw [decode_struct]
    cases v with
    | seq vs =>
      simp only [fits, vcheck] at hf hv
      exact inv_tup ih c vd (.seq vs) bs e (by simpa [fits] using hf) (by simpa [vcheck] using hv)
    | _ => simp [vcheck] at hv
  case nil => exact inv_nil L
  case cons => intro t ts h1 h2; exact inv_cons h1 h2

/-! ## relating `vcheck` to `check` -/

mutual
/-- no `…Checked` pin (`cc`, `uc`) anywhere in the type -/
def noValPin : Ty → Bool
  | .pin p t => decide (p.validate = .no) && noValPin t
  | .opt t => noValPin t
  | .tup ts => noValPinAll ts
  | .arr _ t => noValPin t
  | .vec _ t => noValPin t
  | .deq _ t => noValPin t
  | .list t => noValPin t
  | .slice t => noValPin t
  | .set t => noValPin t
  | .map k v => noValPin k && noValPin v
  | .wrap _ t => noValPin t
  | .struct fs => noValPinAll fs
  | _ => true
def noValPinAll : List Ty → Bool
  | [] => true
  | t :: ts => noValPin t && noValPinAll ts
end

mutual
/-- no `…Unchecked` pin (`cu`, `uu`) anywhere in the type -/
def noUncheckedPin : Ty → Bool
  | .pin p t => decide (p.validate = .yes) && noUncheckedPin t
  | .opt t => noUncheckedPin t
  | .tup ts => noUncheckedPinAll ts
  | .arr _ t => noUncheckedPin t
  | .vec _ t => noUncheckedPin t
  | .deq _ t => noUncheckedPin t
  | .list t => noUncheckedPin t
  | .slice t => noUncheckedPin t
  | .set t => noUncheckedPin t
  | .map k v => noUncheckedPin k && noUncheckedPin v
  | .wrap _ t => noUncheckedPin t
  | .struct fs => noUncheckedPinAll fs
  | _ => true
def noUncheckedPinAll : List Ty → Bool
  | [] => true
  | t :: ts => noUncheckedPin t && noUncheckedPinAll ts
end

theorem all_imp {α} {p q : α → Bool} (h : ∀ x, p x = true → q x = true) {l : List α}
    (hl : l.all p = true) : l.all q = true := by
  rw [List.all_eq_true] at hl ⊢; exact fun x hx => h x (hl x hx)

/-- a value that passes `check` passes every validation `decode` performs -/
theorem vcheck_of_check : ∀ t vd v, check t v = true → vcheck t vd v = true := by
  apply Ty.ind (P := fun t => ∀ vd v, check t v = true → vcheck t vd v = true)
    (Q := fun ts => ∀ vd vs, checkTup ts vs = true → vcheckTup ts vd vs = true)
  case int => intro k vd v _; cases v <;> simp [vcheck]
  case bool => intro vd v _; cases v <;> simp [vcheck]
  case phantom => intro vd v _; cases v <;> simp [vcheck]
  case str => intro vd v _; cases v <;> simp [vcheck]
  case big => intro vd v _; cases v <;> simp [vcheck]
  case ml =>
    intro vd v h; cases v <;> simp [vcheck, check] at h ⊢
    exact Or.inr h
  case opt => intro t ih vd v h; cases v <;> simp only [vcheck, check] at h ⊢; exact ih vd _ h
  case tup => intro ts ih vd v h; cases v <;> simp only [vcheck, check] at h ⊢; exact ih vd _ h
  case arr =>
    intro n t ih vd v h; cases v <;> simp only [vcheck, check] at h ⊢
    simp [all_imp (ih .no) h, h]
  case vec =>
    intro n t ih vd v h; cases v <;> simp only [vcheck, check] at h ⊢
    simp [all_imp (ih .no) h, h]
  case deq =>
    intro n t ih vd v h; cases v <;> simp only [vcheck, check] at h ⊢
    simp [all_imp (ih .no) h, h]
  case list =>
    intro t ih vd v h; cases v <;> simp only [vcheck, check] at h ⊢
    simp [all_imp (ih .no) h, h]
  case slice =>
    intro t ih vd v h; cases v <;> simp only [vcheck, check] at h ⊢
    simp [all_imp (ih .no) h, h]
  case set =>
    intro t ih vd v h; cases v <;> simp only [vcheck, check] at h ⊢
    exact all_imp (ih vd) h
  case map =>
    intro k v ihk ihv vd x h
    cases x <;> simp only [vcheck, check] at h ⊢
    rw [Bool.and_eq_true, List.all_eq_true, List.all_eq_true] at h
    rw [List.all_eq_true]
    intro e he
    have h1 := h.1 e he; have h2 := h.2 e he
    split
    · rename_i a b
      simp only at h1 h2
      simp [ihk vd a h1, ihv vd b h2]
    · rfl
  case wrap => intro w t ih vd v h; simp only [vcheck, check] at h ⊢; exact ih vd v h
  case pin => intro p t ih vd v h; simp only [vcheck, check] at h ⊢; exact ih _ v h
  case struct =>
    intro ts ih vd v h; rw [check_struct] at h
    cases v <;> simp only [vcheck, check] at h ⊢; exact ih vd _ h
  case nil => intro vd vs _; cases vs <;> simp [vcheckTup]
  case cons =>
    intro t ts iht ihts vd vs h
    cases vs with
    | nil => simp [vcheckTup]
    | cons v vs =>
      simp only [checkTup, vcheckTup, Bool.and_eq_true] at h ⊢
      exact ⟨iht vd v h.1, ihts vd vs h.2⟩

/-- without `…Checked` pins, `Validate::No` validates nothing -/
theorem vcheck_no : ∀ t v, noValPin t = true → vcheck t .no v = true := by
  apply Ty.ind (P := fun t => ∀ v, noValPin t = true → vcheck t .no v = true)
    (Q := fun ts => ∀ vs, noValPinAll ts = true → vcheckTup ts .no vs = true)
  case int => intro k v _; cases v <;> simp [vcheck]
  case bool => intro v _; cases v <;> simp [vcheck]
  case phantom => intro v _; cases v <;> simp [vcheck]
  case str => intro v _; cases v <;> simp [vcheck]
  case big => intro v _; cases v <;> simp [vcheck]
  case ml => intro v _; cases v <;> simp [vcheck]
  case opt => intro t ih v h; cases v <;> simp only [vcheck, noValPin] at h ⊢; exact ih _ h
  case tup => intro ts ih v h; cases v <;> simp only [vcheck, noValPin] at h ⊢; exact ih _ h
  case arr =>
    intro n t ih v h; cases v <;> simp only [vcheck, noValPin] at h ⊢
    simp [List.all_eq_true.2 (fun x _ => ih x h)]
  case vec =>
    intro n t ih v h; cases v <;> simp only [vcheck, noValPin] at h ⊢
    simp [List.all_eq_true.2 (fun x _ => ih x h)]
  case deq =>
    intro n t ih v h; cases v <;> simp only [vcheck, noValPin] at h ⊢
    simp [List.all_eq_true.2 (fun x _ => ih x h)]
  case list =>
    intro t ih v h; cases v <;> simp only [vcheck, noValPin] at h ⊢
    simp [List.all_eq_true.2 (fun x _ => ih x h)]
  case slice =>
    intro t ih v h; cases v <;> simp only [vcheck, noValPin] at h ⊢
    simp [List.all_eq_true.2 (fun x _ => ih x h)]
  case set =>
    intro t ih v h; cases v <;> simp only [vcheck, noValPin] at h ⊢
    exact List.all_eq_true.2 (fun x _ => ih x h)
  case map =>
    intro k v ihk ihv x h
    cases x <;> simp only [vcheck, noValPin, Bool.and_eq_true] at h ⊢
    rw [List.all_eq_true]
    intro e _
    split
    · rename_i a b _; simp [ihk a h.1, ihv b h.2]
    · rfl
  case wrap => intro w t ih v h; simp only [vcheck, noValPin] at h ⊢; exact ih v h
  case pin =>
    intro p t ih v h
    simp only [vcheck, noValPin, Bool.and_eq_true, decide_eq_true_eq] at h ⊢
    rw [h.1]; exact ih v h.2
  case struct => intro ts ih v h; cases v <;> simp only [vcheck, noValPin] at h ⊢; exact ih _ h
  case nil => intro vs _; cases vs <;> simp [vcheckTup]
  case cons =>
    intro t ts iht ihts vs h
    cases vs with
    | nil => simp [vcheckTup]
    | cons v vs =>
      simp only [noValPinAll, vcheckTup, Bool.and_eq_true] at h ⊢
      exact ⟨iht v h.1, ihts vs h.2⟩

/-- without `…Unchecked` pins, `Validate::Yes` validates at least what `check` does -/
theorem check_of_vcheck_yes : ∀ t v, noUncheckedPin t = true → vcheck t .yes v = true →
    check t v = true := by
  apply Ty.ind (P := fun t => ∀ v, noUncheckedPin t = true → vcheck t .yes v = true → check t v = true)
    (Q := fun ts => ∀ vs, noUncheckedPinAll ts = true → vcheckTup ts .yes vs = true →
      checkTup ts vs = true)
  case int => intro k v _ _; cases v <;> simp [check]
  case bool => intro v _ _; cases v <;> simp [check]
  case phantom => intro v _ _; cases v <;> simp [check]
  case str => intro v _ _; cases v <;> simp [check]
  case big => intro v _ _; cases v <;> simp [check]
  case ml => intro v _ h; cases v <;> simp [vcheck, check] at h ⊢; exact h
  case opt =>
    intro t ih v h hv; cases v <;> simp only [vcheck, check, noUncheckedPin] at h hv ⊢
    exact ih _ h hv
  case tup =>
    intro ts ih v h hv; cases v <;> simp only [vcheck, check, noUncheckedPin] at h hv ⊢
    exact ih _ h hv
  case arr =>
    intro n t ih v h hv; cases v <;> simp only [vcheck, check, noUncheckedPin] at h hv ⊢
    simp only [Bool.and_eq_true] at hv; simpa using hv.2
  case vec =>
    intro n t ih v h hv; cases v <;> simp only [vcheck, check, noUncheckedPin] at h hv ⊢
    simp only [Bool.and_eq_true] at hv; simpa using hv.2
  case deq =>
    intro n t ih v h hv; cases v <;> simp only [vcheck, check, noUncheckedPin] at h hv ⊢
    simp only [Bool.and_eq_true] at hv; simpa using hv.2
  case list =>
    intro t ih v h hv; cases v <;> simp only [vcheck, check, noUncheckedPin] at h hv ⊢
    simp only [Bool.and_eq_true] at hv; simpa using hv.2
  case slice =>
    intro t ih v h hv; cases v <;> simp only [vcheck, check, noUncheckedPin] at h hv ⊢
    simp only [Bool.and_eq_true] at hv; simpa using hv.2
  case set =>
    intro t ih v h hv; cases v <;> simp only [vcheck, check, noUncheckedPin] at h hv ⊢
    exact all_imp (fun x hx => ih x h hx) hv
  case map =>
    intro k v ihk ihv x h hv
    cases x <;> simp only [vcheck, check, noUncheckedPin, Bool.and_eq_true] at h hv ⊢
    rw [List.all_eq_true] at hv
    constructor <;> rw [List.all_eq_true] <;> intro e he <;> have h1 := hv e he <;> split <;>
      try rfl
    · rename_i a b; simp only [Bool.and_eq_true] at h1; exact ihk a h.1 h1.1
    · rename_i a b; simp only [Bool.and_eq_true] at h1; exact ihv b h.2 h1.2
  case wrap =>
    intro w t ih v h hv; simp only [vcheck, check, noUncheckedPin] at h hv ⊢; exact ih v h hv
  case pin =>
    intro p t ih v h hv
    simp only [vcheck, check, noUncheckedPin, Bool.and_eq_true, decide_eq_true_eq] at h hv ⊢
    rw [h.1] at hv; exact ih v h.2 hv
  case struct =>
    intro ts ih v h hv; rw [check_struct]
    cases v <;> simp only [vcheck, check, noUncheckedPin] at h hv ⊢; exact ih _ h hv
  case nil => intro vs _ _; cases vs <;> simp [checkTup]
  case cons =>
    intro t ts iht ihts vs h hv
    cases vs with
    | nil => simp [checkTup]
    | cons v vs =>
      simp only [noUncheckedPinAll, vcheckTup, checkTup, Bool.and_eq_true] at h hv ⊢
      exact ⟨iht v h.1 hv.1, ihts vs h.2 hv.2⟩

/-! ## T5: malformed input -/

theorem decode_bool_bad (L : Limits) (c : Compress) (vd : Validate) (b : Nat) (rest : List Nat)
    (e : List Ev) (hb : b ≥ 2) :
    decode L .bool c vd ⟨b :: rest, e⟩ = .fail (.err .invalid) ⟨rest, e⟩ := by
  simp only [decode, run_bind, decBool_cons]
  rw [if_neg (by omega), if_neg (by omega)]

theorem decode_str_bad (L : Limits) (c : Compress) (vd : Validate) (n : Nat) (s rest : List Nat)
    (e : List Ev) (hs : s.length = n) (hn : n < 2 ^ 64) (hu : utf8Valid s = false)
    (hm : usedEv e + 4096 ≤ L.mem) :
    decode L .str c vd ⟨leBytes 8 n ++ s ++ rest, e⟩ =
      .fail (.err .invalid) ⟨rest, e ++ [⟨cappedCapacity 1 n, 1, (s ++ rest).length⟩]⟩ := by
  subst hs
  simp only [decode, run_bind, decVecU8_eq, List.append_assoc]
  rw [lenHdr_run L true (some 1) false (decU 1) pure s.length (s ++ rest) e hn (by simp) hm]
  simp only [run_bind, repeat_decU1, run_pure, hu, capEv]
  rfl

/-! ## T1 for tuples and derived structs -/

theorem sizeTup_eq_length (ts c vs bs) (h : encodeTup ts c vs = some bs) :
    sizeTup ts c vs = bs.length := by
  have := size_eq_length (.tup ts) c (.seq vs) bs (by simpa [encode] using h)
  simpa [size] using this

theorem sizeFields_eq_length (fs c vs bs) (h : encodeFields fs c vs = some bs) :
    sizeFields fs c vs = bs.length := by
  rw [sizeFields_eq]; rw [encodeFields_eq] at h; exact sizeTup_eq_length fs c vs bs h

/-! ## observations on results -/

def R.failure {α} : R α → Option Fail
  | .ok _ _ => none
  | .fail f _ => some f

def R.value {α} : R α → Option α
  | .ok a _ => some a
  | .fail _ _ => none

mutual
/-- structural equality test on values, for closed examples -/
def Val.eqb : Val → Val → Bool
  | .int a, .int b => a == b
  | .bool a, .bool b => a == b
  | .bytes a, .bytes b => a == b
  | .none, .none => true
  | .some a, .some b => Val.eqb a b
  | .seq as, .seq bs => Val.eqbList as bs
  | _, _ => false
def Val.eqbList : List Val → List Val → Bool
  | [], [] => true
  | a :: as, b :: bs => Val.eqb a b && Val.eqbList as bs
  | _, _ => false
end

/-! ## uniqueness of strictly ascending lists (completes T11) -/

/-- two strictly ascending lists with the same members are equal -/
theorem asc_ext (key : Val → Val) : ∀ l1 l2 : List Val, Asc key l1 → Asc key l2 →
    (∀ y, y ∈ l1 ↔ y ∈ l2) → l1 = l2 := by
  have irr : ∀ a : Val, Val.cmp (key a) (key a) ≠ .lt := by
    intro a h; rw [Val.cmp_refl] at h; cases h
  have asym : ∀ a b : Val, Val.cmp (key a) (key b) = .lt → Val.cmp (key b) (key a) = .lt → False := by
    intro a b h1 h2
    rw [Val.cmp_swap (key a) (key b), h1] at h2; cases h2
  intro l1
  induction l1 with
  | nil =>
    intro l2 _ _ h
    cases l2 with
    | nil => rfl
    | cons b l2 => exact absurd ((h b).2 (by simp)) (by simp)
  | cons a l1 ih =>
    intro l2 h1 h2 h
    cases l2 with
    | nil => exact absurd ((h a).1 (by simp)) (by simp)
    | cons b l2 =>
      have p1 := List.pairwise_cons.1 h1
      have p2 := List.pairwise_cons.1 h2
      have hab : a = b := by
        have ha := (h a).1 (by simp)
        have hb := (h b).2 (by simp)
        rcases List.mem_cons.1 ha with e | ha
        · exact e
        · rcases List.mem_cons.1 hb with e | hb
          · exact e.symm
          · exact (asym a b (p1.1 b hb) (p2.1 a ha)).elim
      subst hab
      congr 1
      apply ih l2 p1.2 p2.2
      intro y
      constructor
      · intro hy
        rcases List.mem_cons.1 ((h y).1 (by simp [hy])) with e | hy'
        · subst e; exact (irr y (p1.1 y hy)).elim
        · exact hy'
      · intro hy
        rcases List.mem_cons.1 ((h y).2 (by simp [hy])) with e | hy'
        · subst e; exact (irr y (p2.1 y hy)).elim
        · exact hy'

/-- `from_iter` is the only strictly ascending list that keeps, for each key, the last entry -/
theorem fromIter_unique {W : Val → Prop} (hW : OrdOn W) (key : Val → Val) (es l : List Val)
    (hw : ∀ x ∈ es, W (key x)) (hs : sortedBy key l = true)
    (hm : ∀ y, y ∈ l ↔ ∃ l1 l2, es = l1 ++ y :: l2 ∧ ∀ z ∈ l2, Val.cmp (key z) (key y) ≠ .eq) :
    l = fromIter key es := by
  have hwl : ∀ x ∈ l, W (key x) := by
    intro x hx
    obtain ⟨l1, l2, e, _⟩ := (hm x).1 hx
    exact hw x (by rw [e]; simp)
  apply asc_ext key l (fromIter key es) (asc_of_sortedBy hW key l hwl hs)
    (asc_foldl hW key es [] (by simpa using hw) List.Pairwise.nil)
  intro y
  rw [hm y, mem_fromIter hW key es hw y]

end Ark.Serial
