import Ark.Model.Cfg
import Ark.Proofs.H2C
import Mathlib.Data.ZMod.Basic
import Mathlib.Tactic.Ring
import Mathlib.Tactic.LinearCombination
import Mathlib.RingTheory.AdjoinRoot
import Mathlib.Algebra.Polynomial.SpecificDegree
/-
  Ark.Proofs.IsoIdentity — meaning of the C16 checker `checkWbIsoIdentity` (Ark/Model/Cfg.lean):
  equality of the two coefficient lists computed by the checker implies the pointwise polynomial
  identity `IsoIdentity` (Ark/Proofs/H2C.lean) that property C13 takes as a hypothesis.

  Route.  A *realisation* of a tower `t` in a field `K` is a map `φ : El → K` that turns the tower's
  `add`/`mul`/`zero`/`one` into the field operations on well-formed elements (`Realises`).  For any
  realisation, the list operations `polyAdd`/`polyScale`/`polyMul`/`polyNorm` are homomorphic for
  Horner evaluation (`ev`), so equal (normalised) coefficient lists evaluate equally at every `x : K`.
  The prime tower `.prime p` is realised in `ZMod p` by the cast of the single coordinate
  (`realises_prime`); the quadratic tower `.ext 2 (.prime p) [n]` in `AdjoinRoot (X² - n)` by
  `[c0, c1] ↦ c0 + c1·u` (`realises_quad`).
-/
namespace Ark.IsoId
open Ark.Cfg Ark.H2C Ark.H2C.P

section generic
variable {K : Type} [Field K]

/-- `φ` realises the tower `t` in `K` on the elements satisfying `ok` -/
structure Realises (t : Tw) (ok : El → Prop) (φ : El → K) : Prop where
  add_ok : ∀ a b, ok a → ok b → ok (t.add a b)
  add_eq : ∀ a b, ok a → ok b → φ (t.add a b) = φ a + φ b
  mul_ok : ∀ a b, ok a → ok b → ok (t.mul a b)
  mul_eq : ∀ a b, ok a → ok b → φ (t.mul a b) = φ a * φ b
  zero_ok : ok t.zero
  zero_eq : φ t.zero = 0
  one_ok : ok t.one
  one_eq : φ t.one = 1
  isZero_eq : ∀ a, Cfg.isZero a = true → φ a = 0

/-- value at `x` of the polynomial with coefficient list `P` (constant term first) -/
def ev (φ : El → K) (x : K) : List El → K
  | [] => 0
  | a :: P => φ a + x * ev φ x P

def AllOk (ok : El → Prop) (P : List El) : Prop := ∀ a ∈ P, ok a

theorem allOk_nil (ok : El → Prop) : AllOk ok [] := by intro a h; cases h

theorem allOk_cons {ok : El → Prop} {a : El} {P : List El} :
    AllOk ok (a :: P) ↔ ok a ∧ AllOk ok P := by
  unfold AllOk; simp

variable {t : Tw} {ok : El → Prop} {φ : El → K}

theorem polyAdd_ok (R : Realises t ok φ) : ∀ (P Q : List El), AllOk ok P → AllOk ok Q →
    AllOk ok (polyAdd t P Q)
  | [], Q, _, hQ => by simpa [polyAdd] using hQ
  | a :: P, [], hP, _ => by simpa [polyAdd] using hP
  | a :: P, b :: Q, hP, hQ => by
    rw [allOk_cons] at hP hQ
    simp only [polyAdd]
    rw [allOk_cons]
    exact ⟨R.add_ok a b hP.1 hQ.1, polyAdd_ok R P Q hP.2 hQ.2⟩

theorem ev_polyAdd (R : Realises t ok φ) (x : K) : ∀ (P Q : List El), AllOk ok P → AllOk ok Q →
    ev φ x (polyAdd t P Q) = ev φ x P + ev φ x Q
  | [], Q, _, _ => by simp [polyAdd, ev]
  | a :: P, [], _, _ => by simp [polyAdd, ev]
  | a :: P, b :: Q, hP, hQ => by
    rw [allOk_cons] at hP hQ
    simp only [polyAdd, ev]
    rw [R.add_eq a b hP.1 hQ.1, ev_polyAdd R x P Q hP.2 hQ.2]
    ring

theorem polyScale_ok (R : Realises t ok φ) (c : El) (hc : ok c) : ∀ (P : List El), AllOk ok P →
    AllOk ok (polyScale t c P)
  | [], _ => by simpa [polyScale] using allOk_nil ok
  | a :: P, hP => by
    rw [allOk_cons] at hP
    simp only [polyScale]
    rw [allOk_cons]
    exact ⟨R.mul_ok c a hc hP.1, polyScale_ok R c hc P hP.2⟩

theorem ev_polyScale (R : Realises t ok φ) (x : K) (c : El) (hc : ok c) : ∀ (P : List El),
    AllOk ok P → ev φ x (polyScale t c P) = φ c * ev φ x P
  | [], _ => by simp [polyScale, ev]
  | a :: P, hP => by
    rw [allOk_cons] at hP
    simp only [polyScale, ev]
    rw [R.mul_eq c a hc hP.1, ev_polyScale R x c hc P hP.2]
    ring

theorem polyMul_ok (R : Realises t ok φ) : ∀ (P Q : List El), AllOk ok P → AllOk ok Q →
    AllOk ok (polyMul t P Q)
  | [], _, _, _ => by simpa [polyMul] using allOk_nil ok
  | a :: P, Q, hP, hQ => by
    rw [allOk_cons] at hP
    simp only [polyMul]
    refine polyAdd_ok R _ _ (polyScale_ok R a hP.1 Q hQ) ?_
    rw [allOk_cons]
    exact ⟨R.zero_ok, polyMul_ok R P Q hP.2 hQ⟩

theorem ev_polyMul (R : Realises t ok φ) (x : K) : ∀ (P Q : List El), AllOk ok P → AllOk ok Q →
    ev φ x (polyMul t P Q) = ev φ x P * ev φ x Q
  | [], _, _, _ => by simp [polyMul, ev]
  | a :: P, Q, hP, hQ => by
    rw [allOk_cons] at hP
    have h0 : AllOk ok (t.zero :: polyMul t P Q) := by
      rw [allOk_cons]; exact ⟨R.zero_ok, polyMul_ok R P Q hP.2 hQ⟩
    simp only [polyMul]
    rw [ev_polyAdd R x _ _ (polyScale_ok R a hP.1 Q hQ) h0, ev_polyScale R x a hP.1 Q hQ]
    simp only [ev]
    rw [R.zero_eq, ev_polyMul R x P Q hP.2 hQ]
    ring

theorem ev_polyNorm (R : Realises t ok φ) (x : K) : ∀ (P : List El),
    ev φ x (polyNorm P) = ev φ x P
  | [] => by simp [polyNorm]
  | a :: P => by
    have ih := ev_polyNorm R x P
    simp only [polyNorm]
    cases h : polyNorm P with
    | nil =>
      rw [h] at ih
      simp only [ev] at ih
      by_cases hz : Cfg.isZero a = true
      · rw [if_pos hz]; simp only [ev, ← ih, R.isZero_eq a hz]; ring
      · rw [if_neg hz]; simp only [ev, ← ih]
    | cons b Q =>
      rw [h] at ih
      simp only [ev] at ih ⊢
      rw [ih]

/-- Horner evaluation of the mapped list is `ev` -/
theorem horner_map (φ : El → K) (x : K) : ∀ (P : List El), horner (P.map φ) x = ev φ x P
  | [] => rfl
  | a :: P => by
    have h : horner (φ a :: P.map φ) x = horner (P.map φ) x * x + φ a := rfl
    rw [List.map_cons, h, horner_map φ x P]
    simp only [ev]; ring

theorem evalPoly_map (φ : El → K) (x : K) (P : List El) : Rfc.evalPoly (P.map φ) x = ev φ x P := by
  rw [evalPoly_eq_horner, horner_map]

/-- the isogeny of a `WbCfg`, read in `K` through `φ` -/
def isoOf (φ : El → K) (c : WbCfg) : Iso K :=
  ⟨c.xNum.map φ, c.xDen.map φ, c.yNum.map φ, c.yDen.map φ⟩

theorem ev_wbIsoLhs {c : WbCfg} (R : Realises c.curve.tower ok φ) (x : K)
    (ha' : ok c.iso.a) (hb' : ok c.iso.b) (hxd : AllOk ok c.xDen) (hyn : AllOk ok c.yNum) :
    ev φ x (wbIsoLhs c) =
      (x * x * x + φ c.iso.a * x + φ c.iso.b) * (ev φ x c.yNum) ^ 2 * (ev φ x c.xDen) ^ 3 := by
  have hcub : AllOk ok [c.iso.b, c.iso.a, c.curve.tower.zero, c.curve.tower.one] := by
    simp only [allOk_cons]
    exact ⟨hb', ha', R.zero_ok, R.one_ok, allOk_nil ok⟩
  have h1 := polyMul_ok R _ _ hyn hyn
  have e1 := ev_polyMul R x _ _ hyn hyn
  have h2 := polyMul_ok R _ _ hcub h1
  have e2 := ev_polyMul R x _ _ hcub h1
  have h3 := polyMul_ok R _ _ hxd hxd
  have e3 := ev_polyMul R x _ _ hxd hxd
  have h4 := polyMul_ok R _ _ hxd h3
  have e4 := ev_polyMul R x _ _ hxd h3
  have e5 := ev_polyMul R x _ _ h2 h4
  unfold wbIsoLhs
  dsimp only
  rw [e5, e2, e1, e4, e3]
  simp only [ev, R.zero_eq, R.one_eq]
  ring

theorem ev_wbIsoRhs {c : WbCfg} (R : Realises c.curve.tower ok φ) (x : K)
    (ha : ok c.curve.a) (hb : ok c.curve.b) (hxn : AllOk ok c.xNum) (hxd : AllOk ok c.xDen)
    (hyd : AllOk ok c.yDen) :
    ev φ x (wbIsoRhs c) =
      (ev φ x c.yDen) ^ 2 *
        ((ev φ x c.xNum) ^ 3 + φ c.curve.a * ev φ x c.xNum * (ev φ x c.xDen) ^ 2 +
          φ c.curve.b * (ev φ x c.xDen) ^ 3) := by
  have h1 := polyMul_ok R _ _ hxd hxd
  have e1 := ev_polyMul R x _ _ hxd hxd
  have h2 := polyMul_ok R _ _ hyd hyd
  have e2 := ev_polyMul R x _ _ hyd hyd
  have h3 := polyMul_ok R _ _ hxn hxn
  have e3 := ev_polyMul R x _ _ hxn hxn
  have h4 := polyMul_ok R _ _ hxn h3
  have e4 := ev_polyMul R x _ _ hxn h3
  have h5 := polyMul_ok R _ _ hxn h1
  have e5 := ev_polyMul R x _ _ hxn h1
  have h6 := polyScale_ok R _ ha _ h5
  have e6 := ev_polyScale R x _ ha _ h5
  have h7 := polyMul_ok R _ _ hxd h1
  have e7 := ev_polyMul R x _ _ hxd h1
  have h8 := polyScale_ok R _ hb _ h7
  have e8 := ev_polyScale R x _ hb _ h7
  have h9 := polyAdd_ok R _ _ h4 h6
  have e9 := ev_polyAdd R x _ _ h4 h6
  have h10 := polyAdd_ok R _ _ h9 h8
  have e10 := ev_polyAdd R x _ _ h9 h8
  have e11 := ev_polyMul R x _ _ h2 h10
  unfold wbIsoRhs
  dsimp only
  rw [e11, e2, e10, e9, e4, e3, e6, e5, e8, e7, e1]
  ring

/-- **generic meaning of the coefficient comparison**: for any realisation of the tower in a field,
    equal normalised coefficient lists give the pointwise polynomial identity -/
theorem isoIdentity_of_lists [DecidableEq K] {c : WbCfg} (R : Realises c.curve.tower ok φ)
    (ha' : ok c.iso.a) (hb' : ok c.iso.b) (ha : ok c.curve.a) (hb : ok c.curve.b)
    (hxn : AllOk ok c.xNum) (hxd : AllOk ok c.xDen) (hyn : AllOk ok c.yNum) (hyd : AllOk ok c.yDen)
    (h : polyNorm (wbIsoLhs c) = polyNorm (wbIsoRhs c)) :
    IsoIdentity (isoOf φ c) (φ c.iso.a) (φ c.iso.b) (φ c.curve.a) (φ c.curve.b) := by
  intro x
  have e := congrArg (ev φ x) h
  rw [ev_polyNorm R, ev_polyNorm R, ev_wbIsoLhs R x ha' hb' hxd hyn,
    ev_wbIsoRhs R x ha hb hxn hxd hyd] at e
  simp only [isoOf, evalPoly_map]
  exact e

end generic

/-! ## the checker's well-formedness conjuncts -/

theorem and_true_iff {a b : Bool} : (a && b) = true ↔ a = true ∧ b = true := by
  cases a <;> cases b <;> simp

theorem allB_imp {ok : El → Prop} {f : El → Bool} (hf : ∀ a, f a = true → ok a) :
    ∀ (P : List El), allB f P = true → AllOk ok P
  | [], _ => allOk_nil ok
  | a :: P, h => by
    simp only [allB, and_true_iff] at h
    rw [allOk_cons]
    exact ⟨hf a h.1, allB_imp hf P h.2⟩

/-- what `checkWbIsoIdentity c = true` says, conjunct by conjunct -/
theorem check_unfold {c : WbCfg} (h : checkWbIsoIdentity c = true) :
    (wf c.curve.tower c.iso.a = true ∧ wf c.curve.tower c.iso.b = true ∧
     wf c.curve.tower c.curve.a = true ∧ wf c.curve.tower c.curve.b = true) ∧
    (allB (wf c.curve.tower) c.xNum = true ∧ allB (wf c.curve.tower) c.xDen = true ∧
     allB (wf c.curve.tower) c.yNum = true ∧ allB (wf c.curve.tower) c.yDen = true) ∧
    polyNorm (wbIsoLhs c) = polyNorm (wbIsoRhs c) := by
  unfold checkWbIsoIdentity at h
  simp only [and_true_iff] at h
  obtain ⟨⟨⟨⟨⟨⟨⟨⟨h1, h2⟩, h3⟩, h4⟩, h5⟩, h6⟩, h7⟩, h8⟩, h9⟩ := h
  exact ⟨⟨h1, h2, h3, h4⟩, ⟨h5, h6, h7, h8⟩, eq_of_beq h9⟩

/-- **generic meaning of `checkWbIsoIdentity`**: `ok` may be any predicate implied by `wf` -/
theorem isoIdentity_of_check {K : Type} [Field K] [DecidableEq K] {ok : El → Prop} {φ : El → K}
    {c : WbCfg} (R : Realises c.curve.tower ok φ) (hwf : ∀ a, wf c.curve.tower a = true → ok a)
    (h : checkWbIsoIdentity c = true) :
    IsoIdentity (isoOf φ c) (φ c.iso.a) (φ c.iso.b) (φ c.curve.a) (φ c.curve.b) := by
  obtain ⟨⟨h1, h2, h3, h4⟩, ⟨h5, h6, h7, h8⟩, h9⟩ := check_unfold h
  exact isoIdentity_of_lists R (hwf _ h1) (hwf _ h2) (hwf _ h3) (hwf _ h4)
    (allB_imp hwf _ h5) (allB_imp hwf _ h6) (allB_imp hwf _ h7) (allB_imp hwf _ h8) h9

/-! ## the prime tower is realised in `ZMod p` -/

/-- a prime-field element (one `Nat` coordinate) read in `ZMod p` -/
def phiP (p : Nat) (a : El) : ZMod p := ((a.headD 0 : Nat) : ZMod p)

/-- exactly one coordinate -/
def okP (a : El) : Prop := a.length = 1

theorem phiP_singleton (p n : Nat) : phiP p [n] = (n : ZMod p) := rfl

theorem realises_prime (p : Nat) [Fact p.Prime] : Realises (K := ZMod p) (.prime p) okP (phiP p) where
  add_ok := by
    intro a b ha hb
    obtain ⟨x, rfl⟩ := List.length_eq_one_iff.1 ha
    obtain ⟨y, rfl⟩ := List.length_eq_one_iff.1 hb
    rfl
  add_eq := by
    intro a b ha hb
    obtain ⟨x, rfl⟩ := List.length_eq_one_iff.1 ha
    obtain ⟨y, rfl⟩ := List.length_eq_one_iff.1 hb
    show (((x + y) % p : Nat) : ZMod p) = (x : ZMod p) + (y : ZMod p)
    rw [ZMod.natCast_mod, Nat.cast_add]
  mul_ok := by
    intro a b _ _
    rfl
  mul_eq := by
    intro a b ha hb
    obtain ⟨x, rfl⟩ := List.length_eq_one_iff.1 ha
    obtain ⟨y, rfl⟩ := List.length_eq_one_iff.1 hb
    show (((x * y) % p : Nat) : ZMod p) = (x : ZMod p) * (y : ZMod p)
    rw [ZMod.natCast_mod, Nat.cast_mul]
  zero_ok := rfl
  zero_eq := by
    show ((0 : Nat) : ZMod p) = 0
    exact Nat.cast_zero
  one_ok := rfl
  one_eq := by
    show ((1 : Nat) : ZMod p) = 1
    exact Nat.cast_one
  isZero_eq := by
    intro a h
    cases a with
    | nil => exact Nat.cast_zero
    | cons x xs =>
      simp only [Cfg.isZero, and_true_iff, beq_iff_eq] at h
      show ((x : Nat) : ZMod p) = 0
      rw [h.1]; exact Nat.cast_zero

theorem wf_prime_ok (p : Nat) (a : El) (h : wf (.prime p) a = true) : okP a := by
  simp only [wf, and_true_iff, Tw.deg, beq_iff_eq] at h
  exact h.1

/-- **meaning of `checkWbIsoIdentity` over a prime field**: the polynomial identity of the isogeny holds
    at every `x : ZMod p`, the coefficients being the casts of the configuration's `Nat` residues -/
theorem isoIdentity_prime (c : WbCfg) (p : Nat) [Fact p.Prime] (ht : c.curve.tower = .prime p)
    (h : checkWbIsoIdentity c = true) :
    IsoIdentity (isoOf (phiP p) c) (phiP p c.iso.a) (phiP p c.iso.b) (phiP p c.curve.a)
      (phiP p c.curve.b) := by
  have R : Realises (K := ZMod p) c.curve.tower okP (phiP p) := by rw [ht]; exact realises_prime p
  refine isoIdentity_of_check R ?_ h
  intro a ha
  rw [ht] at ha
  exact wf_prime_ok p a ha

theorem map_phiP_singletons (p : Nat) (ns : List Nat) :
    (ns.map (fun n => [n])).map (phiP p) = ns.map (fun n : Nat => (n : ZMod p)) := by
  induction ns with
  | nil => rfl
  | cons n ns ih => simp only [List.map_cons, ih, phiP_singleton]

/-- the same, for a configuration presented through its lists of `Nat` residues -/
theorem isoIdentity_prime_nat (c : WbCfg) (p : Nat) [Fact p.Prime] (ht : c.curve.tower = .prime p)
    (a' b' a b : Nat) (xn xd yn yd : List Nat)
    (ha' : c.iso.a = [a']) (hb' : c.iso.b = [b']) (ha : c.curve.a = [a]) (hb : c.curve.b = [b])
    (hxn : c.xNum = xn.map (fun n => [n])) (hxd : c.xDen = xd.map (fun n => [n]))
    (hyn : c.yNum = yn.map (fun n => [n])) (hyd : c.yDen = yd.map (fun n => [n]))
    (h : checkWbIsoIdentity c = true) :
    IsoIdentity (F := ZMod p)
      ⟨xn.map (fun n : Nat => (n : ZMod p)), xd.map (fun n : Nat => (n : ZMod p)),
       yn.map (fun n : Nat => (n : ZMod p)), yd.map (fun n : Nat => (n : ZMod p))⟩
      (a' : ZMod p) (b' : ZMod p) (a : ZMod p) (b : ZMod p) := by
  have := isoIdentity_prime c p ht h
  simpa only [isoOf, ha', hb', ha, hb, hxn, hxd, hyn, hyd, map_phiP_singletons, phiP_singleton]
    using this

/-! ## the quadratic tower `F_p[u]/(u² - n)` is realised in `AdjoinRoot (X² - n)` -/

section quad
open Polynomial

/-- the defining polynomial `X² - n` of the quadratic layer over `ZMod p` -/
noncomputable def quadPoly (p n : Nat) : (ZMod p)[X] := X ^ 2 - C ((n : Nat) : ZMod p)

/-- `X² - n` is irreducible over `F_p` when `n` is not a square (what `checkNonresidue` establishes,
    `Ark.CfgMeaning.nonresidue_prime`) -/
theorem quadPoly_irreducible (p n : Nat) [Fact p.Prime]
    (h : ¬ ∃ y : ZMod p, y ^ 2 = ((n : Nat) : ZMod p)) : Irreducible (quadPoly p n) := by
  apply irreducible_of_degree_le_three_of_not_isRoot
  · unfold quadPoly
    rw [natDegree_X_pow_sub_C]
    decide
  · intro x hx
    apply h
    refine ⟨x, ?_⟩
    unfold quadPoly at hx
    simp only [IsRoot, eval_sub, eval_pow, eval_X, eval_C] at hx
    exact sub_eq_zero.1 hx

variable (p n : Nat)

/-- `u² = n` in `AdjoinRoot (X² - n)` -/
theorem root_sq : AdjoinRoot.root (quadPoly p n) * AdjoinRoot.root (quadPoly p n) =
    AdjoinRoot.of (quadPoly p n) ((n : Nat) : ZMod p) := by
  have h := AdjoinRoot.eval₂_root (quadPoly p n)
  unfold quadPoly at h
  simp only [eval₂_sub, eval₂_pow, eval₂_X, eval₂_C] at h
  unfold quadPoly
  linear_combination h

/-- an element `[c0, c1]` of the quadratic layer read as `c0 + c1·u` -/
noncomputable def phiQ (a : El) : AdjoinRoot (quadPoly p n) :=
  AdjoinRoot.of (quadPoly p n) ((a.getD 0 0 : Nat) : ZMod p) +
    AdjoinRoot.of (quadPoly p n) ((a.getD 1 0 : Nat) : ZMod p) * AdjoinRoot.root (quadPoly p n)

/-- exactly two coordinates -/
def okQ (a : El) : Prop := a.length = 2

theorem realises_quad [Fact p.Prime] [Fact (Irreducible (quadPoly p n))] (nr : El) (hn : nr.headD 0 = n) :
    Realises (K := AdjoinRoot (quadPoly p n)) (.ext 2 (.prime p) nr) okQ (phiQ p n) where
  add_ok := by
    intro a b ha hb
    obtain ⟨x0, x1, rfl⟩ := List.length_eq_two.1 ha
    obtain ⟨y0, y1, rfl⟩ := List.length_eq_two.1 hb
    rfl
  add_eq := by
    intro a b ha hb
    obtain ⟨x0, x1, rfl⟩ := List.length_eq_two.1 ha
    obtain ⟨y0, y1, rfl⟩ := List.length_eq_two.1 hb
    show AdjoinRoot.of _ (((x0 + y0) % p : Nat) : ZMod p) +
        AdjoinRoot.of _ (((x1 + y1) % p : Nat) : ZMod p) * AdjoinRoot.root _ =
      (AdjoinRoot.of _ ((x0 : Nat) : ZMod p) + AdjoinRoot.of _ ((x1 : Nat) : ZMod p) * AdjoinRoot.root _) +
      (AdjoinRoot.of _ ((y0 : Nat) : ZMod p) + AdjoinRoot.of _ ((y1 : Nat) : ZMod p) * AdjoinRoot.root _)
    rw [ZMod.natCast_mod, ZMod.natCast_mod, Nat.cast_add, Nat.cast_add, map_add, map_add]
    ring
  mul_ok := by
    intro a b ha hb
    obtain ⟨x0, x1, rfl⟩ := List.length_eq_two.1 ha
    obtain ⟨y0, y1, rfl⟩ := List.length_eq_two.1 hb
    rfl
  mul_eq := by
    intro a b ha hb
    obtain ⟨x0, x1, rfl⟩ := List.length_eq_two.1 ha
    obtain ⟨y0, y1, rfl⟩ := List.length_eq_two.1 hb
    show AdjoinRoot.of _ (((x0 * y0 + nr.headD 0 * (x1 * y1)) % p : Nat) : ZMod p) +
        AdjoinRoot.of _ (((x0 * y1 + x1 * y0) % p : Nat) : ZMod p) * AdjoinRoot.root _ =
      (AdjoinRoot.of _ ((x0 : Nat) : ZMod p) + AdjoinRoot.of _ ((x1 : Nat) : ZMod p) * AdjoinRoot.root _) *
      (AdjoinRoot.of _ ((y0 : Nat) : ZMod p) + AdjoinRoot.of _ ((y1 : Nat) : ZMod p) * AdjoinRoot.root _)
    rw [hn, ZMod.natCast_mod, ZMod.natCast_mod]
    simp only [Nat.cast_add, Nat.cast_mul, map_add, map_mul]
    linear_combination
      (-(AdjoinRoot.of (quadPoly p n) ((x1 : Nat) : ZMod p) * AdjoinRoot.of (quadPoly p n) ((y1 : Nat) : ZMod p))) *
        root_sq p n
  zero_ok := rfl
  zero_eq := by
    show AdjoinRoot.of _ ((0 : Nat) : ZMod p) + AdjoinRoot.of _ ((0 : Nat) : ZMod p) * AdjoinRoot.root _ = 0
    simp
  one_ok := rfl
  one_eq := by
    show AdjoinRoot.of _ ((1 : Nat) : ZMod p) + AdjoinRoot.of _ ((0 : Nat) : ZMod p) * AdjoinRoot.root _ = 1
    simp
  isZero_eq := by
    intro a h
    have h0 : a.getD 0 0 = 0 ∧ a.getD 1 0 = 0 := by
      cases a with
      | nil => exact ⟨rfl, rfl⟩
      | cons x xs =>
        simp only [Cfg.isZero, and_true_iff, beq_iff_eq] at h
        cases xs with
        | nil => exact ⟨h.1, rfl⟩
        | cons y ys =>
          have h2 := h.2
          simp only [Cfg.isZero, and_true_iff, beq_iff_eq] at h2
          exact ⟨h.1, h2.1⟩
    unfold phiQ
    rw [h0.1, h0.2]
    simp

theorem wf_quad_ok (nr a : El) (h : wf (.ext 2 (.prime p) nr) a = true) : okQ a := by
  simp only [wf, and_true_iff, Tw.deg, beq_iff_eq] at h
  exact h.1

/-- **meaning of `checkWbIsoIdentity` over a quadratic extension `F_p[u]/(u² - n)`** (BLS12 G2):
    the polynomial identity of the isogeny holds at every point of the field `AdjoinRoot (X² - n)`,
    each coefficient `[c0, c1]` being read as `c0 + c1·u`.  Irreducibility of `X² - n` follows from
    `checkNonresidue` of the `Fp2` configuration (`quadPoly_irreducible`). -/
theorem isoIdentity_quad (c : WbCfg) [Fact p.Prime] [Fact (Irreducible (quadPoly p n))]
    [DecidableEq (AdjoinRoot (quadPoly p n))] (nr : El)
    (ht : c.curve.tower = .ext 2 (.prime p) nr) (hn : nr.headD 0 = n)
    (h : checkWbIsoIdentity c = true) :
    IsoIdentity (isoOf (phiQ p n) c) (phiQ p n c.iso.a) (phiQ p n c.iso.b) (phiQ p n c.curve.a)
      (phiQ p n c.curve.b) := by
  have R : Realises (K := AdjoinRoot (quadPoly p n)) c.curve.tower okQ (phiQ p n) := by
    rw [ht]; exact realises_quad p n nr hn
  refine isoIdentity_of_check R ?_ h
  intro a ha
  rw [ht] at ha
  exact wf_quad_ok p nr a ha

end quad
end Ark.IsoId
