import Ark.Model.DrvC15
import Ark.Model.DrvC01
import Ark.Model.DrvC02
import Ark.Proofs.LimbsA
import Ark.Proofs.LimbsB
import Ark.Proofs.MontE
import Ark.Proofs.MontF
import Ark.Proofs.ExtB
/-
  Helper lemmas for the API-surface properties C15c, C01g, C02c: the model functions added at the
  top of `Ark/Model/DrvC15.lean`, `Ark/Model/DrvC01.lean`, `Ark/Model/DrvC02.lean`.
-/
/-! ## C15: the coverage-gap operations of `ff/src/biginteger/mod.rs` (`Ark/Model/DrvC15.lean`) -/
namespace Ark

-- (for the `decide`d non-vacuity examples)
deriving instance DecidableEq for Run

/-! ### bitwise operators -/

theorem B_two_pow : B = 2 ^ 64 := rfl

/-- a limb-wise Boolean operation on `x + B·u`, `y + B·v` acts separately on the low limb and the rest -/
theorem bitop_split (op : Nat → Nat → Nat) (g : Bool → Bool → Bool)
    (hop : ∀ x y i, (op x y).testBit i = g (x.testBit i) (y.testBit i))
    (hlt : ∀ x y, x < B → y < B → op x y < B)
    (x y u v : Nat) (hx : x < B) (hy : y < B) :
    op (x + B * u) (y + B * v) = op x y + B * op u v := by
  have hxy := hlt x y hx hy
  rw [B_two_pow] at hx hy hxy ⊢
  apply Nat.eq_of_testBit_eq
  intro i
  rw [hop, Nat.add_comm x, Nat.add_comm y, Nat.add_comm (op x y),
    Nat.testBit_two_pow_mul_add _ hx, Nat.testBit_two_pow_mul_add _ hy,
    Nat.testBit_two_pow_mul_add _ hxy]
  by_cases h : i < 64
  · simp only [h, if_true, hop]
  · simp only [h, if_false, hop]

theorem zipWith_bitop_value (op : Nat → Nat → Nat) (g : Bool → Bool → Bool)
    (hop : ∀ x y i, (op x y).testBit i = g (x.testBit i) (y.testBit i))
    (hlt : ∀ x y, x < B → y < B → op x y < B) (h0 : op 0 0 = 0)
    (a b : List Nat) (h : a.length = b.length) (ha : WF a) (hb : WF b) :
    value (List.zipWith op a b) = op (value a) (value b) ∧ WF (List.zipWith op a b) ∧
    (List.zipWith op a b).length = a.length := by
  induction a generalizing b with
  | nil =>
    cases b with
    | nil => simp [value, h0, WF_nil]
    | cons y ys => simp at h
  | cons x xs ih =>
    cases b with
    | nil => simp at h
    | cons y ys =>
      have ⟨hx, hxs⟩ := WF_cons.mp ha
      have ⟨hy, hys⟩ := WF_cons.mp hb
      have ⟨i1, i2, i3⟩ := ih ys (by simpa using h) hxs hys
      simp only [List.zipWith_cons_cons, value, List.length_cons]
      refine ⟨?_, WF_cons.mpr ⟨hlt x y hx hy, i2⟩, by rw [i3]⟩
      rw [i1, bitop_split op g hop hlt x y _ _ hx hy]

theorem limbsXor_spec (a b : List Nat) (h : a.length = b.length) (ha : WF a) (hb : WF b) :
    value (limbsXor a b) = value a ^^^ value b ∧ WF (limbsXor a b) ∧
    (limbsXor a b).length = a.length :=
  zipWith_bitop_value (· ^^^ ·) Bool.xor (fun x y i => Nat.testBit_xor x y i)
    (fun _ _ hx hy => Nat.xor_lt_two_pow hx hy) (by simp) a b h ha hb

theorem limbsAnd_spec (a b : List Nat) (h : a.length = b.length) (ha : WF a) (hb : WF b) :
    value (limbsAnd a b) = value a &&& value b ∧ WF (limbsAnd a b) ∧
    (limbsAnd a b).length = a.length :=
  zipWith_bitop_value (· &&& ·) (· && ·) (fun x y i => Nat.testBit_and x y i)
    (fun x _ _ hy => Nat.and_lt_two_pow x hy) (by simp) a b h ha hb

theorem limbsOr_spec (a b : List Nat) (h : a.length = b.length) (ha : WF a) (hb : WF b) :
    value (limbsOr a b) = value a ||| value b ∧ WF (limbsOr a b) ∧
    (limbsOr a b).length = a.length :=
  zipWith_bitop_value (· ||| ·) (· || ·) (fun x y i => Nat.testBit_or x y i)
    (fun _ _ hx hy => Nat.or_lt_two_pow hx hy) (by simp) a b h ha hb

theorem limbsNot_spec (a : List Nat) (ha : WF a) :
    value (limbsNot a) = B ^ a.length - 1 - value a ∧ WF (limbsNot a) ∧
    (limbsNot a).length = a.length := by
  induction a with
  | nil => simp [limbsNot, value, WF_nil]
  | cons x xs ih =>
    have ⟨hx, hxs⟩ := WF_cons.mp ha
    have ⟨i1, i2, i3⟩ := ih hxs
    have hv := value_lt xs hxs
    unfold limbsNot at i1 i2 i3 ⊢
    simp only [List.map_cons, value, List.length_cons, List.length_map, Nat.pow_succ]
    refine ⟨?_, WF_cons.mpr ⟨by have := B_pos; omega, i2⟩, trivial⟩
    rw [i1]
    generalize value xs = v at *
    generalize B ^ xs.length = M at *
    obtain ⟨k, rfl⟩ : ∃ k, M = k + 1 + v := ⟨M - 1 - v, by omega⟩
    have e1 : k + 1 + v - 1 - v = k := by omega
    rw [e1, Nat.add_mul, Nat.add_mul, Nat.mul_comm k B, Nat.mul_comm v B]
    omega


/-! ### the run-time `const fn`s -/

theorem constShr_eq_div2 (a : List Nat) : constShr a = div2 a := rfl

theorem constShr_spec (a : List Nat) (ha : WF a) :
    value (constShr a) = value a / 2 ∧ WF (constShr a) ∧ (constShr a).length = a.length :=
  ⟨div2_value a, div2_wf a ha, div2_length a⟩

theorem B_mod_two : B % 2 = 0 := by unfold B; decide
theorem B_mod_four : B % 4 = 0 := by unfold B; decide

theorem headD_mod_two (a : List Nat) (ha : WF a) : a.headD 0 % 2 = value a % 2 := by
  rw [headD_eq a ha]
  exact Nat.mod_mod_of_dvd _ (Nat.dvd_of_mod_eq_zero B_mod_two)

theorem constIsEven_spec (a : List Nat) (ha : WF a) :
    constIsEven a = decide (value a % 2 = 0) := by
  unfold constIsEven; rw [headD_mod_two a ha]
  by_cases h : value a % 2 = 0 <;> simp [h]

theorem constIsOdd_spec (a : List Nat) (ha : WF a) :
    constIsOdd a = decide (value a % 2 = 1) := by
  unfold constIsOdd; rw [headD_mod_two a ha]
  by_cases h : value a % 2 = 1 <;> simp [h]

theorem mod4_spec (a : List Nat) (ha : WF a) : mod4 a = value a % 4 := by
  unfold mod4
  have h1 : a.headD 0 % 4 = value a % 4 := by
    rw [headD_eq a ha]
    exact Nat.mod_mod_of_dvd _ (Nat.dvd_of_mod_eq_zero B_mod_four)
  have h2 : a.headD 0 < B := by
    rw [headD_eq a ha]; exact Nat.mod_lt _ B_pos
  rw [← h1]
  generalize a.headD 0 = h at *
  rw [B_eq] at *
  omega

theorem decr0_spec (a : List Nat) (ha : WF a) (hodd : value a % 2 = 1) :
    value (decr0 a) = value a - 1 ∧ WF (decr0 a) ∧ (decr0 a).length = a.length := by
  cases a with
  | nil => simp [value] at hodd
  | cons x xs =>
    have ⟨hx, hxs⟩ := WF_cons.mp ha
    have h2 := headD_mod_two (x :: xs) ha
    simp only [List.headD_cons] at h2
    simp only [decr0, value, List.length_cons]
    refine ⟨by omega, WF_cons.mpr ⟨by omega, hxs⟩, trivial⟩

theorem divideBy2RoundDown_spec (a : List Nat) (ha : WF a) :
    value (divideBy2RoundDown a) = (value a - value a % 2) / 2 ∧ WF (divideBy2RoundDown a) ∧
    (divideBy2RoundDown a).length = a.length := by
  unfold divideBy2RoundDown
  rw [constIsOdd_spec a ha]
  by_cases h : value a % 2 = 1
  · simp only [h, decide_true, if_true]
    have ⟨d1, d2, d3⟩ := decr0_spec a ha h
    have ⟨s1, s2, s3⟩ := constShr_spec _ d2
    exact ⟨by rw [s1, d1], s2, by rw [s3, d3]⟩
  · simp only [h, decide_false, Bool.false_eq_true, if_false]
    have ⟨s1, s2, s3⟩ := constShr_spec a ha
    have : value a % 2 = 0 := by omega
    exact ⟨by rw [s1, this]; rfl, s2, s3⟩

/-- `(value a - value a % 2) / 2` is just `value a / 2` -/
theorem sub_mod_div_two (v : Nat) : (v - v % 2) / 2 = v / 2 := by omega

/-! ### `const_num_bits` -/

theorem getLastD_eq_div (a : List Nat) (ha : WF a) :
    a.getLastD 0 = value a / B ^ (a.length - 1) := by
  induction a with
  | nil => simp [value]
  | cons x xs ih =>
    have ⟨hx, hxs⟩ := WF_cons.mp ha
    cases xs with
    | nil => simp [value]
    | cons y ys =>
      have ih := ih hxs
      simp only [List.getLastD_cons, List.length_cons, Nat.add_sub_cancel] at ih ⊢
      rw [ih, value_cons x, Nat.pow_succ, Nat.mul_comm (B ^ ys.length) B, ← Nat.div_div_eq_div_mul]
      congr 1
      rw [Nat.add_mul_div_left _ _ B_pos, Nat.div_eq_of_lt hx, Nat.zero_add]

theorem constNumBits_general (a : List Nat) (ha : WF a) :
    constNumBits a = 64 * (a.length - 1) + bitLen (value a / B ^ (a.length - 1)) := by
  unfold constNumBits
  rw [getLastD_eq_div a ha, Nat.mul_comm]

theorem constNumBits_top_ne_zero (a : List Nat) (ha : WF a) (htop : a.getLastD 0 ≠ 0) :
    constNumBits a = bitLen (value a) := by
  rw [constNumBits_general a ha]
  rw [getLastD_eq_div a ha] at htop
  have hdm := Nat.div_add_mod (value a) (B ^ (a.length - 1))
  have hlt := Nat.mod_lt (value a) (Nat.pow_pos (n := a.length - 1) B_pos)
  have := bitLen_shift _ _ _ hlt htop
  rw [Nat.add_comm, hdm] at this
  rw [this]

theorem constNumBits_top_zero (a : List Nat) (htop : a.getLastD 0 = 0) :
    constNumBits a = 64 * (a.length - 1) := by
  unfold constNumBits; rw [htop]; simp [bitLen, Nat.mul_comm]

/-! ### `two_adic_valuation`, `two_adic_coefficient` -/

/-- the loop on the value zero never leaves: fuel exhaustion -/
theorem twoAdicLoop_zero (fuel : Nat) (a : List Nat) (k : Nat) (ha : WF a) (h0 : value a = 0) :
    twoAdicLoop fuel a k = none := by
  induction fuel generalizing a k with
  | zero => rfl
  | succ fuel ih =>
    have ⟨s1, s2, _⟩ := constShr_spec a ha
    simp only [twoAdicLoop, constIsEven_spec a ha, h0, Nat.zero_mod, decide_true, if_true]
    exact ih _ _ s2 (by rw [s1, h0])

/-- on a non-zero value `< 2^fuel` the loop stops after `t` rounds, `t` the 2-adic valuation -/
theorem twoAdicLoop_spec (fuel : Nat) (a : List Nat) (k : Nat) (ha : WF a) (h0 : value a ≠ 0)
    (hlt : value a < 2 ^ fuel) :
    ∃ r t, twoAdicLoop fuel a k = some (r, k + t) ∧ WF r ∧ r.length = a.length ∧
      value a = 2 ^ t * value r ∧ value r % 2 = 1 := by
  induction fuel generalizing a k with
  | zero => simp at hlt; omega
  | succ fuel ih =>
    have ⟨s1, s2, s3⟩ := constShr_spec a ha
    simp only [twoAdicLoop, constIsEven_spec a ha]
    by_cases he : value a % 2 = 0
    · simp only [he, decide_true, if_true]
      have h0' : value (constShr a) ≠ 0 := by rw [s1]; omega
      have hlt' : value (constShr a) < 2 ^ fuel := by rw [s1]; rw [Nat.pow_succ] at hlt; omega
      obtain ⟨r, t, e, w, l, v, o⟩ := ih (constShr a) (k + 1) s2 h0' hlt'
      refine ⟨r, t + 1, by rw [e]; congr 2; omega, w, by rw [l, s3], ?_, o⟩
      rw [s1] at v
      rw [Nat.pow_succ, Nat.mul_comm (2 ^ t) 2, Nat.mul_assoc, ← v]
      omega
    · simp only [he, decide_false, Bool.false_eq_true, if_false]
      exact ⟨a, 0, rfl, ha, rfl, by simp, by omega⟩

/-- the decomposition `m = 2^t · odd` is unique -/
theorem two_pow_succ_mul (t r : Nat) : 2 ^ (t + 1) * r = 2 * (2 ^ t * r) := by
  rw [Nat.pow_succ, Nat.mul_right_comm, Nat.mul_comm]

theorem two_pow_odd_unique {t t' r r' : Nat} (h : 2 ^ t * r = 2 ^ t' * r') (hr : r % 2 = 1)
    (hr' : r' % 2 = 1) : t = t' ∧ r = r' := by
  induction t generalizing t' with
  | zero =>
    cases t' with
    | zero => simpa using h
    | succ t' => rw [two_pow_succ_mul] at h; omega
  | succ t ih =>
    cases t' with
    | zero => rw [two_pow_succ_mul] at h; omega
    | succ t' =>
      rw [two_pow_succ_mul, two_pow_succ_mul] at h
      have := ih (t' := t') (by omega)
      omega

theorem odd_part_iff (m t r : Nat) (hr : r % 2 = 1) :
    m = 2 ^ t * r → (2 ^ t ∣ m ∧ ¬ 2 ^ (t + 1) ∣ m) := by
  intro e
  refine ⟨⟨r, e⟩, ?_⟩
  rintro ⟨q, hq⟩
  rw [e, Nat.pow_succ, Nat.mul_assoc] at hq
  have := Nat.eq_of_mul_eq_mul_left (Nat.two_pow_pos t) hq
  omega

theorem val_unique (m k t : Nat) (h1 : 2 ^ k ∣ m) (h2 : ¬ 2 ^ (k + 1) ∣ m) (h3 : 2 ^ t ∣ m)
    (h4 : ¬ 2 ^ (t + 1) ∣ m) : k = t := by
  rcases Nat.lt_trichotomy k t with h | h | h
  · exact absurd (Nat.dvd_trans (Nat.pow_dvd_pow 2 h) h3) h2
  · exact h
  · exact absurd (Nat.dvd_trans (Nat.pow_dvd_pow 2 h) h1) h4

/-- the state of both functions after `self.0[0] -= 1`, loop included -/
theorem twoAdic_run (a : List Nat) (ha : WF a) (hodd : value a % 2 = 1) :
    (value a = 1 ∧ twoAdicLoop (64 * a.length + 1) (decr0 a) 0 = none) ∨
    (value a ≠ 1 ∧ ∃ r t, twoAdicLoop (64 * a.length + 1) (decr0 a) 0 = some (r, t) ∧ WF r ∧
      r.length = a.length ∧ value a - 1 = 2 ^ t * value r ∧ value r % 2 = 1) := by
  have ⟨d1, d2, d3⟩ := decr0_spec a ha hodd
  by_cases h1 : value a = 1
  · exact Or.inl ⟨h1, twoAdicLoop_zero _ _ _ d2 (by rw [d1, h1])⟩
  · right
    refine ⟨h1, ?_⟩
    have hlt : value (decr0 a) < 2 ^ (64 * a.length + 1) := by
      have := value_lt a ha
      rw [B_pow_eq] at this
      rw [d1, Nat.pow_succ]; omega
    obtain ⟨r, t, e, w, l, v, o⟩ := twoAdicLoop_spec _ (decr0 a) 0 d2 (by rw [d1]; omega) hlt
    exact ⟨r, t, by rw [e, Nat.zero_add], w, by rw [l, d3], by rw [← d1, v], o⟩

theorem twoAdicValuation_panic_iff (a : List Nat) (ha : WF a) :
    twoAdicValuation a = .panic ↔ value a % 2 = 0 := by
  unfold twoAdicValuation
  rw [constIsOdd_spec a ha]
  by_cases h : value a % 2 = 1
  · simp only [h, decide_true, Bool.not_true, Bool.false_eq_true, if_false]
    constructor
    · intro e; split at e <;> cases e
    · intro e; omega
  · simp only [h, decide_false, Bool.not_false, if_true, true_iff]; omega

theorem twoAdicValuation_hang_iff (a : List Nat) (ha : WF a) :
    twoAdicValuation a = .hang ↔ value a = 1 := by
  unfold twoAdicValuation
  rw [constIsOdd_spec a ha]
  by_cases h : value a % 2 = 1
  · simp only [h, decide_true, Bool.not_true, Bool.false_eq_true, if_false]
    rcases twoAdic_run a ha h with ⟨h1, e⟩ | ⟨h1, r, t, e, _⟩
    · rw [e]; simp [h1]
    · rw [e]; simp [h1]
  · simp only [h, decide_false, Bool.not_false, if_true]
    constructor
    · intro e; cases e
    · intro e; rw [e] at h; simp at h

theorem twoAdicValuation_ok_iff (a : List Nat) (ha : WF a) (k : Nat) :
    twoAdicValuation a = .ok k ↔
      value a % 2 = 1 ∧ value a ≠ 1 ∧ 2 ^ k ∣ value a - 1 ∧ ¬ 2 ^ (k + 1) ∣ value a - 1 := by
  unfold twoAdicValuation
  rw [constIsOdd_spec a ha]
  by_cases h : value a % 2 = 1
  · simp only [h, decide_true, Bool.not_true, Bool.false_eq_true, if_false, true_and]
    rcases twoAdic_run a ha h with ⟨h1, e⟩ | ⟨h1, r, t, e, _, _, v, o⟩
    · rw [e]; simp [h1]
    · rw [e]
      have ⟨p1, p2⟩ := odd_part_iff _ t _ o v
      simp only [Run.ok.injEq]
      constructor
      · intro e; subst e; exact ⟨h1, p1, p2⟩
      · rintro ⟨_, q1, q2⟩; exact val_unique _ _ _ p1 p2 q1 q2
  · simp only [h, decide_false, Bool.not_false, if_true, false_and, iff_false]
    intro e; cases e

theorem twoAdicCoefficient_panic_iff (a : List Nat) (ha : WF a) :
    twoAdicCoefficient a = .panic ↔ value a % 2 = 0 := by
  unfold twoAdicCoefficient
  rw [constIsOdd_spec a ha]
  by_cases h : value a % 2 = 1
  · simp only [h, decide_true, Bool.not_true, Bool.false_eq_true, if_false]
    rcases twoAdic_run a ha h with ⟨h1, e⟩ | ⟨h1, r, t, e, w, _, v, o⟩
    · rw [e]; simp
    · rw [e]; simp [constIsOdd_spec r w, o]
  · simp only [h, decide_false, Bool.not_false, if_true, true_iff]; omega

theorem twoAdicCoefficient_hang_iff (a : List Nat) (ha : WF a) :
    twoAdicCoefficient a = .hang ↔ value a = 1 := by
  unfold twoAdicCoefficient
  rw [constIsOdd_spec a ha]
  by_cases h : value a % 2 = 1
  · simp only [h, decide_true, Bool.not_true, Bool.false_eq_true, if_false]
    rcases twoAdic_run a ha h with ⟨h1, e⟩ | ⟨h1, r, t, e, w, _, v, o⟩
    · rw [e]; simp [h1]
    · rw [e]; simp [constIsOdd_spec r w, o, h1]
  · simp only [h, decide_false, Bool.not_false, if_true]
    constructor
    · intro e; cases e
    · intro e; rw [e] at h; simp at h

/-- `two_adic_coefficient` returns the odd part of `value a − 1` -/
theorem twoAdicCoefficient_ok (a : List Nat) (ha : WF a) (hodd : value a % 2 = 1)
    (h1 : value a ≠ 1) :
    ∃ r t, twoAdicCoefficient a = .ok r ∧ twoAdicValuation a = .ok t ∧ WF r ∧
      r.length = a.length ∧ value a - 1 = 2 ^ t * value r ∧ value r % 2 = 1 := by
  rcases twoAdic_run a ha hodd with ⟨h, _⟩ | ⟨_, r, t, e, w, l, v, o⟩
  · exact absurd h h1
  · refine ⟨r, t, ?_, ?_, w, l, v, o⟩
    · unfold twoAdicCoefficient
      rw [constIsOdd_spec a ha, e]; simp [constIsOdd_spec r w, o, hodd]
    · unfold twoAdicValuation
      rw [constIsOdd_spec a ha, e]; simp [hodd]

theorem twoAdicCoefficient_ok_iff (a : List Nat) (ha : WF a) (r : List Nat) :
    twoAdicCoefficient a = .ok r ↔
      value a % 2 = 1 ∧ value a ≠ 1 ∧ WF r ∧ r.length = a.length ∧ value r % 2 = 1 ∧
        ∃ t, value a - 1 = 2 ^ t * value r := by
  constructor
  · intro e
    have hodd : value a % 2 = 1 := by
      by_contra hne
      have := (twoAdicCoefficient_panic_iff a ha).mpr (by omega)
      rw [this] at e; cases e
    have h1 : value a ≠ 1 := by
      intro h
      have := (twoAdicCoefficient_hang_iff a ha).mpr h
      rw [this] at e; cases e
    obtain ⟨r', t, e', _, w, l, v, o⟩ := twoAdicCoefficient_ok a ha hodd h1
    rw [e'] at e; cases e
    exact ⟨hodd, h1, w, l, o, t, v⟩
  · rintro ⟨hodd, h1, w, l, o, t, v⟩
    obtain ⟨r', t', e', _, w', l', v', o'⟩ := twoAdicCoefficient_ok a ha hodd h1
    rw [e']; congr 1
    have := two_pow_odd_unique (v'.symm.trans v) o' o
    exact value_inj _ _ w' w (by rw [l', l]) this.2


/-! ### `montgomery_r`, `montgomery_r2` -/

theorem isZero_false_iff (a : List Nat) : isZero a = false ↔ value a ≠ 0 := by
  rw [Ne, ← isZero_iff]; simp

/-- invariant of `const_modulo!`: the remainder register always holds a value `< p` -/
theorem constModuloLoop_lt (w p : Nat) (hp : p < w) (bits : List Bool) (rem : Nat) (hrem : rem < p) :
    Mont.constModuloLoop w p bits rem < p := by
  rw [Mont.constModuloLoop_spec w p hp bits rem hrem]
  exact Nat.mod_lt _ (by omega)

theorem bigMontgomeryR_spec (a : List Nat) (ha : WF a) :
    (value a = 0 → bigMontgomeryR a = .panic) ∧
    (value a ≠ 0 → ∃ r, bigMontgomeryR a = .ok r ∧ WF r ∧ r.length = a.length ∧
      value r = B ^ a.length % value a) := by
  unfold bigMontgomeryR
  constructor
  · intro h0; rw [(isZero_iff a).mpr h0]; rfl
  · intro h0
    rw [(isZero_false_iff a).mpr h0]
    refine ⟨_, rfl, toLimbs_wf _ _, toLimbs_length _ _, ?_⟩
    have hlt := value_lt a ha
    rw [toLimbs_value, Mont.montgomeryR_eq _ _ (by omega) hlt]
    exact Nat.mod_eq_of_lt (Nat.lt_trans (Nat.mod_lt _ (by omega)) hlt)

theorem bigMontgomeryR2_spec (a : List Nat) (ha : WF a) :
    (value a = 0 → bigMontgomeryR2 a = .panic) ∧
    (value a ≠ 0 → ∃ r, bigMontgomeryR2 a = .ok r ∧ WF r ∧ r.length = a.length ∧
      value r = (B ^ a.length * B ^ a.length) % value a) := by
  unfold bigMontgomeryR2
  constructor
  · intro h0; rw [(isZero_iff a).mpr h0]; rfl
  · intro h0
    rw [(isZero_false_iff a).mpr h0]
    refine ⟨_, rfl, toLimbs_wf _ _, toLimbs_length _ _, ?_⟩
    have hlt := value_lt a ha
    rw [toLimbs_value, Mont.montgomeryR2_eq _ _ (by omega) hlt]
    exact Nat.mod_eq_of_lt (Nat.lt_trans (Nat.mod_lt _ (by omega)) hlt)

/-! ### serialization -/

theorem bytesLE_eq_foldr (l : List Nat) : bytesLE l = l.foldr (fun b acc => b + 256 * acc) 0 := by
  induction l with
  | nil => rfl
  | cons b bs ih => simp only [bytesLE, List.foldr_cons, ih]

theorem bytesLE_append (l1 l2 : List Nat) :
    bytesLE (l1 ++ l2) = bytesLE l1 + 256 ^ l1.length * bytesLE l2 := by
  simp only [bytesLE_eq_foldr]; exact bytesFold_append l1 l2

theorem bytesLE_lt (l : List Nat) (h : ∀ b ∈ l, b < 256) : bytesLE l < 256 ^ l.length := by
  induction l with
  | nil => simp [bytesLE]
  | cons b bs ih =>
    have hb := h b (by simp)
    have := ih (fun x hx => h x (by simp [hx]))
    simp only [bytesLE, List.length_cons, Nat.pow_succ]
    omega

theorem pow256_8 : (256 : Nat) ^ 8 = B := by unfold B; norm_num

theorem bytesLE_limbBytesLE (x : Nat) (hx : x < B) : bytesLE (limbBytesLE x) = x := by
  rw [bytesLE_eq_foldr]; unfold limbBytesLE
  rw [bytesFold_range, pow256_8, Nat.mod_eq_of_lt hx]

theorem bigSerialize_cons (x : Nat) (xs : List Nat) :
    bigSerialize (x :: xs) = limbBytesLE x ++ bigSerialize xs := by
  simp [bigSerialize]

theorem bigSerialize_length (a : List Nat) : (bigSerialize a).length = 8 * a.length :=
  toBytesLE_length a

theorem bigSerialize_eq_toBytesLE (a : List Nat) : bigSerialize a = toBytesLE a := rfl

theorem bigSerializedSize_eq (a : List Nat) : bigSerializedSize a = 8 * a.length := by
  unfold bigSerializedSize
  have : ∀ (l : List Nat) (acc : Nat),
      (l.map (fun _ => 8)).foldl (· + ·) acc = acc + 8 * l.length := by
    intro l
    induction l with
    | nil => intro acc; simp
    | cons x xs ih => intro acc; simp only [List.map_cons, List.foldl_cons, ih, List.length_cons]; omega
  rw [this]; omega

/-- reading back what was written (trailing bytes are left alone) -/
theorem bigDeserialize_serialize_append (a : List Nat) (ha : WF a) (rest : List Nat) :
    bigDeserialize a.length (bigSerialize a ++ rest) = some a := by
  induction a with
  | nil => rfl
  | cons x xs ih =>
    have ⟨hx, hxs⟩ := WF_cons.mp ha
    have hl := limbBytesLE_length x
    rw [bigSerialize_cons, List.append_assoc]
    simp only [List.length_cons, bigDeserialize, List.length_append, hl]
    rw [if_neg (by omega)]
    rw [List.drop_left' hl, ih hxs, List.take_left' hl, bytesLE_limbBytesLE x hx]

theorem bigDeserialize_none_iff (n : Nat) (bs : List Nat) :
    bigDeserialize n bs = none ↔ bs.length < 8 * n := by
  induction n generalizing bs with
  | zero => simp [bigDeserialize]
  | succ n ih =>
    simp only [bigDeserialize]
    by_cases h : bs.length < 8
    · simp only [h, if_true, true_iff]; omega
    · simp only [h, if_false]
      have := ih (bs.drop 8)
      rw [List.length_drop] at this
      cases hd : bigDeserialize n (bs.drop 8) with
      | none => simp only [true_iff]; have := this.mp hd; omega
      | some r =>
        simp only [reduceCtorEq, false_iff]
        have : ¬ (bs.length - 8 < 8 * n) := by rw [← this, hd]; simp
        omega

/-- what `deserialize` returns on a long enough input: the limbs of the first `8·n` bytes -/
theorem bigDeserialize_some (n : Nat) (bs : List Nat) (hb : ∀ b ∈ bs, b < 256)
    (hlen : 8 * n ≤ bs.length) :
    ∃ l, bigDeserialize n bs = some l ∧ l.length = n ∧ WF l ∧ value l = bytesLE (bs.take (8 * n)) := by
  induction n generalizing bs with
  | zero => exact ⟨[], rfl, rfl, WF_nil, by simp [value, bytesLE]⟩
  | succ n ih =>
    have hd : ∀ b ∈ bs.drop 8, b < 256 := fun b hbm => hb b (List.mem_of_mem_drop hbm)
    have ht : ∀ b ∈ bs.take 8, b < 256 := fun b hbm => hb b (List.mem_of_mem_take hbm)
    obtain ⟨l, e, l1, l2, l3⟩ := ih (bs.drop 8) hd (by rw [List.length_drop]; omega)
    have hlt := bytesLE_lt _ ht
    have htl : (bs.take 8).length = 8 := by rw [List.length_take]; omega
    rw [htl, pow256_8] at hlt
    refine ⟨bytesLE (bs.take 8) :: l, ?_, by simp [l1], WF_cons.mpr ⟨hlt, l2⟩, ?_⟩
    · simp only [bigDeserialize]
      rw [if_neg (by omega), e]
    · rw [value_cons, l3]
      have : bs.take (8 * (n + 1)) = bs.take 8 ++ (bs.drop 8).take (8 * n) := by
        rw [show 8 * (n + 1) = 8 + 8 * n by omega, List.take_add]
      rw [this, bytesLE_append, htl, pow256_8]

/-! ### conversions -/

theorem bigFromUint_spec (n x : Nat) (hx : x < B) :
    (n = 0 → bigFromUint n x = .panic) ∧
    (n ≠ 0 → ∃ l, bigFromUint n x = .ok l ∧ l.length = n ∧ WF l ∧ value l = x) := by
  unfold bigFromUint
  constructor
  · intro h; rw [if_pos h]
  · intro h
    rw [if_neg h]
    refine ⟨_, rfl, by simp; omega, WF_cons.mpr ⟨hx, WF_replicate_zero _⟩, ?_⟩
    rw [value_cons, value_replicate_zero]; omega

/-- limbs from byte chunks: `chunks(8)` then `u64::from_le_bytes` of each (zero-padded) chunk -/
theorem chunks8_spec (fuel : Nat) (l : List Nat) (hf : l.length ≤ fuel) (hb : ∀ b ∈ l, b < 256) :
    value ((chunks 8 l fuel).map bytesLE) = bytesLE l ∧ WF ((chunks 8 l fuel).map bytesLE) ∧
    8 * ((chunks 8 l fuel).map bytesLE).length < l.length + 8 := by
  induction fuel generalizing l with
  | zero =>
    have : l = [] := List.eq_nil_of_length_eq_zero (by omega)
    subst this
    simp [chunks, value, bytesLE, WF_nil]
  | succ fuel ih =>
    by_cases he : l = []
    · subst he
      simp [chunks, value, bytesLE, WF_nil]
    · have he' : l.isEmpty = false := by simpa using he
      have hpos : 0 < l.length := List.length_pos_iff.mpr he
      simp only [chunks, he', Bool.false_eq_true, if_false, List.map_cons, List.length_cons]
      have hd : ∀ b ∈ l.drop 8, b < 256 := fun b hbm => hb b (List.mem_of_mem_drop hbm)
      have ht : ∀ b ∈ l.take 8, b < 256 := fun b hbm => hb b (List.mem_of_mem_take hbm)
      have ⟨i1, i2, i3⟩ := ih (l.drop 8) (by rw [List.length_drop]; omega) hd
      have hlt := bytesLE_lt _ ht
      have hlt' : bytesLE (l.take 8) < B := by
        rw [← pow256_8]
        exact Nat.lt_of_lt_of_le hlt (Nat.pow_le_pow_right (by omega) (by rw [List.length_take]; omega))
      refine ⟨?_, WF_cons.mpr ⟨hlt', i2⟩, ?_⟩
      · rw [value_cons, i1]
        conv_rhs => rw [← List.take_append_drop 8 l, bytesLE_append]
        by_cases hlen : 8 ≤ l.length
        · rw [List.length_take, Nat.min_eq_left hlen, pow256_8]
        · have : l.drop 8 = [] := List.drop_eq_nil_of_le (by omega)
          rw [this]; simp [bytesLE]
      · rw [List.length_drop] at i3; omega

theorem biguintByteLen_le_iff (n x : Nat) (h : n ≠ 0 ∨ x ≠ 0) :
    biguintByteLen x ≤ 8 * n ↔ x < B ^ n := by
  unfold biguintByteLen
  by_cases hx : x = 0
  · subst hx
    have hn : n ≠ 0 := by rcases h with h | h; exact h; exact absurd rfl h
    simp only [if_true]
    have := Nat.pow_pos (n := n) B_pos
    omega
  · simp only [hx, if_false]
    rw [B_pow_eq, ← Nat.log2_lt hx]; omega

theorem lt_pow_biguintByteLen (x : Nat) : x < 256 ^ biguintByteLen x := by
  unfold biguintByteLen
  by_cases hx : x = 0
  · subst hx; simp
  · simp only [hx, if_false]
    rw [show (256 : Nat) = 2 ^ 8 by norm_num, ← Nat.pow_mul, ← Nat.log2_lt hx]; omega

theorem bigTryFromBigUint_spec (n x : Nat) :
    (8 * n < biguintByteLen x → bigTryFromBigUint n x = none) ∧
    (biguintByteLen x ≤ 8 * n → ∃ l, bigTryFromBigUint n x = some l ∧ l.length = n ∧ WF l ∧
      value l = x) := by
  unfold bigTryFromBigUint
  simp only [List.length_map, List.length_range]
  constructor
  · intro h; rw [if_pos h]
  · intro h
    rw [if_neg (by omega)]
    refine ⟨_, rfl, ?_⟩
    set bytes := (List.range (biguintByteLen x)).map (fun i => (x / 256 ^ i) % 256) with hbytes
    have hbl : bytes.length = biguintByteLen x := by simp [hbytes]
    have hb : ∀ b ∈ bytes, b < 256 := by
      intro b hbm
      simp only [hbytes, List.mem_map] at hbm
      obtain ⟨i, _, rfl⟩ := hbm
      exact Nat.mod_lt _ (by decide)
    have hv : bytesLE bytes = x := by
      rw [bytesLE_eq_foldr, hbytes, bytesFold_range]
      exact Nat.mod_eq_of_lt (lt_pow_biguintByteLen x)
    have ⟨c1, c2, c3⟩ := chunks8_spec (biguintByteLen x) bytes (by omega) hb
    rw [List.length_map] at c3
    refine ⟨?_, WF_append.mpr ⟨c2, WF_replicate_zero _⟩, ?_⟩
    · rw [List.length_append, List.length_replicate, List.length_map]; omega
    · rw [value_append, value_replicate_zero, c1, hv]; omega

/-! ### `FromStr` -/

theorem parse_foldl_digits (s : List Nat) (hs : ∀ c ∈ s, 48 ≤ c ∧ c ≤ 57) (v : Nat) :
    s.foldl (fun acc c => match acc with
      | none => none
      | some v => if c == 95 then some v else if 48 ≤ c ∧ c ≤ 57 then some (v * 10 + (c - 48)) else none)
      (some v) = some (s.foldl (fun acc c => acc * 10 + (c - 48)) v) := by
  induction s generalizing v with
  | nil => rfl
  | cons c cs ih =>
    have hc := hs c (by simp)
    simp only [List.foldl_cons]
    have h95 : (c == 95) = false := by simp; omega
    simp only [h95, Bool.false_eq_true, if_false, hc, and_self, if_true]
    exact ih (fun x hx => hs x (by simp [hx])) _

/-- on a non-empty string of ASCII digits the parser returns its decimal value -/
theorem parseBigUintStr_digits (s : List Nat) (hne : s ≠ []) (hs : ∀ c ∈ s, 48 ≤ c ∧ c ≤ 57) :
    parseBigUintStr s = some (s.foldl (fun acc c => acc * 10 + (c - 48)) 0) := by
  cases s with
  | nil => exact absurd rfl hne
  | cons c cs =>
    have hc := hs c (by simp)
    have h43 : c ≠ 43 := by omega
    have h95 : c ≠ 95 := by omega
    unfold parseBigUintStr
    split
    · rename_i t heq
      simp only [List.cons.injEq] at heq
      exact absurd heq.1 h43
    · simp only [List.isEmpty_cons, List.head?_cons, Bool.false_or]
      rw [if_neg (by simp [h95])]
      exact parse_foldl_digits _ hs 0

end Ark
/-! ## C01: the coverage-gap operations of `ff/src/fields/models/fp/mod.rs` (`Ark/Model/DrvC01.lean`) -/
/-
  Helper lemmas for Ark/Props/C01g.lean: the API-surface operations of
  ff/src/fields/models/fp/mod.rs modelled at the top of Ark/Model/DrvC01.lean
  (`div`, `sumIter`, `productIter`, `groupDoubleDefault`, `groupNegDefault`, `inverseInPlace`,
  `zeroize`) and the value-level reading of the `From<integer>` conversions.
-/
namespace Ark.Mont
open Ark

section
variable {c : MontCfg} {pv : Nat}

/-! ### div -/

/-- partial correctness of `div` (no primality needed): `r·b ≡ a·R (mod p)` -/
theorem surf_div_sound (h : CfgOK c pv) {a b r : List Nat} (ha : Elem c pv a) (hb : Elem c pv b)
    (e : div c a b = .ok r) :
    Elem c pv r ∧ (value r * value b) % pv = (value a * B ^ c.n) % pv := by
  unfold div at e
  cases hi : inverse c b with
  | none => rw [hi] at e; cases e
  | some i =>
    rw [hi] at e
    simp only [Outcome.ok.injEq] at e
    subst e
    obtain ⟨hie, hiv⟩ := C01.inverse_sound h b hb i hi
    obtain ⟨hme, hmv⟩ := C01.mul_correct h ha hie
    refine ⟨hme, ?_⟩
    have hco : Nat.Coprime pv (B ^ c.n) := Nat.coprime_comm.mp (coprime_R h.p_odd c.n)
    have e1 : value (mul c a i) * B ^ c.n ≡ value a * value i [MOD pv] := hmv
    have e2 : value i * value b ≡ B ^ c.n * B ^ c.n [MOD pv] := hiv
    have e3 : value (mul c a i) * B ^ c.n * value b ≡ value a * value i * value b [MOD pv] :=
      e1.mul_right _
    have e4 : value a * (value i * value b) ≡ value a * (B ^ c.n * B ^ c.n) [MOD pv] :=
      e2.mul_left _
    have e5 : value (mul c a i) * value b * B ^ c.n ≡ value a * B ^ c.n * B ^ c.n [MOD pv] := by
      have x1 : value (mul c a i) * value b * B ^ c.n = value (mul c a i) * B ^ c.n * value b := by
        ring
      have x2 : value a * B ^ c.n * B ^ c.n = value a * (B ^ c.n * B ^ c.n) := by ring
      have x3 : value a * value i * value b = value a * (value i * value b) := by ring
      rw [x1, x2]
      exact e3.trans (x3 ▸ e4)
    exact Nat.ModEq.cancel_right_of_coprime hco e5

/-- `div` panics exactly on a zero divisor (prime modulus) -/
theorem surf_div_panic_iff (h : CfgOK c pv) (hp : Nat.Prime pv) (a : List Nat) {b : List Nat}
    (hb : Elem c pv b) : div c a b = .panic ↔ value b = 0 := by
  rw [← C01.inverse_none_iff h hp b hb]
  unfold div
  cases inverse c b <;> simp

/-- totality + correctness of `div` on non-zero divisors -/
theorem surf_div_total (h : CfgOK c pv) (hp : Nat.Prime pv) {a b : List Nat} (ha : Elem c pv a)
    (hb : Elem c pv b) (hne : value b ≠ 0) :
    ∃ r, div c a b = .ok r ∧ Elem c pv r ∧
      (value r * value b) % pv = (value a * B ^ c.n) % pv := by
  obtain ⟨i, hi, _, _⟩ := (C01.inverse_correct h hp b hb).1 hne
  have e : div c a b = .ok (mul c a i) := by unfold div; rw [hi]
  exact ⟨_, e, surf_div_sound h ha hb e⟩

/-- the quotient is unique: THE canonical `x` with `x·b ≡ a·R (mod p)` -/
theorem surf_div_unique (h : CfgOK c pv) (hp : Nat.Prime pv) {a b r : List Nat}
    (ha : Elem c pv a) (hb : Elem c pv b) (e : div c a b = .ok r) (x : Nat) (hx : x < pv)
    (hxr : (x * value b) % pv = (value a * B ^ c.n) % pv) : x = value r := by
  obtain ⟨e1, e2⟩ := surf_div_sound h ha hb e
  have hne : value b ≠ 0 := by
    intro h0
    have := (surf_div_panic_iff h hp a hb).2 h0
    rw [this] at e; cases e
  exact mont_unique (coprime_of_prime hp hne hb.lt) hx e1.lt hxr e2

/-! ### sum -/

theorem surf_sum_fold (h : CfgOK c pv) : ∀ (xs : List (List Nat)) (acc : List Nat),
    Elem c pv acc → (∀ x ∈ xs, Elem c pv x) →
    Elem c pv (xs.foldl (add c) acc) ∧
    value (xs.foldl (add c) acc) = (value acc + (xs.map value).sum) % pv := by
  intro xs
  induction xs with
  | nil =>
    intro acc ha _
    refine ⟨ha, ?_⟩
    simp only [List.foldl_nil, List.map_nil, List.sum_nil, Nat.add_zero]
    exact (Nat.mod_eq_of_lt ha.lt).symm
  | cons x xs ih =>
    intro acc ha hxs
    obtain ⟨e1, e2⟩ := C01.add_exact h acc x ha (hxs x (by simp))
    obtain ⟨f1, f2⟩ := ih (add c acc x) e1 (fun y hy => hxs y (by simp [hy]))
    refine ⟨f1, ?_⟩
    rw [List.foldl_cons, f2, e2, List.map_cons, List.sum_cons, Nat.mod_add_mod, Nat.add_assoc]

theorem surf_sumIter_spec (h : CfgOK c pv) (xs : List (List Nat)) (hxs : ∀ x ∈ xs, Elem c pv x) :
    Elem c pv (sumIter c xs) ∧ value (sumIter c xs) = (xs.map value).sum % pv := by
  obtain ⟨z1, z2⟩ := zeros_elem h
  obtain ⟨e1, e2⟩ := surf_sum_fold h xs (zeros c.n) z1 hxs
  refine ⟨e1, ?_⟩
  unfold sumIter
  rw [e2, z2, Nat.zero_add]

theorem surf_sumIter_eq_sumList (xs : List (List Nat)) : sumIter c xs = sumList c xs := rfl

/-! ### product -/

theorem surf_prod_fold (h : CfgOK c pv) : ∀ (xs : List (List Nat)) (acc : List Nat),
    Elem c pv acc → (∀ x ∈ xs, Elem c pv x) →
    Elem c pv (xs.foldl (mul c) acc) ∧
    (value (xs.foldl (mul c) acc) * (B ^ c.n) ^ xs.length) % pv
      = (value acc * (xs.map value).prod) % pv := by
  intro xs
  induction xs with
  | nil =>
    intro acc ha _
    refine ⟨ha, ?_⟩
    simp
  | cons x xs ih =>
    intro acc ha hxs
    obtain ⟨e1, e2⟩ := C01.mul_correct h ha (hxs x (by simp))
    obtain ⟨f1, f2⟩ := ih (mul c acc x) e1 (fun y hy => hxs y (by simp [hy]))
    refine ⟨f1, ?_⟩
    rw [List.foldl_cons, List.length_cons, List.map_cons, List.prod_cons]
    have g1 : value (xs.foldl (mul c) (mul c acc x)) * (B ^ c.n) ^ xs.length
        ≡ value (mul c acc x) * (xs.map value).prod [MOD pv] := f2
    have g2 : value (mul c acc x) * B ^ c.n ≡ value acc * value x [MOD pv] := e2
    have g3 := g1.mul_right (B ^ c.n)
    have g4 := g2.mul_right ((xs.map value).prod)
    have x1 : value (xs.foldl (mul c) (mul c acc x)) * (B ^ c.n) ^ (xs.length + 1)
        = value (xs.foldl (mul c) (mul c acc x)) * (B ^ c.n) ^ xs.length * B ^ c.n := by ring
    have x2 : value (mul c acc x) * (xs.map value).prod * B ^ c.n
        = value (mul c acc x) * B ^ c.n * (xs.map value).prod := by ring
    have x3 : value acc * (value x * (xs.map value).prod)
        = value acc * value x * (xs.map value).prod := by ring
    show _ ≡ _ [MOD pv]
    rw [x1, x3]
    exact g3.trans (x2 ▸ g4)

theorem surf_productIter_spec (h : CfgOK c pv) (xs : List (List Nat))
    (hxs : ∀ x ∈ xs, Elem c pv x) :
    Elem c pv (productIter c xs) ∧
    (value (productIter c xs) * (B ^ c.n) ^ xs.length) % pv
      = (B ^ c.n * (xs.map value).prod) % pv := by
  obtain ⟨e1, e2⟩ := surf_prod_fold h xs c.r (one_elem h) hxs
  refine ⟨e1, ?_⟩
  unfold productIter
  rw [e2, h.r_val, Nat.mod_mul_mod]

/-- the product of canonical elements is unique: THE canonical `x` with
    `x·R^len ≡ R·∏ value (mod p)` -/
theorem surf_productIter_unique (h : CfgOK c pv) (xs : List (List Nat))
    (hxs : ∀ x ∈ xs, Elem c pv x) (x : Nat) (hx : x < pv)
    (hxr : (x * (B ^ c.n) ^ xs.length) % pv = (B ^ c.n * (xs.map value).prod) % pv) :
    x = value (productIter c xs) := by
  obtain ⟨e1, e2⟩ := surf_productIter_spec h xs hxs
  exact mont_unique (Nat.Coprime.pow_left _ (coprime_R h.p_odd c.n)) hx e1.lt hxr e2

/-! ### the `AdditiveGroup` default bodies -/

theorem surf_groupDouble_eq (h : CfgOK c pv) {a : List Nat} (ha : Elem c pv a) :
    groupDoubleDefault c a = double c a := by
  obtain ⟨e1, e2⟩ := C01.add_exact h a a ha ha
  obtain ⟨f1, f2⟩ := C01.double_exact h a ha
  unfold groupDoubleDefault
  apply value_inj _ _ e1.wf f1.wf (by rw [e1.len, f1.len])
  rw [e2, f2, Nat.two_mul]

theorem surf_groupDouble_spec (h : CfgOK c pv) {a : List Nat} (ha : Elem c pv a) :
    Elem c pv (groupDoubleDefault c a) ∧ value (groupDoubleDefault c a) = (2 * value a) % pv := by
  rw [surf_groupDouble_eq h ha]
  exact C01.double_exact h a ha

theorem surf_groupNeg_eq (a : List Nat) : groupNegDefault c a = neg c a := rfl

/-! ### inverse_in_place -/

theorem surf_inverseInPlace_some (h : CfgOK c pv) (hp : Nat.Prime pv) {a : List Nat}
    (ha : Elem c pv a) (hne : value a ≠ 0) :
    ∃ r, inverseInPlace c a = (some r, r) ∧ Elem c pv r ∧
      (value r * value a) % pv = (B ^ c.n * B ^ c.n) % pv := by
  obtain ⟨r, e1, e2, e3⟩ := (C01.inverse_correct h hp a ha).1 hne
  refine ⟨r, ?_, e2, e3⟩
  unfold inverseInPlace; rw [e1]

theorem surf_inverseInPlace_none (a : List Nat) (h0 : value a = 0) :
    inverseInPlace c a = (none, a) := by
  unfold inverseInPlace; rw [Mont.inverse_zero c a h0]

/-- the two components always agree with `inverse` -/
theorem surf_inverseInPlace_fst (a : List Nat) : (inverseInPlace c a).1 = inverse c a := by
  unfold inverseInPlace; cases inverse c a <;> rfl

theorem surf_inverseInPlace_snd (a : List Nat) :
    (inverseInPlace c a).2 = (inverse c a).getD a := by
  unfold inverseInPlace; cases inverse c a <;> rfl

/-! ### zeroize -/

theorem surf_zeroize_spec (h : CfgOK c pv) (a : List Nat) :
    Elem c pv (zeroize c a) ∧ value (zeroize c a) = 0 ∧ zeroize c a = zeros c.n :=
  ⟨(zeros_elem h).1, (zeros_elem h).2, rfl⟩

/-! ### bounds used by the `From<integer>` corollaries -/

theorem surf_pow_le_B {w : Nat} (hw : w ≤ 64) : 2 ^ w ≤ B := by
  unfold B; exact Nat.pow_le_pow_right (by omega) hw

theorem surf_pow128 : (2 : Nat) ^ 128 = B ^ 2 := by unfold B; rw [← Nat.pow_mul]

/-- a `w`-bit two's-complement integer has `|x| ≤ 2^(w-1)` -/
theorem surf_natAbs_le {w : Nat} {x : Int} (hlo : -(2 ^ (w - 1) : Int) ≤ x)
    (hhi : x < (2 ^ (w - 1) : Int)) : x.natAbs ≤ 2 ^ (w - 1) := by
  have : ((2 ^ (w - 1) : Nat) : Int) = (2 ^ (w - 1) : Int) := by push_cast; rfl
  omega

theorem surf_natAbs_lt_B {w : Nat} (hw : w ≤ 64) (hw1 : 1 ≤ w) {x : Int}
    (hlo : -(2 ^ (w - 1) : Int) ≤ x) (hhi : x < (2 ^ (w - 1) : Int)) : x.natAbs < B := by
  have h1 := surf_natAbs_le hlo hhi
  have h2 : (2 : Nat) ^ (w - 1) < 2 ^ w := Nat.pow_lt_pow_right (by omega) (by omega)
  have h3 := surf_pow_le_B hw
  omega

theorem surf_natAbs_lt_B2 {x : Int} (hlo : -(2 ^ 127 : Int) ≤ x) (hhi : x < (2 ^ 127 : Int)) :
    x.natAbs < B ^ 2 := by
  have h1 := surf_natAbs_le (w := 128) hlo hhi
  have h2 : (2 : Nat) ^ (128 - 1) < 2 ^ 128 := by decide
  rw [← surf_pow128]; omega

end

section
variable {c : MontCfg} {pv : Nat} [Fact pv.Prime]

/-! ### ZMod forms -/

theorem surf_div_den_of_ok (h : CfgOK c pv) {a b r : List Nat} (ha : Elem c pv a)
    (hb : Elem c pv b) (e : div c a b = .ok r) : den c pv r = den c pv a / den c pv b := by
  unfold div at e
  cases hi : inverse c b with
  | none => rw [hi] at e; cases e
  | some i =>
    rw [hi] at e
    simp only [Outcome.ok.injEq] at e
    subst e
    have hne : den c pv b ≠ 0 := by
      intro h0
      rw [inverse_none_of_den_zero h hb h0] at hi; cases hi
    obtain ⟨i', hi', hie, hid⟩ := den_inverse h hb hne
    rw [hi] at hi'
    simp only [Option.some.injEq] at hi'
    subst hi'
    rw [den_mul h ha hie, hid, div_eq_mul_inv]

theorem surf_div_den (h : CfgOK c pv) {a b : List Nat} (ha : Elem c pv a) (hb : Elem c pv b) :
    (den c pv b ≠ 0 →
      ∃ r, div c a b = .ok r ∧ Elem c pv r ∧ den c pv r = den c pv a / den c pv b) ∧
    (den c pv b = 0 → div c a b = .panic) := by
  constructor
  · intro hne
    have hv : value b ≠ 0 := fun h0 => hne ((den_eq_zero_iff h hb).2 h0)
    obtain ⟨r, e1, e2, _⟩ := surf_div_total h Fact.out ha hb hv
    exact ⟨r, e1, e2, surf_div_den_of_ok h ha hb e1⟩
  · intro h0
    exact (surf_div_panic_iff h Fact.out a hb).2 ((den_eq_zero_iff h hb).1 h0)

theorem surf_sum_fold_den (h : CfgOK c pv) : ∀ (xs : List (List Nat)) (acc : List Nat),
    Elem c pv acc → (∀ x ∈ xs, Elem c pv x) →
    den c pv (xs.foldl (add c) acc) = den c pv acc + (xs.map (den c pv)).sum := by
  intro xs
  induction xs with
  | nil => intro acc _ _; simp
  | cons x xs ih =>
    intro acc ha hxs
    have hx := hxs x (by simp)
    rw [List.foldl_cons, ih _ (C01.add_exact h acc x ha hx).1 (fun y hy => hxs y (by simp [hy])),
      den_add h ha hx, List.map_cons, List.sum_cons, add_assoc]

theorem surf_sumIter_den (h : CfgOK c pv) (xs : List (List Nat)) (hxs : ∀ x ∈ xs, Elem c pv x) :
    den c pv (sumIter c xs) = (xs.map (den c pv)).sum := by
  unfold sumIter
  rw [surf_sum_fold_den h xs _ (zeros_elem h).1 hxs, den_zeros, zero_add]

theorem surf_prod_fold_den (h : CfgOK c pv) : ∀ (xs : List (List Nat)) (acc : List Nat),
    Elem c pv acc → (∀ x ∈ xs, Elem c pv x) →
    den c pv (xs.foldl (mul c) acc) = den c pv acc * (xs.map (den c pv)).prod := by
  intro xs
  induction xs with
  | nil => intro acc _ _; simp
  | cons x xs ih =>
    intro acc ha hxs
    have hx := hxs x (by simp)
    rw [List.foldl_cons, ih _ (C01.mul_correct h ha hx).1 (fun y hy => hxs y (by simp [hy])),
      den_mul h ha hx, List.map_cons, List.prod_cons, mul_assoc]

theorem surf_productIter_den (h : CfgOK c pv) (xs : List (List Nat))
    (hxs : ∀ x ∈ xs, Elem c pv x) :
    den c pv (productIter c xs) = (xs.map (den c pv)).prod := by
  unfold productIter
  rw [surf_prod_fold_den h xs _ (one_elem h) hxs, den_one h, one_mul]

theorem surf_inverseInPlace_den (h : CfgOK c pv) {a : List Nat} (ha : Elem c pv a) :
    (den c pv a ≠ 0 → ∃ r, inverseInPlace c a = (some r, r) ∧ Elem c pv r ∧
      den c pv r = (den c pv a)⁻¹) ∧
    (den c pv a = 0 → inverseInPlace c a = (none, a)) := by
  constructor
  · intro hne
    obtain ⟨r, e1, e2, e3⟩ := den_inverse h ha hne
    refine ⟨r, ?_, e2, e3⟩
    unfold inverseInPlace; rw [e1]
  · intro h0
    exact surf_inverseInPlace_none a ((den_eq_zero_iff h ha).1 h0)

/-! ### value-level reading of a denotation: "the element is `x mod p`" -/

/-- an element denoting the integer `x`: its standard form is `x mod p` (the non-negative
    remainder) and its Montgomery limbs hold `(x mod p)·R mod p` -/
theorem surf_val_of_den_int (h : CfgOK c pv) {r : List Nat} (hr : Elem c pv r) {x : Int}
    (hd : den c pv r = (x : ZMod pv)) :
    value (intoBigint c r) = (x % (pv : Int)).toNat ∧
    value r = ((x % (pv : Int)).toNat * B ^ c.n) % pv := by
  have hp : 0 < pv := by have := h.p_gt; omega
  have hnn : 0 ≤ x % (pv : Int) := Int.emod_nonneg _ (by omega)
  have hcast : (((x % (pv : Int)).toNat : ℕ) : ZMod pv) = (x : ZMod pv) := by
    rw [← Int.cast_natCast, Int.toNat_of_nonneg hnn, ZMod.intCast_mod]
  constructor
  · rw [intoBigint_val h hr, hd]
    have := ZMod.val_intCast (n := pv) x
    omega
  · have e : (value r : ZMod pv) = (((x % (pv : Int)).toNat * B ^ c.n : ℕ) : ZMod pv) := by
      rw [← den_mul_R h r, hd, Nat.cast_mul, hcast]
    have := mod_eq_of_cast_eq e
    rwa [Nat.mod_eq_of_lt hr.lt] at this

theorem surf_val_of_den_nat (h : CfgOK c pv) {r : List Nat} (hr : Elem c pv r) {x : Nat}
    (hd : den c pv r = (x : ZMod pv)) :
    value (intoBigint c r) = x % pv ∧ value r = (x % pv * B ^ c.n) % pv := by
  have := surf_val_of_den_int h hr (x := (x : Int)) (by rw [hd, Int.cast_natCast])
  have e : ((x : Int) % (pv : Int)).toNat = x % pv := by omega
  rwa [e] at this

end
end Ark.Mont

/-! ## C02: the coverage-gap operations of the extension-field templates and `to_field_vec.rs` (`Ark/Model/DrvC02.lean`) -/
set_option linter.style.haveILetI false
set_option linter.unusedSectionVars false

namespace Ark.ExtC
open Ark Ark.Ext Ark.ExtB

/-! ## 1. `inverse_in_place`, `Div` -/

section div
variable {P E : Type} [Field E] [DecidableEq E]

theorem inverseInPlace_eq {D : FieldD P E} (hD : BaseLawful D) (a : E) :
    inverseInPlace D a = .ok (if a = 0 then (none, a) else (some a⁻¹, a⁻¹)) := by
  unfold inverseInPlace
  rw [hD.inverse]
  by_cases h : a = 0 <;> simp [h]

theorem fieldDiv_eq {D : FieldD P E} (hD : BaseLawful D) (a b : E) :
    fieldDiv D a b = if b = 0 then .panic else .ok (a / b) := by
  unfold fieldDiv
  rw [hD.inverse]
  by_cases h : b = 0 <;> simp [h, div_eq_mul_inv]

theorem fieldDiv_ok_mul {D : FieldD P E} (hD : BaseLawful D) (a b x : E)
    (h : fieldDiv D a b = .ok x) : x * b = a := by
  rw [fieldDiv_eq hD] at h
  by_cases hb : b = 0
  · rw [if_pos hb] at h; cases h
  · rw [if_neg hb] at h
    cases h
    exact div_mul_cancel₀ a hb

theorem fieldDiv_panic_iff {D : FieldD P E} (hD : BaseLawful D) (a b : E) :
    fieldDiv D a b = .panic ↔ b = 0 := by
  rw [fieldDiv_eq hD]
  by_cases hb : b = 0 <;> simp [hb]

theorem fieldDiv_ok_iff {D : FieldD P E} (hD : BaseLawful D) (a b x : E) :
    fieldDiv D a b = .ok x ↔ b ≠ 0 ∧ x = a / b := by
  rw [fieldDiv_eq hD]
  by_cases hb : b = 0
  · simp [hb]
  · simp only [hb, if_false, Outcome.ok.injEq, ne_eq, not_false_eq_true, true_and]
    exact eq_comm

end div

/-! ## 2. `Sum`, `Product` -/

section sumprod
variable {E : Type}

theorem sumIter_eq_sum [AddMonoid E] (xs : List E) : sumIter xs = xs.sum := by
  unfold sumIter
  exact (List.sum_eq_foldl).symm

theorem productIter_eq_prod [Monoid E] (xs : List E) : productIter xs = xs.prod := by
  unfold productIter
  exact (List.prod_eq_foldl).symm

theorem sumIter_nil [Add E] [Zero E] : sumIter ([] : List E) = 0 := rfl
theorem productIter_nil [Mul E] [One E] : productIter ([] : List E) = 1 := rfl

theorem sumIter_append_singleton [Add E] [Zero E] (xs : List E) (x : E) :
    sumIter (xs ++ [x]) = sumIter xs + x := by
  simp [sumIter, List.foldl_append]

theorem productIter_append_singleton [Mul E] [One E] (xs : List E) (x : E) :
    productIter (xs ++ [x]) = productIter xs * x := by
  simp [productIter, List.foldl_append]

end sumprod

/-! ## tower instantiations of 1. and 2. -/

section tower
variable {P F : Type} [Field F] [DecidableEq F]

theorem quad_fieldDiv_eq {cfg : QuadCfg F} {B : FieldD P F} (hB : BaseLawful B) (hc : QuadLawful cfg)
    (hnr : ∀ x : F, x * x ≠ cfg.nonresidue) (a b : Quad F) :
    letI := Quad.field cfg B hB hc hnr
    @fieldDiv P (Quad F) ⟨Quad.mul cfg B⟩ (Quad.fieldD cfg B) a b
      = if b = 0 then .panic else .ok (a / b) := by
  letI := Quad.field cfg B hB hc hnr
  exact fieldDiv_eq (Quad.fieldD_baseLawful hB hc hnr) a b

theorem quad_fieldDiv_ok_mul {cfg : QuadCfg F} {B : FieldD P F} (hB : BaseLawful B)
    (hc : QuadLawful cfg) (hnr : ∀ x : F, x * x ≠ cfg.nonresidue) (a b x : Quad F)
    (h : @fieldDiv P (Quad F) ⟨Quad.mul cfg B⟩ (Quad.fieldD cfg B) a b = .ok x) :
    Quad.mul cfg B x b = a := by
  letI := Quad.field cfg B hB hc hnr
  exact fieldDiv_ok_mul (Quad.fieldD_baseLawful hB hc hnr) a b x h

theorem quad_fieldDiv_panic_iff {cfg : QuadCfg F} {B : FieldD P F} (hB : BaseLawful B)
    (hc : QuadLawful cfg) (hnr : ∀ x : F, x * x ≠ cfg.nonresidue) (a b : Quad F) :
    @fieldDiv P (Quad F) ⟨Quad.mul cfg B⟩ (Quad.fieldD cfg B) a b = .panic ↔ b = 0 := by
  letI := Quad.field cfg B hB hc hnr
  exact fieldDiv_panic_iff (Quad.fieldD_baseLawful hB hc hnr) a b

theorem quad_fieldDiv_total {cfg : QuadCfg F} {B : FieldD P F} (hB : BaseLawful B)
    (hc : QuadLawful cfg) (hnr : ∀ x : F, x * x ≠ cfg.nonresidue) (a b : Quad F) (hb : b ≠ 0) :
    ∃ x, @fieldDiv P (Quad F) ⟨Quad.mul cfg B⟩ (Quad.fieldD cfg B) a b = .ok x ∧
      Quad.mul cfg B x b = a := by
  letI := Quad.field cfg B hB hc hnr
  refine ⟨a / b, ?_, div_mul_cancel₀ a hb⟩
  rw [fieldDiv_eq (Quad.fieldD_baseLawful hB hc hnr) a b, if_neg hb]

theorem quad_inverseInPlace_ne_zero {cfg : QuadCfg F} {B : FieldD P F} (hB : BaseLawful B)
    (hc : QuadLawful cfg) (hnr : ∀ x : F, x * x ≠ cfg.nonresidue) (a : Quad F) (ha : a ≠ 0) :
    ∃ i, inverseInPlace (Quad.fieldD cfg B) a = .ok (some i, i) ∧ Quad.mul cfg B a i = 1 := by
  letI := Quad.field cfg B hB hc hnr
  refine ⟨a⁻¹, ?_, mul_inv_cancel₀ ha⟩
  rw [inverseInPlace_eq (Quad.fieldD_baseLawful hB hc hnr) a, if_neg ha]

theorem quad_inverseInPlace_zero {cfg : QuadCfg F} {B : FieldD P F} :
    inverseInPlace (Quad.fieldD cfg B) (0 : Quad F) = .ok (none, 0) := by
  unfold inverseInPlace
  show obind (Quad.inverse cfg B 0) _ = _
  rw [Quad.inverse_zero]; rfl

theorem cubic_fieldDiv_eq {cfg : CubicCfg F} {B : FieldD P F} (hB : BaseLawful B)
    (hc : CubicLawful cfg) (hnc : ∀ x : F, x ^ 3 ≠ cfg.nonresidue) (a b : Cubic F) :
    letI := Cubic.field cfg hc hnc
    @fieldDiv P (Cubic F) ⟨Cubic.mul cfg⟩ (Cubic.fieldD cfg B) a b
      = if b = 0 then .panic else .ok (a / b) := by
  letI := Cubic.field cfg hc hnc
  exact fieldDiv_eq (Cubic.fieldD_baseLawful hB hc hnc) a b

theorem cubic_fieldDiv_ok_mul {cfg : CubicCfg F} {B : FieldD P F} (hB : BaseLawful B)
    (hc : CubicLawful cfg) (hnc : ∀ x : F, x ^ 3 ≠ cfg.nonresidue) (a b x : Cubic F)
    (h : @fieldDiv P (Cubic F) ⟨Cubic.mul cfg⟩ (Cubic.fieldD cfg B) a b = .ok x) :
    Cubic.mul cfg x b = a := by
  letI := Cubic.field cfg hc hnc
  exact fieldDiv_ok_mul (Cubic.fieldD_baseLawful hB hc hnc) a b x h

theorem cubic_fieldDiv_panic_iff {cfg : CubicCfg F} {B : FieldD P F} (hB : BaseLawful B)
    (hc : CubicLawful cfg) (hnc : ∀ x : F, x ^ 3 ≠ cfg.nonresidue) (a b : Cubic F) :
    @fieldDiv P (Cubic F) ⟨Cubic.mul cfg⟩ (Cubic.fieldD cfg B) a b = .panic ↔ b = 0 := by
  letI := Cubic.field cfg hc hnc
  exact fieldDiv_panic_iff (Cubic.fieldD_baseLawful hB hc hnc) a b

theorem cubic_fieldDiv_total {cfg : CubicCfg F} {B : FieldD P F} (hB : BaseLawful B)
    (hc : CubicLawful cfg) (hnc : ∀ x : F, x ^ 3 ≠ cfg.nonresidue) (a b : Cubic F) (hb : b ≠ 0) :
    ∃ x, @fieldDiv P (Cubic F) ⟨Cubic.mul cfg⟩ (Cubic.fieldD cfg B) a b = .ok x ∧
      Cubic.mul cfg x b = a := by
  letI := Cubic.field cfg hc hnc
  refine ⟨a / b, ?_, div_mul_cancel₀ a hb⟩
  rw [fieldDiv_eq (Cubic.fieldD_baseLawful hB hc hnc) a b, if_neg hb]

theorem cubic_inverseInPlace_ne_zero {cfg : CubicCfg F} {B : FieldD P F} (hB : BaseLawful B)
    (hc : CubicLawful cfg) (hnc : ∀ x : F, x ^ 3 ≠ cfg.nonresidue) (a : Cubic F) (ha : a ≠ 0) :
    ∃ i, inverseInPlace (Cubic.fieldD cfg B) a = .ok (some i, i) ∧ Cubic.mul cfg a i = 1 := by
  letI := Cubic.field cfg hc hnc
  refine ⟨a⁻¹, ?_, mul_inv_cancel₀ ha⟩
  rw [inverseInPlace_eq (Cubic.fieldD_baseLawful hB hc hnc) a, if_neg ha]

theorem cubic_inverseInPlace_zero {cfg : CubicCfg F} {B : FieldD P F} :
    inverseInPlace (Cubic.fieldD cfg B) (0 : Cubic F) = .ok (none, 0) := by
  unfold inverseInPlace
  show obind (Cubic.inverse cfg B 0) _ = _
  rw [Cubic.inverse_zero]; rfl

theorem quad_productIter_eq_prod {cfg : QuadCfg F} {B : FieldD P F} (hB : BaseLawful B)
    (hc : QuadLawful cfg) (xs : List (Quad F)) :
    letI := Quad.commRing cfg B hB hc
    @productIter (Quad F) ⟨Quad.mul cfg B⟩ _ xs = xs.prod := by
  letI := Quad.commRing cfg B hB hc
  exact productIter_eq_prod xs

theorem quad_sumIter_eq_sum {cfg : QuadCfg F} {B : FieldD P F} (hB : BaseLawful B)
    (hc : QuadLawful cfg) (xs : List (Quad F)) :
    letI := Quad.commRing cfg B hB hc
    sumIter xs = xs.sum := by
  letI := Quad.commRing cfg B hB hc
  exact sumIter_eq_sum xs

theorem cubic_productIter_eq_prod {cfg : CubicCfg F} (hc : CubicLawful cfg) (xs : List (Cubic F)) :
    letI := Cubic.commRing cfg hc
    @productIter (Cubic F) ⟨Cubic.mul cfg⟩ _ xs = xs.prod := by
  letI := Cubic.commRing cfg hc
  exact productIter_eq_prod xs

theorem cubic_sumIter_eq_sum {cfg : CubicCfg F} (hc : CubicLawful cfg) (xs : List (Cubic F)) :
    letI := Cubic.commRing cfg hc
    sumIter xs = xs.sum := by
  letI := Cubic.commRing cfg hc
  exact sumIter_eq_sum xs

end tower

section sumcoords
variable {F : Type} [Add F] [Zero F]

theorem quad_foldl_add_coords (xs : List (Quad F)) (a : Quad F) :
    xs.foldl (· + ·) a = ⟨(xs.map (·.c0)).foldl (· + ·) a.c0, (xs.map (·.c1)).foldl (· + ·) a.c1⟩ := by
  induction xs generalizing a with
  | nil => rfl
  | cons x xs ih => rw [List.foldl_cons, ih]; rfl

/-- the sum of a quadratic-extension sequence is coordinatewise (no configuration involved) -/
theorem quad_sumIter_coords (xs : List (Quad F)) :
    sumIter xs = ⟨sumIter (xs.map (·.c0)), sumIter (xs.map (·.c1))⟩ :=
  quad_foldl_add_coords xs 0

theorem cubic_foldl_add_coords (xs : List (Cubic F)) (a : Cubic F) :
    xs.foldl (· + ·) a = ⟨(xs.map (·.c0)).foldl (· + ·) a.c0, (xs.map (·.c1)).foldl (· + ·) a.c1,
      (xs.map (·.c2)).foldl (· + ·) a.c2⟩ := by
  induction xs generalizing a with
  | nil => rfl
  | cons x xs ih => rw [List.foldl_cons, ih]; rfl

theorem cubic_sumIter_coords (xs : List (Cubic F)) :
    sumIter xs = ⟨sumIter (xs.map (·.c0)), sumIter (xs.map (·.c1)), sumIter (xs.map (·.c2))⟩ :=
  cubic_foldl_add_coords xs 0

end sumcoords

theorem sumIter_perm {E : Type} [AddCommMonoid E] {xs ys : List E} (h : xs.Perm ys) :
    sumIter xs = sumIter ys := by
  rw [sumIter_eq_sum, sumIter_eq_sum]; exact h.sum_eq

theorem productIter_perm {E : Type} [CommMonoid E] {xs ys : List E} (h : xs.Perm ys) :
    productIter xs = productIter ys := by
  rw [productIter_eq_prod, productIter_eq_prod]; exact h.prod_eq

/-! ## 3. `From<u*>`, `From<i*>` -/

section fromint

theorem int_natAbs_cast {R : Type} [Ring R] (x : Int) :
    (if x > 0 then ((x.natAbs : ℕ) : R) else -((x.natAbs : ℕ) : R)) = (x : R) := by
  by_cases h : x > 0
  · rw [if_pos h]
    have : ((x.natAbs : ℕ) : ℤ) = x := Int.natAbs_of_nonneg (le_of_lt h)
    rw [← Int.cast_natCast, this]
  · rw [if_neg h]
    have : ((x.natAbs : ℕ) : ℤ) = -x := Int.ofNat_natAbs_of_nonpos (not_lt.mp h)
    rw [← Int.cast_natCast, this, Int.cast_neg, neg_neg]

variable {F : Type} [Field F] [DecidableEq F]

theorem fromUnsigned_primeD (x : Nat) : fromUnsigned (primeD F) Nat.cast x = (x : F) := rfl

theorem fromSignedInt_primeD (x : Int) : fromSignedInt (primeD F) Nat.cast x = (x : F) := by
  show (if x > 0 then ((x.natAbs : ℕ) : F) else -((x.natAbs : ℕ) : F)) = _
  exact int_natAbs_cast x

end fromint

section fromlayer
variable {P F : Type} [Add F] [Sub F] [Mul F] [Neg F] [Zero F] [One F] [DecidableEq F]

theorem fromUnsigned_quad (cfg : QuadCfg F) (B : FieldD P F) (conv : Nat → P) (x : Nat) :
    fromUnsigned (Quad.fieldD cfg B) conv x = ⟨fromUnsigned B conv x, 0⟩ := rfl

theorem fromUnsigned_cubic (cfg : CubicCfg F) (B : FieldD P F) (conv : Nat → P) (x : Nat) :
    fromUnsigned (Cubic.fieldD cfg B) conv x = ⟨fromUnsigned B conv x, 0, 0⟩ := rfl

theorem fromSignedInt_quad (h0 : -(0 : F) = 0) (cfg : QuadCfg F) (B : FieldD P F) (conv : Nat → P)
    (x : Int) :
    fromSignedInt (Quad.fieldD cfg B) conv x = ⟨fromSignedInt B conv x, 0⟩ := by
  unfold fromSignedInt
  by_cases h : x > 0
  · simp only [h, if_true]; rfl
  · simp only [h, if_false]
    show (⟨-(B.ofPrime (conv x.natAbs)), -0⟩ : Quad F) = _
    rw [h0]

theorem fromSignedInt_cubic (h0 : -(0 : F) = 0) (cfg : CubicCfg F) (B : FieldD P F) (conv : Nat → P)
    (x : Int) :
    fromSignedInt (Cubic.fieldD cfg B) conv x = ⟨fromSignedInt B conv x, 0, 0⟩ := by
  unfold fromSignedInt
  by_cases h : x > 0
  · simp only [h, if_true]; rfl
  · simp only [h, if_false]
    show (⟨-(B.ofPrime (conv x.natAbs)), -0, -0⟩ : Cubic F) = _
    rw [h0]

end fromlayer

section fromprime
variable {F : Type} [Field F] [DecidableEq F]

theorem fromSignedInt_quad_prime (cfg : QuadCfg F) (x : Int) :
    fromSignedInt (Quad.fieldD cfg (primeD F)) Nat.cast x = ⟨(x : F), 0⟩ := by
  rw [fromSignedInt_quad neg_zero, fromSignedInt_primeD]

theorem fromSignedInt_cubic_prime (cfg : CubicCfg F) (x : Int) :
    fromSignedInt (Cubic.fieldD cfg (primeD F)) Nat.cast x = ⟨(x : F), 0, 0⟩ := by
  rw [fromSignedInt_cubic neg_zero, fromSignedInt_primeD]

end fromprime

/-! ### the executable prime field -/

theorem Fp.neg_zero (p : Nat) : -(0 : Fp p) = 0 := by
  show (⟨(p - 0 % p) % p⟩ : Fp p) = ⟨0⟩
  simp

theorem fromUnsigned_fp (p x : Nat) : (fromUnsigned (fpD p) (Fp.ofNat p) x).val = x % p := rfl

theorem neg_mod_toNat (p : Nat) (hp : 0 < p) (n : Nat) :
    (p - n % p % p) % p = ((-(n : Int)) % (p : Int)).toNat := by
  have hr : n % p < p := Nat.mod_lt _ hp
  have key : (((p - n % p % p) % p : ℕ) : ℤ) = (-(n : Int)) % (p : Int) := by
    rw [Nat.mod_mod, Int.natCast_mod, Nat.cast_sub (le_of_lt hr), Int.natCast_mod]
    rw [Int.emod_eq_emod_iff_emod_sub_eq_zero]
    apply Int.emod_eq_zero_of_dvd
    refine ⟨1 + (n : ℤ) / p, ?_⟩
    have := Int.emod_add_mul_ediv (n : ℤ) p
    rw [mul_add, mul_one]
    linarith
  omega

theorem fromSignedInt_fp (p : Nat) (hp : 0 < p) (x : Int) :
    (fromSignedInt (fpD p) (Fp.ofNat p) x).val = (x % (p : Int)).toNat := by
  unfold fromSignedInt
  by_cases h : x > 0
  · simp only [h, if_true]
    show x.natAbs % p = _
    have : ((x.natAbs : ℕ) : ℤ) = x := Int.natAbs_of_nonneg (le_of_lt h)
    have h2 : ((x.natAbs % p : ℕ) : ℤ) = x % (p : ℤ) := by rw [Int.natCast_mod, this]
    omega
  · simp only [h, if_false]
    show (p - x.natAbs % p % p) % p = _
    have : x = -((x.natAbs : ℕ) : ℤ) := by
      have := Int.ofNat_natAbs_of_nonpos (not_lt.mp h); omega
    rw [neg_mod_toNat p hp]
    rw [← this]

/-! ### coordinates of the embedded integer, for every tower layer -/

/-- `from_base_prime_field` puts its argument in the first coordinate, `0` has all coordinates `0`,
    negation is coordinatewise and the extension degree is positive -/
structure OfPrimeLawful {P E : Type} [Zero P] [Neg P] [Zero E] [Neg E] (D : FieldD P E) : Prop where
  ofPrime : ∀ e, D.toPrimes (D.ofPrime e) = e :: List.replicate (D.extDeg - 1) 0
  zero : D.toPrimes 0 = List.replicate D.extDeg 0
  neg : ∀ a, D.toPrimes (-a) = (D.toPrimes a).map Neg.neg
  pos : 0 < D.extDeg

theorem fpD_ofPrimeLawful (p : Nat) : OfPrimeLawful (fpD p) where
  ofPrime _ := rfl
  zero := rfl
  neg _ := rfl
  pos := Nat.one_pos

theorem primeD_ofPrimeLawful {F : Type} [Field F] [DecidableEq F] : OfPrimeLawful (primeD F) where
  ofPrime _ := rfl
  zero := rfl
  neg _ := rfl
  pos := Nat.one_pos

section ofprime
variable {P F : Type} [Zero P] [Neg P]
  [Add F] [Sub F] [Mul F] [Neg F] [Zero F] [One F] [DecidableEq F]

theorem quad_fieldD_ofPrimeLawful {cfg : QuadCfg F} {B : FieldD P F} (hB : OfPrimeLawful B) :
    OfPrimeLawful (Quad.fieldD cfg B) where
  ofPrime e := by
    show B.toPrimes (B.ofPrime e) ++ B.toPrimes 0 = e :: List.replicate (2 * B.extDeg - 1) 0
    rw [hB.ofPrime, hB.zero, List.cons_append, List.replicate_append_replicate]
    have := hB.pos
    congr 2; omega
  zero := by
    show B.toPrimes 0 ++ B.toPrimes 0 = List.replicate (2 * B.extDeg) 0
    rw [hB.zero, List.replicate_append_replicate]
    congr 1; omega
  neg a := by
    show B.toPrimes (-a.c0) ++ B.toPrimes (-a.c1) = (B.toPrimes a.c0 ++ B.toPrimes a.c1).map Neg.neg
    rw [hB.neg, hB.neg, List.map_append]
  pos := by
    show 0 < 2 * B.extDeg
    have := hB.pos; omega

theorem cubic_fieldD_ofPrimeLawful {cfg : CubicCfg F} {B : FieldD P F} (hB : OfPrimeLawful B) :
    OfPrimeLawful (Cubic.fieldD cfg B) where
  ofPrime e := by
    show B.toPrimes (B.ofPrime e) ++ B.toPrimes 0 ++ B.toPrimes 0 =
      e :: List.replicate (3 * B.extDeg - 1) 0
    rw [hB.ofPrime, hB.zero, List.cons_append, List.cons_append, List.replicate_append_replicate,
      List.replicate_append_replicate]
    have := hB.pos
    congr 2; omega
  zero := by
    show B.toPrimes 0 ++ B.toPrimes 0 ++ B.toPrimes 0 = List.replicate (3 * B.extDeg) 0
    rw [hB.zero, List.replicate_append_replicate, List.replicate_append_replicate]
    congr 1; omega
  neg a := by
    show B.toPrimes (-a.c0) ++ B.toPrimes (-a.c1) ++ B.toPrimes (-a.c2) =
      (B.toPrimes a.c0 ++ B.toPrimes a.c1 ++ B.toPrimes a.c2).map Neg.neg
    rw [hB.neg, hB.neg, hB.neg, List.map_append, List.map_append]
  pos := by
    show 0 < 3 * B.extDeg
    have := hB.pos; omega

end ofprime

section ofprime2
variable {P E : Type} [Zero P] [Neg P] [Zero E] [Neg E]

theorem toPrimes_fromUnsigned {D : FieldD P E} (hD : OfPrimeLawful D) (conv : Nat → P) (x : Nat) :
    D.toPrimes (fromUnsigned D conv x) = conv x :: List.replicate (D.extDeg - 1) 0 :=
  hD.ofPrime _

theorem toPrimes_fromSignedInt {D : FieldD P E} (hD : OfPrimeLawful D) (h0 : -(0 : P) = 0)
    (conv : Nat → P) (x : Int) :
    D.toPrimes (fromSignedInt D conv x) =
      (if x > 0 then conv x.natAbs else -conv x.natAbs) :: List.replicate (D.extDeg - 1) 0 := by
  unfold fromSignedInt
  by_cases h : x > 0
  · simp only [h, if_true]; exact hD.ofPrime _
  · simp only [h, if_false]
    rw [hD.neg, hD.ofPrime, List.map_cons, List.map_replicate, h0]

theorem length_toPrimes_fromUnsigned {D : FieldD P E} (hD : OfPrimeLawful D) (conv : Nat → P)
    (x : Nat) : (D.toPrimes (fromUnsigned D conv x)).length = D.extDeg := by
  rw [toPrimes_fromUnsigned hD, List.length_cons, List.length_replicate]
  have := hD.pos; omega

end ofprime2

/-- the printed coordinates (standard integer values) of `From<u*>` on a tower over `Fp p` -/
theorem toPrimes_fromUnsigned_fp {E : Type} [Zero E] [Neg E] {p : Nat} {D : FieldD (Fp p) E}
    (hD : OfPrimeLawful D) (x : Nat) :
    (D.toPrimes (fromUnsigned D (Fp.ofNat p) x)).map (·.val) =
      x % p :: List.replicate (D.extDeg - 1) 0 := by
  rw [toPrimes_fromUnsigned hD, List.map_cons, List.map_replicate]
  rfl

/-- the printed coordinates of `From<i*>` on a tower over `Fp p` -/
theorem toPrimes_fromSignedInt_fp {E : Type} [Zero E] [Neg E] {p : Nat} (hp : 0 < p)
    {D : FieldD (Fp p) E} (hD : OfPrimeLawful D) (x : Int) :
    (D.toPrimes (fromSignedInt D (Fp.ofNat p) x)).map (·.val) =
      (x % (p : Int)).toNat :: List.replicate (D.extDeg - 1) 0 := by
  rw [toPrimes_fromSignedInt hD (Fp.neg_zero p), List.map_cons, List.map_replicate]
  have := fromSignedInt_fp p hp x
  unfold fromSignedInt at this
  simp only at this
  congr 1

/-! ### example data: the executable tower `Fp 7 ⊂ Fp2 ⊂ Fp4` -/

def q7 : QuadCfg (Fp 7) := (Fp2Cfg.negOne (Fp.ofNat 7 6) []).wrap
def D7_2 : FieldD (Fp 7) (Quad (Fp 7)) := Quad.fieldD q7 (fpD 7)
/-- the multiplication of `Fp2`, supplied locally as the driver does -/
@[reducible] def mul7 : Mul (Quad (Fp 7)) := ⟨Quad.mul q7 (fpD 7)⟩
attribute [local instance] mul7
def D7_4 : FieldD (Fp 7) (Quad (Quad (Fp 7))) :=
  Quad.fieldD (Fp4.cfg (Fp2Cfg.negOne (Fp.ofNat 7 6) []) ⟨0, 1⟩ []) D7_2
def D7_6 : FieldD (Fp 7) (Cubic (Quad (Fp 7))) :=
  Cubic.fieldD (Fp6bCfg.default (⟨1, 1⟩ : Quad (Fp 7)) [] []).wrap D7_2

theorem D7_4_ofPrimeLawful : OfPrimeLawful D7_4 :=
  quad_fieldD_ofPrimeLawful (quad_fieldD_ofPrimeLawful (fpD_ofPrimeLawful 7))
theorem D7_6_ofPrimeLawful : OfPrimeLawful D7_6 :=
  cubic_fieldD_ofPrimeLawful (quad_fieldD_ofPrimeLawful (fpD_ofPrimeLawful 7))

/-! ## 4. `<[u8] as ToConstraintField<F>>::to_field_elements` -/

/-- `MODULUS_BIT_SIZE` -/
def modBits (p : Nat) : Nat := if p = 0 then 0 else p.log2 + 1
/-- the chunk size `(MODULUS_BIT_SIZE - 1) / 8` -/
def chunkSize (p : Nat) : Nat := (modBits p - 1) / 8

/-- little-endian value of a byte string -/
def leValue : List Nat → Nat
  | [] => 0
  | b :: bs => b + 256 * leValue bs

theorem leValue_eq_bytesLE (l : List Nat) : leValue l = Ark.bytesLE l := by
  induction l with
  | nil => rfl
  | cons b bs ih => simp [leValue, Ark.bytesLE, ih]

theorem leValue_replicate_zero (n : Nat) : leValue (List.replicate n 0) = 0 := by
  induction n with
  | zero => rfl
  | succ n ih => simp [List.replicate_succ, leValue, ih]

theorem leValue_append_zeros (l : List Nat) (n : Nat) :
    leValue (l ++ List.replicate n 0) = leValue l := by
  induction l with
  | nil => simpa [leValue] using leValue_replicate_zero n
  | cons b bs ih => simp [leValue, ih]

theorem leValue_lt (l : List Nat) (h : ∀ b ∈ l, b < 256) : leValue l < 256 ^ l.length := by
  induction l with
  | nil => simp [leValue]
  | cons b bs ih =>
    have hb : b < 256 := h b (by simp)
    have := ih (fun x hx => h x (by simp [hx]))
    simp only [leValue, List.length_cons, pow_succ]
    generalize 256 ^ bs.length = N at *
    omega

theorem foldl_zipIdx (l : List Nat) (k a : Nat) :
    (l.zipIdx k).foldl (fun acc (x : Nat × Nat) => acc + x.1 * 256 ^ x.2) a
      = a + 256 ^ k * leValue l := by
  induction l generalizing k a with
  | nil => simp [leValue]
  | cons b bs ih =>
    rw [List.zipIdx_cons, List.foldl_cons, ih, leValue, pow_succ]
    ring

/-- one chunk, as converted by the model: pad, keep `nb` bytes, little-endian value, range check -/
def chunkElem (p nb : Nat) (ch : List Nat) : Option Nat :=
  let v := ((ch ++ List.replicate (nb - ch.length) 0).take nb).zipIdx.foldl
    (fun acc (x : Nat × Nat) => acc + x.1 * 256 ^ x.2) 0
  if v ≥ p then none else some v

theorem chunkElem_eq (p nb : Nat) (ch : List Nat) (hlen : ch.length ≤ nb) :
    chunkElem p nb ch = if leValue ch ≥ p then none else some (leValue ch) := by
  unfold chunkElem
  have ht : (ch ++ List.replicate (nb - ch.length) 0).take nb = ch ++ List.replicate (nb - ch.length) 0 := by
    apply List.take_of_length_le
    simp; omega
  simp only [ht, foldl_zipIdx, leValue_append_zeros, pow_zero, one_mul, zero_add]

theorem bytesToFieldElements_unfold (p : Nat) (bs : List Nat) :
    bytesToFieldElements p bs =
      if chunkSize p = 0 then .panic
      else
        .ok (if ((chunks (chunkSize p) bs bs.length).map (chunkElem p ((modBits p + 7) / 8))).all Option.isSome
          then some (((chunks (chunkSize p) bs bs.length).map (chunkElem p ((modBits p + 7) / 8))).filterMap id)
          else none) := rfl

theorem chunkSize_eq_zero_iff (p : Nat) : chunkSize p = 0 ↔ p < 2 ^ 8 := by
  unfold chunkSize modBits
  by_cases hp : p = 0
  · simp [hp]
  · rw [if_neg hp, ← Nat.log2_lt hp]
    omega

theorem pow_chunkSize_le (p : Nat) (hp : p ≠ 0) : 256 ^ chunkSize p ≤ p := by
  unfold chunkSize modBits
  rw [if_neg hp]
  calc 256 ^ ((p.log2 + 1 - 1) / 8) = 2 ^ (8 * ((p.log2 + 1 - 1) / 8)) := by
        rw [pow_mul]; norm_num
    _ ≤ 2 ^ p.log2 := Nat.pow_le_pow_right (by omega) (by omega)
    _ ≤ p := Nat.log2_self_le hp

theorem chunkSize_le_nb (p : Nat) : chunkSize p ≤ (modBits p + 7) / 8 := by
  unfold chunkSize; omega

theorem chunks_mem {α : Type} (k : Nat) (hk : 0 < k) (fuel : Nat) (l : List α) :
    ∀ ch ∈ chunks k l fuel, ch.length ≤ k ∧ ch ≠ [] ∧ ∀ x ∈ ch, x ∈ l := by
  induction fuel generalizing l with
  | zero => simp [chunks]
  | succ f ih =>
    intro ch hch
    by_cases he : l.isEmpty
    · simp [chunks, he] at hch
    · simp only [chunks, he, Bool.false_eq_true, if_false, List.mem_cons] at hch
      rcases hch with rfl | hch
      · refine ⟨List.length_take_le _ _, ?_, fun x hx => List.mem_of_mem_take hx⟩
        intro h
        rw [List.take_eq_nil_iff] at h
        rcases h with h | h
        · omega
        · simp [h] at he
      · obtain ⟨h1, h2, h3⟩ := ih (l.drop k) ch hch
        exact ⟨h1, h2, fun x hx => List.mem_of_mem_drop (h3 x hx)⟩

theorem chunks_length_bounds {α : Type} (k : Nat) (hk : 0 < k) (fuel : Nat) (l : List α)
    (hf : l.length ≤ fuel) :
    l.length ≤ (chunks k l fuel).length * k ∧ (chunks k l fuel).length * k < l.length + k := by
  induction fuel generalizing l with
  | zero =>
    have : l = [] := List.length_eq_zero_iff.mp (by omega)
    subst this; simp [chunks]; exact hk
  | succ f ih =>
    by_cases he : l.isEmpty
    · have : l = [] := List.isEmpty_iff.mp he
      subst this; simp [chunks]; exact hk
    · have hne : l ≠ [] := fun h => he (by simp [h])
      have hpos : 0 < l.length := List.length_pos_iff.mpr hne
      simp only [chunks, he, Bool.false_eq_true, if_false, List.length_cons]
      by_cases hlk : l.length ≤ k
      · have hd : l.drop k = [] := List.drop_eq_nil_of_le hlk
        have e : chunks k ([] : List α) f = [] := by cases f <;> simp [chunks]
        rw [hd, e]
        simp only [List.length_nil, Nat.zero_add, Nat.one_mul]
        omega
      · have := ih (l.drop k) (by rw [List.length_drop]; omega)
        rw [List.length_drop] at this
        rw [Nat.add_mul, Nat.one_mul]
        omega

theorem chunks_length {α : Type} (k : Nat) (hk : 0 < k) (l : List α) :
    (chunks k l l.length).length = (l.length + k - 1) / k := by
  obtain ⟨h1, h2⟩ := chunks_length_bounds k hk l.length l (Nat.le_refl _)
  symm
  apply Nat.div_eq_of_lt_le
  · omega
  · rw [Nat.add_mul, Nat.one_mul]; omega

theorem bytesToFieldElements_panic_iff (p : Nat) (bs : List Nat) :
    bytesToFieldElements p bs = .panic ↔ p < 2 ^ 8 := by
  rw [bytesToFieldElements_unfold, ← chunkSize_eq_zero_iff]
  by_cases h : chunkSize p = 0 <;> simp [h]

theorem bytesToFieldElements_eq (p : Nat) (hp : 2 ^ 8 ≤ p) (bs : List Nat) (hbs : ∀ b ∈ bs, b < 256) :
    bytesToFieldElements p bs = .ok (some ((chunks (chunkSize p) bs bs.length).map leValue)) := by
  have hm : chunkSize p ≠ 0 := by rw [Ne, chunkSize_eq_zero_iff]; omega
  have hp0 : p ≠ 0 := by omega
  have hmap : (chunks (chunkSize p) bs bs.length).map (chunkElem p ((modBits p + 7) / 8)) =
      (chunks (chunkSize p) bs bs.length).map (fun ch => some (leValue ch)) := by
    apply List.map_congr_left
    intro ch hch
    obtain ⟨h1, _, h3⟩ := chunks_mem (chunkSize p) (Nat.pos_of_ne_zero hm) _ _ ch hch
    rw [chunkElem_eq p _ ch (le_trans h1 (chunkSize_le_nb p))]
    have hlt : leValue ch < p :=
      calc leValue ch < 256 ^ ch.length := leValue_lt ch (fun x hx => hbs x (h3 x hx))
        _ ≤ 256 ^ chunkSize p := Nat.pow_le_pow_right (by omega) h1
        _ ≤ p := pow_chunkSize_le p hp0
    rw [if_neg (by omega)]
  rw [bytesToFieldElements_unfold, if_neg hm, hmap]
  simp [List.filterMap_map]

theorem leValue_chunk_lt (p : Nat) (hp : 2 ^ 8 ≤ p) (bs : List Nat) (hbs : ∀ b ∈ bs, b < 256) :
    ∀ v ∈ (chunks (chunkSize p) bs bs.length).map leValue, v < 256 ^ chunkSize p ∧ v < p := by
  have hm : chunkSize p ≠ 0 := by rw [Ne, chunkSize_eq_zero_iff]; omega
  intro v hv
  rw [List.mem_map] at hv
  obtain ⟨ch, hch, rfl⟩ := hv
  obtain ⟨h1, _, h3⟩ := chunks_mem (chunkSize p) (Nat.pos_of_ne_zero hm) _ _ ch hch
  have : leValue ch < 256 ^ chunkSize p :=
    calc leValue ch < 256 ^ ch.length := leValue_lt ch (fun x hx => hbs x (h3 x hx))
      _ ≤ 256 ^ chunkSize p := Nat.pow_le_pow_right (by omega) h1
  exact ⟨this, lt_of_lt_of_le this (pow_chunkSize_le p (by omega))⟩

end Ark.ExtC

