import Ark.Model.Curve
import Ark.Proofs.FieldOps
import Mathlib.Algebra.Field.Basic
import Mathlib.Algebra.Group.Even
import Mathlib.Tactic.Ring
import Mathlib.Tactic.FieldSimp
import Mathlib.Tactic.LinearCombination
import Mathlib.Data.List.Forall2
/-
  Ark.Proofs.CurveB — helper lemmas for C03 (twisted-Edwards part): the extended-coordinate
  formulas of `Ark.Curve.TE` (add-2008-hwcd, madd-2008-hwcd, dbl-2008-hwcd, neg, equality,
  normalisation, batch normalisation, sums) against the affine Edwards law `TE.affAdd`,
  over an arbitrary field.

  Technique: a well-formed extended point denoting `P` is `mk P z = (x z, y z, x y z, z)`
  (`ext_repr`); every formula maps `mk`s to an `mk` of the affine result with an explicit `Z`.
-/
namespace Ark.Curve.TE

set_option linter.unusedSectionVars false

variable {F : Type} [Field F] [DecidableEq F]

/-! ## Bool ↔ Prop -/

theorem wellFormed_iff (p : Ext F) : wellFormed p = true ↔ p.z ≠ 0 ∧ p.t * p.z = p.x * p.y := by
  simp [wellFormed]

theorem toAff_eq_some_iff (p : Ext F) (P : F × F) :
    toAff p = some P ↔ p.z ≠ 0 ∧ P = (p.x * p.z⁻¹, p.y * p.z⁻¹) := by
  unfold toAff
  by_cases h : p.z = 0
  · simp [h]
  · simp [h, eq_comm]

theorem toAff_of_ne (p : Ext F) (h : p.z ≠ 0) : toAff p = some (p.x * p.z⁻¹, p.y * p.z⁻¹) :=
  (toAff_eq_some_iff p _).2 ⟨h, rfl⟩

theorem onCurve_iff (a d : F) (P : F × F) :
    onCurve a d P = true ↔ a * P.1 * P.1 + P.2 * P.2 = 1 + d * P.1 * P.1 * P.2 * P.2 := by
  simp [onCurve]

theorem affAddDefined_iff (d : F) (P Q : F × F) :
    affAddDefined d P Q = true ↔
      1 + d * P.1 * Q.1 * P.2 * Q.2 ≠ 0 ∧ 1 - d * P.1 * Q.1 * P.2 * Q.2 ≠ 0 := by
  simp [affAddDefined]

theorem affAddDefined_eq_false_iff (d : F) (P Q : F × F) :
    affAddDefined d P Q = false ↔
      (d * P.1 * Q.1 * P.2 * Q.2) * (d * P.1 * Q.1 * P.2 * Q.2) = 1 := by
  rw [← Bool.not_eq_true, affAddDefined_iff]
  constructor
  · intro h
    by_cases h1 : 1 + d * P.1 * Q.1 * P.2 * Q.2 = 0
    · linear_combination (d * P.1 * Q.1 * P.2 * Q.2 - 1) * h1
    · have h2 : 1 - d * P.1 * Q.1 * P.2 * Q.2 = 0 := by
        by_contra h2; exact h ⟨h1, h2⟩
      linear_combination (-(d * P.1 * Q.1 * P.2 * Q.2) - 1) * h2
  · rintro h ⟨h1, h2⟩
    have : (1 + d * P.1 * Q.1 * P.2 * Q.2) * (1 - d * P.1 * Q.1 * P.2 * Q.2) = 0 := by
      linear_combination -h
    rcases mul_eq_zero.1 this with h' | h'
    · exact h1 h'
    · exact h2 h'

/-! ## the canonical form of a well-formed extended point -/

/-- the extended point with affine image `P` and third projective coordinate `z` -/
def mk (P : F × F) (z : F) : Ext F := ⟨P.1 * z, P.2 * z, P.1 * P.2 * z, z⟩

theorem wellFormed_mk (P : F × F) {z : F} (hz : z ≠ 0) : wellFormed (mk P z) = true := by
  rw [wellFormed_iff]; exact ⟨hz, by simp only [mk]; ring⟩

theorem toAff_mk (P : F × F) {z : F} (hz : z ≠ 0) : toAff (mk P z) = some P := by
  rw [toAff_eq_some_iff]; refine ⟨hz, ?_⟩
  simp only [mk]
  ext <;> simp [hz]

theorem ext_repr {p : Ext F} {P : F × F} (hp : wellFormed p = true) (hP : toAff p = some P) :
    p.z ≠ 0 ∧ p = mk P p.z := by
  obtain ⟨x, y, t, z⟩ := p
  rw [wellFormed_iff] at hp
  rw [toAff_eq_some_iff] at hP
  obtain ⟨hz, ht⟩ := hp
  obtain ⟨_, rfl⟩ := hP
  simp only at hz ht
  refine ⟨hz, ?_⟩
  simp only [mk, Ext.mk.injEq]
  refine ⟨?_, ?_, ?_, trivial⟩
  · field_simp
  · field_simp
  · field_simp; linear_combination ht

/-- every property of the form "the result is well-formed and denotes `R`" -/
theorem denotes_mk (R : F × F) {z : F} (hz : z ≠ 0) :
    wellFormed (mk R z) = true ∧ toAff (mk R z) = some R :=
  ⟨wellFormed_mk R hz, toAff_mk R hz⟩

/-! ## 1. rescaling -/

theorem rescale (p : Ext F) (l : F) (hl : l ≠ 0) (hp : wellFormed p = true) :
    wellFormed (⟨p.x * l, p.y * l, p.t * l, p.z * l⟩ : Ext F) = true ∧
    toAff (⟨p.x * l, p.y * l, p.t * l, p.z * l⟩ : Ext F) = toAff p := by
  rw [wellFormed_iff] at hp ⊢
  obtain ⟨hz, ht⟩ := hp
  have hzl : p.z * l ≠ 0 := mul_ne_zero hz hl
  refine ⟨⟨hzl, by simp only; linear_combination (l * l) * ht⟩, ?_⟩
  rw [toAff_of_ne p hz, toAff_eq_some_iff]
  refine ⟨hzl, ?_⟩
  ext <;> simp only <;> field_simp

/-! ## 2. unified addition -/

theorem add_mk (c : Curve F) (hA : ∀ e, c.mulByA e = c.a * e) (P Q : F × F) (z1 z2 : F)
    (h1 : 1 + c.d * P.1 * Q.1 * P.2 * Q.2 ≠ 0) (h2 : 1 - c.d * P.1 * Q.1 * P.2 * Q.2 ≠ 0) :
    add c (mk P z1) (mk Q z2) =
      mk (affAdd c.a c.d P Q)
        (z1 * z2 * (z1 * z2) * ((1 - c.d * P.1 * Q.1 * P.2 * Q.2) * (1 + c.d * P.1 * Q.1 * P.2 * Q.2))) := by
  simp only [add, mk, affAdd, hA, Ext.mk.injEq]
  generalize hK : c.d * P.1 * Q.1 * P.2 * Q.2 = K at h1 h2 ⊢
  refine ⟨?_, ?_, ?_, ?_⟩
  · field_simp; subst hK; ring
  · field_simp; subst hK; ring
  · field_simp; subst hK; ring
  · subst hK; ring

theorem addMixed_mk (c : Curve F) (hA : ∀ e, c.mulByA e = c.a * e) (P : F × F) (q : Affine F) (z1 : F)
    (h1 : 1 + c.d * P.1 * q.x * P.2 * q.y ≠ 0) (h2 : 1 - c.d * P.1 * q.x * P.2 * q.y ≠ 0) :
    addMixed c (mk P z1) q =
      mk (affAdd c.a c.d P (ofAffine q))
        (z1 * z1 * ((1 - c.d * P.1 * q.x * P.2 * q.y) * (1 + c.d * P.1 * q.x * P.2 * q.y))) := by
  simp only [addMixed, mk, affAdd, ofAffine, hA, Ext.mk.injEq]
  generalize hK : c.d * P.1 * q.x * P.2 * q.y = K at h1 h2 ⊢
  refine ⟨?_, ?_, ?_, ?_⟩
  · field_simp; subst hK; ring
  · field_simp; subst hK; ring
  · field_simp; subst hK; ring
  · subst hK; ring

/-- the general statement used for all six addition entry points -/
theorem add_correct (c : Curve F) (hA : ∀ e, c.mulByA e = c.a * e) (p q : Ext F) (P Q : F × F)
    (hp : wellFormed p = true) (hq : wellFormed q = true)
    (hP : toAff p = some P) (hQ : toAff q = some Q) (hd : affAddDefined c.d P Q = true) :
    wellFormed (add c p q) = true ∧ toAff (add c p q) = some (affAdd c.a c.d P Q) := by
  obtain ⟨hz1, e1⟩ := ext_repr hp hP
  obtain ⟨hz2, e2⟩ := ext_repr hq hQ
  obtain ⟨h1, h2⟩ := (affAddDefined_iff _ _ _).1 hd
  rw [e1, e2, add_mk c hA P Q _ _ h1 h2]
  exact denotes_mk _ (mul_ne_zero (mul_ne_zero (mul_ne_zero hz1 hz2) (mul_ne_zero hz1 hz2))
    (mul_ne_zero h2 h1))

theorem addMixed_correct (c : Curve F) (hA : ∀ e, c.mulByA e = c.a * e) (p : Ext F) (q : Affine F)
    (P : F × F) (hp : wellFormed p = true) (hP : toAff p = some P)
    (hd : affAddDefined c.d P (ofAffine q) = true) :
    wellFormed (addMixed c p q) = true ∧
      toAff (addMixed c p q) = some (affAdd c.a c.d P (ofAffine q)) := by
  obtain ⟨hz1, e1⟩ := ext_repr hp hP
  obtain ⟨h1, h2⟩ := (affAddDefined_iff _ _ _).1 hd
  simp only [ofAffine] at h1 h2
  rw [e1, addMixed_mk c hA P q _ h1 h2]
  exact denotes_mk _ (mul_ne_zero (mul_ne_zero hz1 hz1) (mul_ne_zero h2 h1))

/-! ## negation, conversion from affine -/

theorem neg_mk (P : F × F) (z : F) : (mk P z).neg = mk (affNeg P) z := by
  simp only [Ext.neg, mk, affNeg, Ext.mk.injEq]
  refine ⟨by ring, trivial, by ring, trivial⟩

theorem neg_correct (p : Ext F) (P : F × F) (hp : wellFormed p = true) (hP : toAff p = some P) :
    wellFormed p.neg = true ∧ toAff p.neg = some (affNeg P) := by
  obtain ⟨hz, e⟩ := ext_repr hp hP
  rw [e, neg_mk]; exact denotes_mk _ hz

theorem neg_z (p : Ext F) : p.neg.z = p.z := rfl

/-- `neg` denotes `affNeg` as soon as `Z ≠ 0` (no `T` invariant needed) -/
theorem toAff_neg (p : Ext F) : toAff p.neg = (toAff p).map affNeg := by
  unfold toAff
  by_cases h : p.z = 0
  · simp [h, Ext.neg]
  · simp [h, Ext.neg, affNeg]

theorem affineNeg_correct (q : Affine F) : ofAffine q.neg = affNeg (ofAffine q) := rfl

theorem fromAffine_eq_mk (q : Affine F) : fromAffine q = mk (ofAffine q) 1 := by
  simp [fromAffine, mk, ofAffine]

theorem fromAffine_correct (q : Affine F) :
    wellFormed (fromAffine q) = true ∧ toAff (fromAffine q) = some (ofAffine q) := by
  rw [fromAffine_eq_mk]; exact denotes_mk _ one_ne_zero

theorem affAddDefined_neg (d : F) (P Q : F × F) :
    affAddDefined d P (affNeg Q) = affAddDefined d P Q := by
  rw [Bool.eq_iff_iff, affAddDefined_iff, affAddDefined_iff]
  simp only [affNeg]
  have e : d * P.1 * -Q.1 * P.2 * Q.2 = -(d * P.1 * Q.1 * P.2 * Q.2) := by ring
  rw [e, ← sub_eq_add_neg, sub_neg_eq_add]
  exact and_comm

theorem sub_correct (c : Curve F) (hA : ∀ e, c.mulByA e = c.a * e) (p q : Ext F) (P Q : F × F)
    (hp : wellFormed p = true) (hq : wellFormed q = true)
    (hP : toAff p = some P) (hQ : toAff q = some Q) (hd : affAddDefined c.d P Q = true) :
    wellFormed (sub c p q) = true ∧ toAff (sub c p q) = some (affAdd c.a c.d P (affNeg Q)) := by
  obtain ⟨hq', hQ'⟩ := neg_correct q Q hq hQ
  exact add_correct c hA p q.neg P (affNeg Q) hp hq' hP hQ' (by rw [affAddDefined_neg]; exact hd)

theorem subMixed_correct (c : Curve F) (hA : ∀ e, c.mulByA e = c.a * e) (p : Ext F) (q : Affine F)
    (P : F × F) (hp : wellFormed p = true) (hP : toAff p = some P)
    (hd : affAddDefined c.d P (ofAffine q) = true) :
    wellFormed (subMixed c p q) = true ∧
      toAff (subMixed c p q) = some (affAdd c.a c.d P (affNeg (ofAffine q))) := by
  have := addMixed_correct c hA p q.neg P hp hP
    (by rw [affineNeg_correct, affAddDefined_neg]; exact hd)
  rwa [affineNeg_correct] at this

theorem affineAdd_correct (c : Curve F) (hA : ∀ e, c.mulByA e = c.a * e) (p q : Affine F)
    (hd : affAddDefined c.d (ofAffine p) (ofAffine q) = true) :
    wellFormed (affineAdd c p q) = true ∧
      toAff (affineAdd c p q) = some (affAdd c.a c.d (ofAffine p) (ofAffine q)) :=
  addMixed_correct c hA _ q _ (fromAffine_correct p).1 (fromAffine_correct p).2 hd

theorem affineSub_correct (c : Curve F) (hA : ∀ e, c.mulByA e = c.a * e) (p q : Affine F)
    (hd : affAddDefined c.d (ofAffine p) (ofAffine q) = true) :
    wellFormed (affineSub c p q) = true ∧
      toAff (affineSub c p q) = some (affAdd c.a c.d (ofAffine p) (affNeg (ofAffine q))) :=
  subMixed_correct c hA _ q _ (fromAffine_correct p).1 (fromAffine_correct p).2 hd

/-! ## 3. doubling (dbl-2008-hwcd; uses the curve equation) -/

theorem double_mk (c : Curve F) (hA : ∀ e, c.mulByA e = c.a * e) (P : F × F) (z : F)
    (hc : c.a * P.1 * P.1 + P.2 * P.2 = 1 + c.d * P.1 * P.1 * P.2 * P.2)
    (h1 : 1 + c.d * P.1 * P.1 * P.2 * P.2 ≠ 0) (h2 : 1 - c.d * P.1 * P.1 * P.2 * P.2 ≠ 0) :
    double c (mk P z) =
      mk (affAdd c.a c.d P P)
        (z * z * (z * z) * (-((1 - c.d * P.1 * P.1 * P.2 * P.2) * (1 + c.d * P.1 * P.1 * P.2 * P.2)))) := by
  simp only [double, mk, affAdd, hA, sq, dbl, Ext.mk.injEq]
  generalize hK : c.d * P.1 * P.1 * P.2 * P.2 = K at hc h1 h2 ⊢
  have ha : c.a * (P.1 * z * (P.1 * z)) = (1 + K - P.2 * P.2) * (z * z) := by
    linear_combination (z * z) * hc
  rw [ha]
  refine ⟨?_, ?_, ?_, ?_⟩
  · field_simp; ring
  · field_simp; linear_combination (-(z ^ 4 * (1 + K))) * hc
  · field_simp; linear_combination (-(2 * z ^ 4 * P.1 * P.2)) * hc
  · ring

theorem double_correct (c : Curve F) (hA : ∀ e, c.mulByA e = c.a * e) (p : Ext F) (P : F × F)
    (hp : wellFormed p = true) (hP : toAff p = some P) (hc : onCurve c.a c.d P = true)
    (hd : affAddDefined c.d P P = true) :
    wellFormed (double c p) = true ∧ toAff (double c p) = some (affAdd c.a c.d P P) := by
  obtain ⟨hz, e⟩ := ext_repr hp hP
  obtain ⟨h1, h2⟩ := (affAddDefined_iff _ _ _).1 hd
  rw [onCurve_iff] at hc
  rw [e, double_mk c hA P _ hc h1 h2]
  exact denotes_mk _ (mul_ne_zero (mul_ne_zero (mul_ne_zero hz hz) (mul_ne_zero hz hz))
    (neg_ne_zero.2 (mul_ne_zero h2 h1)))

/-! ## 4. closure: the sum of two curve points is on the curve -/

/-- the polynomial identity behind closure (cofactors found by a Gröbner-basis computation) -/
theorem closure_poly (a d x1 y1 x2 y2 : F)
    (e1 : a * x1 * x1 + y1 * y1 = 1 + d * x1 * x1 * y1 * y1)
    (e2 : a * x2 * x2 + y2 * y2 = 1 + d * x2 * x2 * y2 * y2) :
    a * (x1 * y2 + y1 * x2) ^ 2 * (1 - d * x1 * x2 * y1 * y2) ^ 2
      + (y1 * y2 - a * x1 * x2) ^ 2 * (1 + d * x1 * x2 * y1 * y2) ^ 2
      - (1 - d * x1 * x2 * y1 * y2) ^ 2 * (1 + d * x1 * x2 * y1 * y2) ^ 2
      - d * (x1 * y2 + y1 * x2) ^ 2 * (y1 * y2 - a * x1 * x2) ^ 2 = 0 := by
  linear_combination
    (d^3*x1^2*y1^2*x2^4*y2^4 + a*d^2*x1^2*x2^4*y2^4 + d^2*y1^2*x2^4*y2^4 - a^2*d*x1^2*x2^4*y2^2
      - a*d*y1^2*x2^4*y2^2 - a*d*x1^2*x2^2*y2^4 + 2*a*d*x2^4*y2^4 - d^2*x2^4*y2^4 - d*y1^2*x2^2*y2^4
      - 2*a^2*x2^4*y2^2 - 2*a*x2^2*y2^4 + a^2*x2^4 + 4*a*x2^2*y2^2 - 2*d*x2^2*y2^2 + y2^4) * e1
    + (a^2*d*x1^4*x2^2*y2^2 + d*y1^4*x2^2*y2^2 + 2*a^2*x1^2*x2^2*y2^2 - 2*a*d*x1^2*x2^2*y2^2
      + 2*a*y1^2*x2^2*y2^2 - 2*d*y1^2*x2^2*y2^2 - a^2*x1^2*x2^2 - a*y1^2*x2^2 - a*x1^2*y2^2
      - 2*a*x2^2*y2^2 + d*x2^2*y2^2 - y1^2*y2^2 + a*x2^2 + y2^2 + 1) * e2

theorem affAdd_onCurve (a d : F) (P Q : F × F) (hP : onCurve a d P = true) (hQ : onCurve a d Q = true)
    (hd : affAddDefined d P Q = true) : onCurve a d (affAdd a d P Q) = true := by
  obtain ⟨x1, y1⟩ := P
  obtain ⟨x2, y2⟩ := Q
  rw [onCurve_iff] at hP hQ ⊢
  obtain ⟨h1, h2⟩ := (affAddDefined_iff _ _ _).1 hd
  simp only at hP hQ h1 h2
  have key := closure_poly a d x1 y1 x2 y2 hP hQ
  simp only [affAdd]
  generalize hK : d * x1 * x2 * y1 * y2 = K at h1 h2 key ⊢
  field_simp
  linear_combination key

/-! ## 5./6. where the law is undefined: the exceptional pairs; completeness -/

theorem isSquare_of_mul_sq_eq_one {e u : F} (h : e * (u * u) = 1) : IsSquare e := by
  have hu : u ≠ 0 := by
    rintro rfl; simp at h
  refine ⟨u⁻¹, ?_⟩
  field_simp
  linear_combination h

/-- the explicit relation: if both points are on the curve and one of the two denominators
    vanishes then `Q` is one of the (at most eight) exceptional partners of `P` -/
theorem exceptional_of_not_defined (a d : F) (P Q : F × F) (hP : onCurve a d P = true)
    (hQ : onCurve a d Q = true) (hd : affAddDefined d P Q = false) :
    (d * Q.1 * Q.1 * P.2 * P.2 = 1 ∧ d * P.1 * P.1 * Q.2 * Q.2 = 1) ∨
    (a * d * P.1 * P.1 * Q.1 * Q.1 = 1 ∧ d * P.2 * P.2 * Q.2 * Q.2 = a) := by
  obtain ⟨x1, y1⟩ := P
  obtain ⟨x2, y2⟩ := Q
  rw [onCurve_iff] at hP hQ
  rw [affAddDefined_eq_false_iff] at hd
  simp only at hP hQ hd ⊢
  have key : (d * x2 * x2 * y1 * y1 - 1) * (a * d * x1 * x1 * x2 * x2 - 1) = 0 := by
    linear_combination (d * x2 ^ 2 * (d * x1 ^ 2 * y1 ^ 2)) * hQ - (d * x2 ^ 2) * hP
      + (d * x2 ^ 2 - 1) * hd
  rcases mul_eq_zero.1 key with h | h
  · left
    have hA : d * x2 * x2 * y1 * y1 = 1 := by linear_combination h
    refine ⟨hA, ?_⟩
    -- (d x2² y1²)(d x1² y2²) = K² = 1
    have : (d * x2 * x2 * y1 * y1) * (d * x1 * x1 * y2 * y2) = 1 := by linear_combination hd
    rw [hA, one_mul] at this; exact this
  · right
    have hB : a * d * x1 * x1 * x2 * x2 = 1 := by linear_combination h
    refine ⟨hB, ?_⟩
    have : (a * d * x1 * x1 * x2 * x2) * (d * y1 * y1 * y2 * y2) = a := by
      linear_combination a * hd
    rw [hB, one_mul] at this; exact this

/-- converse (no curve equation needed; `a ≠ 0` for the second family) -/
theorem not_defined_of_exceptional (a d : F) (ha : a ≠ 0) (P Q : F × F)
    (h : (d * Q.1 * Q.1 * P.2 * P.2 = 1 ∧ d * P.1 * P.1 * Q.2 * Q.2 = 1) ∨
      (a * d * P.1 * P.1 * Q.1 * Q.1 = 1 ∧ d * P.2 * P.2 * Q.2 * Q.2 = a)) :
    affAddDefined d P Q = false := by
  rw [affAddDefined_eq_false_iff]
  rcases h with ⟨h1, h2⟩ | ⟨h1, h2⟩
  · linear_combination (d * P.1 * P.1 * Q.2 * Q.2) * h1 + h2
  · apply mul_left_cancel₀ ha
    linear_combination (d * P.2 * P.2 * Q.2 * Q.2) * h1 + h2

theorem isSquare_of_not_defined (a d : F) (P Q : F × F) (hP : onCurve a d P = true)
    (hQ : onCurve a d Q = true) (hd : affAddDefined d P Q = false) :
    IsSquare d ∨ IsSquare (a * d) := by
  rcases exceptional_of_not_defined a d P Q hP hQ hd with ⟨h, _⟩ | ⟨h, _⟩
  · left
    exact isSquare_of_mul_sq_eq_one (u := Q.1 * P.2) (by linear_combination h)
  · right
    exact isSquare_of_mul_sq_eq_one (u := P.1 * Q.1) (by linear_combination h)

/-- general completeness: neither `d` nor `a d` is a square -/
theorem complete_general (a d : F) (hd : ¬ IsSquare d) (had : ¬ IsSquare (a * d)) (P Q : F × F)
    (hP : onCurve a d P = true) (hQ : onCurve a d Q = true) : affAddDefined d P Q = true := by
  by_contra h
  rw [Bool.not_eq_true] at h
  rcases isSquare_of_not_defined a d P Q hP hQ h with h | h
  · exact hd h
  · exact had h

/-- Bernstein–Lange completeness: `a` a non-zero square, `d` a non-square -/
theorem complete (a d α : F) (ha : a = α * α) (hα : α ≠ 0) (hd : ¬ IsSquare d) (P Q : F × F)
    (hP : onCurve a d P = true) (hQ : onCurve a d Q = true) : affAddDefined d P Q = true := by
  apply complete_general a d hd _ P Q hP hQ
  rintro ⟨r, hr⟩
  apply hd
  refine ⟨r * α⁻¹, ?_⟩
  subst ha
  field_simp
  linear_combination hr

/-! ## 7. `is_zero` and equality -/

theorem zero_eq_mk : (Ext.zero : Ext F) = mk (0, 1) 1 := by simp [Ext.zero, mk]

theorem zero_correct : wellFormed (Ext.zero : Ext F) = true ∧ toAff (Ext.zero : Ext F) = some (0, 1) := by
  rw [zero_eq_mk]; exact denotes_mk _ one_ne_zero

theorem isZero_iff (p : Ext F) :
    p.isZero = true ↔ p.x = 0 ∧ p.y = p.z ∧ p.y ≠ 0 ∧ p.t = 0 := by
  simp [Ext.isZero, and_assoc]

theorem isZero_mk (P : F × F) {z : F} (hz : z ≠ 0) : (mk P z).isZero = true ↔ P = (0, 1) := by
  obtain ⟨x, y⟩ := P
  rw [isZero_iff]
  simp only [mk, Prod.mk.injEq]
  constructor
  · rintro ⟨hx, hy, _, _⟩
    exact ⟨(mul_eq_zero.1 hx).resolve_right hz, mul_right_cancel₀ hz (by rw [hy, one_mul])⟩
  · rintro ⟨rfl, rfl⟩
    simp [hz]

theorem isZero_correct (p : Ext F) (hp : wellFormed p = true) :
    p.isZero = true ↔ toAff p = some (0, 1) := by
  have hz : p.z ≠ 0 := ((wellFormed_iff p).1 hp).1
  obtain ⟨_, e⟩ := ext_repr hp (toAff_of_ne p hz)
  rw [e, isZero_mk _ hz, toAff_mk _ hz, Option.some.injEq]

theorem eq_mk (P Q : F × F) {z1 z2 : F} (hz1 : z1 ≠ 0) (hz2 : z2 ≠ 0) :
    (mk P z1).eq (mk Q z2) = true ↔ P = Q := by
  unfold Ext.eq
  by_cases hp : (mk P z1).isZero = true
  · rw [if_pos hp, isZero_mk Q hz2]
    rw [isZero_mk P hz1] at hp
    subst hp; exact eq_comm
  · rw [if_neg hp]
    by_cases hq : (mk Q z2).isZero = true
    · rw [if_pos hq]
      rw [isZero_mk _ hz1] at hp
      rw [isZero_mk _ hz2] at hq
      subst hq
      simpa using hp
    · rw [if_neg hq]
      rw [Bool.and_eq_true, decide_eq_true_iff, decide_eq_true_iff]
      obtain ⟨x1, y1⟩ := P
      obtain ⟨x2, y2⟩ := Q
      simp only [mk, Prod.mk.injEq]
      have hzz : z1 * z2 ≠ 0 := mul_ne_zero hz1 hz2
      constructor
      · rintro ⟨h1, h2⟩
        exact ⟨mul_right_cancel₀ hzz (by linear_combination h1),
          mul_right_cancel₀ hzz (by linear_combination h2)⟩
      · rintro ⟨rfl, rfl⟩
        exact ⟨by ring, by ring⟩

theorem eq_correct (p q : Ext F) (hp : wellFormed p = true) (hq : wellFormed q = true) :
    p.eq q = true ↔ toAff p = toAff q := by
  have hz1 : p.z ≠ 0 := ((wellFormed_iff p).1 hp).1
  have hz2 : q.z ≠ 0 := ((wellFormed_iff q).1 hq).1
  obtain ⟨_, e1⟩ := ext_repr hp (toAff_of_ne p hz1)
  obtain ⟨_, e2⟩ := ext_repr hq (toAff_of_ne q hz2)
  rw [e1, e2, eq_mk _ _ hz1 hz2, toAff_mk _ hz1, toAff_mk _ hz2, Option.some.injEq]

theorem affineEqProj_correct (a : Affine F) (q : Ext F) (hq : wellFormed q = true) :
    affineEqProj a q = true ↔ some (ofAffine a) = toAff q := by
  unfold affineEqProj
  rw [eq_correct _ _ (fromAffine_correct a).1 hq, (fromAffine_correct a).2]

/-! ## 8. normalisation -/

theorem toAffine_eq (p : Ext F) (hz : p.z ≠ 0) : toAffine p = .ok (normalizeWith p p.z⁻¹) := by
  unfold toAffine normalizeWith
  by_cases h0 : p.isZero = true
  · simp [h0]
  · by_cases h1 : p.z = 1
    · simp [h0, h1]
    · simp [h0, h1, inverse?, hz]

theorem toAffine_panic_iff (p : Ext F) : toAffine p = .panic ↔ p.z = 0 := by
  constructor
  · intro h
    by_contra hz
    rw [toAffine_eq p hz] at h
    cases h
  · intro hz
    have h0 : p.isZero = false := by
      rw [← Bool.not_eq_true]
      intro h
      rw [isZero_iff] at h
      exact h.2.2.1 (h.2.1.trans hz)
    simp [toAffine, h0, inverse?, hz]

theorem ofAffine_normalizeWith (p : Ext F) (hz : p.z ≠ 0) :
    some (ofAffine (normalizeWith p p.z⁻¹)) = toAff p := by
  rw [toAff_of_ne p hz]
  unfold normalizeWith
  by_cases h0 : p.isZero = true
  · rw [if_pos h0]
    rw [isZero_iff] at h0
    obtain ⟨hx, hy, _, _⟩ := h0
    simp [ofAffine, Affine.zero, hx, hy, hz]
  · rw [if_neg h0]; rfl

theorem toAffine_correct (p : Ext F) (hz : p.z ≠ 0) :
    ∃ a, toAffine p = .ok a ∧ some (ofAffine a) = toAff p :=
  ⟨_, toAffine_eq p hz, ofAffine_normalizeWith p hz⟩

/-- the identity interpretation of the field operations record used by `batchInversion` -/
def idInterp : (fieldOps (F := F)).Interp F where
  V := fun _ => True
  φ := id
  one_V := trivial
  one_φ := rfl
  mul_V := fun _ _ => trivial
  mul_φ := fun _ _ => rfl
  square_V := fun _ => trivial
  square_φ := fun _ => rfl
  isZero_iff := fun {a} _ => by simp [fieldOps]
  inv_some := fun {a} _ h => ⟨a⁻¹, by simp only [id] at h; simp [fieldOps, inverse?, h], trivial, rfl⟩

/-- over a field `ark_ff::batch_inversion` inverts every entry (zeros stay zero) and cannot panic -/
theorem batchInversion_eq (v : List F) : batchInversion v = some (v.map (·⁻¹)) := by
  obtain ⟨w, hw, hl, _, hi⟩ :=
    Ops.batchInvMul_correct (idInterp (F := F)) v 1 (fun _ _ => trivial) trivial
  unfold batchInversion
  rw [hw]
  congr 1
  apply List.ext_getElem (by simp [hl])
  intro i h1 h2
  have h3 : i < v.length := by rw [← hl]; exact h1
  rw [List.getElem_map]
  obtain ⟨ha, hb⟩ := hi i h3 h1
  by_cases h0 : v[i] = 0
  · rw [ha h0, h0, inv_zero]
  · have := hb h0
    simpa [idInterp] using this

theorem zipNormalize_map (v : List (Ext F)) (f : Ext F → F) :
    zipNormalize v (v.map f) = v.map (fun g => normalizeWith g (f g)) := by
  induction v with
  | nil => rfl
  | cons g gs ih => simp only [List.map_cons, zipNormalize, ih]

theorem normalizeBatch_eq (v : List (Ext F)) :
    normalizeBatch v = .ok (v.map (fun g => normalizeWith g g.z⁻¹)) := by
  unfold normalizeBatch
  rw [batchInversion_eq, List.map_map]
  exact congrArg Outcome.ok (zipNormalize_map v _)

/-! ## 8. sums -/

/-- every partial sum of the left fold `A + Q₁ + Q₂ + …` is defined -/
def sumDefined (a d : F) : F × F → List (F × F) → Prop
  | _, [] => True
  | A, Q :: Qs => affAddDefined d A Q = true ∧ sumDefined a d (affAdd a d A Q) Qs

theorem foldl_addMixed (c : Curve F) (hA : ∀ e, c.mulByA e = c.a * e) :
    ∀ (l : List (Affine F)) (acc : Ext F) (A : F × F), wellFormed acc = true → toAff acc = some A →
      sumDefined c.a c.d A (l.map ofAffine) →
      wellFormed (l.foldl (addMixed c) acc) = true ∧
      toAff (l.foldl (addMixed c) acc) = some ((l.map ofAffine).foldl (affAdd c.a c.d) A) := by
  intro l
  induction l with
  | nil => intro acc A h1 h2 _; exact ⟨h1, h2⟩
  | cons q qs ih =>
    intro acc A h1 h2 hs
    simp only [List.map_cons, sumDefined] at hs
    obtain ⟨h3, h4⟩ := addMixed_correct c hA acc q A h1 h2 hs.1
    simp only [List.foldl_cons, List.map_cons]
    exact ih _ _ h3 h4 hs.2

theorem foldl_add (c : Curve F) (hA : ∀ e, c.mulByA e = c.a * e) :
    ∀ (l : List (Ext F)) (la : List (F × F)) (acc : Ext F) (A : F × F),
      List.Forall₂ (fun p P => wellFormed p = true ∧ toAff p = some P) l la →
      wellFormed acc = true → toAff acc = some A → sumDefined c.a c.d A la →
      wellFormed (l.foldl (add c) acc) = true ∧
      toAff (l.foldl (add c) acc) = some (la.foldl (affAdd c.a c.d) A) := by
  intro l la acc A hf
  induction hf generalizing acc A with
  | nil => intro h1 h2 _; exact ⟨h1, h2⟩
  | cons hpq _ ih =>
    intro h1 h2 hs
    simp only [sumDefined] at hs
    obtain ⟨h3, h4⟩ := add_correct c hA acc _ A _ h1 hpq.1 h2 hpq.2 hs.1
    simp only [List.foldl_cons]
    exact ih _ _ h3 h4 hs.2

theorem zero_onCurve (a d : F) : onCurve a d ((0 : F), (1 : F)) = true := by
  rw [onCurve_iff]; simp

/-- on a curve where the law is defined everywhere, every fold of curve points is defined -/
theorem sumDefined_of_complete (a d : F)
    (hc : ∀ P Q, onCurve a d P = true → onCurve a d Q = true → affAddDefined d P Q = true) :
    ∀ (l : List (F × F)) (A : F × F), onCurve a d A = true → (∀ Q ∈ l, onCurve a d Q = true) →
      sumDefined a d A l := by
  intro l
  induction l with
  | nil => intro _ _ _; trivial
  | cons Q Qs ih =>
    intro A hA hl
    have hQ := hl Q (by simp)
    have hd := hc A Q hA hQ
    exact ⟨hd, ih _ (affAdd_onCurve a d A Q hA hQ hd) (fun R hR => hl R (by simp [hR]))⟩

/-! ## 9. `is_on_curve` -/

theorem isOnCurve_eq (c : Curve F) (hA : ∀ e, c.mulByA e = c.a * e) (q : Affine F) :
    q.isOnCurve c = onCurve c.a c.d (ofAffine q) := by
  rw [Bool.eq_iff_iff, onCurve_iff]
  unfold Affine.isOnCurve
  simp only [decide_eq_true_eq]
  simp only [sq, hA, ofAffine]
  constructor <;> intro h <;> linear_combination h

/-! ## sanity of the specification: neutral element and inverses of the Edwards law -/

theorem affAddDefined_zero_right (d : F) (P : F × F) : affAddDefined d P ((0 : F), (1 : F)) = true := by
  rw [affAddDefined_iff]; simp

theorem affAdd_zero_right (a d : F) (P : F × F) : affAdd a d P ((0 : F), (1 : F)) = P := by
  obtain ⟨x, y⟩ := P
  simp [affAdd]

theorem affAdd_zero_left (a d : F) (P : F × F) : affAdd a d ((0 : F), (1 : F)) P = P := by
  obtain ⟨x, y⟩ := P
  simp [affAdd]

theorem affAdd_affNeg (a d : F) (P : F × F) (hP : onCurve a d P = true)
    (hd : affAddDefined d P (affNeg P) = true) : affAdd a d P (affNeg P) = ((0 : F), (1 : F)) := by
  obtain ⟨x, y⟩ := P
  rw [onCurve_iff] at hP
  obtain ⟨h1, h2⟩ := (affAddDefined_iff _ _ _).1 hd
  simp only [affNeg] at h1 h2 hP
  simp only [affAdd, affNeg, Prod.mk.injEq]
  constructor
  · have : x * y + y * -x = 0 := by ring
    rw [this, zero_mul]
  · have : y * y - a * x * -x = 1 - d * x * -x * y * y := by linear_combination hP
    rw [this, mul_inv_cancel₀ h2]

theorem affNeg_onCurve (a d : F) (P : F × F) : onCurve a d (affNeg P) = onCurve a d P := by
  rw [Bool.eq_iff_iff, onCurve_iff, onCurve_iff]
  simp only [affNeg]
  constructor <;> intro h <;> linear_combination h

end Ark.Curve.TE
