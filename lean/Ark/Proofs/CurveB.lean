import Ark.Model.Curve
import Ark.Proofs.FieldOps
import Mathlib.Algebra.Field.Basic
import Mathlib.Algebra.Group.Even
import Mathlib.Tactic.Ring
import Mathlib.Tactic.FieldSimp
import Mathlib.Tactic.LinearCombination
import Mathlib.Data.List.Forall2
/-
  Ark.Proofs.CurveB — helper lemmas for C03 (twisted-Edwards part): the extended-coordinate
  formulas of `Ark.Curve.TE` (add-2008-hwcd, madd-2008-hwcd, dbl-2008-hwcd, neg, equality,
  normalisation, batch normalisation, sums) against the affine Edwards law `TE.affAdd`,
  over an arbitrary field.

  Technique: a well-formed extended point denoting `P` is `mk P z = (x z, y z, x y z, z)`
  (`ext_repr`); every formula maps `mk`s to an `mk` of the affine result with an explicit `Z`.
-/
namespace Ark.Curve.TE

set_option linter.unusedSectionVars false

variable {F : Type} [Field F] [DecidableEq F]

/-! ## Bool ↔ Prop -/

theorem wellFormed_iff (p : Ext F) : wellFormed p = true ↔ p.z ≠ 0 ∧ p.t * p.z = p.x * p.y := by
  simp [wellFormed]

theorem toAff_eq_some_iff (p : Ext F) (P : F × F) :
    toAff p = some P ↔ p.z ≠ 0 ∧ P = (p.x * p.z⁻¹, p.y * p.z⁻¹) := by
  unfold toAff
  by_cases h : p.z = 0
  · simp [h]
  · simp [h, eq_comm]

theorem toAff_of_ne (p : Ext F) (h : p.z ≠ 0) : toAff p = some (p.x * p.z⁻¹, p.y * p.z⁻¹) :=
  (toAff_eq_some_iff p _).2 ⟨h, rfl⟩

theorem onCurve_iff (a d : F) (P : F × F) :
    onCurve a d P = true ↔ a * P.1 * P.1 + P.2 * P.2 = 1 + d * P.1 * P.1 * P.2 * P.2 := by
  simp [onCurve]

theorem affAddDefined_iff (d : F) (P Q : F × F) :
    affAddDefined d P Q = true ↔
      1 + d * P.1 * Q.1 * P.2 * Q.2 ≠ 0 ∧ 1 - d * P.1 * Q.1 * P.2 * Q.2 ≠ 0 := by
  simp [affAddDefined]

theorem affAddDefined_eq_false_iff (d : F) (P Q : F × F) :
    affAddDefined d P Q = false ↔
      (d * P.1 * Q.1 * P.2 * Q.2) * (d * P.1 * Q.1 * P.2 * Q.2) = 1 := by
  rw [← Bool.not_eq_true, affAddDefined_iff]
  constructor
  · intro h
    by_cases h1 : 1 + d * P.1 * Q.1 * P.2 * Q.2 = 0
    · linear_combination (d * P.1 * Q.1 * P.2 * Q.2 - 1) * h1
    · have h2 : 1 - d * P.1 * Q.1 * P.2 * Q.2 = 0 := by
        by_contra h2; exact h ⟨h1, h2⟩
      linear_combination (-(d * P.1 * Q.1 * P.2 * Q.2) - 1) * h2
  · rintro h ⟨h1, h2⟩
    have : (1 + d * P.1 * Q.1 * P.2 * Q.2) * (1 - d * P.1 * Q.1 * P.2 * Q.2) = 0 := by
      linear_combination -h
    rcases mul_eq_zero.1 this with h' | h'
    · exact h1 h'
    · exact h2 h'

/-! ## the canonical form of a well-formed extended point -/

/-- the extended point with affine image `P` and third projective coordinate `z` -/
def mk (P : F × F) (z : F) : Ext F := ⟨P.1 * z, P.2 * z, P.1 * P.2 * z, z⟩

theorem wellFormed_mk (P : F × F) {z : F} (hz : z ≠ 0) : wellFormed (mk P z) = true := by
  rw [wellFormed_iff]; exact ⟨hz, by simp only [mk]; ring⟩

theorem toAff_mk (P : F × F) {z : F} (hz : z ≠ 0) : toAff (mk P z) = some P := by
  rw [toAff_eq_some_iff]; refine ⟨hz, ?_⟩
  simp only [mk]
  ext <;> simp [hz]

theorem ext_repr {p : Ext F} {P : F × F} (hp : wellFormed p = true) (hP : toAff p = some P) :
    p.z ≠ 0 ∧ p = mk P p.z := by
  obtain ⟨x, y, t, z⟩ := p
  rw [wellFormed_iff] at hp
  rw [toAff_eq_some_iff] at hP
  obtain ⟨hz, ht⟩ := hp
  obtain ⟨_, rfl⟩ := hP
  simp only at hz ht
  refine ⟨hz, ?_⟩
  simp only [mk, Ext.mk.injEq]
  refine ⟨?_, ?_, ?_, trivial⟩
  · field_simp
  · field_simp
  · field_simp; linear_combination ht

/-- every property of the form "the result is well-formed and denotes `R`" -/
theorem denotes_mk (R : F × F) {z : F} (hz : z ≠ 0) :
    wellFormed (mk R z) = true ∧ toAff (mk R z) = some R :=
  ⟨wellFormed_mk R hz, toAff_mk R hz⟩

/-! ## 1. rescaling -/

theorem rescale (p : Ext F) (l : F) (hl : l ≠ 0) (hp : wellFormed p = true) :
    wellFormed (⟨p.x * l, p.y * l, p.t * l, p.z * l⟩ : Ext F) = true ∧
    toAff (⟨p.x * l, p.y * l, p.t * l, p.z * l⟩ : Ext F) = toAff p := by
  rw [wellFormed_iff] at hp ⊢
  obtain ⟨hz, ht⟩ := hp
  have hzl : p.z * l ≠ 0 := mul_ne_zero hz hl
  refine ⟨⟨hzl, by simp only; linear_combination (l * l) * ht⟩, ?_⟩
  rw [toAff_of_ne p hz, toAff_eq_some_iff]
  refine ⟨hzl, ?_⟩
  ext <;> simp only <;> field_simp

/-! ## 2. unified addition -/

theorem add_mk (c : Curve F) (hA : ∀ e, c.mulByA e = c.a * e) (P Q : F × F) (z1 z2 : F)
    (h1 : 1 + c.d * P.1 * Q.1 * P.2 * Q.2 ≠ 0) (h2 : 1 - c.d * P.1 * Q.1 * P.2 * Q.2 ≠ 0) :
    add c (mk P z1) (mk Q z2) =
      mk (affAdd c.a c.d P Q)
        (z1 * z2 * (z1 * z2) * ((1 - c.d * P.1 * Q.1 * P.2 * Q.2) * (1 + c.d * P.1 * Q.1 * P.2 * Q.2))) := by
  simp only [add, mk, affAdd, hA, Ext.mk.injEq]
  generalize hK : c.d * P.1 * Q.1 * P.2 * Q.2 = K at h1 h2 ⊢
  refine ⟨?_, ?_, ?_, ?_⟩
  · field_simp; subst hK; ring
  · field_simp; subst hK; ring
  · field_simp; subst hK; ring
  · subst hK; ring

theorem addMixed_mk (c : Curve F) (hA : ∀ e, c.mulByA e = c.a * e) (P : F × F) (q : Affine F) (z1 : F)
    (h1 : 1 + c.d * P.1 * q.x * P.2 * q.y ≠ 0) (h2 : 1 - c.d * P.1 * q.x * P.2 * q.y ≠ 0) :
    addMixed c (mk P z1) q =
      mk (affAdd c.a c.d P (ofAffine q))
        (z1 * z1 * ((1 - c.d * P.1 * q.x * P.2 * q.y) * (1 + c.d * P.1 * q.x * P.2 * q.y))) := by
  simp only [addMixed, mk, affAdd, ofAffine, hA, Ext.mk.injEq]
  generalize hK : c.d * P.1 * q.x * P.2 * q.y = K at h1 h2 ⊢
  refine ⟨?_, ?_, ?_, ?_⟩
  · field_simp; subst hK; ring
  · field_simp; subst hK; ring
  · field_simp; subst hK; ring
  · subst hK; ring

/-- the general statement used for all six addition entry points -/
theorem add_correct (c : Curve F) (hA : ∀ e, c.mulByA e = c.a * e) (p q : Ext F) (P Q : F × F)
    (hp : wellFormed p = true) (hq : wellFormed q = true)
    (hP : toAff p = some P) (hQ : toAff q = some Q) (hd : affAddDefined c.d P Q = true) :
    wellFormed (add c p q) = true ∧ toAff (add c p q) = some (affAdd c.a c.d P Q) := by
  obtain ⟨hz1, e1⟩ := ext_repr hp hP
  obtain ⟨hz2, e2⟩ := ext_repr hq hQ
  obtain ⟨h1, h2⟩ := (affAddDefined_iff _ _ _).1 hd
  rw [e1, e2, add_mk c hA P Q _ _ h1 h2]
  exact denotes_mk _ (mul_ne_zero (mul_ne_zero (mul_ne_zero hz1 hz2) (mul_ne_zero hz1 hz2))
    (mul_ne_zero h2 h1))

theorem addMixed_correct (c : Curve F) (hA : ∀ e, c.mulByA e = c.a * e) (p : Ext F) (q : Affine F)
    (P : F × F) (hp : wellFormed p = true) (hP : toAff p = some P)
    (hd : affAddDefined c.d P (ofAffine q) = true) :
    wellFormed (addMixed c p q) = true ∧
      toAff (addMixed c p q) = some (affAdd c.a c.d P (ofAffine q)) := by
  obtain ⟨hz1, e1⟩ := ext_repr hp hP
  obtain ⟨h1, h2⟩ := (affAddDefined_iff _ _ _).1 hd
  simp only [ofAffine] at h1 h2
  rw [e1, addMixed_mk c hA P q _ h1 h2]
  exact denotes_mk _ (mul_ne_zero (mul_ne_zero hz1 hz1) (mul_ne_zero h2 h1))

/-! ## negation, conversion from affine -/

theorem neg_mk (P : F × F) (z : F) : (mk P z).neg = mk (affNeg P) z := by
  simp only [Ext.neg, mk, affNeg, Ext.mk.injEq]
  refine ⟨by ring, trivial, by ring, trivial⟩

theorem neg_correct (p : Ext F) (P : F × F) (hp : wellFormed p = true) (hP : toAff p = some P) :
    wellFormed p.neg = true ∧ toAff p.neg = some (affNeg P) := by
  obtain ⟨hz, e⟩ := ext_repr hp hP
  rw [e, neg_mk]; exact denotes_mk _ hz

theorem neg_z (p : Ext F) : p.neg.z = p.z := rfl

/-- `neg` denotes `affNeg` as soon as `Z ≠ 0` (no `T` invariant needed) -/
theorem toAff_neg (p : Ext F) : toAff p.neg = (toAff p).map affNeg := by
  unfold toAff
  by_cases h : p.z = 0
  · simp [h, Ext.neg]
  · simp [h, Ext.neg, affNeg]

theorem affineNeg_correct (q : Affine F) : ofAffine q.neg = affNeg (ofAffine q) := rfl

theorem fromAffine_eq_mk (q : Affine F) : fromAffine q = mk (ofAffine q) 1 := by
  simp [fromAffine, mk, ofAffine]

theorem fromAffine_correct (q : Affine F) :
    wellFormed (fromAffine q) = true ∧ toAff (fromAffine q) = some (ofAffine q) := by
  rw [fromAffine_eq_mk]; exact denotes_mk _ one_ne_zero

theorem affAddDefined_neg (d : F) (P Q : F × F) :
    affAddDefined d P (affNeg Q) = affAddDefined d P Q := by
  rw [Bool.eq_iff_iff, affAddDefined_iff, affAddDefined_iff]
  simp only [affNeg]
  have e : d * P.1 * -Q.1 * P.2 * Q.2 = -(d * P.1 * Q.1 * P.2 * Q.2) := by ring
  rw [e, ← sub_eq_add_neg, sub_neg_eq_add]
  exact and_comm

theorem sub_correct (c : Curve F) (hA : ∀ e, c.mulByA e = c.a * e) (p q : Ext F) (P Q : F × F)
    (hp : wellFormed p = true) (hq : wellFormed q = true)
    (hP : toAff p = some P) (hQ : toAff q = some Q) (hd : affAddDefined c.d P Q = true) :
    wellFormed (sub c p q) = true ∧ toAff (sub c p q) = some (affAdd c.a c.d P (affNeg Q)) := by
  obtain ⟨hq', hQ'⟩ := neg_correct q Q hq hQ
  exact add_correct c hA p q.neg P (affNeg Q) hp hq' hP hQ' (by rw [affAddDefined_neg]; exact hd)

theorem subMixed_correct (c : Curve F) (hA : ∀ e, c.mulByA e = c.a * e) (p : Ext F) (q : Affine F)
    (P : F × F) (hp : wellFormed p = true) (hP : toAff p = some P)
    (hd : affAddDefined c.d P (ofAffine q) = true) :
    wellFormed (subMixed c p q) = true ∧
      toAff (subMixed c p q) = some (affAdd c.a c.d P (affNeg (ofAffine q))) := by
  have := addMixed_correct c hA p q.neg P hp hP
    (by rw [affineNeg_correct, affAddDefined_neg]; exact hd)
  rwa [affineNeg_correct] at this

theorem affineAdd_correct (c : Curve F) (hA : ∀ e, c.mulByA e = c.a * e) (p q : Affine F)
    (hd : affAddDefined c.d (ofAffine p) (ofAffine q) = true) :
    wellFormed (affineAdd c p q) = true ∧
      toAff (affineAdd c p q) = some (affAdd c.a c.d (ofAffine p) (ofAffine q)) :=
  addMixed_correct c hA _ q _ (fromAffine_correct p).1 (fromAffine_correct p).2 hd

theorem affineSub_correct (c : Curve F) (hA : ∀ e, c.mulByA e = c.a * e) (p q : Affine F)
    (hd : affAddDefined c.d (ofAffine p) (ofAffine q) = true) :
    wellFormed (affineSub c p q) = true ∧
      toAff (affineSub c p q) = some (affAdd c.a c.d (ofAffine p) (affNeg (ofAffine q))) :=
  subMixed_correct c hA _ q _ (fromAffine_correct p).1 (fromAffine_correct p).2 hd

/-! ## 3. doubling (dbl-2008-hwcd; uses the curve equation) -/

theorem double_mk (c : Curve F) (hA : ∀ e, c.mulByA e = c.a * e) (P : F × F) (z : F)
    (hc : c.a * P.1 * P.1 + P.2 * P.2 = 1 + c.d * P.1 * P.1 * P.2 * P.2)
    (h1 : 1 + c.d * P.1 * P.1 * P.2 * P.2 ≠ 0) (h2 : 1 - c.d * P.1 * P.1 * P.2 * P.2 ≠ 0) :
    double c (mk P z) =
      mk (affAdd c.a c.d P P)
        (z * z * (z * z) * (-((1 - c.d * P.1 * P.1 * P.2 * P.2) * (1 + c.d * P.1 * P.1 * P.2 * P.2)))) := by
  simp only [double, mk, affAdd, hA, sq, dbl, Ext.mk.injEq]
  generalize hK : c.d * P.1 * P.1 * P.2 * P.2 = K at hc h1 h2 ⊢
  have ha : c.a * (P.1 * z * (P.1 * z)) = (1 + K - P.2 * P.2) * (z * z) := by
    linear_combination (z * z) * hc
  rw [ha]
  refine ⟨?_, ?_, ?_, ?_⟩
  · field_simp; ring
  · field_simp; linear_combination (-(z ^ 4 * (1 + K))) * hc
  · field_simp; linear_combination (-(2 * z ^ 4 * P.1 * P.2)) * hc
  · ring

theorem double_correct (c : Curve F) (hA : ∀ e, c.mulByA e = c.a * e) (p : Ext F) (P : F × F)
    (hp : wellFormed p = true) (hP : toAff p = some P) (hc : onCurve c.a c.d P = true)
    (hd : affAddDefined c.d P P = true) :
    wellFormed (double c p) = true ∧ toAff (double c p) = some (affAdd c.a c.d P P) := by
  obtain ⟨hz, e⟩ := ext_repr hp hP
  obtain ⟨h1, h2⟩ := (affAddDefined_iff _ _ _).1 hd
  rw [onCurve_iff] at hc
  rw [e, double_mk c hA P _ hc h1 h2]
  exact denotes_mk _ (mul_ne_zero (mul_ne_zero (mul_ne_zero hz hz) (mul_ne_zero hz hz))
    (neg_ne_zero.2 (mul_ne_zero h2 h1)))

/-! ## 4. closure: the sum of two curve points is on the curve -/

/-- the polynomial identity behind closure (cofactors found by a Gröbner-basis computation) -/
theorem closure_poly (a d x1 y1 x2 y2 : F)
    (e1 : a * x1 * x1 + y1 * y1 = 1 + d * x1 * x1 * y1 * y1)
    (e2 : a * x2 * x2 + y2 * y2 = 1 + d * x2 * x2 * y2 * y2) :
    a * (x1 * y2 + y1 * x2) ^ 2 * (1 - d * x1 * x2 * y1 * y2) ^ 2
      + (y1 * y2 - a * x1 * x2) ^ 2 * (1 + d * x1 * x2 * y1 * y2) ^ 2
      - (1 - d * x1 * x2 * y1 * y2) ^ 2 * (1 + d * x1 * x2 * y1 * y2) ^ 2
      - d * (x1 * y2 + y1 * x2) ^ 2 * (y1 * y2 - a * x1 * x2) ^ 2 = 0 := by
  linear_combination
    (d^3*x1^2*y1^2*x2^4*y2^4 + a*d^2*x1^2*x2^4*y2^4 + d^2*y1^2*x2^4*y2^4 - a^2*d*x1^2*x2^4*y2^2
      - a*d*y1^2*x2^4*y2^2 - a*d*x1^2*x2^2*y2^4 + 2*a*d*x2^4*y2^4 - d^2*x2^4*y2^4 - d*y1^2*x2^2*y2^4
      - 2*a^2*x2^4*y2^2 - 2*a*x2^2*y2^4 + a^2*x2^4 + 4*a*x2^2*y2^2 - 2*d*x2^2*y2^2 + y2^4) * e1
    + (a^2*d*x1^4*x2^2*y2^2 + d*y1^4*x2^2*y2^2 + 2*a^2*x1^2*x2^2*y2^2 - 2*a*d*x1^2*x2^2*y2^2
      + 2*a*y1^2*x2^2*y2^2 - 2*d*y1^2*x2^2*y2^2 - a^2*x1^2*x2^2 - a*y1^2*x2^2 - a*x1^2*y2^2
      - 2*a*x2^2*y2^2 + d*x2^2*y2^2 - y1^2*y2^2 + a*x2^2 + y2^2 + 1) * e2

theorem affAdd_onCurve (a d : F) (P Q : F × F) (hP : onCurve a d P = true) (hQ : onCurve a d Q = true)
    (hd : affAddDefined d P Q = true) : onCurve a d (affAdd a d P Q) = true := by
  obtain ⟨x1, y1⟩ := P
  obtain ⟨x2, y2⟩ := Q
  rw [onCurve_iff] at hP hQ ⊢
  obtain ⟨h1, h2⟩ := (affAddDefined_iff _ _ _).1 hd
  simp only at hP hQ h1 h2
  have key := closure_poly a d x1 y1 x2 y2 hP hQ
  simp only [affAdd]
  generalize hK : d * x1 * x2 * y1 * y2 = K at h1 h2 key ⊢
  field_simp
  linear_combination key

end Ark.Curve.TE
