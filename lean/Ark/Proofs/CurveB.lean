import Ark.Model.Curve
import Ark.Proofs.FieldOps
import Mathlib.Algebra.Field.Basic
import Mathlib.Algebra.Group.Even
import Mathlib.Tactic.Ring
import Mathlib.Tactic.FieldSimp
import Mathlib.Tactic.LinearCombination
import Mathlib.Data.List.Forall2
/-
  Ark.Proofs.CurveB — helper lemmas for C03 (twisted-Edwards part): the extended-coordinate
  formulas of `Ark.Curve.TE` (add-2008-hwcd, madd-2008-hwcd, dbl-2008-hwcd, neg, equality,
  normalisation, batch normalisation, sums) against the affine Edwards law `TE.affAdd`,
  over an arbitrary field.

  Technique: a well-formed extended point denoting `P` is `mk P z = (x z, y z, x y z, z)`
  (`ext_repr`); every formula maps `mk`s to an `mk` of the affine result with an explicit `Z`.
-/
namespace Ark.Curve.TE

variable {F : Type} [Field F] [DecidableEq F]

/-! ## Bool ↔ Prop -/

theorem wellFormed_iff (p : Ext F) : wellFormed p = true ↔ p.z ≠ 0 ∧ p.t * p.z = p.x * p.y := by
  simp [wellFormed]

theorem toAff_eq_some_iff (p : Ext F) (P : F × F) :
    toAff p = some P ↔ p.z ≠ 0 ∧ P = (p.x * p.z⁻¹, p.y * p.z⁻¹) := by
  unfold toAff
  by_cases h : p.z = 0
  · simp [h]
  · simp [h, eq_comm]

theorem toAff_of_ne (p : Ext F) (h : p.z ≠ 0) : toAff p = some (p.x * p.z⁻¹, p.y * p.z⁻¹) :=
  (toAff_eq_some_iff p _).2 ⟨h, rfl⟩

theorem onCurve_iff (a d : F) (P : F × F) :
    onCurve a d P = true ↔ a * P.1 * P.1 + P.2 * P.2 = 1 + d * P.1 * P.1 * P.2 * P.2 := by
  simp [onCurve]

theorem affAddDefined_iff (d : F) (P Q : F × F) :
    affAddDefined d P Q = true ↔
      1 + d * P.1 * Q.1 * P.2 * Q.2 ≠ 0 ∧ 1 - d * P.1 * Q.1 * P.2 * Q.2 ≠ 0 := by
  simp [affAddDefined]

theorem affAddDefined_eq_false_iff (d : F) (P Q : F × F) :
    affAddDefined d P Q = false ↔
      (d * P.1 * Q.1 * P.2 * Q.2) * (d * P.1 * Q.1 * P.2 * Q.2) = 1 := by
  rw [← Bool.not_eq_true, affAddDefined_iff]
  constructor
  · intro h
    by_cases h1 : 1 + d * P.1 * Q.1 * P.2 * Q.2 = 0
    · linear_combination (d * P.1 * Q.1 * P.2 * Q.2 - 1) * h1
    · have h2 : 1 - d * P.1 * Q.1 * P.2 * Q.2 = 0 := by
        by_contra h2; exact h ⟨h1, h2⟩
      linear_combination (-(d * P.1 * Q.1 * P.2 * Q.2) - 1) * h2
  · rintro h ⟨h1, h2⟩
    have : (1 + d * P.1 * Q.1 * P.2 * Q.2) * (1 - d * P.1 * Q.1 * P.2 * Q.2) = 0 := by
      linear_combination -h
    rcases mul_eq_zero.1 this with h' | h'
    · exact h1 h'
    · exact h2 h'

/-! ## the canonical form of a well-formed extended point -/

/-- the extended point with affine image `P` and third projective coordinate `z` -/
def mk (P : F × F) (z : F) : Ext F := ⟨P.1 * z, P.2 * z, P.1 * P.2 * z, z⟩

theorem wellFormed_mk (P : F × F) {z : F} (hz : z ≠ 0) : wellFormed (mk P z) = true := by
  rw [wellFormed_iff]; exact ⟨hz, by simp only [mk]; ring⟩

theorem toAff_mk (P : F × F) {z : F} (hz : z ≠ 0) : toAff (mk P z) = some P := by
  rw [toAff_eq_some_iff]; refine ⟨hz, ?_⟩
  simp only [mk]
  ext <;> simp [hz]

theorem ext_repr {p : Ext F} {P : F × F} (hp : wellFormed p = true) (hP : toAff p = some P) :
    p.z ≠ 0 ∧ p = mk P p.z := by
  obtain ⟨x, y, t, z⟩ := p
  rw [wellFormed_iff] at hp
  rw [toAff_eq_some_iff] at hP
  obtain ⟨hz, ht⟩ := hp
  obtain ⟨_, rfl⟩ := hP
  simp only at hz ht
  refine ⟨hz, ?_⟩
  simp only [mk, Ext.mk.injEq]
  refine ⟨?_, ?_, ?_, trivial⟩
  · field_simp
  · field_simp
  · field_simp; linear_combination ht

/-- every property of the form "the result is well-formed and denotes `R`" -/
theorem denotes_mk (R : F × F) {z : F} (hz : z ≠ 0) :
    wellFormed (mk R z) = true ∧ toAff (mk R z) = some R :=
  ⟨wellFormed_mk R hz, toAff_mk R hz⟩

/-! ## 1. rescaling -/

theorem rescale (p : Ext F) (l : F) (hl : l ≠ 0) (hp : wellFormed p = true) :
    wellFormed (⟨p.x * l, p.y * l, p.t * l, p.z * l⟩ : Ext F) = true ∧
    toAff (⟨p.x * l, p.y * l, p.t * l, p.z * l⟩ : Ext F) = toAff p := by
  rw [wellFormed_iff] at hp ⊢
  obtain ⟨hz, ht⟩ := hp
  have hzl : p.z * l ≠ 0 := mul_ne_zero hz hl
  refine ⟨⟨hzl, by simp only; linear_combination (l * l) * ht⟩, ?_⟩
  rw [toAff_of_ne p hz, toAff_eq_some_iff]
  refine ⟨hzl, ?_⟩
  ext <;> simp only <;> field_simp

/-! ## 2. unified addition -/

theorem add_mk (c : Curve F) (hA : ∀ e, c.mulByA e = c.a * e) (P Q : F × F) (z1 z2 : F)
    (h1 : 1 + c.d * P.1 * Q.1 * P.2 * Q.2 ≠ 0) (h2 : 1 - c.d * P.1 * Q.1 * P.2 * Q.2 ≠ 0) :
    add c (mk P z1) (mk Q z2) =
      mk (affAdd c.a c.d P Q)
        (z1 * z2 * (z1 * z2) * ((1 - c.d * P.1 * Q.1 * P.2 * Q.2) * (1 + c.d * P.1 * Q.1 * P.2 * Q.2))) := by
  simp only [add, mk, affAdd, hA, Ext.mk.injEq]
  generalize hK : c.d * P.1 * Q.1 * P.2 * Q.2 = K at h1 h2 ⊢
  refine ⟨?_, ?_, ?_, ?_⟩
  · field_simp; subst hK; ring
  · field_simp; subst hK; ring
  · field_simp; subst hK; ring
  · subst hK; ring

theorem addMixed_mk (c : Curve F) (hA : ∀ e, c.mulByA e = c.a * e) (P : F × F) (q : Affine F) (z1 : F)
    (h1 : 1 + c.d * P.1 * q.x * P.2 * q.y ≠ 0) (h2 : 1 - c.d * P.1 * q.x * P.2 * q.y ≠ 0) :
    addMixed c (mk P z1) q =
      mk (affAdd c.a c.d P (ofAffine q))
        (z1 * z1 * ((1 - c.d * P.1 * q.x * P.2 * q.y) * (1 + c.d * P.1 * q.x * P.2 * q.y))) := by
  simp only [addMixed, mk, affAdd, ofAffine, hA, Ext.mk.injEq]
  generalize hK : c.d * P.1 * q.x * P.2 * q.y = K at h1 h2 ⊢
  refine ⟨?_, ?_, ?_, ?_⟩
  · field_simp; subst hK; ring
  · field_simp; subst hK; ring
  · field_simp; subst hK; ring
  · subst hK; ring

end Ark.Curve.TE
