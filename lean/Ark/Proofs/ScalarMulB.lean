import Ark.Model.ScalarMul
import Ark.Proofs.LimbsB
import Mathlib.Algebra.Module.NatInt
import Mathlib.Algebra.Group.Int.Defs
import Mathlib.Tactic.Abel
import Mathlib.Tactic.Module
import Mathlib.Tactic.LinearCombination
import Mathlib.Tactic.Ring
import Mathlib.Tactic.Linarith
import Mathlib.Data.Nat.Bitwise
/-
  Ark.Proofs.ScalarMulB — helper lemmas for C04 (part b): GLV decomposition / joint ladder /
  `mul_projective` override and fixed-base batch multiplication of `Ark.Model.ScalarMul`.

  Everything lives in the namespace `Ark.ScalarMulB` (part a is written concurrently; `LimbsA` and
  `LimbsB` cannot be imported together, so the few `toLimbs` facts needed are re-proved locally).
-/
namespace Ark.ScalarMulB
open Ark Ark.ScalarMul

/-! ### local copies of `toLimbs` facts -/

theorem toLimbs_value (n v : Nat) : value (toLimbs n v) = v % B ^ n := by
  induction n generalizing v with
  | zero => simp [toLimbs, value, Nat.mod_one]
  | succ n ih =>
    simp only [toLimbs, value, ih]
    rw [Nat.pow_succ, Nat.mul_comm (B ^ n) B, Nat.mod_mul]

theorem toLimbs_wf (n v : Nat) : WF (toLimbs n v) := by
  induction n generalizing v with
  | zero => simp [toLimbs, WF]
  | succ n ih => exact WF_cons.mpr ⟨Nat.mod_lt _ B_pos, ih _⟩

theorem toLimbs_length (n v : Nat) : (toLimbs n v).length = n := by
  induction n generalizing v with
  | zero => simp [toLimbs]
  | succ n ih => simp [toLimbs, ih]

theorem toLimbs_value_of_lt (n v : Nat) (h : v < 2 ^ (64 * n)) : value (toLimbs n v) = v := by
  rw [toLimbs_value, B_pow_eq, Nat.mod_eq_of_lt h]

/-! ### big-endian bit values -/

/-- value of a big-endian bit list, with accumulator -/
def bvBE (acc : Nat) (bits : List Bool) : Nat :=
  bits.foldl (fun n b => 2 * n + (if b then 1 else 0)) acc

theorem bvBE_nil (acc : Nat) : bvBE acc [] = acc := rfl
theorem bvBE_cons (acc : Nat) (b : Bool) (bs : List Bool) :
    bvBE acc (b :: bs) = bvBE (2 * acc + (if b then 1 else 0)) bs := rfl

theorem bvBE_zero_eq (bits : List Bool) : bvBE 0 bits = bitsToNat bits.reverse := by
  have h : ∀ (bits : List Bool),
      bitsToNat bits = bits.foldr (fun b n => (if b then 1 else 0) + 2 * n) 0 := by
    intro bits
    induction bits with
    | nil => rfl
    | cons b bs ih => simp only [bitsToNat, List.foldr_cons, ih]
  rw [h, List.foldr_reverse]
  unfold bvBE
  congr 1
  funext n b
  omega

theorem bvBE_bitsBE (e : List Nat) (he : WF e) : bvBE 0 (bitsBE e) = value e := by
  rw [bvBE_zero_eq, bitsBE, toBitsBE, List.reverse_reverse, bitsToNat_toBitsLE e he]

theorem bitsBE_length (e : List Nat) : (bitsBE e).length = 64 * e.length := by
  rw [bitsBE, toBitsBE, List.length_reverse, toBitsLE_length]

/-- the top bit of an `N`-limb integer below `2^(64N-1)` is clear -/
theorem bitsBE_head (e : List Nat) (he : WF e) (hpos : 0 < e.length)
    (h : value e < 2 ^ (64 * e.length - 1)) : ∃ t, bitsBE e = false :: t := by
  have hlen := bitsBE_length e
  cases hb : bitsBE e with
  | nil => rw [hb, List.length_nil] at hlen; omega
  | cons b t =>
    refine ⟨t, ?_⟩
    congr 1
    have h1 : (bitsBE e).head? = some b := by rw [hb]; rfl
    rw [bitsBE, toBitsBE, List.head?_reverse, List.getLast?_eq_getElem?, toBitsLE_length,
      toBitsLE_getElem? e he, if_pos (by omega)] at h1
    have h2 : (value e).testBit (64 * e.length - 1) = false :=
      Nat.testBit_lt_two_pow h
    rw [h2] at h1
    exact (Option.some.inj h1).symm

/-! ### GLV decomposition -/

/-- the halves computed from *arbitrary* rounded quotients `β1 β2` are congruent to `k`
    as soon as both rows of the coefficient matrix lie in the lattice `{(x,y) | x + λ y ≡ 0 (mod r)}` -/
theorem decomp_any_rounding (r lam n11 n12 n21 n22 k β1 β2 : Int)
    (h1 : (n11 + lam * n12) % r = 0) (h2 : (n21 + lam * n22) % r = 0) :
    ((k - (β1 * n11 + β2 * n21)) + lam * (-(β1 * n12 + β2 * n22)) - k) % r = 0 := by
  obtain ⟨u, hu⟩ := Int.dvd_of_emod_eq_zero h1
  obtain ⟨v, hv⟩ := Int.dvd_of_emod_eq_zero h2
  apply Int.emod_eq_zero_of_dvd
  refine ⟨-(β1 * u + β2 * v), ?_⟩
  linear_combination (-β1) * hu + (-β2) * hv

theorem decompInt_congr (c : GlvCfg) (k : Nat)
    (h1 : (c.n11 + (c.lambda : Int) * c.n12) % (c.r : Int) = 0)
    (h2 : (c.n21 + (c.lambda : Int) * c.n22) % (c.r : Int) = 0) :
    ((decompInt c k).1 + (c.lambda : Int) * (decompInt c k).2 - (k : Int)) % (c.r : Int) = 0 := by
  simp only [decompInt]
  exact decomp_any_rounding _ _ _ _ _ _ _ _ _ h1 h2

/-- the signed integer denoted by a (sign flag, magnitude) pair of `scalar_decomposition` -/
def sgnVal (s : Bool) (m : Nat) : Int := if s then (m : Int) else - (m : Int)

theorem sgnVal_spec (x : Int) (r : Nat) :
    ∃ t : Int, sgnVal (decide (x > 0)) (x.natAbs % r) = x + (r : Int) * t := by
  by_cases hx : x > 0
  · refine ⟨-(x / (r : Int)), ?_⟩
    have : ((x.natAbs : Int)) = x := Int.natAbs_of_nonneg (le_of_lt hx)
    simp only [sgnVal, hx, decide_true, if_true, Int.natCast_mod, this, Int.emod_def]
    ring
  · refine ⟨(-x) / (r : Int), ?_⟩
    have : ((x.natAbs : Int)) = -x := by
      rw [← Int.natAbs_neg]; exact Int.natAbs_of_nonneg (by omega)
    simp only [sgnVal, hx, decide_false, Int.natCast_mod, this, Int.emod_def]
    simp only [Bool.false_eq_true, if_false]
    ring

theorem sgnVal_exact (x : Int) (r : Nat) (h : x.natAbs < r) :
    sgnVal (decide (x > 0)) (x.natAbs % r) = x := by
  rw [Nat.mod_eq_of_lt h]
  by_cases hx : x > 0
  · simp only [sgnVal, hx, decide_true, if_true]; omega
  · simp only [sgnVal, hx, decide_false, Bool.false_eq_true, if_false]; omega

theorem scalarDecomposition_eq (c : GlvCfg) (k : Nat) :
    scalarDecomposition c k =
      ((decide ((decompInt c k).1 > 0), (decompInt c k).1.natAbs % c.r),
       (decide ((decompInt c k).2 > 0), (decompInt c k).2.natAbs % c.r)) := rfl

theorem scalarDecomposition_congr (c : GlvCfg) (k : Nat)
    (h1 : (c.n11 + (c.lambda : Int) * c.n12) % (c.r : Int) = 0)
    (h2 : (c.n21 + (c.lambda : Int) * c.n22) % (c.r : Int) = 0) :
    (sgnVal (scalarDecomposition c k).1.1 (scalarDecomposition c k).1.2
      + (c.lambda : Int) * sgnVal (scalarDecomposition c k).2.1 (scalarDecomposition c k).2.2
      - (k : Int)) % (c.r : Int) = 0 := by
  rw [scalarDecomposition_eq]
  obtain ⟨t1, ht1⟩ := sgnVal_spec (decompInt c k).1 c.r
  obtain ⟨t2, ht2⟩ := sgnVal_spec (decompInt c k).2 c.r
  obtain ⟨u, hu⟩ := Int.dvd_of_emod_eq_zero (decompInt_congr c k h1 h2)
  simp only [ht1, ht2]
  apply Int.emod_eq_zero_of_dvd
  refine ⟨u + t1 + (c.lambda : Int) * t2, ?_⟩
  linear_combination hu

/-! ### the joint ladder -/

section ladder
variable {G : Type} [AddCommGroup G]

theorem glvLoop_nil (b1 b2 b12 : G) (f : Bool) (res : G) : glvLoop b1 b2 b12 [] f res = res := rfl

theorem glvLoop_cons_false (b1 b2 b12 : G) (x y : Bool) (rest : List (Bool × Bool)) (res : G) :
    glvLoop b1 b2 b12 ((x, y) :: rest) false res =
      glvLoop b1 b2 b12 rest false
        (match x, y with
          | true, false => res + res + b1
          | false, true => res + res + b2
          | true, true => res + res + b12
          | false, false => res + res) := by
  cases x <;> cases y <;> simp [glvLoop]

/-- once the flag is cleared the loop is the plain joint double-and-add -/
theorem glvLoop_false (b1 b2 : G) : ∀ (pairs : List (Bool × Bool)) (res : G) (m n : Nat),
    res = m • b1 + n • b2 →
    glvLoop b1 b2 (b1 + b2) pairs false res =
      bvBE m (pairs.map Prod.fst) • b1 + bvBE n (pairs.map Prod.snd) • b2 := by
  intro pairs
  induction pairs with
  | nil => intro res m n h; simpa [glvLoop_nil, bvBE_nil] using h
  | cons pr rest ih =>
    intro res m n h
    obtain ⟨x, y⟩ := pr
    rw [glvLoop_cons_false, List.map_cons, List.map_cons, bvBE_cons, bvBE_cons]
    apply ih
    subst h
    cases x <;> cases y <;> simp only [Bool.false_eq_true, if_false, if_true] <;> module

/-- a leading `(false,false)` pair is skipped and clears the flag -/
theorem glvLoop_true_head (b1 b2 b12 : G) (rest : List (Bool × Bool)) (res : G) :
    glvLoop b1 b2 b12 ((false, false) :: rest) true res = glvLoop b1 b2 b12 rest false res := by
  simp [glvLoop]

/-- with no `(false,false)` pair at all the flag never fires -/
theorem glvLoop_noZeroPair (b1 b2 b12 : G) : ∀ (pairs : List (Bool × Bool)) (res : G),
    (∀ pr ∈ pairs, pr ≠ (false, false)) →
    glvLoop b1 b2 b12 pairs true res = glvLoop b1 b2 b12 pairs false res := by
  intro pairs
  induction pairs with
  | nil => intro res _; rfl
  | cons pr rest ih =>
    intro res h
    obtain ⟨x, y⟩ := pr
    have hxy : (x, y) ≠ (false, false) := h _ (List.mem_cons_self)
    have hrest : ∀ pr ∈ rest, pr ≠ (false, false) := fun pr hp => h pr (List.mem_cons_of_mem _ hp)
    cases x <;> cases y <;> first | exact absurd rfl hxy | (simp only [glvLoop]; simp [ih _ hrest])

/-- exact description of the `skip_zeros` flag: the loop started with the flag set is the plain joint
    double-and-add on the stream with its FIRST `(false,false)` pair erased -/
theorem glvLoop_true_eq_erase (b1 b2 b12 : G) : ∀ (pairs : List (Bool × Bool)) (res : G),
    glvLoop b1 b2 b12 pairs true res = glvLoop b1 b2 b12 (pairs.erase (false, false)) false res := by
  intro pairs
  induction pairs with
  | nil => intro res; rfl
  | cons pr rest ih =>
    intro res
    obtain ⟨x, y⟩ := pr
    cases x <;> cases y <;> simp [glvLoop, ih]

/-- the skip logic is harmless when the accumulator is still `0`: a non-empty stream that starts with
    `(false,false)` (or an empty one) gives the joint double-and-add value -/
theorem glvLoop_true_zero (b1 b2 : G) (l1 l2 : List Bool) (hlen : l1.length = l2.length) :
    glvLoop b1 b2 (b1 + b2) ((false :: l1).zip (false :: l2)) true 0 =
      bvBE 0 (false :: l1) • b1 + bvBE 0 (false :: l2) • b2 := by
  rw [List.zip_cons_cons, glvLoop_true_head, glvLoop_false b1 b2 _ 0 0 0 (by simp)]
  rw [List.map_fst_zip (by omega), List.map_snd_zip (by omega)]
  rfl

/-- the ladder on two well-formed limb lists of equal length whose top bits are clear -/
theorem glvLoop_limbs (b1 b2 : G) (s1 s2 : List Nat) (h1 : WF s1) (h2 : WF s2)
    (hlen : s1.length = s2.length)
    (ha : value s1 < 2 ^ (64 * s1.length - 1)) (hb : value s2 < 2 ^ (64 * s2.length - 1)) :
    glvLoop b1 b2 (b1 + b2) ((bitsBE s1).zip (bitsBE s2)) true 0 = value s1 • b1 + value s2 • b2 := by
  by_cases hN : s1.length = 0
  · have e1 : s1 = [] := List.length_eq_zero_iff.mp hN
    have e2 : s2 = [] := List.length_eq_zero_iff.mp (by omega)
    subst e1; subst e2
    simp [bitsBE, toBitsBE, toBitsLE, glvLoop, value]
  · obtain ⟨t1, ht1⟩ := bitsBE_head s1 h1 (by omega) ha
    obtain ⟨t2, ht2⟩ := bitsBE_head s2 h2 (by omega) hb
    have hl1 := bitsBE_length s1
    have hl2 := bitsBE_length s2
    rw [ht1, List.length_cons] at hl1
    rw [ht2, List.length_cons] at hl2
    rw [← bvBE_bitsBE s1 h1, ← bvBE_bitsBE s2 h2, ht1, ht2]
    exact glvLoop_true_zero b1 b2 t1 t2 (by omega)

theorem glvLoop_toLimbs (b1 b2 : G) (N a b : Nat)
    (ha : a < 2 ^ (64 * N - 1)) (hb : b < 2 ^ (64 * N - 1)) :
    glvLoop b1 b2 (b1 + b2) ((bitsBE (toLimbs N a)).zip (bitsBE (toLimbs N b))) true 0 =
      a • b1 + b • b2 := by
  have hle : 2 ^ (64 * N - 1) ≤ 2 ^ (64 * N) := Nat.pow_le_pow_right (by omega) (by omega)
  have va := toLimbs_value_of_lt N a (by omega)
  have vb := toLimbs_value_of_lt N b (by omega)
  have := glvLoop_limbs b1 b2 (toLimbs N a) (toLimbs N b) (toLimbs_wf _ _) (toLimbs_wf _ _)
    (by rw [toLimbs_length, toLimbs_length])
    (by rw [va, toLimbs_length]; exact ha) (by rw [vb, toLimbs_length]; exact hb)
  rw [va, vb] at this
  exact this

/-- sign handling: `|x| • (±p) = x • p` -/
theorem natAbs_smul_signed (x : Int) (p : G) :
    x.natAbs • (if !(decide (x > 0)) then -p else p) = x • p := by
  by_cases hx : x > 0
  · simp only [hx, decide_true, Bool.not_true, Bool.false_eq_true, if_false]
    rw [← natCast_zsmul, Int.natAbs_of_nonneg (le_of_lt hx)]
  · simp only [hx, decide_false, Bool.not_false, if_true]
    have : ((x.natAbs : Int)) = -x := by
      rw [← Int.natAbs_neg]; exact Int.natAbs_of_nonneg (by omega)
    rw [← natCast_zsmul, this, smul_neg, neg_smul, neg_neg]

/-- `glv_mul`: correct when the endomorphism acts as `λ`, the point has order dividing `r`, the rows
    lie in the lattice, and both halves are `< r` (so the conversion to `Fr` does not change them) and
    have a clear top bit in the `N`-limb representation (so the skip logic is harmless) -/
theorem glvMul_correct (c : GlvCfg) (endo : G → G) (p : G) (k : Nat)
    (hendo : endo p = c.lambda • p) (hr : c.r • p = 0)
    (h1 : (c.n11 + (c.lambda : Int) * c.n12) % (c.r : Int) = 0)
    (h2 : (c.n21 + (c.lambda : Int) * c.n22) % (c.r : Int) = 0)
    (hk1 : (decompInt c k).1.natAbs < min c.r (2 ^ (64 * c.nLimbs - 1)))
    (hk2 : (decompInt c k).2.natAbs < min c.r (2 ^ (64 * c.nLimbs - 1))) :
    glvMul c endo p k = k • p := by
  have hk1r : (decompInt c k).1.natAbs < c.r := lt_of_lt_of_le hk1 (min_le_left _ _)
  have hk2r : (decompInt c k).2.natAbs < c.r := lt_of_lt_of_le hk2 (min_le_left _ _)
  have hk1t := lt_of_lt_of_le hk1 (min_le_right _ _)
  have hk2t := lt_of_lt_of_le hk2 (min_le_right _ _)
  obtain ⟨u, hu⟩ := Int.dvd_of_emod_eq_zero (decompInt_congr c k h1 h2)
  simp only [glvMul, scalarDecomposition_eq, Nat.mod_eq_of_lt hk1r, Nat.mod_eq_of_lt hk2r]
  rw [glvLoop_toLimbs _ _ _ _ _ hk1t hk2t, natAbs_smul_signed, natAbs_smul_signed, hendo]
  have hrz : (c.r : Int) • p = 0 := by rw [natCast_zsmul]; exact hr
  have e : ((decompInt c k).1 + (c.lambda : Int) * (decompInt c k).2 : Int) = (k : Int) + (c.r : Int) * u := by
    linear_combination hu
  calc (decompInt c k).1 • p + (decompInt c k).2 • c.lambda • p
      = ((decompInt c k).1 + (c.lambda : Int) * (decompInt c k).2) • p := by
        rw [add_smul, mul_smul, natCast_zsmul, smul_comm]
    _ = ((k : Int) + (c.r : Int) * u) • p := by rw [e]
    _ = k • p := by
        rw [add_smul, mul_comm, mul_smul, hrz, smul_zero, add_zero, natCast_zsmul]

end ladder

/-! ### the `mul_projective` override -/

theorem value_append_zeros (s : List Nat) (n : Nat) : value (s ++ List.replicate n 0) = value s := by
  rw [value_append, value_replicate_zero, Nat.mul_zero, Nat.add_zero]

theorem glvOverrideScalar_eq (c : GlvCfg) (s : List Nat) : glvOverrideScalar c s = value s % c.r := by
  unfold glvOverrideScalar
  split
  · rw [value_append_zeros]
  · rfl

/-! ### fixed-base tables -/

theorem log2Ceil_ge (x : Nat) (h : 32 ≤ x) : 5 ≤ log2Ceil x := by
  have h5 : 5 ≤ Nat.log2 x := (Nat.le_log2 (by omega)).mpr (by omega)
  unfold log2Ceil
  split
  · omega
  · split <;> omega

theorem computeWindowSize_ge (ns : Nat) : 3 ≤ computeWindowSize ns := by
  unfold computeWindowSize
  split
  · omega
  · have := log2Ceil_ge ns (by omega)
    unfold lnWithoutFloats
    omega

theorem ceilDiv_mul_lt {ss w o : Nat} (hw : 0 < w) (ho : o < ceilDiv ss w) : o * w < ss := by
  unfold ceilDiv at ho
  have h1 : (o + 1) * w ≤ ss + w - 1 := (Nat.le_div_iff_mul_le hw).mp ho
  rw [Nat.add_mul] at h1
  omega

theorem ceilDiv_succ_mul_lt {ss w o : Nat} (hw : 0 < w) (ho : o + 1 < ceilDiv ss w) :
    o * w + w < ss := by
  have := ceilDiv_mul_lt hw ho
  rw [Nat.add_mul] at this
  omega

theorem le_ceilDiv_mul {ss w : Nat} (hw : 0 < w) : ss ≤ w * ceilDiv ss w := by
  unfold ceilDiv
  have := Nat.lt_mul_div_succ (ss + w - 1) hw
  rw [Nat.mul_add] at this
  omega

section fixedbase
variable {G : Type} [AddCommGroup G]

theorem iter_double (w : Nat) (g : G) : iter (fun x => x + x) w g = 2 ^ w • g := by
  induction w generalizing g with
  | zero => simp [iter]
  | succ w ih => rw [iter, ih, pow_succ, mul_smul, two_smul]

theorem gOuters_eq (w : Nat) : ∀ (n : Nat) (g : G),
    gOuters w n g = (List.range n).map (fun o => 2 ^ (w * o) • g) := by
  intro n
  induction n with
  | zero => intro g; rfl
  | succ n ih =>
    intro g
    rw [gOuters, ih, iter_double, List.range_succ_eq_map, List.map_cons, List.map_map]
    congr 1
    · simp
    · apply List.map_congr_left
      intro o _
      simp only [Function.comp, Nat.mul_succ, pow_add, mul_smul]

theorem rowLoop_eq (go : G) : ∀ (n : Nat) (gi : G),
    rowLoop go n gi = (List.range n).map (fun i => gi + i • go) := by
  intro n
  induction n with
  | zero => intro gi; rfl
  | succ n ih =>
    intro gi
    rw [rowLoop, ih, List.range_succ_eq_map, List.map_cons, List.map_map]
    congr 1
    · simp
    · apply List.map_congr_left
      intro i _
      simp only [Function.comp, Nat.succ_eq_add_one]
      module

theorem tableRow_eq (go : G) (inW cur : Nat) :
    tableRow go inW cur = (List.range inW).map (fun i => if i < min cur inW then i • go else 0) := by
  unfold tableRow
  simp only [rowLoop_eq, List.length_map, List.length_range]
  have hmm : min cur inW ≤ inW := min_le_right _ _
  generalize min cur inW = mm at hmm ⊢
  apply List.ext_getElem?
  intro i
  by_cases h1 : i < mm
  · have h2 : i < inW := lt_of_lt_of_le h1 hmm
    rw [List.getElem?_append_left (by simpa using h1)]
    simp [h1, h2]
  · rw [List.getElem?_append_right (by simpa using h1)]
    by_cases h2 : i < inW
    · have h3 : i - mm < inW - mm := by omega
      simp [h1, h2, h3]
    · have h3 : ¬ (i - mm < inW - mm) := by omega
      simp [h2, h3]

theorem tableRows_eq (inW last oc : Nat) (h : Nat → G) : ∀ (n start : Nat),
    tableRows inW last oc start ((List.range' start n).map h) =
      (List.range' start n).map
        (fun o => tableRow (h o) inW (if o + 1 = oc then last else inW)) := by
  intro n
  induction n with
  | zero => intro start; rfl
  | succ n ih =>
    intro start
    rw [List.range'_succ, List.map_cons, List.map_cons, tableRows, ih]

/-- the table the constructor is meant to build: row `o`, entry `i` is `(i·2^(w·o)) • g` for
    `i < 2^min(w, ss − w·o)` and the identity above; `⌈ss/w⌉` rows of `2^w` entries -/
def specTable (g : G) (w ss : Nat) : List (List G) :=
  (List.range (ceilDiv ss w)).map (fun o =>
    (List.range (2 ^ w)).map (fun i =>
      if i < 2 ^ (min w (ss - w * o)) then (i * 2 ^ (w * o)) • g else 0))

theorem min_two_pow (a b : Nat) : min (2 ^ a) (2 ^ b) = 2 ^ (min a b) := by
  by_cases h : a ≤ b
  · rw [min_eq_left h, min_eq_left (Nat.pow_le_pow_right (by omega) h)]
  · have h' : b ≤ a := by omega
    rw [min_eq_right h', min_eq_right (Nat.pow_le_pow_right (by omega) h')]

theorem table_eq_spec (g : G) (ns ss : Nat) :
    (withNumScalarsAndScalarSize g ns ss).table = specTable g (computeWindowSize ns) ss := by
  have hw : 0 < computeWindowSize ns := by have := computeWindowSize_ge ns; omega
  simp only [withNumScalarsAndScalarSize, specTable]
  generalize computeWindowSize ns = w at hw ⊢
  rw [gOuters_eq, List.range_eq_range', tableRows_eq, ← List.range_eq_range']
  apply List.map_congr_left
  intro o ho
  rw [List.mem_range] at ho
  rw [tableRow_eq]
  apply List.map_congr_left
  intro i _
  have hcur : min (if o + 1 = ceilDiv ss w then 2 ^ (ss - (ceilDiv ss w - 1) * w) else 2 ^ w) (2 ^ w)
      = 2 ^ (min w (ss - w * o)) := by
    split
    · rename_i h
      have : ceilDiv ss w - 1 = o := by omega
      rw [this, min_two_pow, Nat.mul_comm o w, Nat.min_comm]
    · rename_i h
      have h2 := ceilDiv_succ_mul_lt hw (show o + 1 < ceilDiv ss w by omega)
      rw [Nat.mul_comm] at h2
      rw [min_self, min_eq_left (by omega)]
  rw [hcur, mul_smul]

/-! ### fixed-base multiplication -/

theorem digit_step (X j n P : Nat) :
    (if X.testBit j then P else 0) + (X / 2 ^ (j + 1)) % 2 ^ n * (2 * P) =
      (X / 2 ^ j) % 2 ^ (n + 1) * P := by
  rw [Nat.testBit_eq_decide_div_mod_eq, pow_succ, ← Nat.div_div_eq_div_mul, pow_succ',
    Nat.mod_mul]
  generalize X / 2 ^ j = Y
  rcases Nat.mod_two_eq_zero_or_one Y with h | h <;> simp [h] <;> ring

theorem windowDigit_eq (w m : Nat) (bits : List Bool) (o K : Nat)
    (hbits : ∀ idx, idx < m → bits[idx]? = some (K.testBit idx)) :
    ∀ n, n ≤ w → ∀ acc, windowDigit w m bits o n acc =
      .ok (acc + ((K % 2 ^ m) / 2 ^ (o * w + (w - n))) % 2 ^ n * 2 ^ (w - n)) := by
  intro n
  induction n with
  | zero => intro _ acc; simp [windowDigit, Nat.mod_one]
  | succ n ih =>
    intro hn acc
    have hstep := digit_step (K % 2 ^ m) (o * w + (w - (n + 1))) n (2 ^ (w - (n + 1)))
    have e1 : o * w + (w - (n + 1)) + 1 = o * w + (w - n) := by omega
    have e2 : 2 * 2 ^ (w - (n + 1)) = 2 ^ (w - n) := by
      rw [← pow_succ']; congr 1; omega
    rw [e1, e2, Nat.testBit_mod_two_pow] at hstep
    unfold windowDigit
    simp only []
    split
    · rename_i hidx
      rw [hbits _ hidx]
      simp only []
      rw [ih (by omega)]
      congr 1
      rw [← hstep]
      simp only [hidx, decide_true, Bool.true_and]
      split <;> omega
    · rename_i hidx
      rw [ih (by omega)]
      congr 1
      rw [← hstep]
      simp [hidx]

/-- the window digit: bits `[o·w, o·w + w)` of the scalar truncated to `m` bits -/
theorem windowDigit_full (w m : Nat) (bits : List Bool) (o K : Nat)
    (hbits : ∀ idx, idx < m → bits[idx]? = some (K.testBit idx)) :
    windowDigit w m bits o w 0 = .ok (((K % 2 ^ m) / 2 ^ (w * o)) % 2 ^ w) := by
  rw [windowDigit_eq w m bits o K hbits w (le_refl _) 0]
  simp [Nat.mul_comm]

theorem loop_step (Y w n Q : Nat) :
    (Y % 2 ^ w) * Q + (Y / 2 ^ w) % 2 ^ (w * n) * (2 ^ w * Q) = Y % 2 ^ (w * (n + 1)) * Q := by
  rw [Nat.mul_succ, Nat.add_comm (w * n) w, pow_add, Nat.mod_mul]
  ring

/-- no table lookup of the loop panics when every row `o < outerc` exists and has `≥ 2^w` entries -/
theorem windowedLoop_ok (t : BatchTable G) (m : Nat) (bits : List Bool) (oc K : Nat)
    (hbits : ∀ idx, idx < m → bits[idx]? = some (K.testBit idx))
    (hrows : ∀ o, o < oc → ∃ row, t.table[o]? = some row ∧ 2 ^ t.window ≤ row.length) :
    ∀ n, n ≤ oc → ∀ res, ∃ x, windowedLoop t m bits oc n res = .ok x := by
  intro n
  induction n with
  | zero => intro _ res; exact ⟨res, rfl⟩
  | succ n ih =>
    intro hn res
    obtain ⟨row, hrow, hlen⟩ := hrows (oc - (n + 1)) (by omega)
    have hd : ((K % 2 ^ m) / 2 ^ (t.window * (oc - (n + 1)))) % 2 ^ t.window < row.length :=
      lt_of_lt_of_le (Nat.mod_lt _ (Nat.two_pow_pos _)) hlen
    unfold windowedLoop
    simp only [windowDigit_full t.window m bits _ K hbits, hrow, List.getElem?_eq_getElem hd]
    exact ih (by omega) _

/-- the loop adds up `dₒ·2^(w·o) • g` when the looked-up entries are the intended multiples -/
theorem windowedLoop_eq (t : BatchTable G) (g : G) (m : Nat) (bits : List Bool) (oc K : Nat)
    (hbits : ∀ idx, idx < m → bits[idx]? = some (K.testBit idx))
    (hrows : ∀ o, o < oc → ∃ row, t.table[o]? = some row ∧
      row[((K % 2 ^ m) / 2 ^ (t.window * o)) % 2 ^ t.window]? =
        some (((((K % 2 ^ m) / 2 ^ (t.window * o)) % 2 ^ t.window) * 2 ^ (t.window * o)) • g)) :
    ∀ n, n ≤ oc → ∀ res, windowedLoop t m bits oc n res =
      .ok (res + (((K % 2 ^ m) / 2 ^ (t.window * (oc - n))) % 2 ^ (t.window * n)
              * 2 ^ (t.window * (oc - n))) • g) := by
  intro n
  induction n with
  | zero => intro _ res; simp [windowedLoop, Nat.mod_one]
  | succ n ih =>
    intro hn res
    obtain ⟨row, hrow, he⟩ := hrows (oc - (n + 1)) (by omega)
    unfold windowedLoop
    simp only [windowDigit_full t.window m bits _ K hbits, hrow, he]
    rw [ih (by omega)]
    congr 1
    have e1 : oc - n = (oc - (n + 1)) + 1 := by omega
    have hs := loop_step ((K % 2 ^ m) / 2 ^ (t.window * (oc - (n + 1)))) t.window n
      (2 ^ (t.window * (oc - (n + 1))))
    rw [Nat.div_div_eq_div_mul, ← pow_add, ← pow_add,
      show t.window * (oc - (n + 1)) + t.window = t.window * (oc - n) by rw [e1, Nat.mul_succ],
      show t.window + t.window * (oc - (n + 1)) = t.window * (oc - n) by rw [e1, Nat.mul_succ, Nat.add_comm]] at hs
    rw [add_assoc, ← add_smul, hs]

end fixedbase

section fixedbase2
variable {G : Type} [AddCommGroup G]

theorem toBitsLE_bits (s : List Nat) (hs : WF s) (m : Nat) (hm : m ≤ 64 * s.length) :
    ∀ idx, idx < m → (toBitsLE s)[idx]? = some ((value s).testBit idx) := by
  intro idx h
  rw [toBitsLE_getElem? s hs, if_pos (by omega)]

theorem specTable_length (g : G) (w ss : Nat) : (specTable g w ss).length = ceilDiv ss w := by
  simp [specTable]

theorem specTable_row (g : G) (w ss o : Nat) (ho : o < ceilDiv ss w) :
    (specTable g w ss)[o]? = some ((List.range (2 ^ w)).map (fun i =>
      if i < 2 ^ (min w (ss - w * o)) then (i * 2 ^ (w * o)) • g else 0)) := by
  simp [specTable, ho]

theorem digit_lt (K ss w o : Nat) (hK : K < 2 ^ ss) (ho : w * o ≤ ss) :
    (K / 2 ^ (w * o)) % 2 ^ w < 2 ^ (min w (ss - w * o)) := by
  by_cases h : w ≤ ss - w * o
  · rw [min_eq_left h]; exact Nat.mod_lt _ (Nat.two_pow_pos _)
  · rw [min_eq_right (by omega)]
    refine lt_of_le_of_lt (Nat.mod_le _ _) ?_
    apply Nat.div_lt_of_lt_mul
    rw [← pow_add, show w * o + (ss - w * o) = ss by omega]
    exact hK

/-- `windowed_mul` on a table that equals the specification table: the scalar truncated to
    `m = MODULUS_BIT_SIZE` bits, if below `2^max_scalar_size`, is multiplied exactly -/
theorem windowedMul_spec (t : BatchTable G) (g : G) (hw : 0 < t.window)
    (htab : t.table = specTable g t.window t.maxScalarSize)
    (m : Nat) (s : List Nat) (hs : WF s) (hm : m ≤ 64 * s.length)
    (hK : value s % 2 ^ m < 2 ^ t.maxScalarSize) :
    windowedMul t m s = .ok ((value s % 2 ^ m) • g) := by
  unfold windowedMul
  rw [if_neg (by omega)]
  simp only []
  have hbits := toBitsLE_bits s hs m hm
  have hrows : ∀ o, o < ceilDiv t.maxScalarSize t.window → ∃ row, t.table[o]? = some row ∧
      row[((value s % 2 ^ m) / 2 ^ (t.window * o)) % 2 ^ t.window]? =
        some (((((value s % 2 ^ m) / 2 ^ (t.window * o)) % 2 ^ t.window)
          * 2 ^ (t.window * o)) • g) := by
    intro o ho
    refine ⟨_, by rw [htab]; exact specTable_row g _ _ o ho, ?_⟩
    have hlt := ceilDiv_mul_lt hw ho
    have hd := digit_lt _ _ t.window o hK (by rw [Nat.mul_comm]; omega)
    have hd2 : ((value s % 2 ^ m) / 2 ^ (t.window * o)) % 2 ^ t.window < 2 ^ t.window :=
      Nat.mod_lt _ (Nat.two_pow_pos _)
    simp [hd, hd2]
  rw [windowedLoop_eq t g m _ _ (value s) hbits hrows _ (le_refl _) 0]
  have hle : 2 ^ t.maxScalarSize ≤ 2 ^ (t.window * ceilDiv t.maxScalarSize t.window) :=
    Nat.pow_le_pow_right (by omega) (le_ceilDiv_mul hw)
  rw [Nat.sub_self, Nat.mul_zero, pow_zero, Nat.div_one, Nat.mul_one, zero_add,
    Nat.mod_eq_of_lt (by omega)]

/-- and it never panics, whatever the scalar (with at least `⌈m/64⌉` limbs) -/
theorem windowedMul_ok (t : BatchTable G) (g : G) (hw : 0 < t.window)
    (htab : t.table = specTable g t.window t.maxScalarSize)
    (m : Nat) (s : List Nat) (hs : WF s) (hm : m ≤ 64 * s.length) :
    ∃ x, windowedMul t m s = .ok x := by
  unfold windowedMul
  rw [if_neg (by omega)]
  simp only []
  apply windowedLoop_ok t m _ _ (value s) (toBitsLE_bits s hs m hm) _ _ (le_refl _)
  intro o ho
  refine ⟨_, by rw [htab]; exact specTable_row g _ _ o ho, ?_⟩
  simp

theorem mapOutcome_ok {α β : Type} (f : α → Outcome β) (h : α → β) : ∀ (l : List α),
    (∀ a ∈ l, f a = .ok (h a)) → mapOutcome f l = .ok (l.map h) := by
  intro l
  induction l with
  | nil => intro _; rfl
  | cons a as ih =>
    intro hl
    rw [mapOutcome, hl a List.mem_cons_self]
    simp only []
    rw [ih (fun b hb => hl b (List.mem_cons_of_mem _ hb))]
    rfl

theorem mapOutcome_no_panic {α β : Type} (f : α → Outcome β) : ∀ (l : List α),
    (∀ a ∈ l, ∃ b, f a = .ok b) → ∃ bs, mapOutcome f l = .ok bs ∧ bs.length = l.length := by
  intro l
  induction l with
  | nil => intro _; exact ⟨[], rfl, rfl⟩
  | cons a as ih =>
    intro hl
    obtain ⟨b, hb⟩ := hl a List.mem_cons_self
    obtain ⟨bs, hbs, hlen⟩ := ih (fun b hb => hl b (List.mem_cons_of_mem _ hb))
    refine ⟨b :: bs, ?_, by simp [hlen]⟩
    rw [mapOutcome, hb]
    simp only []
    rw [hbs]
    rfl

theorem toLimbs_trunc (N k rbits : Nat) (hk : k < 2 ^ rbits) (hr : rbits ≤ 64 * N) :
    value (toLimbs N k) % 2 ^ rbits = k := by
  have hle : 2 ^ rbits ≤ 2 ^ (64 * N) := Nat.pow_le_pow_right (by omega) hr
  rw [toLimbs_value_of_lt N k (by omega), Nat.mod_eq_of_lt hk]

end fixedbase2

theorem mod_smul_of_order {G : Type} [AddCommGroup G] (r : Nat) (p : G) (hr : r • p = 0) (n : Nat) :
    (n % r) • p = n • p := by
  conv_rhs => rw [← Nat.div_add_mod n r]
  rw [add_smul, mul_comm, mul_smul, hr, smul_zero, zero_add]

end Ark.ScalarMulB
