import Ark.Proofs.MontA
import Ark.Proofs.MontB
import Mathlib.Tactic.Ring
import Mathlib.Tactic.Linarith
import Mathlib.Tactic.LinearCombination
import Mathlib.Data.Nat.ModEq
/-
  Helper lemmas for C01 part C: squaring (`sqOffDiag`, `sqDouble`, `sqDiag`, `squareCore`,
  `square`), the conversions (`intoBigint`, `fromBigint`, `fpNew`) and `sumOfProducts`
  of `Ark.Model.Mont`, for every limb count.
-/
namespace Ark.Mont
open Ark

/-! ### squaring: the off-diagonal products -/

/-- `Σ_{i<j} a_i a_j B^(i+j-1)`: the off-diagonal sum, relative to limb 1 of the buffer -/
def offd : List Nat → Nat
  | [] => 0
  | x :: as => x * value as + B ^ 2 * offd as

/-- `Σ_i a_i² B^(2i)` -/
def diag : List Nat → Nat
  | [] => 0
  | x :: as => x * x + B ^ 2 * diag as

theorem sq_eq_diag_offd (a : List Nat) : value a * value a = diag a + 2 * B * offd a := by
  induction a with
  | nil => simp [value, diag, offd]
  | cons x as ih =>
    simp only [value_cons, diag, offd]
    generalize value as = v at *
    generalize diag as = d at *
    generalize offd as = o at *
    linear_combination (B ^ 2) * ih

/-- the sharp bound on the off-diagonal sum (attained by the all-ones input) -/
theorem offd_bound_aux : ∀ (as : List Nat) (x : Nat), WF (x :: as) →
    (B + 1) * offd (x :: as) + (B + 1) * B ^ as.length ≤ B * (B ^ as.length * B ^ as.length) + 1 := by
  intro as
  induction as with
  | nil => intro x _; simp [offd, value]
  | cons y as ih =>
    intro x hw
    have ⟨hx, hw'⟩ := WF_cons.mp hw
    have ih := ih y hw'
    have hv := value_lt (y :: as) hw'
    simp only [List.length_cons, pow_succ] at hv ⊢
    have e : offd (x :: y :: as) = x * value (y :: as) + B ^ 2 * offd (y :: as) := rfl
    rw [e]
    generalize offd (y :: as) = o at *
    generalize value (y :: as) = v at *
    generalize B ^ as.length = P at *
    have hB := B_pos
    generalize B = Bv at *
    obtain ⟨b, rfl⟩ : ∃ b, Bv = b + 1 := ⟨Bv - 1, by omega⟩
    have h1 : x * v + b ≤ b * (P * (b + 1)) := by
      calc x * v + b ≤ b * v + b := by
            have := Nat.mul_le_mul_right v (show x ≤ b by omega); omega
        _ = b * (v + 1) := by ring
        _ ≤ b * (P * (b + 1)) := Nat.mul_le_mul_left _ (by omega)
    nlinarith [Nat.mul_le_mul_left ((b + 1) ^ 2) ih, Nat.mul_le_mul_left (b + 2) h1]

/-- `B · offd a < B^(2N-1)`: limb `2N-1` of the buffer is still zero before the doubling shift -/
theorem offd_lt (x : Nat) (as : List Nat) (hw : WF (x :: as)) :
    offd (x :: as) < B ^ (2 * as.length) := by
  have h := offd_bound_aux as x hw
  have e : B ^ (2 * as.length) = B ^ as.length * B ^ as.length := by rw [two_mul, pow_add]
  rw [e]
  have hP : 0 < B ^ as.length := Nat.pow_pos B_pos
  generalize offd (x :: as) = o at *
  generalize B ^ as.length = P at *
  have hB := B_pos
  generalize B = Bv at *
  by_contra hn
  have h2 : (Bv + 1) * (P * P) ≤ (Bv + 1) * o := Nat.mul_le_mul_left _ (by omega)
  have h3 : 1 ≤ Bv * P := Nat.mul_pos hB hP
  nlinarith

/-- the off-diagonal rows: on a buffer `lo ++ 0…0` (limbs `2i+1 ..`) they add `offd` -/
theorem sqOffDiag_spec : ∀ (as : List Nat) (x : Nat) (lo : List Nat), lo.length = as.length →
    WF (x :: as) → WF lo →
    value (sqOffDiag (x :: as) (lo ++ List.replicate (as.length + 1) 0))
      = value lo + offd (x :: as) ∧
    WF (sqOffDiag (x :: as) (lo ++ List.replicate (as.length + 1) 0)) ∧
    (sqOffDiag (x :: as) (lo ++ List.replicate (as.length + 1) 0)).length = 2 * as.length + 1 := by
  intro as
  induction as with
  | nil =>
    intro x lo hlo _ hl
    have : lo = [] := List.eq_nil_of_length_eq_zero hlo
    subst this
    simp [sqOffDiag, offd, value, WF, B_pos]
  | cons y as ih =>
    intro x lo hlo hw hl
    have ⟨hx, hw'⟩ := WF_cons.mp hw
    have h1 : (lo ++ List.replicate ((y :: as).length + 1) 0).take (y :: as).length = lo := by
      rw [← hlo]; simp
    have h2 : (lo ++ List.replicate ((y :: as).length + 1) 0).drop ((y :: as).length + 1) =
        List.replicate (y :: as).length 0 := by
      rw [← hlo, List.drop_append]; simp [List.replicate_succ]
    simp only [sqOffDiag, h1, h2]
    have hspec := macRow_spec lo x (y :: as) 0 hlo
    have hlen := macRow_length lo x (y :: as) 0 hlo
    have hwf := macRow_wf lo x (y :: as) 0
    have hc := macRow_carry_lt lo x (y :: as) 0 hl hx hw' B_pos
    have hv : value ((macRow lo x (y :: as) 0).1 ++ [(macRow lo x (y :: as) 0).2]) =
        value lo + x * value (y :: as) := by
      rw [value_snoc, hlen]; simpa using hspec
    have hw2 : WF ((macRow lo x (y :: as) 0).1 ++ [(macRow lo x (y :: as) 0).2]) :=
      WF_append.mpr ⟨hwf, WF_cons.mpr ⟨hc, WF_nil⟩⟩
    have hl2 : ((macRow lo x (y :: as) 0).1 ++ [(macRow lo x (y :: as) 0).2]).length =
        as.length + 2 := by
      simp [hlen, hlo]
    have happ : (macRow lo x (y :: as) 0).1 ++
        ((macRow lo x (y :: as) 0).2 :: List.replicate (y :: as).length 0) =
        ((macRow lo x (y :: as) 0).1 ++ [(macRow lo x (y :: as) 0).2]) ++
          List.replicate (y :: as).length 0 := by simp
    rw [happ]
    generalize (macRow lo x (y :: as) 0).1 ++ [(macRow lo x (y :: as) 0).2] = L at hv hw2 hl2
    match L, hl2 with
    | h0 :: h1 :: lo', hl2 =>
      have hlo' : lo'.length = as.length := by simpa using hl2
      have ⟨hh0, hw3⟩ := WF_cons.mp hw2
      have ⟨hh1, hw4⟩ := WF_cons.mp hw3
      have ⟨i1, i2, i3⟩ := ih y lo' hlo' hw' hw4
      simp only [List.cons_append, List.length_cons]
      refine ⟨?_, WF_cons.mpr ⟨hh0, WF_cons.mpr ⟨hh1, i2⟩⟩, by rw [i3]; omega⟩
      have e : offd (x :: y :: as) = x * value (y :: as) + B ^ 2 * offd (y :: as) := rfl
      rw [e]
      simp only [value_cons] at hv ⊢
      rw [i1]
      linear_combination hv

/-! ### squaring: the doubling shift -/

theorem sqDoubleAux_spec : ∀ (xs : List Nat) (t : Nat), xs ≠ [] → WF xs → t ≤ 1 →
    value (sqDoubleAux xs t) = 2 * value xs.dropLast + t ∧ WF (sqDoubleAux xs t) ∧
    (sqDoubleAux xs t).length = xs.length := by
  intro xs
  induction xs with
  | nil => intro t h; exact absurd rfl h
  | cons x xs ih =>
    intro t _ hw ht
    have ⟨hx, hw'⟩ := WF_cons.mp hw
    cases xs with
    | nil =>
      simp only [sqDoubleAux, List.dropLast_singleton, value, List.length_cons, List.length_nil]
      exact ⟨by omega, WF_cons.mpr ⟨by have := B_eq; omega, WF_nil⟩, trivial⟩
    | cons y ys =>
      have hq : x / 2 ^ 63 ≤ 1 := by rw [B_eq] at hx; omega
      have ⟨i1, i2, i3⟩ := ih (x / 2 ^ 63) (by simp) hw' hq
      have e : sqDoubleAux (x :: y :: ys) t =
          ((x * 2) % B + t) :: sqDoubleAux (y :: ys) (x / 2 ^ 63) := rfl
      rw [e]
      refine ⟨?_, WF_cons.mpr ⟨by rw [B_eq]; omega, i2⟩, by rw [List.length_cons, i3]; rfl⟩
      rw [List.dropLast_cons_cons, value_cons, value_cons, i1]
      have hx2 : x * 2 % B + B * (x / 2 ^ 63) = 2 * x := by rw [B_eq]; omega
      generalize x * 2 % B = r at *
      generalize x / 2 ^ 63 = q at *
      generalize value (y :: ys).dropLast = v at *
      linear_combination hx2

theorem value_dropLast_of_lt : ∀ (xs : List Nat), value xs < B ^ (xs.length - 1) →
    value xs.dropLast = value xs := by
  intro xs h
  rcases List.eq_nil_or_concat xs with rfl | ⟨init, l, rfl⟩
  · rfl
  · rw [List.concat_eq_append] at h ⊢
    rw [List.dropLast_concat, value_snoc]
    rw [value_snoc] at h
    simp only [List.length_append, List.length_cons, List.length_nil, Nat.zero_add,
      Nat.add_sub_cancel] at h
    have hP : 0 < B ^ init.length := Nat.pow_pos B_pos
    cases l with
    | zero => simp
    | succ l =>
      exfalso
      have : B ^ init.length * 1 ≤ B ^ init.length * (l + 1) := Nat.mul_le_mul_left _ (by omega)
      omega

/-! ### squaring: the diagonal -/

/-- the carry leaving the last diagonal step of `sqDiag` -/
def sqDiagCarry : List Nat → List Nat → Nat → Nat
  | x :: as, r0 :: r1 :: rest, carry =>
    let t := r0 + x * x + carry
    let s := r1 + t / B
    sqDiagCarry as rest (s / B)
  | _, _, carry => carry

theorem sqDiag_spec : ∀ (as buf : List Nat) (c : Nat), buf.length = 2 * as.length → WF buf →
    value (sqDiag as buf c) + B ^ (2 * as.length) * sqDiagCarry as buf c
      = value buf + diag as + c ∧
    WF (sqDiag as buf c) ∧ (sqDiag as buf c).length = 2 * as.length := by
  intro as
  induction as with
  | nil =>
    intro buf c hl _
    have : buf = [] := List.eq_nil_of_length_eq_zero (by simpa using hl)
    subst this
    simp [sqDiag, sqDiagCarry, diag, value, WF]
  | cons x as ih =>
    intro buf c hl hw
    match buf, hl, hw with
    | r0 :: r1 :: rest, hl, hw =>
      have ⟨_, hw1⟩ := WF_cons.mp hw
      have ⟨_, hw2⟩ := WF_cons.mp hw1
      have hl' : rest.length = 2 * as.length := by simp only [List.length_cons] at hl; omega
      have ⟨i1, i2, i3⟩ := ih rest ((r1 + (r0 + x * x + c) / B) / B) hl' hw2
      simp only [sqDiag, sqDiagCarry, List.length_cons]
      refine ⟨?_, WF_cons.mpr ⟨Nat.mod_lt _ B_pos, WF_cons.mpr ⟨Nat.mod_lt _ B_pos, i2⟩⟩,
        by rw [i3]; omega⟩
      have hd1 := Nat.div_add_mod (r0 + x * x + c) B
      have hd2 := Nat.div_add_mod (r1 + (r0 + x * x + c) / B) B
      have e : B ^ (2 * (as.length + 1)) = B ^ 2 * B ^ (2 * as.length) := by
        rw [Nat.mul_add, pow_add]; ring
      rw [e]
      simp only [value_cons, diag]
      generalize (r0 + x * x + c) / B = q1 at *
      generalize (r0 + x * x + c) % B = m1 at *
      generalize (r1 + q1) / B = q2 at *
      generalize (r1 + q1) % B = m2 at *
      generalize sqDiagCarry as rest q2 = co at *
      generalize value (sqDiag as rest q2) = V at *
      generalize value rest = vr at *
      generalize diag as = d at *
      generalize B ^ (2 * as.length) = P at *
      linear_combination (B ^ 2) * i1 + hd1 + B * hd2

/-! ### squaring: the whole `2N`-limb buffer -/

/-- the buffer handed to `redcRows` by `squareCore` -/
def sqBuf (n : Nat) (a : List Nat) : List Nat :=
  sqDiag a (sqDouble (match zeros (2 * n) with
    | h :: t => h :: sqOffDiag a t
    | [] => [])) 0

theorem squareCore_eq_sqBuf (c : MontCfg) (a : List Nat) :
    squareCore c a = ((redcRows c c.n (sqBuf c.n a) 0).1, (redcRows c c.n (sqBuf c.n a) 0).2 != 0) :=
  rfl

/-- after `sqOffDiag`, `sqDouble`, `sqDiag` the buffer holds exactly `a²` -/
theorem sqBuf_spec {n : Nat} (a : List Nat) (hn : 0 < n) (ha : a.length = n) (hw : WF a) :
    value (sqBuf n a) = value a * value a ∧ WF (sqBuf n a) ∧ (sqBuf n a).length = 2 * n := by
  match a, ha, hw with
  | [], ha, _ => simp at ha; omega
  | x :: as, ha, hw =>
    have hn' : n = as.length + 1 := by simpa using ha.symm
    subst hn'
    have ez : zeros (2 * (as.length + 1)) =
        0 :: (List.replicate as.length 0 ++ List.replicate (as.length + 1) 0) := by
      unfold zeros
      rw [List.replicate_append_replicate, ← List.replicate_succ]; congr 1; omega
    unfold sqBuf
    rw [ez]
    simp only []
    obtain ⟨s1, s2, s3⟩ := sqOffDiag_spec as x (List.replicate as.length 0) (by simp) hw
      (WF_replicate_zero _)
    rw [value_replicate_zero, Nat.zero_add] at s1
    have hlt := offd_lt x as hw
    generalize sqOffDiag (x :: as) (List.replicate as.length 0 ++ List.replicate (as.length + 1) 0)
      = S at *
    have hS : S ≠ [] := by intro h; rw [h] at s3; simp at s3
    obtain ⟨d1, d2, d3⟩ := sqDoubleAux_spec S 0 hS s2 (by omega)
    have hdl : value S.dropLast = value S := by
      apply value_dropLast_of_lt
      rw [s3, s1]; simpa using hlt
    rw [hdl, s1, Nat.add_zero] at d1
    have e2 : sqDouble (0 :: S) = 0 :: sqDoubleAux S 0 := rfl
    rw [e2]
    have hw2 : WF (0 :: sqDoubleAux S 0) := WF_cons.mpr ⟨B_pos, d2⟩
    have hl2 : (0 :: sqDoubleAux S 0).length = 2 * (x :: as).length := by
      simp only [List.length_cons, d3, s3]; omega
    obtain ⟨g1, g2, g3⟩ := sqDiag_spec (x :: as) (0 :: sqDoubleAux S 0) 0 hl2 hw2
    rw [value_cons, d1, Nat.zero_add, Nat.add_zero] at g1
    have hsq := sq_eq_diag_offd (x :: as)
    have hva := value_lt (x :: as) hw
    have hlt2 : value (x :: as) * value (x :: as) < B ^ (2 * (x :: as).length) := by
      rw [two_mul, pow_add]
      exact Nat.mul_lt_mul'' hva hva
    refine ⟨?_, g2, by rw [g3]; simp⟩
    generalize sqDiag (x :: as) (0 :: sqDoubleAux S 0) 0 = R3 at *
    generalize sqDiagCarry (x :: as) (0 :: sqDoubleAux S 0) 0 = co at *
    have hco : co = 0 := by
      cases co with
      | zero => rfl
      | succ k =>
        exfalso
        have : B ^ (2 * (x :: as).length) * 1 ≤ B ^ (2 * (x :: as).length) * (k + 1) :=
          Nat.mul_le_mul_left _ (by omega)
        have e3 : B * (2 * offd (x :: as)) = 2 * B * offd (x :: as) := by ring
        omega
    rw [hco, Nat.mul_zero, Nat.add_zero] at g1
    rw [g1, hsq]; ring

/-- the three stages separately: off-diagonal sum (top limb still zero), doubling (nothing lost),
    and the shape of the buffer handed to `sqDiag` -/
theorem sq_stages {n : Nat} (a : List Nat) (hn : 0 < n) (ha : a.length = n) (hw : WF a) :
    (value (sqOffDiag a (zeros (2 * n - 1))) = offd a ∧ WF (sqOffDiag a (zeros (2 * n - 1))) ∧
      (sqOffDiag a (zeros (2 * n - 1))).length = 2 * n - 1 ∧
      value (sqOffDiag a (zeros (2 * n - 1))) < B ^ (2 * n - 2)) ∧
    (value (sqDouble (0 :: sqOffDiag a (zeros (2 * n - 1)))) = 2 * (B * offd a) ∧
      WF (sqDouble (0 :: sqOffDiag a (zeros (2 * n - 1)))) ∧
      (sqDouble (0 :: sqOffDiag a (zeros (2 * n - 1)))).length = 2 * n) ∧
    sqBuf n a = sqDiag a (sqDouble (0 :: sqOffDiag a (zeros (2 * n - 1)))) 0 := by
  match a, ha, hw with
  | [], ha, _ => simp at ha; omega
  | x :: as, ha, hw =>
    have hn' : n = as.length + 1 := by simpa using ha.symm
    subst hn'
    have ez1 : zeros (2 * (as.length + 1) - 1) =
        List.replicate as.length 0 ++ List.replicate (as.length + 1) 0 := by
      unfold zeros
      rw [List.replicate_append_replicate]; congr 1; omega
    have ez : zeros (2 * (as.length + 1)) = 0 :: zeros (2 * (as.length + 1) - 1) := by
      unfold zeros
      rw [← List.replicate_succ]; congr 1
    have eb : sqBuf (as.length + 1) (x :: as) =
        sqDiag (x :: as) (sqDouble (0 :: sqOffDiag (x :: as) (zeros (2 * (as.length + 1) - 1)))) 0 := by
      unfold sqBuf; rw [ez]
    refine ⟨?_, ?_, eb⟩ <;> rw [ez1]
    all_goals
      obtain ⟨s1, s2, s3⟩ := sqOffDiag_spec as x (List.replicate as.length 0) (by simp) hw
        (WF_replicate_zero _)
      rw [value_replicate_zero, Nat.zero_add] at s1
      have hlt := offd_lt x as hw
      have e22 : 2 * (as.length + 1) - 2 = 2 * as.length := by omega
    · exact ⟨s1, s2, by rw [s3]; omega, by rw [s1, e22]; exact hlt⟩
    · generalize sqOffDiag (x :: as)
        (List.replicate as.length 0 ++ List.replicate (as.length + 1) 0) = S at *
      have hS : S ≠ [] := by intro h; rw [h] at s3; simp at s3
      obtain ⟨d1, d2, d3⟩ := sqDoubleAux_spec S 0 hS s2 (by omega)
      have hdl : value S.dropLast = value S := by
        apply value_dropLast_of_lt
        rw [s3, s1]; simpa using hlt
      rw [hdl, s1, Nat.add_zero] at d1
      have e2 : sqDouble (0 :: S) = 0 :: sqDoubleAux S 0 := rfl
      rw [e2]
      refine ⟨?_, WF_cons.mpr ⟨B_pos, d2⟩, by simp only [List.length_cons, d3, s3]; omega⟩
      rw [value_cons, d1]; ring

theorem squareCore_eq_mulCIOS {c : MontCfg} {pv : Nat} (h : CfgOK c pv) {a : List Nat}
    (ha : Limbs c a) : squareCore c a = mulCIOS c a a := by
  obtain ⟨s1, s2, s3⟩ := sqBuf_spec a h.n_pos ha.len ha.wf
  obtain ⟨b1, b2, b3⟩ := mulCIOS_buf a a ha.len ha.len ha.wf ha.wf
  have e : sqBuf c.n a = mulRows a a (zeros (2 * c.n)) :=
    value_inj _ _ s2 b2 (by rw [s3, b3]) (by rw [s1, b1])
  rw [squareCore_eq_sqBuf, e]; rfl

/-- `mulCIOS` on arbitrary `N`-limb operands whose product is below `R·p` -/
theorem mulCIOS_spec_gen {c : MontCfg} {pv : Nat} (h : CfgOK c pv) {a b : List Nat}
    (ha : Limbs c a) (hb : Limbs c b) (hab : value a * value b < B ^ c.n * pv) :
    Limbs c (mulCIOS c a b).1 ∧
    value (mulCIOS c a b).1 + (if (mulCIOS c a b).2 then B ^ c.n else 0) < 2 * pv ∧
    ∃ m, m < B ^ c.n ∧
      (value (mulCIOS c a b).1 + (if (mulCIOS c a b).2 then B ^ c.n else 0)) * B ^ c.n
        = value a * value b + m * pv := by
  have ⟨b1, b2, b3⟩ := mulCIOS_buf a b ha.len hb.len ha.wf hb.wf
  have ⟨r1, r2, r3, m, hm, r4⟩ := redc_spec h _ b3 b2
  rw [b1] at r4
  have e1 : (mulCIOS c a b).1 = (redcRows c c.n (mulRows a b (zeros (2 * c.n))) 0).1 := rfl
  have e2 : (mulCIOS c a b).2 = ((redcRows c c.n (mulRows a b (zeros (2 * c.n))) 0).2 != 0) := rfl
  rw [e1, e2]
  generalize redcRows c c.n (mulRows a b (zeros (2 * c.n))) 0 = r at *
  have hif : (if (r.2 != 0) = true then B ^ c.n else 0) = B ^ c.n * r.2 := by
    rcases Nat.le_one_iff_eq_zero_or_eq_one.mp r3 with h0 | h1
    · simp [h0]
    · simp [h1]
  rw [hif]
  exact ⟨⟨r1, r2⟩, redc_bound hm hab r4, m, hm, r4⟩

/-- every branch of `Mont.square` -/
theorem square_spec {c : MontCfg} {pv : Nat} (h : CfgOK c pv) {a : List Nat} (ha : Elem c pv a) :
    Elem c pv (square c a) ∧
    (value (square c a) * B ^ c.n) % pv = (value a * value a) % pv := by
  unfold square
  by_cases h1 : (c.n == 1) = true
  · rw [if_pos h1]; exact montMul_spec h ha ha.limbs
  · rw [if_neg h1]
    simp only []
    rw [squareCore_eq_mulCIOS h ha.limbs]
    obtain ⟨s1, s2, m, _, s3⟩ := mulCIOS_spec h ha ha.limbs
    have key := finalSub_spec h s1 _ s2 (X := (value a * value a) % pv)
      (by rw [s3, Nat.add_mul_mod_self_right])
    by_cases hd : c.derived = true
    · rw [if_pos hd]
      by_cases hb : 2 ≤ c.n ∧ c.n ≤ 6 ∧ c.noCarry = true
      · rw [if_pos hb]
        rw [if_pos (h.noCarry_spare hb.2.2)] at key
        exact key
      · rw [if_neg hb]; exact key
    · rw [if_neg hd]; exact key

theorem square_eq_mul {c : MontCfg} {pv : Nat} (h : CfgOK c pv) {a : List Nat} (ha : Elem c pv a) :
    square c a = Mont.mul c a a := by
  obtain ⟨e1, e2⟩ := square_spec h ha
  obtain ⟨f1, f2⟩ := montMul_spec h ha ha.limbs
  apply value_inj _ _ e1.wf f1.wf (by rw [e1.len, f1.len])
  exact mont_unique (coprime_R h.p_odd c.n) e1.lt f1.lt e2 f2

/-! ### `intoBigint` -/

/-- one rotating reduction row divides by `2^64` exactly -/
theorem intoRow_spec {c : MontCfg} {pv : Nat} (h : CfgOK c pv) {r : List Nat} (hr : Limbs c r) :
    Limbs c (intoRow c r) ∧ ∃ k, k < B ∧ value (intoRow c r) * B = value r + k * pv := by
  obtain ⟨p0, ps, hp, hinv⟩ := cfg_p_cons h
  have ⟨hp0, hps⟩ := WF_cons.mp (hp ▸ h.p_wf)
  have hpl : ps.length + 1 = c.n := by have := h.p_len; rw [hp] at this; simpa using this
  have hpv : p0 + B * value ps = pv := by have := h.p_val; rw [hp, value_cons] at this; exact this
  match r, hr with
  | [], hr => have := hr.len; simp at this; omega
  | r0 :: rest, hr =>
    have ⟨hr0, hrest⟩ := WF_cons.mp hr.wf
    have hrl : rest.length = ps.length := by have := hr.len; simp at this; omega
    have hun : intoRow c (r0 :: rest) =
        (macRow rest (r0 * c.inv % B) ps ((r0 + r0 * c.inv % B * p0) / B)).1 ++
          [(macRow rest (r0 * c.inv % B) ps ((r0 + r0 * c.inv % B * p0) / B)).2] := by
      simp only [intoRow, hp]
    rw [hun]
    have hk : r0 * c.inv % B < B := Nat.mod_lt _ B_pos
    have hdvd : (r0 + r0 * c.inv % B * p0) % B = 0 := redc_dvd hinv
    generalize r0 * c.inv % B = k at *
    have hcl := redc_carry_lt hr0 hk hp0
    have hdm := Nat.div_add_mod (r0 + k * p0) B
    rw [hdvd, Nat.add_zero] at hdm
    generalize (r0 + k * p0) / B = carry at *
    have hq := macRow_spec rest k ps carry hrl
    have hql := macRow_length rest k ps carry hrl
    have hqw := macRow_wf rest k ps carry
    have hqc := macRow_carry_lt rest k ps carry hrest hk hps hcl
    generalize macRow rest k ps carry = q at *
    refine ⟨⟨by simp [hql, hrl, hpl], WF_append.mpr ⟨hqw, WF_cons.mpr ⟨hqc, WF_nil⟩⟩⟩, k, hk, ?_⟩
    rw [value_snoc, hql, value_cons, ← hpv]
    generalize value q.1 = vq at *
    generalize q.2 = q2 at *
    generalize value rest = vr at *
    generalize value ps = vps at *
    generalize B ^ rest.length = P at *
    linear_combination B * hq + hdm

theorem intoIter_spec {c : MontCfg} {pv : Nat} (h : CfgOK c pv) :
    ∀ (k : Nat) (r : List Nat), Limbs c r →
      Limbs c (iter (intoRow c) k r) ∧
      ∃ m, m < B ^ k ∧ value (iter (intoRow c) k r) * B ^ k = value r + m * pv := by
  intro k
  induction k with
  | zero => intro r hr; exact ⟨hr, 0, by simp, by simp [iter]⟩
  | succ k ih =>
    intro r hr
    obtain ⟨r1, k0, hk0, r2⟩ := intoRow_spec h hr
    obtain ⟨i1, m, hm, i2⟩ := ih (intoRow c r) r1
    refine ⟨i1, k0 + B * m, ?_, ?_⟩
    · rw [pow_succ]
      have : B * (m + 1) ≤ B * B ^ k := Nat.mul_le_mul_left B hm
      nlinarith
    · show value (iter (intoRow c) k (intoRow c r)) * B ^ (k + 1) = _
      rw [pow_succ]
      generalize value (iter (intoRow c) k (intoRow c r)) = V at *
      generalize value (intoRow c r) = V1 at *
      generalize B ^ k = P at *
      linear_combination B * i2 + r2

/-- `into_bigint` needs no final subtraction: for `a < p` the result is already `< p` -/
theorem intoBigint_spec {c : MontCfg} {pv : Nat} (h : CfgOK c pv) {a : List Nat}
    (ha : Elem c pv a) :
    Limbs c (intoBigint c a) ∧ value (intoBigint c a) < pv ∧
    (value (intoBigint c a) * B ^ c.n) % pv = value a % pv := by
  obtain ⟨i1, m, hm, i2⟩ := intoIter_spec h c.n a ha.limbs
  unfold intoBigint
  refine ⟨i1, ?_, by rw [i2, Nat.add_mul_mod_self_right]⟩
  have hlt := ha.lt
  have hR : 0 < B ^ c.n := Nat.pow_pos B_pos
  generalize value (iter (intoRow c) c.n a) = t at *
  generalize B ^ c.n = R at *
  have h1 : (m + 1) * pv ≤ R * pv := Nat.mul_le_mul_right _ hm
  have h2 : t * R < pv * R := by nlinarith
  exact Nat.lt_of_mul_lt_mul_right h2

/-! ### `fromBigint`, `fpNew` -/

theorem cfg_r2_elem {c : MontCfg} {pv : Nat} (h : CfgOK c pv) : Elem c pv c.r2 :=
  ⟨h.r2_len, h.r2_wf, by rw [h.r2_val]; exact Nat.mod_lt _ (by have := h.p_gt; omega)⟩

/-- the Montgomery form `x·R mod p` is the unique residue `y < p` with `y·R ≡ x·R2` -/
theorem to_mont_unique {c : MontCfg} {pv : Nat} (h : CfgOK c pv) {x y : Nat} (hy : y < pv)
    (he : (y * B ^ c.n) % pv = (x * value c.r2) % pv) : y = (x * B ^ c.n) % pv := by
  have hp : 0 < pv := by have := h.p_gt; omega
  apply mont_unique (coprime_R h.p_odd c.n) hy (Nat.mod_lt _ hp) he
  rw [h.r2_val]
  have e1 : (x * B ^ c.n) % pv * B ^ c.n ≡ x * B ^ c.n * B ^ c.n [MOD pv] :=
    (Nat.mod_modEq _ _).mul_right _
  have e2 : x * (B ^ c.n * B ^ c.n % pv) ≡ x * (B ^ c.n * B ^ c.n) [MOD pv] :=
    (Nat.mod_modEq _ _).mul_left _
  rw [Nat.mul_assoc] at e1
  exact e1.trans e2.symm

theorem isZero_false_of_ne {a : List Nat} (h : value a ≠ 0) : isZero a = false := by
  cases hz : isZero a with
  | false => rfl
  | true => exact absurd ((isZero_iff a).mp hz) h

theorem fromBigint_none {c : MontCfg} {pv : Nat} (h : CfgOK c pv) {x : List Nat} (hx : Limbs c x)
    (hge : pv ≤ value x) : fromBigint c x = none := by
  have hp := h.p_gt
  have hz : isZero x = false := isZero_false_of_ne (by omega)
  have hg : geq x c.p = true :=
    (geq_iff_value_le (by rw [hx.len, h.p_len]) hx.wf h.p_wf).mpr (by rw [h.p_val]; exact hge)
  simp [fromBigint, hz, hg]

theorem fromBigint_some {c : MontCfg} {pv : Nat} (h : CfgOK c pv) {x : List Nat} (hx : Limbs c x)
    (hlt : value x < pv) :
    ∃ r, fromBigint c x = some r ∧ Elem c pv r ∧ value r = (value x * B ^ c.n) % pv := by
  have hp := h.p_gt
  by_cases hz : isZero x = true
  · refine ⟨x, by simp [fromBigint, hz], ⟨hx.len, hx.wf, hlt⟩, ?_⟩
    rw [(isZero_iff x).mp hz]; simp
  · have hz' : isZero x = false := by simpa using hz
    have hg : geq x c.p = false := by
      cases hgg : geq x c.p with
      | false => rfl
      | true =>
        have := (geq_iff_value_le (by rw [hx.len, h.p_len]) hx.wf h.p_wf).mp hgg
        rw [h.p_val] at this; omega
    have hxe : Elem c pv x := ⟨hx.len, hx.wf, hlt⟩
    obtain ⟨m1, m2⟩ := montMul_spec h hxe (cfg_r2_elem h).limbs
    exact ⟨Mont.mul c x c.r2, by simp [fromBigint, hz', hg], m1, to_mont_unique h m1.lt m2⟩

/-- cancelling `R` : the integer recovered by `intoBigint` from the Montgomery form -/
theorem from_mont_unique {c : MontCfg} {pv : Nat} (h : CfgOK c pv) {x t : Nat} (hx : x < pv)
    (ht : t < pv) (he : (t * B ^ c.n) % pv = ((x * B ^ c.n) % pv) % pv) : t = x := by
  rw [Nat.mod_mod] at he
  exact mont_unique (coprime_R h.p_odd c.n) ht hx he rfl

theorem fpNew_spec {c : MontCfg} {pv : Nat} (h : CfgOK c pv) {x : List Nat} (hx : Limbs c x) :
    Elem c pv (fpNew c x) ∧ value (fpNew c x) = (value x * B ^ c.n) % pv := by
  have hp := h.p_gt
  unfold fpNew
  by_cases hz : isZero x = true
  · rw [if_pos hz]
    have hv := (isZero_iff x).mp hz
    exact ⟨⟨hx.len, hx.wf, by omega⟩, by rw [hv]; simp⟩
  · rw [if_neg hz]
    have hr2 := cfg_r2_elem h
    have hab : value x * value c.r2 < B ^ c.n * pv := by
      have h1 := hx.lt
      have h2 := hr2.lt
      exact Nat.mul_lt_mul'' h1 h2
    obtain ⟨s1, s2, m, _, s3⟩ := mulCIOS_spec_gen h hx hr2.limbs hab
    have key := finalSub_spec h s1 _ s2 (X := (value x * value c.r2) % pv)
      (by rw [s3, Nat.add_mul_mod_self_right])
    have e : constMul c x c.r2 =
        if c.spare then subtractModulus c (mulCIOS c x c.r2).1
        else subtractModulusWithCarry c (mulCIOS c x c.r2).1 (mulCIOS c x c.r2).2 := rfl
    rw [e]
    exact ⟨key.1, to_mont_unique h key.1.lt key.2⟩

/-! ### `sumOfProducts`: the reduction step -/

/-- the shared reduction step: `temp` (N limbs) plus the true top carry word `C`; if the quotient
    fits `N` limbs the wrapping top store `(C + carry2) mod 2^64` is exact -/
theorem sopReduce_spec {c : MontCfg} {pv : Nat} (h : CfgOK c pv) {temp : List Nat}
    (ht : Limbs c temp) (C : Nat) (top : Nat → Nat) (htop : ∀ q2, top q2 = (C + q2) % B)
    (hb : ∀ k, k < B → value temp + B ^ c.n * C + k * pv < B * B ^ c.n) :
    Limbs c (sopReduce c temp top) ∧
    ∃ k, k < B ∧ value (sopReduce c temp top) * B = value temp + B ^ c.n * C + k * pv := by
  obtain ⟨p0, ps, hp, hinv⟩ := cfg_p_cons h
  have ⟨hp0, hps⟩ := WF_cons.mp (hp ▸ h.p_wf)
  have hpl : ps.length + 1 = c.n := by have := h.p_len; rw [hp] at this; simpa using this
  have hpv : p0 + B * value ps = pv := by have := h.p_val; rw [hp, value_cons] at this; exact this
  match temp, ht with
  | [], ht => have := ht.len; simp at this; omega
  | t0 :: ts, ht =>
    have ⟨ht0, hts⟩ := WF_cons.mp ht.wf
    have hrl : ts.length = ps.length := by have := ht.len; simp at this; omega
    have hun : sopReduce c (t0 :: ts) top =
        (macRow ts (t0 * c.inv % B) ps ((t0 + t0 * c.inv % B * p0) / B)).1 ++
          [top (macRow ts (t0 * c.inv % B) ps ((t0 + t0 * c.inv % B * p0) / B)).2] := by
      simp only [sopReduce, hp]
    rw [hun]
    have hk : t0 * c.inv % B < B := Nat.mod_lt _ B_pos
    have hdvd : (t0 + t0 * c.inv % B * p0) % B = 0 := redc_dvd hinv
    have hbk := hb _ hk
    generalize t0 * c.inv % B = k at *
    have hdm := Nat.div_add_mod (t0 + k * p0) B
    rw [hdvd, Nat.add_zero] at hdm
    generalize (t0 + k * p0) / B = carry at *
    have hq := macRow_spec ts k ps carry hrl
    have hql := macRow_length ts k ps carry hrl
    have hqw := macRow_wf ts k ps carry
    generalize macRow ts k ps carry = q at *
    rw [htop]
    rw [← hpl, ← hrl, pow_succ, value_cons, ← hpv] at hbk
    have hP : 0 < B ^ ts.length := Nat.pow_pos B_pos
    -- the exact quotient
    have hex : B * (value q.1 + B ^ ts.length * (C + q.2)) =
        t0 + B * value ts + B ^ ts.length * B * C + k * (p0 + B * value ps) := by
      generalize value q.1 = vq at *
      generalize q.2 = q2 at *
      generalize value ts = vr at *
      generalize value ps = vps at *
      generalize B ^ ts.length = P at *
      linear_combination B * hq + hdm
    have hfit : C + q.2 < B := by
      by_contra hn
      have h1 : B ^ ts.length * B ≤ B ^ ts.length * (C + q.2) := Nat.mul_le_mul_left _ (by omega)
      have h2 : B * (B ^ ts.length * B) ≤ B * (value q.1 + B ^ ts.length * (C + q.2)) :=
        Nat.mul_le_mul_left _ (by omega)
      rw [hex] at h2
      omega
    rw [Nat.mod_eq_of_lt hfit]
    refine ⟨⟨by simp [hql, hrl, hpl], WF_append.mpr ⟨hqw, WF_cons.mpr ⟨hfit, WF_nil⟩⟩⟩, k, hk, ?_⟩
    rw [value_snoc, hql, value_cons, ← hpv, ← hpl, ← hrl, pow_succ]
    linear_combination hex

/-! ### `sumOfProducts`: sums over the list of pairs -/

/-- `Σ_i w(a_i) · value b_i` over a list of pairs -/
def sumW (w : List Nat → Nat) (l : List (List Nat × List Nat)) : Nat :=
  (l.map (fun ab => w ab.1 * value ab.2)).sum

/-- `Σ_i value a_i · value b_i` -/
def dot (as bs : List (List Nat)) : Nat := sumW value (as.zip bs)

theorem sumW_nil (w : List Nat → Nat) : sumW w [] = 0 := rfl
theorem sumW_cons (w : List Nat → Nat) (ab : List Nat × List Nat) (l : List (List Nat × List Nat)) :
    sumW w (ab :: l) = w ab.1 * value ab.2 + sumW w l := by
  simp [sumW]

theorem sumW_append (w : List Nat → Nat) (l1 l2 : List (List Nat × List Nat)) :
    sumW w (l1 ++ l2) = sumW w l1 + sumW w l2 := by
  simp [sumW]

theorem sumW_congr {w w' : List Nat → Nat} {l : List (List Nat × List Nat)}
    (h : ∀ ab ∈ l, w ab.1 = w' ab.1) : sumW w l = sumW w' l := by
  induction l with
  | nil => rfl
  | cons ab l ih =>
    rw [sumW_cons, sumW_cons, h ab (by simp), ih (fun x hx => h x (by simp [hx]))]

theorem sumW_add_mul (f g : List Nat → Nat) (l : List (List Nat × List Nat)) :
    sumW (fun a => f a + B * g a) l = sumW f l + B * sumW g l := by
  induction l with
  | nil => simp [sumW_nil]
  | cons ab l ih => rw [sumW_cons, sumW_cons, sumW_cons, ih]; ring

theorem wf_getD_lt {a : List Nat} (ha : WF a) (j : Nat) : a.getD j 0 < B := by
  rw [List.getD_eq_getElem?_getD]
  cases hj : a[j]? with
  | none => exact B_pos
  | some v => exact ha v (List.mem_of_getElem? hj)

/-- all pairs are field elements -/
def PairsOK (c : MontCfg) (pv : Nat) (l : List (List Nat × List Nat)) : Prop :=
  ∀ ab ∈ l, Elem c pv ab.1 ∧ Elem c pv ab.2

theorem sumW_digit_bound {c : MontCfg} {pv : Nat} {l : List (List Nat × List Nat)}
    (hl : PairsOK c pv l) (j : Nat) :
    sumW (fun a => a.getD j 0) l + l.length * pv ≤ l.length * (B * pv) := by
  induction l with
  | nil => simp [sumW_nil]
  | cons ab l ih =>
    have ih := ih (fun x hx => hl x (by simp [hx]))
    have ⟨h1, h2⟩ := hl ab (by simp)
    have hd := wf_getD_lt h1.wf j
    have hv := h2.lt
    rw [sumW_cons, List.length_cons]
    generalize ab.1.getD j 0 = x at *
    generalize value ab.2 = v at *
    have hB := B_pos
    generalize B = Bv at *
    obtain ⟨b, rfl⟩ : ∃ b, Bv = b + 1 := ⟨Bv - 1, by omega⟩
    have : x * v ≤ b * pv := Nat.mul_le_mul (by omega) (by omega)
    nlinarith

theorem sumW_value_bound {c : MontCfg} {pv : Nat} {l : List (List Nat × List Nat)}
    (hl : PairsOK c pv l) : sumW value l ≤ l.length * (pv * pv) := by
  induction l with
  | nil => simp [sumW_nil]
  | cons ab l ih =>
    have ih := ih (fun x hx => hl x (by simp [hx]))
    have ⟨h1, h2⟩ := hl ab (by simp)
    rw [sumW_cons, List.length_cons]
    have : value ab.1 * value ab.2 ≤ pv * pv := Nat.mul_le_mul (by have := h1.lt; omega) (by have := h2.lt; omega)
    nlinarith

/-! ### `sumOfProducts`: the interleaved variants -/

/-- inner accumulation of the single-carry-word variant (`sopInterleaved1`) -/
def inner1 (j : Nat) (st : List Nat × Nat) (ab : List Nat × List Nat) : List Nat × Nat :=
  ((sopAccum st.1 (ab.1.getD j 0) ab.2).1, (st.2 + (sopAccum st.1 (ab.1.getD j 0) ab.2).2) % B)

def step1 (c : MontCfg) (l : List (List Nat × List Nat)) (result : List Nat) (j : Nat) : List Nat :=
  sopReduce c (l.foldl (inner1 j) (result, 0)).1
    (fun carry2 => ((l.foldl (inner1 j) (result, 0)).2 + carry2) % B)

theorem sopInterleaved1_eq (c : MontCfg) (as bs : List (List Nat)) :
    sopInterleaved1 c as bs = (List.range c.n).foldl (step1 c (as.zip bs)) (zeros c.n) := rfl

/-- inner accumulation of the two-carry-word variant (`sopInterleavedAB`) -/
def innerAB (j : Nat) (st : List Nat × Nat × Nat) (ab : List Nat × List Nat) :
    List Nat × Nat × Nat :=
  ((sopAccum st.1 (ab.1.getD j 0) ab.2).1,
   (st.2.1 + st.2.2 + (sopAccum st.1 (ab.1.getD j 0) ab.2).2) % B,
   (st.2.1 + st.2.2 + (sopAccum st.1 (ab.1.getD j 0) ab.2).2) / B)

def stepAB (c : MontCfg) (l : List (List Nat × List Nat)) (result : List Nat) (j : Nat) : List Nat :=
  sopReduce c (l.foldl (innerAB j) (result, 0, 0)).1
    (fun carry2 => ((l.foldl (innerAB j) (result, 0, 0)).2.1 +
      (l.foldl (innerAB j) (result, 0, 0)).2.2 + carry2) % B)

theorem sopInterleavedAB_eq (c : MontCfg) (as bs : List (List Nat)) :
    sopInterleavedAB c as bs = (List.range c.n).foldl (stepAB c (as.zip bs)) (zeros c.n) := rfl

/-- as long as the exact accumulated value fits `N+1` limbs the wrapping carry word is exact -/
theorem inner1_spec {c : MontCfg} {pv : Nat} (j : Nat) :
    ∀ (l : List (List Nat × List Nat)) (tmp : List Nat) (carry : Nat), PairsOK c pv l →
      Limbs c tmp →
      value tmp + B ^ c.n * carry + sumW (fun a => a.getD j 0) l < B * B ^ c.n →
      Limbs c (l.foldl (inner1 j) (tmp, carry)).1 ∧
      value (l.foldl (inner1 j) (tmp, carry)).1 + B ^ c.n * (l.foldl (inner1 j) (tmp, carry)).2
        = value tmp + B ^ c.n * carry + sumW (fun a => a.getD j 0) l := by
  intro l
  induction l with
  | nil => intro tmp carry _ ht _; simp [sumW_nil, ht]
  | cons ab l ih =>
    intro tmp carry hl ht hb
    have ⟨_, h2⟩ := hl ab (by simp)
    have hlen : tmp.length = ab.2.length := by rw [ht.len, h2.len]
    have hq := macRow_spec tmp (ab.1.getD j 0) ab.2 0 hlen
    have hql := macRow_length tmp (ab.1.getD j 0) ab.2 0 hlen
    have hqw := macRow_wf tmp (ab.1.getD j 0) ab.2 0
    rw [sumW_cons] at hb ⊢
    rw [ht.len] at hq
    simp only [List.foldl_cons, inner1, sopAccum]
    generalize macRow tmp (ab.1.getD j 0) ab.2 0 = q at *
    have hfit : carry + q.2 < B := by
      by_contra hn
      have : B ^ c.n * B ≤ B ^ c.n * (carry + q.2) := Nat.mul_le_mul_left _ (by omega)
      have e : B ^ c.n * (carry + q.2) = B ^ c.n * carry + B ^ c.n * q.2 := by ring
      have e2 : B * B ^ c.n = B ^ c.n * B := by ring
      omega
    rw [Nat.mod_eq_of_lt hfit]
    have e : B ^ c.n * (carry + q.2) = B ^ c.n * carry + B ^ c.n * q.2 := by ring
    obtain ⟨i1, i2⟩ := ih q.1 (carry + q.2) (fun x hx => hl x (by simp [hx]))
      ⟨by rw [hql, ht.len], hqw⟩ (by omega)
    exact ⟨i1, by omega⟩

theorem innerAB_spec {c : MontCfg} {pv : Nat} (j : Nat) :
    ∀ (l : List (List Nat × List Nat)) (tmp : List Nat) (ca : Nat), PairsOK c pv l →
      Limbs c tmp →
      value tmp + B ^ c.n * ca + sumW (fun a => a.getD j 0) l < B * B ^ c.n →
      Limbs c (l.foldl (innerAB j) (tmp, ca, 0)).1 ∧
      (l.foldl (innerAB j) (tmp, ca, 0)).2.2 = 0 ∧
      value (l.foldl (innerAB j) (tmp, ca, 0)).1 + B ^ c.n * (l.foldl (innerAB j) (tmp, ca, 0)).2.1
        = value tmp + B ^ c.n * ca + sumW (fun a => a.getD j 0) l := by
  intro l
  induction l with
  | nil => intro tmp carry _ ht _; simp [sumW_nil, ht]
  | cons ab l ih =>
    intro tmp carry hl ht hb
    have ⟨_, h2⟩ := hl ab (by simp)
    have hlen : tmp.length = ab.2.length := by rw [ht.len, h2.len]
    have hq := macRow_spec tmp (ab.1.getD j 0) ab.2 0 hlen
    have hql := macRow_length tmp (ab.1.getD j 0) ab.2 0 hlen
    have hqw := macRow_wf tmp (ab.1.getD j 0) ab.2 0
    rw [sumW_cons] at hb ⊢
    rw [ht.len] at hq
    simp only [List.foldl_cons, innerAB, sopAccum, Nat.add_zero]
    generalize macRow tmp (ab.1.getD j 0) ab.2 0 = q at *
    have hfit : carry + q.2 < B := by
      by_contra hn
      have : B ^ c.n * B ≤ B ^ c.n * (carry + q.2) := Nat.mul_le_mul_left _ (by omega)
      have e : B ^ c.n * (carry + q.2) = B ^ c.n * carry + B ^ c.n * q.2 := by ring
      have e2 : B * B ^ c.n = B ^ c.n * B := by ring
      omega
    rw [Nat.mod_eq_of_lt hfit, Nat.div_eq_of_lt hfit]
    have e : B ^ c.n * (carry + q.2) = B ^ c.n * carry + B ^ c.n * q.2 := by ring
    obtain ⟨i1, i2, i3⟩ := ih q.1 (carry + q.2) (fun x hx => hl x (by simp [hx]))
      ⟨by rw [hql, ht.len], hqw⟩ (by omega)
    exact ⟨i1, i2, by omega⟩

/-- the bound that keeps everything exact: `(M+1)·p ≤ R` -/
theorem sop_step_bounds {pv R r S M k Bv : Nat} (hB : 0 < Bv) (hr : r < (M + 1) * pv)
    (hS : S + M * pv ≤ M * (Bv * pv)) (hk : k < Bv) (hM : (M + 1) * pv ≤ R) :
    r + S + k * pv < Bv * ((M + 1) * pv) ∧ r + S + k * pv < Bv * R := by
  obtain ⟨b, rfl⟩ : ∃ b, Bv = b + 1 := ⟨Bv - 1, by omega⟩
  have h1 : k * pv ≤ b * pv := Nat.mul_le_mul_right _ (by omega)
  have h2 : (b + 1) * ((M + 1) * pv) ≤ (b + 1) * R := Nat.mul_le_mul_left _ hM
  constructor <;> nlinarith

/-- one outer step of either interleaved variant, abstractly -/
theorem sop_step_core {c : MontCfg} {pv : Nat} (h : CfgOK c pv) {l : List (List Nat × List Nat)}
    (hl : PairsOK c pv l) (hM : (l.length + 1) * pv ≤ B ^ c.n) {result : List Nat}
    (hrv : value result < (l.length + 1) * pv) (j : Nat)
    {temp : List Nat} {C : Nat} {top : Nat → Nat} (htemp : Limbs c temp)
    (hacc : value temp + B ^ c.n * C = value result + sumW (fun a => a.getD j 0) l)
    (htop : ∀ q2, top q2 = (C + q2) % B) :
    Limbs c (sopReduce c temp top) ∧ value (sopReduce c temp top) < (l.length + 1) * pv ∧
    ∃ k, k < B ∧ value (sopReduce c temp top) * B
      = value result + sumW (fun a => a.getD j 0) l + k * pv := by
  have hS := sumW_digit_bound hl j
  obtain ⟨r1, k, hk, r2⟩ := sopReduce_spec h htemp C top htop (by
    intro k hk
    rw [hacc]
    exact (sop_step_bounds B_pos hrv hS hk hM).2)
  rw [hacc] at r2
  refine ⟨r1, ?_, k, hk, r2⟩
  have := (sop_step_bounds B_pos hrv hS hk hM).1
  rw [← r2, Nat.mul_comm] at this
  exact Nat.lt_of_mul_lt_mul_left this

theorem sop_acc_bound {c : MontCfg} {pv : Nat} {l : List (List Nat × List Nat)}
    (hl : PairsOK c pv l) (hM : (l.length + 1) * pv ≤ B ^ c.n) {result : List Nat}
    (hrv : value result < (l.length + 1) * pv) (j : Nat) :
    value result + B ^ c.n * 0 + sumW (fun a => a.getD j 0) l < B * B ^ c.n := by
  have hS := sumW_digit_bound hl j
  have := (sop_step_bounds (k := 0) B_pos hrv hS B_pos hM).2
  omega

theorem step1_spec {c : MontCfg} {pv : Nat} (h : CfgOK c pv) {l : List (List Nat × List Nat)}
    (hl : PairsOK c pv l) (hM : (l.length + 1) * pv ≤ B ^ c.n) {result : List Nat}
    (hr : Limbs c result) (hrv : value result < (l.length + 1) * pv) (j : Nat) :
    Limbs c (step1 c l result j) ∧ value (step1 c l result j) < (l.length + 1) * pv ∧
    ∃ k, k < B ∧ value (step1 c l result j) * B
      = value result + sumW (fun a => a.getD j 0) l + k * pv := by
  obtain ⟨a1, a2⟩ := inner1_spec j l result 0 hl hr (sop_acc_bound hl hM hrv j)
  rw [Nat.mul_zero, Nat.add_zero] at a2
  exact sop_step_core h hl hM hrv j a1 a2 (fun _ => rfl)

theorem stepAB_spec {c : MontCfg} {pv : Nat} (h : CfgOK c pv) {l : List (List Nat × List Nat)}
    (hl : PairsOK c pv l) (hM : (l.length + 1) * pv ≤ B ^ c.n) {result : List Nat}
    (hr : Limbs c result) (hrv : value result < (l.length + 1) * pv) (j : Nat) :
    Limbs c (stepAB c l result j) ∧ value (stepAB c l result j) < (l.length + 1) * pv ∧
    ∃ k, k < B ∧ value (stepAB c l result j) * B
      = value result + sumW (fun a => a.getD j 0) l + k * pv := by
  obtain ⟨a1, a0, a2⟩ := innerAB_spec j l result 0 hl hr (sop_acc_bound hl hM hrv j)
  rw [Nat.mul_zero, Nat.add_zero] at a2
  refine sop_step_core h hl hM hrv j a1 a2 (fun q2 => ?_)
  show ((l.foldl (innerAB j) (result, 0, 0)).2.1 + (l.foldl (innerAB j) (result, 0, 0)).2.2 + q2) % B
    = _
  rw [a0, Nat.add_zero]

/-- the limbs of `a` selected by the index list `js`, as a number -/
def dig (js : List Nat) (a : List Nat) : Nat := value (js.map (fun j => a.getD j 0))

theorem dig_range (a : List Nat) : dig (List.range a.length) a = value a := by
  unfold dig
  congr 1
  apply List.ext_getElem
  · simp
  · intro i h1 h2
    simp [List.getD_eq_getElem?_getD, h2]

/-- the outer loop, for any step function satisfying the step specification -/
theorem sop_fold_spec {c : MontCfg} {pv : Nat} {l : List (List Nat × List Nat)}
    (step : List Nat → Nat → List Nat) (D : Nat)
    (hstep : ∀ (r : List Nat) (j : Nat), Limbs c r → value r < D →
      Limbs c (step r j) ∧ value (step r j) < D ∧
      ∃ k, k < B ∧ value (step r j) * B = value r + sumW (fun a => a.getD j 0) l + k * pv) :
    ∀ (js : List Nat) (r : List Nat), Limbs c r → value r < D →
      Limbs c (js.foldl step r) ∧
      ∃ m, m < B ^ js.length ∧
        value (js.foldl step r) * B ^ js.length = value r + sumW (dig js) l + m * pv := by
  intro js
  induction js with
  | nil =>
    intro r hr _
    refine ⟨hr, 0, by simp, ?_⟩
    have : sumW (dig []) l = 0 := by
      clear hstep
      induction l with
      | nil => rfl
      | cons ab l ih => rw [sumW_cons, ih]; simp [dig, value]
    simp [this]
  | cons j js ih =>
    intro r hr hrv
    obtain ⟨s1, s2, k, hk, s3⟩ := hstep r j hr hrv
    obtain ⟨i1, m, hm, i2⟩ := ih (step r j) s1 s2
    refine ⟨i1, k + B * m, ?_, ?_⟩
    · rw [List.length_cons, pow_succ]
      have : B * (m + 1) ≤ B * B ^ js.length := Nat.mul_le_mul_left B hm
      nlinarith
    · have e : sumW (dig (j :: js)) l = sumW (fun a => a.getD j 0) l + B * sumW (dig js) l := by
        rw [← sumW_add_mul]; rfl
      rw [List.foldl_cons, List.length_cons, pow_succ, e]
      generalize value (js.foldl step (step r j)) = V at *
      generalize value (step r j) = V1 at *
      generalize B ^ js.length = P at *
      generalize sumW (fun a => a.getD j 0) l = S1 at *
      generalize sumW (dig js) l = S2 at *
      linear_combination B * i2 + s3

/-- both interleaved variants: the result is an `N`-limb integer `t < 2p` with `t·R ≡ Σ aᵢ·bᵢ` -/
theorem sop_interleaved_core {c : MontCfg} {pv : Nat} (h : CfgOK c pv)
    {l : List (List Nat × List Nat)} (hl : PairsOK c pv l) (hM : (l.length + 1) * pv ≤ B ^ c.n)
    (step : List Nat → Nat → List Nat)
    (hstep : ∀ (r : List Nat) (j : Nat), Limbs c r → value r < (l.length + 1) * pv →
      Limbs c (step r j) ∧ value (step r j) < (l.length + 1) * pv ∧
      ∃ k, k < B ∧ value (step r j) * B = value r + sumW (fun a => a.getD j 0) l + k * pv) :
    Limbs c ((List.range c.n).foldl step (zeros c.n)) ∧
    value ((List.range c.n).foldl step (zeros c.n)) < 2 * pv ∧
    (value ((List.range c.n).foldl step (zeros c.n)) * B ^ c.n) % pv = sumW value l % pv := by
  have hp := h.p_gt
  have hz0 : value (zeros c.n) = 0 := by unfold zeros; exact value_replicate_zero _
  obtain ⟨f1, m, hm, f2⟩ := sop_fold_spec step _ hstep (List.range c.n) (zeros c.n) (zeros_limbs c)
    (by rw [hz0]; exact Nat.mul_pos (by omega) (by omega))
  rw [List.length_range, hz0, Nat.zero_add] at f2
  rw [List.length_range] at hm
  have e : sumW (dig (List.range c.n)) l = sumW value l := by
    apply sumW_congr
    intro ab hab
    rw [← (hl ab hab).1.len]; exact dig_range _
  rw [e] at f2
  refine ⟨f1, ?_, by rw [f2, Nat.add_mul_mod_self_right]⟩
  have hv := sumW_value_bound hl
  generalize value ((List.range c.n).foldl step (zeros c.n)) = t at *
  generalize sumW value l = S at *
  generalize B ^ c.n = R at *
  have h1 : l.length * (pv * pv) ≤ R * pv := by
    have : l.length * pv ≤ R := by nlinarith
    calc l.length * (pv * pv) = (l.length * pv) * pv := by ring
      _ ≤ R * pv := Nat.mul_le_mul_right _ this
  have h2 : (m + 1) * pv ≤ R * pv := Nat.mul_le_mul_right _ hm
  have h3 : t * R < 2 * pv * R := by nlinarith
  exact Nat.lt_of_mul_lt_mul_right h3

/-- what every chunk (and the whole call) has to deliver -/
def SopOK (c : MontCfg) (pv : Nat) (r : List Nat) (X : Nat) : Prop :=
  Elem c pv r ∧ (value r * B ^ c.n) % pv = X % pv

theorem pairsOK_zip {c : MontCfg} {pv : Nat} {as bs : List (List Nat)}
    (ha : ∀ a ∈ as, Elem c pv a) (hb : ∀ b ∈ bs, Elem c pv b) : PairsOK c pv (as.zip bs) := by
  intro ab hab
  have := List.of_mem_zip hab
  exact ⟨ha _ this.1, hb _ this.2⟩

theorem sop_final {c : MontCfg} {pv : Nat} (h : CfgOK c pv) {t : List Nat} {X : Nat}
    (h1 : Limbs c t) (h2 : value t < 2 * pv) (h3 : (value t * B ^ c.n) % pv = X % pv) :
    SopOK c pv (subtractModulus c t) X := by
  obtain ⟨e1, e2⟩ := subtractModulus_spec h t h1 h2
  refine ⟨e1, ?_⟩
  rw [e2, ← h3]
  exact (Nat.mod_modEq _ _).mul_right _

theorem sopInterleaved1_ok {c : MontCfg} {pv : Nat} (h : CfgOK c pv) {as bs : List (List Nat)}
    (ha : ∀ a ∈ as, Elem c pv a) (hb : ∀ b ∈ bs, Elem c pv b)
    (hM : ((as.zip bs).length + 1) * pv ≤ B ^ c.n) :
    SopOK c pv (subtractModulus c (sopInterleaved1 c as bs)) (dot as bs) := by
  have hl := pairsOK_zip ha hb
  rw [sopInterleaved1_eq]
  obtain ⟨f1, f2, f3⟩ := sop_interleaved_core h hl hM (step1 c (as.zip bs))
    (fun r j hr hrv => step1_spec h hl hM hr hrv j)
  exact sop_final h f1 f2 f3

theorem sopInterleavedAB_ok {c : MontCfg} {pv : Nat} (h : CfgOK c pv) {as bs : List (List Nat)}
    (ha : ∀ a ∈ as, Elem c pv a) (hb : ∀ b ∈ bs, Elem c pv b)
    (hM : ((as.zip bs).length + 1) * pv ≤ B ^ c.n) :
    SopOK c pv (subtractModulus c (sopInterleavedAB c as bs)) (dot as bs) := by
  have hl := pairsOK_zip ha hb
  rw [sopInterleavedAB_eq]
  obtain ⟨f1, f2, f3⟩ := sop_interleaved_core h hl hM (stepAB c (as.zip bs))
    (fun r j hr hrv => stepAB_spec h hl hM hr hrv j)
  exact sop_final h f1 f2 f3

/-! ### `sumList`, `sopNaive` -/

theorem sop_zeros_elem {c : MontCfg} {pv : Nat} (h : CfgOK c pv) : Elem c pv (zeros c.n) := by
  have hz0 : value (zeros c.n) = 0 := by unfold zeros; exact value_replicate_zero _
  exact ⟨(zeros_limbs c).len, (zeros_limbs c).wf, by rw [hz0]; have := h.p_gt; omega⟩

theorem sumList_fold {c : MontCfg} {pv : Nat} (h : CfgOK c pv) {α : Type} (f : α → List Nat)
    (X : α → Nat) : ∀ (L : List α) (acc : List Nat) (A : Nat),
      (∀ t ∈ L, SopOK c pv (f t) (X t)) → SopOK c pv acc A →
      SopOK c pv ((L.map f).foldl (add c) acc) (A + (L.map X).sum) := by
  intro L
  induction L with
  | nil => intro acc A _ ha; simpa using ha
  | cons t L ih =>
    intro acc A hL ha
    have ht := hL t (by simp)
    obtain ⟨e1, e2⟩ := add_spec h acc (f t) ha.1 ht.1
    have hnew : SopOK c pv (add c acc (f t)) (A + X t) := by
      refine ⟨e1, ?_⟩
      rw [e2]
      have s1 : (value acc + value (f t)) % pv * B ^ c.n ≡ (value acc + value (f t)) * B ^ c.n
          [MOD pv] := (Nat.mod_modEq _ _).mul_right _
      have s2 : (value acc + value (f t)) * B ^ c.n ≡ A + X t [MOD pv] := by
        rw [Nat.add_mul]
        exact Nat.ModEq.add ha.2 ht.2
      exact s1.trans s2
    have := ih (add c acc (f t)) (A + X t) (fun x hx => hL x (by simp [hx])) hnew
    simp only [List.map_cons, List.foldl_cons, List.sum_cons]
    rw [← Nat.add_assoc]
    exact this

theorem sumList_ok {c : MontCfg} {pv : Nat} (h : CfgOK c pv) {α : Type} (f : α → List Nat)
    (X : α → Nat) (L : List α) (hL : ∀ t ∈ L, SopOK c pv (f t) (X t)) :
    SopOK c pv (sumList c (L.map f)) (L.map X).sum := by
  have hz : SopOK c pv (zeros c.n) 0 := by
    refine ⟨sop_zeros_elem h, ?_⟩
    have hz0 : value (zeros c.n) = 0 := by unfold zeros; exact value_replicate_zero _
    rw [hz0]; simp
  have := sumList_fold h f X L (zeros c.n) 0 hL hz
  rw [Nat.zero_add] at this
  exact this

theorem sopNaive_ok {c : MontCfg} {pv : Nat} (h : CfgOK c pv) {as bs : List (List Nat)}
    (ha : ∀ a ∈ as, Elem c pv a) (hb : ∀ b ∈ bs, Elem c pv b) :
    SopOK c pv (sopNaive c as bs) (dot as bs) := by
  have hl := pairsOK_zip ha hb
  have key : ∀ ab ∈ as.zip bs,
      SopOK c pv ((fun ab : List Nat × List Nat => Mont.mul c ab.1 ab.2) ab)
        ((fun ab : List Nat × List Nat => value ab.1 * value ab.2) ab) :=
    fun ab hab => montMul_spec h (hl ab hab).1 (hl ab hab).2.limbs
  have := sumList_ok h _ _ (as.zip bs) key
  exact this

/-! ### chunking -/

theorem dot_take_drop (k : Nat) (as bs : List (List Nat)) :
    dot (as.take k) (bs.take k) + dot (as.drop k) (bs.drop k) = dot as bs := by
  induction k generalizing as bs with
  | zero => simp [dot, sumW_nil]
  | succ k ih =>
    cases as with
    | nil => simp [dot, sumW_nil]
    | cons a as =>
      cases bs with
      | nil => simp [dot, sumW_nil]
      | cons b bs =>
        have := ih as bs
        simp only [dot, List.take_succ_cons, List.drop_succ_cons, List.zip_cons_cons, sumW_cons]
          at this ⊢
        omega

theorem chunks_zip_spec (k : Nat) (hk : 0 < k) : ∀ (fuel : Nat) (as bs : List (List Nat)),
    as.length = bs.length → as.length ≤ fuel →
    (∀ ab ∈ (chunks k as fuel).zip (chunks k bs fuel),
      ab.1.length = ab.2.length ∧ ab.1.length ≤ k ∧ (∀ a ∈ ab.1, a ∈ as) ∧ (∀ b ∈ ab.2, b ∈ bs)) ∧
    (((chunks k as fuel).zip (chunks k bs fuel)).map (fun ab => dot ab.1 ab.2)).sum = dot as bs := by
  intro fuel
  induction fuel with
  | zero =>
    intro as bs hab hf
    have ha : as = [] := List.eq_nil_of_length_eq_zero (by omega)
    subst ha
    simp [chunks, dot, sumW]
  | succ fuel ih =>
    intro as bs hab hf
    cases as with
    | nil =>
      simp [chunks, dot, sumW]
    | cons a as =>
      cases bs with
      | nil => simp at hab
      | cons b bs =>
        have e1 : chunks k (a :: as) (fuel + 1) =
            (a :: as).take k :: chunks k ((a :: as).drop k) fuel := by simp [chunks]
        have e2 : chunks k (b :: bs) (fuel + 1) =
            (b :: bs).take k :: chunks k ((b :: bs).drop k) fuel := by simp [chunks]
        rw [e1, e2, List.zip_cons_cons]
        have hlen : ((a :: as).drop k).length = ((b :: bs).drop k).length := by
          rw [List.length_drop, List.length_drop, hab]
        have hf' : ((a :: as).drop k).length ≤ fuel := by
          rw [List.length_drop]; simp only [List.length_cons] at hf ⊢; omega
        obtain ⟨i1, i2⟩ := ih _ _ hlen hf'
        constructor
        · intro ab hmem
          rcases List.mem_cons.mp hmem with rfl | hmem
          · refine ⟨by rw [List.length_take, List.length_take, hab], ?_,
              fun x hx => List.mem_of_mem_take hx, fun x hx => List.mem_of_mem_take hx⟩
            rw [List.length_take]; omega
          · obtain ⟨j1, j2, j3, j4⟩ := i1 ab hmem
            exact ⟨j1, j2, fun x hx => List.mem_of_mem_drop (j3 x hx),
              fun x hx => List.mem_of_mem_drop (j4 x hx)⟩
        · rw [List.map_cons, List.sum_cons, i2]
          exact dot_take_drop k _ _

/-! ### the chunk-size bound -/

theorem two_mul_le_two_pow (d : Nat) (hd : 0 < d) : 2 * d ≤ 2 ^ d := by
  obtain ⟨e, rfl⟩ : ∃ e, d = e + 1 := ⟨d - 1, by omega⟩
  have := Nat.lt_two_pow_self (n := e)
  rw [pow_succ]; omega

/-- the interleaved branch is only taken when `(chunk+1)·p ≤ R` -/
theorem sop_chunk_bound {c : MontCfg} {pv : Nat} (h : CfgOK c pv)
    (hbits : ¬ modulusBits c ≥ 64 * c.n - 1) {M : Nat}
    (hM : M ≤ 2 * (64 * c.n - modulusBits c) - 1) : (M + 1) * pv ≤ B ^ c.n := by
  have hb : modulusBits c = bitLen pv := by
    unfold modulusBits; rw [numBits_spec c.p h.p_wf, h.p_val]
  rw [hb] at hbits hM
  have hpv : pv < 2 ^ bitLen pv := (bitLen_le_iff pv (bitLen pv)).mp (Nat.le_refl _)
  have hd := two_mul_le_two_pow (64 * c.n - bitLen pv) (by omega)
  have e : B ^ c.n = 2 ^ (64 * c.n - bitLen pv) * 2 ^ bitLen pv := by
    rw [B_pow_eq, ← pow_add]; congr 1; omega
  rw [e]
  exact Nat.mul_le_mul (by omega) (by omega)

theorem zip_length_le {α β : Type} (as : List α) (bs : List β) : (as.zip bs).length ≤ as.length := by
  rw [List.length_zip]; exact Nat.min_le_left _ _

/-- `sum_of_products`, every branch -/
theorem sumOfProducts_ok {c : MontCfg} {pv : Nat} (h : CfgOK c pv) {as bs : List (List Nat)}
    (hlen : as.length = bs.length) (ha : ∀ a ∈ as, Elem c pv a) (hb : ∀ b ∈ bs, Elem c pv b) :
    SopOK c pv (sumOfProducts c as bs) (dot as bs) := by
  unfold sumOfProducts
  simp only []
  by_cases hbits : modulusBits c ≥ 64 * c.n - 1
  · rw [if_pos hbits]; exact sopNaive_ok h ha hb
  · rw [if_neg hbits]
    have hbound : ∀ (xs ys : List (List Nat)), xs.length ≤ 2 * (64 * c.n - modulusBits c) - 1 →
        ((xs.zip ys).length + 1) * pv ≤ B ^ c.n := fun xs ys hx =>
      sop_chunk_bound h hbits (Nat.le_trans (zip_length_le xs ys) hx)
    have hk : 0 < 2 * (64 * c.n - modulusBits c) - 1 := by omega
    obtain ⟨ch1, ch2⟩ := chunks_zip_spec _ hk as.length as bs hlen (Nat.le_refl _)
    have ech : chunksOf (2 * (64 * c.n - modulusBits c) - 1) bs =
        chunks (2 * (64 * c.n - modulusBits c) - 1) bs as.length := by
      unfold chunksOf; rw [hlen]
    by_cases hd : c.derived = true
    · rw [if_pos hd]
      by_cases hm : as.length ≤ 2 * (64 * c.n - modulusBits c) - 1
      · rw [if_pos hm]; exact sopInterleavedAB_ok h ha hb (hbound as bs hm)
      · rw [if_neg hm, ech]
        unfold chunksOf
        rw [← ch2]
        apply sumList_ok h
        intro ab hab
        obtain ⟨j1, j2, j3, j4⟩ := ch1 ab hab
        have ha' : ∀ a ∈ ab.1, Elem c pv a := fun a hx => ha a (j3 a hx)
        have hb' : ∀ b ∈ ab.2, Elem c pv b := fun b hx => hb b (j4 b hx)
        show SopOK c pv (if _ then _ else _) _
        split
        · exact sopInterleavedAB_ok h ha' hb' (hbound _ _ j2)
        · exact sopNaive_ok h ha' hb'
    · rw [if_neg hd]
      by_cases hm : (as.length == 2) = true
      · rw [if_pos hm]
        have : as.length = 2 := by simpa using hm
        exact sopInterleavedAB_ok h ha hb (hbound as bs (by omega))
      · rw [if_neg hm, ech]
        unfold chunksOf
        rw [← ch2]
        apply sumList_ok h
        intro ab hab
        obtain ⟨j1, j2, j3, j4⟩ := ch1 ab hab
        have ha' : ∀ a ∈ ab.1, Elem c pv a := fun a hx => ha a (j3 a hx)
        have hb' : ∀ b ∈ ab.2, Elem c pv b := fun b hx => hb b (j4 b hx)
        exact sopInterleaved1_ok h ha' hb' (hbound _ _ j2)

end Ark.Mont
