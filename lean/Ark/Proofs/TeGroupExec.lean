import Ark.Model.Msm
import Ark.Model.DrvC05
import Ark.Model.TeGroup
import Ark.Proofs.MsmA
import Ark.Proofs.MsmB
import Ark.Proofs.ScalarMulA
import Ark.Proofs.TeGroupLaw
import Ark.Proofs.CurveA
import Ark.Proofs.BytesSqrt
import Mathlib.Algebra.Group.InjSurj
import Mathlib.Algebra.Group.Equiv.Defs
import Mathlib.Data.ZMod.Basic
import Mathlib.Algebra.Field.ZMod
/-
  Helpers for property C05 (part c): the generic MSM theorems (C05a, C05b, C05 — stated over
  `[AddCommGroup G]`) transferred to the EXECUTABLE specification groups on which the driver runs the
  model `Ark.Msm`: `Ark.TePt p a d` (twisted Edwards, `Ark.Model.TeGroup`) and `Fp r` with `+`
  (discrete logarithms of `PairingOutput`).

  §A  naturality: every function of `Ark.Model.Msm` commutes with a map `f : H → G` that preserves
      `0 + - (binary -)` (`OpHom f`; for the hash-map accumulator `f` injective).  No algebra.
  §B  transfer: if `H` is an `AddCommGroup`, the generic theorems hold for the model run at `G` on
      bases in the range of `f`, with the driver's reference sum `DrvC05.specSum`.
  §C  `Fp n` against `ZMod n` (`ofZ`/`toZ`); `Fp`'s inversion for a prime modulus, also at `0`.
  §D  `TePt p a d` against `TE.affAdd` over `ZMod p`; the group `TePoint p a d` of reduced curve
      points under the executable operations, isomorphic to `TE.Point (a : ZMod p) d`.
  §E  `Fp r` with `+`: the group `ZrPoint r` of reduced residues.
-/
set_option linter.unusedSectionVars false
set_option linter.unusedVariables false
set_option linter.style.haveILetI false
set_option linter.unusedSimpArgs false

namespace Ark.MsmHom
open Ark Ark.Msm

/-! ## A. naturality of the model in the group -/

/-- `f` preserves the four operations the model uses -/
structure OpHom {H G : Type} [Add H] [Neg H] [Sub H] [Zero H] [Add G] [Neg G] [Sub G] [Zero G]
    (f : H → G) : Prop where
  zero : f 0 = 0
  add : ∀ x y, f (x + y) = f x + f y
  neg : ∀ x, f (-x) = -f x
  sub : ∀ x y, f (x - y) = f x - f y

/-- functorial action of `Outcome` -/
def omap {α β : Type} (f : α → β) : Outcome α → Outcome β
  | .ok a => .ok (f a)
  | .panic => .panic

@[simp] theorem omap_ok {α β : Type} (f : α → β) (a : α) : omap f (.ok a) = .ok (f a) := rfl
@[simp] theorem omap_panic {α β : Type} (f : α → β) : omap f (.panic : Outcome α) = .panic := rfl

theorem omap_obind {α β γ : Type} (f : β → γ) (x : Outcome α) (g : α → Outcome β) :
    omap f (obind x g) = obind x (fun a => omap f (g a)) := by
  cases x <;> rfl

theorem obind_omap {α β γ : Type} (f : α → β) (x : Outcome α) (g : β → Outcome γ) :
    obind (omap f x) g = obind x (fun a => g (f a)) := by
  cases x <;> rfl

theorem obind_congr {α β : Type} (x : Outcome α) (g g' : α → Outcome β) (h : ∀ a, g a = g' a) :
    obind x g = obind x g' := by
  cases x
  · exact h _
  · rfl

theorem foldl_hom {α β σ τ : Type} (φ : σ → τ) (ψ : α → β) (stepH : σ → α → σ) (stepG : τ → β → τ)
    (h : ∀ s a, stepG (φ s) (ψ a) = φ (stepH s a)) (l : List α) (s : σ) :
    (l.map ψ).foldl stepG (φ s) = φ (l.foldl stepH s) := by
  induction l generalizing s with
  | nil => rfl
  | cons a l ih => rw [List.map_cons, List.foldl_cons, List.foldl_cons, h, ih]

theorem omapMGo_map {α β γ : Type} (φ : β → γ) (F : α → Outcome β) (F' : α → Outcome γ)
    (h : ∀ a, F' a = omap φ (F a)) (l : List α) (acc : List β) :
    omapMGo F' l (acc.map φ) = omap (List.map φ) (omapMGo F l acc) := by
  induction l generalizing acc with
  | nil => simp [omapMGo]
  | cons a l ih =>
    rw [omapMGo, omapMGo, h a]
    cases F a with
    | panic => rfl
    | ok b =>
      rw [omap_ok, obind_ok, obind_ok, ← List.map_cons, ih]

theorem omapM_map {α β γ : Type} (φ : β → γ) (F : α → Outcome β) (F' : α → Outcome γ)
    (h : ∀ a, F' a = omap φ (F a)) (l : List α) :
    omapM F' l = omap (List.map φ) (omapM F l) :=
  omapMGo_map φ F F' h l []

section Nat
variable {H G : Type} [Add H] [Neg H] [Sub H] [Zero H] [Add G] [Neg G] [Sub G] [Zero G]
  {f : H → G} (hf : OpHom f)
include hf

theorem modifyAt_map (g : H → H) (g' : G → G) (hg : ∀ x, g' (f x) = f (g x)) (bs : List H) (j : Nat) :
    modifyAt g' (bs.map f) j = (modifyAt g bs j).map (List.map f) := by
  induction bs generalizing j with
  | nil => rfl
  | cons b bs ih =>
    cases j with
    | zero => simp [modifyAt, hg]
    | succ j =>
      rw [List.map_cons, modifyAt, modifyAt, ih]
      cases modifyAt g bs j <;> simp

theorem runningSum_map (r : H) (bs : List H) :
    runningSum (f r) (bs.map f) = f (runningSum r bs) := by
  unfold runningSum
  rw [← List.map_reverse]
  have := foldl_hom (Prod.map f f) f
    (fun (st : H × H) b => (st.1 + b, st.2 + (st.1 + b)))
    (fun (st : G × G) b => (st.1 + b, st.2 + (st.1 + b)))
    (by intro s a; simp [Prod.map, hf.add]) bs.reverse ((0 : H), r)
  simp only [Prod.map, hf.zero] at this
  exact congrArg Prod.snd this

theorem dblN_map (c : Nat) (x : H) : dblN c (f x) = f (dblN c x) := by
  unfold dblN
  induction c generalizing x with
  | zero => rfl
  | succ c ih => rw [iter, iter, ← hf.add, ih]

theorem combine_map (c : Nat) (ws : List H) : combine c (ws.map f) = omap f (combine c ws) := by
  cases ws with
  | nil => rfl
  | cons w ws =>
    simp only [List.map_cons, combine, omap_ok]
    rw [← List.map_reverse, ← hf.zero,
      foldl_hom f f (fun total s => dblN c (total + s)) (fun total s => dblN c (total + s))
        (by intro s a; rw [← hf.add, dblN_map hf]), hf.add]

theorem replicate_zero (n : Nat) : List.replicate n (0 : G) = (List.replicate n (0 : H)).map f := by
  rw [List.map_replicate, hf.zero]

theorem wnafFill_map (i : Nat) (pairs : List (List Int × H)) (bs : List H) :
    wnafFill i (bs.map f) (pairs.map (Prod.map id f)) = omap (List.map f) (wnafFill i bs pairs) := by
  induction pairs generalizing bs with
  | nil => rfl
  | cons a pairs ih =>
    obtain ⟨digits, base⟩ := a
    simp only [List.map_cons, Prod.map, id, wnafFill]
    cases digits[i]? with
    | none => rfl
    | some scalar =>
      simp only [ofOption_some, obind_ok]
      split
      · rw [modifyAt_map hf (· + base) (· + f base) (fun x => (hf.add x base).symm)]
        cases modifyAt (· + base) bs (scalar - 1).toNat with
        | none => rfl
        | some bs' => simp only [Option.map_some, ofOption_some, obind_ok]; exact ih bs'
      · split
        · rw [modifyAt_map hf (· - base) (· - f base) (fun x => (hf.sub x base).symm)]
          cases modifyAt (· - base) bs (-scalar - 1).toNat with
          | none => rfl
          | some bs' => simp only [Option.map_some, ofOption_some, obind_ok]; exact ih bs'
        · exact ih bs

theorem wnafWindow_map (c i : Nat) (pairs : List (List Int × H)) :
    wnafWindow c i (pairs.map (Prod.map id f)) = omap f (wnafWindow c i pairs) := by
  unfold wnafWindow
  rw [replicate_zero hf, wnafFill_map hf, obind_omap, omap_obind]
  refine obind_congr _ _ _ (fun bs => ?_)
  rw [omap_ok, ← hf.zero, runningSum_map hf]

theorem msmBigintWnaf_map (nb : Nat) (bases : List H) (ks : List (List Nat)) :
    msmBigintWnaf nb (bases.map f) ks = omap f (msmBigintWnaf nb bases ks) := by
  unfold msmBigintWnaf
  simp only [List.length_map]
  rw [omap_obind]
  refine obind_congr _ _ _ (fun ds => ?_)
  rw [← List.map_take, List.zip_map_right, omap_obind,
    omapM_map f (fun i => wnafWindow (windowSize (min bases.length ks.length)) i _) _
      (fun i => wnafWindow_map hf _ i _), obind_omap]
  refine obind_congr _ _ _ (fun ws => ?_)
  exact combine_map hf _ ws

theorem plainFill_map (c wStart : Nat) (one : List Nat) (pairs : List (List Nat × H)) (res : H)
    (bs : List H) :
    plainFill c wStart one (f res) (bs.map f) (pairs.map (Prod.map id f))
      = omap (Prod.map f (List.map f)) (plainFill c wStart one res bs pairs) := by
  induction pairs generalizing res bs with
  | nil => rfl
  | cons a pairs ih =>
    obtain ⟨scalar, base⟩ := a
    simp only [List.map_cons, Prod.map, id, plainFill]
    split
    · split
      · rw [← hf.add]; exact ih _ bs
      · exact ih res bs
    · cases (shr scalar wStart)[0]? with
      | none => rfl
      | some l0 =>
        simp only [ofOption_some, obind_ok]
        split
        · rw [modifyAt_map hf (· + base) (· + f base) (fun x => (hf.add x base).symm)]
          cases modifyAt (· + base) bs (l0 % (1 <<< c) - 1) with
          | none => rfl
          | some bs' => simp only [Option.map_some, ofOption_some, obind_ok]; exact ih res bs'
        · exact ih res bs

theorem plainWindow_map (c wStart : Nat) (one : List Nat) (pairs : List (List Nat × H)) :
    plainWindow c wStart one (pairs.map (Prod.map id f)) = omap f (plainWindow c wStart one pairs) := by
  unfold plainWindow
  rw [replicate_zero hf, ← hf.zero, plainFill_map hf, obind_omap, omap_obind]
  refine obind_congr _ _ _ (fun st => ?_)
  rw [omap_ok]
  exact congrArg Outcome.ok (runningSum_map hf st.1 st.2)

theorem msmBigintPlain_map (nb : Nat) (one : List Nat) (bases : List H) (ks : List (List Nat)) :
    msmBigintPlain nb one (bases.map f) ks = omap f (msmBigintPlain nb one bases ks) := by
  unfold msmBigintPlain
  simp only [List.length_map]
  rw [← List.map_take, List.zip_map_right, List.filter_map, omap_obind,
    omapM_map f (fun w => plainWindow (windowSize (min bases.length ks.length)) w one _) _
      (fun w => plainWindow_map hf _ w one _), obind_omap]
  refine obind_congr _ _ _ (fun ws => ?_)
  exact combine_map hf _ ws

theorem msmBigint_map (cfg : Cfg) (bases : List H) (ks : List (List Nat)) :
    msmBigint cfg (bases.map f) ks = omap f (msmBigint cfg bases ks) := by
  unfold msmBigint
  split
  · exact msmBigintWnaf_map hf _ _ _
  · exact msmBigintPlain_map hf _ _ _ _

theorem msmUnchecked_map (cfg : Cfg) (bases : List H) (ks : List Nat) :
    msmUnchecked cfg (bases.map f) ks = omap f (msmUnchecked cfg bases ks) :=
  msmBigint_map hf cfg bases _

theorem msm_map (cfg : Cfg) (bases : List H) (ks : List Nat) :
    msm cfg (bases.map f) ks = omap (Except.map f) (msm cfg bases ks) := by
  unfold msm
  simp only [List.length_map]
  split
  · rw [msmUnchecked_map hf, obind_omap, omap_obind]; rfl
  · rfl

theorem msmChunksLoop_map (cfg : Cfg) (step n : Nat) (bases : List H) (ks : List Nat) (res : H) :
    msmChunksLoop cfg step n (bases.map f) ks (f res)
      = omap f (msmChunksLoop cfg step n bases ks res) := by
  induction n generalizing bases ks res with
  | zero => rfl
  | succ n ih =>
    rw [msmChunksLoop, msmChunksLoop, ← List.map_take, msmBigint_map hf, obind_omap, omap_obind]
    refine obind_congr _ _ _ (fun r => ?_)
    rw [← List.map_drop, ← hf.add, ih]

theorem msmChunksWith_map (step : Nat) (cfg : Cfg) (bases : List H) (ks : List Nat) :
    msmChunksWith step cfg (bases.map f) ks = omap f (msmChunksWith step cfg bases ks) := by
  unfold msmChunksWith
  simp only [List.length_map]
  split
  · rfl
  · rw [← List.map_drop, ← hf.zero, msmChunksLoop_map hf]

theorem msmChunks_map (cfg : Cfg) (bases : List H) (ks : List Nat) :
    msmChunks cfg (bases.map f) ks = omap f (msmChunks cfg bases ks) :=
  msmChunksWith_map hf _ cfg bases ks

/-! ### `ChunkedPippenger` -/

/-- the image of an accumulator state -/
@[reducible] def chunkedMap (f : H → G) (s : Chunked H) : Chunked G :=
  ⟨s.scalarsBuffer, s.basesBuffer.map f, f s.result, s.bufSize⟩

theorem chunked_new_map (bufSize : Nat) :
    (Chunked.new bufSize : Chunked G) = chunkedMap f (Chunked.new bufSize) := by
  simp [Chunked.new, chunkedMap, hf.zero]

theorem chunked_add_map (cfg : Cfg) (s : Chunked H) (b : H) (k : List Nat) :
    (chunkedMap f s).add cfg (f b) k = omap (chunkedMap f) (s.add cfg b k) := by
  by_cases h : (s.scalarsBuffer ++ [k]).length = s.bufSize
  · simp only [Chunked.add, chunkedMap, if_pos h]
    rw [← List.map_singleton, ← List.map_append, msmBigint_map hf, obind_omap, omap_obind]
    refine obind_congr _ _ _ (fun r => ?_)
    simp [chunkedMap, hf.add]
  · simp only [Chunked.add, chunkedMap, if_neg h]
    simp [chunkedMap]

theorem chunked_finalize_map (cfg : Cfg) (s : Chunked H) :
    (chunkedMap f s).finalize cfg = omap f (s.finalize cfg) := by
  by_cases h : (!s.scalarsBuffer.isEmpty) = true
  · simp only [Chunked.finalize, chunkedMap, if_pos h]
    rw [msmBigint_map hf, obind_omap, omap_obind]
    refine obind_congr _ _ _ (fun r => ?_)
    simp [hf.add]
  · simp only [Chunked.finalize, chunkedMap, if_neg h]
    rfl

theorem chunked_go_map (cfg : Cfg) (adds : List (H × List Nat)) (s : Chunked H) :
    Chunked.run.go cfg (chunkedMap f s) (adds.map (Prod.map f id))
      = omap f (Chunked.run.go cfg s adds) := by
  induction adds generalizing s with
  | nil => exact chunked_finalize_map hf cfg s
  | cons a adds ih =>
    obtain ⟨b, k⟩ := a
    simp only [List.map_cons, Prod.map, id, Chunked.run.go]
    rw [chunked_add_map hf, obind_omap, omap_obind]
    exact obind_congr _ _ _ (fun s' => ih s')

theorem chunked_run_map (cfg : Cfg) (bufSize : Nat) (adds : List (H × List Nat)) :
    Chunked.run cfg bufSize (adds.map (Prod.map f id)) = omap f (Chunked.run cfg bufSize adds) := by
  unfold Chunked.run
  rw [chunked_new_map hf, chunked_go_map hf]

/-! ### `HashMapPippenger` (needs `f` injective: keys are compared) -/

section HashMap
variable [DecidableEq H] [DecidableEq G] (hinj : Function.Injective f)
include hinj

@[reducible] def hashMapMap (f : H → G) (s : HashMapAcc H) : HashMapAcc G :=
  ⟨s.buffer.map (Prod.map f id), f s.result, s.bufSize⟩

theorem upsert_map (r : Nat) (base : H) (k : Nat) (buf : List (H × Nat)) :
    upsert r (f base) k (buf.map (Prod.map f id)) = (upsert r base k buf).map (Prod.map f id) := by
  induction buf with
  | nil => rfl
  | cons e buf ih =>
    obtain ⟨b, v⟩ := e
    simp only [List.map_cons, Prod.map, id, upsert]
    by_cases h : b = base
    · rw [if_pos h, if_pos (congrArg f h)]; rfl
    · rw [if_neg h, if_neg (fun h' => h (hinj h')), List.map_cons, ← ih]; rfl

theorem buffer_keys (buf : List (H × Nat)) :
    (buf.map (Prod.map f id)).map (·.1) = (buf.map (·.1)).map f := by
  simp [List.map_map, Function.comp_def]

theorem buffer_vals (cfg : Cfg) (buf : List (H × Nat)) :
    (buf.map (Prod.map f id)).map (fun e => cfg.intoBigint e.2)
      = buf.map (fun e => cfg.intoBigint e.2) := by
  simp [List.map_map, Function.comp_def]

theorem hashMap_new_map (bufSize : Nat) :
    (HashMapAcc.new bufSize : HashMapAcc G) = hashMapMap f (HashMapAcc.new bufSize) := by
  simp [HashMapAcc.new, hashMapMap, hf.zero]

theorem hashMap_add_map (cfg : Cfg) (s : HashMapAcc H) (b : H) (k : Nat) :
    (hashMapMap f s).add cfg (f b) k = omap (hashMapMap f) (s.add cfg b k) := by
  have hu : upsert cfg.r (f b) k (hashMapMap f s).buffer
      = (upsert cfg.r b k s.buffer).map (Prod.map f id) := upsert_map hf hinj _ _ _ _
  by_cases h : (upsert cfg.r b k s.buffer).length = s.bufSize
  · have h' : (upsert cfg.r (f b) k (hashMapMap f s).buffer).length = (hashMapMap f s).bufSize := by
      rw [hu, List.length_map]; exact h
    simp only [HashMapAcc.add, if_pos h, if_pos h']
    rw [hu, buffer_keys hf hinj, buffer_vals hf hinj, msmBigint_map hf, obind_omap, omap_obind]
    refine obind_congr _ _ _ (fun r => ?_)
    simp [hashMapMap, hf.add]
  · have h' : ¬ (upsert cfg.r (f b) k (hashMapMap f s).buffer).length = (hashMapMap f s).bufSize := by
      rw [hu, List.length_map]; exact h
    simp only [HashMapAcc.add, if_neg h, if_neg h']
    rw [hu]
    simp [hashMapMap]

theorem hashMap_finalize_map (cfg : Cfg) (s : HashMapAcc H) :
    (hashMapMap f s).finalize cfg = omap f (s.finalize cfg) := by
  by_cases h : (!s.buffer.isEmpty) = true
  · have h' : (!(hashMapMap f s).buffer.isEmpty) = true := by
      simpa [hashMapMap] using h
    simp only [HashMapAcc.finalize, if_pos h, if_pos h']
    show obind (msmBigint cfg ((s.buffer.map (Prod.map f id)).map (·.1))
      ((s.buffer.map (Prod.map f id)).map (fun e => cfg.intoBigint e.2))) _ = _
    rw [buffer_keys hf hinj, buffer_vals hf hinj, msmBigint_map hf, obind_omap, omap_obind]
    refine obind_congr _ _ _ (fun r => ?_)
    simp [hashMapMap, hf.add]
  · have h' : ¬ (!(hashMapMap f s).buffer.isEmpty) = true := by
      simpa [hashMapMap] using h
    simp only [HashMapAcc.finalize, if_neg h, if_neg h']
    rfl

theorem hashMap_go_map (cfg : Cfg) (adds : List (H × Nat)) (s : HashMapAcc H) :
    HashMapAcc.run.go cfg (hashMapMap f s) (adds.map (Prod.map f id))
      = omap f (HashMapAcc.run.go cfg s adds) := by
  induction adds generalizing s with
  | nil => exact hashMap_finalize_map hf hinj cfg s
  | cons a adds ih =>
    obtain ⟨b, k⟩ := a
    simp only [List.map_cons, Prod.map, id, HashMapAcc.run.go]
    rw [hashMap_add_map hf hinj, obind_omap, omap_obind]
    exact obind_congr _ _ _ (fun s' => ih s')

theorem hashMap_run_map (cfg : Cfg) (bufSize : Nat) (adds : List (H × Nat)) :
    HashMapAcc.run cfg bufSize (adds.map (Prod.map f id))
      = omap f (HashMapAcc.run cfg bufSize adds) := by
  unfold HashMapAcc.run
  rw [hashMap_new_map hf hinj, hashMap_go_map hf hinj]

end HashMap
end Nat


/-! ## B. transfer of the generic theorems along `f : H → G`, `H` an abelian group

  The model is run at `G` (any type with `0 + - (binary -)`, no law assumed) on bases in the range of
  `f`; the result is the driver's reference sum `DrvC05.specSum io` (a `foldl` of `+` and of the
  reference scalar multiplication `io.smul`), provided `io.smul k (f x) = f (k • x)`. -/

section Transfer
open Ark.DrvC05 (GIo specSum)
variable {H G : Type} [AddCommGroup H] [Add G] [Neg G] [Sub G] [Zero G]
  {f : H → G} (hf : OpHom f) (io : GIo G) (hsm : ∀ k x, io.smul k (f x) = f (k • x))

omit [AddCommGroup H] [Add G] [Neg G] [Sub G] [Zero G] in
theorem exists_preimage (bases : List G) (hb : ∀ P ∈ bases, ∃ x, f x = P) :
    ∃ bs : List H, bs.map f = bases := by
  induction bases with
  | nil => exact ⟨[], rfl⟩
  | cons P bases ih =>
    obtain ⟨x, hx⟩ := hb P (by simp)
    obtain ⟨bs, hbs⟩ := ih (fun Q hQ => hb Q (by simp [hQ]))
    exact ⟨x :: bs, by rw [List.map_cons, hx, hbs]⟩

omit [AddCommGroup H] [Add G] [Neg G] [Sub G] [Zero G] in
theorem exists_preimage_pairs {κ : Type} (adds : List (G × κ)) (hb : ∀ a ∈ adds, ∃ x, f x = a.1) :
    ∃ as : List (H × κ), as.map (Prod.map f id) = adds := by
  induction adds with
  | nil => exact ⟨[], rfl⟩
  | cons a adds ih =>
    obtain ⟨x, hx⟩ := hb a (by simp)
    obtain ⟨as, has⟩ := ih (fun Q hQ => hb Q (by simp [hQ]))
    refine ⟨(x, a.2) :: as, ?_⟩
    rw [List.map_cons, has]
    simp [Prod.map, hx]

theorem foldl_add_eq_sum {α : Type} (g : α → H) (l : List α) (s : H) :
    l.foldl (fun acc a => acc + g a) s = s + (l.map g).sum := by
  induction l generalizing s with
  | nil => simp
  | cons a l ih => rw [List.foldl_cons, ih, List.map_cons, List.sum_cons, add_assoc]

include hf hsm in
/-- the driver's reference sum of images is the image of `Σ kᵢ • xᵢ` -/
theorem specSum_map (bs : List H) (ks : List Nat) :
    specSum io (bs.map f) ks = f (msmSumNat bs ks) := by
  unfold specSum msmSumNat natPairSum
  rw [List.zip_map_left, ← hf.zero,
    foldl_hom f (Prod.map f id) (fun acc a => acc + a.2 • a.1) (fun acc pk => acc + io.smul pk.2 pk.1)
      (by intro s a; simp only [Prod.map, id]; rw [hsm, hf.add]),
    foldl_add_eq_sum, zero_add]

/-- `Σ g(kᵢ) • xᵢ` in the orientation of part A as `msmSumNat` -/
theorem zipSum_eq_msmSumNat {α : Type} (g : α → ℕ) (ks : List α) (bs : List H) :
    ((ks.zip bs).map (fun p => g p.1 • p.2)).sum = msmSumNat bs (ks.map g) := by
  unfold msmSumNat natPairSum
  rw [List.zip_map_right, ← List.zip_swap ks bs, List.map_map, List.map_map]
  rfl

theorem pairSum_eq_msmSumNat (as : List (H × List Nat)) :
    pairSum as = msmSumNat (as.map (·.1)) (as.map (fun a => value a.2)) := by
  unfold pairSum msmSumNat natPairSum
  rw [List.zip_map', List.map_map]
  rfl

theorem natPairSum_eq_msmSumNat (as : List (H × Nat)) :
    natPairSum as = msmSumNat (as.map (·.1)) (as.map (·.2)) := (msmSumNat_unzip as).symm

/-- part A discharges the inner-MSM hypothesis of part B -/
theorem msmOK (cfg : Cfg) (hr0 : 0 < cfg.r) (hr : cfg.r < 2 ^ (64 * cfg.limbs)) :
    MsmOK H cfg (InRange cfg) :=
  ⟨fun bases ks hks hsize => msmBigint_spec_zip cfg hr0 hr bases ks hks hsize⟩

theorem B_pow_eq' (n : Nat) : B ^ n = 2 ^ (64 * n) := by
  unfold B; rw [← Nat.pow_mul]

include hf hsm

theorem msmBigintWnaf_hom (nb N : Nat) (bases : List G) (ks : List (List Nat))
    (hb : ∀ P ∈ bases, ∃ x, f x = P)
    (hnb : 0 < nb) (hnbN : nb ≤ 64 * N) (hks : ∀ s ∈ ks, WF s ∧ s.length = N)
    (hsize : min bases.length ks.length < 2 ^ 64) :
    msmBigintWnaf nb bases ks = .ok (specSum io bases (ks.map fun k =>
      value k % 2 ^ (windowSize (min bases.length ks.length)
        * divCeil nb (windowSize (min bases.length ks.length))))) := by
  obtain ⟨bs, rfl⟩ := exists_preimage bases hb
  rw [List.length_map] at hsize ⊢
  rw [msmBigintWnaf_map hf, Ark.Msm.msmBigintWnaf_spec nb N bs ks hnb hnbN hks hsize, omap_ok,
    specSum_map hf io hsm]
  exact congrArg Outcome.ok (congrArg f (zipSum_eq_msmSumNat (fun k => value k % 2 ^
    (windowSize (min bs.length ks.length) * divCeil nb (windowSize (min bs.length ks.length)))) ks bs))

theorem msmBigintPlain_hom (nb : Nat) (one : List Nat) (bases : List G) (ks : List (List Nat))
    (hb : ∀ P ∈ bases, ∃ x, f x = P)
    (hnb : 0 < nb) (hone : value one ≤ 1) (hks : ∀ s ∈ ks, WF s)
    (hsize : min bases.length ks.length < 2 ^ 64) :
    msmBigintPlain nb one bases ks = .ok (specSum io bases (ks.map fun k =>
      value k % 2 ^ (windowSize (min bases.length ks.length)
        * divCeil nb (windowSize (min bases.length ks.length))))) := by
  obtain ⟨bs, rfl⟩ := exists_preimage bases hb
  rw [List.length_map] at hsize ⊢
  rw [msmBigintPlain_map hf, Ark.Msm.msmBigintPlain_spec nb one bs ks hnb hone hks hsize, omap_ok,
    specSum_map hf io hsm]
  exact congrArg Outcome.ok (congrArg f (zipSum_eq_msmSumNat (fun k => value k % 2 ^
    (windowSize (min bs.length ks.length) * divCeil nb (windowSize (min bs.length ks.length)))) ks bs))

theorem msmBigint_hom (cfg : Cfg) (hr0 : 0 < cfg.r) (hr : cfg.r < 2 ^ (64 * cfg.limbs))
    (bases : List G) (ks : List (List Nat)) (hb : ∀ P ∈ bases, ∃ x, f x = P)
    (hks : ∀ k ∈ ks, WF k ∧ k.length = cfg.limbs)
    (hsize : min bases.length ks.length < 2 ^ 64) :
    msmBigint cfg bases ks = .ok (specSum io bases (ks.map fun k =>
      value k % 2 ^ (windowSize (min bases.length ks.length)
        * divCeil cfg.numBits (windowSize (min bases.length ks.length))))) := by
  obtain ⟨bs, rfl⟩ := exists_preimage bases hb
  rw [List.length_map] at hsize ⊢
  rw [msmBigint_map hf, Ark.Msm.msmBigint_spec cfg hr0 hr bs ks hks hsize, omap_ok,
    specSum_map hf io hsm]
  exact congrArg Outcome.ok (congrArg f (zipSum_eq_msmSumNat (fun k => value k % 2 ^
    (windowSize (min bs.length ks.length) * divCeil cfg.numBits (windowSize (min bs.length ks.length)))) ks bs))

theorem msmBigint_exact_hom (cfg : Cfg) (hr0 : 0 < cfg.r) (hr : cfg.r < 2 ^ (64 * cfg.limbs))
    (bases : List G) (ks : List (List Nat)) (hb : ∀ P ∈ bases, ∃ x, f x = P)
    (hks : ∀ k ∈ ks, WF k ∧ k.length = cfg.limbs ∧ value k < 2 ^ cfg.numBits)
    (hsize : min bases.length ks.length < 2 ^ 64) :
    msmBigint cfg bases ks = .ok (specSum io bases (ks.map value)) := by
  obtain ⟨bs, rfl⟩ := exists_preimage bases hb
  rw [List.length_map] at hsize
  rw [msmBigint_map hf, Ark.Msm.msmBigint_exact cfg hr0 hr bs ks hks hsize, omap_ok,
    specSum_map hf io hsm]
  exact congrArg Outcome.ok (congrArg f (zipSum_eq_msmSumNat (fun k => value k) ks bs))

theorem msmUnchecked_hom (cfg : Cfg) (hr0 : 0 < cfg.r) (hr : cfg.r < 2 ^ (64 * cfg.limbs))
    (bases : List G) (ks : List Nat) (hb : ∀ P ∈ bases, ∃ x, f x = P) (hks : ∀ k ∈ ks, k < cfg.r)
    (hsize : min bases.length ks.length < 2 ^ 64) :
    msmUnchecked cfg bases ks = .ok (specSum io bases ks) := by
  obtain ⟨bs, rfl⟩ := exists_preimage bases hb
  rw [List.length_map] at hsize
  rw [msmUnchecked_map hf, Ark.Msm.msmUnchecked_spec cfg hr0 hr bs ks hks hsize, omap_ok,
    specSum_map hf io hsm, zipSum_eq_msmSumNat (fun k => k), List.map_id']

theorem msm_hom (cfg : Cfg) (hr0 : 0 < cfg.r) (hr : cfg.r < 2 ^ (64 * cfg.limbs))
    (bases : List G) (ks : List Nat) (hb : ∀ P ∈ bases, ∃ x, f x = P) (hks : ∀ k ∈ ks, k < cfg.r)
    (hsize : min bases.length ks.length < 2 ^ 64) :
    msm cfg bases ks = if bases.length = ks.length then .ok (.ok (specSum io bases ks))
      else .ok (.error (min bases.length ks.length)) := by
  unfold msm
  split
  · rw [msmUnchecked_hom hf io hsm cfg hr0 hr bases ks hb hks hsize]; rfl
  · rfl

theorem msmChunksWith_hom (cfg : Cfg) (hr0 : 0 < cfg.r) (hr : cfg.r < 2 ^ (64 * cfg.limbs))
    (hN : 0 < cfg.limbs) (step : Nat) (hstep : 0 < step) (bases : List G) (ks : List Nat)
    (hb : ∀ P ∈ bases, ∃ x, f x = P) (hks : ∀ k ∈ ks, k < cfg.r)
    (hB : step < 2 ^ 64 ∨ ks.length < 2 ^ 64) :
    msmChunksWith step cfg bases ks =
      if ks.length ≤ bases.length then .ok (specSum io (bases.drop (bases.length - ks.length)) ks)
      else .panic := by
  obtain ⟨bs, rfl⟩ := exists_preimage bases hb
  have hrB : cfg.r < B ^ cfg.limbs := by rw [B_pow_eq']; exact hr
  rw [msmChunksWith_map hf, List.length_map, ← List.map_drop]
  split
  · rename_i hlen
    rw [msmChunksWith_ok (msmOK cfg hr0 hr) step hstep bs ks
        (fun k hk => inRange_intoBigint cfg hN hrB k (hks k hk)) hlen hB,
      msmSum_map_intoBigint cfg _ ks (fun k hk => lt_trans (hks k hk) hrB), omap_ok,
      specSum_map hf io hsm]
  · rw [msmChunksWith_panic step bs ks (by omega)]; rfl

theorem chunked_run_hom (cfg : Cfg) (hr0 : 0 < cfg.r) (hr : cfg.r < 2 ^ (64 * cfg.limbs))
    (bufSize : Nat) (adds : List (G × List Nat)) (hb : ∀ a ∈ adds, ∃ x, f x = a.1)
    (hP : ∀ a ∈ adds, a.2.length = cfg.limbs ∧ WF a.2 ∧ value a.2 < 2 ^ cfg.numBits)
    (hB : adds.length < 2 ^ 64 ∨ (0 < bufSize ∧ bufSize < 2 ^ 64)) :
    Chunked.run cfg bufSize adds
      = .ok (specSum io (adds.map (·.1)) (adds.map (fun a => value a.2))) := by
  obtain ⟨as, rfl⟩ := exists_preimage_pairs adds hb
  rw [chunked_run_map hf, Chunked.run_ok (msmOK cfg hr0 hr) bufSize as
    (fun a ha => hP (Prod.map f id a) (List.mem_map_of_mem ha)) (by simpa using hB), omap_ok,
    pairSum_eq_msmSumNat, ← specSum_map hf io hsm]
  simp [List.map_map, Function.comp_def]

end Transfer

section TransferHashMap
open Ark.DrvC05 (GIo specSum)
variable {H G : Type} [AddCommGroup H] [Add G] [Neg G] [Sub G] [Zero G] [DecidableEq H] [DecidableEq G]
  {f : H → G} (hf : OpHom f) (hinj : Function.Injective f)
  (io : GIo G) (hsm : ∀ k x, io.smul k (f x) = f (k • x))
include hf hinj hsm

/-- `HashMapPippenger`: every add history whose bases are killed by `r` (checked with the reference
    scalar multiplication, as the driver does), every buffer size -/
theorem hashMap_run_hom (cfg : Cfg) (hr0 : 0 < cfg.r) (hr : cfg.r < 2 ^ (64 * cfg.limbs))
    (hN : 0 < cfg.limbs) (bufSize : Nat) (adds : List (G × Nat))
    (hb : ∀ a ∈ adds, ∃ x, f x = a.1) (hord : ∀ a ∈ adds, io.smul cfg.r a.1 = 0)
    (hB : adds.length < 2 ^ 64 ∨ (0 < bufSize ∧ bufSize < 2 ^ 64)) :
    HashMapAcc.run cfg bufSize adds = .ok (specSum io (adds.map (·.1)) (adds.map (·.2))) := by
  obtain ⟨as, rfl⟩ := exists_preimage_pairs adds hb
  have hrB : cfg.r < B ^ cfg.limbs := by rw [B_pow_eq']; exact hr
  rw [hashMap_run_map hf hinj, HashMapAcc.run_ok (msmOK cfg hr0 hr) hr0 (Nat.le_of_lt hrB)
    (fun v hv => inRange_intoBigint cfg hN hrB v hv) bufSize as ?_ (by simpa using hB), omap_ok,
    natPairSum_eq_msmSumNat, ← specSum_map hf io hsm]
  · simp [List.map_map, Function.comp_def]
  · intro a ha
    have := hord (Prod.map f id a) (List.mem_map_of_mem ha)
    simp only [Prod.map, id] at this
    rw [hsm, ← hf.zero] at this
    exact hinj this

end TransferHashMap

end Ark.MsmHom

/-! ## C. the executable `Fp n` against `ZMod n` -/

namespace Ark.TeExec
open Ark Ark.Bytes Ark.Curve Ark.ScalarMul Ark.MsmHom

section fpz
variable {n : ℕ}

/-- canonical representative (for a prime modulus this is `SqrtP.ofZ`) -/
def ofZ (n : ℕ) (z : ZMod n) : Fp n := ⟨z.val⟩

theorem toZ_ofZ [NeZero n] (z : ZMod n) : toZ (ofZ n z) = z := ZMod.natCast_zmod_val z

theorem ofZ_val_lt [NeZero n] (z : ZMod n) : (ofZ n z).val < n := ZMod.val_lt z

theorem ofZ_toZ (a : Fp n) (ha : a.val < n) : ofZ n (toZ a) = a := by
  apply Fp.ext'
  show ((a.val : ℕ) : ZMod n).val = a.val
  rw [ZMod.val_natCast, Nat.mod_eq_of_lt ha]

theorem ofZ_injective [NeZero n] : Function.Injective (ofZ n) := by
  intro x y h
  have := congrArg toZ h
  rwa [toZ_ofZ, toZ_ofZ] at this

theorem pos_of_neZero [NeZero n] : 0 < n := Nat.pos_of_ne_zero (NeZero.ne n)

/-- `Spec.modInv` of a multiple of the modulus is `0`: the executable field has `0⁻¹ = 0` -/
theorem modInv_of_mod_zero (a m : ℕ) (hm : 0 < m) (ha : a % m = 0) : Spec.modInv a m = 0 := by
  unfold Spec.modInv
  rw [ha]
  have h : Spec.egcdAux (2 * m.log2 + 4) ((0 : ℕ) : ℤ) (m : ℤ) 1 0 = ((m : ℤ), 0) := by
    show Spec.egcdAux ((2 * m.log2 + 2) + 1 + 1) _ _ _ _ = _
    rw [Spec.egcdAux, if_neg (by exact_mod_cast hm.ne')]
    simp [Spec.egcdAux]
  rw [h]
  simp

/-- inversion of the executable field is inversion of `ZMod p` at EVERY element (`0⁻¹ = 0` on both sides) -/
theorem toZ_inv' {p : ℕ} (hp : p.Prime) (a : Fp p) : toZ a⁻¹ = (toZ a)⁻¹ := by
  by_cases ha : toZ a = 0
  · rw [ha, ZMod.inv_zero]
    have h0 : a.val % p = 0 := Nat.mod_eq_zero_of_dvd ((ZMod.natCast_eq_zero_iff a.val p).mp ha)
    show (((Spec.modInv a.val p % p : ℕ)) : ZMod p) = 0
    rw [modInv_of_mod_zero _ _ hp.pos h0]
    simp
  · exact toZ_inv hp a ha

theorem toZ_div {p : ℕ} (hp : p.Prime) (a b : Fp p) : toZ (a / b) = toZ a * (toZ b)⁻¹ := by
  show toZ (a * b⁻¹) = _
  rw [toZ_mul, toZ_inv' hp]

end fpz

/-! ## D. `TePt p a d` against the affine Edwards law over `ZMod p` -/

section te
variable {p a d : ℕ}

/-- residue classes of the coordinates -/
def toZP (P : TePt p a d) : ZMod p × ZMod p := (toZ P.x, toZ P.y)

/-- the point with canonical coordinates -/
def ofZP (p a d : ℕ) (P : ZMod p × ZMod p) : TePt p a d := ⟨ofZ p P.1, ofZ p P.2⟩

/-- both coordinates are canonical residues (what the driver's parser produces) -/
def Reduced (P : TePt p a d) : Prop := P.x.val < p ∧ P.y.val < p

instance (P : TePt p a d) : Decidable (Reduced P) := by unfold Reduced; infer_instance

theorem TePt.ext' {P Q : TePt p a d} (hx : P.x = Q.x) (hy : P.y = Q.y) : P = Q := by
  cases P; cases Q; simp only at hx hy; rw [hx, hy]

theorem toZP_inj (P Q : TePt p a d) (hP : Reduced P) (hQ : Reduced Q) (h : toZP P = toZP Q) : P = Q := by
  simp only [toZP, Prod.mk.injEq] at h
  exact TePt.ext' (toZ_inj _ _ hP.1 hQ.1 h.1) (toZ_inj _ _ hP.2 hQ.2 h.2)

theorem toZP_ofZP [NeZero p] (P : ZMod p × ZMod p) : toZP (ofZP p a d P) = P := by
  simp only [toZP, ofZP, toZ_ofZ]

theorem ofZP_toZP (P : TePt p a d) (hP : Reduced P) : ofZP p a d (toZP P) = P :=
  TePt.ext' (ofZ_toZ _ hP.1) (ofZ_toZ _ hP.2)

theorem reduced_ofZP [NeZero p] (P : ZMod p × ZMod p) : Reduced (ofZP p a d P) :=
  ⟨ofZ_val_lt _, ofZ_val_lt _⟩

theorem reduced_add (hp : 0 < p) (P Q : TePt p a d) : Reduced (P + Q) :=
  ⟨Nat.mod_lt _ hp, Nat.mod_lt _ hp⟩

theorem reduced_zero (hp : 0 < p) : Reduced (0 : TePt p a d) :=
  ⟨hp, Nat.mod_lt _ hp⟩

theorem reduced_neg (hp : 0 < p) (P : TePt p a d) (hP : Reduced P) : Reduced (-P) :=
  ⟨Nat.mod_lt _ hp, hP.2⟩

/-- (1) the executable addition IS the affine Edwards law over `ZMod p` — for every pair of points,
    on the curve or not, with vanishing denominators or not (`0⁻¹ = 0` on both sides) -/
theorem toZP_add (hp : p.Prime) (P Q : TePt p a d) :
    toZP (P + Q) = TE.affAdd (a : ZMod p) (d : ZMod p) (toZP P) (toZP Q) := by
  show toZP (TePt.teAdd P Q) = _
  simp only [toZP, TePt.teAdd, TE.affAdd, toZ_div hp, toZ_add, toZ_mul, toZ_sub hp.pos, toZ_one,
    toZ_ofNat]

theorem toZP_neg (hp : 0 < p) (P : TePt p a d) : toZP (-P) = TE.affNeg (toZP P) := by
  show toZP (TePt.teNeg P) = _
  simp only [toZP, TePt.teNeg, TE.affNeg, Bytes.toZ_neg hp]

theorem toZP_zero : toZP (0 : TePt p a d) = ((0 : ZMod p), (1 : ZMod p)) := by
  show (toZ (0 : Fp p), toZ (1 : Fp p)) = _
  rw [toZ_zero, toZ_one]

theorem toZP_sub (hp : p.Prime) (P Q : TePt p a d) :
    toZP (P - Q) = TE.affAdd (a : ZMod p) (d : ZMod p) (toZP P) (TE.affNeg (toZP Q)) := by
  show toZP (P + -Q) = _
  rw [toZP_add hp, toZP_neg hp.pos]

theorem onCurve_toZP (hp : p.Prime) (P : TePt p a d) :
    P.onCurve = TE.onCurve (a : ZMod p) (d : ZMod p) (toZP P) := by
  haveI : Fact p.Prime := ⟨hp⟩
  rw [Bool.eq_iff_iff, TE.onCurve_iff]
  unfold TePt.onCurve
  rw [beq_iff_eq]
  simp only [toZP]
  constructor
  · intro h
    have hz := congrArg toZ h
    simp only [toZ_add, toZ_mul, toZ_one, toZ_ofNat] at hz
    linear_combination hz
  · intro h
    refine toZ_inj _ _ (Nat.mod_lt _ hp.pos) (Nat.mod_lt _ hp.pos) ?_
    simp only [toZ_add, toZ_mul, toZ_one, toZ_ofNat]
    linear_combination h

/-- the same correspondences read from `ZMod p` to the executable points -/
theorem ofZP_add (hp : p.Prime) (P Q : ZMod p × ZMod p) :
    ofZP p a d (TE.affAdd (a : ZMod p) (d : ZMod p) P Q) = ofZP p a d P + ofZP p a d Q := by
  haveI : NeZero p := ⟨hp.ne_zero⟩
  refine toZP_inj _ _ (reduced_ofZP _) (reduced_add hp.pos _ _) ?_
  rw [toZP_add hp, toZP_ofZP, toZP_ofZP, toZP_ofZP]

theorem ofZP_neg (hp : p.Prime) (P : ZMod p × ZMod p) :
    ofZP p a d (TE.affNeg P) = -ofZP p a d P := by
  haveI : NeZero p := ⟨hp.ne_zero⟩
  refine toZP_inj _ _ (reduced_ofZP _) (reduced_neg hp.pos _ (reduced_ofZP _)) ?_
  rw [toZP_neg hp.pos, toZP_ofZP, toZP_ofZP]

theorem ofZP_zero (hp : p.Prime) : ofZP p a d ((0 : ZMod p), (1 : ZMod p)) = 0 := by
  haveI : NeZero p := ⟨hp.ne_zero⟩
  refine toZP_inj _ _ (reduced_ofZP _) (reduced_zero hp.pos) ?_
  rw [toZP_ofZP, toZP_zero]

theorem onCurve_ofZP (hp : p.Prime) (P : ZMod p × ZMod p) :
    (ofZP p a d P).onCurve = TE.onCurve (a : ZMod p) (d : ZMod p) P := by
  haveI : NeZero p := ⟨hp.ne_zero⟩
  rw [onCurve_toZP hp, toZP_ofZP]

end te


/-! ### the reference scalar multiplication is the generic double-and-add recursion -/

theorem tePt_smulAux_eq {p a d : ℕ} (fuel k : ℕ) (base acc : TePt p a d) :
    TePt.smulAux fuel k base acc = smulAuxG fuel k base acc := by
  induction fuel generalizing k base acc with
  | zero => rfl
  | succ fuel ih => rw [TePt.smulAux, smulAuxG, ih]; rfl

theorem tePt_smul_eq {p a d : ℕ} (k : ℕ) (P : TePt p a d) : TePt.smul k P = smulG k P :=
  tePt_smulAux_eq _ _ _ _

theorem smulAuxG_map {S T : Type} [Add S] [Add T] (φ : S → T) (h : ∀ x y, φ (x + y) = φ x + φ y)
    (fuel k : ℕ) (b acc : S) : φ (smulAuxG fuel k b acc) = smulAuxG fuel k (φ b) (φ acc) := by
  induction fuel generalizing k b acc with
  | zero => rfl
  | succ fuel ih =>
    rw [smulAuxG, smulAuxG]
    split
    · rfl
    · rw [ih, h]
      split
      · rw [h]
      · rfl

theorem smulG_map {S T : Type} [Add S] [Zero S] [Add T] [Zero T] (φ : S → T)
    (h : ∀ x y, φ (x + y) = φ x + φ y) (h0 : φ 0 = 0) (k : ℕ) (P : S) :
    φ (smulG k P) = smulG k (φ P) := by
  unfold smulG; rw [smulAuxG_map φ h, h0]

/-! ### (2) the group of reduced curve points under the executable operations -/

/-- complete twisted-Edwards curve over `F_p`: `a` a non-zero square, `d` a non-square -/
class CompleteTE (p a d : ℕ) : Prop where
  sq : ∃ α : ZMod p, α ≠ 0 ∧ (a : ZMod p) = α * α
  nonsq : ¬ IsSquare (d : ZMod p)

/-- the carrier: canonical coordinates, on the curve -/
abbrev TePoint (p a d : ℕ) : Type := {P : TePt p a d // Reduced P ∧ P.onCurve = true}

section group
variable {p a d : ℕ} [hpF : Fact p.Prime] [hc : CompleteTE p a d]

theorem CompleteTE.defined (P Q : ZMod p × ZMod p)
    (hP : TE.onCurve (a : ZMod p) (d : ZMod p) P = true)
    (hQ : TE.onCurve (a : ZMod p) (d : ZMod p) Q = true) :
    TE.affAddDefined (d : ZMod p) P Q = true := by
  obtain ⟨α, hα, ha⟩ := hc.sq
  exact TE.complete _ _ α ha hα hc.nonsq P Q hP hQ

/-- the Mathlib-level group of curve points (`TE.addCommGroupOfDefined`, C03c) -/
instance pointGroup : AddCommGroup (TE.Point (a : ZMod p) (d : ZMod p)) :=
  TE.addCommGroupOfDefined _ _ (CompleteTE.defined (p := p) (a := a) (d := d))

omit hc in
theorem onCurve_zero : (0 : TePt p a d).onCurve = true := by
  rw [onCurve_toZP hpF.out, toZP_zero]; exact TE.zero_onCurve _ _

theorem onCurve_add (P Q : TePt p a d) (hP : P.onCurve = true) (hQ : Q.onCurve = true) :
    (P + Q).onCurve = true := by
  rw [onCurve_toZP hpF.out] at hP hQ ⊢
  rw [toZP_add hpF.out]
  exact TE.affAdd_onCurve _ _ _ _ hP hQ (CompleteTE.defined _ _ hP hQ)

omit hc in
theorem onCurve_neg (P : TePt p a d) (hP : P.onCurve = true) : (-P).onCurve = true := by
  rw [onCurve_toZP hpF.out] at hP ⊢
  rw [toZP_neg hpF.out.pos, TE.affNeg_onCurve]; exact hP

instance : Zero (TePoint p a d) := ⟨⟨0, reduced_zero hpF.out.pos, onCurve_zero⟩⟩
instance : Add (TePoint p a d) :=
  ⟨fun P Q => ⟨P.1 + Q.1, reduced_add hpF.out.pos _ _, onCurve_add _ _ P.2.2 Q.2.2⟩⟩
instance : Neg (TePoint p a d) :=
  ⟨fun P => ⟨-P.1, reduced_neg hpF.out.pos _ P.2.1, onCurve_neg _ P.2.2⟩⟩
instance : Sub (TePoint p a d) :=
  ⟨fun P Q => ⟨P.1 - Q.1, reduced_add hpF.out.pos _ _,
    onCurve_add _ _ P.2.2 (onCurve_neg _ Q.2.2)⟩⟩
/-- `k • P` is the driver's reference scalar multiplication `TePt.smul` (see `tePoint_nsmul_val`) -/
instance : SMul ℕ (TePoint p a d) := ⟨fun k P => smulG k P⟩
/-- `k • P` for `k : ℤ` is `TePt.smulInt` (see `tePoint_zsmul_val`) -/
instance : SMul ℤ (TePoint p a d) :=
  ⟨fun k P => if k < 0 then -(smulG k.natAbs P) else smulG k.toNat P⟩

theorem tePoint_add_val (P Q : TePoint p a d) : (P + Q).1 = P.1 + Q.1 := rfl
theorem tePoint_zero_val : (0 : TePoint p a d).1 = 0 := rfl
theorem tePoint_neg_val (P : TePoint p a d) : (-P).1 = -P.1 := rfl
theorem tePoint_sub_val (P Q : TePoint p a d) : (P - Q).1 = P.1 - Q.1 := rfl

theorem tePoint_nsmul_val (k : ℕ) (P : TePoint p a d) : (k • P).1 = TePt.smul k P.1 := by
  rw [tePt_smul_eq]
  exact smulG_map Subtype.val (fun _ _ => rfl) rfl k P

theorem tePoint_zsmul_val (k : ℤ) (P : TePoint p a d) : (k • P).1 = TePt.smulInt k P.1 := by
  show (if k < 0 then -(smulG k.natAbs P) else smulG k.toNat P).1 = _
  unfold TePt.smulInt
  split
  · exact congrArg TePt.teNeg (tePoint_nsmul_val _ P)
  · exact tePoint_nsmul_val _ P

/-- residue classes: the isomorphism onto the Mathlib-level group -/
def toPoint (P : TePoint p a d) : TE.Point (a : ZMod p) (d : ZMod p) :=
  ⟨toZP P.1, by rw [← onCurve_toZP hpF.out]; exact P.2.2⟩

/-- canonical representatives -/
def ofPoint (P : TE.Point (a : ZMod p) (d : ZMod p)) : TePoint p a d :=
  ⟨ofZP p a d P.1, reduced_ofZP _, by rw [onCurve_ofZP hpF.out]; exact P.2⟩

omit hc in
theorem toPoint_ofPoint (P : TE.Point (a : ZMod p) (d : ZMod p)) : toPoint (ofPoint P) = P :=
  Subtype.ext (toZP_ofZP _)

omit hc in
theorem ofPoint_toPoint (P : TePoint p a d) : ofPoint (toPoint P) = P :=
  Subtype.ext (ofZP_toZP _ P.2.1)

omit hc in
theorem toPoint_injective : Function.Injective (toPoint (p := p) (a := a) (d := d)) := by
  intro P Q h
  rw [← ofPoint_toPoint P, h, ofPoint_toPoint]

theorem toPoint_zero : toPoint (0 : TePoint p a d) = 0 := Subtype.ext toZP_zero

theorem toPoint_add (P Q : TePoint p a d) : toPoint (P + Q) = toPoint P + toPoint Q :=
  Subtype.ext (toZP_add hpF.out _ _)

theorem toPoint_neg (P : TePoint p a d) : toPoint (-P) = -toPoint P :=
  Subtype.ext (toZP_neg hpF.out.pos _)

theorem toPoint_sub (P Q : TePoint p a d) : toPoint (P - Q) = toPoint P - toPoint Q := by
  rw [sub_eq_add_neg]
  exact Subtype.ext (toZP_sub hpF.out _ _)

theorem toPoint_smulG (k : ℕ) (P : TePoint p a d) : toPoint (smulG k P) = k • toPoint P := by
  rw [smulG_map toPoint toPoint_add toPoint_zero, smulG_spec]

theorem toPoint_nsmul (k : ℕ) (P : TePoint p a d) : toPoint (k • P) = k • toPoint P :=
  toPoint_smulG k P

theorem toPoint_zsmul (k : ℤ) (P : TePoint p a d) : toPoint (k • P) = k • toPoint P := by
  show toPoint (if k < 0 then -(smulG k.natAbs P) else smulG k.toNat P) = _
  split
  · rename_i hk
    have h : k = -((k.natAbs : ℕ) : ℤ) := by omega
    rw [toPoint_neg, toPoint_smulG]
    conv_rhs => rw [h, neg_smul, natCast_zsmul]
  · rename_i hk
    have h : k = ((k.toNat : ℕ) : ℤ) := by omega
    rw [toPoint_smulG]
    conv_rhs => rw [h, natCast_zsmul]

/-- **the reduced curve points form an abelian group under the EXECUTABLE operations** `TePt.teAdd`,
    `TePt.teNeg`, `(0, 1)`, `TePt.smul`, `TePt.smulInt` (the axioms are pulled back along `toPoint`) -/
instance tePointGroup : AddCommGroup (TePoint p a d) :=
  Function.Injective.addCommGroup toPoint toPoint_injective toPoint_zero toPoint_add toPoint_neg
    toPoint_sub (fun P k => toPoint_nsmul k P) (fun P k => toPoint_zsmul k P)

/-- … isomorphic to the group of points over `ZMod p` -/
def tePointEquiv : TePoint p a d ≃+ TE.Point (a : ZMod p) (d : ZMod p) where
  toFun := toPoint
  invFun := ofPoint
  left_inv := ofPoint_toPoint
  right_inv := toPoint_ofPoint
  map_add' := toPoint_add

/-- the inclusion into all pairs preserves the operations the MSM model uses -/
theorem val_opHom : OpHom (Subtype.val : TePoint p a d → TePt p a d) :=
  ⟨rfl, fun _ _ => rfl, fun _ => rfl, fun _ _ => rfl⟩

theorem val_smul (k : ℕ) (P : TePoint p a d) :
    (DrvC05.teIo p a d).smul k P.1 = (k • P : TePoint p a d).1 := (tePoint_nsmul_val k P).symm

end group


/-! ## E. `Fp r` with `+`: the discrete logarithms of `PairingOutput` -/

/-- the carrier: canonical residues -/
abbrev ZrPoint (r : ℕ) : Type := {e : Fp r // e.val < r}

section zr
variable {r : ℕ} [hr : NeZero r]

theorem ofInt_val_lt (i : ℤ) : (Fp.ofInt r i).val < r := by
  have hpos : (0 : ℤ) < (r : ℤ) := by exact_mod_cast pos_of_neZero (n := r)
  have h1 := Int.emod_lt_of_pos i hpos
  have h2 := Int.emod_nonneg i hpos.ne'
  show (i % (r : ℤ)).toNat < r
  omega

theorem toZ_ofInt (i : ℤ) : toZ (Fp.ofInt r i) = (i : ZMod r) := by
  have hpos : (0 : ℤ) < (r : ℤ) := by exact_mod_cast pos_of_neZero (n := r)
  show (((i % (r : ℤ)).toNat : ℕ) : ZMod r) = i
  rw [← Int.cast_natCast, Int.toNat_of_nonneg (Int.emod_nonneg i hpos.ne'), ZMod.intCast_mod]

instance : Zero (ZrPoint r) := ⟨⟨0, pos_of_neZero⟩⟩
instance : Add (ZrPoint r) := ⟨fun x y => ⟨x.1 + y.1, Nat.mod_lt _ pos_of_neZero⟩⟩
instance : Neg (ZrPoint r) := ⟨fun x => ⟨-x.1, Nat.mod_lt _ pos_of_neZero⟩⟩
instance : Sub (ZrPoint r) := ⟨fun x y => ⟨x.1 - y.1, Nat.mod_lt _ pos_of_neZero⟩⟩
/-- the driver's reference multiplication `k·e = k * e mod r` (`DrvC05.zrIo`) -/
instance : SMul ℕ (ZrPoint r) := ⟨fun k x => ⟨Fp.ofNat r (k * x.1.val), Nat.mod_lt _ pos_of_neZero⟩⟩
instance : SMul ℤ (ZrPoint r) := ⟨fun k x => ⟨Fp.ofInt r (k * x.1.val), ofInt_val_lt _⟩⟩

/-- residue class -/
def toZr (x : ZrPoint r) : ZMod r := toZ x.1
/-- canonical representative -/
def ofZr (z : ZMod r) : ZrPoint r := ⟨ofZ r z, ofZ_val_lt z⟩

theorem toZr_ofZr (z : ZMod r) : toZr (ofZr z) = z := toZ_ofZ z
theorem ofZr_toZr (x : ZrPoint r) : ofZr (toZr x) = x := Subtype.ext (ofZ_toZ _ x.2)

theorem toZr_injective : Function.Injective (toZr (r := r)) := by
  intro x y h
  rw [← ofZr_toZr x, h, ofZr_toZr]

theorem toZr_zero : toZr (0 : ZrPoint r) = 0 := toZ_zero
theorem toZr_add (x y : ZrPoint r) : toZr (x + y) = toZr x + toZr y := toZ_add _ _
theorem toZr_neg (x : ZrPoint r) : toZr (-x) = -toZr x := Bytes.toZ_neg pos_of_neZero _
theorem toZr_sub (x y : ZrPoint r) : toZr (x - y) = toZr x - toZr y := toZ_sub pos_of_neZero _ _

theorem toZr_nsmul (k : ℕ) (x : ZrPoint r) : toZr (k • x) = k • toZr x := by
  show toZ (Fp.ofNat r (k * x.1.val)) = k • toZ x.1
  rw [toZ_ofNat, nsmul_eq_mul, Nat.cast_mul]; rfl

theorem toZr_zsmul (k : ℤ) (x : ZrPoint r) : toZr (k • x) = k • toZr x := by
  show toZ (Fp.ofInt r (k * x.1.val)) = k • toZ x.1
  rw [toZ_ofInt, zsmul_eq_mul, Int.cast_mul, Int.cast_natCast]; rfl

/-- the reduced residues under the executable `+`, `-`, `0` of `Fp r` form an abelian group … -/
instance zrPointGroup : AddCommGroup (ZrPoint r) :=
  Function.Injective.addCommGroup toZr toZr_injective toZr_zero toZr_add toZr_neg toZr_sub
    (fun x k => toZr_nsmul k x) (fun x k => toZr_zsmul k x)

/-- … which is `ZMod r` -/
def zrPointEquiv : ZrPoint r ≃+ ZMod r where
  toFun := toZr
  invFun := ofZr
  left_inv := ofZr_toZr
  right_inv := toZr_ofZr
  map_add' := toZr_add

theorem zr_val_opHom : OpHom (Subtype.val : ZrPoint r → Fp r) :=
  ⟨rfl, fun _ _ => rfl, fun _ => rfl, fun _ _ => rfl⟩

theorem zr_val_smul (k : ℕ) (x : ZrPoint r) :
    (DrvC05.zrIo r).smul k x.1 = (k • x : ZrPoint r).1 := rfl

/-- the driver's reference sum over `Fp r` is `Σ kᵢ·eᵢ mod r` -/
theorem zr_specSum_val (es : List (Fp r)) (ks : List ℕ) :
    (DrvC05.specSum (DrvC05.zrIo r) es ks).val
      = ((es.zip ks).map (fun a => a.2 * a.1.val)).sum % r := by
  unfold DrvC05.specSum
  have key : ∀ (l : List (Fp r × ℕ)) (acc : Fp r), acc.val < r →
      (l.foldl (fun acc pk => acc + (DrvC05.zrIo r).smul pk.2 pk.1) acc).val
        = (acc.val + (l.map (fun a => a.2 * a.1.val)).sum) % r := by
    intro l
    induction l with
    | nil => intro acc h; simp [Nat.mod_eq_of_lt h]
    | cons a l ih =>
      intro acc h
      have hlt : (acc + (DrvC05.zrIo r).smul a.2 a.1).val < r := Nat.mod_lt _ pos_of_neZero
      rw [List.foldl_cons, ih _ hlt, List.map_cons, List.sum_cons]
      have e1 : (acc.val + (a.2 * a.1.val) % r) % r ≡ acc.val + a.2 * a.1.val [MOD r] :=
        (Nat.mod_modEq _ _).trans ((Nat.ModEq.refl _).add (Nat.mod_modEq _ _))
      have e2 := e1.add_right (l.map (fun a => a.2 * a.1.val)).sum
      rw [Nat.add_assoc] at e2
      exact e2
  rw [key _ 0 (pos_of_neZero (n := r))]
  show (0 + _) % r = _
  rw [Nat.zero_add]

end zr

end Ark.TeExec

/-! ## F. the short-Weierstrass executable spec group `AffPt p E` against `SW.affAdd` over `ZMod p`
    and Mathlib's `WeierstrassCurve.Affine.Point` (bridge of C03a) -/

namespace Ark.SwExec
open Ark Ark.Bytes Ark.Curve Ark.TeExec Ark.ScalarMul Ark.MsmHom

section sw
variable {p : ℕ} {E : SWParams p}

/-- residue classes of the coordinates -/
def toZO (P : AffPt p E) : Option (ZMod p × ZMod p) := P.pt.map (fun xy => (toZ xy.1, toZ xy.2))

/-- canonical lift -/
def ofZO (p : ℕ) (E : SWParams p) (o : Option (ZMod p × ZMod p)) : AffPt p E :=
  ⟨o.map (fun xy => (ofZ p xy.1, ofZ p xy.2))⟩

/-- both coordinates of a finite point are canonical residues -/
def Reduced (P : AffPt p E) : Prop :=
  match P.pt with
  | none => True
  | some (x, y) => x.val < p ∧ y.val < p

instance (P : AffPt p E) : Decidable (Reduced P) := by
  unfold Reduced; split <;> infer_instance

theorem toZ_natCast (n : ℕ) : toZ ((n : ℕ) : Fp p) = (n : ZMod p) := toZ_ofNat n

theorem toZ_eq_iff (x y : Fp p) (hx : x.val < p) (hy : y.val < p) : toZ x = toZ y ↔ x = y :=
  ⟨toZ_inj x y hx hy, fun h => by rw [h]⟩

theorem toZO_inj (P Q : AffPt p E) (hP : Reduced P) (hQ : Reduced Q) (h : toZO P = toZO Q) : P = Q := by
  obtain ⟨_ | ⟨x1, y1⟩⟩ := P <;> obtain ⟨_ | ⟨x2, y2⟩⟩ := Q
  · rfl
  · simp [toZO] at h
  · simp [toZO] at h
  · simp only [toZO, Option.map_some, Option.some.injEq, Prod.mk.injEq] at h
    have hP' : x1.val < p ∧ y1.val < p := hP
    have hQ' : x2.val < p ∧ y2.val < p := hQ
    rw [toZ_inj _ _ hP'.1 hQ'.1 h.1, toZ_inj _ _ hP'.2 hQ'.2 h.2]

theorem toZO_ofZO [NeZero p] (o : Option (ZMod p × ZMod p)) : toZO (ofZO p E o) = o := by
  rcases o with _ | ⟨x, y⟩
  · rfl
  · show some (toZ (ofZ p x), toZ (ofZ p y)) = some (x, y)
    rw [TeExec.toZ_ofZ, TeExec.toZ_ofZ]

theorem reduced_ofZO [NeZero p] (o : Option (ZMod p × ZMod p)) : Reduced (ofZO p E o) := by
  rcases o with _ | ⟨x, y⟩
  · trivial
  · exact ⟨ofZ_val_lt x, ofZ_val_lt y⟩

theorem ofZO_toZO (P : AffPt p E) (hP : Reduced P) : ofZO p E (toZO P) = P := by
  obtain ⟨_ | ⟨x, y⟩⟩ := P
  · rfl
  · have hP' : x.val < p ∧ y.val < p := hP
    simp [toZO, ofZO, ofZ_toZ _ hP'.1, ofZ_toZ _ hP'.2]

theorem toZO_zero : toZO (0 : AffPt p E) = none := rfl

theorem toZO_neg (hp : 0 < p) (P : AffPt p E) : toZO (-P) = SW.affNeg (toZO P) := by
  obtain ⟨_ | ⟨x, y⟩⟩ := P
  · rfl
  · show toZO (AffPt.affNeg ⟨some (x, y)⟩) = _
    simp [toZO, AffPt.affNeg, SW.affNeg, Bytes.toZ_neg hp]

theorem reduced_neg (hp : 0 < p) (P : AffPt p E) (hP : Reduced P) : Reduced (-P) := by
  obtain ⟨_ | ⟨x, y⟩⟩ := P
  · trivial
  · have hP' : x.val < p ∧ y.val < p := hP
    exact ⟨hP'.1, Nat.mod_lt _ hp⟩

theorem onCurve_toZO (hp : p.Prime) (P : AffPt p E) :
    P.onCurve = SW.onCurve (toZ E.a) (toZ E.b) (toZO P) := by
  haveI : Fact p.Prime := ⟨hp⟩
  obtain ⟨_ | ⟨x, y⟩⟩ := P
  · rfl
  · rw [Bool.eq_iff_iff]
    show (y * y == x * x * x + E.a * x + E.b) = true ↔ SW.onCurve _ _ (some (toZ x, toZ y)) = true
    rw [SW.onCurve_some, beq_iff_eq]
    constructor
    · intro h
      have hz := congrArg toZ h
      simpa only [toZ_add, toZ_mul] using hz
    · intro h
      refine toZ_inj _ _ (Nat.mod_lt _ hp.pos) (Nat.mod_lt _ hp.pos) ?_
      simpa only [toZ_add, toZ_mul] using h

theorem reduced_add (hp : 0 < p) (P Q : AffPt p E) (hP : Reduced P) (hQ : Reduced Q) :
    Reduced (P + Q) := by
  obtain ⟨_ | ⟨x1, y1⟩⟩ := P
  · exact hQ
  obtain ⟨_ | ⟨x2, y2⟩⟩ := Q
  · exact hP
  show Reduced (AffPt.affAdd ⟨some (x1, y1)⟩ ⟨some (x2, y2)⟩)
  simp only [AffPt.affAdd]
  split
  · split
    · exact ⟨Nat.mod_lt _ hp, Nat.mod_lt _ hp⟩
    · trivial
  · exact ⟨Nat.mod_lt _ hp, Nat.mod_lt _ hp⟩

/-- the executable chord-and-tangent law IS `SW.affAdd` over `ZMod p` on reduced curve points
    (odd prime `p`; off the curve the two case distinctions differ) -/
theorem toZO_add (hp : p.Prime) (h2 : (2 : ZMod p) ≠ 0) (P Q : AffPt p E)
    (hP : Reduced P) (hQ : Reduced Q) (cP : P.onCurve = true) (cQ : Q.onCurve = true) :
    toZO (P + Q) = SW.affAdd (toZ E.a) (toZO P) (toZO Q) := by
  haveI : Fact p.Prime := ⟨hp⟩
  rw [onCurve_toZO hp] at cP cQ
  obtain ⟨_ | ⟨x1, y1⟩⟩ := P
  · exact (SW.affAdd_none_left _ _).symm
  obtain ⟨_ | ⟨x2, y2⟩⟩ := Q
  · exact (SW.affAdd_none_right _ _).symm
  have hP' : x1.val < p ∧ y1.val < p := hP
  have hQ' : x2.val < p ∧ y2.val < p := hQ
  have e1 : toZ y1 * toZ y1 = toZ x1 * toZ x1 * toZ x1 + toZ E.a * toZ x1 + toZ E.b :=
    (SW.onCurve_some _ _ _ _).1 cP
  have e2 : toZ y2 * toZ y2 = toZ x2 * toZ x2 * toZ x2 + toZ E.a * toZ x2 + toZ E.b :=
    (SW.onCurve_some _ _ _ _).1 cQ
  show toZO (AffPt.affAdd ⟨some (x1, y1)⟩ ⟨some (x2, y2)⟩) = SW.affAdd _ (some (toZ x1, toZ y1))
    (some (toZ x2, toZ y2))
  simp only [AffPt.affAdd]
  by_cases hx : x1 = x2
  · subst hx
    rw [if_pos rfl]
    by_cases hy : y1 = y2 ∧ y1 ≠ 0
    · obtain ⟨rfl, hy0⟩ := hy
      rw [if_pos ⟨rfl, hy0⟩]
      have hz0 : toZ y1 ≠ 0 := by
        intro h
        apply hy0
        apply toZ_inj _ _ hP'.2 hp.pos
        rw [h]; exact toZ_zero.symm
      have hsum : ¬ (toZ x1 = toZ x1 ∧ toZ y1 + toZ y1 = 0) := by
        rintro ⟨_, h⟩
        have : (2 : ZMod p) * toZ y1 = 0 := by linear_combination h
        rcases mul_eq_zero.1 this with h | h
        · exact h2 h
        · exact hz0 h
      have hsum' : ¬ (toZ y1 + toZ y1 = 0) := fun h => hsum ⟨rfl, h⟩
      simp only [SW.affAdd, true_and, if_neg hsum', if_true, toZO, Option.map_some, toZ_sub hp.pos,
        toZ_mul, toZ_div hp, toZ_add, toZ_natCast, Option.some.injEq, Prod.mk.injEq]
      push_cast
      constructor <;> ring
    · rw [if_neg hy]
      have hsum : toZ y1 + toZ y2 = 0 := by
        rcases SW.y_eq_or_neg e1 e2 with h | h
        · have hyy : y1 = y2 := toZ_inj _ _ hP'.2 hQ'.2 h
          subst hyy
          have : y1 = 0 := by
            by_contra h0; exact hy ⟨rfl, h0⟩
          rw [this, toZ_zero]; ring
        · exact h
      rw [SW.affAdd_opposite _ _ _ _ hsum]
      rfl
  · rw [if_neg hx]
    have hxz : toZ x1 ≠ toZ x2 := fun h => hx (toZ_inj _ _ hP'.1 hQ'.1 h)
    have hsum : ¬ (toZ x1 = toZ x2 ∧ toZ y1 + toZ y2 = 0) := fun h => hxz h.1
    simp only [SW.affAdd, if_neg hsum, if_neg hxz, toZO, Option.map_some, toZ_sub hp.pos, toZ_mul,
      toZ_div hp]

end sw

/-! ### the group of reduced curve points under the executable operations -/

/-- non-singular curve over `F_p` (`Δ = −16(4a³ + 27b²) ≠ 0 mod p`; forces `p ≠ 2`) -/
class NonsingSW (p : ℕ) (E : SWParams p) : Prop where
  disc : -16 * (4 * (toZ E.a) ^ 3 + 27 * (toZ E.b) ^ 2) ≠ 0

/-- the carrier -/
abbrev SwPoint (p : ℕ) (E : SWParams p) : Type := {P : AffPt p E // Reduced P ∧ P.onCurve = true}

section group
variable {p : ℕ} {E : SWParams p} [hpF : Fact p.Prime] [hE : NonsingSW p E]

omit hE in
theorem two_ne_zero' (E : SWParams p) [hE : NonsingSW p E] : (2 : ZMod p) ≠ 0 := by
  intro h
  apply hE.disc
  have : (16 : ZMod p) = 0 := by linear_combination (8 : ZMod p) * h
  linear_combination (-(4 * (toZ E.a) ^ 3 + 27 * (toZ E.b) ^ 2)) * this

theorem hΔ : (SW.wcurve (toZ E.a) (toZ E.b)).Δ ≠ 0 := by
  rw [SW.wcurve_Δ]; exact hE.disc

theorem onCurve_add (P Q : AffPt p E) (hP : Reduced P ∧ P.onCurve = true)
    (hQ : Reduced Q ∧ Q.onCurve = true) : (P + Q).onCurve = true := by
  rw [onCurve_toZO hpF.out, toZO_add hpF.out (two_ne_zero' E) P Q hP.1 hQ.1 hP.2 hQ.2]
  exact SW.onCurve_affAdd _ _ _ _ (by rw [← onCurve_toZO hpF.out]; exact hP.2)
    (by rw [← onCurve_toZO hpF.out]; exact hQ.2)

omit hE in
theorem onCurve_neg (P : AffPt p E) (hP : P.onCurve = true) : (-P).onCurve = true := by
  rw [onCurve_toZO hpF.out] at hP ⊢
  rw [toZO_neg hpF.out.pos, SW.onCurve_affNeg]; exact hP

omit hE in
theorem neg_mem (P : SwPoint p E) : Reduced (-P.1) ∧ (-P.1).onCurve = true :=
  ⟨reduced_neg hpF.out.pos _ P.2.1, onCurve_neg _ P.2.2⟩

instance : Zero (SwPoint p E) := ⟨⟨0, trivial, rfl⟩⟩
instance : Add (SwPoint p E) :=
  ⟨fun P Q => ⟨P.1 + Q.1, reduced_add hpF.out.pos _ _ P.2.1 Q.2.1, onCurve_add _ _ P.2 Q.2⟩⟩
instance : Neg (SwPoint p E) := ⟨fun P => ⟨-P.1, neg_mem P⟩⟩
instance : Sub (SwPoint p E) :=
  ⟨fun P Q => ⟨P.1 - Q.1, reduced_add hpF.out.pos _ _ P.2.1 (neg_mem Q).1,
    onCurve_add _ _ P.2 (neg_mem Q)⟩⟩

/-- residue classes as a point of the curve over `ZMod p` -/
def toZS (P : SwPoint p E) : Option (ZMod p × ZMod p) := toZO P.1

omit hE in
theorem toZS_onCurve (P : SwPoint p E) : SW.onCurve (toZ E.a) (toZ E.b) (toZS P) = true := by
  rw [toZS, ← onCurve_toZO hpF.out]; exact P.2.2

omit hE in
theorem toZS_injective : Function.Injective (toZS (p := p) (E := E)) :=
  fun P Q h => Subtype.ext (toZO_inj _ _ P.2.1 Q.2.1 h)

theorem toZS_add (P Q : SwPoint p E) : toZS (P + Q) = SW.affAdd (toZ E.a) (toZS P) (toZS Q) :=
  toZO_add hpF.out (two_ne_zero' E) _ _ P.2.1 Q.2.1 P.2.2 Q.2.2

theorem toZS_neg (P : SwPoint p E) : toZS (-P) = SW.affNeg (toZS P) := toZO_neg hpF.out.pos _

/-- **the reduced curve points form an abelian group under the EXECUTABLE operations**
    `AffPt.affAdd`, `AffPt.affNeg`, `none` (the axioms come from the bridge of C03a to Mathlib's group
    of nonsingular points) -/
instance swPointGroup : AddCommGroup (SwPoint p E) where
  add_assoc P Q R := toZS_injective (by
    rw [toZS_add, toZS_add, toZS_add, toZS_add]
    exact SW.affAdd_assoc hΔ _ _ _ (toZS_onCurve P) (toZS_onCurve Q) (toZS_onCurve R))
  zero_add P := toZS_injective (by rw [toZS_add]; exact SW.affAdd_none_left _ _)
  add_zero P := toZS_injective (by rw [toZS_add]; exact SW.affAdd_none_right _ _)
  nsmul := nsmulRec
  zsmul := zsmulRec
  neg_add_cancel P := toZS_injective (by
    rw [toZS_add, toZS_neg, SW.affAdd_comm hΔ _ _ (by rw [SW.onCurve_affNeg]; exact toZS_onCurve P)
      (toZS_onCurve P)]
    exact SW.affAdd_neg_self _)
  add_comm P Q := toZS_injective (by
    rw [toZS_add, toZS_add]; exact SW.affAdd_comm hΔ _ _ (toZS_onCurve P) (toZS_onCurve Q))
  sub_eq_add_neg _ _ := rfl

theorem swPoint_nsmul_val (k : ℕ) (P : SwPoint p E) : (k • P).1 = AffPt.smul k P.1 := by
  rw [affPt_smul_eq, ← smulG_spec k P]
  exact smulG_map Subtype.val (fun _ _ => rfl) rfl k P

theorem swPoint_zsmul_val (k : ℤ) (P : SwPoint p E) : (k • P).1 = AffPt.smulInt k P.1 := by
  unfold AffPt.smulInt
  split
  · rename_i hk
    have h : k = -((k.natAbs : ℕ) : ℤ) := by omega
    rw [← swPoint_nsmul_val]
    conv_lhs => rw [h, neg_smul, natCast_zsmul]
    rfl
  · rename_i hk
    have h : k = ((k.toNat : ℕ) : ℤ) := by omega
    rw [← swPoint_nsmul_val]
    conv_lhs => rw [h, natCast_zsmul]

theorem sw_val_opHom : OpHom (Subtype.val : SwPoint p E → AffPt p E) :=
  ⟨rfl, fun _ _ => rfl, fun _ => rfl, fun _ _ => rfl⟩

theorem sw_val_smul (k : ℕ) (P : SwPoint p E) :
    (DrvC05.swIo p E).smul k P.1 = (k • P : SwPoint p E).1 := (swPoint_nsmul_val k P).symm

/-! ### isomorphism with Mathlib's group of nonsingular points -/

/-- canonical lift of a Mathlib point -/
def fromW (P : (SW.wcurve (toZ E.a) (toZ E.b)).Point) : SwPoint p E :=
  haveI : NeZero p := ⟨hpF.out.ne_zero⟩
  ⟨ofZO p E (SW.ofPoint P), reduced_ofZO _, by
    rw [onCurve_toZO hpF.out, toZO_ofZO]; exact SW.onCurve_ofPoint P⟩

omit hE in
theorem toZS_fromW (P : (SW.wcurve (toZ E.a) (toZ E.b)).Point) : toZS (fromW P) = SW.ofPoint P :=
  haveI : NeZero p := ⟨hpF.out.ne_zero⟩
  toZO_ofZO _

theorem fromW_add (P Q : (SW.wcurve (toZ E.a) (toZ E.b)).Point) :
    fromW (P + Q) = fromW P + fromW Q :=
  toZS_injective (by rw [toZS_add, toZS_fromW, toZS_fromW, toZS_fromW, SW.ofPoint_add])

theorem fromW_bijective : Function.Bijective (fromW (p := p) (E := E)) := by
  constructor
  · intro P Q h
    apply SW.ofPoint_injective
    rw [← toZS_fromW P, h, toZS_fromW]
  · intro S
    obtain ⟨Q, hQ⟩ := SW.exists_point hΔ (toZS S) (toZS_onCurve S)
    exact ⟨Q, toZS_injective (by rw [toZS_fromW, hQ])⟩

/-- `SwPoint p E` is Mathlib's `WeierstrassCurve.Affine.Point` of `y² = x³ + a x + b` over `ZMod p` -/
noncomputable def swPointEquiv : (SW.wcurve (toZ E.a) (toZ E.b)).Point ≃+ SwPoint p E :=
  AddEquiv.ofBijective (AddHom.mk fromW fromW_add) fromW_bijective

theorem swPointEquiv_apply (P : (SW.wcurve (toZ E.a) (toZ E.b)).Point) :
    toZO (swPointEquiv P).1 = SW.ofPoint P := toZS_fromW P

end group

end Ark.SwExec
