import Ark.Model.Subgroup
import Ark.Proofs.ScalarMulA
import Ark.Proofs.ScalarMulB
import Mathlib.Algebra.Module.NatInt
import Mathlib.Algebra.Group.Hom.Defs
import Mathlib.Algebra.Group.Int.Defs
import Mathlib.Tactic.Abel
import Mathlib.Tactic.Module
import Mathlib.Tactic.Ring
import Mathlib.Tactic.Linarith
import Mathlib.Tactic.LinearCombination
/-
  Ark.Proofs.Subgroup — helper lemmas for C12 (subgroup membership tests, cofactor clearing of
  `Ark.Model.Subgroup`), over Mathlib's `[AddCommGroup G]` with a lawful `==`.
  The scalar multiplications are the C04 models; their correctness (`value s • P`) is imported from
  `Ark.Proofs.ScalarMulA` / `Ark.Proofs.ScalarMulB`.
-/
set_option linter.unusedSectionVars false

namespace Ark.Subgroup
open Ark Ark.ScalarMul

/-! ### `cofactor_is_one` -/

theorem two_le_B : 2 ≤ B := by unfold B; decide

theorem value_eq_zero_iff (l : List Nat) : value l = 0 ↔ l.all (· == 0) = true := by
  induction l with
  | nil => simp [value]
  | cons a t ih =>
    have hB := B_pos
    simp only [value, List.all_cons, Bool.and_eq_true, beq_iff_eq]
    rw [← ih, Nat.add_eq_zero_iff, Nat.mul_eq_zero]
    constructor
    · rintro ⟨h1, h2⟩
      exact ⟨h1, h2.resolve_left (by omega)⟩
    · rintro ⟨h1, h2⟩
      exact ⟨h1, .inr h2⟩

theorem cofactorIsOne_nil : cofactorIsOne [] = .panic := rfl

theorem cofactorIsOne_cons (c0 : Nat) (rest : List Nat) :
    cofactorIsOne (c0 :: rest) = .ok (decide (value (c0 :: rest) = 1)) := by
  show Outcome.ok (c0 == 1 && rest.all (· == 0)) = _
  congr 1
  have hB := two_le_B
  have hv : value (c0 :: rest) = c0 + B * value rest := rfl
  have hz := value_eq_zero_iff rest
  rw [hv]
  generalize value rest = v at hz ⊢
  generalize (rest.all (· == 0)) = a at hz ⊢
  rw [Bool.eq_iff_iff]
  simp only [Bool.and_eq_true, beq_iff_eq, decide_eq_true_eq, ← hz]
  constructor
  · rintro ⟨h1, h2⟩
    rw [h1, h2, Nat.mul_zero]
  · intro h
    rcases Nat.eq_zero_or_pos v with hv | hv
    · subst hv; omega
    · exfalso
      have : B * 1 ≤ B * v := Nat.mul_le_mul_left B hv
      omega

theorem cofactorIsOne_of_ne_nil (l : List Nat) (h : l ≠ []) :
    cofactorIsOne l = .ok (decide (value l = 1)) := by
  cases l with
  | nil => exact absurd rfl h
  | cons a t => exact cofactorIsOne_cons a t

theorem cofactorIsOne_true_iff (l : List Nat) : cofactorIsOne l = .ok true ↔ (l ≠ [] ∧ value l = 1) := by
  cases l with
  | nil => simp [cofactorIsOne]
  | cons a t => rw [cofactorIsOne_cons]; simp

theorem cofactorIsOne_false_iff (l : List Nat) : cofactorIsOne l = .ok false ↔ (l ≠ [] ∧ value l ≠ 1) := by
  cases l with
  | nil => simp [cofactorIsOne]
  | cons a t => rw [cofactorIsOne_cons]; simp

/-! ### the `N`-limb characteristic -/

theorem characteristic_value (c : CurveCfg) : value c.characteristic = c.r % B ^ c.nLimbs :=
  toLimbs_value _ _

theorem characteristic_value_of_fit (c : CurveCfg) (h : c.r < 2 ^ (64 * c.nLimbs)) :
    value c.characteristic = c.r :=
  value_toLimbs_of_lt _ _ h

section generic
variable {G : Type} [AddCommGroup G] [BEq G] [LawfulBEq G] [DecidableEq G]

theorem beq_decide (a b : G) : (a == b) = decide (a = b) := by
  by_cases h : a = b
  · simp [h]
  · simp [h]

theorem swMulAffine_value (P : G) (s : List Nat) (hs : WF s) : swMulAffine P s = value s • P :=
  swDoubleAndAddAffine_spec P s hs

theorem swAffMulBigint_value (P : G) (s : List Nat) (hs : WF s) : swAffMulBigint P s = value s • P :=
  swDoubleAndAddAffine_spec P s hs

theorem teAffMulBigint_value (P : G) (s : List Nat) (hs : WF s) : teAffMulBigint P s = value s • P :=
  teMulAffine_spec P s hs

/-! ### default tests -/

theorem swIsInCorrectSubgroup_not_one (c : CurveCfg) (P : G) (h : cofactorIsOne c.cofactor = .ok false) :
    swIsInCorrectSubgroup c P = .ok (decide (value c.characteristic • P = 0)) := by
  unfold swIsInCorrectSubgroup
  rw [h]
  show Outcome.ok (swMulAffine P c.characteristic == 0) = _
  rw [swMulAffine_value P _ (show WF c.characteristic from toLimbs_wf _ _), beq_decide]

theorem swIsInCorrectSubgroup_one (c : CurveCfg) (P : G) (h : cofactorIsOne c.cofactor = .ok true) :
    swIsInCorrectSubgroup c P = .ok true := by
  unfold swIsInCorrectSubgroup
  rw [h]

theorem swIsInCorrectSubgroup_panic (c : CurveCfg) (P : G) (h : c.cofactor = []) :
    swIsInCorrectSubgroup c P = .panic := by
  unfold swIsInCorrectSubgroup
  rw [h]
  rfl

theorem teIsInCorrectSubgroup_value (c : CurveCfg) (P : G) :
    teIsInCorrectSubgroup c P = .ok (decide (value c.characteristic • P = 0)) := by
  unfold teIsInCorrectSubgroup
  rw [teMulAffine_spec P _ (show WF c.characteristic from toLimbs_wf _ _), beq_decide]

/-! ### cofactor multiplication -/

theorem swMulByCofactor_value (c : CurveCfg) (P : G) (hc : WF c.cofactor) :
    swMulByCofactor c P = value c.cofactor • P :=
  swDoubleAndAddAffine_spec P _ hc

theorem teMulByCofactor_value (c : CurveCfg) (P : G) (hc : WF c.cofactor) :
    teMulByCofactor c P = value c.cofactor • P :=
  teMulAffine_spec P _ hc

theorem swMulByCofactorInv_value (c : CurveCfg) (P : G) :
    swMulByCofactorInv c P = (c.cofactorInv % B ^ c.nLimbs) • P := by
  unfold swMulByCofactorInv
  rw [swAffMulBigint_value P _ (toLimbs_wf _ _), toLimbs_value]

theorem teMulByCofactorInv_value (c : CurveCfg) (P : G) :
    teMulByCofactorInv c P = (c.cofactorInv % B ^ c.nLimbs) • P := by
  unfold teMulByCofactorInv
  rw [teAffMulBigint_value P _ (toLimbs_wf _ _), toLimbs_value]

theorem mod_pow_of_fit (N k : Nat) (hk : k < 2 ^ (64 * N)) : k % B ^ N = k := by
  apply Nat.mod_eq_of_lt
  have : B ^ N = 2 ^ (64 * N) := by unfold B; rw [← pow_mul]
  omega

omit [BEq G] [LawfulBEq G] [DecidableEq G] in
/-- `m • (n • P)` is killed by `r` as soon as `(n · r) • P = 0` -/
theorem smul_smul_of_order (n r : Nat) (P : G) (h : (n * r) • P = 0) : r • (n • P) = 0 := by
  rw [← mul_smul, mul_comm]; exact h

omit [BEq G] [LawfulBEq G] [DecidableEq G] in
/-- multiplying by `h` and then by an inverse of `h` modulo `r` is the identity on points killed by `r` -/
theorem inv_smul_cofactor_smul (h cinv r : Nat) (P : G) (hinv : (h * cinv) % r = 1 % r) (hP : r • P = 0) :
    cinv • (h • P) = P := by
  rw [← mul_smul, mul_comm, ← Ark.ScalarMulB.mod_smul_of_order r P hP (h * cinv), hinv,
    Ark.ScalarMulB.mod_smul_of_order r P hP 1, one_smul]

/-! ### the BLS12 `G1` constants -/

theorem oneMinusX_neg (r : Nat) (x : List Nat) (h : 1 + value x < r) :
    oneMinusX r x true = 1 + value x := by
  have hv : value x % r = value x := Nat.mod_eq_of_lt (by omega)
  have h1 : 1 % r = 1 := Nat.mod_eq_of_lt (by omega)
  simp only [oneMinusX, frFromSignAndLimbs, Bool.not_true, Bool.false_eq_true, if_false, hv, h1]
  rcases Nat.eq_zero_or_pos (value x) with h0 | h0
  · rw [h0, Nat.sub_zero, Nat.mod_self, Nat.sub_zero, Nat.add_mod_right, h1]
  · have e1 : (r - value x) % r = r - value x := Nat.mod_eq_of_lt (by omega)
    have e2 : r - (r - value x) = value x := by omega
    rw [e1, e2, Nat.mod_eq_of_lt h]

theorem xMinusOne_pos (r : Nat) (x : List Nat) (h1 : 1 ≤ value x) (h : value x < r) :
    xMinusOne r x false = value x - 1 := by
  have hv : value x % r = value x := Nat.mod_eq_of_lt h
  have h1' : 1 % r = 1 := Nat.mod_eq_of_lt (by omega)
  simp only [xMinusOne, frFromSignAndLimbs, Bool.not_false, if_true, hv, h1']
  have e : value x + (r - 1) = (value x - 1) + r := by omega
  rw [e, Nat.add_mod_right, Nat.mod_eq_of_lt (by omega)]

theorem wf_singleton (a : Nat) (h : a < B) : WF [a] := by
  intro l hl
  rw [List.mem_singleton] at hl
  rw [hl]; exact h

theorem testBls12381G1ClearCofactor_value (P : G) :
    testBls12381G1ClearCofactor P = 0xd201000000010001 • P := by
  unfold testBls12381G1ClearCofactor
  rw [swMulAffine_value P _ (wf_singleton _ (by unfold B; decide))]
  simp [value]

end generic

/-! ### GLV with a short scalar: no eigenvalue hypothesis is needed -/

section glv
variable {G : Type} [AddCommGroup G]

/-- `glv_mul` is `k₁ • p + k₂ • endo p` for the two signed halves (no hypothesis on `endo`) -/
theorem glvMul_decomp (c : GlvCfg) (endo : G → G) (p : G) (k : Nat)
    (hk1 : (decompInt c k).1.natAbs < min c.r (2 ^ (64 * c.nLimbs - 1)))
    (hk2 : (decompInt c k).2.natAbs < min c.r (2 ^ (64 * c.nLimbs - 1))) :
    glvMul c endo p k = (decompInt c k).1 • p + (decompInt c k).2 • endo p := by
  have hk1r : (decompInt c k).1.natAbs < c.r := lt_of_lt_of_le hk1 (min_le_left _ _)
  have hk2r : (decompInt c k).2.natAbs < c.r := lt_of_lt_of_le hk2 (min_le_left _ _)
  have hk1t := lt_of_lt_of_le hk1 (min_le_right _ _)
  have hk2t := lt_of_lt_of_le hk2 (min_le_right _ _)
  simp only [glvMul, Ark.ScalarMulB.scalarDecomposition_eq, Nat.mod_eq_of_lt hk1r,
    Nat.mod_eq_of_lt hk2r]
  rw [Ark.ScalarMulB.glvLoop_toLimbs _ _ _ _ _ hk1t hk2t, Ark.ScalarMulB.natAbs_smul_signed,
    Ark.ScalarMulB.natAbs_smul_signed]

/-- when the decomposition of the (reduced) scalar is `(value s, 0)` — the case of a scalar that is short
    compared with the lattice, like the 64-bit BLS parameter — the GLV `mul_bigint` returns
    `value s • Q` for EVERY `Q` of the group, inside the subgroup or not -/
theorem swProjMulBigint_glv_short (c : GlvCfg) (endo : G → G) (Q : G) (s : List Nat)
    (hd : decompInt c (value s % c.r) = ((value s : Int), 0))
    (hb : value s < min c.r (2 ^ (64 * c.nLimbs - 1))) :
    swProjMulBigint (.glv c) endo Q s = .ok (value s • Q) := by
  show swMulProjective (.glv c) endo Q s = _
  simp only [swMulProjective, Ark.ScalarMulB.glvOverrideScalar_eq, glvMulProjective]
  rw [glvMul_decomp c endo Q _ (by rw [hd]; simpa using hb) (by rw [hd]; simp; omega), hd]
  simp

theorem decompInt_zero (c : GlvCfg) : decompInt c 0 = (0, 0) := by
  have hr : ¬ ((0 : Int) > (c.r : Int)) := by omega
  simp [decompInt, roundDiv, hr]

/-- the GLV override reduces the integer modulo `r` first: a multiple of `r` gives the identity on EVERY
    point, also outside the subgroup -/
theorem swProjMulBigint_glv_multiple_of_r (c : GlvCfg) (endo : G → G) (Q : G) (s : List Nat)
    (hs : value s % c.r = 0) (hr : 0 < c.r) :
    swProjMulBigint (.glv c) endo Q s = .ok 0 := by
  show swMulProjective (.glv c) endo Q s = _
  simp only [swMulProjective, Ark.ScalarMulB.glvOverrideScalar_eq, glvMulProjective, hs]
  have hb : (0 : Int).natAbs < min c.r (2 ^ (64 * c.nLimbs - 1)) := by
    simp only [Int.natAbs_zero, lt_min_iff]
    exact ⟨hr, Nat.two_pow_pos _⟩
  rw [glvMul_decomp c endo Q 0 (by rw [decompInt_zero]; exact hb) (by rw [decompInt_zero]; exact hb),
    decompInt_zero]
  simp

end glv

/-! ### endomorphism algebra -/

section algebra
variable {G : Type} [AddCommGroup G]

theorem additive_zsmul (φ : G → G) (hadd : ∀ P Q, φ (P + Q) = φ P + φ Q) (n : Int) (P : G) :
    φ (n • P) = n • φ P :=
  map_zsmul (AddMonoidHom.mk' φ hadd) n P

/-- `φ² + φ + 1 = 0`, `φ P = -X² P` ⟹ `(X⁴ - X² + 1) P = 0` -/
theorem endo_sound (φ : G → G) (hadd : ∀ P Q, φ (P + Q) = φ P + φ Q)
    (hchar : ∀ P, φ (φ P) + φ P + P = 0) (r X : Nat)
    (hr : (r : Int) = (X : Int) ^ 4 - (X : Int) ^ 2 + 1) (P : G)
    (h : -(X • (X • P)) = φ P) : r • P = 0 := by
  have hφ : φ P = (-((X : Int) ^ 2)) • P := by
    rw [← h, neg_smul, pow_two, mul_smul, natCast_zsmul, natCast_zsmul]
  have h2 := hchar P
  rw [hφ, additive_zsmul φ hadd, hφ] at h2
  rw [← natCast_zsmul, hr]
  have e : ((X : Int) ^ 4 - (X : Int) ^ 2 + 1) • P
      = (-((X : Int) ^ 2)) • (-((X : Int) ^ 2)) • P + (-((X : Int) ^ 2)) • P + P := by
    rw [← mul_smul]
    module
  rw [e]; exact h2

/-- `r = X⁴ - X² + 1 ≡ 1 (mod X - 1)`: a point killed by `r` and fixed by `X` is the identity -/
theorem fixed_of_order (r X : Nat) (hr : (r : Int) = (X : Int) ^ 4 - (X : Int) ^ 2 + 1) (P : G)
    (hP : r • P = 0) (hfix : X • P = P) : P = 0 := by
  have h1 : ((X : Int) - 1) • P = 0 := by
    rw [sub_smul, one_smul, natCast_zsmul, hfix, sub_self]
  have h2 : (r : Int) • P = 0 := by rw [natCast_zsmul]; exact hP
  have e : (r : Int) • P = ((X : Int) ^ 3 + (X : Int) ^ 2) • (((X : Int) - 1) • P) + P := by
    rw [hr, ← mul_smul]
    module
  rw [e, h1, smul_zero, zero_add] at h2
  exact h2

/-- the two conditions of the `G1` test hold on the subgroup when `φ` acts there as `-X²` -/
theorem endo_complete (φ : G → G) (r X : Nat)
    (hr : (r : Int) = (X : Int) ^ 4 - (X : Int) ^ 2 + 1) (P : G) (hP : r • P = 0)
    (hφ : φ P = (-((X : Int) ^ 2)) • P) :
    ¬ (X • P = P ∧ P ≠ 0) ∧ -(X • (X • P)) = φ P := by
  constructor
  · rintro ⟨h1, h2⟩
    exact h2 (fixed_of_order r X hr P hP h1)
  · rw [hφ, neg_smul, pow_two, mul_smul, natCast_zsmul, natCast_zsmul]

/-- `ψ² - tψ + p = 0`, `ψ P = x P` ⟹ `(x² - t x + p) P = 0`; with the group order `n` and a Bézout
    identity `a (x² - t x + p) + b n = r` this gives `r P = 0` -/
theorem psi_sound (ψ : G → G) (hadd : ∀ P Q, ψ (P + Q) = ψ P + ψ Q) (t p : Int)
    (hchar : ∀ P, ψ (ψ P) - t • ψ P + p • P = 0) (x : Int) (P : G) (h : ψ P = x • P) :
    (x ^ 2 - t * x + p) • P = 0 := by
  have h2 := hchar P
  rw [h, additive_zsmul ψ hadd, h] at h2
  have e : (x ^ 2 - t * x + p) • P = x • x • P - t • x • P + p • P := by
    rw [← mul_smul, ← mul_smul]
    module
  rw [e]; exact h2

theorem bezout_order (m n r a b : Int) (P : G) (hm : m • P = 0) (hn : n • P = 0)
    (hbez : a * m + b * n = r) : r • P = 0 := by
  rw [← hbez, add_smul, mul_smul, mul_smul, hm, hn, smul_zero, smul_zero, add_zero]

end algebra

/-! ### the `G1` endomorphism test, unfolded -/

section g1
variable {G : Type} [AddCommGroup G] [BEq G] [LawfulBEq G] [DecidableEq G] {F : Type} [Mul F]

theorem bls12381G1IsInCorrectSubgroup_eq (io : XY F G) (k : Bls12G1 F) (P : G) (hx : WF k.x)
    (hglv : swProjMulBigint (.glv k.glv) (g1Endomorphism io k.glvEndoCoeff) (value k.x • P) k.x
      = .ok (value k.x • (value k.x • P))) :
    bls12381G1IsInCorrectSubgroup io k P =
      .ok (decide (¬ (value k.x • P = P ∧ P ≠ 0) ∧
        -(value k.x • (value k.x • P)) = g1Endomorphism io k.beta P)) := by
  unfold bls12381G1IsInCorrectSubgroup
  simp only [swAffMulBigint_value P _ hx, hglv, beq_decide]
  by_cases h1 : value k.x • P = P
  · by_cases h2 : P = 0
    · simp [h2]
    · simp [h1, h2]
  · simp [h1]

theorem bls12381G1IsInCorrectSubgroup_panic_iff (io : XY F G) (k : Bls12G1 F) (P : G) :
    bls12381G1IsInCorrectSubgroup io k P ≠ .panic := by
  unfold bls12381G1IsInCorrectSubgroup
  simp only [swProjMulBigint, swMulProjective]
  split <;> simp

end g1

/-! ### the `G2` tests and clearing formulas, unfolded -/

section g2
variable {p nr : Nat} {G : Type} [AddCommGroup G] [BEq G] [LawfulBEq G] [DecidableEq G]

/-- the signed BLS parameter -/
def sx (neg : Bool) (X : Nat) : Int := if neg then -(X : Int) else (X : Int)

theorem fq2Frobenius_ok (frobC1 : List Nat) (h : 2 ≤ frobC1.length) (a : Fq2 p nr) :
    ∃ b, fq2Frobenius frobC1 a = .ok b := by
  unfold fq2Frobenius
  have : frobC1[1 % 2]? = some frobC1[1] := by
    show frobC1[1]? = _
    exact List.getElem?_eq_getElem (by omega)
  rw [this]
  exact ⟨_, rfl⟩

theorem bls12381PPowerEndomorphism_ok (io : XY (Fq2 p nr) G) (k : G2Cfg) (h : 2 ≤ k.frobC1.length)
    (P : G) : ∃ Q, bls12381PPowerEndomorphism io k P = .ok Q := by
  unfold bls12381PPowerEndomorphism
  cases hxy : io.xy P with
  | none => exact ⟨P, rfl⟩
  | some xy =>
    obtain ⟨x, y⟩ := xy
    obtain ⟨fx, hfx⟩ := fq2Frobenius_ok (p := p) (nr := nr) k.frobC1 h x
    obtain ⟨fy, hfy⟩ := fq2Frobenius_ok (p := p) (nr := nr) k.frobC1 h y
    simp only [hfx, hfy]
    exact ⟨_, rfl⟩

theorem pPowerEndomorphismMul_ok (io : XY (Fq2 p nr) G) (k : G2Cfg) (c : PsiConsts)
    (h : 2 ≤ k.frobC1.length) (P : G) : ∃ Q, pPowerEndomorphismMul io k c P = .ok Q := by
  unfold pPowerEndomorphismMul
  cases hxy : io.xy P with
  | none => exact ⟨P, rfl⟩
  | some xy =>
    obtain ⟨x, y⟩ := xy
    obtain ⟨fx, hfx⟩ := fq2Frobenius_ok (p := p) (nr := nr) k.frobC1 h x
    obtain ⟨fy, hfy⟩ := fq2Frobenius_ok (p := p) (nr := nr) k.frobC1 h y
    simp only [hfx, hfy]
    exact ⟨_, rfl⟩

theorem bls12381G2IsInCorrectSubgroup_eq (io : XY (Fq2 p nr) G) (k : G2Cfg) (xl : List Nat) (P Q : G)
    (hxl : WF xl) (hψ : bls12381PPowerEndomorphism io k P = .ok Q) :
    bls12381G2IsInCorrectSubgroup io k xl P = .ok (decide (sx k.xIsNegative (value xl) • P = Q)) := by
  unfold bls12381G2IsInCorrectSubgroup
  simp only [hψ, swAffMulBigint_value P _ hxl, beq_decide, sx]
  cases k.xIsNegative
  · simp only [Bool.false_eq_true, if_false, natCast_zsmul]
  · simp only [if_true, neg_smul, natCast_zsmul]

theorem bls12381G2IsInCorrectSubgroup_panic (io : XY (Fq2 p nr) G) (k : G2Cfg) (xl : List Nat) (P : G)
    (hψ : bls12381PPowerEndomorphism io k P = .panic) :
    bls12381G2IsInCorrectSubgroup io k xl P = .panic := by
  unfold bls12381G2IsInCorrectSubgroup
  simp only [hψ]

theorem wf_bn254SixXSquared : WF bn254SixXSquared := by
  intro l hl
  simp only [bn254SixXSquared, List.mem_cons, List.not_mem_nil, or_false] at hl
  rcases hl with h | h <;> (rw [h]; unfold B; decide)

theorem value_bn254SixXSquared : value bn254SixXSquared = 147946756881789318990833708069417712966 := by
  unfold bn254SixXSquared
  simp only [value]
  unfold B
  norm_num

theorem bn254G2IsInCorrectSubgroup_eq (io : XY (Fq2 p nr) G) (k : G2Cfg) (P Q : G)
    (hψ : pPowerEndomorphismMul io k bn254Psi P = .ok Q) :
    bn254G2IsInCorrectSubgroup io k P = .ok (decide (value bn254SixXSquared • P = Q)) := by
  unfold bn254G2IsInCorrectSubgroup
  simp only [hψ, swAffMulBigint_value P _ wf_bn254SixXSquared, beq_decide]

omit [BEq G] [LawfulBEq G] [DecidableEq G] in
theorem swProjMulBigint_default (endo : G → G) (P : G) (s : List Nat) (hs : WF s) :
    swProjMulBigint .default endo P s = .ok (value s • P) := by
  show Outcome.ok (swDoubleAndAddProjective P s) = _
  rw [swDoubleAndAddProjective_spec P s hs]

/-- Budroni–Pintore with `x = -X` -/
theorem bls12381G2ClearCofactor_eq (io : XY (Fq2 p nr) G) (k : G2Cfg) (P Q : G) (hx : WF k.x)
    (hψ : bls12381PPowerEndomorphism io k P = .ok Q) :
    bls12381G2ClearCofactor io k P =
      .ok (((-(value k.x : Int)) ^ 2 - (-(value k.x : Int)) - 1) • P + ((-(value k.x : Int)) - 1) • Q
        + doublePPowerEndomorphism io bls12381Psi (P + P)) := by
  unfold bls12381G2ClearCofactor
  simp only [hψ, swMulAffine_value P _ hx, swProjMulBigint_default _ _ _ hx]
  congr 1
  generalize doublePPowerEndomorphism io bls12381Psi (P + P) = D
  generalize value k.x = X
  module

theorem testBls12381G2ClearCofactor_eq (io : XY (Fq2 p nr) G) (k : G2Cfg) (P Q : G) (hx : WF k.x)
    (hψ : bls12381PPowerEndomorphism io k P = .ok Q) :
    testBls12381G2ClearCofactor io k P =
      .ok (((-(value k.x : Int)) ^ 2 - (-(value k.x : Int)) - 1) • P + ((-(value k.x : Int)) - 1) • Q
        + doublePPowerEndomorphism io bls12381Psi (P + P)) := by
  unfold testBls12381G2ClearCofactor
  simp only [hψ, swMulAffine_value P _ hx, swProjMulBigint_default _ _ _ hx]
  congr 1
  generalize doublePPowerEndomorphism io bls12381Psi (P + P) = D
  generalize value k.x = X
  module

/-- the same formula with `x = +X` -/
theorem bls12377G2ClearCofactor_eq (io : XY (Fq2 p nr) G) (k : G2Cfg) (P Q : G) (hx : WF k.x)
    (hψ : pPowerEndomorphismMul io k bls12377Psi P = .ok Q) :
    bls12377G2ClearCofactor io k P =
      .ok ((((value k.x : Int)) ^ 2 - ((value k.x : Int)) - 1) • P + (((value k.x : Int)) - 1) • Q
        + doublePPowerEndomorphism io bls12377Psi (P + P)) := by
  unfold bls12377G2ClearCofactor
  simp only [hψ, swMulAffine_value P _ hx, swProjMulBigint_default _ _ _ hx]
  congr 1
  generalize doublePPowerEndomorphism io bls12377Psi (P + P) = D
  generalize value k.x = X
  module

end g2

end Ark.Subgroup
