import Ark.Proofs.FftA
import Ark.Proofs.FftB
import Ark.Proofs.PolyA
import Ark.Proofs.PolyB
import Mathlib.Algebra.Polynomial.Div
import Mathlib.LinearAlgebra.Lagrange
/-
  Helper lemmas for the API-surface properties C07c (`Ark/Props/C07c.lean`) and C08c
  (`Ark/Props/C08c.lean`): the remaining trait defaults of `EvaluationDomain`
  (`new_coset`, `mul_polynomials_in_evaluation_domain`), `PartialEq` of
  `GeneralEvaluationDomain`, the `Evaluations` operators, `TryInto<SparsePolynomial>` /
  `From<DenseOrSparsePolynomial>` and the table-based sparse evaluation.
-/
namespace Ark.SurfaceB
open Ark Ark.Fft

set_option linter.unusedSectionVars false

/-! ## 1. list-level facts (no algebra) -/

section Lists
variable {T : Type}

theorem zipAssign_length (f : T → T → T) (a b : List T) : (zipAssign f a b).length = a.length := by
  induction a generalizing b with
  | nil => simp [zipAssign]
  | cons x xs ih =>
    cases b with
    | nil => simp [zipAssign]
    | cons y ys => simp [zipAssign, ih]

/-- `zip` semantics: the common prefix is combined, the rest of `a` is untouched -/
theorem zipAssign_eq (f : T → T → T) (a b : List T) :
    zipAssign f a b = List.zipWith f a b ++ a.drop b.length := by
  induction a generalizing b with
  | nil => simp [zipAssign]
  | cons x xs ih =>
    cases b with
    | nil => simp [zipAssign]
    | cons y ys => simp [zipAssign, ih]

theorem zipAssign_eq_zipWith (f : T → T → T) (a b : List T) (h : a.length ≤ b.length) :
    zipAssign f a b = List.zipWith f a b := by
  rw [zipAssign_eq, List.drop_eq_nil_of_le h, List.append_nil]

theorem zipAssign_getElem? (f : T → T → T) (a b : List T) (i : Nat) :
    (zipAssign f a b)[i]? =
      match a[i]?, b[i]? with
      | some x, some y => some (f x y)
      | some x, none => some x
      | none, _ => none := by
  induction a generalizing b i with
  | nil => simp [zipAssign]
  | cons x xs ih =>
    cases b with
    | nil => simp only [zipAssign, List.getElem?_nil]; cases (x :: xs)[i]? <;> rfl
    | cons y ys =>
      cases i with
      | zero => simp [zipAssign]
      | succ i => simp only [zipAssign, List.getElem?_cons_succ]; exact ih ys i

theorem evalsBinAssign_ok_iff (f : T → T → T) (same : Bool) (a b r : List T) :
    evalsBinAssign f same a b = .ok r ↔ same = true ∧ r = zipAssign f a b := by
  cases same <;> simp [evalsBinAssign, eq_comm]

theorem evalsBinAssign_panic_iff (f : T → T → T) (same : Bool) (a b : List T) :
    evalsBinAssign f same a b = .panic ↔ same = false := by
  cases same <;> simp [evalsBinAssign]

theorem evalsIndex_ok_iff (e : List T) (i : Nat) (x : T) :
    evalsIndex e i = .ok x ↔ e[i]? = some x := by
  unfold evalsIndex
  cases e[i]? <;> simp

theorem evalsIndex_panic_iff (e : List T) (i : Nat) : evalsIndex e i = .panic ↔ e.length ≤ i := by
  unfold evalsIndex
  cases h : e[i]? with
  | none => simpa using h
  | some x =>
    simp only [reduceCtorEq, false_iff, not_le]
    exact (List.getElem?_eq_some_iff.1 h).1

theorem mul_ok_iff [Mul T] (a b r : List T) :
    mulPolynomialsInEvaluationDomain a b = .ok r ↔
      a.length = b.length ∧ r = List.zipWith (· * ·) a b := by
  unfold mulPolynomialsInEvaluationDomain
  by_cases h : a.length = b.length <;> simp [h, eq_comm]

theorem mul_panic_iff [Mul T] (a b : List T) :
    mulPolynomialsInEvaluationDomain a b = .panic ↔ a.length ≠ b.length := by
  unfold mulPolynomialsInEvaluationDomain
  by_cases h : a.length = b.length <;> simp [h]

theorem generalDomainEq_iff [DecidableEq T] (a b : GeneralDomain T) :
    generalDomainEq a b = true ↔ a = b := by
  cases a <;> cases b <;> simp [generalDomainEq]

end Lists

/-! ## 2. `batch_inversion` over a field, `DivAssign` -/

section Field
variable {F : Type} [Field F] [DecidableEq F]

/-- over a field the modelled `batch_inversion` inverts every entry, zero entries staying zero
    (which is Mathlib's `0⁻¹ = 0`); it never takes the `unwrap` panic -/
theorem batchInversion_eq (l : List F) : batchInversion l = some (l.map (fun x => x⁻¹)) := by
  obtain ⟨w, hw, hlen, -, hspec⟩ := Ops.batchInvMul_correct (fieldInterp (F := F)) l 1
    (fun _ _ => trivial) trivial
  rw [batchInversion, hw]
  congr 1
  apply List.ext_getElem
  · simp [hlen]
  · intro i h1 h2
    have hi : i < l.length := by simpa using h2
    have hs := hspec i hi h1
    simp only [fieldInterp, id] at hs
    rw [List.getElem_map]
    by_cases h0 : l[i] = 0
    · rw [hs.1 h0, h0, inv_zero]
    · rw [hs.2 h0, one_mul]

theorem evalsDivAssign_ok_iff (same : Bool) (a b r : List F) :
    evalsDivAssign same a b = .ok r ↔
      same = true ∧ r = zipAssign (· * ·) a (b.map (fun x => x⁻¹)) := by
  cases same <;> simp [evalsDivAssign, batchInversion_eq, eq_comm]

theorem evalsDivAssign_panic_iff (same : Bool) (a b : List F) :
    evalsDivAssign same a b = .panic ↔ same = false := by
  cases same <;> simp [evalsDivAssign, batchInversion_eq]

theorem evalsDivAssign_getElem? (a b : List F) (i : Nat) :
    (zipAssign (· * ·) a (b.map (fun x => x⁻¹)))[i]? =
      match a[i]?, b[i]? with
      | some x, some y => some (x / y)
      | some x, none => some x
      | none, _ => none := by
  rw [zipAssign_getElem?, List.getElem?_map]
  cases a[i]? <;> cases b[i]? <;> simp [div_eq_mul_inv]

end Field
/-! ## 3. `new_coset` -/

section Coset
variable {F : Type} [Field F] [DecidableEq F]

/-- the same (general) domain with the three offset fields replaced -/
def withOffset (g : GeneralDomain F) (h hi hp : F) : GeneralDomain F :=
  match g with
  | .radix2 d => .radix2 { d with offset := h, offsetInv := hi, offsetPowSize := hp }
  | .mixedRadix d => .mixedRadix { d with offset := h, offsetInv := hi, offsetPowSize := hp }

theorem radix2New_size_lt (P : Params F) (n : Nat) (d : Domain F)
    (h : radix2New P n = .ok (some d)) : d.size < 2 ^ 64 := by
  have hs : d.size = nextPowerOfTwo n := by
    unfold radix2New at h
    simp only at h
    split at h
    · cases h
    · split at h
      · cases h
      · cases h
      · split at h
        · cases h
        · split at h
          · cases h
          · cases h; rfl
  rw [hs, nextPowerOfTwo_eq]
  split
  · exact Nat.pow_lt_pow_right (by norm_num) ‹_›
  · norm_num

theorem foldl_le_init {β : Type} (step : Nat → β → Nat) (hstep : ∀ a b, step a b ≤ a)
    (l : List β) (init : Nat) : l.foldl step init ≤ init := by
  induction l generalizing init with
  | nil => simp
  | cons b bs ih =>
    rw [List.foldl_cons]
    exact le_trans (ih _) (hstep _ _)

theorem bestMixedDomainSize_le (P : Params F) (n R : Nat) (h : bestMixedDomainSize P n = .ok R) :
    R ≤ usizeMax := by
  unfold bestMixedDomainSize at h
  split at h
  · cases h
  · split at h
    · cases h
    · cases h
      apply foldl_le_init
      intro a b
      simp only
      split
      · exact Nat.min_le_left _ _
      · exact le_refl _

theorem mixedNew_size_lt (P : Params F) (n : Nat) (d : Domain F)
    (h : mixedNew P n = .ok (some d)) : d.size < 2 ^ 64 := by
  unfold mixedNew at h
  split at h
  · cases h
  · split at h
    · cases h
    · rename_i size hsz
      have hle := bestMixedDomainSize_le P n size hsz
      simp only at h
      split at h
      · cases h
      · split at h
        · cases h
        · split at h
          · cases h
          · split at h
            · cases h
            · cases h
            · split at h
              · cases h
              · split at h
                · cases h
                · cases h
                  show size < 2 ^ 64
                  unfold usizeMax at hle; omega

theorem generalNew_size_lt (P : Params F) (n : Nat) (g : GeneralDomain F)
    (h : generalNew P n = .ok (some g)) : g.dom.size < 2 ^ 64 := by
  unfold generalNew at h
  split at h
  · cases h
  · rename_i d hd
    cases h
    exact radix2New_size_lt P n d hd
  · split at h
    · split at h
      · cases h
      · rename_i d hd
        cases h
        exact mixedNew_size_lt P n d hd
      · cases h
    · cases h

theorem generalGetCoset_zero (g : GeneralDomain F) : generalGetCoset g 0 = none := by
  cases g <;> simp [generalGetCoset, getCoset_zero]

theorem generalGetCoset_ne (g : GeneralDomain F) (hlt : g.dom.size < 2 ^ 64) {h : F} (hh : h ≠ 0) :
    generalGetCoset g h = some (withOffset g h h⁻¹ (h ^ g.dom.size)) := by
  cases g with
  | radix2 d => simp only [generalGetCoset, getCoset_ne d hlt hh, Option.map_some, withOffset, GeneralDomain.dom]
  | mixedRadix d => simp only [generalGetCoset, getCoset_ne d hlt hh, Option.map_some, withOffset, GeneralDomain.dom]

/-- `new_coset`: panics iff `new` panics -/
theorem newCoset_panic_iff (nw : Outcome (Option (GeneralDomain F))) (h : F) :
    newCoset nw h = .panic ↔ nw = .panic := by
  unfold newCoset
  split <;> simp

theorem newCoset_none_iff (P : Params F) (n : Nat) (h : F) :
    newCoset (generalNew P n) h = .ok none ↔
      generalNew P n = .ok none ∨ (h = 0 ∧ ∃ g, generalNew P n = .ok (some g)) := by
  unfold newCoset
  split
  · rename_i e; simp [e]
  · rename_i e; simp [e]
  · rename_i g e
    by_cases hh : h = 0
    · subst hh; simp [e, generalGetCoset_zero]
    · simp [e, hh, generalGetCoset_ne g (generalNew_size_lt P n g e) hh]

theorem newCoset_some (P : Params F) (n : Nat) (h : F) (g : GeneralDomain F)
    (hg : generalNew P n = .ok (some g)) (hh : h ≠ 0) :
    newCoset (generalNew P n) h = .ok (some (withOffset g h h⁻¹ (h ^ g.dom.size))) := by
  simp only [newCoset, hg, generalGetCoset_ne g (generalNew_size_lt P n g hg) hh]

end Coset

/-! ## 4. `mul_polynomials_in_evaluation_domain` between `fft` and `ifft` -/

section Transform
variable {F : Type} [Field F] [DecidableEq F]
open Polynomial

/-- what the C07 theorems establish about a pair `fft_in_place` / `ifft_in_place` on a domain:
    a coherent domain, the forward transform evaluates, the inverse transform inverts -/
structure Transform (d : Domain F) (fft ifft : List F → Outcome (List F)) : Prop where
  pos : 0 < d.size
  prim : IsPrimitiveRoot d.groupGen d.size
  off : d.offset ≠ 0
  fft_ok : ∀ c : List F, c.length ≤ d.size → fft c = .ok ((elements d).map (evalL c))
  ifft_ok : ∀ c : List F, c.length ≤ d.size →
    ifft ((elements d).map (evalL c)) = .ok (resize c d.size 0)

theorem coeff_polyOf (c : List F) (i : Nat) : (polyOf c).coeff i = fn c i := by
  induction c generalizing i with
  | nil => simp [polyOf, fn]
  | cons a cs ih =>
    cases i with
    | zero => simp [polyOf, fn]
    | succ i => rw [polyOf, coeff_add, coeff_C_succ, coeff_X_mul, zero_add, ih]; rfl

theorem coeff_polyOf_mul (A B : List F) (k : Nat) :
    (polyOf A * polyOf B).coeff k = ∑ i ∈ Finset.range (k + 1), fn A i * fn B (k - i) := by
  rw [coeff_mul, Finset.Nat.sum_antidiagonal_eq_sum_range_succ_mk]
  simp only [coeff_polyOf]

theorem degree_polyOf_mul_lt (A B : List F) (N : Nat) (h : A.length + B.length ≤ N + 1) :
    (polyOf A * polyOf B).degree < N := by
  rw [degree_lt_iff_coeff_zero]
  intro m hm
  rw [coeff_polyOf_mul]
  apply Finset.sum_eq_zero
  intro i hi
  have hi' := Finset.mem_range.1 hi
  by_cases hA : A.length ≤ i
  · rw [fn_of_length_le A hA, zero_mul]
  · rw [fn_of_length_le B (by omega), mul_zero]

theorem eval_eq_sum_of_degree_lt (p : F[X]) (N : Nat) (hN : 0 < N) (hdeg : p.degree < N) (x : F) :
    p.eval x = ∑ i ∈ Finset.range N, p.coeff i * x ^ i := by
  apply eval_eq_sum_range'
  by_cases hp : p = 0
  · subst hp; simpa using hN
  · exact (natDegree_lt_iff_degree_lt hp).2 hdeg

/-- the list of the first `N` coefficients of a polynomial of degree `< N` evaluates like it -/
theorem evalL_tab_coeff (p : F[X]) (N : Nat) (hN : 0 < N) (hdeg : p.degree < N) (x : F) :
    evalL (tab N p.coeff) x = p.eval x := by
  rw [evalL_eq_sum_of_le _ x (le_of_eq (tab_length N p.coeff)), eval_eq_sum_of_degree_lt p N hN hdeg]
  apply Finset.sum_congr rfl
  intro i hi
  rw [fn_tab N _ (Finset.mem_range.1 hi)]

theorem monic_XpowN_sub_C (N : Nat) (hN : 0 < N) (c : F) : (X ^ N - C c : F[X]).Monic :=
  monic_X_pow_sub_C c hN.ne'

theorem eval_modByMonic_of_pow_eq (p : F[X]) (N : Nat) (c x : F) (hx : x ^ N = c) :
    (p %ₘ (X ^ N - C c)).eval x = p.eval x := by
  have h := congrArg (eval x) (modByMonic_add_div p (X ^ N - C c))
  rw [eval_add, eval_mul, eval_sub, eval_pow, eval_X, eval_C, hx, sub_self, zero_mul, add_zero] at h
  exact h

theorem degree_modByMonic_XpowN (p : F[X]) (N : Nat) (hN : 0 < N) (c : F) :
    (p %ₘ (X ^ N - C c)).degree < N := by
  have h := degree_modByMonic_lt p (monic_XpowN_sub_C N hN c)
  rwa [degree_X_pow_sub_C hN] at h

/-- the coefficient vector (length `N`) of `A·B mod (X^N − c)` -/
noncomputable def mulModCoeffs (N : Nat) (c : F) (A B : List F) : List F :=
  tab N (fun j => ((polyOf A * polyOf B) %ₘ (X ^ N - C c)).coeff j)

theorem mulModCoeffs_length (N : Nat) (c : F) (A B : List F) : (mulModCoeffs N c A B).length = N :=
  tab_length _ _

theorem evalL_mulModCoeffs (N : Nat) (hN : 0 < N) (c : F) (A B : List F) (x : F) (hx : x ^ N = c) :
    evalL (mulModCoeffs N c A B) x = evalL A x * evalL B x := by
  unfold mulModCoeffs
  rw [evalL_tab_coeff _ N hN (degree_modByMonic_XpowN _ N hN c), eval_modByMonic_of_pow_eq _ N c x hx,
    eval_mul, eval_polyOf, eval_polyOf]

/-- no wrap-around when `deg A + deg B < N` -/
theorem mulModCoeffs_of_small (N : Nat) (hN : 0 < N) (c : F) (A B : List F)
    (h : A.length + B.length ≤ N + 1) :
    mulModCoeffs N c A B = tab N (fun j => ∑ i ∈ Finset.range (j + 1), fn A i * fn B (j - i)) := by
  unfold mulModCoeffs
  have hdeg := degree_polyOf_mul_lt A B N h
  have hm : (polyOf A * polyOf B) %ₘ (X ^ N - C c) = polyOf A * polyOf B := by
    rw [modByMonic_eq_self_iff (monic_XpowN_sub_C N hN c), degree_X_pow_sub_C hN]
    exact hdeg
  rw [hm]
  apply tab_congr
  intro j _
  exact coeff_polyOf_mul A B j

theorem elements_pow_size (d : Domain F) (hprim : IsPrimitiveRoot d.groupGen d.size) :
    ∀ x ∈ elements d, x ^ d.size = d.offset ^ d.size := by
  intro x hx
  rw [Fft.elements_eq] at hx
  obtain ⟨i, -, rfl⟩ := List.mem_map.1 hx
  rw [mul_pow, ← pow_mul, mul_comm i, pow_mul, hprim.pow_eq_one, one_pow, mul_one]

/-- pointwise product of two evaluation vectors = evaluation vector of the reduced product -/
theorem zipWith_mul_evals (d : Domain F) (hpos : 0 < d.size)
    (hprim : IsPrimitiveRoot d.groupGen d.size) (A B : List F) :
    List.zipWith (· * ·) ((elements d).map (evalL A)) ((elements d).map (evalL B)) =
      (elements d).map (evalL (mulModCoeffs d.size (d.offset ^ d.size) A B)) := by
  rw [zipWith_map_map]
  apply List.map_congr_left
  intro x hx
  exact (evalL_mulModCoeffs d.size hpos _ A B x (elements_pow_size d hprim x hx)).symm

theorem resize_of_length_eq (c : List F) (n : Nat) (h : c.length = n) : resize c n 0 = c := by
  subst h; simp [resize]

theorem Transform.mul_ifft {d : Domain F} {fft ifft : List F → Outcome (List F)}
    (T : Transform d fft ifft) (A B : List F) (hA : A.length ≤ d.size) (hB : B.length ≤ d.size) :
    ∃ ea eb r, fft A = .ok ea ∧ fft B = .ok eb ∧
      mulPolynomialsInEvaluationDomain ea eb = .ok r ∧
      ifft r = .ok (mulModCoeffs d.size (d.offset ^ d.size) A B) := by
  refine ⟨_, _, _, T.fft_ok A hA, T.fft_ok B hB,
    (mul_ok_iff _ _ _).2 ⟨by simp, rfl⟩, ?_⟩
  rw [zipWith_mul_evals d T.pos T.prim, T.ifft_ok _ (le_of_eq (mulModCoeffs_length _ _ _ _)),
    resize_of_length_eq _ _ (mulModCoeffs_length _ _ _ _)]

end Transform

section Wrap
variable {F : Type} [Field F] [DecidableEq F]
open Polynomial

/-- reduction modulo `X^N − c` of a polynomial of degree `< 2N` folds the upper half onto the lower
    half with the factor `c` -/
theorem coeff_modByMonic_XpowN (p : F[X]) (N : Nat) (hN : 0 < N) (c : F)
    (hdeg : p.degree < (2 * N : Nat)) (j : Nat) (hj : j < N) :
    (p %ₘ (X ^ N - C c)).coeff j = p.coeff j + c * p.coeff (j + N) := by
  set lo : F[X] := ∑ i ∈ Finset.range N, C (p.coeff i) * X ^ i with hlo
  set hi : F[X] := ∑ i ∈ Finset.range N, C (p.coeff (i + N)) * X ^ i with hhi
  have hlo_c : ∀ m, lo.coeff m = if m < N then p.coeff m else 0 := by
    intro m
    rw [hlo, finsetSum_coeff]
    simp only [coeff_C_mul, coeff_X_pow, mul_ite, mul_one, mul_zero]
    rw [Finset.sum_ite_eq (Finset.range N) m]
    simp
  have hhi_c : ∀ m, hi.coeff m = if m < N then p.coeff (m + N) else 0 := by
    intro m
    rw [hhi, finsetSum_coeff]
    simp only [coeff_C_mul, coeff_X_pow, mul_ite, mul_one, mul_zero]
    rw [Finset.sum_ite_eq (Finset.range N) m]
    simp
  have hp : (lo + C c * hi) + (X ^ N - C c) * hi = p := by
    ext m
    have : (lo + C c * hi) + (X ^ N - C c) * hi = lo + X ^ N * hi := by ring
    rw [this, coeff_add, coeff_X_pow_mul', hlo_c, hhi_c]
    by_cases h1 : m < N
    · rw [if_pos h1, if_neg (by omega), add_zero]
    · rw [if_neg h1, if_pos (by omega), zero_add]
      by_cases h2 : m - N < N
      · rw [if_pos h2, Nat.sub_add_cancel (by omega)]
      · rw [if_neg h2]
        symm
        apply coeff_eq_zero_of_degree_lt
        refine lt_of_lt_of_le hdeg ?_
        exact_mod_cast (by omega : 2 * N ≤ m)
  have hr : (lo + C c * hi).degree < (X ^ N - C c : F[X]).degree := by
    rw [degree_X_pow_sub_C hN, degree_lt_iff_coeff_zero]
    intro m hm
    rw [coeff_add, coeff_C_mul, hlo_c, hhi_c, if_neg (by omega), if_neg (by omega)]
    simp
  have := (div_modByMonic_unique hi (lo + C c * hi) (monic_X_pow_sub_C c hN.ne') ⟨hp, hr⟩).2
  rw [this, coeff_add, coeff_C_mul, hlo_c, hhi_c, if_pos hj, if_pos hj]

end Wrap

/-! ## 5. linearity of the inverse transform, `from_coefficients_vec` -/

section Linear
variable {F : Type} [Field F] [DecidableEq F]
open Polynomial

theorem node_injOn' (d : Domain F) (hprim : IsPrimitiveRoot d.groupGen d.size) (hoff : d.offset ≠ 0) :
    Set.InjOn (node d) (Finset.range d.size : Set Nat) := by
  intro i hi j hj h
  exact hprim.pow_inj (Finset.mem_range.1 (by exact_mod_cast hi))
    (Finset.mem_range.1 (by exact_mod_cast hj)) (mul_left_cancel₀ hoff h)

theorem evals_eq_tab (d : Domain F) (c : List F) :
    (elements d).map (evalL c) = tab d.size (fun i => evalL c (node d i)) := by
  rw [Fft.elements_eq, List.map_map]; rfl

/-- every vector of `N` values is the evaluation vector of a coefficient vector of length `N`
    (Lagrange interpolation) -/
theorem exists_coeffs_of_evals (d : Domain F) (hpos : 0 < d.size)
    (hprim : IsPrimitiveRoot d.groupGen d.size) (hoff : d.offset ≠ 0) (e : List F)
    (he : e.length = d.size) :
    ∃ c : List F, c.length = d.size ∧ (elements d).map (evalL c) = e := by
  have hinj := node_injOn' d hprim hoff
  set p := Lagrange.interpolate (Finset.range d.size) (node d) (fn e) with hp
  have hdeg : p.degree < d.size := by
    have := Lagrange.degree_interpolate_lt (s := Finset.range d.size) (v := node d) (fn e) hinj
    rwa [Finset.card_range] at this
  refine ⟨tab d.size p.coeff, tab_length _ _, ?_⟩
  rw [evals_eq_tab]
  conv_rhs => rw [← tab_fn e, he]
  apply tab_congr
  intro i hi
  rw [evalL_tab_coeff p d.size hpos hdeg]
  exact Lagrange.eval_interpolate_at_node (fn e) hinj (Finset.mem_range.2 hi)

theorem evalL_zipWith_add (a b : List F) (h : a.length = b.length) (x : F) :
    evalL (List.zipWith (· + ·) a b) x = evalL a x + evalL b x := by
  induction a generalizing b with
  | nil =>
    cases b with
    | nil => simp [evalL]
    | cons v vs => simp at h
  | cons u us ih =>
    cases b with
    | nil => simp at h
    | cons v vs =>
      have h' : us.length = vs.length := by simpa using h
      have e1 : ∀ (w : F) (ws : List F), evalL (w :: ws) x = w + x * evalL ws x := fun _ _ => rfl
      rw [List.zipWith_cons_cons, e1, e1, e1, ih vs h']; ring

theorem evalL_map_mul (a : List F) (s x : F) :
    evalL (a.map (fun v => v * s)) x = evalL a x * s := by
  induction a with
  | nil => simp [evalL]
  | cons u us ih =>
    have e1 : ∀ (w : F) (ws : List F), evalL (w :: ws) x = w + x * evalL ws x := fun _ _ => rfl
    rw [List.map_cons, e1, e1, ih]; ring

variable {d : Domain F} {fft ifft : List F → Outcome (List F)}

/-- the inverse transform is total on vectors of the domain size and returns the interpolating
    coefficient vector -/
theorem Transform.ifft_total (T : Transform d fft ifft) (e : List F) (he : e.length = d.size) :
    ∃ c : List F, ifft e = .ok c ∧ c.length = d.size ∧ (elements d).map (evalL c) = e := by
  obtain ⟨c, hc, hce⟩ := exists_coeffs_of_evals d T.pos T.prim T.off e he
  refine ⟨c, ?_, hc, hce⟩
  rw [← hce, T.ifft_ok c (le_of_eq hc), resize_of_length_eq c _ hc]

theorem Transform.ifft_add (T : Transform d fft ifft) (a b : List F) (ha : a.length = d.size)
    (hb : b.length = d.size) :
    ∃ ca cb : List F, ifft a = .ok ca ∧ ifft b = .ok cb ∧ ca.length = d.size ∧ cb.length = d.size ∧
      ifft (List.zipWith (· + ·) a b) = .ok (List.zipWith (· + ·) ca cb) := by
  obtain ⟨ca, h1, h2, h3⟩ := T.ifft_total a ha
  obtain ⟨cb, h4, h5, h6⟩ := T.ifft_total b hb
  refine ⟨ca, cb, h1, h4, h2, h5, ?_⟩
  have hl : (List.zipWith (· + ·) ca cb).length = d.size := by simp [h2, h5]
  have : List.zipWith (· + ·) a b = (elements d).map (evalL (List.zipWith (· + ·) ca cb)) := by
    conv_lhs => rw [← h3, ← h6, zipWith_map_map]
    apply List.map_congr_left
    intro x _
    exact (evalL_zipWith_add ca cb (h2.trans h5.symm) x).symm
  rw [this, T.ifft_ok _ (le_of_eq hl), resize_of_length_eq _ _ hl]

theorem Transform.ifft_smul (T : Transform d fft ifft) (a : List F) (s : F) (ha : a.length = d.size) :
    ∃ ca : List F, ifft a = .ok ca ∧ ca.length = d.size ∧
      ifft (evalsMulScalar a s) = .ok (ca.map (fun v => v * s)) := by
  obtain ⟨ca, h1, h2, h3⟩ := T.ifft_total a ha
  refine ⟨ca, h1, h2, ?_⟩
  have hl : (ca.map (fun v => v * s)).length = d.size := by simp [h2]
  have : evalsMulScalar a s = (elements d).map (evalL (ca.map (fun v => v * s))) := by
    unfold evalsMulScalar
    conv_lhs => rw [← h3, List.map_map]
    apply List.map_congr_left
    intro x _
    exact (evalL_map_mul ca s x).symm
  rw [this, T.ifft_ok _ (le_of_eq hl), resize_of_length_eq _ _ hl]

/-! ### `DensePolynomial::from_coefficients_vec` of the FFT model -/

theorem dropZerosD_spec (l : List F) :
    ∃ m, l = List.replicate m 0 ++ dropZerosD l ∧ (dropZerosD l).head? ≠ some 0 := by
  induction l with
  | nil => exact ⟨0, rfl, by simp [dropZerosD]⟩
  | cons c t ih =>
    by_cases hc : c = 0
    · obtain ⟨m, h1, h2⟩ := ih
      refine ⟨m + 1, ?_, ?_⟩
      · simp only [dropZerosD, hc, if_true]
        rw [List.replicate_succ, List.cons_append, ← h1]
      · simpa only [dropZerosD, hc, if_true] using h2
    · refine ⟨0, by simp [dropZerosD, hc], ?_⟩
      simp only [dropZerosD, hc, if_false, List.head?_cons]
      intro h; exact hc (Option.some.inj h)

theorem denseFromCoefficientsVec_spec (c : List F) :
    ∃ m, c = denseFromCoefficientsVec c ++ List.replicate m 0 ∧
      (denseFromCoefficientsVec c).getLast? ≠ some 0 := by
  obtain ⟨m, h1, h2⟩ := dropZerosD_spec c.reverse
  refine ⟨m, ?_, ?_⟩
  · have := congrArg List.reverse h1
    rw [List.reverse_reverse, List.reverse_append, List.reverse_replicate] at this
    exact this
  · unfold denseFromCoefficientsVec
    rwa [List.getLast?_reverse]

theorem fn_denseFromCoefficientsVec (c : List F) (i : Nat) :
    fn (denseFromCoefficientsVec c) i = fn c i := by
  obtain ⟨m, h1, -⟩ := denseFromCoefficientsVec_spec c
  conv_rhs => rw [h1]
  unfold fn
  by_cases hi : i < (denseFromCoefficientsVec c).length
  · simp [List.getD, List.getElem?_append_left hi]
  · simp only [List.getD, List.getElem?_append_right (not_lt.1 hi), List.getElem?_eq_none (not_lt.1 hi)]
    by_cases h2 : i - (denseFromCoefficientsVec c).length < m
    · simp [h2]
    · simp [List.getElem?_eq_none (l := List.replicate m (0:F)) (by simpa using h2)]

theorem length_denseFromCoefficientsVec_le (c : List F) :
    (denseFromCoefficientsVec c).length ≤ c.length := by
  obtain ⟨m, h1, -⟩ := denseFromCoefficientsVec_spec c
  conv_rhs => rw [h1]
  simp

theorem evalL_append_zeros (c : List F) (m : Nat) (x : F) :
    evalL (c ++ List.replicate m 0) x = evalL c x := by
  induction c with
  | nil =>
    induction m with
    | zero => rfl
    | succ m ih =>
      have e1 : ∀ (w : F) (ws : List F), evalL (w :: ws) x = w + x * evalL ws x := fun _ _ => rfl
      rw [List.nil_append] at ih ⊢
      rw [List.replicate_succ, e1, ih]; simp [evalL]
  | cons u us ih =>
    have e1 : ∀ (w : F) (ws : List F), evalL (w :: ws) x = w + x * evalL ws x := fun _ _ => rfl
    rw [List.cons_append, e1, e1, ih]

theorem evalL_denseFromCoefficientsVec (c : List F) (x : F) :
    evalL (denseFromCoefficientsVec c) x = evalL c x := by
  obtain ⟨m, h1, -⟩ := denseFromCoefficientsVec_spec c
  conv_rhs => rw [h1]
  exact (evalL_append_zeros _ m x).symm

theorem fn_zipWith_add (a b : List F) (h : a.length = b.length) (i : Nat) :
    fn (List.zipWith (· + ·) a b) i = fn a i + fn b i := by
  unfold fn
  simp only [List.getD, List.getElem?_zipWith]
  by_cases hi : i < a.length
  · have hb : i < b.length := h ▸ hi
    simp [List.getElem?_eq_getElem hi, List.getElem?_eq_getElem hb]
  · simp [List.getElem?_eq_none (not_lt.1 hi), List.getElem?_eq_none (h ▸ not_lt.1 hi)]

theorem fn_map_mul (a : List F) (s : F) (i : Nat) : fn (a.map (fun v => v * s)) i = fn a i * s := by
  unfold fn
  simp only [List.getD, List.getElem?_map]
  cases a[i]? <;> simp

end Linear

/-! ## 6. the C07 transforms as instances; wrap-around form; interpolation -/

section Instances
variable {F : Type} [Field F] [DecidableEq F]
open Polynomial

/-- C07a: the radix-2 pair, under the hypotheses of `radix2_fft_ifft_round_trip` -/
theorem radix2_transform (d : Domain F) (k : Nat) (hk : k ≤ 64) (hd : d.size = 2 ^ k)
    (hlog : d.logSizeOfGroup = k) (hprim : IsPrimitiveRoot d.groupGen d.size)
    (hsz : d.sizeInv * (d.size : F) = 1) (hgi : d.groupGenInv * d.groupGen = 1)
    (hoi : d.offsetInv * d.offset = 1) :
    Transform d (radix2Fft d) (fun e => .ok (radix2Ifft d e)) where
  pos := by rw [hd]; exact Nat.two_pow_pos k
  prim := hprim
  off := by
    intro h; rw [h, mul_zero] at hoi; exact zero_ne_one hoi
  fft_ok := fun c hc => by
    have hroot : k = 0 ∨ d.groupGen ^ 2 ^ (k - 1) = -1 := by
      rcases Nat.eq_zero_or_pos k with h0 | hpos
      · exact Or.inl h0
      · exact Or.inr (A.neg_one_of_primitive d.groupGen k hpos (hd ▸ hprim))
    exact A.radix2Fft_spec d c k hk hd hlog hc hroot
  ifft_ok := fun c hc => by
    have := A.radix2Ifft_spec d c k hk hd hprim hsz hgi hoi hc
    show Outcome.ok (radix2Ifft d ((elements d).map (A.eval c))) = _
    rw [this]

/-- the radix-2 pair on a coherent (`Good`) domain of size `2^logSizeOfGroup` -/
theorem radix2_transform_of_good (d : Domain F) (hd : d.Good) (hs : d.size = 2 ^ d.logSizeOfGroup) :
    Transform d (radix2Fft d) (fun e => .ok (radix2Ifft d e)) := by
  have hk : d.logSizeOfGroup ≤ 64 := by
    have h := hd.size_lt
    rw [hs] at h
    exact le_of_lt ((Nat.pow_lt_pow_iff_right (by norm_num)).1 h)
  exact radix2_transform d d.logSizeOfGroup hk hs rfl hd.prim hd.sizeInv hd.genInv hd.offInv

/-- C07b: the mixed-radix pair, under the hypotheses of `mixedFft_spec` -/
theorem mixed_transform (P : Params F) (q : Nat) (hq : P.smallBase = some q) (hq2 : 2 ≤ q)
    (hodd : q % 2 = 1) (d : Domain F) (hd : d.Good) (k : Nat)
    (hsize : d.size = 2 ^ d.logSizeOfGroup * q ^ k) (h32 : k = 0 → d.logSizeOfGroup ≤ 32) :
    Transform d (mixedFft P d) (mixedIfft P d) where
  pos := hd.size_pos
  prim := hd.prim
  off := hd.offset_ne
  fft_ok := fun c hc => Fft.mixedFft_spec P q hq hq2 hodd d hd k hsize h32 c hc
  ifft_ok := fun c hc => by
    obtain ⟨ys, h1, h2⟩ := Fft.mixedIfft_mixedFft P q hq hq2 hodd d hd k hsize h32 c hc
    rw [Fft.mixedFft_spec P q hq hq2 hodd d hd k hsize h32 c hc] at h1
    cases h1
    exact h2

/-- the hypotheses under which C07 proves `GeneralEvaluationDomain::{fft,ifft}_in_place` correct -/
def FftReady (P : Params F) : GeneralDomain F → Prop
  | .radix2 d => d.Good ∧ d.size = 2 ^ d.logSizeOfGroup
  | .mixedRadix d => d.Good ∧ ∃ q k, P.smallBase = some q ∧ 2 ≤ q ∧ q % 2 = 1 ∧
      d.size = 2 ^ d.logSizeOfGroup * q ^ k ∧ (k = 0 → d.logSizeOfGroup ≤ 32)

theorem general_transform (P : Params F) (g : GeneralDomain F) (h : FftReady P g) :
    Transform g.dom (generalFft P g) (generalIfft P g) := by
  cases g with
  | radix2 d => exact radix2_transform_of_good d h.1 h.2
  | mixedRadix d =>
    obtain ⟨hd, q, k, hq, hq2, hodd, hsize, h32⟩ := h
    exact mixed_transform P q hq hq2 hodd d hd k hsize h32

/-- a radix-2 domain built by `Radix2EvaluationDomain::new` on well-formed parameters is ready -/
theorem fftReady_of_radix2New (P : Params F) (hP : P.WF) (n : Nat) (d : Domain F)
    (h : radix2New P n = .ok (some d)) : FftReady P (.radix2 d) := by
  rcases radix2New_cases P hP n with ⟨h1, -⟩ | ⟨-, h64, g, hord, h2⟩
  · rw [h1] at h; cases h
  · rw [h2] at h
    cases h
    exact ⟨(mkDomain_good (Nat.two_pow_pos _) (Nat.pow_lt_pow_right (by norm_num) h64) hord).2.2, rfl⟩

/-- moving to a coset keeps the domain ready -/
theorem fftReady_withOffset (P : Params F) (g : GeneralDomain F) (hg : FftReady P g) (h : F)
    (hh : h ≠ 0) : FftReady P (withOffset g h h⁻¹ (h ^ g.dom.size)) := by
  cases g with
  | radix2 d =>
    obtain ⟨hd, hs⟩ := hg
    exact ⟨⟨hd.size_pos, hd.size_lt, hd.sizeF, hd.sizeInv, hd.gen_order, hd.genInv,
      inv_mul_cancel₀ hh, rfl⟩, hs⟩
  | mixedRadix d =>
    obtain ⟨hd, r⟩ := hg
    exact ⟨⟨hd.size_pos, hd.size_lt, hd.sizeF, hd.sizeInv, hd.gen_order, hd.genInv,
      inv_mul_cancel₀ hh, rfl⟩, r⟩

/-! ### the wrap-around form of the reduced product -/

/-- Cauchy product coefficient -/
def conv (A B : List F) (k : Nat) : F := ∑ i ∈ Finset.range (k + 1), fn A i * fn B (k - i)

theorem mulModCoeffs_wrap (N : Nat) (hN : 0 < N) (c : F) (A B : List F) (hA : A.length ≤ N)
    (hB : B.length ≤ N) :
    mulModCoeffs N c A B = tab N (fun j => conv A B j + c * conv A B (j + N)) := by
  unfold mulModCoeffs
  apply tab_congr
  intro j hj
  have hdeg := degree_polyOf_mul_lt A B (2 * N) (by omega)
  rw [coeff_modByMonic_XpowN _ N hN c hdeg j hj, coeff_polyOf_mul, coeff_polyOf_mul]
  rfl

theorem mulModCoeffs_small (N : Nat) (hN : 0 < N) (c : F) (A B : List F)
    (h : A.length + B.length ≤ N + 1) : mulModCoeffs N c A B = tab N (conv A B) :=
  mulModCoeffs_of_small N hN c A B h

/-! ### interpolation -/

variable {d : Domain F} {fft ifft : List F → Outcome (List F)}

/-- `Evaluations::interpolate` w.r.t. an abstract inverse transform -/
def interp (ifft : List F → Outcome (List F)) (e : List F) : Outcome (List F) :=
  match ifft e with
  | .panic => .panic
  | .ok c => .ok (denseFromCoefficientsVec c)

theorem interpolateGeneral_eq (P : Params F) (g : GeneralDomain F) (e : List F) :
    interpolateGeneral P g e = interp (generalIfft P g) e := rfl

theorem interpolateRadix2_eq (d : Domain F) (e : List F) :
    Outcome.ok (interpolateRadix2 d e) = interp (fun e => .ok (radix2Ifft d e)) e := rfl

/-- interpolation: canonical, at most `N` coefficients, takes the prescribed values -/
theorem Transform.interp_spec (T : Transform d fft ifft) (e : List F) (he : e.length = d.size) :
    ∃ p : List F, interp ifft e = .ok p ∧ p.getLast? ≠ some 0 ∧ p.length ≤ d.size ∧
      (elements d).map (evalL p) = e := by
  obtain ⟨c, h1, h2, h3⟩ := T.ifft_total e he
  refine ⟨denseFromCoefficientsVec c, by simp only [interp, h1], ?_, ?_, ?_⟩
  · exact (denseFromCoefficientsVec_spec c).choose_spec.2
  · exact h2 ▸ length_denseFromCoefficientsVec_le c
  · rw [← h3]
    apply List.map_congr_left
    intro x _
    exact evalL_denseFromCoefficientsVec c x

theorem Transform.interp_add (T : Transform d fft ifft) (a b : List F) (ha : a.length = d.size)
    (hb : b.length = d.size) :
    ∃ pa pb ps : List F, interp ifft a = .ok pa ∧ interp ifft b = .ok pb ∧
      interp ifft (List.zipWith (· + ·) a b) = .ok ps ∧
      (∀ i, fn ps i = fn pa i + fn pb i) ∧ ∀ x, evalL ps x = evalL pa x + evalL pb x := by
  obtain ⟨ca, cb, h1, h2, h3, h4, h5⟩ := T.ifft_add a b ha hb
  refine ⟨denseFromCoefficientsVec ca, denseFromCoefficientsVec cb,
    denseFromCoefficientsVec (List.zipWith (· + ·) ca cb), by simp only [interp, h1],
    by simp only [interp, h2], by simp only [interp, h5], fun i => ?_, fun x => ?_⟩
  · rw [fn_denseFromCoefficientsVec, fn_denseFromCoefficientsVec, fn_denseFromCoefficientsVec,
      fn_zipWith_add ca cb (h3.trans h4.symm)]
  · rw [evalL_denseFromCoefficientsVec, evalL_denseFromCoefficientsVec,
      evalL_denseFromCoefficientsVec, evalL_zipWith_add ca cb (h3.trans h4.symm)]

theorem Transform.interp_smul (T : Transform d fft ifft) (a : List F) (s : F)
    (ha : a.length = d.size) :
    ∃ pa ps : List F, interp ifft a = .ok pa ∧ interp ifft (evalsMulScalar a s) = .ok ps ∧
      (∀ i, fn ps i = fn pa i * s) ∧ ∀ x, evalL ps x = evalL pa x * s := by
  obtain ⟨ca, h1, h2, h3⟩ := T.ifft_smul a s ha
  refine ⟨denseFromCoefficientsVec ca, denseFromCoefficientsVec (ca.map (fun v => v * s)),
    by simp only [interp, h1], by simp only [interp, h3], fun i => ?_, fun x => ?_⟩
  · rw [fn_denseFromCoefficientsVec, fn_denseFromCoefficientsVec, fn_map_mul]
  · rw [evalL_denseFromCoefficientsVec, evalL_denseFromCoefficientsVec, evalL_map_mul]

/-- the zero evaluations interpolate to the zero polynomial -/
theorem Transform.interp_zero (T : Transform d fft ifft) :
    interp ifft (evalsZero d) = .ok [] := by
  have h : evalsZero d = (elements d).map (evalL ([] : List F)) := by
    unfold evalsZero
    rw [Fft.elements_eq, List.map_map]
    apply List.ext_getElem <;> simp [evalL]
  have h2 := T.ifft_ok [] (Nat.zero_le _)
  rw [← h] at h2
  simp only [interp, h2]
  congr 1
  obtain ⟨m, h1, h3⟩ := denseFromCoefficientsVec_spec (resize ([] : List F) d.size 0)
  generalize denseFromCoefficientsVec (resize ([] : List F) d.size 0) = p at h1 h3
  have hz : ∀ x ∈ p, x = 0 := by
    intro x hx
    have : x ∈ resize ([] : List F) d.size 0 := by rw [h1]; simp [hx]
    simp [resize] at this
    exact this.2
  cases hp : p.getLast? with
  | none => simpa using hp
  | some v =>
    exfalso
    rw [hp] at h3
    exact h3 (by rw [hz v (List.mem_of_getLast? hp)])

end Instances

/-! ## 7. C08 surface: `TryInto<SparsePolynomial>`, `From<DenseOrSparsePolynomial>`, `pow_with_table` -/

section PolySurface
open Ark.Poly Ark.PolyB
variable {F : Type} [Field F] [DecidableEq F]

theorem tryIntoSparse_iff (x : DoS F) (t : Terms F) : x.tryIntoSparse = some t ↔ x = .s t := by
  cases x <;> simp [DoS.tryIntoSparse]

theorem tryIntoSparse_none_iff (x : DoS F) : x.tryIntoSparse = none ↔ ∃ p, x = .d p := by
  cases x <;> simp [DoS.tryIntoSparse]

/-- `Σ_{i<n} scoeff s i · x^i = Σ_{(d,c) ∈ s} c·x^d` when every stored degree is `< n` -/
theorem sum_scoeff_pow (s : Terms F) (x : F) (n : Nat) (h : ∀ t ∈ s, t.1 < n) :
    ∑ i ∈ Finset.range n, scoeff s i * x ^ i = (s.map (fun t => t.2 * x ^ t.1)).sum := by
  induction s with
  | nil => simp
  | cons t s ih =>
    simp only [scoeff_cons, add_mul, Finset.sum_add_distrib, List.map_cons, List.sum_cons]
    rw [ih (fun u hu => h u (by simp [hu]))]
    congr 1
    simp only [ite_mul, zero_mul]
    rw [Finset.sum_ite_eq (Finset.range n) t.1]
    simp [h t (by simp)]

/-- dense evaluation as a sum up to any bound `≥ length` -/
theorem evaluate_eq_sum_of_le (p : List F) (x : F) (n : Nat) (h : p.length ≤ n) :
    evaluate p x = ∑ i ∈ Finset.range n, coeffB p i * x ^ i := by
  rw [Ark.Poly.A.evaluate_eq_sum]
  obtain ⟨e, rfl⟩ := Nat.exists_eq_add_of_le h
  rw [Finset.sum_range_add]
  have : ∑ i ∈ Finset.range e, coeffB p (p.length + i) * x ^ (p.length + i) = 0 := by
    apply Finset.sum_eq_zero
    intro i _
    rw [coeffB_of_le p _ (by omega), zero_mul]
  rw [this, add_zero]
  rfl

/-- `From<DenseOrSparsePolynomial> for DensePolynomial`, sparse variant, canonical operand:
    canonical result, same coefficient function, same value at every point -/
theorem toDense_s_spec (s : Terms F) (hs : SCanon s) :
    ∃ r, (DoS.s s).toDense = .ok r ∧ CanonB r ∧ (∀ i, coeffB r i = scoeff s i) ∧
      (∀ x, evaluate r x = (s.map (fun t => t.2 * x ^ t.1)).sum) ∧
      ∀ x, sEvaluate s x = .ok (evaluate r x) := by
  obtain ⟨r, h1, h2, h3, h4⟩ := sparseToDense_spec s hs
  have hev : ∀ x, evaluate r x = (s.map (fun t => t.2 * x ^ t.1)).sum := by
    intro x
    rw [evaluate_eq_sum_of_le r x (sdeg s + 1) h4]
    simp only [h3]
    exact sum_scoeff_pow s x _ (fun t ht => Nat.lt_succ_of_le (scanon_le_sdeg s hs t ht))
  exact ⟨r, h1, h2, h3, hev, fun x => by rw [sEvaluate_spec s x hs, hev]⟩

/-! ### the table of `pow_with_table` -/

theorem squarings_length (x : F) (n : Nat) : (squarings x n).length = n + 1 := by
  induction n generalizing x with
  | zero => rfl
  | succ n ih => simp [squarings, ih]

theorem squarings_getElem? (x : F) (n i : Nat) (hi : i ≤ n) :
    (squarings x n)[i]? = some (x ^ 2 ^ i) := by
  induction n generalizing x i with
  | zero =>
    have : i = 0 := by omega
    subst this; simp [squarings]
  | succ n ih =>
    cases i with
    | zero => simp [squarings]
    | succ i =>
      simp only [squarings, List.getElem?_cons_succ]
      rw [ih (x * x) i (by omega), ← pow_two, ← pow_mul, ← pow_succ']

theorem bitLen_le_iff (d k : Nat) : Poly.bitLen d ≤ k ↔ d < 2 ^ k := by
  unfold Poly.bitLen
  by_cases h : d = 0
  · simp [h]
  · rw [if_neg h, Nat.succ_le_iff, Nat.log2_lt h]

theorem bitLen_le_64 (d : Nat) (h : d < 2 ^ 64) : Poly.bitLen d ≤ 64 := (bitLen_le_iff d 64).2 h

theorem bitLen_u64_max : Poly.bitLen (2 ^ 64 - 1) = 64 := by
  apply le_antisymm ((bitLen_le_iff _ 64).2 (by norm_num))
  by_contra hc
  have : Poly.bitLen (2 ^ 64 - 1) ≤ 63 := by omega
  have := (bitLen_le_iff _ 63).1 this
  norm_num at this

/-- the table built by `evaluate` for a polynomial of degree `d` has `max 1 (bits of d)` entries:
    at most 64 for a `usize` degree -/
theorem table_length (x : F) (d : Nat) :
    (squarings x (Poly.bitLen d - 1)).length = max 1 (Poly.bitLen d) := by
  rw [squarings_length]; omega

/-- `pow_with_table` succeeds exactly when the table covers every bit of the exponent -/
theorem powWithTable_isSome_iff (fuel e : Nat) (tbl : List F) (res : F) (h : e < fuel) :
    (powWithTable fuel tbl e res).isSome ↔ Poly.bitLen e ≤ tbl.length := by
  induction fuel generalizing e tbl res with
  | zero => omega
  | succ fuel ih =>
    unfold powWithTable
    by_cases he : e = 0
    · simp [he, Poly.bitLen]
    · rw [if_neg he]
      have hdiv : e / 2 < fuel := by omega
      have hb : Poly.bitLen e = Poly.bitLen (e / 2) + 1 := by
        apply le_antisymm
        · rw [bitLen_le_iff, pow_succ]
          have := (bitLen_le_iff (e / 2) (Poly.bitLen (e / 2))).1 (le_refl _)
          omega
        · by_contra hc
          have h1 : Poly.bitLen e ≤ Poly.bitLen (e / 2) := by omega
          have h2 := (bitLen_le_iff e _).1 h1
          by_cases h0 : e / 2 = 0
          · have : e = 1 := by omega
            subst this
            simp [Poly.bitLen] at h2
          · have h3 : 1 ≤ Poly.bitLen (e / 2) := by
              by_contra h4
              have : Poly.bitLen (e / 2) ≤ 0 := by omega
              have := (bitLen_le_iff _ 0).1 this
              omega
            obtain ⟨m, hm⟩ : ∃ m, Poly.bitLen (e / 2) = m + 1 := ⟨_, (Nat.sub_add_cancel h3).symm⟩
            rw [hm, pow_succ] at h2
            have h5 : ¬ Poly.bitLen (e / 2) ≤ m := by omega
            rw [bitLen_le_iff] at h5
            omega
      by_cases hodd : e % 2 = 1
      · rw [if_pos hodd]
        cases tbl with
        | nil => simp [hb]
        | cons t ts => simp only [ih (e / 2) ts (res * t) hdiv, hb, List.length_cons, Nat.add_le_add_iff_right]
      · rw [if_neg hodd]
        have h0 : e / 2 ≠ 0 := by omega
        cases tbl with
        | nil =>
          rw [List.tail_nil, ih (e / 2) [] res hdiv, hb]
          simp only [List.length_nil, Nat.le_zero_eq, Nat.add_eq_zero_iff, one_ne_zero, and_false, iff_false]
          intro h6
          have := (bitLen_le_iff (e / 2) 0).1 (by omega)
          omega
        | cons t ts => simp only [List.tail_cons, ih (e / 2) ts res hdiv, hb, List.length_cons, Nat.add_le_add_iff_right]

/-- with the table `[x, x², x⁴, …]` (`k+1` entries) the result is `res·x^e` when `e < 2^(k+1)`,
    and `None` otherwise -/
theorem powWithTable_squarings_iff (e k : Nat) (x res : F) :
    (e < 2 ^ (k + 1) → powWithTable (e + 1) (squarings x k) e res = some (res * x ^ e)) ∧
    (2 ^ (k + 1) ≤ e → powWithTable (e + 1) (squarings x k) e res = none) := by
  refine ⟨fun h => powWithTable_squarings (e + 1) e k x res (by omega) h, fun h => ?_⟩
  have := powWithTable_isSome_iff (e + 1) e (squarings x k) res (by omega)
  rw [squarings_length, bitLen_le_iff] at this
  cases hp : powWithTable (e + 1) (squarings x k) e res with
  | none => rfl
  | some v =>
    rw [hp] at this
    have := this.1 rfl
    omega

end PolySurface

/-! ## 8. the statements in the form used by `Ark.Props.C07c` -/

section Concrete
variable {F : Type} [Field F] [DecidableEq F]

theorem mul_pointwise (a b r : List F) (h : mulPolynomialsInEvaluationDomain a b = .ok r) :
    a.length = b.length ∧ r.length = a.length ∧
      ∀ i (hr : i < r.length) (ha : i < a.length) (hb : i < b.length), r[i] = a[i] * b[i] := by
  obtain ⟨h1, rfl⟩ := (mul_ok_iff a b r).1 h
  refine ⟨h1, by simp [h1], fun i hr ha hb => by simp⟩

theorem binAssign_add_eq (a b s : List F) (hab : a.length = b.length)
    (hs : evalsBinAssign (· + ·) true a b = .ok s) : s = List.zipWith (· + ·) a b := by
  rw [((evalsBinAssign_ok_iff _ _ _ _ _).1 hs).2, zipAssign_eq_zipWith _ _ _ (le_of_eq hab)]

variable {d : Domain F}

/-- `interpolate` on a radix-2 domain: canonical, at most `N` coefficients, the prescribed values -/
theorem interpolateRadix2_spec (T : Transform d (radix2Fft d) (fun e => .ok (radix2Ifft d e)))
    (e : List F) (he : e.length = d.size) :
    (interpolateRadix2 d e).getLast? ≠ some 0 ∧ (interpolateRadix2 d e).length ≤ d.size ∧
      (elements d).map (evalL (interpolateRadix2 d e)) = e := by
  obtain ⟨p, h1, h2⟩ := T.interp_spec e he
  rw [← interpolateRadix2_eq] at h1
  cases h1
  exact h2

theorem interpolateRadix2_add (T : Transform d (radix2Fft d) (fun e => .ok (radix2Ifft d e)))
    (a b s : List F) (ha : a.length = d.size) (hb : b.length = d.size)
    (hs : evalsBinAssign (· + ·) true a b = .ok s) :
    (∀ i, fn (interpolateRadix2 d s) i = fn (interpolateRadix2 d a) i + fn (interpolateRadix2 d b) i) ∧
    ∀ x, evalL (interpolateRadix2 d s) x =
      evalL (interpolateRadix2 d a) x + evalL (interpolateRadix2 d b) x := by
  rw [binAssign_add_eq a b s (ha.trans hb.symm) hs]
  obtain ⟨pa, pb, ps, h1, h2, h3, h4⟩ := T.interp_add a b ha hb
  rw [← interpolateRadix2_eq] at h1 h2 h3
  cases h1; cases h2; cases h3
  exact h4

theorem interpolateRadix2_smul (T : Transform d (radix2Fft d) (fun e => .ok (radix2Ifft d e)))
    (a : List F) (c : F) (ha : a.length = d.size) :
    (∀ i, fn (interpolateRadix2 d (evalsMulScalar a c)) i = fn (interpolateRadix2 d a) i * c) ∧
    ∀ x, evalL (interpolateRadix2 d (evalsMulScalar a c)) x = evalL (interpolateRadix2 d a) x * c := by
  obtain ⟨pa, ps, h1, h2, h3⟩ := T.interp_smul a c ha
  rw [← interpolateRadix2_eq] at h1 h2
  cases h1; cases h2
  exact h3

theorem interpolateRadix2_zero (T : Transform d (radix2Fft d) (fun e => .ok (radix2Ifft d e))) :
    interpolateRadix2 d (evalsZero d) = [] := by
  have := T.interp_zero
  rw [← interpolateRadix2_eq] at this
  exact Outcome.ok.inj this

/-- general domain: the same four statements for `interpolateGeneral` -/
theorem interpolateGeneral_spec (P : Params F) (g : GeneralDomain F) (hg : FftReady P g)
    (e : List F) (he : e.length = g.dom.size) :
    ∃ p, interpolateGeneral P g e = .ok p ∧ p.getLast? ≠ some 0 ∧ p.length ≤ g.dom.size ∧
      (elements g.dom).map (evalL p) = e :=
  (general_transform P g hg).interp_spec e he

theorem interpolateGeneral_add (P : Params F) (g : GeneralDomain F) (hg : FftReady P g)
    (a b s : List F) (ha : a.length = g.dom.size) (hb : b.length = g.dom.size)
    (hs : evalsBinAssign (· + ·) true a b = .ok s) :
    ∃ pa pb ps, interpolateGeneral P g a = .ok pa ∧ interpolateGeneral P g b = .ok pb ∧
      interpolateGeneral P g s = .ok ps ∧ (∀ i, fn ps i = fn pa i + fn pb i) ∧
      ∀ x, evalL ps x = evalL pa x + evalL pb x := by
  rw [binAssign_add_eq a b s (ha.trans hb.symm) hs]
  exact (general_transform P g hg).interp_add a b ha hb

theorem interpolateGeneral_smul (P : Params F) (g : GeneralDomain F) (hg : FftReady P g)
    (a : List F) (c : F) (ha : a.length = g.dom.size) :
    ∃ pa ps, interpolateGeneral P g a = .ok pa ∧
      interpolateGeneral P g (evalsMulScalar a c) = .ok ps ∧ (∀ i, fn ps i = fn pa i * c) ∧
      ∀ x, evalL ps x = evalL pa x * c :=
  (general_transform P g hg).interp_smul a c ha

theorem evalsZero_eq (d : Domain F) :
    evalsZero d = List.replicate d.size 0 ∧ (evalsZero d).length = d.size ∧
      evalsZero d = (elements d).map (evalL ([] : List F)) := by
  refine ⟨rfl, by simp [evalsZero], ?_⟩
  unfold evalsZero
  rw [Fft.elements_eq, List.map_map]
  apply List.ext_getElem <;> simp [evalL]

end Concrete

section Product
variable {F : Type} [Field F] [DecidableEq F]

/-- decidable equality of general domains through the modelled `PartialEq` -/
instance instDecidableEqGeneralDomain : DecidableEq (GeneralDomain F) :=
  fun a b => decidable_of_iff _ (generalDomainEq_iff a b)

theorem conv_eq_zero_of_nil_left (B : List F) (k : Nat) : conv ([] : List F) B k = 0 := by
  unfold conv; apply Finset.sum_eq_zero; intro i _; simp [fn]

theorem conv_eq_zero_of_nil_right (A : List F) (k : Nat) : conv A ([] : List F) k = 0 := by
  unfold conv; apply Finset.sum_eq_zero; intro i _; simp [fn]

theorem zipWith_mul_replicate_zero_right (l : List F) (n : Nat) (h : l.length = n) :
    List.zipWith (· * ·) l (List.replicate n (0 : F)) = List.replicate n 0 := by
  apply List.ext_getElem <;> simp [h]

theorem zipWith_mul_replicate_zero_left (l : List F) (n : Nat) (h : l.length = n) :
    List.zipWith (· * ·) (List.replicate n (0 : F)) l = List.replicate n 0 := by
  apply List.ext_getElem <;> simp [h]

/-- radix-2 multiplication through the transforms when `deg A + deg B < N`, including the
    degenerate case of an empty operand next to one of length `N + 1` (which `fft_in_place`
    truncates) -/
theorem radix2_mul_ifft_product (d : Domain F)
    (T : Transform d (radix2Fft d) (fun e => .ok (radix2Ifft d e))) (A B : List F)
    (hAB : A.length + B.length ≤ d.size + 1) :
    ∃ ea eb r, radix2Fft d A = .ok ea ∧ radix2Fft d B = .ok eb ∧
      mulPolynomialsInEvaluationDomain ea eb = .ok r ∧ radix2Ifft d r = tab d.size (conv A B) := by
  have hpos := T.pos
  by_cases hA0 : A.length ≤ d.size ∧ B.length ≤ d.size
  · obtain ⟨ea, eb, r, h1, h2, h3, h4⟩ := T.mul_ifft A B hA0.1 hA0.2
    exact ⟨ea, eb, r, h1, h2, h3, (Outcome.ok.inj h4).trans (mulModCoeffs_small d.size hpos _ A B hAB)⟩
  · have hfft : ∀ X : List F, X.length ≤ d.size + 1 →
        ∃ ex, radix2Fft d X = .ok ex ∧ ex.length = d.size := by
      intro X hX
      by_cases hl : d.size < X.length
      · refine ⟨(elements d).map (evalL (X.take d.size)), ?_, ?_⟩
        · rw [Fft.A.radix2Fft_long d X hpos hl]; exact T.fft_ok _ (by simp)
        · simp [elements_length]
      · exact ⟨_, T.fft_ok _ (by omega), by simp [elements_length]⟩
    have hnil : radix2Fft d ([] : List F) = .ok (List.replicate d.size 0) := by
      rw [T.fft_ok [] (Nat.zero_le _), ← (evalsZero_eq d).2.2]; rfl
    have hifft : radix2Ifft d (List.replicate d.size 0) = List.replicate d.size 0 := by
      have h := T.ifft_ok [] (Nat.zero_le _)
      rw [← (evalsZero_eq d).2.2] at h
      have h' := Outcome.ok.inj h
      rw [(evalsZero_eq d).1] at h'
      rw [h']; simp [resize]
    have hz : ∀ f : Nat → F, (∀ k, f k = 0) → tab d.size f = List.replicate d.size 0 := by
      intro f hf
      apply List.ext_getElem <;> simp [tab, hf]
    rcases Nat.lt_or_ge d.size A.length with h | h
    · have hB : B = [] := List.eq_nil_of_length_eq_zero (by omega)
      subst hB
      obtain ⟨ex, h1, h3⟩ := hfft A (by omega)
      refine ⟨ex, _, List.replicate d.size 0, h1, hnil, ?_, ?_⟩
      · rw [mul_ok_iff]
        exact ⟨by simp [h3], (zipWith_mul_replicate_zero_right ex _ h3).symm⟩
      · rw [hifft, hz _ (conv_eq_zero_of_nil_right A)]
    · have hA : A = [] := List.eq_nil_of_length_eq_zero (by omega)
      subst hA
      obtain ⟨ex, h1, h3⟩ := hfft B (by omega)
      refine ⟨_, ex, List.replicate d.size 0, hnil, h1, ?_, ?_⟩
      · rw [mul_ok_iff]
        exact ⟨by simp [h3], (zipWith_mul_replicate_zero_left ex _ h3).symm⟩
      · rw [hifft, hz _ (conv_eq_zero_of_nil_left B)]

theorem evalsDivAssign_entries (a b r : List F) (hr : evalsDivAssign true a b = .ok r) :
    r.length = a.length ∧
    (∀ (i : Nat) (x y : F), a[i]? = some x → b[i]? = some y → r[i]? = some (x / y)) ∧
    (∀ (i : Nat) (x : F), a[i]? = some x → b[i]? = none → r[i]? = some x) := by
  obtain ⟨-, rfl⟩ := (evalsDivAssign_ok_iff true a b r).1 hr
  refine ⟨zipAssign_length _ _ _, fun i x y hx hy => ?_, fun i x hx hy => ?_⟩
  · rw [evalsDivAssign_getElem?, hx, hy]
  · rw [evalsDivAssign_getElem?, hx, hy]

theorem evalsDivAssign_zipWith (a b : List F) (h : a.length = b.length) :
    evalsDivAssign true a b = .ok (List.zipWith (· / ·) a b) := by
  rw [evalsDivAssign_ok_iff, zipAssign_eq_zipWith _ _ _ (by simp [h])]
  refine ⟨rfl, ?_⟩
  apply List.ext_getElem?
  intro i
  simp only [List.getElem?_zipWith, List.getElem?_map]
  cases a[i]? <;> cases b[i]? <;> simp [div_eq_mul_inv]

end Product

section Table
open Ark.Poly Ark.PolyB
variable {F : Type} [Field F] [DecidableEq F]

theorem table_length_le_64 (x : F) (d : Nat) (h : d < 2 ^ 64) :
    (squarings x (Poly.bitLen d - 1)).length ≤ 64 := by
  rw [table_length]
  exact max_le (by norm_num) (bitLen_le_64 d h)

theorem table_covers (s : Terms F) (x : F) (hs : SCanon s) :
    ∀ t ∈ s, Poly.bitLen t.1 ≤ (squarings x (Poly.bitLen (sdeg s) - 1)).length := by
  intro t ht
  rw [table_length]
  refine le_trans ?_ (le_max_right _ _)
  rw [SurfaceB.bitLen_le_iff]
  exact Nat.lt_of_le_of_lt (scanon_le_sdeg s hs t ht) ((SurfaceB.bitLen_le_iff _ _).1 (le_refl _))

theorem table_length_le_64_of (s : Terms F) (x : F) (h : ∀ t ∈ s, t.1 < 2 ^ 64) :
    (squarings x (Poly.bitLen (sdeg s) - 1)).length ≤ 64 := by
  apply table_length_le_64
  unfold sdeg
  cases hl : s.getLast? with
  | none => norm_num
  | some t => exact h t (List.mem_of_getLast? hl)

theorem sEvaluate_max (c x : F) (hc : c ≠ 0) :
    sEvaluate [(2 ^ 64 - 1, c)] x = .ok (c * x ^ (2 ^ 64 - 1)) ∧
    (squarings x (Poly.bitLen (2 ^ 64 - 1) - 1)).length = 64 := by
  refine ⟨?_, by rw [table_length, bitLen_u64_max]; rfl⟩
  have hs : SCanon [((2 ^ 64 - 1 : Nat), c)] := ⟨by simp, by simpa using hc⟩
  rw [sEvaluate_spec _ x hs]
  simp

end Table
end Ark.SurfaceB
