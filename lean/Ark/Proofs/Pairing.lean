import Ark.Model.Pairing
import Ark.Proofs.ExtB
import Mathlib.Tactic.Ring
import Mathlib.Tactic.LinearCombination
import Mathlib.Tactic.Linarith
import Mathlib.Tactic.NormNum
import Mathlib.Tactic.FieldSimp
import Mathlib.Algebra.BigOperators.Group.List.Basic
import Mathlib.Algebra.GroupWithZero.Basic
import Mathlib.Algebra.Group.Submonoid.Basic
/-
  Ark.Proofs.Pairing — helper lemmas for C06 (`Ark/Props/C06.lean`): the algebraic skeleton of the
  pairing engines of `Ark.Model.Pairing`.

  * `AM L`: a "loop" `L : M → List α → Outcome (M × List α)` over a commutative monoid of states is
    *append-multiplicative* when running it on `ps ++ qs` from `f₁ * f₂` gives the product of the runs
    on `ps` from `f₁` and on `qs` from `f₂`.  `ellRound`, `bitLoop`, `Bn.chunkLoop`, `Bw6.chunkLoop2`
    (with state `(f_u, f_u⁻¹, f)`) are such loops as soon as squaring and the line multiplications are
    lawful; hence `chunks_mut(4)` is irrelevant and a multi Miller loop is the product of the
    single-pair Miller loops.
  * `TargetLawful` / `CycLawful`: the target-field dictionary computes the operations of a field `T`
    (everywhere: square, inverse, Frobenius, conjugation; on the cyclotomic subgroup `Cyc`:
    cyclotomic square / inverse / exponentiation).  These hypotheses are what `Ark/Props/C02a.lean` and
    `C02b.lean` establish for the concrete towers.
  * final exponentiations are then explicit monoid homomorphisms of `T`.
-/
namespace Ark.PairingP
open Ark Ark.Ext Ark.Pairing Ark.ExtB
set_option linter.unusedSectionVars false
set_option linter.style.haveILetI false

/-! ## `Outcome` plumbing -/

theorem obind_eq_ok {α β : Type} {x : Outcome α} {f : α → Outcome β} {b : β} :
    obind x f = .ok b ↔ ∃ a, x = .ok a ∧ f a = .ok b := by
  cases x with
  | ok a => simp
  | panic => simp

theorem zipEq_map {α β γ : Type} (l : List γ) (f : γ → α) (g : γ → β) :
    zipEq (l.map f) (l.map g) = .ok (l.map fun t => (f t, g t)) := by
  induction l with
  | nil => rfl
  | cons t l ih => simp [zipEq, ih]

theorem zipEq_ok {α β : Type} {as : List α} {bs : List β} {zs : List (α × β)}
    (h : zipEq as bs = .ok zs) : as = zs.map Prod.fst ∧ bs = zs.map Prod.snd := by
  induction as generalizing bs zs with
  | nil =>
    cases bs with
    | nil => simp [zipEq] at h; subst h; simp
    | cons b bs => simp [zipEq] at h
  | cons a as ih =>
    cases bs with
    | nil => simp [zipEq] at h
    | cons b bs =>
      simp only [zipEq] at h
      obtain ⟨r, hr, h⟩ := obind_eq_ok.1 h
      simp at h; subst h
      obtain ⟨h1, h2⟩ := ih hr
      simp [h1, h2]

theorem mapO_append {α β : Type} (f : α → Outcome β) (l1 l2 : List α) :
    mapO f (l1 ++ l2) = obind (mapO f l1) fun r1 => obind (mapO f l2) fun r2 => .ok (r1 ++ r2) := by
  induction l1 with
  | nil =>
    simp only [List.nil_append, mapO, obind_ok]
    cases mapO f l2 <;> simp
  | cons a l1 ih =>
    simp only [List.cons_append, mapO, ih]
    cases f a with
    | panic => simp
    | ok b =>
      simp only [obind_ok]
      cases mapO f l1 with
      | panic => simp
      | ok r1 =>
        simp only [obind_ok]
        cases mapO f l2 <;> simp

theorem mapO_map_ok {α β γ : Type} (f : α → Outcome β) (l : List γ) (g : γ → α) (h : γ → β)
    (hl : ∀ t ∈ l, f (g t) = .ok (h t)) : mapO f (l.map g) = .ok (l.map h) := by
  induction l with
  | nil => rfl
  | cons t l ih =>
    simp only [List.map_cons, mapO, hl t (List.mem_cons_self), obind_ok,
      ih (fun t ht => hl t (List.mem_cons_of_mem _ ht))]

/-! ## `chunks_mut(4)` concatenates back to the slice -/

theorem chunks4Aux_flatten {α : Type} (fuel : Nat) (l : List α) (h : l.length ≤ fuel) :
    (chunks4Aux fuel l).flatten = l := by
  induction fuel generalizing l with
  | zero =>
    have : l = [] := List.eq_nil_of_length_eq_zero (Nat.le_zero.1 h)
    subst this; rfl
  | succ n ih =>
    unfold chunks4Aux
    cases l with
    | nil => rfl
    | cons a l =>
      simp only [List.isEmpty_cons, Bool.false_eq_true, if_false, List.flatten_cons]
      rw [ih _ (by simp at h ⊢; omega), List.take_append_drop]

theorem chunks4_flatten {α : Type} (l : List α) : (chunks4 l).flatten = l :=
  chunks4Aux_flatten _ _ (Nat.le_refl _)

theorem chunks4_nil {α : Type} : chunks4 ([] : List α) = [] := rfl

theorem chunks4_singleton {α : Type} (a : α) : chunks4 [a] = [[a]] := rfl

theorem chunks4_ne_nil {α : Type} (l : List α) (h : l ≠ []) : chunks4 l ≠ [] := by
  cases l with
  | nil => exact absurd rfl h
  | cons a l => simp [chunks4, chunks4Aux]

/-! ## `product` -/

section product
variable {M : Type} [CommMonoid M]

theorem product_eq_prod (l : List M) : product l = l.prod := by
  unfold product
  rw [List.prod_eq_foldl]

end product

/-! ## append-multiplicative loops -/

section am
variable {M α : Type} [CommMonoid M]

/-- running `L` on `ps ++ qs` from `f₁ * f₂` is the product of the two separate runs -/
def AM (L : M → List α → Outcome (M × List α)) : Prop :=
  ∀ f1 f2 ps qs g1 g2 ps' qs', L f1 ps = .ok (g1, ps') → L f2 qs = .ok (g2, qs') →
    L (f1 * f2) (ps ++ qs) = .ok (g1 * g2, ps' ++ qs')

/-- sequential composition of append-multiplicative loops -/
theorem AM.comp {L1 L2 : M → List α → Outcome (M × List α)} (h1 : AM L1) (h2 : AM L2) :
    AM (fun f ps => obind (L1 f ps) fun r => L2 r.1 r.2) := by
  intro f1 f2 ps qs g1 g2 ps' qs' ha hb
  obtain ⟨⟨a1, as1⟩, ha1, ha2⟩ := obind_eq_ok.1 ha
  obtain ⟨⟨b1, bs1⟩, hb1, hb2⟩ := obind_eq_ok.1 hb
  show obind (L1 (f1 * f2) (ps ++ qs)) _ = _
  rw [h1 _ _ _ _ _ _ _ _ ha1 hb1]
  exact h2 _ _ _ _ _ _ _ _ ha2 hb2

/-- a multiplicative map of the state that does not touch the list -/
theorem AM.pure (m : M → M) (hm : ∀ a b, m (a * b) = m a * m b) :
    AM (fun f (ps : List α) => .ok (m f, ps)) := by
  intro f1 f2 ps qs g1 g2 ps' qs' ha hb
  simp only [Outcome.ok.injEq, Prod.mk.injEq] at ha hb
  obtain ⟨rfl, rfl⟩ := ha
  obtain ⟨rfl, rfl⟩ := hb
  simp [hm]

/-- chunks: the per-chunk runs from `1` multiply to the run on the concatenation -/
theorem AM.overChunks {L : M → List α → Outcome (M × List α)} (h : AM L) (h0 : L 1 [] = .ok (1, []))
    (css : List (List α)) (gs : List M) (rest : List α)
    (hc : overChunks (L 1) css = .ok (gs, rest)) :
    L 1 css.flatten = .ok (gs.prod, rest) := by
  induction css generalizing gs rest with
  | nil =>
    simp only [Pairing.overChunks, Outcome.ok.injEq, Prod.mk.injEq] at hc
    obtain ⟨rfl, rfl⟩ := hc
    simpa using h0
  | cons c cs ih =>
    simp only [Pairing.overChunks] at hc
    obtain ⟨⟨t, c'⟩, h1, hc⟩ := obind_eq_ok.1 hc
    obtain ⟨⟨ts, r⟩, h2, hc⟩ := obind_eq_ok.1 hc
    simp only [Outcome.ok.injEq, Prod.mk.injEq] at hc
    obtain ⟨rfl, rfl⟩ := hc
    have := h _ _ _ _ _ _ _ _ h1 (ih ts r h2)
    simpa using this

/-- `chunks_mut(4).enumerate()` where chunk 0 runs `L0` and the other chunks run `L 1`; `L0` absorbs
    runs of `L 1` on its right -/
theorem AM.overChunksIdx {L : M → List α → Outcome (M × List α)} (h : AM L)
    (h0 : L 1 [] = .ok (1, []))
    (L0 : List α → Outcome (M × List α))
    (hmix : ∀ ps qs g1 g2 ps' qs', L0 ps = .ok (g1, ps') → L 1 qs = .ok (g2, qs') →
      L0 (ps ++ qs) = .ok (g1 * g2, ps' ++ qs'))
    (body : Nat → List α → Outcome (M × List α))
    (hb0 : ∀ ps, body 0 ps = L0 ps) (hb : ∀ i ps, body (i + 1) ps = L 1 ps)
    (c : List α) (cs : List (List α)) (gs : List M) (rest : List α)
    (hc : Pairing.overChunksIdx body 0 (c :: cs) = .ok (gs, rest)) :
    L0 (c :: cs).flatten = .ok (gs.prod, rest) := by
  have key : ∀ (cs : List (List α)) (i : Nat),
      Pairing.overChunksIdx body (i + 1) cs = Pairing.overChunks (L 1) cs := by
    intro cs
    induction cs with
    | nil => intro i; rfl
    | cons c cs ih =>
      intro i
      simp only [Pairing.overChunksIdx, Pairing.overChunks, hb, ih]
  simp only [Pairing.overChunksIdx, key, hb0] at hc
  obtain ⟨⟨t, c'⟩, h1, hc⟩ := obind_eq_ok.1 hc
  obtain ⟨⟨ts, r⟩, h2, hc⟩ := obind_eq_ok.1 hc
  simp only [Outcome.ok.injEq, Prod.mk.injEq] at hc
  obtain ⟨rfl, rfl⟩ := hc
  have := hmix _ _ _ _ _ _ h1 (h.overChunks h0 cs ts r h2)
  simpa using this

/-- the value computed by an append-multiplicative loop started from `1` -/
def AM.core (L : M → List α → Outcome (M × List α)) (k : List α) : Outcome M :=
  obind (L 1 k) fun r => .ok r.1

theorem AM.core_nil {L : M → List α → Outcome (M × List α)} (h0 : L 1 [] = .ok (1, [])) :
    AM.core L [] = .ok 1 := by
  simp [AM.core, h0]

theorem AM.core_append {L : M → List α → Outcome (M × List α)} (h : AM L)
    (k1 k2 : List α) (v1 v2 : M) (h1 : AM.core L k1 = .ok v1) (h2 : AM.core L k2 = .ok v2) :
    AM.core L (k1 ++ k2) = .ok (v1 * v2) := by
  unfold AM.core at h1 h2 ⊢
  obtain ⟨⟨g1, r1⟩, ha, h1⟩ := obind_eq_ok.1 h1
  obtain ⟨⟨g2, r2⟩, hb, h2⟩ := obind_eq_ok.1 h2
  simp only [Outcome.ok.injEq] at h1 h2
  subst h1 h2
  have := h _ _ _ _ _ _ _ _ ha hb
  rw [one_mul] at this
  rw [this]
  rfl

end am

/-! ## line evaluations and the shared loops -/

section loops
variable {F G T : Type} [CommMonoid T]

/-- `ell` multiplies `f` by a line value that does not depend on `f` (and panics independently of
    `f`) -/
def EllLawful (ell : T → EllCoeff G → Aff F → Outcome T) : Prop :=
  ∀ f c p, ell f c p = obind (ell 1 c p) fun l => .ok (f * l)

theorem EllLawful.mul_left {ell : T → EllCoeff G → Aff F → Outcome T} (h : EllLawful ell)
    {f g : T} {c : EllCoeff G} {p : Aff F} (k : T) (he : ell f c p = .ok g) :
    ell (k * f) c p = .ok (k * g) := by
  rw [h] at he
  obtain ⟨l, hl, he⟩ := obind_eq_ok.1 he
  simp only [Outcome.ok.injEq] at he
  subst he
  rw [h, hl]
  simp [mul_assoc]

theorem ellRound_mul_left {ell : T → EllCoeff G → Aff F → Outcome T} (h : EllLawful ell)
    (k : T) (ps : List (MPair F G)) (f g : T) (ps' : List (MPair F G))
    (he : ellRound ell f ps = .ok (g, ps')) :
    ellRound ell (k * f) ps = .ok (k * g, ps') := by
  induction ps generalizing f g ps' with
  | nil =>
    simp only [ellRound, Outcome.ok.injEq, Prod.mk.injEq] at he ⊢
    obtain ⟨rfl, rfl⟩ := he
    exact ⟨rfl, rfl⟩
  | cons pc rest ih =>
    obtain ⟨p, cs⟩ := pc
    cases cs with
    | nil => simp [ellRound] at he
    | cons c cs' =>
      simp only [ellRound] at he ⊢
      obtain ⟨f', h1, he⟩ := obind_eq_ok.1 he
      obtain ⟨⟨g', rest'⟩, h2, he⟩ := obind_eq_ok.1 he
      simp only [Outcome.ok.injEq, Prod.mk.injEq] at he
      obtain ⟨rfl, rfl⟩ := he
      rw [h.mul_left k h1]
      simp only [obind_ok]
      rw [ih _ _ _ h2]
      rfl

theorem ellRound_AM {ell : T → EllCoeff G → Aff F → Outcome T} (h : EllLawful ell) :
    AM (ellRound ell) := by
  intro f1 f2 ps
  induction ps generalizing f1 f2 with
  | nil =>
    intro qs g1 g2 ps' qs' ha hb
    simp only [ellRound, Outcome.ok.injEq, Prod.mk.injEq] at ha
    obtain ⟨rfl, rfl⟩ := ha
    simpa using ellRound_mul_left h f1 qs f2 g2 qs' hb
  | cons pc rest ih =>
    intro qs g1 g2 ps' qs' ha hb
    obtain ⟨p, cs⟩ := pc
    cases cs with
    | nil => simp [ellRound] at ha
    | cons c cs' =>
      simp only [ellRound, List.cons_append] at ha ⊢
      obtain ⟨f', h1, ha⟩ := obind_eq_ok.1 ha
      obtain ⟨⟨g', rest'⟩, h2, ha⟩ := obind_eq_ok.1 ha
      simp only [Outcome.ok.injEq, Prod.mk.injEq] at ha
      obtain ⟨rfl, rfl⟩ := ha
      have h3 : ell (f1 * f2) c p = .ok (f' * f2) := by
        rw [mul_comm f1 f2, h.mul_left f2 h1, mul_comm]
      rw [h3]
      simp only [obind_ok]
      rw [ih _ _ _ _ _ _ _ h2 hb]
      rfl

/-- the double-and-add loop of BLS12 and of the first loop of BW6 -/
theorem bitLoop_AM {square : T → T} {ell : T → EllCoeff G → Aff F → Outcome T}
    (hs : ∀ a b, square (a * b) = square a * square b) (h : EllLawful ell) (bits : List Bool) :
    AM (bitLoop square ell bits) := by
  induction bits with
  | nil =>
    intro f1 f2 ps qs g1 g2 ps' qs' ha hb
    simp only [bitLoop, Outcome.ok.injEq, Prod.mk.injEq] at ha hb ⊢
    obtain ⟨rfl, rfl⟩ := ha
    obtain ⟨rfl, rfl⟩ := hb
    exact ⟨rfl, rfl⟩
  | cons i bits ih =>
    have hE := ellRound_AM h
    intro f1 f2 ps qs g1 g2 ps' qs' ha hb
    simp only [bitLoop] at ha hb ⊢
    obtain ⟨⟨a1, as1⟩, ha1, ha⟩ := obind_eq_ok.1 ha
    obtain ⟨⟨b1, bs1⟩, hb1, hb⟩ := obind_eq_ok.1 hb
    rw [hs, hE _ _ _ _ _ _ _ _ ha1 hb1]
    simp only [obind_ok]
    cases i with
    | false =>
      simp only [Bool.false_eq_true, if_false] at ha hb ⊢
      exact ih _ _ _ _ _ _ _ _ ha hb
    | true =>
      simp only [if_true] at ha hb ⊢
      obtain ⟨⟨a2, as2⟩, ha2, ha⟩ := obind_eq_ok.1 ha
      obtain ⟨⟨b2, bs2⟩, hb2, hb⟩ := obind_eq_ok.1 hb
      rw [hE _ _ _ _ _ _ _ _ ha2 hb2]
      simp only [obind_ok]
      exact ih _ _ _ _ _ _ _ _ ha hb

theorem bitLoop_one_nil {square : T → T} (ell : T → EllCoeff G → Aff F → Outcome T)
    (hs1 : square 1 = 1) (bits : List Bool) :
    bitLoop square ell bits 1 [] = .ok (1, []) := by
  induction bits with
  | nil => rfl
  | cons i bits ih =>
    cases i <;> simp [bitLoop, ellRound, hs1, ih]

end loops

/-! ## lawfulness of the target-field dictionaries -/

section lawful
variable {P G T : Type} [Field T] [DecidableEq T]

/-- the sparse multiplications are multiplications by an element that depends on the three
    coefficients only (`Ark.C02.fp12_mulBy014_eq_mul`, `fp12_mulBy034_eq_mul`,
    `fp6a_mulBy014_eq_mul`, `fp6a_mulBy034_eq_mul`) -/
structure SparseLawful (S : SparseMul G T) : Prop where
  mulBy014 : ∀ f a b c, S.mulBy014 f a b c = f * S.mulBy014 1 a b c
  mulBy034 : ∀ f a b c, S.mulBy034 f a b c = f * S.mulBy034 1 a b c

/-- the dictionaries `DT`, `C` of the target field compute, on *all* of `T`: the square, the inverse,
    the Frobenius maps (multiplicative, total), and `cyclotomic_inverse` is a multiplicative map
    `conj` (the conjugation of the quadratic extension for `CycD.conj`, the inverse for
    `CycD.default`) guarded by the zero test -/
structure TargetLawful (DT : FieldD P T) (C : CycD T) where
  conj : T →*₀ T
  frob : ℕ → T →*₀ T
  square_eq : ∀ f, DT.square f = f * f
  inverse_eq : ∀ f, DT.inverse f = .ok (if f = 0 then none else some f⁻¹)
  frob_eq : ∀ f k, DT.frob f k = .ok (frob k f)
  cycInverse_eq : ∀ f, C.cycInverse f = .ok (if f = 0 then none else some (conj f))

variable {DT : FieldD P T} {C : CycD T}

theorem TargetLawful.cycInvInPlace_eq (L : TargetLawful DT C) (f : T) :
    cycInvInPlace C f = .ok (L.conj f) := by
  unfold cycInvInPlace
  rw [L.cycInverse_eq]
  by_cases h : f = 0
  · subst h; simp
  · simp [h]

theorem TargetLawful.invUnwrap_cycInverse (L : TargetLawful DT C) (f : T) :
    invUnwrap C.cycInverse f = if f = 0 then .panic else .ok (L.conj f) := by
  unfold invUnwrap
  rw [L.cycInverse_eq]
  by_cases h : f = 0
  · subst h; simp [unwrap]
  · simp [h, unwrap]

theorem TargetLawful.invUnwrap_inverse (L : TargetLawful DT C) (f : T) :
    invUnwrap DT.inverse f = if f = 0 then .panic else .ok f⁻¹ := by
  unfold invUnwrap
  rw [L.inverse_eq]
  by_cases h : f = 0
  · subst h; simp [unwrap]
  · simp [h, unwrap]

theorem TargetLawful.square_mul (L : TargetLawful DT C) (a b : T) :
    DT.square (a * b) = DT.square a * DT.square b := by
  simp only [L.square_eq]; ring

/-- the cyclotomic subgroup: where `cyclotomic_square` squares, `conj` inverts and `cyclotomic_exp`
    exponentiates (`Ark.C02.quad_cyc_exp`, `fp12_cyc_exp_of_cyclotomic`, `cyc_inverse_unitary_inv`) -/
structure CycLawful (L : TargetLawful DT C) where
  Cyc : Submonoid T
  ne_zero : ∀ a ∈ Cyc, a ≠ 0
  conj_eq : ∀ a ∈ Cyc, L.conj a = a⁻¹
  inv_mem : ∀ a ∈ Cyc, a⁻¹ ∈ Cyc
  frob_mem : ∀ a ∈ Cyc, ∀ k, L.frob k a ∈ Cyc
  cycSquare_eq : ∀ a ∈ Cyc, C.cycSquare a = a * a
  cycExp_eq : ∀ a ∈ Cyc, ∀ e, WF e → cycExp C a e = .ok (a ^ value e)

end lawful

/-! ## the generic "multi = product of singles" argument -/

section generic
variable {A B Z T : Type} [CommMonoid T]

theorem filterMap_eq_flatMap (sel : A → Option Z) (l : List A) :
    l.filterMap sel = l.flatMap fun z => [z].filterMap sel := by
  induction l with
  | nil => rfl
  | cons a l ih =>
    rw [List.flatMap_cons, ← ih]
    cases h : sel a <;> simp [h]

theorem filter_eq_flatMap (p : A → Bool) (l : List A) :
    l.filter p = l.flatMap fun z => [z].filter p := by
  induction l with
  | nil => rfl
  | cons a l ih =>
    rw [List.flatMap_cons, ← ih]
    cases h : p a <;> simp [h]

/-- if `core` sends `[]` to `1` and concatenation to products, then `core` of the concatenation of the
    per-pair selections is the product of the per-pair values -/
theorem core_prod (core : List Z → Outcome T) (pick : A × B → List Z)
    (h0 : core [] = .ok 1)
    (hmul : ∀ k1 k2 v1 v2, core k1 = .ok v1 → core k2 = .ok v2 → core (k1 ++ k2) = .ok (v1 * v2))
    (l : List (A × B × T)) (hl : ∀ t ∈ l, core (pick (t.1, t.2.1)) = .ok t.2.2) :
    core ((l.map fun t => (t.1, t.2.1)).flatMap pick) = .ok (l.map (·.2.2)).prod := by
  induction l with
  | nil => simpa using h0
  | cons t l ih =>
    simp only [List.map_cons, List.flatMap_cons, List.prod_cons]
    exact hmul _ _ _ _ (hl t (List.mem_cons_self))
      (ih fun t ht => hl t (List.mem_cons_of_mem _ ht))

end generic

/-! ## BLS12 -/

section bls12
variable {P F G T : Type} [Add G] [Sub G] [Mul G] [Neg G] [Field T] [DecidableEq T]

theorem ellXY_lawful {K : G2Field F G} {S : SparseMul G T} (hS : SparseLawful S) (tw : Twist)
    (f : T) (c : EllCoeff G) (px py : F) :
    ellXY K S tw f c px py = f * ellXY K S tw 1 c px py := by
  cases tw
  · simp only [ellXY]; exact hS.mulBy014 _ _ _ _
  · simp only [ellXY]; exact hS.mulBy034 _ _ _ _

theorem Bls12.ell_lawful (E : Bls12 P F G T) (hS : SparseLawful E.S) : EllLawful (Bls12.ell E) := by
  intro f c p
  unfold Bls12.ell
  cases h : unwrap p.xy with
  | panic => simp
  | ok xy =>
    obtain ⟨px, py⟩ := xy
    simp only [obind_ok]
    rw [ellXY_lawful hS]

/-- the selection of the non-identity pairs -/
def Bls12.sel (z : Aff F × G2Prepared G) : Option (MPair F G) :=
  if !z.1.infinity && !z.2.infinity then some (z.1, z.2.ellCoeffs) else none

/-- `multi_miller_loop` without `chunks_mut(4)`: one loop over all the kept pairs -/
def Bls12.flat (E : Bls12 P F G T) (pairs : List (MPair F G)) : Outcome T :=
  obind (bitLoop E.DT.square (Bls12.ell E) ((bitsBENoLeadingZeros E.x).drop 1) 1 pairs) fun r =>
  if E.xIsNegative then cycInvInPlace E.C r.1 else .ok r.1

/-- … and with them (as in the Rust code) -/
def Bls12.chunked (E : Bls12 P F G T) (pairs : List (MPair F G)) : Outcome T :=
  obind (overChunks (fun ps => bitLoop E.DT.square (Bls12.ell E) ((bitsBENoLeadingZeros E.x).drop 1) 1 ps)
    (chunks4 pairs)) fun r =>
  if E.xIsNegative then cycInvInPlace E.C (product r.1) else .ok (product r.1)

theorem Bls12.multi_eq (E : Bls12 P F G T) (a : List (Aff F)) (b : List (G2Prepared G)) :
    Bls12.multiMillerLoopPrepared E a b =
      obind (zipEq a b) fun zs => Bls12.chunked E (zs.filterMap Bls12.sel) := rfl

variable (E : Bls12 P F G T) (hS : SparseLawful E.S) (L : TargetLawful E.DT E.C)
include hS L

theorem Bls12.flat_of_chunked (pairs : List (MPair F G)) (v : T)
    (h : Bls12.chunked E pairs = .ok v) : Bls12.flat E pairs = .ok v := by
  unfold Bls12.chunked at h
  obtain ⟨⟨fs, rest⟩, h1, h⟩ := obind_eq_ok.1 h
  have hAM := bitLoop_AM (L.square_mul) (Bls12.ell_lawful E hS) ((bitsBENoLeadingZeros E.x).drop 1)
  have h2 := hAM.overChunks (bitLoop_one_nil _ (by rw [L.square_eq]; simp) _) _ _ _ h1
  rw [chunks4_flatten] at h2
  unfold Bls12.flat
  rw [h2]
  simpa [product_eq_prod] using h

theorem Bls12.flat_nil : Bls12.flat E [] = .ok 1 := by
  unfold Bls12.flat
  rw [bitLoop_one_nil _ (by rw [L.square_eq]; simp)]
  simp only [obind_ok]
  split
  · rw [L.cycInvInPlace_eq]; simp
  · rfl

theorem Bls12.flat_append (k1 k2 : List (MPair F G)) (v1 v2 : T)
    (h1 : Bls12.flat E k1 = .ok v1) (h2 : Bls12.flat E k2 = .ok v2) :
    Bls12.flat E (k1 ++ k2) = .ok (v1 * v2) := by
  unfold Bls12.flat at h1 h2 ⊢
  obtain ⟨⟨g1, r1⟩, ha, h1⟩ := obind_eq_ok.1 h1
  obtain ⟨⟨g2, r2⟩, hb, h2⟩ := obind_eq_ok.1 h2
  have hAM := bitLoop_AM (L.square_mul) (Bls12.ell_lawful E hS) ((bitsBENoLeadingZeros E.x).drop 1)
  have := hAM _ _ _ _ _ _ _ _ ha hb
  rw [one_mul] at this
  rw [this]
  simp only [obind_ok] at h1 h2 ⊢
  cases hneg : E.xIsNegative
  · simp only [hneg, Bool.false_eq_true, if_false, Outcome.ok.injEq] at h1 h2 ⊢
    rw [← h1, ← h2]
  · simp only [hneg, if_true, L.cycInvInPlace_eq, Outcome.ok.injEq] at h1 h2 ⊢
    rw [← h1, ← h2, map_mul]

/-- multi Miller loop = product of the single Miller loops (BLS12) -/
theorem Bls12.multi_prod (l : List (Aff F × G2Prepared G × T)) (v : T)
    (h : Bls12.multiMillerLoopPrepared E (l.map (·.1)) (l.map (·.2.1)) = .ok v)
    (hl : ∀ t ∈ l, Bls12.multiMillerLoopPrepared E [t.1] [t.2.1] = .ok t.2.2) :
    v = (l.map (·.2.2)).prod := by
  rw [Bls12.multi_eq, zipEq_map] at h
  simp only [obind_ok] at h
  have h' := Bls12.flat_of_chunked E hS L _ _ h
  rw [filterMap_eq_flatMap] at h'
  have := core_prod (Bls12.flat E) (fun z => [z].filterMap Bls12.sel) (Bls12.flat_nil E hS L)
    (Bls12.flat_append E hS L) l (by
      intro t ht
      have := hl t ht
      rw [Bls12.multi_eq] at this
      simp only [zipEq, obind_ok] at this
      exact Bls12.flat_of_chunked E hS L _ _ this)
  rw [this] at h'
  exact (Outcome.ok.inj h').symm

end bls12

/-! ## BN -/

section bn
variable {P F G T : Type} [Add G] [Sub G] [Mul G] [Neg G] [Field T] [DecidableEq T]

theorem Bn.ell_lawful (E : Bn P F G T) (hS : SparseLawful E.S) : EllLawful (Bn.ell E) := by
  intro f c p
  unfold Bn.ell
  simp only [obind_ok]
  rw [ellXY_lawful hS]

theorem Bn.chunkLoop_AM (E : Bn P F G T) (hS : SparseLawful E.S) (L : TargetLawful E.DT E.C)
    (ds : List (Bool × Int)) : AM (Bn.chunkLoop E ds) := by
  induction ds with
  | nil =>
    intro f1 f2 ps qs g1 g2 ps' qs' ha hb
    simp only [Bn.chunkLoop, Outcome.ok.injEq, Prod.mk.injEq] at ha hb ⊢
    obtain ⟨rfl, rfl⟩ := ha
    obtain ⟨rfl, rfl⟩ := hb
    exact ⟨rfl, rfl⟩
  | cons d ds ih =>
    obtain ⟨first, bit⟩ := d
    have hE := ellRound_AM (Bn.ell_lawful E hS)
    intro f1 f2 ps qs g1 g2 ps' qs' ha hb
    simp only [Bn.chunkLoop] at ha hb ⊢
    obtain ⟨⟨a1, as1⟩, ha1, ha⟩ := obind_eq_ok.1 ha
    obtain ⟨⟨b1, bs1⟩, hb1, hb⟩ := obind_eq_ok.1 hb
    have hsq : (if (!first) = true then E.DT.square (f1 * f2) else f1 * f2) =
        (if (!first) = true then E.DT.square f1 else f1) *
          (if (!first) = true then E.DT.square f2 else f2) := by
      cases first <;> simp [L.square_mul]
    rw [hsq, hE _ _ _ _ _ _ _ _ ha1 hb1]
    simp only [obind_ok]
    by_cases hbit : bit = 1 ∨ bit = -1
    · simp only [hbit, if_true] at ha hb ⊢
      obtain ⟨⟨a2, as2⟩, ha2, ha⟩ := obind_eq_ok.1 ha
      obtain ⟨⟨b2, bs2⟩, hb2, hb⟩ := obind_eq_ok.1 hb
      rw [hE _ _ _ _ _ _ _ _ ha2 hb2]
      simp only [obind_ok]
      exact ih _ _ _ _ _ _ _ _ ha hb
    · simp only [hbit, if_false] at ha hb ⊢
      exact ih _ _ _ _ _ _ _ _ ha hb

theorem Bn.chunkLoop_one_nil (E : Bn P F G T) (L : TargetLawful E.DT E.C) (ds : List (Bool × Int)) :
    Bn.chunkLoop E ds 1 [] = .ok (1, []) := by
  induction ds with
  | nil => rfl
  | cons d ds ih =>
    obtain ⟨first, bit⟩ := d
    have h1 : (if (!first) = true then E.DT.square (1 : T) else 1) = 1 := by
      cases first <;> simp [L.square_eq]
    simp only [Bn.chunkLoop, h1, ellRound, obind_ok, ih, ite_self]

/-- the sign adjustment after the main loop -/
def Bn.post (E : Bn P F G T) (L : TargetLawful E.DT E.C) (f : T) : T :=
  if E.xIsNegative then L.conj f else f

theorem Bn.post_eq (E : Bn P F G T) (L : TargetLawful E.DT E.C) (f : T) :
    (if E.xIsNegative then cycInvInPlace E.C f else .ok f) = .ok (Bn.post E L f) := by
  unfold Bn.post
  cases E.xIsNegative <;> simp [L.cycInvInPlace_eq]

theorem Bn.post_mul (E : Bn P F G T) (L : TargetLawful E.DT E.C) (a b : T) :
    Bn.post E L (a * b) = Bn.post E L a * Bn.post E L b := by
  unfold Bn.post
  cases E.xIsNegative <;> simp

/-- everything after `zip_eq` / `filter_map`, without `chunks_mut(4)`, as a loop -/
def Bn.flatLoop (E : Bn P F G T) (L : TargetLawful E.DT E.C) (f : T) (ps : List (MPair F G)) :
    Outcome (T × List (MPair F G)) :=
  obind (Bn.chunkLoop E (revDigits E.ateLoopCount) f ps) fun r =>
  obind (Outcome.ok (Bn.post E L r.1, r.2)) fun r =>
  obind (ellRound (Bn.ell E) r.1 r.2) fun r => ellRound (Bn.ell E) r.1 r.2

theorem Bn.flatLoop_AM (E : Bn P F G T) (hS : SparseLawful E.S) (L : TargetLawful E.DT E.C) :
    AM (Bn.flatLoop E L) :=
  (Bn.chunkLoop_AM E hS L _).comp
    ((AM.pure (Bn.post E L) (Bn.post_mul E L)).comp
      ((ellRound_AM (Bn.ell_lawful E hS)).comp (ellRound_AM (Bn.ell_lawful E hS))))

theorem Bn.flatLoop_one_nil (E : Bn P F G T) (L : TargetLawful E.DT E.C) :
    Bn.flatLoop E L 1 [] = .ok (1, []) := by
  unfold Bn.flatLoop
  rw [Bn.chunkLoop_one_nil E L]
  have : Bn.post E L 1 = 1 := by unfold Bn.post; cases E.xIsNegative <;> simp
  simp [ellRound, this]

def Bn.sel (z : Aff F × G2Prepared G) : Option (MPair F G) :=
  if !z.1.infinity && !z.2.infinity then some (z.1, z.2.ellCoeffs) else none

def Bn.chunked (E : Bn P F G T) (pairs : List (MPair F G)) : Outcome T :=
  obind (overChunks (fun ps => Bn.chunkLoop E (revDigits E.ateLoopCount) 1 ps) (chunks4 pairs))
    fun (fs, pairs) =>
  let f := product fs
  obind (if E.xIsNegative then cycInvInPlace E.C f else .ok f) fun f =>
  obind (ellRound (Bn.ell E) f pairs) fun (f, pairs) =>
  obind (ellRound (Bn.ell E) f pairs) fun (f, _) =>
  .ok f

theorem Bn.multi_eq (E : Bn P F G T) (a : List (Aff F)) (b : List (G2Prepared G)) :
    Bn.multiMillerLoopPrepared E a b =
      obind (zipEq a b) fun zs => Bn.chunked E (zs.filterMap Bn.sel) := rfl

theorem Bn.flat_of_chunked (E : Bn P F G T) (hS : SparseLawful E.S) (L : TargetLawful E.DT E.C)
    (pairs : List (MPair F G)) (v : T)
    (h : Bn.chunked E pairs = .ok v) : AM.core (Bn.flatLoop E L) pairs = .ok v := by
  unfold Bn.chunked at h
  obtain ⟨⟨fs, rest⟩, h1, h⟩ := obind_eq_ok.1 h
  have h2 := (Bn.chunkLoop_AM E hS L (revDigits E.ateLoopCount)).overChunks
    (Bn.chunkLoop_one_nil E L _) _ _ _ h1
  rw [chunks4_flatten] at h2
  unfold AM.core Bn.flatLoop
  rw [h2]
  simp only [obind_ok]
  simp only [Bn.post_eq E L, obind_ok, product_eq_prod] at h
  obtain ⟨⟨a1, r1⟩, ha, h⟩ := obind_eq_ok.1 h
  obtain ⟨⟨a2, r2⟩, hb, h⟩ := obind_eq_ok.1 h
  rw [ha]
  simp only [obind_ok]
  rw [hb]
  exact h

/-- multi Miller loop = product of the single Miller loops (BN) -/
theorem Bn.multi_prod (E : Bn P F G T) (hS : SparseLawful E.S) (L : TargetLawful E.DT E.C)
    (l : List (Aff F × G2Prepared G × T)) (v : T)
    (h : Bn.multiMillerLoopPrepared E (l.map (·.1)) (l.map (·.2.1)) = .ok v)
    (hl : ∀ t ∈ l, Bn.multiMillerLoopPrepared E [t.1] [t.2.1] = .ok t.2.2) :
    v = (l.map (·.2.2)).prod := by
  rw [Bn.multi_eq, zipEq_map] at h
  simp only [obind_ok] at h
  have h' := Bn.flat_of_chunked E hS L _ _ h
  rw [filterMap_eq_flatMap] at h'
  have := core_prod (AM.core (Bn.flatLoop E L)) (fun z => [z].filterMap Bn.sel)
    (AM.core_nil (Bn.flatLoop_one_nil E L))
    (AM.core_append (Bn.flatLoop_AM E hS L)) l (by
      intro t ht
      have := hl t ht
      rw [Bn.multi_eq] at this
      simp only [zipEq, obind_ok] at this
      exact Bn.flat_of_chunked E hS L _ _ this)
  rw [this] at h'
  exact (Outcome.ok.inj h').symm

end bn

/-! ## BW6 -/

section bw6
variable {P F T : Type} [Add F] [Sub F] [Mul F] [Neg F] [Field T] [DecidableEq T]

theorem Bw6.ell_lawful (E : Bw6 P F T) (hS : SparseLawful E.S) : EllLawful (Bw6.ell E) := by
  intro f c p
  unfold Bw6.ell
  simp only [obind_ok]
  rw [ellXY_lawful hS]

/-- the second loop is append-multiplicative jointly in `(f_u, f_u⁻¹, f)` -/
theorem Bw6.chunkLoop2_mul (E : Bw6 P F T) (hS : SparseLawful E.S) (L : TargetLawful E.DT E.C)
    (ds : List (Bool × Int)) (u1 u1' u2 u2' : T) :
    ∀ f1 f2 ps qs g1 g2 ps' qs', Bw6.chunkLoop2 E u1 u1' ds f1 ps = .ok (g1, ps') →
      Bw6.chunkLoop2 E u2 u2' ds f2 qs = .ok (g2, qs') →
      Bw6.chunkLoop2 E (u1 * u2) (u1' * u2') ds (f1 * f2) (ps ++ qs) = .ok (g1 * g2, ps' ++ qs') := by
  induction ds with
  | nil =>
    intro f1 f2 ps qs g1 g2 ps' qs' ha hb
    simp only [Bw6.chunkLoop2, Outcome.ok.injEq, Prod.mk.injEq] at ha hb ⊢
    obtain ⟨rfl, rfl⟩ := ha
    obtain ⟨rfl, rfl⟩ := hb
    exact ⟨rfl, rfl⟩
  | cons d ds ih =>
    obtain ⟨first, bit⟩ := d
    have hE := ellRound_AM (Bw6.ell_lawful E hS)
    intro f1 f2 ps qs g1 g2 ps' qs' ha hb
    simp only [Bw6.chunkLoop2] at ha hb ⊢
    obtain ⟨⟨a1, as1⟩, ha1, ha⟩ := obind_eq_ok.1 ha
    obtain ⟨⟨b1, bs1⟩, hb1, hb⟩ := obind_eq_ok.1 hb
    rw [L.square_mul, hE _ _ _ _ _ _ _ _ ha1 hb1]
    simp only [obind_ok]
    by_cases h1 : bit = 1
    · simp only [h1, if_true] at ha hb ⊢
      obtain ⟨⟨a2, as2⟩, ha2, ha⟩ := obind_eq_ok.1 ha
      obtain ⟨⟨b2, bs2⟩, hb2, hb⟩ := obind_eq_ok.1 hb
      rw [mul_mul_mul_comm a1 b1 u1 u2, hE _ _ _ _ _ _ _ _ ha2 hb2]
      simp only [obind_ok]
      exact ih _ _ _ _ _ _ _ _ ha hb
    · by_cases h2 : bit = -1
      · simp only [h2, if_true] at ha hb ⊢
        obtain ⟨⟨a2, as2⟩, ha2, ha⟩ := obind_eq_ok.1 ha
        obtain ⟨⟨b2, bs2⟩, hb2, hb⟩ := obind_eq_ok.1 hb
        rw [mul_mul_mul_comm a1 b1 u1' u2', hE _ _ _ _ _ _ _ _ ha2 hb2]
        simp only [obind_ok]
        exact ih _ _ _ _ _ _ _ _ ha hb
      · simp only [h1, h2, if_false] at ha hb ⊢
        exact ih _ _ _ _ _ _ _ _ ha hb

theorem Bw6.chunkLoop2_one_AM (E : Bw6 P F T) (hS : SparseLawful E.S) (L : TargetLawful E.DT E.C)
    (ds : List (Bool × Int)) : AM (Bw6.chunkLoop2 E 1 1 ds) := by
  intro f1 f2 ps qs g1 g2 ps' qs' ha hb
  have := Bw6.chunkLoop2_mul E hS L ds 1 1 1 1 _ _ _ _ _ _ _ _ ha hb
  simpa using this

theorem Bw6.chunkLoop2_one_nil (E : Bw6 P F T) (L : TargetLawful E.DT E.C) (ds : List (Bool × Int)) :
    Bw6.chunkLoop2 E 1 1 ds 1 [] = .ok (1, []) := by
  induction ds with
  | nil => rfl
  | cons d ds ih =>
    obtain ⟨first, bit⟩ := d
    simp only [Bw6.chunkLoop2, L.square_eq, mul_one, ellRound, obind_ok, ih, ite_self]

/-- `f_u`, `f_u_inv` from the product of the first loop -/
def Bw6.invStep (E : Bw6 P F T) (fU : T) : Outcome (T × T) :=
  if E.ateLoopCount1IsNegative then
    obind (cycInvInPlace E.C fU) fun g => .ok (g, fU)
  else
    obind (invUnwrap E.C.cycInverse fU) fun g => .ok (fU, g)

theorem Bw6.invStep_eq (E : Bw6 P F T) (L : TargetLawful E.DT E.C) (f : T) :
    Bw6.invStep E f = if E.ateLoopCount1IsNegative then .ok (L.conj f, f)
      else if f = 0 then .panic else .ok (f, L.conj f) := by
  unfold Bw6.invStep
  rw [L.cycInvInPlace_eq, L.invUnwrap_cycInverse]
  cases E.ateLoopCount1IsNegative
  · by_cases h : f = 0 <;> simp [h]
  · simp

theorem Bw6.invStep_mul (E : Bw6 P F T) (L : TargetLawful E.DT E.C) (f1 f2 u1 u1' u2 u2' : T)
    (h1 : Bw6.invStep E f1 = .ok (u1, u1')) (h2 : Bw6.invStep E f2 = .ok (u2, u2')) :
    Bw6.invStep E (f1 * f2) = .ok (u1 * u2, u1' * u2') := by
  rw [Bw6.invStep_eq E L] at h1 h2 ⊢
  cases hn : E.ateLoopCount1IsNegative
  · simp only [hn, Bool.false_eq_true, if_false] at h1 h2 ⊢
    by_cases hf1 : f1 = 0
    · simp [hf1] at h1
    by_cases hf2 : f2 = 0
    · simp [hf2] at h2
    simp only [hf1, hf2, if_false, Outcome.ok.injEq, Prod.mk.injEq] at h1 h2
    obtain ⟨rfl, rfl⟩ := h1
    obtain ⟨rfl, rfl⟩ := h2
    simp [hf1, hf2]
  · simp only [hn, if_true, Outcome.ok.injEq, Prod.mk.injEq] at h1 h2 ⊢
    obtain ⟨rfl, rfl⟩ := h1
    obtain ⟨rfl, rfl⟩ := h2
    simp

theorem Bw6.invStep_one (E : Bw6 P F T) (L : TargetLawful E.DT E.C) :
    Bw6.invStep E 1 = .ok (1, 1) := by
  rw [Bw6.invStep_eq E L]
  cases E.ateLoopCount1IsNegative <;> simp

/-- the end of `multi_miller_loop`: sign of `f_2`, one Frobenius, the product -/
def Bw6.fin (E : Bw6 P F T) (f1 f2 : T) : Outcome T :=
  obind (if E.ateLoopCount2IsNegative then cycInvInPlace E.C f2 else .ok f2) fun f2 =>
  if E.tModRIsZero then
    obind (E.DT.frob f1 1) fun f1 => .ok (f1 * f2)
  else
    obind (E.DT.frob f2 1) fun f2 => .ok (f1 * f2)

def Bw6.finVal (E : Bw6 P F T) (L : TargetLawful E.DT E.C) (f1 f2 : T) : T :=
  let f2 := if E.ateLoopCount2IsNegative then L.conj f2 else f2
  if E.tModRIsZero then L.frob 1 f1 * f2 else f1 * L.frob 1 f2

theorem Bw6.fin_eq (E : Bw6 P F T) (L : TargetLawful E.DT E.C) (f1 f2 : T) :
    Bw6.fin E f1 f2 = .ok (Bw6.finVal E L f1 f2) := by
  unfold Bw6.fin Bw6.finVal
  cases E.ateLoopCount2IsNegative <;> cases E.tModRIsZero <;>
    simp [L.cycInvInPlace_eq, L.frob_eq]

theorem Bw6.finVal_mul (E : Bw6 P F T) (L : TargetLawful E.DT E.C) (a1 b1 a2 b2 : T) :
    Bw6.finVal E L (a1 * a2) (b1 * b2) = Bw6.finVal E L a1 b1 * Bw6.finVal E L a2 b2 := by
  unfold Bw6.finVal
  cases E.ateLoopCount2IsNegative <;> cases E.tModRIsZero <;> simp only [Bool.false_eq_true,
    if_false, if_true, map_mul] <;> ring

theorem Bw6.finVal_one (E : Bw6 P F T) (L : TargetLawful E.DT E.C) :
    Bw6.finVal E L 1 1 = 1 := by
  unfold Bw6.finVal
  cases E.ateLoopCount2IsNegative <;> cases E.tModRIsZero <;> simp

/-- the kept pairs -/
def Bw6.keep (z : Aff F × Bw6G2Prepared F) : Bool := !z.1.infinity && !z.2.infinity

/-- `multi_miller_loop` after `zip_eq` / `filter_map`, as in the Rust code -/
def Bw6.chunked (E : Bw6 P F T) (kept : List (Aff F × Bw6G2Prepared F)) : Outcome T :=
  let pairs1 : List (MPair F F) := kept.map fun (p, q) => (p, q.ellCoeffs1)
  let pairs2 : List (MPair F F) := kept.map fun (p, q) => (p, q.ellCoeffs2)
  let bits := (bitsBENoLeadingZeros E.ateLoopCount1).drop 1
  obind (overChunks (fun ps => bitLoop E.DT.square (Bw6.ell E) bits 1 ps) (chunks4 pairs1)) fun (fs, pairs1) =>
  let fU := product fs
  obind (if E.ateLoopCount1IsNegative then
      obind (cycInvInPlace E.C fU) fun g => .ok (g, fU)
    else
      obind (invUnwrap E.C.cycInverse fU) fun g => .ok (fU, g)) fun (fU, fUInv) =>
  let one : T := 1
  obind (overChunks (fun ps => ellRound (Bw6.ell E) one ps) (chunks4 pairs1)) fun (f1s, _) =>
  let f1 := fU * product f1s
  obind (overChunksIdx (fun chunkIndex ps =>
      let (fU, fUInv) := if chunkIndex = 0 then (fU, fUInv) else (one, one)
      Bw6.chunkLoop2 E fU fUInv (revDigits E.ateLoopCount2) fU ps) 0 (chunks4 pairs2))
    fun (f2s, _) =>
  let f2 := product f2s
  obind (if E.ateLoopCount2IsNegative then cycInvInPlace E.C f2 else .ok f2) fun f2 =>
  if E.tModRIsZero then
    obind (E.DT.frob f1 1) fun f1 => .ok (f1 * f2)
  else
    obind (E.DT.frob f2 1) fun f2 => .ok (f1 * f2)

theorem Bw6.multi_eq (E : Bw6 P F T) (a : List (Aff F)) (b : List (Bw6G2Prepared F)) :
    Bw6.multiMillerLoopPrepared E a b =
      obind (zipEq a b) fun zs => Bw6.chunked E (zs.filter Bw6.keep) := rfl

/-- the same without `chunks_mut(4)` -/
def Bw6.flat (E : Bw6 P F T) (kept : List (Aff F × Bw6G2Prepared F)) : Outcome T :=
  obind (bitLoop E.DT.square (Bw6.ell E) ((bitsBENoLeadingZeros E.ateLoopCount1).drop 1) 1
    (kept.map fun z => (z.1, z.2.ellCoeffs1))) fun r1 =>
  obind (Bw6.invStep E r1.1) fun u =>
  obind (ellRound (Bw6.ell E) 1 r1.2) fun r2 =>
  obind (Bw6.chunkLoop2 E u.1 u.2 (revDigits E.ateLoopCount2) u.1
    (kept.map fun z => (z.1, z.2.ellCoeffs2))) fun r3 =>
  Bw6.fin E (u.1 * r2.1) r3.1

variable (E : Bw6 P F T) (hS : SparseLawful E.S) (L : TargetLawful E.DT E.C)
include hS L

theorem Bw6.flat_nil : Bw6.flat E [] = .ok 1 := by
  unfold Bw6.flat
  simp only [List.map_nil]
  rw [bitLoop_one_nil _ (by rw [L.square_eq]; simp)]
  simp only [obind_ok, Bw6.invStep_one E L, ellRound, Bw6.chunkLoop2_one_nil E L, Bw6.fin_eq E L,
    mul_one, Bw6.finVal_one]

theorem Bw6.chunked_nil (v : T) (h : Bw6.chunked E [] = .ok v) : v = 1 := by
  have h1 : bitLoop E.DT.square (Bw6.ell E) ((bitsBENoLeadingZeros E.ateLoopCount1).drop 1) 1 []
      = .ok (1, []) := bitLoop_one_nil _ (by rw [L.square_eq]; simp) _
  have hi := Bw6.invStep_one E L
  unfold Bw6.invStep at hi
  have hf := Bw6.fin_eq E L 1 1
  unfold Bw6.fin at hf
  simp only [Bw6.chunked, List.map_nil, chunks4_nil, overChunks, overChunksIdx, obind_ok, product,
    List.foldl_nil, hi, mul_one, hf, Bw6.finVal_one, Outcome.ok.injEq] at h
  exact h.symm

theorem Bw6.flat_of_chunked (kept : List (Aff F × Bw6G2Prepared F)) (v : T)
    (h : Bw6.chunked E kept = .ok v) : Bw6.flat E kept = .ok v := by
  cases kept with
  | nil => rw [Bw6.chunked_nil E hS L v h]; exact Bw6.flat_nil E hS L
  | cons z ks =>
    unfold Bw6.chunked at h
    obtain ⟨⟨fs, p1'⟩, h1, h⟩ := obind_eq_ok.1 h
    obtain ⟨⟨u, u'⟩, h2, h⟩ := obind_eq_ok.1 h
    obtain ⟨⟨f1s, r2⟩, h3, h⟩ := obind_eq_ok.1 h
    obtain ⟨⟨f2s, r3⟩, h4, h⟩ := obind_eq_ok.1 h
    have hE := Bw6.ell_lawful E hS
    have g1 := (bitLoop_AM (L.square_mul) hE _).overChunks
      (bitLoop_one_nil _ (by rw [L.square_eq]; simp) _) _ _ _ h1
    rw [chunks4_flatten] at g1
    have g3 := (ellRound_AM hE).overChunks rfl _ _ _ h3
    rw [chunks4_flatten] at g3
    obtain ⟨c, cs, hcs⟩ : ∃ c cs, chunks4 (((z :: ks).map fun (p, q) => (p, q.ellCoeffs2)) :
        List (MPair F F)) = c :: cs := by
      have := chunks4_ne_nil (((z :: ks).map fun (p, q) => (p, q.ellCoeffs2)) : List (MPair F F))
        (by simp)
      cases hc : chunks4 (((z :: ks).map fun (p, q) => (p, q.ellCoeffs2)) : List (MPair F F)) with
      | nil => exact absurd hc this
      | cons c cs => exact ⟨c, cs, rfl⟩
    rw [hcs] at h4
    have g4 := (Bw6.chunkLoop2_one_AM E hS L (revDigits E.ateLoopCount2)).overChunksIdx
      (Bw6.chunkLoop2_one_nil E L _)
      (Bw6.chunkLoop2 E u u' (revDigits E.ateLoopCount2) u)
      (by
        intro ps qs g1 g2 ps' qs' ha hb
        have := Bw6.chunkLoop2_mul E hS L (revDigits E.ateLoopCount2) u u' 1 1 _ _ _ _ _ _ _ _ ha hb
        simpa using this)
      _ (by intro ps; simp) (by intro i ps; simp) c cs f2s r3 h4
    rw [← hcs, chunks4_flatten] at g4
    unfold Bw6.flat
    rw [g1]
    simp only [obind_ok]
    have h2' : Bw6.invStep E fs.prod = .ok (u, u') := by
      unfold Bw6.invStep
      rw [← product_eq_prod]; exact h2
    rw [h2']
    simp only [obind_ok]
    rw [g3]
    simp only [obind_ok]
    rw [g4]
    simp only [obind_ok]
    simpa [Bw6.fin, product_eq_prod] using h

theorem Bw6.flat_append (k1 k2 : List (Aff F × Bw6G2Prepared F)) (v1 v2 : T)
    (h1 : Bw6.flat E k1 = .ok v1) (h2 : Bw6.flat E k2 = .ok v2) :
    Bw6.flat E (k1 ++ k2) = .ok (v1 * v2) := by
  unfold Bw6.flat at h1 h2 ⊢
  obtain ⟨⟨a1, ra1⟩, ha1, h1⟩ := obind_eq_ok.1 h1
  obtain ⟨⟨u1, u1'⟩, ha2, h1⟩ := obind_eq_ok.1 h1
  obtain ⟨⟨l1, rl1⟩, ha3, h1⟩ := obind_eq_ok.1 h1
  obtain ⟨⟨c1, rc1⟩, ha4, h1⟩ := obind_eq_ok.1 h1
  obtain ⟨⟨a2, ra2⟩, hb1, h2⟩ := obind_eq_ok.1 h2
  obtain ⟨⟨u2, u2'⟩, hb2, h2⟩ := obind_eq_ok.1 h2
  obtain ⟨⟨l2, rl2⟩, hb3, h2⟩ := obind_eq_ok.1 h2
  obtain ⟨⟨c2, rc2⟩, hb4, h2⟩ := obind_eq_ok.1 h2
  have hE := Bw6.ell_lawful E hS
  have g1 := bitLoop_AM (L.square_mul) hE _ _ _ _ _ _ _ _ _ ha1 hb1
  have g2 := Bw6.invStep_mul E L _ _ _ _ _ _ ha2 hb2
  have g3 := ellRound_AM hE _ _ _ _ _ _ _ _ ha3 hb3
  have g4 := Bw6.chunkLoop2_mul E hS L _ _ _ _ _ _ _ _ _ _ _ _ _ ha4 hb4
  rw [one_mul] at g1 g3
  rw [Bw6.fin_eq E L, Outcome.ok.injEq] at h1 h2
  simp only [List.map_append]
  rw [g1]
  simp only [obind_ok]
  rw [g2]
  simp only [obind_ok]
  rw [g3]
  simp only [obind_ok]
  rw [g4]
  simp only [obind_ok]
  rw [Bw6.fin_eq E L, mul_mul_mul_comm u1 u2 l1 l2, Bw6.finVal_mul, h1, h2]

/-- multi Miller loop = product of the single Miller loops (BW6, after the fix of the chunk bug) -/
theorem Bw6.multi_prod (l : List (Aff F × Bw6G2Prepared F × T)) (v : T)
    (h : Bw6.multiMillerLoopPrepared E (l.map (·.1)) (l.map (·.2.1)) = .ok v)
    (hl : ∀ t ∈ l, Bw6.multiMillerLoopPrepared E [t.1] [t.2.1] = .ok t.2.2) :
    v = (l.map (·.2.2)).prod := by
  rw [Bw6.multi_eq, zipEq_map] at h
  simp only [obind_ok] at h
  have h' := Bw6.flat_of_chunked E hS L _ _ h
  rw [filter_eq_flatMap] at h'
  have := core_prod (Bw6.flat E) (fun z => [z].filter Bw6.keep) (Bw6.flat_nil E hS L)
    (Bw6.flat_append E hS L) l (by
      intro t ht
      have := hl t ht
      rw [Bw6.multi_eq] at this
      simp only [zipEq, obind_ok] at this
      exact Bw6.flat_of_chunked E hS L _ _ this)
  rw [this] at h'
  exact (Outcome.ok.inj h').symm

end bw6

/-! ## MNT4 / MNT6 (Miller loop) -/

section mnt
variable {P F G : Type} [Zero F] [DecidableEq F] [Field G] [DecidableEq G]
  (cfg : QuadCfg G) (B : FieldD P G) (hB : BaseLawful B) (hc : QuadLawful cfg)

/-- the kept pairs -/
def Mnt.keep (z : MntG1Prepared F G × MntG2Prepared G) : Bool :=
  !Mnt.g1IsZero z.1 && !Mnt.g2IsZero z.2

/-- `multi_miller_loop` after `zip_eq`: by unfolding, the product of `ate_miller_loop` over the kept
    pairs -/
theorem Mnt.multi_eq [Mul (Quad G)] (E : Mnt P F G) (a : List (MntG1Prepared F G))
    (b : List (MntG2Prepared G)) :
    Mnt.multiMillerLoopPrepared E a b =
      obind (zipEq a b) fun zs =>
      obind (mapO (fun z => Mnt.ateMillerLoop E z.1 z.2) (zs.filter Mnt.keep)) fun fs =>
      .ok (product fs) := rfl

/-- the part after `zip_eq` -/
def Mnt.core [Mul (Quad G)] (E : Mnt P F G) (kept : List (MntG1Prepared F G × MntG2Prepared G)) :
    Outcome (Quad G) :=
  obind (mapO (fun z => Mnt.ateMillerLoop E z.1 z.2) kept) fun fs => .ok (product fs)

theorem Mnt.core_nil :
    letI := Quad.commRing cfg B hB hc
    ∀ E : Mnt P F G, Mnt.core E [] = .ok 1 := by
  intro E
  rfl

theorem Mnt.core_append :
    letI := Quad.commRing cfg B hB hc
    ∀ (E : Mnt P F G) (k1 k2 : List (MntG1Prepared F G × MntG2Prepared G)) (v1 v2 : Quad G),
      Mnt.core E k1 = .ok v1 → Mnt.core E k2 = .ok v2 → Mnt.core E (k1 ++ k2) = .ok (v1 * v2) := by
  letI := Quad.commRing cfg B hB hc
  intro E k1 k2 v1 v2 h1 h2
  unfold Mnt.core at h1 h2 ⊢
  obtain ⟨fs1, ha, h1⟩ := obind_eq_ok.1 h1
  obtain ⟨fs2, hb, h2⟩ := obind_eq_ok.1 h2
  simp only [Outcome.ok.injEq] at h1 h2
  rw [mapO_append, ha, hb]
  simp only [obind_ok, Outcome.ok.injEq]
  rw [← h1, ← h2, product_eq_prod, product_eq_prod, product_eq_prod, List.prod_append]

/-- multi Miller loop = product of the single Miller loops (MNT4 / MNT6) -/
theorem Mnt.multi_prod :
    letI := Quad.commRing cfg B hB hc
    ∀ (E : Mnt P F G) (l : List (MntG1Prepared F G × MntG2Prepared G × Quad G)) (v : Quad G),
      Mnt.multiMillerLoopPrepared E (l.map (·.1)) (l.map (·.2.1)) = .ok v →
      (∀ t ∈ l, Mnt.multiMillerLoopPrepared E [t.1] [t.2.1] = .ok t.2.2) →
      v = (l.map (·.2.2)).prod := by
  letI := Quad.commRing cfg B hB hc
  intro E l v h hl
  rw [Mnt.multi_eq, zipEq_map] at h
  simp only [obind_ok] at h
  rw [filter_eq_flatMap] at h
  have := core_prod (Mnt.core E) (fun z => [z].filter Mnt.keep) (Mnt.core_nil cfg B hB hc E)
    (Mnt.core_append cfg B hB hc E) l (by
      intro t ht
      have := hl t ht
      rw [Mnt.multi_eq] at this
      simp only [zipEq, obind_ok] at this
      exact this)
  unfold Mnt.core at this
  rw [this] at h
  exact (Outcome.ok.inj h).symm

end mnt

/-! ## final exponentiations -/

section cyc
variable {P T : Type} [Field T] [DecidableEq T] {DT : FieldD P T} {C : CycD T}
  {L : TargetLawful DT C}

theorem CycLawful.mul_mem (CL : CycLawful L) {a b : T} (ha : a ∈ CL.Cyc) (hb : b ∈ CL.Cyc) :
    a * b ∈ CL.Cyc := CL.Cyc.mul_mem ha hb

theorem CycLawful.pow_mem (CL : CycLawful L) {a : T} (ha : a ∈ CL.Cyc) (n : ℕ) :
    a ^ n ∈ CL.Cyc := CL.Cyc.pow_mem ha n

theorem CycLawful.zpow_mem (CL : CycLawful L) {a : T} (ha : a ∈ CL.Cyc) (z : ℤ) :
    a ^ z ∈ CL.Cyc := by
  cases z with
  | ofNat n => simpa using CL.pow_mem ha n
  | negSucc n =>
    rw [zpow_negSucc]
    exact CL.inv_mem _ (CL.pow_mem ha _)

/-- membership in the cyclotomic subgroup by closure -/
theorem WF_asU64 (i : Int) : WF [Bw6.asU64 i] := by
  intro l hl
  simp only [List.mem_singleton] at hl
  subst hl
  unfold Bw6.asU64 B
  have h1 : (0 : Int) ≤ i % (2 ^ 64 : Int) := Int.emod_nonneg _ (by norm_num)
  have h2 : i % (2 ^ 64 : Int) < 2 ^ 64 := Int.emod_lt_of_pos _ (by norm_num)
  omega

macro "cyc_mem" : tactic =>
  `(tactic| repeat' (first
    | exact WF_asU64 _
    | assumption
    | apply CycLawful.mul_mem
    | apply CycLawful.zpow_mem
    | apply CycLawful.pow_mem
    | apply CycLawful.inv_mem
    | apply CycLawful.frob_mem))

/-- the signed value of a curve parameter -/
def sval (neg : Bool) (e : List Nat) : ℤ := if neg then -(value e : ℤ) else (value e : ℤ)

/-- `cyclotomic_exp` followed by the conditional `cyclotomic_inverse` -/
theorem CycLawful.signedExp (CL : CycLawful L) {a : T} (ha : a ∈ CL.Cyc) (e : List Nat) (he : WF e)
    (neg : Bool) :
    (obind (cycExp C a e) fun r => if neg then cycInvInPlace C r else .ok r) =
      .ok (a ^ sval neg e) := by
  rw [CL.cycExp_eq a ha e he]
  cases neg
  · simp [sval]
  · simp only [obind_ok, if_true, L.cycInvInPlace_eq, sval]
    rw [CL.conj_eq _ (CL.pow_mem ha _), zpow_neg, zpow_natCast]

end cyc

section bls12
variable {P F G T : Type} [Add G] [Sub G] [Mul G] [Neg G] [Field T] [DecidableEq T]

/-- the easy part `f ↦ f^((p⁶-1)(p²+1))` of BLS12 and BN -/
def easy12 {DT : FieldD P T} {C : CycD T} (L : TargetLawful DT C) (f : T) : T :=
  L.frob 2 (L.conj f * f⁻¹) * (L.conj f * f⁻¹)

/-- the hard part of `Bls12::final_exponentiation` on the cyclotomic subgroup -/
def Bls12.hardVal (φ : ℕ → T →*₀ T) (x : ℤ) (r : T) : T :=
  let y0 := r * r
  let y1 := r ^ x
  let y2 := r⁻¹
  let y1 := y1 * y2
  let y2 := y1 ^ x
  let y1 := y1⁻¹
  let y1 := y1 * y2
  let y2 := y1 ^ x
  let y1 := φ 1 y1
  let y1 := y1 * y2
  let r := r * y0
  let y0 := y1 ^ x
  let y2 := y0 ^ x
  let y0 := φ 2 y1
  let y1 := y1⁻¹
  let y1 := y1 * y2
  let y1 := y1 * y0
  r * y1

variable (E : Bls12 P F G T) (L : TargetLawful E.DT E.C) (CL : CycLawful L)

theorem Bls12.expByX_eq (hx : WF E.x) {a : T} (ha : a ∈ CL.Cyc) :
    Bls12.expByX E a = .ok (a ^ sval E.xIsNegative E.x) :=
  CL.signedExp ha E.x hx E.xIsNegative

theorem Bls12.fe_eq (hx : WF E.x) (hEasy : ∀ f, f ≠ 0 → easy12 L f ∈ CL.Cyc) (f : T) :
    Bls12.finalExponentiation E f =
      .ok (if f = 0 then none else some (Bls12.hardVal L.frob (sval E.xIsNegative E.x) (easy12 L f))) := by
  unfold Bls12.finalExponentiation
  by_cases hf : f = 0
  · subst hf
    simp [L.cycInvInPlace_eq, L.inverse_eq]
  · have hr := hEasy f hf
    simp only [L.cycInvInPlace_eq, L.inverse_eq, hf, if_false, obind_ok, L.frob_eq]
    unfold easy12 at hr ⊢
    generalize L.frob 2 (L.conj f * f⁻¹) * (L.conj f * f⁻¹) = r at hr ⊢
    simp (disch := cyc_mem) only [CL.cycSquare_eq, Bls12.expByX_eq E L CL hx, obind_ok, CL.conj_eq]
    rfl

theorem easy12_mul {DT : FieldD P T} {C : CycD T} (L : TargetLawful DT C) (f g : T) :
    easy12 L (f * g) = easy12 L f * easy12 L g := by
  simp only [easy12, map_mul, mul_inv]; ring

theorem Bls12.hardVal_mul (φ : ℕ → T →*₀ T) (x : ℤ) (r s : T) :
    Bls12.hardVal φ x (r * s) = Bls12.hardVal φ x r * Bls12.hardVal φ x s := by
  simp only [Bls12.hardVal, map_mul, mul_inv, mul_zpow]; ring

end bls12

section femul
variable {T : Type} [Field T] [DecidableEq T]

/-- the product lifted through `Outcome (Option ·)`: a panic is a panic, `None` absorbs -/
def omul : Outcome (Option T) → Outcome (Option T) → Outcome (Option T)
  | .panic, _ => .panic
  | .ok _, .panic => .panic
  | .ok (some a), .ok (some b) => .ok (some (a * b))
  | .ok none, .ok _ => .ok none
  | .ok (some _), .ok none => .ok none

theorem fe_mul_of_eq (Φ : T → T) (hΦ : ∀ a b, Φ (a * b) = Φ a * Φ b) (fe : T → Outcome (Option T))
    (h : ∀ f, fe f = .ok (if f = 0 then none else some (Φ f))) (f g : T) :
    fe (f * g) = omul (fe f) (fe g) := by
  rw [h, h, h]
  by_cases hf : f = 0
  · subst hf; by_cases hg : g = 0 <;> simp [omul, hg]
  · by_cases hg : g = 0
    · subst hg; simp [omul, hf]
    · simp [omul, hf, hg, hΦ]

theorem fe_mul_of_eq' (Φ : T → T) (hΦ : ∀ a b, Φ (a * b) = Φ a * Φ b) (fe : T → Outcome (Option T))
    (h : ∀ f, fe f = if f = 0 then .panic else .ok (some (Φ f))) (f g : T) :
    fe (f * g) = omul (fe f) (fe g) := by
  rw [h, h, h]
  by_cases hf : f = 0
  · subst hf; simp [omul]
  · by_cases hg : g = 0
    · subst hg; simp [omul, hf]
    · simp [omul, hf, hg, hΦ]

end femul

section bn
variable {P F G T : Type} [Add G] [Sub G] [Mul G] [Neg G] [Field T] [DecidableEq T]

/-- the hard part of `Bn::final_exponentiation` on the cyclotomic subgroup (`nx` is `-x`) -/
def Bn.hardVal (φ : ℕ → T →*₀ T) (nx : ℤ) (r : T) : T :=
  let y0 := r ^ nx
  let y1 := y0 * y0
  let y2 := y1 * y1
  let y3 := y2 * y1
  let y4 := y3 ^ nx
  let y5 := y4 * y4
  let y6 := y5 ^ nx
  let y3 := y3⁻¹
  let y6 := y6⁻¹
  let y7 := y6 * y4
  let y8 := y7 * y3
  let y9 := y8 * y1
  let y10 := y8 * y4
  let y11 := y10 * r
  let y12 := φ 1 y9
  let y13 := y12 * y11
  let y8 := φ 2 y8
  let y14 := y8 * y13
  let r := r⁻¹
  let y15 := r * y9
  let y15 := φ 3 y15
  y15 * y14

variable (E : Bn P F G T) (L : TargetLawful E.DT E.C) (CL : CycLawful L)

theorem Bn.expByNegX_eq (hx : WF E.x) {a : T} (ha : a ∈ CL.Cyc) :
    Bn.expByNegX E a = .ok (a ^ sval (!E.xIsNegative) E.x) :=
  CL.signedExp ha E.x hx (!E.xIsNegative)

theorem Bn.fe_eq (hx : WF E.x) (hEasy : ∀ f, f ≠ 0 → easy12 L f ∈ CL.Cyc) (f : T) :
    Bn.finalExponentiation E f =
      .ok (if f = 0 then none else some (Bn.hardVal L.frob (sval (!E.xIsNegative) E.x) (easy12 L f))) := by
  unfold Bn.finalExponentiation
  by_cases hf : f = 0
  · subst hf
    simp [L.cycInvInPlace_eq, L.inverse_eq]
  · have hr := hEasy f hf
    simp only [L.cycInvInPlace_eq, L.inverse_eq, hf, if_false, obind_ok, L.frob_eq]
    unfold easy12 at hr ⊢
    generalize L.frob 2 (L.conj f * f⁻¹) * (L.conj f * f⁻¹) = r at hr ⊢
    simp (disch := cyc_mem) only [CL.cycSquare_eq, Bn.expByNegX_eq E L CL hx, obind_ok, CL.conj_eq]
    rfl

theorem Bn.hardVal_mul (φ : ℕ → T →*₀ T) (x : ℤ) (r s : T) :
    Bn.hardVal φ x (r * s) = Bn.hardVal φ x r * Bn.hardVal φ x s := by
  simp only [Bn.hardVal, map_mul, mul_inv, mul_zpow]; ring

end bn

section bw6
variable {P F T : Type} [Add F] [Sub F] [Mul F] [Neg F] [Field T] [DecidableEq T]

/-- the easy part `f ↦ f^((p³-1)(p+1))` of BW6 -/
def easy6 {DT : FieldD P T} {C : CycD T} (L : TargetLawful DT C) (f : T) : T :=
  L.frob 1 (L.conj f * f⁻¹) * (L.conj f * f⁻¹)

theorem easy6_mul {DT : FieldD P T} {C : CycD T} (L : TargetLawful DT C) (f g : T) :
    easy6 L (f * g) = easy6 L f * easy6 L g := by
  simp only [easy6, map_mul, mul_inv]; ring

variable (E : Bw6 P F T) (L : TargetLawful E.DT E.C) (CL : CycLawful L)

theorem Bw6.easy_eq (hconj : ∀ f, E.conj f = L.conj f) (f : T) :
    Bw6.finalExponentiationEasyPart E f = if f = 0 then .panic else .ok (easy6 L f) := by
  unfold Bw6.finalExponentiationEasyPart
  rw [L.invUnwrap_inverse]
  by_cases hf : f = 0
  · simp [hf]
  · simp [hf, hconj, L.frob_eq, easy6]

theorem Bw6.cinv_eq {a : T} (ha : a ∈ CL.Cyc) : invUnwrap E.C.cycInverse a = .ok a⁻¹ := by
  rw [L.invUnwrap_cycInverse, if_neg (CL.ne_zero a ha), CL.conj_eq a ha]

theorem Bw6.cyclotomicExpSigned_eq (e : List Nat) (he : WF e) (inv : Bool) {a : T} (ha : a ∈ CL.Cyc) :
    Bw6.cyclotomicExpSigned E a e inv = .ok (a ^ sval inv e) :=
  CL.signedExp ha e he inv

theorem Bw6.expByX_eq (hx : WF E.x) {a : T} (ha : a ∈ CL.Cyc) :
    Bw6.expByX E a = .ok (a ^ sval E.xIsNegative E.x) :=
  CL.signedExp ha E.x hx E.xIsNegative

theorem Bw6.expByXPlus1_eq (hx : WF E.x) {a : T} (ha : a ∈ CL.Cyc) :
    Bw6.expByXPlus1 E a = .ok (a ^ sval E.xIsNegative E.x * a) := by
  unfold Bw6.expByXPlus1
  rw [Bw6.expByX_eq E L CL hx ha]; rfl

theorem Bw6.expByXMinus1_eq (hx : WF E.x) {a : T} (ha : a ∈ CL.Cyc) :
    Bw6.expByXMinus1 E a = .ok (a ^ sval E.xIsNegative E.x * a⁻¹) := by
  unfold Bw6.expByXMinus1
  rw [Bw6.expByX_eq E L CL hx ha, Bw6.cinv_eq E L CL ha]; rfl

theorem Bw6.expByXMinus1Div3_eq (hx3 : WF E.xMinus1Div3) {a : T} (ha : a ∈ CL.Cyc) :
    Bw6.expByXMinus1Div3 E a = .ok (a ^ sval E.xIsNegative E.xMinus1Div3) :=
  CL.signedExp ha _ hx3 E.xIsNegative

/-- sequencing of the closed forms (keeps the intermediate values shared) -/
def bindv (v : T) (k : T → T) : T := k v

theorem lock {S : Submonoid T} {o : Outcome T} {v : T} {K : T → Outcome T} {k : T → T}
    (ho : o = .ok v) (hv : v ∈ S) (h : ∀ w, w ∈ S → K w = .ok (k w)) :
    obind o K = .ok (bindv v k) := by
  rw [ho]; exact h v hv

theorem lockMul {v1 v2 v3 : T} {k1 k2 k3 : T → T} (hv : v3 = v1 * v2)
    (h : ∀ w1 w2, k3 (w1 * w2) = k1 w1 * k2 w2) :
    bindv v3 k3 = bindv v1 k1 * bindv v2 k2 := by
  rw [hv]; exact h v1 v2

/-- the exponents `d2`, `d1` of the generic hard part -/
def Bw6.d2 (E : Bw6 P F T) : ℕ := Bw6.asU64 (Int.tdiv (E.hT * E.hT + 3 * E.hY * E.hY) 4)
def Bw6.d1T (E : Bw6 P F T) : ℤ := Int.tdiv (E.hT - E.hY) 2
def Bw6.d1F (E : Bw6 P F T) : ℤ := Int.tdiv (E.hT + E.hY) 2

def Bw6.copyT (E : Bw6 P F T) (f : T) : Outcome T :=
  obind (Bw6.expByXMinus1 E f) fun a =>
  obind (Bw6.expByXMinus1 E a) fun a =>
  obind (invUnwrap E.C.cycInverse (f * a)) fun t =>
  obind (E.DT.frob f 1) fun fp =>
  obind (.ok (t * fp)) fun a =>
  obind (Bw6.expByXPlus1 E a) fun t =>
  obind (.ok (t * f)) fun b =>
  obind (.ok (E.DT.square a * a)) fun a =>
  obind (invUnwrap E.C.cycInverse a) fun a =>
  obind (Bw6.expByXMinus1Div3 E b) fun c =>
  obind (Bw6.expByXMinus1 E c) fun d =>
  obind (Bw6.expByXMinus1 E d) fun t =>
  obind (Bw6.expByXMinus1 E t) fun t =>
  obind (.ok (t * d)) fun e =>
  obind (Bw6.expByXPlus1 E e) fun t =>
  obind (invUnwrap E.C.cycInverse (t * c)) fun t =>
  obind (.ok (t * d)) fun ff =>
  obind (Bw6.expByXPlus1 E (ff * d)) fun t =>
  obind (invUnwrap E.C.cycInverse t) fun t =>
  obind (.ok (t * c * b)) fun g =>
  obind (Bw6.cyclotomicExpSigned E ff [Bw6.asU64 (Bw6.d1T E)] (decide (Bw6.d1T E < 0))) fun t =>
  obind (.ok (t * e)) fun h =>
  obind (cycExp E.C g [Bw6.d2 E]) fun gd2 =>
  obind (.ok (E.DT.square h * h * b * gd2)) fun h =>
  .ok (a * h)

def Bw6.copyF (E : Bw6 P F T) (f : T) : Outcome T :=
  obind (Bw6.expByXMinus1 E f) fun a =>
  obind (Bw6.expByXMinus1 E a) fun a =>
  obind (E.DT.frob f 1) fun fp =>
  obind (.ok (a * fp)) fun a =>
  obind (Bw6.expByXPlus1 E a) fun t =>
  obind (invUnwrap E.C.cycInverse f) fun fi =>
  obind (.ok (t * fi)) fun b =>
  obind (.ok (E.DT.square a * a)) fun a =>
  obind (Bw6.expByXMinus1Div3 E b) fun c =>
  obind (Bw6.expByXMinus1 E c) fun d =>
  obind (Bw6.expByXMinus1 E d) fun t =>
  obind (Bw6.expByXMinus1 E t) fun t =>
  obind (.ok (t * d)) fun e =>
  obind (invUnwrap E.C.cycInverse d) fun d =>
  obind (.ok (d * b)) fun fc =>
  obind (Bw6.expByXPlus1 E e) fun t =>
  obind (.ok (t * fc)) fun g =>
  obind (.ok (g * c)) fun h =>
  obind (Bw6.expByXPlus1 E (g * d)) fun t =>
  obind (invUnwrap E.C.cycInverse fc) fun fci =>
  obind (.ok (t * fci)) fun i =>
  obind (Bw6.cyclotomicExpSigned E h [Bw6.asU64 (Bw6.d1F E)] (decide (Bw6.d1F E < 0))) fun t =>
  obind (.ok (t * e)) fun j =>
  obind (cycExp E.C i [Bw6.d2 E]) fun id2 =>
  obind (.ok (E.DT.square j * j * b * id2)) fun k =>
  .ok (a * k)

def Bw6.hardGenValT (φ : ℕ → T →*₀ T) (x x3 d1 : ℤ) (d2 : ℕ) (f : T) : T :=
  bindv (f ^ x * f⁻¹) fun a =>
  bindv (a ^ x * a⁻¹) fun a =>
  bindv (((f * a))⁻¹) fun t =>
  bindv (φ 1 f) fun fp =>
  bindv (t * fp) fun a =>
  bindv (a ^ x * a) fun t =>
  bindv (t * f) fun b =>
  bindv ((a * a) * a) fun a =>
  bindv (a⁻¹) fun a =>
  bindv (b ^ x3) fun c =>
  bindv (c ^ x * c⁻¹) fun d =>
  bindv (d ^ x * d⁻¹) fun t =>
  bindv (t ^ x * t⁻¹) fun t =>
  bindv (t * d) fun e =>
  bindv (e ^ x * e) fun t =>
  bindv (((t * c))⁻¹) fun t =>
  bindv (t * d) fun ff =>
  bindv (((ff * d)) ^ x * ((ff * d))) fun t =>
  bindv (t⁻¹) fun t =>
  bindv (t * c * b) fun g =>
  bindv (ff ^ d1) fun t =>
  bindv (t * e) fun h =>
  bindv (g ^ d2) fun gd2 =>
  bindv ((h * h) * h * b * gd2) fun h =>
  a * h

def Bw6.hardGenValF (φ : ℕ → T →*₀ T) (x x3 d1 : ℤ) (d2 : ℕ) (f : T) : T :=
  bindv (f ^ x * f⁻¹) fun a =>
  bindv (a ^ x * a⁻¹) fun a =>
  bindv (φ 1 f) fun fp =>
  bindv (a * fp) fun a =>
  bindv (a ^ x * a) fun t =>
  bindv (f⁻¹) fun fi =>
  bindv (t * fi) fun b =>
  bindv ((a * a) * a) fun a =>
  bindv (b ^ x3) fun c =>
  bindv (c ^ x * c⁻¹) fun d =>
  bindv (d ^ x * d⁻¹) fun t =>
  bindv (t ^ x * t⁻¹) fun t =>
  bindv (t * d) fun e =>
  bindv (d⁻¹) fun d =>
  bindv (d * b) fun fc =>
  bindv (e ^ x * e) fun t =>
  bindv (t * fc) fun g =>
  bindv (g * c) fun h =>
  bindv (((g * d)) ^ x * ((g * d))) fun t =>
  bindv (fc⁻¹) fun fci =>
  bindv (t * fci) fun i =>
  bindv (h ^ d1) fun t =>
  bindv (t * e) fun j =>
  bindv (i ^ d2) fun id2 =>
  bindv ((j * j) * j * b * id2) fun k =>
  a * k

def Bw6.copy761 (E : Bw6 P F T) (f : T) : Outcome T :=
  obind (.ok (f)) fun f0 =>
  obind (E.DT.frob f0 1) fun f0p =>
  obind (Bw6.expByX E f0) fun f1 =>
  obind (E.DT.frob f1 1) fun f1p =>
  obind (Bw6.expByX E f1) fun f2 =>
  obind (E.DT.frob f2 1) fun f2p =>
  obind (Bw6.expByX E f2) fun f3 =>
  obind (E.DT.frob f3 1) fun f3p =>
  obind (Bw6.expByX E f3) fun f4 =>
  obind (E.DT.frob f4 1) fun f4p =>
  obind (Bw6.expByX E f4) fun f5 =>
  obind (E.DT.frob f5 1) fun f5p =>
  obind (Bw6.expByX E f5) fun f6 =>
  obind (E.DT.frob f6 1) fun f6p =>
  obind (Bw6.expByX E f6) fun f7 =>
  obind (E.DT.frob f7 1) fun f7p =>
  obind (Bw6.expByX E f7p) fun f8p =>
  obind (Bw6.expByX E f8p) fun f9p =>
  obind (cycInvInPlace E.C f5p) fun f5pP3 =>
  obind (.ok (f3p * f6p * f5pP3)) fun result1 =>
  obind (.ok (E.DT.square result1)) fun result2 =>
  obind (.ok (f4 * f2p)) fun f4_2p =>
  obind (cycInvInPlace E.C (f0 * f1 * f3 * f4_2p * f8p)) fun tmp1P3 =>
  obind (.ok (result2 * f5 * f0p * tmp1P3)) fun result3 =>
  obind (.ok (E.DT.square result3)) fun result4 =>
  obind (cycInvInPlace E.C f7) fun f7P3 =>
  obind (.ok (result4 * f9p * f7P3)) fun result5 =>
  obind (.ok (E.DT.square result5)) fun result6 =>
  obind (.ok (f2 * f4p)) fun f2_4p =>
  obind (.ok (f4_2p * f5p)) fun f4_2p_5p =>
  obind (cycInvInPlace E.C (f2_4p * f3 * f3p)) fun tmp2P3 =>
  obind (.ok (result6 * f4_2p_5p * f6 * f7p * tmp2P3)) fun result7 =>
  obind (.ok (E.DT.square result7)) fun result8 =>
  obind (cycInvInPlace E.C (f0p * f9p)) fun tmp3P3 =>
  obind (.ok (result8 * f0 * f7 * f1p * tmp3P3)) fun result9 =>
  obind (.ok (E.DT.square result9)) fun result10 =>
  obind (.ok (f6p * f8p)) fun f6p_8p =>
  obind (.ok (f5 * f7p)) fun f5_7p =>
  obind (cycInvInPlace E.C f6p_8p) fun tmp4P3 =>
  obind (.ok (result10 * f5_7p * f2p * tmp4P3)) fun result11 =>
  obind (.ok (E.DT.square result11)) fun result12 =>
  obind (.ok (f3 * f6)) fun f3_6 =>
  obind (.ok (f1 * f7)) fun f1_7 =>
  obind (cycInvInPlace E.C (f1_7 * f2)) fun tmp5P3 =>
  obind (.ok (result12 * f3_6 * f9p * tmp5P3)) fun result13 =>
  obind (.ok (E.DT.square result13)) fun result14 =>
  obind (cycInvInPlace E.C (f4_2p * f5_7p * f6p_8p)) fun tmp6P3 =>
  obind (.ok (result14 * f0 * f0p * f3p * f5p * tmp6P3)) fun result15 =>
  obind (.ok (E.DT.square result15)) fun result16 =>
  obind (cycInvInPlace E.C f3_6) fun tmp7P3 =>
  obind (.ok (result16 * f1p * tmp7P3)) fun result17 =>
  obind (.ok (E.DT.square result17)) fun result18 =>
  obind (cycInvInPlace E.C (f2_4p * f4_2p_5p * f9p)) fun tmp8P3 =>
  obind (.ok (result18 * f1_7 * f5_7p * f0p * tmp8P3)) fun result19 =>
  .ok result19

def Bw6.hard761Val (φ : ℕ → T →*₀ T) (x : ℤ) (f : T) : T :=
  bindv (f) fun f0 =>
  bindv (φ 1 f0) fun f0p =>
  bindv (f0 ^ x) fun f1 =>
  bindv (φ 1 f1) fun f1p =>
  bindv (f1 ^ x) fun f2 =>
  bindv (φ 1 f2) fun f2p =>
  bindv (f2 ^ x) fun f3 =>
  bindv (φ 1 f3) fun f3p =>
  bindv (f3 ^ x) fun f4 =>
  bindv (φ 1 f4) fun f4p =>
  bindv (f4 ^ x) fun f5 =>
  bindv (φ 1 f5) fun f5p =>
  bindv (f5 ^ x) fun f6 =>
  bindv (φ 1 f6) fun f6p =>
  bindv (f6 ^ x) fun f7 =>
  bindv (φ 1 f7) fun f7p =>
  bindv (f7p ^ x) fun f8p =>
  bindv (f8p ^ x) fun f9p =>
  bindv (f5p⁻¹) fun f5pP3 =>
  bindv (f3p * f6p * f5pP3) fun result1 =>
  bindv ((result1 * result1)) fun result2 =>
  bindv (f4 * f2p) fun f4_2p =>
  bindv (((f0 * f1 * f3 * f4_2p * f8p))⁻¹) fun tmp1P3 =>
  bindv (result2 * f5 * f0p * tmp1P3) fun result3 =>
  bindv ((result3 * result3)) fun result4 =>
  bindv (f7⁻¹) fun f7P3 =>
  bindv (result4 * f9p * f7P3) fun result5 =>
  bindv ((result5 * result5)) fun result6 =>
  bindv (f2 * f4p) fun f2_4p =>
  bindv (f4_2p * f5p) fun f4_2p_5p =>
  bindv (((f2_4p * f3 * f3p))⁻¹) fun tmp2P3 =>
  bindv (result6 * f4_2p_5p * f6 * f7p * tmp2P3) fun result7 =>
  bindv ((result7 * result7)) fun result8 =>
  bindv (((f0p * f9p))⁻¹) fun tmp3P3 =>
  bindv (result8 * f0 * f7 * f1p * tmp3P3) fun result9 =>
  bindv ((result9 * result9)) fun result10 =>
  bindv (f6p * f8p) fun f6p_8p =>
  bindv (f5 * f7p) fun f5_7p =>
  bindv (f6p_8p⁻¹) fun tmp4P3 =>
  bindv (result10 * f5_7p * f2p * tmp4P3) fun result11 =>
  bindv ((result11 * result11)) fun result12 =>
  bindv (f3 * f6) fun f3_6 =>
  bindv (f1 * f7) fun f1_7 =>
  bindv (((f1_7 * f2))⁻¹) fun tmp5P3 =>
  bindv (result12 * f3_6 * f9p * tmp5P3) fun result13 =>
  bindv ((result13 * result13)) fun result14 =>
  bindv (((f4_2p * f5_7p * f6p_8p))⁻¹) fun tmp6P3 =>
  bindv (result14 * f0 * f0p * f3p * f5p * tmp6P3) fun result15 =>
  bindv ((result15 * result15)) fun result16 =>
  bindv (f3_6⁻¹) fun tmp7P3 =>
  bindv (result16 * f1p * tmp7P3) fun result17 =>
  bindv ((result17 * result17)) fun result18 =>
  bindv (((f2_4p * f4_2p_5p * f9p))⁻¹) fun tmp8P3 =>
  bindv (result18 * f1_7 * f5_7p * f0p * tmp8P3) fun result19 =>
  result19

theorem Bw6.hardGen_copy (f : T) :
    Bw6.hardPartGeneric E f = if E.tModRIsZero then Bw6.copyT E f else Bw6.copyF E f := by
  cases h : E.tModRIsZero
  · simp only [Bw6.hardPartGeneric, h, Bool.false_eq_true, if_false]; rfl
  · simp only [Bw6.hardPartGeneric, h, if_true]; rfl

theorem obind_ok_nr {α β : Type} (a : α) (f : α → Outcome β) : obind (.ok a) f = f a :=
  (id rfl : obind (.ok a) f = f a)

theorem Bw6.hard761_copy (f : T) : Bw6.hardPart761 E f = Bw6.copy761 E f := by
  simp only [Bw6.hardPart761, Bw6.copy761, obind_ok_nr]

/-- one step of a hard part on the cyclotomic subgroup -/
syntax "lock_step" term:max term:max term:max term:max term:max : tactic
macro_rules
| `(tactic| lock_step $E $L $CL $hx $hx3) =>
  `(tactic| (
    refine lock (S := CycLawful.Cyc $CL:term)
      (by first
        | exact Bw6.expByXMinus1_eq $E:term $L:term $CL:term $hx:term (by cyc_mem)
        | exact Bw6.expByXPlus1_eq $E:term $L:term $CL:term $hx:term (by cyc_mem)
        | exact Bw6.expByX_eq $E:term $L:term $CL:term $hx:term (by cyc_mem)
        | exact Bw6.expByXMinus1Div3_eq $E:term $L:term $CL:term $hx3:term (by cyc_mem)
        | exact Bw6.cinv_eq $E:term $L:term $CL:term (by cyc_mem)
        | exact TargetLawful.frob_eq $L:term _ _
        | exact Bw6.cyclotomicExpSigned_eq $E:term $L:term $CL:term _ (WF_asU64 _) _ (by cyc_mem)
        | exact CycLawful.cycExp_eq $CL:term _ (by cyc_mem) _ (WF_asU64 _)
        | rfl
        | simp only [TargetLawful.square_eq $L:term]
        | rw [TargetLawful.cycInvInPlace_eq $L:term, CycLawful.conj_eq $CL:term _ (by cyc_mem)])
      (by cyc_mem) (fun w hw => ?_)
    beta_reduce))

theorem Bw6.copyT_eq (hx : WF E.x) (hx3 : WF E.xMinus1Div3) {f : T} (hf : f ∈ CL.Cyc) :
    Bw6.copyT E f = .ok (Bw6.hardGenValT L.frob (sval E.xIsNegative E.x)
      (sval E.xIsNegative E.xMinus1Div3)
      (sval (decide (Bw6.d1T E < 0)) [Bw6.asU64 (Bw6.d1T E)]) (value [Bw6.d2 E]) f) := by
  unfold Bw6.copyT Bw6.hardGenValT
  repeat lock_step E L CL hx hx3
  rfl

theorem Bw6.copyF_eq (hx : WF E.x) (hx3 : WF E.xMinus1Div3) {f : T} (hf : f ∈ CL.Cyc) :
    Bw6.copyF E f = .ok (Bw6.hardGenValF L.frob (sval E.xIsNegative E.x)
      (sval E.xIsNegative E.xMinus1Div3)
      (sval (decide (Bw6.d1F E < 0)) [Bw6.asU64 (Bw6.d1F E)]) (value [Bw6.d2 E]) f) := by
  unfold Bw6.copyF Bw6.hardGenValF
  repeat lock_step E L CL hx hx3
  rfl

theorem Bw6.copy761_eq (hx : WF E.x) {f : T} (hf : f ∈ CL.Cyc) :
    Bw6.copy761 E f = .ok (Bw6.hard761Val L.frob (sval E.xIsNegative E.x) f) := by
  unfold Bw6.copy761 Bw6.hard761Val
  repeat lock_step E L CL hx hx
  rfl

/-- one step of the multiplicativity of a closed form -/
syntax "mul_step" : tactic
macro_rules
| `(tactic| mul_step) =>
  `(tactic| (
    refine lockMul
      (by first
        | (simp only [mul_zpow, mul_inv, map_mul, mul_pow]; ring1)
        | (simp only [mul_zpow, mul_inv, map_mul, mul_pow]; done)
        | ring1)
      (fun w1 w2 => ?_)
    beta_reduce))

theorem Bw6.hardGenValT_mul (φ : ℕ → T →*₀ T) (x x3 d1 : ℤ) (d2 : ℕ) (r s : T) :
    Bw6.hardGenValT φ x x3 d1 d2 (r * s) =
      Bw6.hardGenValT φ x x3 d1 d2 r * Bw6.hardGenValT φ x x3 d1 d2 s := by
  unfold Bw6.hardGenValT
  iterate 24 mul_step
  ring1

theorem Bw6.hardGenValF_mul (φ : ℕ → T →*₀ T) (x x3 d1 : ℤ) (d2 : ℕ) (r s : T) :
    Bw6.hardGenValF φ x x3 d1 d2 (r * s) =
      Bw6.hardGenValF φ x x3 d1 d2 r * Bw6.hardGenValF φ x x3 d1 d2 s := by
  unfold Bw6.hardGenValF
  iterate 25 mul_step
  ring1

theorem Bw6.hard761Val_mul (φ : ℕ → T →*₀ T) (x : ℤ) (r s : T) :
    Bw6.hard761Val φ x (r * s) = Bw6.hard761Val φ x r * Bw6.hard761Val φ x s := by
  unfold Bw6.hard761Val
  iterate 54 mul_step
  rfl

/-- the value of the hard part selected by the configuration -/
def Bw6.hardVal (E : Bw6 P F T) (φ : ℕ → T →*₀ T) (f : T) : T :=
  if E.hardPartOverride then Bw6.hard761Val φ (sval E.xIsNegative E.x) f
  else if E.tModRIsZero then
    Bw6.hardGenValT φ (sval E.xIsNegative E.x) (sval E.xIsNegative E.xMinus1Div3)
      (sval (decide (Bw6.d1T E < 0)) [Bw6.asU64 (Bw6.d1T E)]) (value [Bw6.d2 E]) f
  else
    Bw6.hardGenValF φ (sval E.xIsNegative E.x) (sval E.xIsNegative E.xMinus1Div3)
      (sval (decide (Bw6.d1F E < 0)) [Bw6.asU64 (Bw6.d1F E)]) (value [Bw6.d2 E]) f

theorem Bw6.hardVal_mul (φ : ℕ → T →*₀ T) (r s : T) :
    Bw6.hardVal E φ (r * s) = Bw6.hardVal E φ r * Bw6.hardVal E φ s := by
  unfold Bw6.hardVal
  split
  · exact Bw6.hard761Val_mul _ _ _ _
  · split
    · exact Bw6.hardGenValT_mul _ _ _ _ _ _ _
    · exact Bw6.hardGenValF_mul _ _ _ _ _ _ _

theorem Bw6.fe_eq (hx : WF E.x) (hx3 : WF E.xMinus1Div3) (hconj : ∀ f, E.conj f = L.conj f)
    (hEasy : ∀ f, f ≠ 0 → easy6 L f ∈ CL.Cyc) (f : T) :
    Bw6.finalExponentiation E f =
      if f = 0 then .panic else .ok (some (Bw6.hardVal E L.frob (easy6 L f))) := by
  unfold Bw6.finalExponentiation
  rw [Bw6.easy_eq E L hconj]
  by_cases hf : f = 0
  · simp [hf]
  · have hr := hEasy f hf
    simp only [hf, if_false, obind_ok]
    unfold Bw6.hardVal
    cases ho : E.hardPartOverride
    · simp only [Bool.false_eq_true, if_false]
      rw [Bw6.hardGen_copy]
      cases ht : E.tModRIsZero
      · simp only [Bool.false_eq_true, if_false]
        rw [Bw6.copyF_eq E L CL hx hx3 hr]; rfl
      · simp only [if_true]
        rw [Bw6.copyT_eq E L CL hx hx3 hr]; rfl
    · simp only [if_true]
      rw [Bw6.hard761_copy, Bw6.copy761_eq E L CL hx hr]; rfl

end bw6
section mntval
variable {P T : Type} [Field T] [DecidableEq T] {DT : FieldD P T} {C : CycD T}

/-- `final_exponentiation_first_chunk(elt, elt_inv)` -/
def Mnt.firstVal (L : TargetLawful DT C) (mnt6 : Bool) (elt eltInv : T) : T :=
  if mnt6 then L.frob 1 (L.conj elt * eltInv) * (L.conj elt * eltInv) else L.conj elt * eltInv

/-- `final_exponentiation` of MNT4 / MNT6 on a non-zero element -/
def Mnt.feVal (L : TargetLawful DT C) (mnt6 neg : Bool) (c1 c0 : ℕ) (f : T) : T :=
  (L.frob 1 (Mnt.firstVal L mnt6 f f⁻¹)) ^ c1 *
    (if neg then (Mnt.firstVal L mnt6 f⁻¹ f) ^ c0 else (Mnt.firstVal L mnt6 f f⁻¹) ^ c0)

theorem Mnt.firstVal_inv (L : TargetLawful DT C) (mnt6 : Bool) (f : T) :
    Mnt.firstVal L mnt6 f⁻¹ f = (Mnt.firstVal L mnt6 f f⁻¹)⁻¹ := by
  unfold Mnt.firstVal
  cases mnt6 <;> simp [map_inv₀, mul_comm]

theorem Mnt.feVal_mul (L : TargetLawful DT C) (mnt6 neg : Bool) (c1 c0 : ℕ) (f g : T) :
    Mnt.feVal L mnt6 neg c1 c0 (f * g) =
      Mnt.feVal L mnt6 neg c1 c0 f * Mnt.feVal L mnt6 neg c1 c0 g := by
  unfold Mnt.feVal Mnt.firstVal
  cases mnt6 <;> cases neg <;>
    simp only [Bool.false_eq_true, if_false, if_true, map_mul, mul_inv, mul_pow] <;> ring

end mntval

section mntfe
variable {P F G : Type} [Zero F] [DecidableEq F] [Field G] [DecidableEq G]
  (cfg : QuadCfg G) (B : FieldD P G) (hB : BaseLawful B) (hc : QuadLawful cfg)
  (hnr : ∀ x : G, x * x ≠ cfg.nonresidue)

theorem Mnt.firstChunk_eq :
    letI := Quad.field cfg B hB hc hnr
    ∀ (E : Mnt P F G) (L : TargetLawful E.DT E.C) (elt eltInv : Quad G),
      Mnt.finalExponentiationFirstChunk E elt eltInv = .ok (Mnt.firstVal L E.isMnt6 elt eltInv) := by
  letI := Quad.field cfg B hB hc hnr
  intro E L elt eltInv
  unfold Mnt.finalExponentiationFirstChunk Mnt.firstVal
  rw [L.cycInvInPlace_eq]
  cases E.isMnt6 <;> simp [L.frob_eq]

theorem Mnt.fe_eq :
    letI := Quad.field cfg B hB hc hnr
    ∀ (E : Mnt P F G) (L : TargetLawful E.DT E.C) (CL : CycLawful L)
      (_h1 : WF E.finalExponentLastChunk1) (_h0 : WF E.finalExponentLastChunkAbsOfW0)
      (_hEasy : ∀ f : Quad G, f ≠ 0 → Mnt.firstVal L E.isMnt6 f f⁻¹ ∈ CL.Cyc) (f : Quad G),
      Mnt.finalExponentiation E f = .ok (if f = 0 then none else
        some (Mnt.feVal L E.isMnt6 E.finalExponentLastChunkW0IsNeg (value E.finalExponentLastChunk1)
          (value E.finalExponentLastChunkAbsOfW0) f)) := by
  letI := Quad.field cfg B hB hc hnr
  intro E L CL h1 h0 hEasy f
  unfold Mnt.finalExponentiation
  rw [L.inverse_eq]
  by_cases hf : f = 0
  · simp [hf]
  · have hv1 := hEasy f hf
    have hv2 : Mnt.firstVal L E.isMnt6 f⁻¹ f ∈ CL.Cyc := by
      rw [Mnt.firstVal_inv]; exact CL.inv_mem _ hv1
    simp only [hf, if_false, obind_ok, Mnt.firstChunk_eq cfg B hB hc hnr E L]
    unfold Mnt.finalExponentiationLastChunk Mnt.feVal
    simp only [L.frob_eq, obind_ok]
    rw [CL.cycExp_eq _ (CL.frob_mem _ hv1 1) _ h1]
    cases E.finalExponentLastChunkW0IsNeg
    · simp only [Bool.false_eq_true, if_false, obind_ok]
      rw [CL.cycExp_eq _ hv1 _ h0]; rfl
    · simp only [if_true, obind_ok]
      rw [CL.cycExp_eq _ hv2 _ h0]; rfl

end mntfe
/-! ## the order of the BLS12 pairing values -/

section order
variable {P T : Type} [Field T] [DecidableEq T] {DT : FieldD P T} {C : CycD T}
  {L : TargetLawful DT C}

/-- the exponent computed by the hard part of BLS12 (Hayashida–Hayasaka–Teruya) -/
def Bls12.hardExp (x p : ℤ) : ℤ := (x - 1) ^ 2 * (x + p) * (x ^ 2 + p ^ 2 - 1) + 3

theorem Bls12.hardVal_pow (CL : CycLawful L) (p : ℕ)
    (hφ : ∀ a ∈ CL.Cyc, ∀ k, L.frob k a = a ^ (p ^ k)) (x : ℤ) {a : T} (ha : a ∈ CL.Cyc) :
    Bls12.hardVal L.frob x a = a ^ Bls12.hardExp x p := by
  have ha0 := CL.ne_zero a ha
  simp only [Bls12.hardVal]
  have e1 : a ^ x * a⁻¹ = a ^ (x - 1) := by rw [zpow_sub_one₀ ha0]
  rw [e1]
  have e2 : (a ^ (x - 1))⁻¹ * (a ^ (x - 1)) ^ x = a ^ ((x - 1) ^ 2) := by
    rw [← zpow_neg, ← zpow_mul, ← zpow_add₀ ha0]; congr 1; ring
  rw [e2]
  have hz : a ^ ((x - 1) ^ 2) ∈ CL.Cyc := CL.zpow_mem ha _
  have hz0 := CL.ne_zero _ hz
  rw [hφ _ hz 1]
  have e3 : (a ^ ((x - 1) ^ 2)) ^ p ^ 1 * (a ^ ((x - 1) ^ 2)) ^ x = a ^ ((x - 1) ^ 2 * (x + p)) := by
    rw [← zpow_natCast, ← zpow_mul, ← zpow_mul, ← zpow_add₀ ha0]; congr 1; push_cast; ring
  rw [e3]
  have hs : a ^ ((x - 1) ^ 2 * (x + p)) ∈ CL.Cyc := CL.zpow_mem ha _
  rw [hφ _ hs 2]
  rw [← zpow_natCast, ← zpow_neg, ← zpow_mul, ← zpow_mul, ← zpow_mul, ← zpow_add₀ ha0,
    ← zpow_add₀ ha0]
  have e4 : a * (a * a) = a ^ (3 : ℤ) := by
    rw [show (3 : ℤ) = ((3 : ℕ) : ℤ) from rfl, zpow_natCast]; ring
  rw [e4, ← zpow_add₀ ha0, Bls12.hardExp]
  congr 1; push_cast; ring

/-- `3·Φ₁₂(p) = hardExp(x, p)·r` for the BLS12 parametrisation `3p = (x-1)²(x⁴-x²+1) + 3x`,
    `r = x⁴-x²+1` -/
theorem Bls12.hardExp_mul_r (x p r : ℤ) (hp : 3 * p = (x - 1) ^ 2 * (x ^ 4 - x ^ 2 + 1) + 3 * x)
    (hr : r = x ^ 4 - x ^ 2 + 1) :
    Bls12.hardExp x p * r = 3 * (p ^ 4 - p ^ 2 + 1) := by
  have h27 : (27 : ℤ) * (Bls12.hardExp x p * r) = 27 * (3 * (p ^ 4 - p ^ 2 + 1)) := by
    have : (27 : ℤ) * (Bls12.hardExp x p * r) =
        ((x - 1) ^ 2 * (3 * x + 3 * p) * (9 * x ^ 2 + (3 * p) ^ 2 - 9) + 81) * r := by
      unfold Bls12.hardExp; ring
    rw [this, hp, hr]
    have : (27 : ℤ) * (3 * (p ^ 4 - p ^ 2 + 1)) = (3 * p) ^ 4 - 9 * (3 * p) ^ 2 + 81 := by ring
    rw [this, hp]
    ring
  exact mul_left_cancel₀ (by norm_num) h27

end order
/-! ## the trait level: `multi_pairing`, `pairing` -/

section engine
variable {A A' B B' T : Type} [CommMonoid T]

/-- the value of a computation that did not panic -/
def okVal {α : Type} (d : α) : Outcome α → α
  | .ok a => a
  | .panic => d

theorem exists_lift (pa : A → A') (prep : B → Outcome B') (l : List (A × B × T)) (bs : List B')
    (h : mapO prep (l.map (·.2.1)) = .ok bs) :
    ∃ l' : List (A' × B' × T), l'.map (·.1) = (l.map (·.1)).map pa ∧ l'.map (·.2.1) = bs ∧
      l'.map (·.2.2) = l.map (·.2.2) ∧
      ∀ t' ∈ l', ∃ t ∈ l, t'.1 = pa t.1 ∧ prep t.2.1 = .ok t'.2.1 ∧ t'.2.2 = t.2.2 := by
  induction l generalizing bs with
  | nil =>
    simp only [List.map_nil, mapO, Outcome.ok.injEq] at h
    subst h
    exact ⟨[], rfl, rfl, rfl, by simp⟩
  | cons t l ih =>
    simp only [List.map_cons, mapO] at h
    obtain ⟨b, hb, h⟩ := obind_eq_ok.1 h
    obtain ⟨bs', hbs', h⟩ := obind_eq_ok.1 h
    simp only [Outcome.ok.injEq] at h
    subst h
    obtain ⟨l', h1, h2, h3, h4⟩ := ih bs' hbs'
    refine ⟨(pa t.1, b, t.2.2) :: l', by simp [h1], by simp [h2], by simp [h3], ?_⟩
    intro t' ht'
    rcases List.mem_cons.1 ht' with rfl | ht'
    · exact ⟨t, List.mem_cons_self, rfl, hb, rfl⟩
    · obtain ⟨t0, ht0, e⟩ := h4 t' ht'
      exact ⟨t0, List.mem_cons_of_mem _ ht0, e⟩

/-- lifting "multi = product" from prepared to affine inputs -/
theorem prod_lift (pa : A → A') (prep : B → Outcome B') (mp : List A' → List B' → Outcome T)
    (hmp : ∀ (l' : List (A' × B' × T)) (v : T), mp (l'.map (·.1)) (l'.map (·.2.1)) = .ok v →
      (∀ t ∈ l', mp [t.1] [t.2.1] = .ok t.2.2) → v = (l'.map (·.2.2)).prod)
    (l : List (A × B × T)) (v : T)
    (h : (obind (mapO prep (l.map (·.2.1))) fun b' => mp ((l.map (·.1)).map pa) b') = .ok v)
    (hl : ∀ t ∈ l, (obind (mapO prep [t.2.1]) fun b' => mp ([t.1].map pa) b') = .ok t.2.2) :
    v = (l.map (·.2.2)).prod := by
  obtain ⟨bs, hbs, h⟩ := obind_eq_ok.1 h
  obtain ⟨l', h1, h2, h3, h4⟩ := exists_lift pa prep l bs hbs
  rw [← h1, ← h2] at h
  rw [← h3]
  refine hmp l' v h ?_
  intro t' ht'
  obtain ⟨t, ht, e1, e2, e3⟩ := h4 t' ht'
  have := hl t ht
  simp only [mapO, e2, obind_ok, List.map_cons, List.map_nil] at this
  rw [e1, e3]; exact this

/-- `multi_pairing = Π pairing` from "multi Miller loop = product" and a multiplicative final
    exponentiation -/
theorem Engine.multiPairing_prod (En : Engine A B T) (Φ : T → T)
    (hΦ : ∀ a b, Φ (a * b) = Φ a * Φ b) (hΦ1 : Φ 1 = 1)
    (hfe : ∀ f w, En.finalExponentiation f = .ok (some w) → w = Φ f)
    (hmm : ∀ (l : List (A × B × T)) (v : T),
      En.multiMillerLoop (l.map (·.1)) (l.map (·.2.1)) = .ok v →
      (∀ t ∈ l, En.multiMillerLoop [t.1] [t.2.1] = .ok t.2.2) → v = (l.map (·.2.2)).prod)
    (l : List (A × B × T)) (v : T)
    (h : En.multiPairing (l.map (·.1)) (l.map (·.2.1)) = .ok v)
    (hl : ∀ t ∈ l, En.pairing t.1 t.2.1 = .ok t.2.2) :
    v = (l.map (·.2.2)).prod := by
  have key : ∀ a b w, En.multiPairing a b = .ok w →
      ∃ m, En.multiMillerLoop a b = .ok m ∧ w = Φ m := by
    intro a b w hw
    unfold Engine.multiPairing at hw
    obtain ⟨m, hm, hw⟩ := obind_eq_ok.1 hw
    obtain ⟨o, ho, hw⟩ := obind_eq_ok.1 hw
    cases o with
    | none => simp [unwrap] at hw
    | some w' =>
      simp only [unwrap, Outcome.ok.injEq] at hw
      subst hw
      exact ⟨m, hm, hfe m _ ho⟩
  obtain ⟨m, hm, rfl⟩ := key _ _ _ h
  let mOf : A × B × T → T := fun t => okVal 1 (En.multiMillerLoop [t.1] [t.2.1])
  have hsingle : ∀ t ∈ l, En.multiMillerLoop [t.1] [t.2.1] = .ok (mOf t) ∧ t.2.2 = Φ (mOf t) := by
    intro t ht
    obtain ⟨mt, hmt, e⟩ := key _ _ _ (hl t ht)
    have : mOf t = mt := by simp only [mOf, hmt, okVal]
    rw [this]; exact ⟨hmt, e⟩
  have := hmm (l.map fun t => (t.1, t.2.1, mOf t)) m
    (by rw [List.map_map, List.map_map]; exact hm)
    (by
      intro t' ht'
      obtain ⟨t, ht, rfl⟩ := List.mem_map.1 ht'
      exact (hsingle t ht).1)
  rw [this]
  let Φh : T →* T := ⟨⟨Φ, hΦ1⟩, hΦ⟩
  show Φh _ = _
  rw [map_list_prod]
  congr 1
  simp only [List.map_map]
  apply List.map_congr_left
  intro t ht
  exact ((hsingle t ht).2).symm

end engine
/-! ## identity pairs -/

section ident12
variable {P F G T : Type} [Add G] [Sub G] [Mul G] [Neg G] [Field T] [DecidableEq T]

theorem Bls12.multi_cons_identity (E : Bls12 P F G T) (p : Aff F) (q : G2Prepared G)
    (as : List (Aff F)) (bs : List (G2Prepared G)) (h : p.infinity = true ∨ q.infinity = true) :
    Bls12.multiMillerLoopPrepared E (p :: as) (q :: bs) = Bls12.multiMillerLoopPrepared E as bs := by
  rw [Bls12.multi_eq, Bls12.multi_eq]
  simp only [zipEq]
  cases zipEq as bs with
  | panic => rfl
  | ok zs =>
    have : Bls12.sel (p, q) = none := by
      unfold Bls12.sel; rcases h with h | h <;> simp [h]
    simp only [obind_ok, List.filterMap_cons, this]

theorem Bls12.multi_nil (E : Bls12 P F G T) (L : TargetLawful E.DT E.C) :
    Bls12.multiMillerLoopPrepared E [] [] = .ok 1 := by
  rw [Bls12.multi_eq]
  simp only [zipEq, obind_ok, List.filterMap_nil, Bls12.chunked, chunks4_nil, overChunks, product,
    List.foldl_nil]
  cases E.xIsNegative <;> simp [L.cycInvInPlace_eq]

theorem Bls12.g2Prepare_infinity (E : Bls12 P F G T) (q : Aff G) (q' : G2Prepared G)
    (hq : Bls12.g2Prepare E q = .ok q') (h : q.infinity = true) : q'.infinity = true := by
  unfold Bls12.g2Prepare at hq
  obtain ⟨ti, _, hq⟩ := obind_eq_ok.1 hq
  simp only [Aff.xy, h, if_true, Outcome.ok.injEq] at hq
  rw [← hq]

theorem Bls12.hardVal_one (φ : ℕ → T →*₀ T) (x : ℤ) : Bls12.hardVal φ x (1 : T) = 1 := by
  simp [Bls12.hardVal]

theorem easy12_one {DT : FieldD P T} {C : CycD T} (L : TargetLawful DT C) : easy12 L (1 : T) = 1 := by
  simp [easy12]

theorem Bn.multi_cons_identity (E : Bn P F G T) (p : Aff F) (q : G2Prepared G)
    (as : List (Aff F)) (bs : List (G2Prepared G)) (h : p.infinity = true ∨ q.infinity = true) :
    Bn.multiMillerLoopPrepared E (p :: as) (q :: bs) = Bn.multiMillerLoopPrepared E as bs := by
  rw [Bn.multi_eq, Bn.multi_eq]
  simp only [zipEq]
  cases zipEq as bs with
  | panic => rfl
  | ok zs =>
    have : Bn.sel (p, q) = none := by
      unfold Bn.sel; rcases h with h | h <;> simp [h]
    simp only [obind_ok, List.filterMap_cons, this]

theorem Bn.multi_nil (E : Bn P F G T) (L : TargetLawful E.DT E.C) :
    Bn.multiMillerLoopPrepared E [] [] = .ok 1 := by
  rw [Bn.multi_eq]
  simp only [zipEq, obind_ok, List.filterMap_nil, Bn.chunked, chunks4_nil, overChunks, product,
    List.foldl_nil, Bn.post_eq E L, ellRound]
  unfold Bn.post
  cases E.xIsNegative <;> simp

theorem Bn.g2Prepare_infinity (E : Bn P F G T) (q : Aff G) (q' : G2Prepared G)
    (hq : Bn.g2Prepare E q = .ok q') (h : q.infinity = true) : q'.infinity = true := by
  unfold Bn.g2Prepare at hq
  simp only [h, if_true, Outcome.ok.injEq] at hq
  rw [← hq]

theorem Bn.hardVal_one (φ : ℕ → T →*₀ T) (x : ℤ) : Bn.hardVal φ x (1 : T) = 1 := by
  simp [Bn.hardVal]

end ident12

section ident6
variable {P F T : Type} [Add F] [Sub F] [Mul F] [Neg F] [Field T] [DecidableEq T]

theorem Bw6.multi_cons_identity (E : Bw6 P F T) (p : Aff F) (q : Bw6G2Prepared F)
    (as : List (Aff F)) (bs : List (Bw6G2Prepared F)) (h : p.infinity = true ∨ q.infinity = true) :
    Bw6.multiMillerLoopPrepared E (p :: as) (q :: bs) = Bw6.multiMillerLoopPrepared E as bs := by
  rw [Bw6.multi_eq, Bw6.multi_eq]
  simp only [zipEq]
  cases zipEq as bs with
  | panic => rfl
  | ok zs =>
    have : Bw6.keep (p, q) = false := by
      unfold Bw6.keep; rcases h with h | h <;> simp [h]
    simp only [obind_ok, List.filter_cons, this, Bool.false_eq_true, if_false]

theorem Bw6.multi_nil (E : Bw6 P F T) (L : TargetLawful E.DT E.C) :
    Bw6.multiMillerLoopPrepared E [] [] = .ok 1 := by
  rw [Bw6.multi_eq]
  have hi := Bw6.invStep_one E L
  unfold Bw6.invStep at hi
  simp only [zipEq, obind_ok, List.filter_nil, Bw6.chunked, List.map_nil, chunks4_nil, overChunks,
    overChunksIdx, product, List.foldl_nil, hi, mul_one]
  cases E.ateLoopCount2IsNegative <;> cases E.tModRIsZero <;>
    simp [L.cycInvInPlace_eq, L.frob_eq]

theorem Bw6.g2Prepare_infinity (E : Bw6 P F T) (q : Aff F) (q' : Bw6G2Prepared F)
    (hq : Bw6.g2Prepare E q = .ok q') (h : q.infinity = true) : q'.infinity = true := by
  unfold Bw6.g2Prepare at hq
  simp only [h, if_true, Outcome.ok.injEq] at hq
  rw [← hq]

theorem easy6_one {DT : FieldD P T} {C : CycD T} (L : TargetLawful DT C) : easy6 L (1 : T) = 1 := by
  simp [easy6]

theorem Bw6.hardVal_one (E : Bw6 P F T) (φ : ℕ → T →*₀ T) : Bw6.hardVal E φ (1 : T) = 1 := by
  unfold Bw6.hardVal
  split
  · simp [Bw6.hard761Val, bindv]
  · split
    · simp [Bw6.hardGenValT, bindv]
    · simp [Bw6.hardGenValF, bindv]

end ident6

section identMnt
variable {P F G : Type} [Zero F] [DecidableEq F] [Field G] [DecidableEq G]

theorem Mnt.multi_cons_identity [Mul (Quad G)] (E : Mnt P F G) (p : MntG1Prepared F G)
    (q : MntG2Prepared G) (as : List (MntG1Prepared F G)) (bs : List (MntG2Prepared G))
    (h : Mnt.g1IsZero p = true ∨ Mnt.g2IsZero q = true) :
    Mnt.multiMillerLoopPrepared E (p :: as) (q :: bs) = Mnt.multiMillerLoopPrepared E as bs := by
  rw [Mnt.multi_eq, Mnt.multi_eq]
  simp only [zipEq]
  cases zipEq as bs with
  | panic => rfl
  | ok zs =>
    have : Mnt.keep (p, q) = false := by
      unfold Mnt.keep; rcases h with h | h <;> simp [h]
    simp only [obind_ok, List.filter_cons, this, Bool.false_eq_true, if_false]

theorem Mnt.g1Prepare_infinity [Mul (Quad G)] (E : Mnt P F G) (p : Aff F) (h : p.infinity = true) :
    Mnt.g1IsZero (Mnt.g1Prepare E p) = true := by
  simp [Mnt.g1Prepare, Mnt.g1IsZero, h, Aff.identity]

theorem Mnt.g2Prepare_infinity [Mul (Quad G)] (E : Mnt P F G) (q : Aff G) (h : q.infinity = true) :
    ∃ q', Mnt.g2Prepare E q = .ok q' ∧ Mnt.g2IsZero q' = true := by
  refine ⟨⟨0, 0, 0, 0, [], []⟩, ?_, ?_⟩
  · simp [Mnt.g2Prepare, h]
  · simp [Mnt.g2IsZero]

theorem Mnt.firstVal_one {T : Type} [Field T] [DecidableEq T] {DT : FieldD P T} {C : CycD T}
    (L : TargetLawful DT C) (b : Bool) : Mnt.firstVal L b (1 : T) 1 = 1 := by
  unfold Mnt.firstVal; cases b <;> simp

theorem Mnt.feVal_one {T : Type} [Field T] [DecidableEq T] {DT : FieldD P T} {C : CycD T}
    (L : TargetLawful DT C) (b n : Bool) (c1 c0 : ℕ) : Mnt.feVal L b n c1 c0 (1 : T) = 1 := by
  unfold Mnt.feVal
  rw [inv_one, Mnt.firstVal_one]
  cases n <;> simp

end identMnt

/-! ## the four engines -/

theorem fe_some_of_eq {T : Type} [Field T] [DecidableEq T] (Φ : T → T) (fe : T → Outcome (Option T))
    (h : ∀ f, fe f = .ok (if f = 0 then none else some (Φ f))) (f w : T)
    (hw : fe f = .ok (some w)) : w = Φ f := by
  rw [h] at hw
  by_cases hf : f = 0
  · simp [hf] at hw
  · simp only [hf, if_false, Outcome.ok.injEq, Option.some.injEq] at hw
    exact hw.symm

theorem fe_some_of_eq' {T : Type} [Field T] [DecidableEq T] (Φ : T → T) (fe : T → Outcome (Option T))
    (h : ∀ f, fe f = if f = 0 then .panic else .ok (some (Φ f))) (f w : T)
    (hw : fe f = .ok (some w)) : w = Φ f := by
  rw [h] at hw
  by_cases hf : f = 0
  · simp [hf] at hw
  · simp only [hf, if_false, Outcome.ok.injEq, Option.some.injEq] at hw
    exact hw.symm

section eng12
variable {P F G T : Type} [Add G] [Sub G] [Mul G] [Neg G] [Field T] [DecidableEq T]

/-- `impl Pairing for Bls12<P>` -/
def Bls12.engine (E : Bls12 P F G T) : Engine (Aff F) (Aff G) T :=
  ⟨Bls12.multiMillerLoop E, Bls12.finalExponentiation E⟩

/-- the value of the final exponentiation of BLS12 on a non-zero element -/
def Bls12.feVal (E : Bls12 P F G T) (L : TargetLawful E.DT E.C) (f : T) : T :=
  Bls12.hardVal L.frob (sval E.xIsNegative E.x) (easy12 L f)

theorem Bls12.feVal_mul (E : Bls12 P F G T) (L : TargetLawful E.DT E.C) (f g : T) :
    Bls12.feVal E L (f * g) = Bls12.feVal E L f * Bls12.feVal E L g := by
  unfold Bls12.feVal; rw [easy12_mul, Bls12.hardVal_mul]

theorem Bls12.feVal_one (E : Bls12 P F G T) (L : TargetLawful E.DT E.C) : Bls12.feVal E L 1 = 1 := by
  unfold Bls12.feVal; rw [easy12_one, Bls12.hardVal_one]

theorem Bls12.multiMillerLoop_prod (E : Bls12 P F G T) (hS : SparseLawful E.S)
    (L : TargetLawful E.DT E.C) (l : List (Aff F × Aff G × T)) (v : T)
    (h : Bls12.multiMillerLoop E (l.map (·.1)) (l.map (·.2.1)) = .ok v)
    (hl : ∀ t ∈ l, Bls12.multiMillerLoop E [t.1] [t.2.1] = .ok t.2.2) :
    v = (l.map (·.2.2)).prod :=
  prod_lift id (Bls12.g2Prepare E) (Bls12.multiMillerLoopPrepared E) (Bls12.multi_prod E hS L) l v
    (by rw [List.map_id]; exact h) (fun t ht => hl t ht)

theorem Bls12.multiPairing_prod (E : Bls12 P F G T) (hS : SparseLawful E.S)
    (L : TargetLawful E.DT E.C) (CL : CycLawful L) (hx : WF E.x)
    (hEasy : ∀ f, f ≠ 0 → easy12 L f ∈ CL.Cyc) (l : List (Aff F × Aff G × T)) (v : T)
    (h : (Bls12.engine E).multiPairing (l.map (·.1)) (l.map (·.2.1)) = .ok v)
    (hl : ∀ t ∈ l, (Bls12.engine E).pairing t.1 t.2.1 = .ok t.2.2) :
    v = (l.map (·.2.2)).prod :=
  Engine.multiPairing_prod (Bls12.engine E) (Bls12.feVal E L) (Bls12.feVal_mul E L)
    (Bls12.feVal_one E L)
    (fe_some_of_eq _ _ (Bls12.fe_eq E L CL hx hEasy))
    (Bls12.multiMillerLoop_prod E hS L) l v h hl

theorem Bls12.pairing_identity (E : Bls12 P F G T)
    (L : TargetLawful E.DT E.C) (CL : CycLawful L) (hx : WF E.x)
    (hEasy : ∀ f, f ≠ 0 → easy12 L f ∈ CL.Cyc) (p : Aff F) (q : Aff G) (q' : G2Prepared G)
    (hq : Bls12.g2Prepare E q = .ok q') (h : p.infinity = true ∨ q.infinity = true) :
    (Bls12.engine E).pairing p q = .ok 1 := by
  have h' : p.infinity = true ∨ q'.infinity = true :=
    h.imp id (Bls12.g2Prepare_infinity E q q' hq)
  have hm : Bls12.multiMillerLoop E [p] [q] = .ok 1 := by
    unfold Bls12.multiMillerLoop
    simp only [mapO, hq, obind_ok]
    rw [Bls12.multi_cons_identity E p q' [] [] h', Bls12.multi_nil E L]
  unfold Engine.pairing Engine.multiPairing Bls12.engine
  simp only [hm, obind_ok, Bls12.fe_eq E L CL hx hEasy, one_ne_zero, if_false, unwrap]
  exact congrArg _ (Bls12.feVal_one E L)

/-- `impl Pairing for Bn<P>` -/
def Bn.engine (E : Bn P F G T) : Engine (Aff F) (Aff G) T :=
  ⟨Bn.multiMillerLoop E, Bn.finalExponentiation E⟩

def Bn.feVal (E : Bn P F G T) (L : TargetLawful E.DT E.C) (f : T) : T :=
  Bn.hardVal L.frob (sval (!E.xIsNegative) E.x) (easy12 L f)

theorem Bn.feVal_mul (E : Bn P F G T) (L : TargetLawful E.DT E.C) (f g : T) :
    Bn.feVal E L (f * g) = Bn.feVal E L f * Bn.feVal E L g := by
  unfold Bn.feVal; rw [easy12_mul, Bn.hardVal_mul]

theorem Bn.feVal_one (E : Bn P F G T) (L : TargetLawful E.DT E.C) : Bn.feVal E L 1 = 1 := by
  unfold Bn.feVal; rw [easy12_one, Bn.hardVal_one]

theorem Bn.multiMillerLoop_prod (E : Bn P F G T) (hS : SparseLawful E.S)
    (L : TargetLawful E.DT E.C) (l : List (Aff F × Aff G × T)) (v : T)
    (h : Bn.multiMillerLoop E (l.map (·.1)) (l.map (·.2.1)) = .ok v)
    (hl : ∀ t ∈ l, Bn.multiMillerLoop E [t.1] [t.2.1] = .ok t.2.2) :
    v = (l.map (·.2.2)).prod :=
  prod_lift id (Bn.g2Prepare E) (Bn.multiMillerLoopPrepared E) (Bn.multi_prod E hS L) l v
    (by rw [List.map_id]; exact h) (fun t ht => hl t ht)

theorem Bn.multiPairing_prod (E : Bn P F G T) (hS : SparseLawful E.S)
    (L : TargetLawful E.DT E.C) (CL : CycLawful L) (hx : WF E.x)
    (hEasy : ∀ f, f ≠ 0 → easy12 L f ∈ CL.Cyc) (l : List (Aff F × Aff G × T)) (v : T)
    (h : (Bn.engine E).multiPairing (l.map (·.1)) (l.map (·.2.1)) = .ok v)
    (hl : ∀ t ∈ l, (Bn.engine E).pairing t.1 t.2.1 = .ok t.2.2) :
    v = (l.map (·.2.2)).prod :=
  Engine.multiPairing_prod (Bn.engine E) (Bn.feVal E L) (Bn.feVal_mul E L) (Bn.feVal_one E L)
    (fe_some_of_eq _ _ (Bn.fe_eq E L CL hx hEasy))
    (Bn.multiMillerLoop_prod E hS L) l v h hl

theorem Bn.pairing_identity (E : Bn P F G T)
    (L : TargetLawful E.DT E.C) (CL : CycLawful L) (hx : WF E.x)
    (hEasy : ∀ f, f ≠ 0 → easy12 L f ∈ CL.Cyc) (p : Aff F) (q : Aff G) (q' : G2Prepared G)
    (hq : Bn.g2Prepare E q = .ok q') (h : p.infinity = true ∨ q.infinity = true) :
    (Bn.engine E).pairing p q = .ok 1 := by
  have h' : p.infinity = true ∨ q'.infinity = true :=
    h.imp id (Bn.g2Prepare_infinity E q q' hq)
  have hm : Bn.multiMillerLoop E [p] [q] = .ok 1 := by
    unfold Bn.multiMillerLoop
    simp only [mapO, hq, obind_ok]
    rw [Bn.multi_cons_identity E p q' [] [] h', Bn.multi_nil E L]
  unfold Engine.pairing Engine.multiPairing Bn.engine
  simp only [hm, obind_ok, Bn.fe_eq E L CL hx hEasy, one_ne_zero, if_false, unwrap]
  exact congrArg _ (Bn.feVal_one E L)

end eng12

section eng6
variable {P F T : Type} [Add F] [Sub F] [Mul F] [Neg F] [Field T] [DecidableEq T]

/-- `impl Pairing for BW6<P>` -/
def Bw6.engine (E : Bw6 P F T) : Engine (Aff F) (Aff F) T :=
  ⟨Bw6.multiMillerLoop E, Bw6.finalExponentiation E⟩

def Bw6.feVal (E : Bw6 P F T) (L : TargetLawful E.DT E.C) (f : T) : T :=
  Bw6.hardVal E L.frob (easy6 L f)

theorem Bw6.feVal_mul (E : Bw6 P F T) (L : TargetLawful E.DT E.C) (f g : T) :
    Bw6.feVal E L (f * g) = Bw6.feVal E L f * Bw6.feVal E L g := by
  unfold Bw6.feVal; rw [easy6_mul, Bw6.hardVal_mul]

theorem Bw6.feVal_one (E : Bw6 P F T) (L : TargetLawful E.DT E.C) : Bw6.feVal E L 1 = 1 := by
  unfold Bw6.feVal; rw [easy6_one, Bw6.hardVal_one]

theorem Bw6.multiMillerLoop_prod (E : Bw6 P F T) (hS : SparseLawful E.S)
    (L : TargetLawful E.DT E.C) (l : List (Aff F × Aff F × T)) (v : T)
    (h : Bw6.multiMillerLoop E (l.map (·.1)) (l.map (·.2.1)) = .ok v)
    (hl : ∀ t ∈ l, Bw6.multiMillerLoop E [t.1] [t.2.1] = .ok t.2.2) :
    v = (l.map (·.2.2)).prod :=
  prod_lift id (Bw6.g2Prepare E) (Bw6.multiMillerLoopPrepared E) (Bw6.multi_prod E hS L) l v
    (by rw [List.map_id]; exact h) (fun t ht => hl t ht)

theorem Bw6.multiPairing_prod (E : Bw6 P F T) (hS : SparseLawful E.S)
    (L : TargetLawful E.DT E.C) (CL : CycLawful L) (hx : WF E.x) (hx3 : WF E.xMinus1Div3)
    (hconj : ∀ f, E.conj f = L.conj f)
    (hEasy : ∀ f, f ≠ 0 → easy6 L f ∈ CL.Cyc) (l : List (Aff F × Aff F × T)) (v : T)
    (h : (Bw6.engine E).multiPairing (l.map (·.1)) (l.map (·.2.1)) = .ok v)
    (hl : ∀ t ∈ l, (Bw6.engine E).pairing t.1 t.2.1 = .ok t.2.2) :
    v = (l.map (·.2.2)).prod :=
  Engine.multiPairing_prod (Bw6.engine E) (Bw6.feVal E L) (Bw6.feVal_mul E L) (Bw6.feVal_one E L)
    (fe_some_of_eq' _ _ (Bw6.fe_eq E L CL hx hx3 hconj hEasy))
    (Bw6.multiMillerLoop_prod E hS L) l v h hl

theorem Bw6.pairing_identity (E : Bw6 P F T)
    (L : TargetLawful E.DT E.C) (CL : CycLawful L) (hx : WF E.x) (hx3 : WF E.xMinus1Div3)
    (hconj : ∀ f, E.conj f = L.conj f)
    (hEasy : ∀ f, f ≠ 0 → easy6 L f ∈ CL.Cyc) (p : Aff F) (q : Aff F) (q' : Bw6G2Prepared F)
    (hq : Bw6.g2Prepare E q = .ok q') (h : p.infinity = true ∨ q.infinity = true) :
    (Bw6.engine E).pairing p q = .ok 1 := by
  have h' : p.infinity = true ∨ q'.infinity = true :=
    h.imp id (Bw6.g2Prepare_infinity E q q' hq)
  have hm : Bw6.multiMillerLoop E [p] [q] = .ok 1 := by
    unfold Bw6.multiMillerLoop
    simp only [mapO, hq, obind_ok]
    rw [Bw6.multi_cons_identity E p q' [] [] h', Bw6.multi_nil E L]
  unfold Engine.pairing Engine.multiPairing Bw6.engine
  simp only [hm, obind_ok, Bw6.fe_eq E L CL hx hx3 hconj hEasy, one_ne_zero, if_false, unwrap]
  exact congrArg _ (Bw6.feVal_one E L)

end eng6

section engMnt
variable {P F G : Type} [Zero F] [DecidableEq F] [Field G] [DecidableEq G]
  (cfg : QuadCfg G) (B : FieldD P G) (hB : BaseLawful B) (hc : QuadLawful cfg)
  (hnr : ∀ x : G, x * x ≠ cfg.nonresidue)

/-- `impl Pairing for MNT4<P>` / `MNT6<P>` -/
def Mnt.engine [Mul (Quad G)] (E : Mnt P F G) : Engine (Aff F) (Aff G) (Quad G) :=
  ⟨Mnt.multiMillerLoop E, Mnt.finalExponentiation E⟩

theorem Mnt.multiMillerLoop_prod :
    letI := Quad.commRing cfg B hB hc
    ∀ (E : Mnt P F G) (l : List (Aff F × Aff G × Quad G)) (v : Quad G),
      Mnt.multiMillerLoop E (l.map (·.1)) (l.map (·.2.1)) = .ok v →
      (∀ t ∈ l, Mnt.multiMillerLoop E [t.1] [t.2.1] = .ok t.2.2) →
      v = (l.map (·.2.2)).prod := by
  letI := Quad.commRing cfg B hB hc
  intro E l v h hl
  exact prod_lift (Mnt.g1Prepare E) (Mnt.g2Prepare E) (Mnt.multiMillerLoopPrepared E)
    (Mnt.multi_prod cfg B hB hc E) l v h (fun t ht => hl t ht)

theorem Mnt.multiPairing_prod :
    letI := Quad.field cfg B hB hc hnr
    ∀ (E : Mnt P F G) (L : TargetLawful E.DT E.C) (CL : CycLawful L)
      (_h1 : WF E.finalExponentLastChunk1) (_h0 : WF E.finalExponentLastChunkAbsOfW0)
      (_hEasy : ∀ f : Quad G, f ≠ 0 → Mnt.firstVal L E.isMnt6 f f⁻¹ ∈ CL.Cyc)
      (l : List (Aff F × Aff G × Quad G)) (v : Quad G),
      (Mnt.engine E).multiPairing (l.map (·.1)) (l.map (·.2.1)) = .ok v →
      (∀ t ∈ l, (Mnt.engine E).pairing t.1 t.2.1 = .ok t.2.2) →
      v = (l.map (·.2.2)).prod := by
  letI := Quad.field cfg B hB hc hnr
  intro E L CL h1 h0 hEasy l v h hl
  exact Engine.multiPairing_prod (Mnt.engine E)
    (Mnt.feVal L E.isMnt6 E.finalExponentLastChunkW0IsNeg (value E.finalExponentLastChunk1)
      (value E.finalExponentLastChunkAbsOfW0))
    (Mnt.feVal_mul L _ _ _ _) (Mnt.feVal_one L _ _ _ _)
    (fe_some_of_eq _ _ (Mnt.fe_eq cfg B hB hc hnr E L CL h1 h0 hEasy))
    (Mnt.multiMillerLoop_prod cfg B hB hc E) l v h hl

theorem Mnt.pairing_identity :
    letI := Quad.field cfg B hB hc hnr
    ∀ (E : Mnt P F G) (L : TargetLawful E.DT E.C) (CL : CycLawful L)
      (_h1 : WF E.finalExponentLastChunk1) (_h0 : WF E.finalExponentLastChunkAbsOfW0)
      (_hEasy : ∀ f : Quad G, f ≠ 0 → Mnt.firstVal L E.isMnt6 f f⁻¹ ∈ CL.Cyc)
      (p : Aff F) (q : Aff G) (q' : MntG2Prepared G), Mnt.g2Prepare E q = .ok q' →
      (p.infinity = true ∨ q.infinity = true) → (Mnt.engine E).pairing p q = .ok 1 := by
  letI := Quad.field cfg B hB hc hnr
  intro E L CL h1 h0 hEasy p q q' hq h
  have h' : Mnt.g1IsZero (Mnt.g1Prepare E p) = true ∨ Mnt.g2IsZero q' = true := by
    rcases h with h | h
    · exact Or.inl (Mnt.g1Prepare_infinity E p h)
    · obtain ⟨q'', hq'', hz⟩ := Mnt.g2Prepare_infinity E q h
      rw [hq] at hq''
      cases hq''
      exact Or.inr hz
  have hm : Mnt.multiMillerLoop E [p] [q] = .ok 1 := by
    unfold Mnt.multiMillerLoop
    simp only [mapO, hq, obind_ok, List.map_cons, List.map_nil]
    rw [Mnt.multi_cons_identity E _ q' [] [] h']
    rfl
  unfold Engine.pairing Engine.multiPairing Mnt.engine
  simp only [hm, obind_ok, Mnt.fe_eq cfg B hB hc hnr E L CL h1 h0 hEasy, one_ne_zero, if_false, unwrap]
  exact congrArg _ (Mnt.feVal_one L _ _ _ _)

end engMnt
section order2
variable {P F G T : Type} [Add G] [Sub G] [Mul G] [Neg G] [Field T] [DecidableEq T]

/-- the output of the BLS12 final exponentiation is killed by `r` -/
theorem Bls12.fe_order (E : Bls12 P F G T) (L : TargetLawful E.DT E.C) (CL : CycLawful L)
    (hx : WF E.x) (hEasy : ∀ f, f ≠ 0 → easy12 L f ∈ CL.Cyc) (p r : ℕ)
    (hφ : ∀ a ∈ CL.Cyc, ∀ k, L.frob k a = a ^ (p ^ k))
    (hcyc : ∀ a ∈ CL.Cyc, a ^ ((p : ℤ) ^ 4 - (p : ℤ) ^ 2 + 1) = 1)
    (hp : 3 * (p : ℤ) = (sval E.xIsNegative E.x - 1) ^ 2 *
      ((sval E.xIsNegative E.x) ^ 4 - (sval E.xIsNegative E.x) ^ 2 + 1) + 3 * sval E.xIsNegative E.x)
    (hr : (r : ℤ) = (sval E.xIsNegative E.x) ^ 4 - (sval E.xIsNegative E.x) ^ 2 + 1)
    (f out : T) (h : Bls12.finalExponentiation E f = .ok (some out)) : out ^ r = 1 := by
  rw [Bls12.fe_eq E L CL hx hEasy] at h
  by_cases hf : f = 0
  · simp [hf] at h
  · simp only [hf, if_false, Outcome.ok.injEq, Option.some.injEq] at h
    have ha := hEasy f hf
    rw [Bls12.hardVal_pow CL p hφ _ ha] at h
    rw [← h, ← zpow_natCast, ← zpow_mul, Bls12.hardExp_mul_r _ _ _ hp hr, mul_comm, zpow_mul,
      hcyc _ ha, one_zpow]

/-- the easy part as a power, when the Frobenius and the conjugation are powers on all of `T` -/
theorem easy12_pow {DT : FieldD P T} {C : CycD T} (L : TargetLawful DT C) (p : ℕ)
    (hφ : ∀ a k, L.frob k a = a ^ (p ^ k)) (hconj : ∀ a, L.conj a = a ^ (p ^ 6)) (f : T)
    (hf : f ≠ 0) : easy12 L f = f ^ (((p : ℤ) ^ 6 - 1) * ((p : ℤ) ^ 2 + 1)) := by
  unfold easy12
  rw [hφ, hconj]
  have e : f ^ p ^ 6 * f⁻¹ = f ^ ((p : ℤ) ^ 6 - 1) := by
    rw [zpow_sub_one₀ hf, ← zpow_natCast]; push_cast; rfl
  rw [e, ← zpow_natCast, ← zpow_mul, ← zpow_add₀ hf]
  congr 1; push_cast; ring

/-- **BLS12 final exponentiation as a power**: `f ↦ f ^ k` with `k · r = 3 (p¹² - 1)` -/
theorem Bls12.fe_pow (E : Bls12 P F G T) (L : TargetLawful E.DT E.C) (CL : CycLawful L)
    (hx : WF E.x) (hEasy : ∀ f, f ≠ 0 → easy12 L f ∈ CL.Cyc) (p r : ℕ)
    (hφ : ∀ a k, L.frob k a = a ^ (p ^ k)) (hconj : ∀ a, L.conj a = a ^ (p ^ 6))
    (hp : 3 * (p : ℤ) = (sval E.xIsNegative E.x - 1) ^ 2 *
      ((sval E.xIsNegative E.x) ^ 4 - (sval E.xIsNegative E.x) ^ 2 + 1) + 3 * sval E.xIsNegative E.x)
    (hr : (r : ℤ) = (sval E.xIsNegative E.x) ^ 4 - (sval E.xIsNegative E.x) ^ 2 + 1)
    (f : T) (hf : f ≠ 0) :
    Bls12.finalExponentiation E f = .ok (some (f ^
      ((((p : ℤ) ^ 6 - 1) * ((p : ℤ) ^ 2 + 1)) * Bls12.hardExp (sval E.xIsNegative E.x) p))) ∧
    ((((p : ℤ) ^ 6 - 1) * ((p : ℤ) ^ 2 + 1)) * Bls12.hardExp (sval E.xIsNegative E.x) p) * r =
      3 * ((p : ℤ) ^ 12 - 1) := by
  constructor
  · rw [Bls12.fe_eq E L CL hx hEasy, if_neg hf,
      Bls12.hardVal_pow CL p (fun a _ k => hφ a k) _ (hEasy f hf), easy12_pow L p hφ hconj f hf,
      ← zpow_mul]
  · rw [mul_assoc, Bls12.hardExp_mul_r _ _ _ hp hr]; ring

end order2
/-! ## instances of the lawfulness hypotheses -/

section primeInst
variable (F : Type) [Field F] [DecidableEq F]

/-- a prime field (or any field with the trivial Frobenius, e.g. `ℚ`) as a "target field":
    `CycD.default` (plain-bit exponentiation, `cyclotomic_inverse = inverse`) -/
def primeTarget : TargetLawful (primeD F) (CycD.default (primeD F)) where
  conj := invMonoidWithZeroHom
  frob := fun _ => MonoidWithZeroHom.id F
  square_eq := fun _ => rfl
  inverse_eq := fun _ => rfl
  frob_eq := fun _ _ => rfl
  cycInverse_eq := fun _ => rfl

/-- … whose "cyclotomic subgroup" is the whole multiplicative group -/
def primeCyc : CycLawful (primeTarget F) where
  Cyc := { carrier := {a | a ≠ 0}, mul_mem' := fun ha hb => mul_ne_zero ha hb, one_mem' := one_ne_zero }
  ne_zero := fun _ ha => ha
  conj_eq := fun _ _ => rfl
  inv_mem := fun _ ha => inv_ne_zero ha
  frob_mem := fun _ ha _ => ha
  cycSquare_eq := fun _ _ => rfl
  cycExp_eq := fun a ha e he =>
    cycExp_units (CycD.default (primeD F)) (Units.mk0 a ha) ha (fun _ => rfl) (fun h => by cases h) e he

theorem primeCyc_easy12 (f : F) (hf : f ≠ 0) : easy12 (primeTarget F) f ∈ (primeCyc F).Cyc := by
  show easy12 (primeTarget F) f ≠ 0
  simp [easy12, primeTarget, hf]

theorem primeCyc_easy6 (f : F) (hf : f ≠ 0) : easy6 (primeTarget F) f ∈ (primeCyc F).Cyc := by
  show easy6 (primeTarget F) f ≠ 0
  simp [easy6, primeTarget, hf]

/-- a degenerate target: trivial conjugation and Frobenius, trivial cyclotomic subgroup -/
def trivCycD : CycD F := ⟨false, fun a => a * a, fun a => .ok (if a = 0 then none else some a)⟩

def trivTarget : TargetLawful (primeD F) (trivCycD F) where
  conj := MonoidWithZeroHom.id F
  frob := fun _ => MonoidWithZeroHom.id F
  square_eq := fun _ => rfl
  inverse_eq := fun _ => rfl
  frob_eq := fun _ _ => rfl
  cycInverse_eq := fun _ => rfl

def trivCyc : CycLawful (trivTarget F) where
  Cyc := ⊥
  ne_zero := fun a ha => by rw [Submonoid.mem_bot.1 ha]; exact one_ne_zero
  conj_eq := fun a ha => by rw [Submonoid.mem_bot.1 ha]; simp [trivTarget]
  inv_mem := fun a ha => by rw [Submonoid.mem_bot.1 ha]; simp
  frob_mem := fun a ha _ => ha
  cycSquare_eq := fun _ _ => rfl
  cycExp_eq := fun a ha e he => by
    rw [Submonoid.mem_bot.1 ha]
    exact cycExp_units (trivCycD F) 1 one_ne_zero (fun _ => by simp [trivCycD])
      (fun h => by cases h) e he

theorem trivCyc_easy12 (f : F) (hf : f ≠ 0) : easy12 (trivTarget F) f ∈ (trivCyc F).Cyc := by
  show easy12 (trivTarget F) f ∈ (⊥ : Submonoid F)
  rw [Submonoid.mem_bot]
  simp [easy12, trivTarget, hf]

end primeInst
section quadInst
variable {P F : Type} [Field F] [DecidableEq F]
  (cfg : QuadCfg F) (B : FieldD P F) (hB : BaseLawful B) (hc : QuadLawful cfg)
  (hnr : ∀ x : F, x * x ≠ cfg.nonresidue)

/-- the conjugation of the quadratic extension is multiplicative -/
def quadConj : letI := Quad.field cfg B hB hc hnr
    Quad F →*₀ Quad F :=
  letI := Quad.field cfg B hB hc hnr
  { toFun := Quad.conj
    map_zero' := by apply Quad.ext' <;> simp [Quad.conj]
    map_one' := by apply Quad.ext' <;> simp [Quad.conj]
    map_mul' := by
      intro a b
      show Quad.conj (Quad.mul cfg B a b) = Quad.mul cfg B (Quad.conj a) (Quad.conj b)
      rw [Quad.mul_eq hB hc, Quad.mul_eq hB hc]
      apply Quad.ext' <;> simp only [Quad.conj] <;> ring }

/-- the quadratic layer of a tower (`Quad.fieldD`, `CycD.conj`) is a lawful target field as soon as its
    Frobenius maps are total and multiplicative (`Ark.C02.quad_frob_pow`, `fp4_frob_pow`, …) -/
def quadTarget (cs : Option (Quad F → Quad F))
    (fr : letI := Quad.field cfg B hB hc hnr; ℕ → Quad F →*₀ Quad F)
    (hfr : ∀ a k, Quad.frob cfg B a k = .ok (fr k a)) :
    letI := Quad.field cfg B hB hc hnr
    TargetLawful (Quad.fieldD cfg B) (CycD.conj (Quad.fieldD cfg B) cs) :=
  letI := Quad.field cfg B hB hc hnr
  { conj := quadConj cfg B hB hc hnr
    frob := fr
    square_eq := fun f => Quad.square_eq hB hc f
    inverse_eq := fun f => (Quad.fieldD_baseLawful hB hc hnr).inverse f
    frob_eq := hfr
    cycInverse_eq := by
      intro f
      show (if f.c0 = 0 ∧ f.c1 = 0 then _ else _) = _
      by_cases h : f = 0
      · rw [if_pos ((Quad.eq_zero_iff f).1 h), if_pos h]
      · rw [if_neg (fun h' => h ((Quad.eq_zero_iff f).2 h')), if_neg h]; rfl }

/-- … whose cyclotomic subgroup is the group of unitary elements (with the generic squaring) -/
def quadCyc (fr : letI := Quad.field cfg B hB hc hnr; ℕ → Quad F →*₀ Quad F)
    (hfr : ∀ a k, Quad.frob cfg B a k = .ok (fr k a))
    (hfrn : ∀ a k, Quad.norm cfg B a = 1 → Quad.norm cfg B (fr k a) = 1) :
    letI := Quad.field cfg B hB hc hnr
    CycLawful (quadTarget cfg B hB hc hnr none fr hfr) :=
  letI := Quad.field cfg B hB hc hnr
  { Cyc :=
      { carrier := {a | Quad.norm cfg B a = 1}
        mul_mem' := by
          intro a b ha hb
          show Quad.norm cfg B (Quad.mul cfg B a b) = 1
          rw [Quad.norm_mul hB hc, ha, hb, mul_one]
        one_mem' := Quad.norm_one hB hc }
    ne_zero := by
      intro a ha h
      exact Quad.ne_zero_of_norm_one hB hc a ha ((Quad.eq_zero_iff a).1 h)
    conj_eq := by
      intro a ha
      exact eq_inv_of_mul_eq_one_right (Quad.mul_conj_of_norm_one hB hc a ha)
    inv_mem := by
      intro a ha
      have : a⁻¹ = Quad.conj a :=
        (eq_inv_of_mul_eq_one_right (Quad.mul_conj_of_norm_one hB hc a ha)).symm
      show Quad.norm cfg B a⁻¹ = 1
      rw [this, Quad.norm_conj hB hc]; exact ha
    frob_mem := fun a ha k => hfrn a k ha
    cycSquare_eq := fun a _ => Quad.square_eq hB hc a
    cycExp_eq := fun a ha e he => Quad.cycExp_conj hB hc a ha e he }

theorem quadCyc_mem (fr : letI := Quad.field cfg B hB hc hnr; ℕ → Quad F →*₀ Quad F)
    (hfr : ∀ a k, Quad.frob cfg B a k = .ok (fr k a))
    (hfrn : ∀ a k, Quad.norm cfg B a = 1 → Quad.norm cfg B (fr k a) = 1) (a : Quad F) :
    letI := Quad.field cfg B hB hc hnr
    a ∈ (quadCyc cfg B hB hc hnr fr hfr hfrn).Cyc ↔ Quad.norm cfg B a = 1 := Iff.rfl

/-- `conj f · f⁻¹` is unitary -/
theorem quad_conj_mul_inv_norm (f : Quad F) (hf : f ≠ 0) :
    letI := Quad.field cfg B hB hc hnr
    Quad.norm cfg B (quadConj cfg B hB hc hnr f * f⁻¹) = 1 := by
  letI := Quad.field cfg B hB hc hnr
  have hn := Quad.norm_ne_zero hB hc hnr f hf
  have h1 : Quad.norm cfg B f * Quad.norm cfg B f⁻¹ = 1 := by
    have := Quad.norm_mul hB hc f f⁻¹
    have e : Quad.mul cfg B f f⁻¹ = 1 := mul_inv_cancel₀ hf
    rw [e, Quad.norm_one hB hc] at this
    exact this.symm
  show Quad.norm cfg B (Quad.mul cfg B (Quad.conj f) f⁻¹) = 1
  rw [Quad.norm_mul hB hc, Quad.norm_conj hB hc, h1]

end quadInst
/-! ## the indexed form of "multi = product of singles" -/

section indexed
variable {A B T : Type} [CommMonoid T]

theorem exists_triples (as : List A) (bs : List B) (hlen : as.length = bs.length) (vi : ℕ → T) :
    ∃ l : List (A × B × T), l.map (·.1) = as ∧ l.map (·.2.1) = bs ∧
      l.map (·.2.2) = (List.range as.length).map vi ∧
      ∀ t ∈ l, ∃ i, as[i]? = some t.1 ∧ bs[i]? = some t.2.1 ∧ t.2.2 = vi i := by
  induction as generalizing bs vi with
  | nil =>
    cases bs with
    | nil => exact ⟨[], rfl, rfl, rfl, by simp⟩
    | cons b bs => simp at hlen
  | cons a as ih =>
    cases bs with
    | nil => simp at hlen
    | cons b bs =>
      obtain ⟨l, h1, h2, h3, h4⟩ := ih bs (by simpa using hlen) (fun i => vi (i + 1))
      refine ⟨(a, b, vi 0) :: l, by simp [h1], by simp [h2], ?_, ?_⟩
      · rw [List.map_cons, h3, List.length_cons, List.range_succ_eq_map, List.map_cons,
          List.map_map]
        rfl
      · intro t ht
        rcases List.mem_cons.1 ht with rfl | ht
        · exact ⟨0, rfl, rfl, rfl⟩
        · obtain ⟨i, e1, e2, e3⟩ := h4 t ht
          exact ⟨i + 1, by simpa using e1, by simpa using e2, e3⟩

/-- from the list-of-triples form to the indexed form -/
theorem prod_indexed (mp : List A → List B → Outcome T)
    (hmp : ∀ (l : List (A × B × T)) (v : T), mp (l.map (·.1)) (l.map (·.2.1)) = .ok v →
      (∀ t ∈ l, mp [t.1] [t.2.1] = .ok t.2.2) → v = (l.map (·.2.2)).prod)
    (hlen : ∀ as bs v, mp as bs = .ok v → as.length = bs.length)
    (as : List A) (bs : List B) (v : T) (vi : ℕ → T) (h : mp as bs = .ok v)
    (hi : ∀ i a b, as[i]? = some a → bs[i]? = some b → mp [a] [b] = .ok (vi i)) :
    v = ((List.range as.length).map vi).prod := by
  obtain ⟨l, h1, h2, h3, h4⟩ := exists_triples as bs (hlen as bs v h) vi
  rw [← h3]
  refine hmp l v (by rw [h1, h2]; exact h) ?_
  intro t ht
  obtain ⟨i, e1, e2, e3⟩ := h4 t ht
  rw [e3]
  exact hi i _ _ e1 e2

theorem length_of_zipEq_bind {γ : Type} (k : List (A × B) → Outcome γ) (as : List A) (bs : List B)
    (v : γ) (h : (obind (zipEq as bs) k) = .ok v) : as.length = bs.length := by
  obtain ⟨zs, hz, _⟩ := obind_eq_ok.1 h
  obtain ⟨h1, h2⟩ := zipEq_ok hz
  rw [h1, h2, List.length_map, List.length_map]

end indexed

/-! ## concrete instances used by the non-vacuity examples of `Ark/Props/C06.lean` -/
namespace Ex

/-- dummy G2-coordinate dictionary over `ℚ` -/
def K : G2Field ℚ ℚ := ⟨fun x => x * x, fun x => x + x, fun g f => g * f⟩

/-- dummy line evaluations: multiplication by an element depending on the coefficients only -/
def S : SparseMul ℚ ℚ := ⟨fun f a b c => f * (a + b + c), fun f a b c => f * (a + 2 * b + 3 * c)⟩

theorem S_lawful : SparseLawful S := ⟨fun f a b c => by simp [S], fun f a b c => by simp [S]⟩

/-- a BLS12-shaped configuration over `ℚ`: `x = -3` -/
def bls : Bls12 ℚ ℚ ℚ ℚ where
  x := [3]
  xIsNegative := true
  twist := .M
  coeffB := 4
  BF := primeD ℚ
  one := 1
  K := K
  oneG := 1
  S := S
  DT := primeD ℚ
  C := CycD.default (primeD ℚ)

/-- the degenerate BLS12 parametrisation `x = 1`, `p = 1`, `r = 1` (trivial Frobenius and
    conjugation, trivial cyclotomic subgroup), for the order statement -/
def bls1 : Bls12 ℚ ℚ ℚ ℚ where
  x := [1]
  xIsNegative := false
  twist := .D
  coeffB := 4
  BF := primeD ℚ
  one := 1
  K := K
  oneG := 1
  S := S
  DT := primeD ℚ
  C := trivCycD ℚ

/-- a BN-shaped configuration over `ℚ` -/
def bn : Bn ℚ ℚ ℚ ℚ where
  x := [2]
  xIsNegative := false
  ateLoopCount := [0, 1, -1, 1]
  twist := .D
  twistMulByQX := 2
  twistMulByQY := 3
  coeffB := 3
  BF := primeD ℚ
  one := 1
  K := K
  oneG := 1
  frobG := fun g _ => .ok g
  S := S
  DT := primeD ℚ
  C := CycD.default (primeD ℚ)

/-- a BW6-shaped configuration over `ℚ` -/
def bw6 (override tmod : Bool) : Bw6 ℚ ℚ ℚ where
  x := [2]
  xIsNegative := false
  xMinus1Div3 := [1]
  ateLoopCount1 := [3]
  ateLoopCount1IsNegative := false
  ateLoopCount2 := [1, 0, -1, 1]
  ateLoopCount2IsNegative := true
  twist := .M
  hT := 13
  hY := 9
  tModRIsZero := tmod
  coeffB := 1
  BF := primeD ℚ
  one := 1
  K := K
  S := S
  DT := primeD ℚ
  C := CycD.default (primeD ℚ)
  conj := fun f => f⁻¹
  hardPartOverride := override

def pt (x y : ℚ) : Aff ℚ := ⟨x, y, false⟩
def O : Aff ℚ := Aff.identity

/-- a prepared G2 point with constant dummy coefficients (`n` of them) -/
def prep (n : Nat) (c : ℚ) : G2Prepared ℚ := ⟨List.replicate n (c, c + 1, c + 2), false⟩
def prep6 (n1 n2 : Nat) (c : ℚ) : Bw6G2Prepared ℚ :=
  ⟨List.replicate n1 (c, c + 1, c + 2), List.replicate n2 (c + 1, c, c + 3), false⟩


/-! ### the Gaussian rationals `ℚ(i) = Quad ℚ` (an honest quadratic layer: `Quad.mul`, `Quad.frob`,
    `CycD.conj`) -/

def c2 : Fp2Cfg ℚ := Fp2Cfg.default (-1) [1, -1]

theorem c2_lawful : QuadLawful c2.wrap := Fp2Cfg.default_wrap_lawful _ _

theorem c2_nonsq : ∀ x : ℚ, x * x ≠ c2.wrap.nonresidue := by
  intro x
  show x * x ≠ -1
  nlinarith [mul_self_nonneg x]

/-- the field structure of `ℚ(i)` carried by the model's operations -/
@[reducible] def fieldQi : Field (Quad ℚ) :=
  Quad.field c2.wrap (primeD ℚ) primeD_lawful c2_lawful c2_nonsq

/-- the Frobenius maps of `ℚ(i)` computed by `Quad.frob` with the table `[1, -1]`: the powers of
    the conjugation -/
def frQ : letI := fieldQi; ℕ → Quad ℚ →*₀ Quad ℚ :=
  letI := fieldQi
  fun k => if k % 2 = 0 then MonoidWithZeroHom.id _
    else quadConj c2.wrap (primeD ℚ) primeD_lawful c2_lawful c2_nonsq

theorem frQ_eq (a : Quad ℚ) (k : ℕ) : Quad.frob c2.wrap (primeD ℚ) a k = .ok (frQ k a) := by
  letI := fieldQi
  rcases Nat.mod_two_eq_zero_or_one k with h | h
  · simp only [Quad.frob, primeD, Fp2Cfg.wrap, c2, Fp2Cfg.default, obind_ok, h, index, frQ]
    simp
  · simp only [Quad.frob, primeD, Fp2Cfg.wrap, c2, Fp2Cfg.default, obind_ok, h, index, frQ]
    simp [quadConj]
    rfl

theorem frQ_norm (a : Quad ℚ) (k : ℕ) (ha : Quad.norm c2.wrap (primeD ℚ) a = 1) :
    Quad.norm c2.wrap (primeD ℚ) (frQ k a) = 1 := by
  letI := fieldQi
  unfold frQ
  split
  · exact ha
  · show Quad.norm c2.wrap (primeD ℚ) (Quad.conj a) = 1
    rw [Quad.norm_conj primeD_lawful c2_lawful]; exact ha

/-- `ℚ(i)` as a lawful target field -/
def LQi : letI := fieldQi
    TargetLawful (Quad.fieldD c2.wrap (primeD ℚ)) (CycD.conj (Quad.fieldD c2.wrap (primeD ℚ)) none) :=
  quadTarget c2.wrap (primeD ℚ) primeD_lawful c2_lawful c2_nonsq none frQ frQ_eq

/-- … with the unit circle as cyclotomic subgroup -/
def CLQi : letI := fieldQi
    CycLawful LQi :=
  quadCyc c2.wrap (primeD ℚ) primeD_lawful c2_lawful c2_nonsq frQ frQ_eq frQ_norm

/-- an MNT4-shaped configuration with `G = ℚ`, target `ℚ(i)` -/
def mnt : Mnt ℚ ℚ ℚ where
  isMnt6 := false
  twist := 2
  twistCoeffA := 3
  ateLoopCount := [1, 0, 1]
  ateIsLoopCountNeg := false
  finalExponentLastChunk1 := [1]
  finalExponentLastChunkW0IsNeg := true
  finalExponentLastChunkAbsOfW0 := [3]
  mulByFp := fun g f => g * f
  embed := fun f => f
  oneG := 1
  DG := primeD ℚ
  DT := Quad.fieldD c2.wrap (primeD ℚ)
  C := CycD.conj (Quad.fieldD c2.wrap (primeD ℚ)) none

/-- a prepared G1 / G2 point with dummy coefficients -/
def g1 (x y : ℚ) : MntG1Prepared ℚ ℚ := ⟨x, y, 2 * x, 2 * y⟩
def g2 (c : ℚ) : MntG2Prepared ℚ :=
  ⟨c, c + 1, c / 2, (c + 1) / 2, [⟨c, 1, 2, 3⟩, ⟨1, c, 3, 2⟩], [⟨c + 2, c + 3⟩]⟩

end Ex
end Ark.PairingP
