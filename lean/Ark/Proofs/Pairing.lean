import Ark.Model.Pairing
import Ark.Proofs.ExtB
import Mathlib.Tactic.Ring
import Mathlib.Tactic.LinearCombination
import Mathlib.Algebra.BigOperators.Group.List.Basic
import Mathlib.Algebra.GroupWithZero.Basic
import Mathlib.Algebra.Group.Submonoid.Basic
/-
  Ark.Proofs.Pairing — helper lemmas for C06 (`Ark/Props/C06.lean`): the algebraic skeleton of the
  pairing engines of `Ark.Model.Pairing`.

  * `AM L`: a "loop" `L : M → List α → Outcome (M × List α)` over a commutative monoid of states is
    *append-multiplicative* when running it on `ps ++ qs` from `f₁ * f₂` gives the product of the runs
    on `ps` from `f₁` and on `qs` from `f₂`.  `ellRound`, `bitLoop`, `Bn.chunkLoop`, `Bw6.chunkLoop2`
    (with state `(f_u, f_u⁻¹, f)`) are such loops as soon as squaring and the line multiplications are
    lawful; hence `chunks_mut(4)` is irrelevant and a multi Miller loop is the product of the
    single-pair Miller loops.
  * `TargetLawful` / `CycLawful`: the target-field dictionary computes the operations of a field `T`
    (everywhere: square, inverse, Frobenius, conjugation; on the cyclotomic subgroup `Cyc`:
    cyclotomic square / inverse / exponentiation).  These hypotheses are what `Ark/Props/C02a.lean` and
    `C02b.lean` establish for the concrete towers.
  * final exponentiations are then explicit monoid homomorphisms of `T`.
-/
namespace Ark.PairingP
open Ark Ark.Ext Ark.Pairing Ark.ExtB
set_option linter.unusedSectionVars false
set_option linter.style.haveILetI false

/-! ## `Outcome` plumbing -/

theorem obind_eq_ok {α β : Type} {x : Outcome α} {f : α → Outcome β} {b : β} :
    obind x f = .ok b ↔ ∃ a, x = .ok a ∧ f a = .ok b := by
  cases x with
  | ok a => simp
  | panic => simp

theorem zipEq_map {α β γ : Type} (l : List γ) (f : γ → α) (g : γ → β) :
    zipEq (l.map f) (l.map g) = .ok (l.map fun t => (f t, g t)) := by
  induction l with
  | nil => rfl
  | cons t l ih => simp [zipEq, ih]

theorem zipEq_ok {α β : Type} {as : List α} {bs : List β} {zs : List (α × β)}
    (h : zipEq as bs = .ok zs) : as = zs.map Prod.fst ∧ bs = zs.map Prod.snd := by
  induction as generalizing bs zs with
  | nil =>
    cases bs with
    | nil => simp [zipEq] at h; subst h; simp
    | cons b bs => simp [zipEq] at h
  | cons a as ih =>
    cases bs with
    | nil => simp [zipEq] at h
    | cons b bs =>
      simp only [zipEq] at h
      obtain ⟨r, hr, h⟩ := obind_eq_ok.1 h
      simp at h; subst h
      obtain ⟨h1, h2⟩ := ih hr
      simp [h1, h2]

theorem mapO_append {α β : Type} (f : α → Outcome β) (l1 l2 : List α) :
    mapO f (l1 ++ l2) = obind (mapO f l1) fun r1 => obind (mapO f l2) fun r2 => .ok (r1 ++ r2) := by
  induction l1 with
  | nil =>
    simp only [List.nil_append, mapO, obind_ok]
    cases mapO f l2 <;> simp
  | cons a l1 ih =>
    simp only [List.cons_append, mapO, ih]
    cases f a with
    | panic => simp
    | ok b =>
      simp only [obind_ok]
      cases mapO f l1 with
      | panic => simp
      | ok r1 =>
        simp only [obind_ok]
        cases mapO f l2 <;> simp

theorem mapO_map_ok {α β γ : Type} (f : α → Outcome β) (l : List γ) (g : γ → α) (h : γ → β)
    (hl : ∀ t ∈ l, f (g t) = .ok (h t)) : mapO f (l.map g) = .ok (l.map h) := by
  induction l with
  | nil => rfl
  | cons t l ih =>
    simp only [List.map_cons, mapO, hl t (List.mem_cons_self), obind_ok,
      ih (fun t ht => hl t (List.mem_cons_of_mem _ ht))]

/-! ## `chunks_mut(4)` concatenates back to the slice -/

theorem chunks4Aux_flatten {α : Type} (fuel : Nat) (l : List α) (h : l.length ≤ fuel) :
    (chunks4Aux fuel l).flatten = l := by
  induction fuel generalizing l with
  | zero =>
    have : l = [] := List.eq_nil_of_length_eq_zero (Nat.le_zero.1 h)
    subst this; rfl
  | succ n ih =>
    unfold chunks4Aux
    cases l with
    | nil => rfl
    | cons a l =>
      simp only [List.isEmpty_cons, Bool.false_eq_true, if_false, List.flatten_cons]
      rw [ih _ (by simp at h ⊢; omega), List.take_append_drop]

theorem chunks4_flatten {α : Type} (l : List α) : (chunks4 l).flatten = l :=
  chunks4Aux_flatten _ _ (Nat.le_refl _)

theorem chunks4_nil {α : Type} : chunks4 ([] : List α) = [] := rfl

theorem chunks4_singleton {α : Type} (a : α) : chunks4 [a] = [[a]] := rfl

theorem chunks4_ne_nil {α : Type} (l : List α) (h : l ≠ []) : chunks4 l ≠ [] := by
  cases l with
  | nil => exact absurd rfl h
  | cons a l => simp [chunks4, chunks4Aux]

/-! ## `product` -/

section product
variable {M : Type} [CommMonoid M]

theorem product_eq_prod (l : List M) : product l = l.prod := by
  unfold product
  rw [List.prod_eq_foldl]

end product

/-! ## append-multiplicative loops -/

section am
variable {M α : Type} [CommMonoid M]

/-- running `L` on `ps ++ qs` from `f₁ * f₂` is the product of the two separate runs -/
def AM (L : M → List α → Outcome (M × List α)) : Prop :=
  ∀ f1 f2 ps qs g1 g2 ps' qs', L f1 ps = .ok (g1, ps') → L f2 qs = .ok (g2, qs') →
    L (f1 * f2) (ps ++ qs) = .ok (g1 * g2, ps' ++ qs')

/-- sequential composition of append-multiplicative loops -/
theorem AM.comp {L1 L2 : M → List α → Outcome (M × List α)} (h1 : AM L1) (h2 : AM L2) :
    AM (fun f ps => obind (L1 f ps) fun r => L2 r.1 r.2) := by
  intro f1 f2 ps qs g1 g2 ps' qs' ha hb
  obtain ⟨⟨a1, as1⟩, ha1, ha2⟩ := obind_eq_ok.1 ha
  obtain ⟨⟨b1, bs1⟩, hb1, hb2⟩ := obind_eq_ok.1 hb
  show obind (L1 (f1 * f2) (ps ++ qs)) _ = _
  rw [h1 _ _ _ _ _ _ _ _ ha1 hb1]
  exact h2 _ _ _ _ _ _ _ _ ha2 hb2

/-- a multiplicative map of the state that does not touch the list -/
theorem AM.pure (m : M → M) (hm : ∀ a b, m (a * b) = m a * m b) :
    AM (fun f (ps : List α) => .ok (m f, ps)) := by
  intro f1 f2 ps qs g1 g2 ps' qs' ha hb
  simp only [Outcome.ok.injEq, Prod.mk.injEq] at ha hb
  obtain ⟨rfl, rfl⟩ := ha
  obtain ⟨rfl, rfl⟩ := hb
  simp [hm]

/-- chunks: the per-chunk runs from `1` multiply to the run on the concatenation -/
theorem AM.overChunks {L : M → List α → Outcome (M × List α)} (h : AM L) (h0 : L 1 [] = .ok (1, []))
    (css : List (List α)) (gs : List M) (rest : List α)
    (hc : overChunks (L 1) css = .ok (gs, rest)) :
    L 1 css.flatten = .ok (gs.prod, rest) := by
  induction css generalizing gs rest with
  | nil =>
    simp only [Pairing.overChunks, Outcome.ok.injEq, Prod.mk.injEq] at hc
    obtain ⟨rfl, rfl⟩ := hc
    simpa using h0
  | cons c cs ih =>
    simp only [Pairing.overChunks] at hc
    obtain ⟨⟨t, c'⟩, h1, hc⟩ := obind_eq_ok.1 hc
    obtain ⟨⟨ts, r⟩, h2, hc⟩ := obind_eq_ok.1 hc
    simp only [Outcome.ok.injEq, Prod.mk.injEq] at hc
    obtain ⟨rfl, rfl⟩ := hc
    have := h _ _ _ _ _ _ _ _ h1 (ih ts r h2)
    simpa using this

/-- `chunks_mut(4).enumerate()` where chunk 0 runs `L0` and the other chunks run `L 1`; `L0` absorbs
    runs of `L 1` on its right -/
theorem AM.overChunksIdx {L : M → List α → Outcome (M × List α)} (h : AM L)
    (h0 : L 1 [] = .ok (1, []))
    (L0 : List α → Outcome (M × List α))
    (hmix : ∀ ps qs g1 g2 ps' qs', L0 ps = .ok (g1, ps') → L 1 qs = .ok (g2, qs') →
      L0 (ps ++ qs) = .ok (g1 * g2, ps' ++ qs'))
    (body : Nat → List α → Outcome (M × List α))
    (hb0 : ∀ ps, body 0 ps = L0 ps) (hb : ∀ i ps, body (i + 1) ps = L 1 ps)
    (c : List α) (cs : List (List α)) (gs : List M) (rest : List α)
    (hc : Pairing.overChunksIdx body 0 (c :: cs) = .ok (gs, rest)) :
    L0 (c :: cs).flatten = .ok (gs.prod, rest) := by
  have key : ∀ (cs : List (List α)) (i : Nat),
      Pairing.overChunksIdx body (i + 1) cs = Pairing.overChunks (L 1) cs := by
    intro cs
    induction cs with
    | nil => intro i; rfl
    | cons c cs ih =>
      intro i
      simp only [Pairing.overChunksIdx, Pairing.overChunks, hb, ih]
  simp only [Pairing.overChunksIdx, key, hb0] at hc
  obtain ⟨⟨t, c'⟩, h1, hc⟩ := obind_eq_ok.1 hc
  obtain ⟨⟨ts, r⟩, h2, hc⟩ := obind_eq_ok.1 hc
  simp only [Outcome.ok.injEq, Prod.mk.injEq] at hc
  obtain ⟨rfl, rfl⟩ := hc
  have := hmix _ _ _ _ _ _ h1 (h.overChunks h0 cs ts r h2)
  simpa using this

/-- the value computed by an append-multiplicative loop started from `1` -/
def AM.core (L : M → List α → Outcome (M × List α)) (k : List α) : Outcome M :=
  obind (L 1 k) fun r => .ok r.1

theorem AM.core_nil {L : M → List α → Outcome (M × List α)} (h0 : L 1 [] = .ok (1, [])) :
    AM.core L [] = .ok 1 := by
  simp [AM.core, h0]

theorem AM.core_append {L : M → List α → Outcome (M × List α)} (h : AM L)
    (k1 k2 : List α) (v1 v2 : M) (h1 : AM.core L k1 = .ok v1) (h2 : AM.core L k2 = .ok v2) :
    AM.core L (k1 ++ k2) = .ok (v1 * v2) := by
  unfold AM.core at h1 h2 ⊢
  obtain ⟨⟨g1, r1⟩, ha, h1⟩ := obind_eq_ok.1 h1
  obtain ⟨⟨g2, r2⟩, hb, h2⟩ := obind_eq_ok.1 h2
  simp only [Outcome.ok.injEq] at h1 h2
  subst h1 h2
  have := h _ _ _ _ _ _ _ _ ha hb
  rw [one_mul] at this
  rw [this]
  rfl

end am

/-! ## line evaluations and the shared loops -/

section loops
variable {F G T : Type} [CommMonoid T]

/-- `ell` multiplies `f` by a line value that does not depend on `f` (and panics independently of
    `f`) -/
def EllLawful (ell : T → EllCoeff G → Aff F → Outcome T) : Prop :=
  ∀ f c p, ell f c p = obind (ell 1 c p) fun l => .ok (f * l)

theorem EllLawful.mul_left {ell : T → EllCoeff G → Aff F → Outcome T} (h : EllLawful ell)
    {f g : T} {c : EllCoeff G} {p : Aff F} (k : T) (he : ell f c p = .ok g) :
    ell (k * f) c p = .ok (k * g) := by
  rw [h] at he
  obtain ⟨l, hl, he⟩ := obind_eq_ok.1 he
  simp only [Outcome.ok.injEq] at he
  subst he
  rw [h, hl]
  simp [mul_assoc]

theorem ellRound_mul_left {ell : T → EllCoeff G → Aff F → Outcome T} (h : EllLawful ell)
    (k : T) (ps : List (MPair F G)) (f g : T) (ps' : List (MPair F G))
    (he : ellRound ell f ps = .ok (g, ps')) :
    ellRound ell (k * f) ps = .ok (k * g, ps') := by
  induction ps generalizing f g ps' with
  | nil =>
    simp only [ellRound, Outcome.ok.injEq, Prod.mk.injEq] at he ⊢
    obtain ⟨rfl, rfl⟩ := he
    exact ⟨rfl, rfl⟩
  | cons pc rest ih =>
    obtain ⟨p, cs⟩ := pc
    cases cs with
    | nil => simp [ellRound] at he
    | cons c cs' =>
      simp only [ellRound] at he ⊢
      obtain ⟨f', h1, he⟩ := obind_eq_ok.1 he
      obtain ⟨⟨g', rest'⟩, h2, he⟩ := obind_eq_ok.1 he
      simp only [Outcome.ok.injEq, Prod.mk.injEq] at he
      obtain ⟨rfl, rfl⟩ := he
      rw [h.mul_left k h1]
      simp only [obind_ok]
      rw [ih _ _ _ h2]
      rfl

theorem ellRound_AM {ell : T → EllCoeff G → Aff F → Outcome T} (h : EllLawful ell) :
    AM (ellRound ell) := by
  intro f1 f2 ps
  induction ps generalizing f1 f2 with
  | nil =>
    intro qs g1 g2 ps' qs' ha hb
    simp only [ellRound, Outcome.ok.injEq, Prod.mk.injEq] at ha
    obtain ⟨rfl, rfl⟩ := ha
    simpa using ellRound_mul_left h f1 qs f2 g2 qs' hb
  | cons pc rest ih =>
    intro qs g1 g2 ps' qs' ha hb
    obtain ⟨p, cs⟩ := pc
    cases cs with
    | nil => simp [ellRound] at ha
    | cons c cs' =>
      simp only [ellRound, List.cons_append] at ha ⊢
      obtain ⟨f', h1, ha⟩ := obind_eq_ok.1 ha
      obtain ⟨⟨g', rest'⟩, h2, ha⟩ := obind_eq_ok.1 ha
      simp only [Outcome.ok.injEq, Prod.mk.injEq] at ha
      obtain ⟨rfl, rfl⟩ := ha
      have h3 : ell (f1 * f2) c p = .ok (f' * f2) := by
        rw [mul_comm f1 f2, h.mul_left f2 h1, mul_comm]
      rw [h3]
      simp only [obind_ok]
      rw [ih _ _ _ _ _ _ _ h2 hb]
      rfl

/-- the double-and-add loop of BLS12 and of the first loop of BW6 -/
theorem bitLoop_AM {square : T → T} {ell : T → EllCoeff G → Aff F → Outcome T}
    (hs : ∀ a b, square (a * b) = square a * square b) (h : EllLawful ell) (bits : List Bool) :
    AM (bitLoop square ell bits) := by
  induction bits with
  | nil =>
    intro f1 f2 ps qs g1 g2 ps' qs' ha hb
    simp only [bitLoop, Outcome.ok.injEq, Prod.mk.injEq] at ha hb ⊢
    obtain ⟨rfl, rfl⟩ := ha
    obtain ⟨rfl, rfl⟩ := hb
    exact ⟨rfl, rfl⟩
  | cons i bits ih =>
    have hE := ellRound_AM h
    intro f1 f2 ps qs g1 g2 ps' qs' ha hb
    simp only [bitLoop] at ha hb ⊢
    obtain ⟨⟨a1, as1⟩, ha1, ha⟩ := obind_eq_ok.1 ha
    obtain ⟨⟨b1, bs1⟩, hb1, hb⟩ := obind_eq_ok.1 hb
    rw [hs, hE _ _ _ _ _ _ _ _ ha1 hb1]
    simp only [obind_ok]
    cases i with
    | false =>
      simp only [Bool.false_eq_true, if_false] at ha hb ⊢
      exact ih _ _ _ _ _ _ _ _ ha hb
    | true =>
      simp only [if_true] at ha hb ⊢
      obtain ⟨⟨a2, as2⟩, ha2, ha⟩ := obind_eq_ok.1 ha
      obtain ⟨⟨b2, bs2⟩, hb2, hb⟩ := obind_eq_ok.1 hb
      rw [hE _ _ _ _ _ _ _ _ ha2 hb2]
      simp only [obind_ok]
      exact ih _ _ _ _ _ _ _ _ ha hb

theorem bitLoop_one_nil {square : T → T} (ell : T → EllCoeff G → Aff F → Outcome T)
    (hs1 : square 1 = 1) (bits : List Bool) :
    bitLoop square ell bits 1 [] = .ok (1, []) := by
  induction bits with
  | nil => rfl
  | cons i bits ih =>
    cases i <;> simp [bitLoop, ellRound, hs1, ih]

end loops

/-! ## lawfulness of the target-field dictionaries -/

section lawful
variable {P G T : Type} [Field T] [DecidableEq T]

/-- the sparse multiplications are multiplications by an element that depends on the three
    coefficients only (`Ark.C02.fp12_mulBy014_eq_mul`, `fp12_mulBy034_eq_mul`,
    `fp6a_mulBy014_eq_mul`, `fp6a_mulBy034_eq_mul`) -/
structure SparseLawful (S : SparseMul G T) : Prop where
  mulBy014 : ∀ f a b c, S.mulBy014 f a b c = f * S.mulBy014 1 a b c
  mulBy034 : ∀ f a b c, S.mulBy034 f a b c = f * S.mulBy034 1 a b c

/-- the dictionaries `DT`, `C` of the target field compute, on *all* of `T`: the square, the inverse,
    the Frobenius maps (multiplicative, total), and `cyclotomic_inverse` is a multiplicative map
    `conj` (the conjugation of the quadratic extension for `CycD.conj`, the inverse for
    `CycD.default`) guarded by the zero test -/
structure TargetLawful (DT : FieldD P T) (C : CycD T) where
  conj : T →*₀ T
  frob : ℕ → T →*₀ T
  square_eq : ∀ f, DT.square f = f * f
  inverse_eq : ∀ f, DT.inverse f = .ok (if f = 0 then none else some f⁻¹)
  frob_eq : ∀ f k, DT.frob f k = .ok (frob k f)
  cycInverse_eq : ∀ f, C.cycInverse f = .ok (if f = 0 then none else some (conj f))

variable {DT : FieldD P T} {C : CycD T}

theorem TargetLawful.cycInvInPlace_eq (L : TargetLawful DT C) (f : T) :
    cycInvInPlace C f = .ok (L.conj f) := by
  unfold cycInvInPlace
  rw [L.cycInverse_eq]
  by_cases h : f = 0
  · subst h; simp
  · simp [h]

theorem TargetLawful.invUnwrap_cycInverse (L : TargetLawful DT C) (f : T) :
    invUnwrap C.cycInverse f = if f = 0 then .panic else .ok (L.conj f) := by
  unfold invUnwrap
  rw [L.cycInverse_eq]
  by_cases h : f = 0
  · subst h; simp [unwrap]
  · simp [h, unwrap]

theorem TargetLawful.invUnwrap_inverse (L : TargetLawful DT C) (f : T) :
    invUnwrap DT.inverse f = if f = 0 then .panic else .ok f⁻¹ := by
  unfold invUnwrap
  rw [L.inverse_eq]
  by_cases h : f = 0
  · subst h; simp [unwrap]
  · simp [h, unwrap]

theorem TargetLawful.square_mul (L : TargetLawful DT C) (a b : T) :
    DT.square (a * b) = DT.square a * DT.square b := by
  simp only [L.square_eq]; ring

/-- the cyclotomic subgroup: where `cyclotomic_square` squares, `conj` inverts and `cyclotomic_exp`
    exponentiates (`Ark.C02.quad_cyc_exp`, `fp12_cyc_exp_of_cyclotomic`, `cyc_inverse_unitary_inv`) -/
structure CycLawful (L : TargetLawful DT C) where
  Cyc : Submonoid T
  ne_zero : ∀ a ∈ Cyc, a ≠ 0
  conj_eq : ∀ a ∈ Cyc, L.conj a = a⁻¹
  inv_mem : ∀ a ∈ Cyc, a⁻¹ ∈ Cyc
  frob_mem : ∀ a ∈ Cyc, ∀ k, L.frob k a ∈ Cyc
  cycSquare_eq : ∀ a ∈ Cyc, C.cycSquare a = a * a
  cycExp_eq : ∀ a ∈ Cyc, ∀ e, WF e → cycExp C a e = .ok (a ^ value e)

end lawful

/-! ## the generic "multi = product of singles" argument -/

section generic
variable {A B Z T : Type} [CommMonoid T]

theorem filterMap_eq_flatMap (sel : A → Option Z) (l : List A) :
    l.filterMap sel = l.flatMap fun z => [z].filterMap sel := by
  induction l with
  | nil => rfl
  | cons a l ih =>
    rw [List.flatMap_cons, ← ih]
    cases h : sel a <;> simp [h]

theorem filter_eq_flatMap (p : A → Bool) (l : List A) :
    l.filter p = l.flatMap fun z => [z].filter p := by
  induction l with
  | nil => rfl
  | cons a l ih =>
    rw [List.flatMap_cons, ← ih]
    cases h : p a <;> simp [h]

/-- if `core` sends `[]` to `1` and concatenation to products, then `core` of the concatenation of the
    per-pair selections is the product of the per-pair values -/
theorem core_prod (core : List Z → Outcome T) (pick : A × B → List Z)
    (h0 : core [] = .ok 1)
    (hmul : ∀ k1 k2 v1 v2, core k1 = .ok v1 → core k2 = .ok v2 → core (k1 ++ k2) = .ok (v1 * v2))
    (l : List (A × B × T)) (hl : ∀ t ∈ l, core (pick (t.1, t.2.1)) = .ok t.2.2) :
    core ((l.map fun t => (t.1, t.2.1)).flatMap pick) = .ok (l.map (·.2.2)).prod := by
  induction l with
  | nil => simpa using h0
  | cons t l ih =>
    simp only [List.map_cons, List.flatMap_cons, List.prod_cons]
    exact hmul _ _ _ _ (hl t (List.mem_cons_self))
      (ih fun t ht => hl t (List.mem_cons_of_mem _ ht))

end generic

/-! ## BLS12 -/

section bls12
variable {P F G T : Type} [Add G] [Sub G] [Mul G] [Neg G] [Field T] [DecidableEq T]

theorem ellXY_lawful {K : G2Field F G} {S : SparseMul G T} (hS : SparseLawful S) (tw : Twist)
    (f : T) (c : EllCoeff G) (px py : F) :
    ellXY K S tw f c px py = f * ellXY K S tw 1 c px py := by
  cases tw
  · simp only [ellXY]; exact hS.mulBy014 _ _ _ _
  · simp only [ellXY]; exact hS.mulBy034 _ _ _ _

theorem Bls12.ell_lawful (E : Bls12 P F G T) (hS : SparseLawful E.S) : EllLawful (Bls12.ell E) := by
  intro f c p
  unfold Bls12.ell
  cases h : unwrap p.xy with
  | panic => simp
  | ok xy =>
    obtain ⟨px, py⟩ := xy
    simp only [obind_ok]
    rw [ellXY_lawful hS]

/-- the selection of the non-identity pairs -/
def Bls12.sel (z : Aff F × G2Prepared G) : Option (MPair F G) :=
  if !z.1.infinity && !z.2.infinity then some (z.1, z.2.ellCoeffs) else none

/-- `multi_miller_loop` without `chunks_mut(4)`: one loop over all the kept pairs -/
def Bls12.flat (E : Bls12 P F G T) (pairs : List (MPair F G)) : Outcome T :=
  obind (bitLoop E.DT.square (Bls12.ell E) ((bitsBENoLeadingZeros E.x).drop 1) 1 pairs) fun r =>
  if E.xIsNegative then cycInvInPlace E.C r.1 else .ok r.1

/-- … and with them (as in the Rust code) -/
def Bls12.chunked (E : Bls12 P F G T) (pairs : List (MPair F G)) : Outcome T :=
  obind (overChunks (fun ps => bitLoop E.DT.square (Bls12.ell E) ((bitsBENoLeadingZeros E.x).drop 1) 1 ps)
    (chunks4 pairs)) fun r =>
  if E.xIsNegative then cycInvInPlace E.C (product r.1) else .ok (product r.1)

theorem Bls12.multi_eq (E : Bls12 P F G T) (a : List (Aff F)) (b : List (G2Prepared G)) :
    Bls12.multiMillerLoopPrepared E a b =
      obind (zipEq a b) fun zs => Bls12.chunked E (zs.filterMap Bls12.sel) := rfl

variable (E : Bls12 P F G T) (hS : SparseLawful E.S) (L : TargetLawful E.DT E.C)
include hS L

theorem Bls12.flat_of_chunked (pairs : List (MPair F G)) (v : T)
    (h : Bls12.chunked E pairs = .ok v) : Bls12.flat E pairs = .ok v := by
  unfold Bls12.chunked at h
  obtain ⟨⟨fs, rest⟩, h1, h⟩ := obind_eq_ok.1 h
  have hAM := bitLoop_AM (L.square_mul) (Bls12.ell_lawful E hS) ((bitsBENoLeadingZeros E.x).drop 1)
  have h2 := hAM.overChunks (bitLoop_one_nil _ (by rw [L.square_eq]; simp) _) _ _ _ h1
  rw [chunks4_flatten] at h2
  unfold Bls12.flat
  rw [h2]
  simpa [product_eq_prod] using h

theorem Bls12.flat_nil : Bls12.flat E [] = .ok 1 := by
  unfold Bls12.flat
  rw [bitLoop_one_nil _ (by rw [L.square_eq]; simp)]
  simp only [obind_ok]
  split
  · rw [L.cycInvInPlace_eq]; simp
  · rfl

theorem Bls12.flat_append (k1 k2 : List (MPair F G)) (v1 v2 : T)
    (h1 : Bls12.flat E k1 = .ok v1) (h2 : Bls12.flat E k2 = .ok v2) :
    Bls12.flat E (k1 ++ k2) = .ok (v1 * v2) := by
  unfold Bls12.flat at h1 h2 ⊢
  obtain ⟨⟨g1, r1⟩, ha, h1⟩ := obind_eq_ok.1 h1
  obtain ⟨⟨g2, r2⟩, hb, h2⟩ := obind_eq_ok.1 h2
  have hAM := bitLoop_AM (L.square_mul) (Bls12.ell_lawful E hS) ((bitsBENoLeadingZeros E.x).drop 1)
  have := hAM _ _ _ _ _ _ _ _ ha hb
  rw [one_mul] at this
  rw [this]
  simp only [obind_ok] at h1 h2 ⊢
  cases hneg : E.xIsNegative
  · simp only [hneg, Bool.false_eq_true, if_false, Outcome.ok.injEq] at h1 h2 ⊢
    rw [← h1, ← h2]
  · simp only [hneg, if_true, L.cycInvInPlace_eq, Outcome.ok.injEq] at h1 h2 ⊢
    rw [← h1, ← h2, map_mul]

/-- multi Miller loop = product of the single Miller loops (BLS12) -/
theorem Bls12.multi_prod (l : List (Aff F × G2Prepared G × T)) (v : T)
    (h : Bls12.multiMillerLoopPrepared E (l.map (·.1)) (l.map (·.2.1)) = .ok v)
    (hl : ∀ t ∈ l, Bls12.multiMillerLoopPrepared E [t.1] [t.2.1] = .ok t.2.2) :
    v = (l.map (·.2.2)).prod := by
  rw [Bls12.multi_eq, zipEq_map] at h
  simp only [obind_ok] at h
  have h' := Bls12.flat_of_chunked E hS L _ _ h
  rw [filterMap_eq_flatMap] at h'
  have := core_prod (Bls12.flat E) (fun z => [z].filterMap Bls12.sel) (Bls12.flat_nil E hS L)
    (Bls12.flat_append E hS L) l (by
      intro t ht
      have := hl t ht
      rw [Bls12.multi_eq] at this
      simp only [zipEq, obind_ok] at this
      exact Bls12.flat_of_chunked E hS L _ _ this)
  rw [this] at h'
  exact (Outcome.ok.inj h').symm

end bls12

/-! ## BN -/

section bn
variable {P F G T : Type} [Add G] [Sub G] [Mul G] [Neg G] [Field T] [DecidableEq T]

theorem Bn.ell_lawful (E : Bn P F G T) (hS : SparseLawful E.S) : EllLawful (Bn.ell E) := by
  intro f c p
  unfold Bn.ell
  simp only [obind_ok]
  rw [ellXY_lawful hS]

theorem Bn.chunkLoop_AM (E : Bn P F G T) (hS : SparseLawful E.S) (L : TargetLawful E.DT E.C)
    (ds : List (Bool × Int)) : AM (Bn.chunkLoop E ds) := by
  induction ds with
  | nil =>
    intro f1 f2 ps qs g1 g2 ps' qs' ha hb
    simp only [Bn.chunkLoop, Outcome.ok.injEq, Prod.mk.injEq] at ha hb ⊢
    obtain ⟨rfl, rfl⟩ := ha
    obtain ⟨rfl, rfl⟩ := hb
    exact ⟨rfl, rfl⟩
  | cons d ds ih =>
    obtain ⟨first, bit⟩ := d
    have hE := ellRound_AM (Bn.ell_lawful E hS)
    intro f1 f2 ps qs g1 g2 ps' qs' ha hb
    simp only [Bn.chunkLoop] at ha hb ⊢
    obtain ⟨⟨a1, as1⟩, ha1, ha⟩ := obind_eq_ok.1 ha
    obtain ⟨⟨b1, bs1⟩, hb1, hb⟩ := obind_eq_ok.1 hb
    have hsq : (if (!first) = true then E.DT.square (f1 * f2) else f1 * f2) =
        (if (!first) = true then E.DT.square f1 else f1) *
          (if (!first) = true then E.DT.square f2 else f2) := by
      cases first <;> simp [L.square_mul]
    rw [hsq, hE _ _ _ _ _ _ _ _ ha1 hb1]
    simp only [obind_ok]
    by_cases hbit : bit = 1 ∨ bit = -1
    · simp only [hbit, if_true] at ha hb ⊢
      obtain ⟨⟨a2, as2⟩, ha2, ha⟩ := obind_eq_ok.1 ha
      obtain ⟨⟨b2, bs2⟩, hb2, hb⟩ := obind_eq_ok.1 hb
      rw [hE _ _ _ _ _ _ _ _ ha2 hb2]
      simp only [obind_ok]
      exact ih _ _ _ _ _ _ _ _ ha hb
    · simp only [hbit, if_false] at ha hb ⊢
      exact ih _ _ _ _ _ _ _ _ ha hb

theorem Bn.chunkLoop_one_nil (E : Bn P F G T) (L : TargetLawful E.DT E.C) (ds : List (Bool × Int)) :
    Bn.chunkLoop E ds 1 [] = .ok (1, []) := by
  induction ds with
  | nil => rfl
  | cons d ds ih =>
    obtain ⟨first, bit⟩ := d
    have h1 : (if (!first) = true then E.DT.square (1 : T) else 1) = 1 := by
      cases first <;> simp [L.square_eq]
    simp only [Bn.chunkLoop, h1, ellRound, obind_ok, ih, ite_self]

/-- the sign adjustment after the main loop -/
def Bn.post (E : Bn P F G T) (L : TargetLawful E.DT E.C) (f : T) : T :=
  if E.xIsNegative then L.conj f else f

theorem Bn.post_eq (E : Bn P F G T) (L : TargetLawful E.DT E.C) (f : T) :
    (if E.xIsNegative then cycInvInPlace E.C f else .ok f) = .ok (Bn.post E L f) := by
  unfold Bn.post
  cases E.xIsNegative <;> simp [L.cycInvInPlace_eq]

theorem Bn.post_mul (E : Bn P F G T) (L : TargetLawful E.DT E.C) (a b : T) :
    Bn.post E L (a * b) = Bn.post E L a * Bn.post E L b := by
  unfold Bn.post
  cases E.xIsNegative <;> simp

/-- everything after `zip_eq` / `filter_map`, without `chunks_mut(4)`, as a loop -/
def Bn.flatLoop (E : Bn P F G T) (L : TargetLawful E.DT E.C) (f : T) (ps : List (MPair F G)) :
    Outcome (T × List (MPair F G)) :=
  obind (Bn.chunkLoop E (revDigits E.ateLoopCount) f ps) fun r =>
  obind (Outcome.ok (Bn.post E L r.1, r.2)) fun r =>
  obind (ellRound (Bn.ell E) r.1 r.2) fun r => ellRound (Bn.ell E) r.1 r.2

theorem Bn.flatLoop_AM (E : Bn P F G T) (hS : SparseLawful E.S) (L : TargetLawful E.DT E.C) :
    AM (Bn.flatLoop E L) :=
  (Bn.chunkLoop_AM E hS L _).comp
    ((AM.pure (Bn.post E L) (Bn.post_mul E L)).comp
      ((ellRound_AM (Bn.ell_lawful E hS)).comp (ellRound_AM (Bn.ell_lawful E hS))))

theorem Bn.flatLoop_one_nil (E : Bn P F G T) (L : TargetLawful E.DT E.C) :
    Bn.flatLoop E L 1 [] = .ok (1, []) := by
  unfold Bn.flatLoop
  rw [Bn.chunkLoop_one_nil E L]
  have : Bn.post E L 1 = 1 := by unfold Bn.post; cases E.xIsNegative <;> simp
  simp [ellRound, this]

def Bn.sel (z : Aff F × G2Prepared G) : Option (MPair F G) :=
  if !z.1.infinity && !z.2.infinity then some (z.1, z.2.ellCoeffs) else none

def Bn.chunked (E : Bn P F G T) (pairs : List (MPair F G)) : Outcome T :=
  obind (overChunks (fun ps => Bn.chunkLoop E (revDigits E.ateLoopCount) 1 ps) (chunks4 pairs))
    fun (fs, pairs) =>
  let f := product fs
  obind (if E.xIsNegative then cycInvInPlace E.C f else .ok f) fun f =>
  obind (ellRound (Bn.ell E) f pairs) fun (f, pairs) =>
  obind (ellRound (Bn.ell E) f pairs) fun (f, _) =>
  .ok f

theorem Bn.multi_eq (E : Bn P F G T) (a : List (Aff F)) (b : List (G2Prepared G)) :
    Bn.multiMillerLoopPrepared E a b =
      obind (zipEq a b) fun zs => Bn.chunked E (zs.filterMap Bn.sel) := rfl

theorem Bn.flat_of_chunked (E : Bn P F G T) (hS : SparseLawful E.S) (L : TargetLawful E.DT E.C)
    (pairs : List (MPair F G)) (v : T)
    (h : Bn.chunked E pairs = .ok v) : AM.core (Bn.flatLoop E L) pairs = .ok v := by
  unfold Bn.chunked at h
  obtain ⟨⟨fs, rest⟩, h1, h⟩ := obind_eq_ok.1 h
  have h2 := (Bn.chunkLoop_AM E hS L (revDigits E.ateLoopCount)).overChunks
    (Bn.chunkLoop_one_nil E L _) _ _ _ h1
  rw [chunks4_flatten] at h2
  unfold AM.core Bn.flatLoop
  rw [h2]
  simp only [obind_ok]
  simp only [Bn.post_eq E L, obind_ok, product_eq_prod] at h
  obtain ⟨⟨a1, r1⟩, ha, h⟩ := obind_eq_ok.1 h
  obtain ⟨⟨a2, r2⟩, hb, h⟩ := obind_eq_ok.1 h
  rw [ha]
  simp only [obind_ok]
  rw [hb]
  exact h

/-- multi Miller loop = product of the single Miller loops (BN) -/
theorem Bn.multi_prod (E : Bn P F G T) (hS : SparseLawful E.S) (L : TargetLawful E.DT E.C)
    (l : List (Aff F × G2Prepared G × T)) (v : T)
    (h : Bn.multiMillerLoopPrepared E (l.map (·.1)) (l.map (·.2.1)) = .ok v)
    (hl : ∀ t ∈ l, Bn.multiMillerLoopPrepared E [t.1] [t.2.1] = .ok t.2.2) :
    v = (l.map (·.2.2)).prod := by
  rw [Bn.multi_eq, zipEq_map] at h
  simp only [obind_ok] at h
  have h' := Bn.flat_of_chunked E hS L _ _ h
  rw [filterMap_eq_flatMap] at h'
  have := core_prod (AM.core (Bn.flatLoop E L)) (fun z => [z].filterMap Bn.sel)
    (AM.core_nil (Bn.flatLoop_one_nil E L))
    (AM.core_append (Bn.flatLoop_AM E hS L)) l (by
      intro t ht
      have := hl t ht
      rw [Bn.multi_eq] at this
      simp only [zipEq, obind_ok] at this
      exact Bn.flat_of_chunked E hS L _ _ this)
  rw [this] at h'
  exact (Outcome.ok.inj h').symm

end bn

/-! ## BW6 -/

section bw6
variable {P F T : Type} [Add F] [Sub F] [Mul F] [Neg F] [Field T] [DecidableEq T]

theorem Bw6.ell_lawful (E : Bw6 P F T) (hS : SparseLawful E.S) : EllLawful (Bw6.ell E) := by
  intro f c p
  unfold Bw6.ell
  simp only [obind_ok]
  rw [ellXY_lawful hS]

/-- the second loop is append-multiplicative jointly in `(f_u, f_u⁻¹, f)` -/
theorem Bw6.chunkLoop2_mul (E : Bw6 P F T) (hS : SparseLawful E.S) (L : TargetLawful E.DT E.C)
    (ds : List (Bool × Int)) (u1 u1' u2 u2' : T) :
    ∀ f1 f2 ps qs g1 g2 ps' qs', Bw6.chunkLoop2 E u1 u1' ds f1 ps = .ok (g1, ps') →
      Bw6.chunkLoop2 E u2 u2' ds f2 qs = .ok (g2, qs') →
      Bw6.chunkLoop2 E (u1 * u2) (u1' * u2') ds (f1 * f2) (ps ++ qs) = .ok (g1 * g2, ps' ++ qs') := by
  induction ds with
  | nil =>
    intro f1 f2 ps qs g1 g2 ps' qs' ha hb
    simp only [Bw6.chunkLoop2, Outcome.ok.injEq, Prod.mk.injEq] at ha hb ⊢
    obtain ⟨rfl, rfl⟩ := ha
    obtain ⟨rfl, rfl⟩ := hb
    exact ⟨rfl, rfl⟩
  | cons d ds ih =>
    obtain ⟨first, bit⟩ := d
    have hE := ellRound_AM (Bw6.ell_lawful E hS)
    intro f1 f2 ps qs g1 g2 ps' qs' ha hb
    simp only [Bw6.chunkLoop2] at ha hb ⊢
    obtain ⟨⟨a1, as1⟩, ha1, ha⟩ := obind_eq_ok.1 ha
    obtain ⟨⟨b1, bs1⟩, hb1, hb⟩ := obind_eq_ok.1 hb
    rw [L.square_mul, hE _ _ _ _ _ _ _ _ ha1 hb1]
    simp only [obind_ok]
    by_cases h1 : bit = 1
    · simp only [h1, if_true] at ha hb ⊢
      obtain ⟨⟨a2, as2⟩, ha2, ha⟩ := obind_eq_ok.1 ha
      obtain ⟨⟨b2, bs2⟩, hb2, hb⟩ := obind_eq_ok.1 hb
      rw [mul_mul_mul_comm a1 b1 u1 u2, hE _ _ _ _ _ _ _ _ ha2 hb2]
      simp only [obind_ok]
      exact ih _ _ _ _ _ _ _ _ ha hb
    · by_cases h2 : bit = -1
      · simp only [h2, if_true] at ha hb ⊢
        obtain ⟨⟨a2, as2⟩, ha2, ha⟩ := obind_eq_ok.1 ha
        obtain ⟨⟨b2, bs2⟩, hb2, hb⟩ := obind_eq_ok.1 hb
        rw [mul_mul_mul_comm a1 b1 u1' u2', hE _ _ _ _ _ _ _ _ ha2 hb2]
        simp only [obind_ok]
        exact ih _ _ _ _ _ _ _ _ ha hb
      · simp only [h1, h2, if_false] at ha hb ⊢
        exact ih _ _ _ _ _ _ _ _ ha hb

theorem Bw6.chunkLoop2_one_AM (E : Bw6 P F T) (hS : SparseLawful E.S) (L : TargetLawful E.DT E.C)
    (ds : List (Bool × Int)) : AM (Bw6.chunkLoop2 E 1 1 ds) := by
  intro f1 f2 ps qs g1 g2 ps' qs' ha hb
  have := Bw6.chunkLoop2_mul E hS L ds 1 1 1 1 _ _ _ _ _ _ _ _ ha hb
  simpa using this

theorem Bw6.chunkLoop2_one_nil (E : Bw6 P F T) (L : TargetLawful E.DT E.C) (ds : List (Bool × Int)) :
    Bw6.chunkLoop2 E 1 1 ds 1 [] = .ok (1, []) := by
  induction ds with
  | nil => rfl
  | cons d ds ih =>
    obtain ⟨first, bit⟩ := d
    simp only [Bw6.chunkLoop2, L.square_eq, mul_one, ellRound, obind_ok, ih, ite_self]

/-- `f_u`, `f_u_inv` from the product of the first loop -/
def Bw6.invStep (E : Bw6 P F T) (fU : T) : Outcome (T × T) :=
  if E.ateLoopCount1IsNegative then
    obind (cycInvInPlace E.C fU) fun g => .ok (g, fU)
  else
    obind (invUnwrap E.C.cycInverse fU) fun g => .ok (fU, g)

theorem Bw6.invStep_eq (E : Bw6 P F T) (L : TargetLawful E.DT E.C) (f : T) :
    Bw6.invStep E f = if E.ateLoopCount1IsNegative then .ok (L.conj f, f)
      else if f = 0 then .panic else .ok (f, L.conj f) := by
  unfold Bw6.invStep
  rw [L.cycInvInPlace_eq, L.invUnwrap_cycInverse]
  cases E.ateLoopCount1IsNegative
  · by_cases h : f = 0 <;> simp [h]
  · simp

theorem Bw6.invStep_mul (E : Bw6 P F T) (L : TargetLawful E.DT E.C) (f1 f2 u1 u1' u2 u2' : T)
    (h1 : Bw6.invStep E f1 = .ok (u1, u1')) (h2 : Bw6.invStep E f2 = .ok (u2, u2')) :
    Bw6.invStep E (f1 * f2) = .ok (u1 * u2, u1' * u2') := by
  rw [Bw6.invStep_eq E L] at h1 h2 ⊢
  cases hn : E.ateLoopCount1IsNegative
  · simp only [hn, Bool.false_eq_true, if_false] at h1 h2 ⊢
    by_cases hf1 : f1 = 0
    · simp [hf1] at h1
    by_cases hf2 : f2 = 0
    · simp [hf2] at h2
    simp only [hf1, hf2, if_false, Outcome.ok.injEq, Prod.mk.injEq] at h1 h2
    obtain ⟨rfl, rfl⟩ := h1
    obtain ⟨rfl, rfl⟩ := h2
    simp [hf1, hf2]
  · simp only [hn, if_true, Outcome.ok.injEq, Prod.mk.injEq] at h1 h2 ⊢
    obtain ⟨rfl, rfl⟩ := h1
    obtain ⟨rfl, rfl⟩ := h2
    simp

theorem Bw6.invStep_one (E : Bw6 P F T) (L : TargetLawful E.DT E.C) :
    Bw6.invStep E 1 = .ok (1, 1) := by
  rw [Bw6.invStep_eq E L]
  cases E.ateLoopCount1IsNegative <;> simp

/-- the end of `multi_miller_loop`: sign of `f_2`, one Frobenius, the product -/
def Bw6.fin (E : Bw6 P F T) (f1 f2 : T) : Outcome T :=
  obind (if E.ateLoopCount2IsNegative then cycInvInPlace E.C f2 else .ok f2) fun f2 =>
  if E.tModRIsZero then
    obind (E.DT.frob f1 1) fun f1 => .ok (f1 * f2)
  else
    obind (E.DT.frob f2 1) fun f2 => .ok (f1 * f2)

def Bw6.finVal (E : Bw6 P F T) (L : TargetLawful E.DT E.C) (f1 f2 : T) : T :=
  let f2 := if E.ateLoopCount2IsNegative then L.conj f2 else f2
  if E.tModRIsZero then L.frob 1 f1 * f2 else f1 * L.frob 1 f2

theorem Bw6.fin_eq (E : Bw6 P F T) (L : TargetLawful E.DT E.C) (f1 f2 : T) :
    Bw6.fin E f1 f2 = .ok (Bw6.finVal E L f1 f2) := by
  unfold Bw6.fin Bw6.finVal
  cases E.ateLoopCount2IsNegative <;> cases E.tModRIsZero <;>
    simp [L.cycInvInPlace_eq, L.frob_eq]

theorem Bw6.finVal_mul (E : Bw6 P F T) (L : TargetLawful E.DT E.C) (a1 b1 a2 b2 : T) :
    Bw6.finVal E L (a1 * a2) (b1 * b2) = Bw6.finVal E L a1 b1 * Bw6.finVal E L a2 b2 := by
  unfold Bw6.finVal
  cases E.ateLoopCount2IsNegative <;> cases E.tModRIsZero <;> simp only [Bool.false_eq_true,
    if_false, if_true, map_mul] <;> ring

theorem Bw6.finVal_one (E : Bw6 P F T) (L : TargetLawful E.DT E.C) :
    Bw6.finVal E L 1 1 = 1 := by
  unfold Bw6.finVal
  cases E.ateLoopCount2IsNegative <;> cases E.tModRIsZero <;> simp

/-- the kept pairs -/
def Bw6.keep (z : Aff F × Bw6G2Prepared F) : Bool := !z.1.infinity && !z.2.infinity

/-- `multi_miller_loop` after `zip_eq` / `filter_map`, as in the Rust code -/
def Bw6.chunked (E : Bw6 P F T) (kept : List (Aff F × Bw6G2Prepared F)) : Outcome T :=
  let pairs1 : List (MPair F F) := kept.map fun (p, q) => (p, q.ellCoeffs1)
  let pairs2 : List (MPair F F) := kept.map fun (p, q) => (p, q.ellCoeffs2)
  let bits := (bitsBENoLeadingZeros E.ateLoopCount1).drop 1
  obind (overChunks (fun ps => bitLoop E.DT.square (Bw6.ell E) bits 1 ps) (chunks4 pairs1)) fun (fs, pairs1) =>
  let fU := product fs
  obind (if E.ateLoopCount1IsNegative then
      obind (cycInvInPlace E.C fU) fun g => .ok (g, fU)
    else
      obind (invUnwrap E.C.cycInverse fU) fun g => .ok (fU, g)) fun (fU, fUInv) =>
  let one : T := 1
  obind (overChunks (fun ps => ellRound (Bw6.ell E) one ps) (chunks4 pairs1)) fun (f1s, _) =>
  let f1 := fU * product f1s
  obind (overChunksIdx (fun chunkIndex ps =>
      let (fU, fUInv) := if chunkIndex = 0 then (fU, fUInv) else (one, one)
      Bw6.chunkLoop2 E fU fUInv (revDigits E.ateLoopCount2) fU ps) 0 (chunks4 pairs2))
    fun (f2s, _) =>
  let f2 := product f2s
  obind (if E.ateLoopCount2IsNegative then cycInvInPlace E.C f2 else .ok f2) fun f2 =>
  if E.tModRIsZero then
    obind (E.DT.frob f1 1) fun f1 => .ok (f1 * f2)
  else
    obind (E.DT.frob f2 1) fun f2 => .ok (f1 * f2)

theorem Bw6.multi_eq (E : Bw6 P F T) (a : List (Aff F)) (b : List (Bw6G2Prepared F)) :
    Bw6.multiMillerLoopPrepared E a b =
      obind (zipEq a b) fun zs => Bw6.chunked E (zs.filter Bw6.keep) := rfl

/-- the same without `chunks_mut(4)` -/
def Bw6.flat (E : Bw6 P F T) (kept : List (Aff F × Bw6G2Prepared F)) : Outcome T :=
  obind (bitLoop E.DT.square (Bw6.ell E) ((bitsBENoLeadingZeros E.ateLoopCount1).drop 1) 1
    (kept.map fun z => (z.1, z.2.ellCoeffs1))) fun r1 =>
  obind (Bw6.invStep E r1.1) fun u =>
  obind (ellRound (Bw6.ell E) 1 r1.2) fun r2 =>
  obind (Bw6.chunkLoop2 E u.1 u.2 (revDigits E.ateLoopCount2) u.1
    (kept.map fun z => (z.1, z.2.ellCoeffs2))) fun r3 =>
  Bw6.fin E (u.1 * r2.1) r3.1

variable (E : Bw6 P F T) (hS : SparseLawful E.S) (L : TargetLawful E.DT E.C)
include hS L

theorem Bw6.flat_nil : Bw6.flat E [] = .ok 1 := by
  unfold Bw6.flat
  simp only [List.map_nil]
  rw [bitLoop_one_nil _ (by rw [L.square_eq]; simp)]
  simp only [obind_ok, Bw6.invStep_one E L, ellRound, Bw6.chunkLoop2_one_nil E L, Bw6.fin_eq E L,
    mul_one, Bw6.finVal_one]

theorem Bw6.chunked_nil (v : T) (h : Bw6.chunked E [] = .ok v) : v = 1 := by
  have h1 : bitLoop E.DT.square (Bw6.ell E) ((bitsBENoLeadingZeros E.ateLoopCount1).drop 1) 1 []
      = .ok (1, []) := bitLoop_one_nil _ (by rw [L.square_eq]; simp) _
  have hi := Bw6.invStep_one E L
  unfold Bw6.invStep at hi
  have hf := Bw6.fin_eq E L 1 1
  unfold Bw6.fin at hf
  simp only [Bw6.chunked, List.map_nil, chunks4_nil, overChunks, overChunksIdx, obind_ok, product,
    List.foldl_nil, hi, mul_one, hf, Bw6.finVal_one, Outcome.ok.injEq] at h
  exact h.symm

theorem Bw6.flat_of_chunked (kept : List (Aff F × Bw6G2Prepared F)) (v : T)
    (h : Bw6.chunked E kept = .ok v) : Bw6.flat E kept = .ok v := by
  cases kept with
  | nil => rw [Bw6.chunked_nil E hS L v h]; exact Bw6.flat_nil E hS L
  | cons z ks =>
    unfold Bw6.chunked at h
    obtain ⟨⟨fs, p1'⟩, h1, h⟩ := obind_eq_ok.1 h
    obtain ⟨⟨u, u'⟩, h2, h⟩ := obind_eq_ok.1 h
    obtain ⟨⟨f1s, r2⟩, h3, h⟩ := obind_eq_ok.1 h
    obtain ⟨⟨f2s, r3⟩, h4, h⟩ := obind_eq_ok.1 h
    have hE := Bw6.ell_lawful E hS
    have g1 := (bitLoop_AM (L.square_mul) hE _).overChunks
      (bitLoop_one_nil _ (by rw [L.square_eq]; simp) _) _ _ _ h1
    rw [chunks4_flatten] at g1
    have g3 := (ellRound_AM hE).overChunks rfl _ _ _ h3
    rw [chunks4_flatten] at g3
    obtain ⟨c, cs, hcs⟩ : ∃ c cs, chunks4 (((z :: ks).map fun (p, q) => (p, q.ellCoeffs2)) :
        List (MPair F F)) = c :: cs := by
      have := chunks4_ne_nil (((z :: ks).map fun (p, q) => (p, q.ellCoeffs2)) : List (MPair F F))
        (by simp)
      cases hc : chunks4 (((z :: ks).map fun (p, q) => (p, q.ellCoeffs2)) : List (MPair F F)) with
      | nil => exact absurd hc this
      | cons c cs => exact ⟨c, cs, rfl⟩
    rw [hcs] at h4
    have g4 := (Bw6.chunkLoop2_one_AM E hS L (revDigits E.ateLoopCount2)).overChunksIdx
      (Bw6.chunkLoop2_one_nil E L _)
      (Bw6.chunkLoop2 E u u' (revDigits E.ateLoopCount2) u)
      (by
        intro ps qs g1 g2 ps' qs' ha hb
        have := Bw6.chunkLoop2_mul E hS L (revDigits E.ateLoopCount2) u u' 1 1 _ _ _ _ _ _ _ _ ha hb
        simpa using this)
      _ (by intro ps; simp) (by intro i ps; simp) c cs f2s r3 h4
    rw [← hcs, chunks4_flatten] at g4
    unfold Bw6.flat
    rw [g1]
    simp only [obind_ok]
    have h2' : Bw6.invStep E fs.prod = .ok (u, u') := by
      unfold Bw6.invStep
      rw [← product_eq_prod]; exact h2
    rw [h2']
    simp only [obind_ok]
    rw [g3]
    simp only [obind_ok]
    rw [g4]
    simp only [obind_ok]
    simpa [Bw6.fin, product_eq_prod] using h

theorem Bw6.flat_append (k1 k2 : List (Aff F × Bw6G2Prepared F)) (v1 v2 : T)
    (h1 : Bw6.flat E k1 = .ok v1) (h2 : Bw6.flat E k2 = .ok v2) :
    Bw6.flat E (k1 ++ k2) = .ok (v1 * v2) := by
  unfold Bw6.flat at h1 h2 ⊢
  obtain ⟨⟨a1, ra1⟩, ha1, h1⟩ := obind_eq_ok.1 h1
  obtain ⟨⟨u1, u1'⟩, ha2, h1⟩ := obind_eq_ok.1 h1
  obtain ⟨⟨l1, rl1⟩, ha3, h1⟩ := obind_eq_ok.1 h1
  obtain ⟨⟨c1, rc1⟩, ha4, h1⟩ := obind_eq_ok.1 h1
  obtain ⟨⟨a2, ra2⟩, hb1, h2⟩ := obind_eq_ok.1 h2
  obtain ⟨⟨u2, u2'⟩, hb2, h2⟩ := obind_eq_ok.1 h2
  obtain ⟨⟨l2, rl2⟩, hb3, h2⟩ := obind_eq_ok.1 h2
  obtain ⟨⟨c2, rc2⟩, hb4, h2⟩ := obind_eq_ok.1 h2
  have hE := Bw6.ell_lawful E hS
  have g1 := bitLoop_AM (L.square_mul) hE _ _ _ _ _ _ _ _ _ ha1 hb1
  have g2 := Bw6.invStep_mul E L _ _ _ _ _ _ ha2 hb2
  have g3 := ellRound_AM hE _ _ _ _ _ _ _ _ ha3 hb3
  have g4 := Bw6.chunkLoop2_mul E hS L _ _ _ _ _ _ _ _ _ _ _ _ _ ha4 hb4
  rw [one_mul] at g1 g3
  rw [Bw6.fin_eq E L, Outcome.ok.injEq] at h1 h2
  simp only [List.map_append]
  rw [g1]
  simp only [obind_ok]
  rw [g2]
  simp only [obind_ok]
  rw [g3]
  simp only [obind_ok]
  rw [g4]
  simp only [obind_ok]
  rw [Bw6.fin_eq E L, mul_mul_mul_comm u1 u2 l1 l2, Bw6.finVal_mul, h1, h2]

/-- multi Miller loop = product of the single Miller loops (BW6, after the fix of the chunk bug) -/
theorem Bw6.multi_prod (l : List (Aff F × Bw6G2Prepared F × T)) (v : T)
    (h : Bw6.multiMillerLoopPrepared E (l.map (·.1)) (l.map (·.2.1)) = .ok v)
    (hl : ∀ t ∈ l, Bw6.multiMillerLoopPrepared E [t.1] [t.2.1] = .ok t.2.2) :
    v = (l.map (·.2.2)).prod := by
  rw [Bw6.multi_eq, zipEq_map] at h
  simp only [obind_ok] at h
  have h' := Bw6.flat_of_chunked E hS L _ _ h
  rw [filter_eq_flatMap] at h'
  have := core_prod (Bw6.flat E) (fun z => [z].filter Bw6.keep) (Bw6.flat_nil E hS L)
    (Bw6.flat_append E hS L) l (by
      intro t ht
      have := hl t ht
      rw [Bw6.multi_eq] at this
      simp only [zipEq, obind_ok] at this
      exact Bw6.flat_of_chunked E hS L _ _ this)
  rw [this] at h'
  exact (Outcome.ok.inj h').symm

end bw6

/-! ## MNT4 / MNT6 (Miller loop) -/

section mnt
variable {P F G : Type} [Zero F] [DecidableEq F] [Field G] [DecidableEq G]
  (cfg : QuadCfg G) (B : FieldD P G) (hB : BaseLawful B) (hc : QuadLawful cfg)

/-- the kept pairs -/
def Mnt.keep (z : MntG1Prepared F G × MntG2Prepared G) : Bool :=
  !Mnt.g1IsZero z.1 && !Mnt.g2IsZero z.2

/-- `multi_miller_loop` after `zip_eq`: by unfolding, the product of `ate_miller_loop` over the kept
    pairs -/
theorem Mnt.multi_eq [Mul (Quad G)] (E : Mnt P F G) (a : List (MntG1Prepared F G))
    (b : List (MntG2Prepared G)) :
    Mnt.multiMillerLoopPrepared E a b =
      obind (zipEq a b) fun zs =>
      obind (mapO (fun z => Mnt.ateMillerLoop E z.1 z.2) (zs.filter Mnt.keep)) fun fs =>
      .ok (product fs) := rfl

/-- the part after `zip_eq` -/
def Mnt.core [Mul (Quad G)] (E : Mnt P F G) (kept : List (MntG1Prepared F G × MntG2Prepared G)) :
    Outcome (Quad G) :=
  obind (mapO (fun z => Mnt.ateMillerLoop E z.1 z.2) kept) fun fs => .ok (product fs)

theorem Mnt.core_nil :
    letI := Quad.commRing cfg B hB hc
    ∀ E : Mnt P F G, Mnt.core E [] = .ok 1 := by
  intro E
  rfl

theorem Mnt.core_append :
    letI := Quad.commRing cfg B hB hc
    ∀ (E : Mnt P F G) (k1 k2 : List (MntG1Prepared F G × MntG2Prepared G)) (v1 v2 : Quad G),
      Mnt.core E k1 = .ok v1 → Mnt.core E k2 = .ok v2 → Mnt.core E (k1 ++ k2) = .ok (v1 * v2) := by
  letI := Quad.commRing cfg B hB hc
  intro E k1 k2 v1 v2 h1 h2
  unfold Mnt.core at h1 h2 ⊢
  obtain ⟨fs1, ha, h1⟩ := obind_eq_ok.1 h1
  obtain ⟨fs2, hb, h2⟩ := obind_eq_ok.1 h2
  simp only [Outcome.ok.injEq] at h1 h2
  rw [mapO_append, ha, hb]
  simp only [obind_ok, Outcome.ok.injEq]
  rw [← h1, ← h2, product_eq_prod, product_eq_prod, product_eq_prod, List.prod_append]

/-- multi Miller loop = product of the single Miller loops (MNT4 / MNT6) -/
theorem Mnt.multi_prod :
    letI := Quad.commRing cfg B hB hc
    ∀ (E : Mnt P F G) (l : List (MntG1Prepared F G × MntG2Prepared G × Quad G)) (v : Quad G),
      Mnt.multiMillerLoopPrepared E (l.map (·.1)) (l.map (·.2.1)) = .ok v →
      (∀ t ∈ l, Mnt.multiMillerLoopPrepared E [t.1] [t.2.1] = .ok t.2.2) →
      v = (l.map (·.2.2)).prod := by
  letI := Quad.commRing cfg B hB hc
  intro E l v h hl
  rw [Mnt.multi_eq, zipEq_map] at h
  simp only [obind_ok] at h
  rw [filter_eq_flatMap] at h
  have := core_prod (Mnt.core E) (fun z => [z].filter Mnt.keep) (Mnt.core_nil cfg B hB hc E)
    (Mnt.core_append cfg B hB hc E) l (by
      intro t ht
      have := hl t ht
      rw [Mnt.multi_eq] at this
      simp only [zipEq, obind_ok] at this
      exact this)
  unfold Mnt.core at this
  rw [this] at h
  exact (Outcome.ok.inj h).symm

end mnt

end Ark.PairingP
