import Ark.Proofs.MontDefs
/-
  Helper lemmas for C01 part A: the reduction helpers `geq`, `subtractModulus`,
  `subtractModulusWithCarry` and the additive operations `add`, `sub`, `double`, `neg`
  of `Ark.Model.Mont`, for every limb count and both values of `c.spare`.
-/
namespace Ark.Mont
open Ark

/-! ### arithmetic facts -/

theorem mod_sub_of_lt_two {t p : Nat} (h1 : p ≤ t) (h2 : t < 2 * p) : t % p = t - p := by
  rw [Nat.mod_eq_sub_mod h1, Nat.mod_eq_of_lt (by omega)]

/-! ### configuration facts -/

theorem CfgOK.p_lt {c : MontCfg} {pv : Nat} (h : CfgOK c pv) : pv < B ^ c.n := by
  have := value_lt' h.p_wf h.p_len
  rwa [h.p_val] at this

theorem Elem.limbs {c : MontCfg} {pv : Nat} {a : List Nat} (h : Elem c pv a) : Limbs c a :=
  ⟨h.len, h.wf⟩

theorem Limbs.lt {c : MontCfg} {a : List Nat} (h : Limbs c a) : value a < B ^ c.n :=
  value_lt' h.wf h.len

theorem CfgOK.p_limbs {c : MontCfg} {pv : Nat} (h : CfgOK c pv) : Limbs c c.p :=
  ⟨h.p_len, h.p_wf⟩

/-! ### geq -/

theorem geq_spec (a b : List Nat) (h : a.length = b.length) (ha : WF a) (hb : WF b) :
    geq a b = decide (value a ≥ value b) := by
  unfold geq
  rw [cmp_spec a b h ha hb]
  by_cases hlt : value a < value b
  · rw [Nat.compare_eq_lt.mpr hlt]
    have : ¬ (value a ≥ value b) := by omega
    simp [this]
  · have hne : compare (value a) (value b) ≠ .lt := fun hc => hlt (Nat.compare_eq_lt.mp hc)
    have hge : value a ≥ value b := by omega
    simp [hne, hge]

/-! ### subtract_modulus(_with_carry) -/

/-- `subtract_modulus_with_carry`: the limbs `a` together with the carry flag `k` denote
    `t = a + k·2^(64N)`; if `t < 2p` the result is the canonical representative of `t mod p`. -/
theorem subtractModulusWithCarry_spec {c : MontCfg} {pv : Nat} (h : CfgOK c pv) (a : List Nat)
    (k : Bool) (ha : Limbs c a) (ht : value a + (if k then B ^ c.n else 0) < 2 * pv) :
    Elem c pv (subtractModulusWithCarry c a k) ∧
    value (subtractModulusWithCarry c a k) = (value a + (if k then B ^ c.n else 0)) % pv := by
  have hpl := h.p_lt
  have hlen : a.length = c.p.length := by rw [ha.len, h.p_len]
  have hs := subB_spec a c.p 0 hlen ha.wf h.p_wf (by omega)
  have hb := subB_borrow_le a c.p 0 (by omega)
  have hwf := subB_wf a c.p 0
  have hl2 : (subB a c.p 0).1.length = c.n := by rw [subB_length _ _ _ hlen, ha.len]
  have hrl : value (subB a c.p 0).1 < B ^ c.n := value_lt' hwf hl2
  have hal := ha.lt
  have hg := geq_spec a c.p hlen ha.wf h.p_wf
  rw [h.p_val] at hs hg
  rw [ha.len] at hs
  unfold subtractModulusWithCarry
  rw [hg]
  generalize subB a c.p 0 = r at *
  -- the two possible borrows
  have hbb : B ^ c.n * r.2 = 0 ∨ B ^ c.n * r.2 = B ^ c.n := by
    rcases Nat.le_one_iff_eq_zero_or_eq_one.mp hb with h0 | h1
    · left; rw [h0]; rfl
    · right; rw [h1]; omega
  generalize B ^ c.n * r.2 = br at *
  cases k with
  | true =>
    simp only [Bool.true_or, if_true] at ht ⊢
    generalize B ^ c.n = P at *
    have hv : value r.1 = value a + P - pv := by omega
    refine ⟨⟨hl2, hwf, by omega⟩, ?_⟩
    rw [mod_sub_of_lt_two (by omega) ht]; exact hv
  | false =>
    simp only [Bool.false_or, Bool.false_eq_true, if_false, Nat.add_zero] at ht ⊢
    generalize B ^ c.n = P at *
    by_cases hge : value a ≥ pv
    · rw [if_pos (by simpa using hge)]
      have hv : value r.1 = value a - pv := by omega
      refine ⟨⟨hl2, hwf, by omega⟩, ?_⟩
      rw [mod_sub_of_lt_two hge ht]; exact hv
    · rw [if_neg (by simpa using hge)]
      refine ⟨⟨ha.len, ha.wf, by omega⟩, ?_⟩
      rw [Nat.mod_eq_of_lt (by omega)]

theorem subtractModulus_eq (c : MontCfg) (a : List Nat) :
    subtractModulus c a = subtractModulusWithCarry c a false := by
  simp [subtractModulus, subtractModulusWithCarry]

/-- `subtract_modulus`: if `a < 2p` the result is the canonical representative of `a mod p`. -/
theorem subtractModulus_spec {c : MontCfg} {pv : Nat} (h : CfgOK c pv) (a : List Nat)
    (ha : Limbs c a) (ht : value a < 2 * pv) :
    Elem c pv (subtractModulus c a) ∧ value (subtractModulus c a) = value a % pv := by
  rw [subtractModulus_eq]
  have := subtractModulusWithCarry_spec h a false ha (by simpa using ht)
  simpa using this

/-! ### add -/

theorem add_spec {c : MontCfg} {pv : Nat} (h : CfgOK c pv) (a b : List Nat)
    (ha : Elem c pv a) (hb : Elem c pv b) :
    Elem c pv (add c a b) ∧ value (add c a b) = (value a + value b) % pv := by
  have hlen : a.length = b.length := by rw [ha.len, hb.len]
  have hs := addC_spec a b 0 hlen
  have hc := addC_carry_le a b 0 ha.wf hb.wf (by omega)
  have hL : Limbs c (addC a b 0).1 := ⟨by rw [addC_length _ _ _ hlen, ha.len], addC_wf a b 0⟩
  have hsl := hL.lt
  rw [ha.len, Nat.add_zero] at hs
  have hal := ha.lt
  have hbl := hb.lt
  unfold add
  simp only []
  generalize addC a b 0 = s at *
  by_cases hsp : c.spare = true
  · rw [if_pos hsp]
    have h2 := h.spare_iff.mp hsp
    have hs0 : s.2 = 0 := by
      rcases Nat.le_one_iff_eq_zero_or_eq_one.mp hc with h0 | h1
      · exact h0
      · rw [h1] at hs; omega
    rw [hs0] at hs
    have hv : value s.1 = value a + value b := by omega
    rw [← hv]
    exact subtractModulus_spec h s.1 hL (by omega)
  · rw [if_neg hsp]
    have hv : value s.1 + (if (s.2 != 0) = true then B ^ c.n else 0) = value a + value b := by
      rcases Nat.le_one_iff_eq_zero_or_eq_one.mp hc with h0 | h1
      · rw [h0] at hs ⊢; simpa using hs
      · rw [h1] at hs ⊢; simpa using hs
    rw [← hv]
    exact subtractModulusWithCarry_spec h s.1 (s.2 != 0) hL (by omega)

/-! ### double -/

theorem double_spec {c : MontCfg} {pv : Nat} (h : CfgOK c pv) (a : List Nat)
    (ha : Elem c pv a) :
    Elem c pv (double c a) ∧ value (double c a) = (2 * value a) % pv := by
  have hs := mul2_spec a ha.wf
  have hL : Limbs c (mul2 a).1 := ⟨by rw [mul2_length, ha.len], mul2_wf a ha.wf⟩
  have hsl := hL.lt
  rw [ha.len] at hs
  have hal := ha.lt
  unfold double
  simp only []
  generalize mul2 a = s at *
  by_cases hsp : c.spare = true
  · rw [if_pos hsp]
    have h2 := h.spare_iff.mp hsp
    have hs0 : s.2 = false := by
      cases hk : s.2 with
      | false => rfl
      | true => rw [hk] at hs; simp only [if_true, Nat.mul_one] at hs; omega
    rw [hs0] at hs
    have hv : value s.1 = 2 * value a := by simpa using hs
    rw [← hv]
    exact subtractModulus_spec h s.1 hL (by omega)
  · rw [if_neg hsp]
    have hv : value s.1 + (if s.2 = true then B ^ c.n else 0) = 2 * value a := by
      cases hk : s.2 with
      | false => rw [hk] at hs; simpa using hs
      | true => rw [hk] at hs; simpa using hs
    rw [← hv]
    exact subtractModulusWithCarry_spec h s.1 s.2 hL (by omega)

/-! ### sub -/

theorem sub_spec {c : MontCfg} {pv : Nat} (h : CfgOK c pv) (a b : List Nat)
    (ha : Elem c pv a) (hb : Elem c pv b) :
    Elem c pv (sub c a b) ∧ value (sub c a b) = (pv + value a - value b) % pv := by
  have hpl := h.p_lt
  have hal := ha.lt
  have hbl := hb.lt
  have hcmp : (cmp b a == .gt) = decide (value a < value b) := by
    rw [cmp_spec b a (by rw [ha.len, hb.len]) hb.wf ha.wf]
    by_cases hlt : value a < value b
    · rw [Nat.compare_eq_gt.mpr hlt]; simp [hlt]
    · have hne : compare (value b) (value a) ≠ .gt := fun hc => hlt (Nat.compare_eq_gt.mp hc)
      simp [hne, hlt]
  unfold sub
  simp only []
  rw [hcmp]
  by_cases hlt : value a < value b
  · -- `a + p` (carry dropped), then subtract `b`
    simp only [hlt, decide_true, if_true]
    have hlen1 : a.length = c.p.length := by rw [ha.len, h.p_len]
    have hs := addC_spec a c.p 0 hlen1
    have hc := addC_carry_le a c.p 0 ha.wf h.p_wf (by omega)
    have hL : Limbs c (addC a c.p 0).1 := ⟨by rw [addC_length _ _ _ hlen1, ha.len], addC_wf a c.p 0⟩
    have hsl := hL.lt
    rw [ha.len, h.p_val, Nat.add_zero] at hs
    generalize addC a c.p 0 = s at *
    have hlen2 : s.1.length = b.length := by rw [hL.len, hb.len]
    have hs2 := subB_spec s.1 b 0 hlen2 hL.wf hb.wf (by omega)
    have hb2 := subB_borrow_le s.1 b 0 (by omega)
    have hwf := subB_wf s.1 b 0
    have hl2 : (subB s.1 b 0).1.length = c.n := by rw [subB_length _ _ _ hlen2, hL.len]
    have hrl : value (subB s.1 b 0).1 < B ^ c.n := value_lt' hwf hl2
    rw [hL.len, Nat.add_zero] at hs2
    generalize subB s.1 b 0 = r at *
    have hcc : B ^ c.n * s.2 = 0 ∨ B ^ c.n * s.2 = B ^ c.n := by
      rcases Nat.le_one_iff_eq_zero_or_eq_one.mp hc with h0 | h1
      · left; rw [h0]; rfl
      · right; rw [h1]; omega
    have hbb : B ^ c.n * r.2 = 0 ∨ B ^ c.n * r.2 = B ^ c.n := by
      rcases Nat.le_one_iff_eq_zero_or_eq_one.mp hb2 with h0 | h1
      · left; rw [h0]; rfl
      · right; rw [h1]; omega
    generalize B ^ c.n * s.2 = cs at *
    generalize B ^ c.n * r.2 = br at *
    generalize B ^ c.n = P at *
    have hv : value r.1 = pv + value a - value b := by omega
    refine ⟨⟨hl2, hwf, by omega⟩, ?_⟩
    rw [Nat.mod_eq_of_lt (by omega)]; exact hv
  · simp only [hlt, decide_false, Bool.false_eq_true, if_false]
    have hlen2 : a.length = b.length := by rw [ha.len, hb.len]
    have hs2 := subB_spec a b 0 hlen2 ha.wf hb.wf (by omega)
    have hb2 := subB_borrow_le a b 0 (by omega)
    have hwf := subB_wf a b 0
    have hl2 : (subB a b 0).1.length = c.n := by rw [subB_length _ _ _ hlen2, ha.len]
    have hrl : value (subB a b 0).1 < B ^ c.n := value_lt' hwf hl2
    rw [ha.len, Nat.add_zero] at hs2
    generalize subB a b 0 = r at *
    have hbb : B ^ c.n * r.2 = 0 ∨ B ^ c.n * r.2 = B ^ c.n := by
      rcases Nat.le_one_iff_eq_zero_or_eq_one.mp hb2 with h0 | h1
      · left; rw [h0]; rfl
      · right; rw [h1]; omega
    generalize B ^ c.n * r.2 = br at *
    generalize B ^ c.n = P at *
    have hv : value r.1 = value a - value b := by omega
    refine ⟨⟨hl2, hwf, by omega⟩, ?_⟩
    have e : pv + value a - value b = pv + (value a - value b) := by omega
    rw [e, Nat.add_mod_left, Nat.mod_eq_of_lt (by omega)]; exact hv

/-! ### neg -/

theorem neg_spec {c : MontCfg} {pv : Nat} (h : CfgOK c pv) (a : List Nat)
    (ha : Elem c pv a) :
    Elem c pv (neg c a) ∧ value (neg c a) = (pv - value a) % pv := by
  have hpl := h.p_lt
  have hal := ha.lt
  have hp1 := h.p_gt
  unfold neg
  by_cases hz : isZero a = true
  · rw [if_pos hz]
    have h0 := (isZero_iff a).mp hz
    refine ⟨ha, ?_⟩
    rw [h0, Nat.sub_zero, Nat.mod_self]
  · rw [if_neg hz]
    have hne : value a ≠ 0 := fun h0 => hz ((isZero_iff a).mpr h0)
    have hlen2 : c.p.length = a.length := by rw [ha.len, h.p_len]
    have hs2 := subB_spec c.p a 0 hlen2 h.p_wf ha.wf (by omega)
    have hb2 := subB_borrow_le c.p a 0 (by omega)
    have hwf := subB_wf c.p a 0
    have hl2 : (subB c.p a 0).1.length = c.n := by rw [subB_length _ _ _ hlen2, h.p_len]
    have hrl : value (subB c.p a 0).1 < B ^ c.n := value_lt' hwf hl2
    rw [h.p_len, h.p_val, Nat.add_zero] at hs2
    generalize subB c.p a 0 = r at *
    have hbb : B ^ c.n * r.2 = 0 ∨ B ^ c.n * r.2 = B ^ c.n := by
      rcases Nat.le_one_iff_eq_zero_or_eq_one.mp hb2 with h0 | h1
      · left; rw [h0]; rfl
      · right; rw [h1]; omega
    generalize B ^ c.n * r.2 = br at *
    generalize B ^ c.n = P at *
    have hv : value r.1 = pv - value a := by omega
    refine ⟨⟨hl2, hwf, by omega⟩, ?_⟩
    rw [Nat.mod_eq_of_lt (by omega)]; exact hv

end Ark.Mont
