import Ark.Model.ScalarMul
import Ark.Model.AffGroup
import Ark.Proofs.LimbsA
import Ark.Proofs.LimbsB
import Mathlib.Algebra.Group.Basic
import Mathlib.Algebra.Module.Basic
import Mathlib.Tactic.Module
import Mathlib.Tactic.Abel
import Mathlib.Tactic.Ring
import Mathlib.Tactic.Linarith
/-
  Ark.Proofs.ScalarMulA — helper lemmas for C04 (part a): the double-and-add loops, bit-stream
  multiplication, the wNAF table / digit loop / multiplication of `Ark.Model.ScalarMul`, the
  window-size rule, and the adequacy of the reference `smulAux` recursion, all over Mathlib's
  `[AddCommGroup G]` (`[AddCommMonoid G]` for the reference recursion) with natural-number and integer scalar multiplication.
-/
namespace Ark.ScalarMul
open Ark

/-! ### 1. double-and-add -/

section dbl
variable {G : Type} [AddCommGroup G]

theorem dblAddLoop_spec (base : G) (bits : List Bool) (acc : G) :
    dblAddLoop base bits acc = 2 ^ bits.length • acc + bitsToNat bits.reverse • base := by
  induction bits generalizing acc with
  | nil => simp [dblAddLoop, bitsToNat]
  | cons b bs ih =>
    rw [dblAddLoop, ih, List.reverse_cons, bitsToNat_append, List.length_reverse, List.length_cons]
    cases b
    · simp only [Bool.false_eq_true, if_false, bitsToNat]
      module
    · simp only [if_true, bitsToNat]
      module

theorem bitsToNat_skipLeadingZeros_reverse (bits : List Bool) :
    bitsToNat (skipLeadingZeros bits).reverse = bitsToNat bits.reverse := by
  induction bits with
  | nil => rfl
  | cons b bs ih =>
    cases b
    · simp only [skipLeadingZeros, Bool.false_eq_true, if_false, ih, List.reverse_cons,
        bitsToNat_append, bitsToNat]
      simp
    · simp [skipLeadingZeros]

theorem skipLeadingZeros_eq_dropWhile (bits : List Bool) :
    skipLeadingZeros bits = bits.dropWhile (fun b => !b) := by
  induction bits with
  | nil => rfl
  | cons b bs ih => cases b <;> simp [skipLeadingZeros, ih]

/-- the skipped stream is empty or starts with a `true` bit -/
theorem skipLeadingZeros_head (bits : List Bool) :
    skipLeadingZeros bits = [] ∨ ∃ t, skipLeadingZeros bits = true :: t := by
  induction bits with
  | nil => exact .inl rfl
  | cons b bs ih =>
    cases b
    · simpa [skipLeadingZeros] using ih
    · exact .inr ⟨bs, by simp [skipLeadingZeros]⟩

theorem mulBitsBE_spec (P : G) (bits : List Bool) :
    mulBitsBE P bits = bitsToNat bits.reverse • P := by
  unfold mulBitsBE
  rw [dblAddLoop_spec, bitsToNat_skipLeadingZeros_reverse, smul_zero, zero_add]

theorem bitsToNat_bitsBE_reverse (s : List Nat) (hs : WF s) :
    bitsToNat (bitsBE s).reverse = value s := by
  unfold bitsBE toBitsBE
  rw [List.reverse_reverse, bitsToNat_toBitsLE s hs]

theorem dblAdd_withoutLeadingZeros (P : G) (s : List Nat) (hs : WF s) :
    dblAddLoop P (withoutLeadingZeros s) 0 = value s • P := by
  have h := mulBitsBE_spec P (bitsBE s)
  rw [bitsToNat_bitsBE_reverse s hs] at h
  exact h

theorem swDoubleAndAddAffine_spec (P : G) (s : List Nat) (hs : WF s) :
    swDoubleAndAddAffine P s = value s • P := dblAdd_withoutLeadingZeros P s hs
theorem swDoubleAndAddProjective_spec (P : G) (s : List Nat) (hs : WF s) :
    swDoubleAndAddProjective P s = value s • P := dblAdd_withoutLeadingZeros P s hs
theorem teMulAffine_spec (P : G) (s : List Nat) (hs : WF s) :
    teMulAffine P s = value s • P := dblAdd_withoutLeadingZeros P s hs
theorem teMulProjective_spec (P : G) (s : List Nat) (hs : WF s) :
    teMulProjective P s = value s • P := dblAdd_withoutLeadingZeros P s hs

theorem value_toLimbs_of_lt (N k : Nat) (hk : k < 2 ^ (64 * N)) : value (toLimbs N k) = k := by
  rw [toLimbs_value]
  apply Nat.mod_eq_of_lt
  have : B ^ N = 2 ^ (64 * N) := by unfold B; rw [← pow_mul]
  omega

end dbl

/-! ### 2. wNAF table and digit loop -/

section wnaf
variable {G : Type} [AddCommGroup G]

theorem wnafTableLoop_length (dbl : G) (n : Nat) (b : G) : (wnafTableLoop dbl n b).length = n := by
  induction n generalizing b with
  | zero => rfl
  | succ n ih => simp [wnafTableLoop, ih]

theorem wnafTableLoop_getElem? (dbl : G) (n : Nat) (b : G) (i : Nat) (hi : i < n) :
    (wnafTableLoop dbl n b)[i]? = some (b + i • dbl) := by
  induction n generalizing b i with
  | zero => omega
  | succ n ih =>
    cases i with
    | zero => simp [wnafTableLoop]
    | succ i =>
      simp only [wnafTableLoop, List.getElem?_cons_succ]
      rw [ih _ i (by omega)]
      congr 1
      module

theorem wnafTable_length (w : Nat) (g : G) : (wnafTable w g).length = 2 ^ (w - 1) :=
  wnafTableLoop_length _ _ _

theorem wnafTable_getElem? (w : Nat) (g : G) (i : Nat) (hi : i < 2 ^ (w - 1)) :
    (wnafTable w g)[i]? = some ((2 * i + 1) • g) := by
  unfold wnafTable
  rw [wnafTableLoop_getElem? _ _ _ i hi]
  congr 1
  module

theorem wnafTable_eq_map (w : Nat) (g : G) :
    wnafTable w g = (List.range (2 ^ (w - 1))).map (fun i => (2 * i + 1) • g) := by
  apply List.ext_getElem?
  intro i
  by_cases hi : i < 2 ^ (w - 1)
  · rw [wnafTable_getElem? w g i hi]
    simp [hi]
  · rw [List.getElem?_eq_none (by rw [wnafTable_length]; omega),
      List.getElem?_eq_none (by simp; omega)]

/-- an odd integer is twice its half plus one -/
theorem odd_toNat_half (n : Int) (hpos : 0 < n) (hodd : n % 2 = 1) :
    ((2 * (n.toNat / 2) + 1 : Nat) : Int) = n := by omega

/-- the digit loop, most significant digit first, with `M` usable table entries:
    invariant "`foundNonZero = false → res = 0`" -/
theorem wnafLoop_gen (tbl : List G) (g : G) (M : Nat)
    (htbl : ∀ i, i < M → tbl[i]? = some ((2 * i + 1) • g))
    (ns : List Int) (hns : ∀ d ∈ ns, d = 0 ∨ (d % 2 = 1 ∧ d.natAbs / 2 < M))
    (found : Bool) (acc : G) (hacc : found = false → acc = 0) :
    wnafLoop tbl ns found acc
      = .ok (((2 : Int) ^ ns.length) • acc + digitsValue ns.reverse • g) := by
  induction ns generalizing found acc with
  | nil => simp [wnafLoop, digitsValue]
  | cons n ns ih =>
    have hns' : ∀ d ∈ ns, d = 0 ∨ (d % 2 = 1 ∧ d.natAbs / 2 < M) :=
      fun d hd => hns d (List.mem_cons_of_mem _ hd)
    have hdbl : (if found then acc + acc else acc) = (2 : Int) • acc := by
      cases found
      · rw [hacc rfl]; simp
      · simp only [if_true]; module
    have hdbl0 : found = false → (if found then acc + acc else acc) = 0 := by
      intro h; rw [h, hacc h]; rfl
    rw [wnafLoop, List.reverse_cons, digitsValue_append, List.length_reverse, List.length_cons]
    simp only [digitsValue]
    rcases hns n List.mem_cons_self with h0 | ⟨hodd, hlt⟩
    · subst h0
      simp only [bne_self_eq_false, Bool.false_eq_true, if_false]
      rw [ih hns' found _ hdbl0, hdbl]
      congr 1
      module
    · have hne : (n != 0) = true := by
        rw [bne_iff_ne]; intro h; rw [h] at hodd; omega
      simp only [hne, if_true]
      by_cases hpos : n > 0
      · simp only [hpos, if_true]
        have hidx : n.toNat / 2 < M := by
          have : n.toNat = n.natAbs := by omega
          rw [this]; exact hlt
        rw [htbl _ hidx]
        simp only
        rw [ih hns' true _ (by simp), hdbl]
        have hn : ((2 * (n.toNat / 2) + 1 : Nat)) • g = n • g := by
          rw [← natCast_zsmul, odd_toNat_half n hpos hodd]
        rw [hn]
        congr 1
        module
      · simp only [hpos, if_false]
        have hneg : 0 < -n := by omega
        have hodd' : (-n) % 2 = 1 := by omega
        have hidx : (-n).toNat / 2 < M := by
          have : (-n).toNat = n.natAbs := by omega
          rw [this]; exact hlt
        rw [htbl _ hidx]
        simp only
        rw [ih hns' true _ (by simp), hdbl]
        have hn : ((2 * ((-n).toNat / 2) + 1 : Nat)) • g = (-n) • g := by
          rw [← natCast_zsmul, odd_toNat_half (-n) hneg hodd']
        rw [hn]
        congr 1
        module

theorem wnafLoop_spec_bound (tbl : List G) (g : G) (M : Nat)
    (htbl : ∀ i, i < M → tbl[i]? = some ((2 * i + 1) • g))
    (ds : List Int) (hds : ∀ d ∈ ds, d = 0 ∨ (d % 2 = 1 ∧ d.natAbs / 2 < M)) :
    wnafLoop tbl ds.reverse false 0 = .ok (digitsValue ds • g) := by
  rw [wnafLoop_gen tbl g M htbl ds.reverse (fun d hd => hds d (List.mem_reverse.mp hd)) false 0
    (fun _ => rfl), List.reverse_reverse, smul_zero, zero_add]

/-- no out-of-range table index (hence no panic) as soon as every non-zero digit `d` has
    `|d| / 2` inside the table — whatever the table contains, whatever the parity of the digits -/
theorem wnafLoop_no_panic (tbl : List G) (ns : List Int)
    (hns : ∀ d ∈ ns, d = 0 ∨ d.natAbs / 2 < tbl.length) (found : Bool) (acc : G) :
    ∃ r, wnafLoop tbl ns found acc = .ok r := by
  induction ns generalizing found acc with
  | nil => exact ⟨acc, rfl⟩
  | cons n ns ih =>
    have hns' : ∀ d ∈ ns, d = 0 ∨ d.natAbs / 2 < tbl.length :=
      fun d hd => hns d (List.mem_cons_of_mem _ hd)
    rw [wnafLoop]
    by_cases h0 : n = 0
    · subst h0
      simp only [bne_self_eq_false, Bool.false_eq_true, if_false]
      exact ih hns' _ _
    · have hne : (n != 0) = true := by rw [bne_iff_ne]; exact h0
      have hlt : n.natAbs / 2 < tbl.length := (hns n List.mem_cons_self).resolve_left h0
      simp only [hne, if_true]
      by_cases hpos : n > 0
      · simp only [hpos, if_true]
        have hidx : n.toNat / 2 < tbl.length := by
          have : n.toNat = n.natAbs := by omega
          rw [this]; exact hlt
        rw [List.getElem?_eq_getElem hidx]
        exact ih hns' _ _
      · simp only [hpos, if_false]
        have hidx : (-n).toNat / 2 < tbl.length := by
          have : (-n).toNat = n.natAbs := by omega
          rw [this]; exact hlt
        rw [List.getElem?_eq_getElem hidx]
        exact ih hns' _ _

/-! ### 3. wNAF multiplication -/

theorem wnafNew_ok (w : Nat) (hw : 2 ≤ w ∧ w < 64) : wnafNew w = .ok w := by
  unfold wnafNew; rw [if_pos hw]

theorem wnafNew_panic (w : Nat) (hw : ¬ (2 ≤ w ∧ w < 64)) : wnafNew w = .panic := by
  unfold wnafNew; rw [if_neg hw]

theorem wnafMulWithTable_none_iff (w : Nat) (t : List G) (s : List Nat) :
    wnafMulWithTable w t s = .ok none ↔ 2 ^ (w - 1) > t.length := by
  unfold wnafMulWithTable
  constructor
  · intro h
    by_contra hlen
    rw [if_neg hlen] at h
    cases hf : findWnaf s w with
    | none => rw [hf] at h; cases h
    | some ds =>
      rw [hf] at h
      simp only at h
      cases hl : wnafLoop t ds.reverse false 0 with
      | panic => rw [hl] at h; cases h
      | ok r => rw [hl] at h; cases h
  · intro h; rw [if_pos h]

theorem wnafMulWithTable_spec (w : Nat) (hw2 : 2 ≤ w) (hw : w < 64) (t : List G) (g : G)
    (hlen : 2 ^ (w - 1) ≤ t.length)
    (ht : ∀ i, i < 2 ^ (w - 1) → t[i]? = some ((2 * i + 1) • g))
    (s : List Nat) (hs : WF s) :
    wnafMulWithTable w t s = .ok (some (value s • g)) := by
  obtain ⟨ds, hds, hval, hdig, -⟩ := findWnaf_spec s w hw2 hw hs
  unfold wnafMulWithTable
  rw [if_neg (by omega), hds]
  simp only
  rw [wnafLoop_spec_bound t g (2 ^ (w - 1)) ht ds, hval, natCast_zsmul]
  · rfl
  · intro d hd
    rcases hdig d hd with h | ⟨h1, h2⟩
    · exact .inl h
    · exact .inr ⟨h1, lt_of_le_of_lt (Nat.div_le_self _ _) h2⟩

theorem wnafMul_spec (w : Nat) (hw2 : 2 ≤ w) (hw : w < 64) (g : G) (s : List Nat) (hs : WF s) :
    wnafMul w g s = .ok (value s • g) := by
  unfold wnafMul
  rw [wnafMulWithTable_spec w hw2 hw (wnafTable w g) g (by rw [wnafTable_length])
    (wnafTable_getElem? w g) s hs]

theorem wnafNewMul_spec (w : Nat) (hw2 : 2 ≤ w) (hw : w < 64) (g : G) (s : List Nat) (hs : WF s) :
    wnafNewMul w g s = .ok (value s • g) := by
  unfold wnafNewMul
  rw [wnafNew_ok w ⟨hw2, hw⟩]
  exact wnafMul_spec w hw2 hw g s hs

theorem wnafNewMul_panic_iff (w : Nat) (g : G) (s : List Nat) (hs : WF s) :
    wnafNewMul w g s = .panic ↔ ¬ (2 ≤ w ∧ w < 64) := by
  constructor
  · intro h hw
    rw [wnafNewMul_spec w hw.1 hw.2 g s hs] at h
    cases h
  · intro hw
    unfold wnafNewMul
    rw [wnafNew_panic w hw]; rfl

end wnaf

/-! ### 7. window-size rule -/

theorem log2Ceil_zero : log2Ceil 0 = 0 := rfl

theorem le_two_pow_log2Ceil (x : Nat) : x ≤ 2 ^ log2Ceil x := by
  unfold log2Ceil
  by_cases hx : x = 0
  · simp [hx]
  · rw [if_neg hx]
    by_cases h : 2 ^ Nat.log2 x = x
    · rw [if_pos h, h]
    · rw [if_neg h]; exact Nat.le_of_lt Nat.lt_log2_self

theorem log2Ceil_le_of_le_two_pow (x m : Nat) (h : x ≤ 2 ^ m) : log2Ceil x ≤ m := by
  unfold log2Ceil
  by_cases hx : x = 0
  · simp [hx]
  · rw [if_neg hx]
    have h1 : 2 ^ Nat.log2 x ≤ x := Nat.log2_self_le hx
    by_cases h2 : 2 ^ Nat.log2 x = x
    · rw [if_pos h2]
      exact (Nat.pow_le_pow_iff_right (by decide)).mp (Nat.le_trans h1 h)
    · rw [if_neg h2]
      have : 2 ^ Nat.log2 x < 2 ^ m := Nat.lt_of_lt_of_le (Nat.lt_of_le_of_ne h1 h2) h
      exact (Nat.pow_lt_pow_iff_right (by decide)).mp this

/-- `log2Ceil x = ⌈log₂ x⌉`: the least `m` with `x ≤ 2^m` -/
theorem log2Ceil_le_iff (x m : Nat) : log2Ceil x ≤ m ↔ x ≤ 2 ^ m :=
  ⟨fun h => Nat.le_trans (le_two_pow_log2Ceil x) (Nat.pow_le_pow_right (by decide) h),
   log2Ceil_le_of_le_two_pow x m⟩

theorem log2Ceil_mono {x y : Nat} (h : x ≤ y) : log2Ceil x ≤ log2Ceil y :=
  (log2Ceil_le_iff x _).mpr (Nat.le_trans h (le_two_pow_log2Ceil y))

theorem log2Ceil_two_pow (m : Nat) : log2Ceil (2 ^ m) = m := by
  apply Nat.le_antisymm ((log2Ceil_le_iff _ _).mpr (Nat.le_refl _))
  exact (Nat.pow_le_pow_iff_right (by decide)).mp (le_two_pow_log2Ceil (2 ^ m))

theorem two_pow_lt_of_lt_log2Ceil (x m : Nat) (h : m < log2Ceil x) : 2 ^ m < x := by
  by_contra hc
  have := (log2Ceil_le_iff x m).mpr (Nat.le_of_not_lt hc)
  omega

theorem lnWithoutFloats_eq (a : Nat) : lnWithoutFloats a = log2Ceil a * 69 / 100 := rfl

theorem computeWindowSize_eq (n : Nat) :
    computeWindowSize n = if n < 32 then 3 else log2Ceil n * 69 / 100 := rfl

theorem computeWindowSize_ge_three (n : Nat) : 3 ≤ computeWindowSize n := by
  unfold computeWindowSize
  by_cases h : n < 32
  · rw [if_pos h]
  · rw [if_neg h]
    have h5 : 5 ≤ log2Ceil n := by
      have := log2Ceil_mono (Nat.le_of_not_lt h)
      rwa [show (32 : Nat) = 2 ^ 5 from rfl, log2Ceil_two_pow] at this
    unfold lnWithoutFloats
    omega

/-- for a `usize` count the window is at most `64·69/100 = 44` -/
theorem computeWindowSize_le (n : Nat) (hn : n < 2 ^ 64) : computeWindowSize n ≤ 44 := by
  unfold computeWindowSize
  by_cases h : n < 32
  · rw [if_pos h]; decide
  · rw [if_neg h]
    have : log2Ceil n ≤ 64 := (log2Ceil_le_iff n 64).mpr (Nat.le_of_lt hn)
    unfold lnWithoutFloats
    omega

theorem computeWindowSize_mono {m n : Nat} (h : m ≤ n) :
    computeWindowSize m ≤ computeWindowSize n := by
  by_cases hm : m < 32
  · rw [computeWindowSize_eq m, if_pos hm]; exact computeWindowSize_ge_three n
  · have hn : ¬ n < 32 := by omega
    rw [computeWindowSize_eq, computeWindowSize_eq, if_neg hm, if_neg hn]
    have := log2Ceil_mono h
    omega

/-! ### 10. adequacy of the reference scalar multiplication of the driver -/

section adequacy

/-- the recursion of `AffPt.smulAux` / `TEPt.smulAux` (LSB-first double-and-add on `Nat`) over an
    arbitrary `Add` -/
def smulAuxG {G : Type} [Add G] : Nat → Nat → G → G → G
  | 0, _, _, acc => acc
  | fuel + 1, k, base, acc =>
    if k = 0 then acc
    else smulAuxG fuel (k / 2) (base + base) (if k % 2 = 1 then acc + base else acc)

def smulG {G : Type} [Add G] [Zero G] (k : Nat) (P : G) : G := smulAuxG (k.log2 + 2) k P 0

theorem smulAuxG_spec {G : Type} [AddCommMonoid G] (fuel k : Nat) (base acc : G)
    (h : k < 2 ^ fuel) : smulAuxG fuel k base acc = acc + k • base := by
  induction fuel generalizing k base acc with
  | zero =>
    have : k = 0 := by simpa using h
    subst this; simp [smulAuxG]
  | succ fuel ih =>
    rw [smulAuxG]
    by_cases hk : k = 0
    · subst hk; simp
    · rw [if_neg hk, ih (k / 2) _ _ (by rw [pow_succ] at h; omega)]
      rcases Nat.mod_two_eq_zero_or_one k with h2 | h2
      · have hk2 : k = 2 * (k / 2) := by omega
        rw [if_neg (by omega)]
        conv_rhs => rw [hk2]
        module
      · have hk2 : k = 2 * (k / 2) + 1 := by omega
        rw [if_pos h2]
        conv_rhs => rw [hk2]
        module

theorem smulG_spec {G : Type} [AddCommMonoid G] (k : Nat) (P : G) : smulG k P = k • P := by
  unfold smulG
  rw [smulAuxG_spec _ _ _ _
    (Nat.lt_trans Nat.lt_log2_self (Nat.pow_lt_pow_right (by decide) (Nat.lt_succ_self _))),
    zero_add]

/-- the same, for bare `Add`/`Zero` instances that are the operations of *some* additive
    commutative monoid structure `M` on the carrier: the recursion computes `M`'s `k • P` -/
theorem smulG_of_structure {G : Type} (A : Add G) (Z : Zero G) (M : AddCommMonoid G)
    (hadd : ∀ a b : G, A.add a b = M.add a b) (hz : Z.zero = M.zero) (k : Nat) (P : G) :
    @smulG G A Z k P = M.nsmul k P := by
  have hA : A = @AddSemigroup.toAdd G (@AddMonoid.toAddSemigroup G M.toAddMonoid) := by
    cases A; congr; funext a b; exact hadd a b
  have hZ : Z = @AddZero.toZero G (@AddZeroClass.toAddZero G
      (@AddMonoid.toAddZeroClass G M.toAddMonoid)) := by
    cases Z; congr
  subst hA hZ
  exact smulG_spec k P

theorem affPt_smulAux_eq {p : Nat} {E : SWParams p} (fuel k : Nat) (base acc : AffPt p E) :
    AffPt.smulAux fuel k base acc = smulAuxG fuel k base acc := by
  induction fuel generalizing k base acc with
  | zero => rfl
  | succ fuel ih =>
    rw [AffPt.smulAux, smulAuxG, ih]; rfl

theorem affPt_smul_eq {p : Nat} {E : SWParams p} (k : Nat) (P : AffPt p E) :
    AffPt.smul k P = smulG k P := affPt_smulAux_eq _ _ _ _

theorem tePt_smulAux_eq {p : Nat} {E : TEParams p} (fuel k : Nat) (base acc : TEPt p E) :
    TEPt.smulAux fuel k base acc = smulAuxG fuel k base acc := by
  induction fuel generalizing k base acc with
  | zero => rfl
  | succ fuel ih =>
    rw [TEPt.smulAux, smulAuxG, ih]; rfl

theorem tePt_smul_eq {p : Nat} {E : TEParams p} (k : Nat) (P : TEPt p E) :
    TEPt.smul k P = smulG k P := tePt_smulAux_eq _ _ _ _

end adequacy

end Ark.ScalarMul
