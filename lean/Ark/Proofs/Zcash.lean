import Ark.Model.Zcash
import Ark.Proofs.Bytes
import Ark.Proofs.BytesSqrt
/-
  Ark.Proofs.Zcash — helper lemmas of property C10b / C09 for the ZCash point encoding of
  `ark-bls12-381` (`Ark.Model.Zcash`).

  Structure
  * §1 flag byte: `getFlags`, `encodeFlags`, `removeFlags` on the first byte (closed facts by `decide`);
  * §2 field codec: `serializeFq c x = (toB 48 x.val).reverse`, `deserializeFq c bs = fromBigint c (leVal bs.reverse)`;
  * §3 a generic, PURE description of the four readers over a coordinate codec `FCodec F`
    (`parseC`, `parseU`, `deGen`, `serGen`) with the theorems validity / round trip / uniqueness;
  * §4 glue: the monadic readers of the model are `read_exact` followed by the pure parser
    (`g1Deserialize_eq`, `g2Deserialize_eq`), the serialisers are `serGen` definitionally.
-/
open Ark Ark.Bytes
set_option linter.unusedSimpArgs false
set_option linter.unusedSectionVars false
set_option linter.unusedVariables false
set_option exponentiation.threshold 512

namespace Ark.Zcash

/-! ## 0. Well-formedness of the base-field configuration -/

/-- what the ZCash format needs from `FpConfig<N>`: six limbs (`BigInteger384`, read by `serialize_fq`)
    and a modulus of at most 381 bits, so that the three top bits of the 48-byte big-endian integer
    are free for the flags.  No lower bound is needed: the size is the constant 48. -/
def ZcashCfg (c : FpCfg) : Prop := c.N = 6 ∧ 0 < c.p ∧ c.p ≤ 2 ^ 381

instance (c : FpCfg) : Decidable (ZcashCfg c) := by unfold ZcashCfg; infer_instance

theorem ZcashCfg.p_lt {c : FpCfg} (h : ZcashCfg c) : c.p < 2 ^ (64 * c.N) := by
  obtain ⟨h1, -, h3⟩ := h
  rw [h1]
  exact Nat.lt_of_le_of_lt h3 (by decide)

/-! ## 1. The flag byte -/

/-- body of `get_flags` on the first byte -/
def flagsOfByte (b0 : Nat) : Res EncodingFlags :=
  let isCompressed := (b0 >>> 7) &&& 1 == 1
  let isInfinity := (b0 >>> 6) &&& 1 == 1
  let isLargest := (b0 >>> 5) &&& 1 == 1
  if isLargest && (!isCompressed || isInfinity) then .err .invalid
  else .ok ⟨isCompressed, isInfinity, isLargest⟩

/-- body of `encode_flags` on the first byte -/
def encByte (f : EncodingFlags) (b0 : Nat) : Nat :=
  let b0 := if f.isCompressed then b0 ||| 128 else b0
  let b0 := if f.isInfinity then b0 ||| 64 else b0
  if f.isCompressed && !f.isInfinity && f.isLexographicallyLargest then b0 ||| 32 else b0

theorem getFlags_cons (b0 : Nat) (rest : List Nat) : getFlags (b0 :: rest) = flagsOfByte b0 := rfl

theorem encodeFlags_cons (f : EncodingFlags) (b0 : Nat) (rest : List Nat) :
    encodeFlags f (b0 :: rest) = .ok (encByte f b0 :: rest) := rfl

theorem removeFlags_cons (b0 : Nat) (rest : List Nat) : removeFlags (b0 :: rest) = .ok ((b0 &&& 31) :: rest) := rfl

theorem getFlags_ne_panic (bs : List Nat) (h : bs ≠ []) : getFlags bs ≠ .panic := by
  cases bs with
  | nil => exact absurd rfl h
  | cons b0 rest =>
    rw [getFlags_cons]
    unfold flagsOfByte
    simp only
    split <;> simp

/-- what `get_flags` reads back after `encode_flags`: the sort bit only survives on a compressed finite point -/
def EncodingFlags.norm (f : EncodingFlags) : EncodingFlags :=
  ⟨f.isCompressed, f.isInfinity, f.isCompressed && !f.isInfinity && f.isLexographicallyLargest⟩

/-- flags `get_flags` can return -/
def EncodingFlags.WF (f : EncodingFlags) : Prop :=
  ¬ (f.isLexographicallyLargest = true ∧ (f.isCompressed = false ∨ f.isInfinity = true))

theorem EncodingFlags.norm_of_wf (f : EncodingFlags) (h : f.WF) : f.norm = f := by
  obtain ⟨c, i, l⟩ := f
  unfold EncodingFlags.WF at h
  cases c <;> cases i <;> cases l <;> simp_all [EncodingFlags.norm]

theorem byte_enc_dec : ∀ b0, b0 < 32 → ∀ c i l : Bool,
    flagsOfByte (encByte ⟨c, i, l⟩ b0) = .ok (EncodingFlags.norm ⟨c, i, l⟩) ∧
      encByte ⟨c, i, l⟩ b0 &&& 31 = b0 := by
  intro b0 hb c i l
  revert b0
  cases c <;> cases i <;> cases l <;> decide


theorem byte_dec_enc_aux : ∀ b, b < 256 → ∀ c i l l' : Bool,
    (flagsOfByte b = .ok ⟨c, i, l⟩ ∧ (c && !i && l') = l) →
    encByte ⟨c, i, l'⟩ (b &&& 31) = b ∧ (l = true → c = true ∧ i = false) := by
  intro b hb c i l l'
  revert b
  cases c <;> cases i <;> cases l <;> cases l' <;> decide +kernel

theorem byte_dec_enc (b : Nat) (hb : b < 256) (f : EncodingFlags) (l' : Bool) (h : flagsOfByte b = .ok f)
    (hl : (f.isCompressed && !f.isInfinity && l') = f.isLexographicallyLargest) :
    encByte ⟨f.isCompressed, f.isInfinity, l'⟩ (b &&& 31) = b :=
  (byte_dec_enc_aux b hb f.isCompressed f.isInfinity f.isLexographicallyLargest l' ⟨h, hl⟩).1

theorem flagsOfByte_wf (b : Nat) (f : EncodingFlags) (h : flagsOfByte b = .ok f) : f.WF := by
  unfold flagsOfByte at h
  simp only at h
  split at h
  · cases h
  · next hn =>
    cases h
    unfold EncodingFlags.WF
    simp only
    intro hh
    apply hn
    rcases hh with ⟨h1, h2 | h2⟩ <;> rw [h1, h2] <;> simp

theorem and31_lt (b : Nat) : b &&& 31 < 32 := Nat.and_lt_two_pow b (n := 5) (by decide)

theorem and31_le (b : Nat) : b &&& 31 ≤ b := Nat.and_le_left

/-! ## 2. The field codec: 48 big-endian bytes -/

theorem beVal_foldl (l : List Nat) (acc : Nat) :
    l.foldl (fun acc b => acc * 256 + b) acc = acc * 256 ^ l.length + leVal l.reverse := by
  induction l generalizing acc with
  | nil => simp [leVal]
  | cons x xs ih =>
    rw [List.foldl_cons, ih, List.reverse_cons, leVal_append, List.length_reverse, List.length_cons]
    simp only [leVal, Nat.pow_succ]
    ring

theorem beVal_eq (l : List Nat) : beVal l = leVal l.reverse := by
  unfold beVal; rw [beVal_foldl]; simp

theorem be8_eq (x : Nat) : be8 x = (toB 8 x).reverse := by
  unfold be8; rw [le8_eq_toB]

theorem leVal_reverse_split (l : List Nat) (k : Nat) :
    leVal l.reverse = leVal (l.drop k).reverse + 256 ^ (l.drop k).length * leVal (l.take k).reverse := by
  conv_lhs => rw [← List.take_append_drop k l]
  rw [List.reverse_append, leVal_append, List.length_reverse]

theorem serializeFq_eq (c : FpCfg) (hN : c.N = 6) (x : Fp c.p) :
    serializeFq c x = (toB 48 x.val).reverse := by
  have h := flatten_le8_toLimbs 6 x.val
  unfold serializeFq intoBigint
  rw [hN]
  rw [show (8 * 6 : Nat) = 48 from rfl] at h
  rw [← h]
  have hr : List.range 6 = [0, 1, 2, 3, 4, 5] := by decide
  simp only [hr, toLimbs, List.map_cons, List.map_nil, List.flatten_cons, List.flatten_nil, be8,
    Nat.reduceSub, List.getD_cons_zero, List.getD_cons_succ, List.reverse_append, List.append_nil,
    List.reverse_nil, List.nil_append, List.append_assoc]

theorem deserializeFq_eq (c : FpCfg) (bs : List Nat) (h : bs.length = 48) :
    deserializeFq c bs = fromBigint c (leVal bs.reverse) := by
  unfold deserializeFq
  have hr : List.range 6 = [0, 1, 2, 3, 4, 5] := by decide
  simp only [hr, List.map, beVal_eq]
  congr 1
  have e0 := leVal_reverse_split bs 8
  have e1 := leVal_reverse_split (bs.drop 8) 8
  have e2 := leVal_reverse_split (bs.drop 16) 8
  have e3 := leVal_reverse_split (bs.drop 24) 8
  have e4 := leVal_reverse_split (bs.drop 32) 8
  have e5 : (bs.drop 40).take 8 = bs.drop 40 := List.take_of_length_le (by simp [h])
  simp only [List.drop_drop, List.length_drop, h, Nat.reduceAdd, Nat.reduceSub] at e0 e1 e2 e3 e4
  simp only [value, Nat.reduceMul, Nat.reduceSub, List.drop_zero, e5, B_eq_256]
  rw [e0, e1, e2, e3, e4]
  ring

theorem serializeFq_length (c : FpCfg) (hN : c.N = 6) (x : Fp c.p) : (serializeFq c x).length = 48 := by
  rw [serializeFq_eq c hN, List.length_reverse, toB_length]

theorem serializeFq_lt (c : FpCfg) (hN : c.N = 6) (x : Fp c.p) : ∀ b ∈ serializeFq c x, b < 256 := by
  intro b hb
  rw [serializeFq_eq c hN, List.mem_reverse] at hb
  exact toB_lt _ _ b hb

/-- the first byte of the encoding is the top byte of the integer -/
theorem serializeFq_head (c : FpCfg) (hN : c.N = 6) (x : Fp c.p) :
    ∃ rest, serializeFq c x = (x.val / 256 ^ 47 % 256) :: rest := by
  rw [serializeFq_eq c hN, show (48 : Nat) = 47 + 1 from rfl, toB_add]
  refine ⟨(toB 47 x.val).reverse, ?_⟩
  simp [toB]

theorem serializeFq_top (c : FpCfg) (h : ZcashCfg c) (x : Fp c.p) (hx : x.val < c.p) :
    ∃ b0 rest, serializeFq c x = b0 :: rest ∧ b0 < 32 := by
  obtain ⟨rest, hr⟩ := serializeFq_head c h.1 x
  refine ⟨_, rest, hr, ?_⟩
  have h1 : x.val < 2 ^ 381 := Nat.lt_of_lt_of_le hx h.2.2
  have h2 : x.val / 256 ^ 47 < 32 := by
    rw [Nat.div_lt_iff_lt_mul (Nat.pow_pos (by decide))]
    exact Nat.lt_of_lt_of_le h1 (by decide)
  omega

theorem deserialize_serialize (c : FpCfg) (h : ZcashCfg c) (x : Fp c.p) (hx : x.val < c.p) :
    deserializeFq c (serializeFq c x) = some x := by
  rw [deserializeFq_eq c _ (serializeFq_length c h.1 x), serializeFq_eq c h.1, List.reverse_reverse,
    leVal_toB, Nat.mod_eq_of_lt, fromBigint_reduced c x hx]
  exact Nat.lt_of_lt_of_le (Nat.lt_of_lt_of_le hx h.2.2) (by decide)

theorem serialize_deserialize (c : FpCfg) (h : ZcashCfg c) (bs : List Nat) (x : Fp c.p)
    (hl : bs.length = 48) (hb : ∀ b ∈ bs, b < 256) (hd : deserializeFq c bs = some x) :
    serializeFq c x = bs ∧ x.val < c.p := by
  rw [deserializeFq_eq c _ hl] at hd
  obtain ⟨hv, hlt⟩ := fromBigint_some h.2.1 hd
  refine ⟨?_, by omega⟩
  have hb' : ∀ b ∈ bs.reverse, b < 256 := fun b hm => hb b (List.mem_reverse.mp hm)
  have := toB_leVal_add bs.reverse hb' 0
  rw [List.length_reverse, hl, Nat.mul_zero, Nat.add_zero] at this
  rw [serializeFq_eq c h.1, hv, this, List.reverse_reverse]

theorem serializeFq_zero (c : FpCfg) (hN : c.N = 6) : serializeFq c (0 : Fp c.p) = List.replicate 48 0 := by
  rw [serializeFq_eq c hN]
  show (toB 48 0).reverse = _
  decide

/-! ## 3. A pure description of the readers, generic in the coordinate codec -/

section generic
variable {F : Type} [Add F] [Sub F] [Mul F] [Neg F] [Zero F] [One F] [Inv F] [DecidableEq F]

/-- how one coordinate is written: `n` bytes, flags-free -/
structure FCodec (F : Type) where
  n : Nat
  ser : F → List Nat
  de : List Nat → Option F

structure FCodecOK (C : FCodec F) (canon : F → Prop) : Prop where
  n_pos : 0 < C.n
  ser_len : ∀ x, (C.ser x).length = C.n
  ser_lt : ∀ x, ∀ b ∈ C.ser x, b < 256
  ser_top : ∀ x, canon x → ∃ b0 rest, C.ser x = b0 :: rest ∧ b0 < 32
  rt : ∀ x, canon x → C.de (C.ser x) = some x
  uniq : ∀ bs x, bs.length = C.n → (∀ b ∈ bs, b < 256) → C.de bs = some x → C.ser x = bs ∧ canon x
  de_canon : ∀ bs x, C.de bs = some x → canon x
  ser_zero : C.ser 0 = List.replicate C.n 0
  canon_zero : canon 0

/-- `remove_flags` on a copy -/
def maskTop : List Nat → List Nat
  | [] => []
  | b :: r => (b &&& 31) :: r

/-- compressed reader after `read_exact` -/
def parseC (C : FCodec F) (K : Codec F) (E : SWCfg F) (bytes : List Nat) : Res (SWAff F) :=
  match getFlags bytes with
  | .panic => .panic
  | .err e => .err e
  | .ok fl =>
    if fl.isCompressed = false then .err .flags
    else if fl.isInfinity = true then
      (if maskTop bytes = List.replicate C.n 0 then .ok SWAff.identity else .err .invalid)
    else match C.de (maskTop bytes) with
      | none => .err .invalid
      | some x =>
        match swGetPointFromX K E x fl.isLexographicallyLargest with
        | none => .err .invalid
        | some p => .ok p

/-- uncompressed reader after `read_exact` -/
def parseU (C : FCodec F) (bytes : List Nat) : Res (SWAff F) :=
  match getFlags bytes with
  | .panic => .panic
  | .err e => .err e
  | .ok fl =>
    if fl.isCompressed = true then .err .flags
    else if fl.isInfinity = true then
      (if maskTop bytes = List.replicate (2 * C.n) 0 then .ok SWAff.identity else .err .invalid)
    else match C.de ((maskTop bytes).take C.n) with
      | none => .err .invalid
      | some x =>
        match C.de (bytes.drop C.n) with
        | none => .err .invalid
        | some y => .ok ⟨x, y, false⟩

def parseGen (C : FCodec F) (K : Codec F) (E : SWCfg F) (cm : Compress) (bytes : List Nat) : Res (SWAff F) :=
  if cm = .yes then parseC C K E bytes else parseU C bytes

/-- `deserialize_with_mode` after `read_exact` -/
def deGen (C : FCodec F) (K : Codec F) (E : SWCfg F) (cm : Compress) (vd : Validate) (bytes : List Nat) :
    Res (SWAff F) :=
  match parseGen C K E cm bytes with
  | .ok p => if (vd = .yes && !(swIsOnCurve E p && E.inSubgroup p)) = true then .err .invalid else .ok p
  | .err e => .err e
  | .panic => .panic

/-- `serialize_with_mode` -/
def serGen (C : FCodec F) (K : Codec F) (item : SWAff F) (compress : Compress) : Res (List Nat) :=
  let encoding : EncodingFlags :=
    { isCompressed := compress == .yes, isInfinity := item.infinity,
      isLexographicallyLargest := K.lt (-item.y) item.y }
  let p := if encoding.isInfinity then SWAff.identity else item
  let xBytes := C.ser p.x
  if encoding.isCompressed then Res.ofOutcome (encodeFlags encoding xBytes)
  else Res.ofOutcome (encodeFlags encoding (xBytes ++ C.ser p.y))

def sizeGen (C : FCodec F) (cm : Compress) : Nat := if cm = .yes then C.n else 2 * C.n

/-! ### no panic -/

theorem parseC_ne_panic (C : FCodec F) (K : Codec F) (E : SWCfg F) (bytes : List Nat) (h : bytes ≠ []) :
    parseC C K E bytes ≠ .panic := by
  have := getFlags_ne_panic bytes h
  unfold parseC
  cases hg : getFlags bytes with
  | panic => exact absurd hg this
  | err e => simp
  | ok fl =>
    simp only
    split
    · simp
    · split
      · split <;> simp
      · split
        · simp
        · split <;> simp

theorem parseU_ne_panic (C : FCodec F) (bytes : List Nat) (h : bytes ≠ []) :
    parseU C bytes ≠ .panic := by
  have := getFlags_ne_panic bytes h
  unfold parseU
  cases hg : getFlags bytes with
  | panic => exact absurd hg this
  | err e => simp
  | ok fl =>
    simp only
    split
    · simp
    · split
      · split <;> simp
      · split
        · simp
        · split <;> simp

theorem deGen_ne_panic (C : FCodec F) (K : Codec F) (E : SWCfg F) (cm : Compress) (vd : Validate)
    (bytes : List Nat) (h : bytes ≠ []) : deGen C K E cm vd bytes ≠ .panic := by
  have h1 : parseGen C K E cm bytes ≠ .panic := by
    unfold parseGen
    split
    · exact parseC_ne_panic C K E bytes h
    · exact parseU_ne_panic C bytes h
  unfold deGen
  cases hp : parseGen C K E cm bytes with
  | panic => exact absurd hp h1
  | err e => simp
  | ok p => simp only; split <;> simp

/-! ### validity -/

theorem deGen_ok_inv {C : FCodec F} {K : Codec F} {E : SWCfg F} {cm : Compress} {vd : Validate}
    {bytes : List Nat} {P : SWAff F} (h : deGen C K E cm vd bytes = .ok P) :
    parseGen C K E cm bytes = .ok P ∧ (vd = .yes → swIsOnCurve E P = true ∧ E.inSubgroup P = true) := by
  unfold deGen at h
  cases hp : parseGen C K E cm bytes with
  | panic => rw [hp] at h; cases h
  | err e => rw [hp] at h; cases h
  | ok p =>
    rw [hp] at h
    simp only at h
    split at h
    · cases h
    · next hn =>
      cases h
      refine ⟨rfl, fun hv => ?_⟩
      subst hv
      simpa using hn

theorem swGetPoint_inv {K : Codec F} {E : SWCfg F} {x : F} {g : Bool} {P : SWAff F}
    (h : swGetPointFromX K E x g = some P) :
    ∃ y1 y2, swGetYsFromX K E x = some (y1, y2) ∧ P = ⟨x, if g = true then y2 else y1, false⟩ := by
  unfold swGetPointFromX at h
  cases hg : swGetYsFromX K E x with
  | none => rw [hg] at h; cases h
  | some q =>
    obtain ⟨y1, y2⟩ := q
    rw [hg] at h
    simp only [Option.map_some, Option.some.injEq] at h
    refine ⟨y1, y2, rfl, ?_⟩
    rw [← h]
    cases g <;> simp

/-- the sign rule of the format: the sort flag written for `y` selects `y` again -/
theorem swGetPoint_select {K : Codec F} {canon : F → Prop} (hL : SignLaws F canon) (hS : SqrtOK K canon)
    (hO : LtOK K canon) (E : SWCfg F) (x y : F) (hy : canon y) (hon : y * y = swRhs E x) :
    swGetPointFromX K E x (K.lt (-y) y) = some ⟨x, y, false⟩ := by
  obtain ⟨y1, y2, hg⟩ := swGetYs_some (K := K) hL hS E x y hy hon
  obtain ⟨e2, l, e, c1, c2⟩ := swGetYs_spec hL hS hO E x y1 y2 hg
  unfold swGetPointFromX
  rw [hg]
  simp only [Option.map_some, Option.some.injEq]
  subst e2
  rcases hL.sq_eq y y1 hy c1 (by rw [e, hon]) with e1 | e1
  · subst e1
    rw [l]; simp
  · subst e1
    rw [hL.neg_neg y hy] at l ⊢
    by_cases hlt : K.lt (-y) y = true
    · rw [hlt]; simp
    · have hlt' : K.lt (-y) y = false := by simpa using hlt
      rw [hlt']
      simp only [Bool.false_eq_true, if_false]
      rw [hO.total _ _ (hL.canon_neg _) hy hlt' l]

theorem parseC_ok_inv {C : FCodec F} {K : Codec F} {E : SWCfg F} {bytes : List Nat} {P : SWAff F}
    (h : parseC C K E bytes = .ok P) :
    ∃ fl, getFlags bytes = .ok fl ∧ fl.isCompressed = true ∧
      ((fl.isInfinity = true ∧ maskTop bytes = List.replicate C.n 0 ∧ P = SWAff.identity) ∨
       (fl.isInfinity = false ∧ ∃ x, C.de (maskTop bytes) = some x ∧
          swGetPointFromX K E x fl.isLexographicallyLargest = some P)) := by
  unfold parseC at h
  cases hg : getFlags bytes with
  | panic => rw [hg] at h; cases h
  | err e => rw [hg] at h; cases h
  | ok fl =>
    rw [hg] at h
    simp only at h
    refine ⟨fl, rfl, ?_⟩
    cases hc : fl.isCompressed with
    | false => rw [hc] at h; simp at h
    | true =>
      rw [hc] at h
      simp only [Bool.true_eq_false, if_false] at h
      refine ⟨rfl, ?_⟩
      cases hi : fl.isInfinity with
      | true =>
        rw [hi] at h
        simp only [if_true] at h
        split at h
        · next hz => cases h; exact Or.inl ⟨rfl, hz, rfl⟩
        · cases h
      | false =>
        rw [hi] at h
        simp only [Bool.false_eq_true, if_false] at h
        refine Or.inr ⟨rfl, ?_⟩
        cases hd : C.de (maskTop bytes) with
        | none => rw [hd] at h; cases h
        | some x =>
          rw [hd] at h
          simp only at h
          refine ⟨x, rfl, ?_⟩
          cases hq : swGetPointFromX K E x fl.isLexographicallyLargest with
          | none => rw [hq] at h; cases h
          | some p => rw [hq] at h; cases h; rfl

theorem parseU_ok_inv {C : FCodec F} {bytes : List Nat} {P : SWAff F}
    (h : parseU C bytes = .ok P) :
    ∃ fl, getFlags bytes = .ok fl ∧ fl.isCompressed = false ∧
      ((fl.isInfinity = true ∧ maskTop bytes = List.replicate (2 * C.n) 0 ∧ P = SWAff.identity) ∨
       (fl.isInfinity = false ∧ ∃ x y, C.de ((maskTop bytes).take C.n) = some x ∧
          C.de (bytes.drop C.n) = some y ∧ P = ⟨x, y, false⟩)) := by
  unfold parseU at h
  cases hg : getFlags bytes with
  | panic => rw [hg] at h; cases h
  | err e => rw [hg] at h; cases h
  | ok fl =>
    rw [hg] at h
    simp only at h
    refine ⟨fl, rfl, ?_⟩
    cases hc : fl.isCompressed with
    | true => rw [hc] at h; simp at h
    | false =>
      rw [hc] at h
      simp only [Bool.false_eq_true, if_false] at h
      refine ⟨rfl, ?_⟩
      cases hi : fl.isInfinity with
      | true =>
        rw [hi] at h
        simp only [if_true] at h
        split at h
        · next hz => cases h; exact Or.inl ⟨rfl, hz, rfl⟩
        · cases h
      | false =>
        rw [hi] at h
        simp only [Bool.false_eq_true, if_false] at h
        refine Or.inr ⟨rfl, ?_⟩
        cases hd : C.de ((maskTop bytes).take C.n) with
        | none => rw [hd] at h; cases h
        | some x =>
          rw [hd] at h
          simp only at h
          cases hq : C.de (bytes.drop C.n) with
          | none => rw [hq] at h; cases h
          | some y => rw [hq] at h; cases h; exact ⟨x, y, rfl, rfl, rfl⟩

/-- every point the compressed reader returns lies on the curve (and has canonical coordinates) -/
theorem parseC_on_curve {C : FCodec F} {K : Codec F} {canon : F → Prop} (hC : FCodecOK C canon)
    (hL : SignLaws F canon) (hS : SqrtOK K canon) (hO : LtOK K canon) {E : SWCfg F} {bytes : List Nat}
    {P : SWAff F} (h : parseC C K E bytes = .ok P) :
    swIsOnCurve E P = true ∧ canon P.x ∧ canon P.y ∧ (P.infinity = true → P = SWAff.identity) := by
  obtain ⟨fl, -, -, ⟨-, -, rfl⟩ | ⟨-, x, hx, hq⟩⟩ := parseC_ok_inv h
  · exact ⟨rfl, hC.canon_zero, hC.canon_zero, fun _ => rfl⟩
  · obtain ⟨y1, y2, hg, rfl⟩ := swGetPoint_inv hq
    obtain ⟨e2, l, e, c1, c2⟩ := swGetYs_spec hL hS hO E x y1 y2 hg
    refine ⟨?_, hC.de_canon _ _ hx, ?_, fun hh => by cases hh⟩
    · rw [swIsOnCurve_iff E _ rfl]
      simp only
      split
      · rw [e2, hL.neg_sq, e]
      · exact e
    · simp only
      split
      · exact c2
      · exact c1

theorem parseU_canon {C : FCodec F} {canon : F → Prop} (hC : FCodecOK C canon) {bytes : List Nat}
    {P : SWAff F} (h : parseU C bytes = .ok P) :
    canon P.x ∧ canon P.y ∧ (P.infinity = true → P = SWAff.identity) := by
  obtain ⟨fl, -, -, ⟨-, -, rfl⟩ | ⟨-, x, y, hx, hy, rfl⟩⟩ := parseU_ok_inv h
  · exact ⟨hC.canon_zero, hC.canon_zero, fun _ => rfl⟩
  · exact ⟨hC.de_canon _ _ hx, hC.de_canon _ _ hy, fun hh => by cases hh⟩

/-! ### round trip -/

theorem maskTop_cons (b : Nat) (r : List Nat) : maskTop (b :: r) = (b &&& 31) :: r := rfl

theorem maskTop_length (l : List Nat) : (maskTop l).length = l.length := by
  cases l <;> rfl

theorem maskTop_lt (l : List Nat) (h : ∀ b ∈ l, b < 256) : ∀ b ∈ maskTop l, b < 256 := by
  cases l with
  | nil => exact h
  | cons b r =>
    intro a ha
    rw [maskTop_cons, List.mem_cons] at ha
    rcases ha with rfl | ha
    · exact Nat.lt_of_le_of_lt (and31_le b) (h b (by simp))
    · exact h a (by simp [ha])

theorem serGen_rt_parse {C : FCodec F} {K : Codec F} {canon : F → Prop} (hC : FCodecOK C canon)
    (hL : SignLaws F canon) (hS : SqrtOK K canon) (hO : LtOK K canon) (E : SWCfg F) (P : SWAff F)
    (hc : P.infinity = false → canon P.x ∧ canon P.y) (cm : Compress)
    (hon : cm = .yes → swIsOnCurve E P = true)
    (bs : List Nat) (hs : serGen C K P cm = .ok bs) :
    bs.length = sizeGen C cm ∧
      parseGen C K E cm bs = .ok (if P.infinity = true then SWAff.identity else P) := by
  obtain ⟨x, y, inf⟩ := P
  unfold serGen at hs
  simp only at hs
  unfold sizeGen parseGen
  cases cm with
  | yes =>
    simp only [beq_self_eq_true, if_true] at hs ⊢
    cases inf with
    | true =>
      simp only [if_true] at hs ⊢
      obtain ⟨b0, rest, h0, hb0⟩ := hC.ser_top 0 hC.canon_zero
      have hz : C.ser (SWAff.identity (F := F)).x = b0 :: rest := h0
      rw [hz, encodeFlags_cons] at hs
      cases hs
      have hl := hC.ser_len 0
      rw [h0] at hl
      refine ⟨hl, ?_⟩
      obtain ⟨hf, hm⟩ := byte_enc_dec b0 hb0 true true (K.lt (-y) y)
      unfold parseC
      rw [getFlags_cons, hf]
      simp only [EncodingFlags.norm, Bool.true_eq_false, if_false, if_true, maskTop_cons, hm, ← h0, hC.ser_zero]
    | false =>
      obtain ⟨hx, hy⟩ := hc rfl
      simp only [Bool.false_eq_true, if_false] at hs ⊢
      obtain ⟨b0, rest, h0, hb0⟩ := hC.ser_top x hx
      rw [h0, encodeFlags_cons] at hs
      cases hs
      have hl := hC.ser_len x
      rw [h0] at hl
      refine ⟨hl, ?_⟩
      obtain ⟨hf, hm⟩ := byte_enc_dec b0 hb0 true false (K.lt (-y) y)
      have hon' := (swIsOnCurve_iff E ⟨x, y, false⟩ rfl).mp (hon rfl)
      unfold parseC
      rw [getFlags_cons, hf]
      simp only [EncodingFlags.norm, Bool.true_eq_false, Bool.false_eq_true, if_false, maskTop_cons, hm,
        ← h0, hC.rt x hx, Bool.not_false, Bool.and_self, Bool.true_and,
        swGetPoint_select hL hS hO E x y hy hon']
  | no =>
    have hne : (Compress.no == Compress.yes) = false := by decide
    simp only [hne, Bool.false_eq_true, if_false, reduceCtorEq] at hs ⊢
    cases inf with
    | true =>
      simp only [if_true] at hs ⊢
      obtain ⟨b0, rest, h0, hb0⟩ := hC.ser_top 0 hC.canon_zero
      have hz : C.ser (SWAff.identity (F := F)).x = b0 :: rest := h0
      have hz' : C.ser (SWAff.identity (F := F)).y = C.ser 0 := rfl
      rw [hz, hz', List.cons_append, encodeFlags_cons] at hs
      cases hs
      have hl := hC.ser_len 0
      have hl' := hl
      rw [h0] at hl
      refine ⟨by simp only [List.length_cons, List.length_append, hl'] at hl ⊢; omega, ?_⟩
      obtain ⟨hf, hm⟩ := byte_enc_dec b0 hb0 false true (K.lt (-y) y)
      unfold parseU
      rw [getFlags_cons, hf]
      have hrep : b0 :: (rest ++ C.ser 0) = List.replicate (2 * C.n) 0 := by
        rw [← List.cons_append, ← h0, hC.ser_zero, List.replicate_append_replicate, Nat.two_mul]
      simp only [EncodingFlags.norm, Bool.false_eq_true, if_false, if_true, maskTop_cons, hm, hrep]
    | false =>
      obtain ⟨hx, hy⟩ := hc rfl
      simp only [Bool.false_eq_true, if_false] at hs ⊢
      obtain ⟨b0, rest, h0, hb0⟩ := hC.ser_top x hx
      rw [h0, List.cons_append, encodeFlags_cons] at hs
      cases hs
      have hl := hC.ser_len x
      have hly := hC.ser_len y
      rw [h0] at hl
      refine ⟨by simp only [List.length_cons, List.length_append, hly] at hl ⊢; omega, ?_⟩
      obtain ⟨hf, hm⟩ := byte_enc_dec b0 hb0 false false (K.lt (-y) y)
      unfold parseU
      rw [getFlags_cons, hf]
      have ht : (b0 :: (rest ++ C.ser y)).take C.n = C.ser x := by
        rw [← List.cons_append, ← h0]; exact List.take_left' (hC.ser_len x)
      have hd : (encByte ⟨false, false, K.lt (-y) y⟩ b0 :: (rest ++ C.ser y)).drop C.n = C.ser y := by
        rw [← List.cons_append]; exact List.drop_left' hl
      simp only [EncodingFlags.norm, Bool.false_eq_true, if_false, maskTop_cons, hm, ht, hd, hC.rt x hx,
        hC.rt y hy]

/-- round trip of the pure functions -/
theorem serGen_rt {C : FCodec F} {K : Codec F} {canon : F → Prop} (hC : FCodecOK C canon)
    (hL : SignLaws F canon) (hS : SqrtOK K canon) (hO : LtOK K canon) (E : SWCfg F) (P : SWAff F)
    (hc : P.infinity = false → canon P.x ∧ canon P.y) (cm : Compress) (vd : Validate)
    (hon : cm = .yes → swIsOnCurve E P = true)
    (bs : List Nat) (hs : serGen C K P cm = .ok bs) :
    bs.length = sizeGen C cm ∧
      deGen C K E cm vd bs =
        if vd = .yes ∧ swCheck E (if P.infinity = true then SWAff.identity else P) = false then .err .invalid
        else .ok (if P.infinity = true then SWAff.identity else P) := by
  obtain ⟨h1, h2⟩ := serGen_rt_parse hC hL hS hO E P hc cm hon bs hs
  refine ⟨h1, ?_⟩
  unfold deGen
  rw [h2]
  simp only [swCheck]
  generalize (if P.infinity = true then SWAff.identity else P) = P'
  cases vd with
  | no => simp
  | yes =>
    by_cases hchk : (swIsOnCurve E P' && E.inSubgroup P') = true
    · simp [hchk]
    · have hf : (swIsOnCurve E P' && E.inSubgroup P') = false := by simpa using hchk
      simp [hf]

theorem serGen_ok (C : FCodec F) (K : Codec F) {canon : F → Prop} (hC : FCodecOK C canon) (P : SWAff F)
    (cm : Compress) : ∃ bs, serGen C K P cm = .ok bs := by
  have hne : ∀ x : F, ∃ b0 rest, C.ser x = b0 :: rest := by
    intro x
    have := hC.ser_len x
    cases hx : C.ser x with
    | nil => rw [hx] at this; have := hC.n_pos; simp only [List.length_nil] at *; omega
    | cons b r => exact ⟨b, r, rfl⟩
  unfold serGen
  simp only
  split
  · obtain ⟨b0, rest, h0⟩ := hne (if P.infinity = true then SWAff.identity else P).x
    rw [h0, encodeFlags_cons]; exact ⟨_, rfl⟩
  · obtain ⟨b0, rest, h0⟩ := hne (if P.infinity = true then SWAff.identity else P).x
    rw [h0, List.cons_append, encodeFlags_cons]; exact ⟨_, rfl⟩

/-! ### uniqueness of accepted encodings -/

theorem drop_maskTop (l : List Nat) (k : Nat) (hk : 0 < k) : (maskTop l).drop k = l.drop k := by
  cases l with
  | nil => rfl
  | cons b r =>
    obtain ⟨k', rfl⟩ := Nat.exists_eq_succ_of_ne_zero (Nat.pos_iff_ne_zero.mp hk)
    rfl

/-- an accepted byte string is what the serialiser writes for the point it decodes to — except when the sort
    flag is set on a point with `y = −y` (then the serialiser clears it) -/
theorem parseGen_uniq {C : FCodec F} {K : Codec F} {canon : F → Prop} (hC : FCodecOK C canon)
    (hL : SignLaws F canon) (hS : SqrtOK K canon) (hO : LtOK K canon) (E : SWCfg F) (cm : Compress)
    (bytes : List Nat) (hlen : bytes.length = sizeGen C cm) (hb : ∀ b ∈ bytes, b < 256) (P : SWAff F)
    (h : parseGen C K E cm bytes = .ok P)
    (hy : cm = .yes → P.infinity = false → -P.y ≠ P.y) :
    serGen C K P cm = .ok bytes := by
  have hnpos := hC.n_pos
  unfold sizeGen at hlen
  unfold parseGen at h
  cases bytes with
  | nil => exfalso; simp only [List.length_nil] at hlen; split at hlen <;> omega
  | cons b rest =>
  have hb0 : b < 256 := hb b (by simp)
  have hmlt := maskTop_lt _ hb
  cases cm with
  | yes =>
    simp only [if_true] at h hlen
    obtain ⟨fl, hfl, hcmp, ⟨hinf, hz, rfl⟩ | ⟨hinf, x, hx, hq⟩⟩ := parseC_ok_inv h
    · rw [getFlags_cons] at hfl
      have hwf := flagsOfByte_wf b fl hfl
      have hlg : fl.isLexographicallyLargest = false := by
        unfold EncodingFlags.WF at hwf
        cases hh : fl.isLexographicallyLargest with
        | false => rfl
        | true => exact absurd ⟨hh, Or.inr hinf⟩ hwf
      have he := byte_dec_enc b hb0 fl (K.lt (-(SWAff.identity (F := F)).y) (SWAff.identity (F := F)).y) hfl
        (by rw [hinf, hlg]; simp)
      rw [hcmp, hinf] at he
      unfold serGen
      simp only [beq_self_eq_true, if_true]
      have hz' : C.ser (SWAff.identity (F := F)).x = (b &&& 31) :: rest := by
        rw [← maskTop_cons, hz]; exact hC.ser_zero
      have hi : (SWAff.identity (F := F)).infinity = true := rfl
      simp only [hi, if_true, hz', encodeFlags_cons, he]
      rfl
    · obtain ⟨y1, y2, hg, rfl⟩ := swGetPoint_inv hq
      obtain ⟨e2, l, e, c1, c2⟩ := swGetYs_spec hL hS hO E x y1 y2 hg
      rw [getFlags_cons] at hfl
      have hsx := (hC.uniq _ x (by rw [maskTop_length]; exact hlen) hmlt hx).1
      have hy' := hy rfl rfl
      simp only at hy'
      have hlt : K.lt (-(if fl.isLexographicallyLargest = true then y2 else y1))
          (if fl.isLexographicallyLargest = true then y2 else y1) = fl.isLexographicallyLargest := by
        cases hg' : fl.isLexographicallyLargest with
        | true =>
          rw [hg'] at hy'
          simp only [if_true] at hy' ⊢
          rw [e2, hL.neg_neg y1 c1] at hy' ⊢
          cases hlt : K.lt y1 (-y1) with
          | true => rfl
          | false =>
            exfalso
            rw [e2] at l
            exact hy' (hO.total _ _ c1 (hL.canon_neg _) hlt l)
        | false =>
          simp only [Bool.false_eq_true, if_false]
          rw [← e2]; exact l
      have he := byte_dec_enc b hb0 fl fl.isLexographicallyLargest hfl (by
        rw [hcmp, hinf]; simp)
      rw [hcmp, hinf] at he
      unfold serGen
      simp only [beq_self_eq_true, if_true, Bool.false_eq_true, if_false, hsx, hlt, maskTop_cons,
        encodeFlags_cons, he]
      rfl
  | no =>
    simp only [reduceCtorEq, if_false] at h hlen
    have hne : (Compress.no == Compress.yes) = false := by decide
    obtain ⟨fl, hfl, hcmp, ⟨hinf, hz, rfl⟩ | ⟨hinf, x, y, hx, hy2, rfl⟩⟩ := parseU_ok_inv h
    · rw [getFlags_cons] at hfl
      have hwf := flagsOfByte_wf b fl hfl
      have hlg : fl.isLexographicallyLargest = false := by
        unfold EncodingFlags.WF at hwf
        cases hh : fl.isLexographicallyLargest with
        | false => rfl
        | true => exact absurd ⟨hh, Or.inr hinf⟩ hwf
      have he := byte_dec_enc b hb0 fl (K.lt (-(SWAff.identity (F := F)).y) (SWAff.identity (F := F)).y) hfl
        (by rw [hinf, hlg]; simp)
      rw [hcmp, hinf] at he
      unfold serGen
      have hz' : C.ser (SWAff.identity (F := F)).x ++ C.ser (SWAff.identity (F := F)).y =
          (b &&& 31) :: rest := by
        rw [← maskTop_cons, hz]
        show C.ser 0 ++ C.ser 0 = _
        rw [hC.ser_zero, List.replicate_append_replicate, Nat.two_mul]
      have hi : (SWAff.identity (F := F)).infinity = true := rfl
      simp only [hne, hi, if_true, Bool.false_eq_true, if_false, hz', encodeFlags_cons, he]
      rfl
    · rw [getFlags_cons] at hfl
      have hwf := flagsOfByte_wf b fl hfl
      have hlg : fl.isLexographicallyLargest = false := by
        unfold EncodingFlags.WF at hwf
        cases hh : fl.isLexographicallyLargest with
        | false => rfl
        | true => exact absurd ⟨hh, Or.inl hcmp⟩ hwf
      have he := byte_dec_enc b hb0 fl (K.lt (-y) y) hfl (by rw [hcmp, hlg]; simp)
      rw [hcmp, hinf] at he
      have hsx := (hC.uniq _ x (by rw [List.length_take, maskTop_length, hlen]; omega)
        (fun a ha => hmlt a (List.mem_of_mem_take ha)) hx).1
      have hsy := (hC.uniq _ y (by rw [List.length_drop, hlen]; omega)
        (fun a ha => hb a (List.mem_of_mem_drop ha)) hy2).1
      have hcat : C.ser x ++ C.ser y = (b &&& 31) :: rest := by
        rw [hsx, hsy, ← drop_maskTop _ _ hnpos, List.take_append_drop, maskTop_cons]
      unfold serGen
      simp only [hne, Bool.false_eq_true, if_false, hcat, encodeFlags_cons, he]
      rfl

theorem deGen_uniq {C : FCodec F} {K : Codec F} {canon : F → Prop} (hC : FCodecOK C canon)
    (hL : SignLaws F canon) (hS : SqrtOK K canon) (hO : LtOK K canon) (E : SWCfg F) (cm : Compress)
    (vd : Validate) (bytes : List Nat) (hlen : bytes.length = sizeGen C cm) (hb : ∀ b ∈ bytes, b < 256)
    (P : SWAff F) (h : deGen C K E cm vd bytes = .ok P)
    (hy : cm = .yes → P.infinity = false → -P.y ≠ P.y) :
    serGen C K P cm = .ok bytes :=
  parseGen_uniq hC hL hS hO E cm bytes hlen hb P (deGen_ok_inv h).1 hy

end generic

/-! ## 4. Glue: the monadic readers are `read_exact` followed by the pure parser -/

/-- a pure result at a reader state -/
def runRes {α : Type} (r : Res α) (s : Rd) : R α :=
  match r with
  | .ok a => .ok a s
  | .err e => .err e s
  | .panic => .panic

theorem liftR_apply {α : Type} (r : Res α) (s : Rd) : liftR r s = runRes r s := by
  cases r <;> rfl

theorem M_panic_bind {α β : Type} (k : α → M β) : ((panicM : M α) >>= k) = panicM := rfl

theorem readExactInvalid_bind {α : Type} (n : Nat) (f : List Nat → M α) (s : Rd) :
    (readExactInvalid n >>= f) s =
      if s.inp.length < n then .err .invalid ⟨[], s.used + s.inp.length⟩
      else f (s.inp.take n) ⟨s.inp.drop n, s.used + n⟩ := by
  rw [M_bind_apply]
  unfold readExactInvalid readExact
  by_cases h : s.inp.length < n
  · simp only [if_pos h]
  · simp only [if_neg h]

/-- the coordinate codec of G1: one `Fq` -/
def fqC (c : FpCfg) : FCodec (Fp c.p) := ⟨48, serializeFq c, deserializeFq c⟩

theorem zeros48_eq : zeros48 = List.replicate 48 0 := rfl

theorem rbwo_zero_mask (bytes : List Nat) (h : 48 ≤ bytes.length) :
    readBytesWithOffset bytes 0 true = .ok (maskTop (bytes.take 48)) := by
  unfold readBytesWithOffset g1SerializedSize
  rw [if_neg (by omega)]
  simp only [Nat.zero_mul, List.drop_zero, if_true]
  cases bytes with
  | nil => simp at h
  | cons b r => rfl

theorem rbwo_nomask (bytes : List Nat) (k : Nat) (h : 48 * (k + 1) ≤ bytes.length) :
    readBytesWithOffset bytes k false = .ok ((bytes.drop (k * 48)).take 48) := by
  unfold readBytesWithOffset g1SerializedSize
  rw [if_neg (by omega)]
  simp

theorem take_maskTop (l : List Nat) (k : Nat) : (maskTop l).take k = maskTop (l.take k) := by
  cases l with
  | nil => simp [maskTop]
  | cons b r =>
    cases k with
    | zero => rfl
    | succ k => rfl

theorem eq_replicate_split (l : List Nat) (a b : Nat) (hl : l.length = a + b) :
    l = List.replicate (a + b) 0 ↔ l.take a = List.replicate a 0 ∧ l.drop a = List.replicate b 0 := by
  constructor
  · intro h
    rw [h]
    simp [List.take_replicate, List.drop_replicate]
  · rintro ⟨h1, h2⟩
    rw [← List.take_append_drop a l, h1, h2, List.replicate_append_replicate]

/-- `m` is `read_exact(n)` (a failure is `InvalidData`) followed by the pure function `f` of the bytes read -/
def IsRead {α : Type} (m : M α) (n : Nat) (f : List Nat → Res α) : Prop :=
  ∀ s : Rd, m s =
    if s.inp.length < n then .err .invalid ⟨[], s.used + s.inp.length⟩
    else runRes (f (s.inp.take n)) ⟨s.inp.drop n, s.used + n⟩

namespace IsRead
variable {α : Type} {m : M α} {n : Nat} {f : List Nat → Res α}

theorem reads (h : IsRead m n f) (hf : ∀ bytes, bytes.length = n → f bytes ≠ .panic) : Reads m n where
  no_panic := by
    intro s hp
    rw [h s] at hp
    split at hp
    · cases hp
    · next hl =>
      have := hf (s.inp.take n) (by rw [List.length_take]; omega)
      cases hr : f (s.inp.take n) with
      | panic => exact this hr
      | err e => rw [hr] at hp; cases hp
      | ok a => rw [hr] at hp; cases hp
  ok_used := by
    intro s a s' hp
    rw [h s] at hp
    split at hp
    · cases hp
    · next hl =>
      cases hr : f (s.inp.take n) with
      | panic => rw [hr] at hp; cases hp
      | err e => rw [hr] at hp; cases hp
      | ok a' => rw [hr] at hp; cases hp; exact ⟨by omega, rfl⟩
  err_used := by
    intro s e s' hp
    rw [h s] at hp
    split at hp
    · cases hp; exact ⟨by simp, by simp; omega, by simp⟩
    · next hl =>
      cases hr : f (s.inp.take n) with
      | panic => rw [hr] at hp; cases hp
      | err e' => rw [hr] at hp; cases hp; exact ⟨by simp, by simp, by simp; omega⟩
      | ok a' => rw [hr] at hp; cases hp

theorem run_ok_inv (h : IsRead m n f) {bs : List Nat} {a : α} {s : Rd} (hr : runM m bs = .ok a s) :
    n ≤ bs.length ∧ f (bs.take n) = .ok a ∧ s = ⟨bs.drop n, n⟩ := by
  unfold runM at hr
  rw [h] at hr
  simp only at hr
  split at hr
  · cases hr
  · next hl =>
    cases hf : f (bs.take n) with
    | panic => rw [hf] at hr; cases hr
    | err e => rw [hf] at hr; cases hr
    | ok a' =>
      rw [hf] at hr; cases hr
      exact ⟨by omega, rfl, by simp⟩

theorem run_append (h : IsRead m n f) (bs tl : List Nat) (hl : bs.length = n) :
    runM m (bs ++ tl) = runRes (f bs) ⟨tl, n⟩ := by
  unfold runM
  rw [h]
  simp only [List.length_append]
  rw [if_neg (by omega), List.take_left' hl, List.drop_left' hl, Nat.zero_add]

theorem run_short (h : IsRead m n f) (bs : List Nat) (hl : bs.length < n) :
    runM m bs = .err .invalid ⟨[], bs.length⟩ := by
  unfold runM
  rw [h]
  simp only
  rw [if_pos hl, Nat.zero_add]

end IsRead

/-- what `Reads m k` says about a run on a byte string (as `Ark.C10.consumption`) -/
theorem reads_consumption {α : Type} {m : M α} {k : Nat} (h : Reads m k) (bs : List Nat) :
    runM m bs ≠ .panic ∧
    (∀ a s, runM m bs = .ok a s → s.used = k ∧ s.inp = bs.drop k ∧ k ≤ bs.length) ∧
    (∀ e s, runM m bs = .err e s → s.used ≤ k ∧ s.used ≤ bs.length) ∧
    (bs.length < k → ∃ e s, runM m bs = .err e s) := by
  refine ⟨h.no_panic _, ?_, ?_, ?_⟩
  · intro a s hr
    obtain ⟨h1, rfl⟩ := h.ok_used ⟨bs, 0⟩ a s hr
    exact ⟨Nat.zero_add _, rfl, h1⟩
  · intro e s hr
    obtain ⟨-, h2, h3⟩ := h.err_used ⟨bs, 0⟩ e s hr
    exact ⟨by simpa using h2, by simpa using h3⟩
  · intro hs
    exact h.short ⟨bs, 0⟩ hs

section g1
variable (c : FpCfg) (K : Codec (Fp c.p)) (E : SWCfg (Fp c.p))

theorem readG1Compressed_apply (s : Rd) :
    readG1Compressed c K E s =
      if s.inp.length < 48 then .err .invalid ⟨[], s.used + s.inp.length⟩
      else runRes (parseC (fqC c) K E (s.inp.take 48)) ⟨s.inp.drop 48, s.used + 48⟩ := by
  unfold readG1Compressed g1SerializedSize
  rw [readExactInvalid_bind]
  by_cases hlen : s.inp.length < 48
  · rw [if_pos hlen, if_pos hlen]
  rw [if_neg hlen, if_neg hlen]
  have hl : (s.inp.take 48).length = 48 := by rw [List.length_take]; omega
  generalize s.inp.take 48 = bytes at hl
  generalize (⟨s.inp.drop 48, s.used + 48⟩ : Rd) = s'
  rw [rbwo_zero_mask bytes (by omega), List.take_of_length_le (by omega)]
  unfold parseC
  cases hg : getFlags bytes with
  | panic => rfl
  | err e => rfl
  | ok fl =>
    simp only [liftR, liftO, M_pure_bind]
    cases hc : fl.isCompressed with
    | false => rfl
    | true =>
      simp only [Bool.not_true, Bool.false_eq_true, if_false, Bool.true_eq_false]
      cases hi : fl.isInfinity with
      | true =>
        simp only [if_true, fqC, zeros48_eq, bne_iff_ne, ne_eq]
        by_cases hz : maskTop bytes = List.replicate 48 0
        · simp only [hz, not_true_eq_false, if_false, if_true]; rfl
        · simp only [hz, not_false_eq_true, if_true, if_false]; rfl
      | false =>
        simp only [Bool.false_eq_true, if_false, fqC]
        cases hd : deserializeFq c (maskTop bytes) with
        | none => rfl
        | some x =>
          simp only
          cases hq : swGetPointFromX K E x fl.isLexographicallyLargest with
          | none => rfl
          | some p => rfl

theorem readG1Uncompressed_apply (s : Rd) :
    readG1Uncompressed c s =
      if s.inp.length < 96 then .err .invalid ⟨[], s.used + s.inp.length⟩
      else runRes (parseU (fqC c) (s.inp.take 96)) ⟨s.inp.drop 96, s.used + 96⟩ := by
  unfold readG1Uncompressed g1SerializedSize
  rw [readExactInvalid_bind]
  by_cases hlen : s.inp.length < 96
  · rw [if_pos (by omega), if_pos hlen]
  rw [if_neg (by omega), if_neg hlen]
  have hl : (s.inp.take 96).length = 96 := by rw [List.length_take]; omega
  simp only [Nat.reduceMul]
  generalize s.inp.take 96 = bytes at hl
  generalize (⟨s.inp.drop 96, s.used + 96⟩ : Rd) = s'
  rw [rbwo_zero_mask bytes (by omega), rbwo_nomask bytes 1 (by omega)]
  have hy : (bytes.drop (1 * 48)).take 48 = bytes.drop 48 :=
    List.take_of_length_le (by rw [List.length_drop]; omega)
  rw [hy, ← take_maskTop]
  have hz : ((maskTop bytes).take 48 != zeros48 || bytes.drop 48 != zeros48) = true ↔
      ¬ maskTop bytes = List.replicate (2 * 48) 0 := by
    rw [eq_replicate_split (maskTop bytes) 48 48 (by rw [maskTop_length, hl]),
      drop_maskTop _ _ (by decide)]
    simp only [Bool.or_eq_true, bne_iff_ne, ne_eq, zeros48_eq]
    tauto
  unfold parseU
  cases hg : getFlags bytes with
  | panic => rfl
  | err e => rfl
  | ok fl =>
    simp only [liftR, liftO, M_pure_bind]
    cases hc : fl.isCompressed with
    | true => rfl
    | false =>
      simp only [Bool.false_eq_true, if_false]
      cases hi : fl.isInfinity with
      | true =>
        simp only [if_true, fqC]
        by_cases hz' : maskTop bytes = List.replicate (2 * 48) 0
        · have h2 := (not_congr hz).mpr (not_not.mpr hz')
          simp only [if_neg h2]
          show runRes (Res.ok SWAff.identity) s' = _
          exact (congrArg (fun r => runRes r s') (if_pos hz')).symm
        · simp only [if_pos (hz.mpr hz')]
          show runRes (Res.err Err.invalid) s' = _
          exact (congrArg (fun r => runRes r s') (if_neg hz')).symm
      | false =>
        simp only [Bool.false_eq_true, if_false, fqC]
        cases hd : deserializeFq c ((maskTop bytes).take 48) with
        | none => rfl
        | some x =>
          simp only
          cases hq : deserializeFq c (bytes.drop 48) with
          | none => rfl
          | some y => rfl

/-- `g1::Config::deserialize_with_mode`: `read_exact` of the advertised size, then a pure function of those bytes -/
theorem g1Deserialize_apply (cm : Compress) (vd : Validate) (s : Rd) :
    g1Deserialize c K E cm vd s =
      if s.inp.length < g1SerializedSizeOf cm then .err .invalid ⟨[], s.used + s.inp.length⟩
      else runRes (deGen (fqC c) K E cm vd (s.inp.take (g1SerializedSizeOf cm)))
        ⟨s.inp.drop (g1SerializedSizeOf cm), s.used + g1SerializedSizeOf cm⟩ := by
  unfold g1Deserialize g1SerializedSizeOf g1SerializedSize deGen parseGen
  rw [M_bind_apply]
  cases cm with
  | yes =>
    simp only [if_true]
    rw [readG1Compressed_apply]
    by_cases hlen : s.inp.length < 48
    · rw [if_pos hlen, if_pos hlen]
    rw [if_neg hlen, if_neg hlen]
    cases hp : parseC (fqC c) K E (s.inp.take 48) with
    | panic => rfl
    | err e => rfl
    | ok p =>
      simp only [runRes]
      split <;> rfl
  | no =>
    simp only [reduceCtorEq, if_false, Nat.reduceMul]
    rw [readG1Uncompressed_apply]
    by_cases hlen : s.inp.length < 96
    · rw [if_pos hlen, if_pos hlen]
    rw [if_neg hlen, if_neg hlen]
    cases hp : parseU (fqC c) (s.inp.take 96) with
    | panic => rfl
    | err e => rfl
    | ok p =>
      simp only [runRes]
      split <;> rfl

theorem g1_isRead (cm : Compress) (vd : Validate) :
    IsRead (g1Deserialize c K E cm vd) (g1SerializedSizeOf cm) (deGen (fqC c) K E cm vd) :=
  g1Deserialize_apply c K E cm vd

theorem g1_reads (cm : Compress) (vd : Validate) :
    Reads (g1Deserialize c K E cm vd) (g1SerializedSizeOf cm) :=
  (g1_isRead c K E cm vd).reads (fun bytes hl => deGen_ne_panic _ K E cm vd bytes (by
    intro h0; rw [h0] at hl; cases cm <;> cases hl))

theorem g1Serialize_eq (item : SWAff (Fp c.p)) (cm : Compress) :
    g1Serialize c K item cm = serGen (fqC c) K item cm := rfl

theorem g1Size_eq (cm : Compress) : g1SerializedSizeOf cm = sizeGen (fqC c) cm := by
  cases cm <;> rfl

end g1

theorem deserializeFq_canon (c : FpCfg) (hp : 0 < c.p) (bs : List Nat) (x : Fp c.p)
    (h : deserializeFq c bs = some x) : x.val < c.p := by
  unfold deserializeFq at h
  obtain ⟨h1, h2⟩ := fromBigint_some hp h
  omega

theorem fqCOK (c : FpCfg) (h : ZcashCfg c) : FCodecOK (fqC c) (fun x => x.val < c.p) := by
  have hp : 0 < c.p := h.2.1
  have hN : c.N = 6 := h.1
  refine ⟨?_, ?_, ?_, ?_, ?_, ?_, ?_, ?_, ?_⟩
  · show 0 < 48
    decide
  · intro x; exact serializeFq_length c hN x
  · intro x; exact serializeFq_lt c hN x
  · intro x hx; exact serializeFq_top c h x hx
  · intro x hx; dsimp only [fqC]; exact deserialize_serialize c h x hx
  · intro bs x hl hb hd; dsimp only [fqC] at hl hd ⊢; exact serialize_deserialize c h bs x hl hb hd
  · intro bs x hd; dsimp only [fqC] at hd; exact deserializeFq_canon c hp bs x hd
  · exact serializeFq_zero c hN
  · exact hp

/-! ### G2 -/

/-- `Fq2` from `c1 ‖ c0` -/
def deFq2 (c : FpCfg) (β : Nat) (b : List Nat) : Option (Fp2 c.p β) :=
  match deserializeFq c (b.take 48) with
  | none => none
  | some c1 =>
    match deserializeFq c ((b.drop 48).take 48) with
    | none => none
    | some c0 => some ⟨c0, c1⟩

/-- the coordinate codec of G2: `c1 ‖ c0` -/
def fq2C (c : FpCfg) (β : Nat) : FCodec (Fp2 c.p β) :=
  ⟨96, fun x => serializeFq c x.c1 ++ serializeFq c x.c0, deFq2 c β⟩

theorem deFq2_some {c : FpCfg} {β : Nat} {b : List Nat} {x : Fp2 c.p β} (h : deFq2 c β b = some x) :
    deserializeFq c (b.take 48) = some x.c1 ∧ deserializeFq c ((b.drop 48).take 48) = some x.c0 := by
  unfold deFq2 at h
  cases h1 : deserializeFq c (b.take 48) with
  | none => rw [h1] at h; cases h
  | some c1 =>
    rw [h1] at h
    simp only at h
    cases h0 : deserializeFq c ((b.drop 48).take 48) with
    | none => rw [h0] at h; cases h
    | some c0 => rw [h0] at h; cases h; exact ⟨rfl, rfl⟩

theorem fq2COK (c : FpCfg) (β : Nat) (h : ZcashCfg c) :
    FCodecOK (fq2C c β) (fun x => x.c0.val < c.p ∧ x.c1.val < c.p) where
  n_pos := show 0 < 96 by decide
  ser_len := by
    intro x
    show (serializeFq c x.c1 ++ serializeFq c x.c0).length = 96
    rw [List.length_append, serializeFq_length c h.1, serializeFq_length c h.1]
  ser_lt := by
    intro x b hb
    have hb' : b ∈ serializeFq c x.c1 ++ serializeFq c x.c0 := hb
    rcases List.mem_append.mp hb' with hb | hb
    · exact serializeFq_lt c h.1 _ b hb
    · exact serializeFq_lt c h.1 _ b hb
  ser_top := by
    intro x hx
    obtain ⟨b0, rest, h0, hb0⟩ := serializeFq_top c h x.c1 hx.2
    refine ⟨b0, rest ++ serializeFq c x.c0, ?_, hb0⟩
    show serializeFq c x.c1 ++ serializeFq c x.c0 = _
    rw [h0, List.cons_append]
  rt := by
    intro x hx
    dsimp only [fq2C]
    unfold deFq2
    rw [List.take_left' (serializeFq_length c h.1 _), List.drop_left' (serializeFq_length c h.1 _),
      List.take_of_length_le (by rw [serializeFq_length c h.1]),
      deserialize_serialize c h _ hx.2, deserialize_serialize c h _ hx.1]
  uniq := by
    intro bs x hl hb hd
    dsimp only [fq2C] at hl hd ⊢
    have hl' : bs.length = 96 := hl
    obtain ⟨h1, h0⟩ := deFq2_some hd
    have e0 : (bs.drop 48).take 48 = bs.drop 48 :=
      List.take_of_length_le (by rw [List.length_drop, hl'])
    rw [e0] at h0
    obtain ⟨s1, c1⟩ := serialize_deserialize c h _ x.c1 (by rw [List.length_take, hl']; rfl)
      (fun a ha => hb a (List.mem_of_mem_take ha)) h1
    obtain ⟨s0, c0⟩ := serialize_deserialize c h _ x.c0 (by rw [List.length_drop, hl'])
      (fun a ha => hb a (List.mem_of_mem_drop ha)) h0
    refine ⟨?_, c0, c1⟩
    rw [s1, s0, List.take_append_drop]
  de_canon := by
    intro bs x hd
    dsimp only [fq2C] at hd
    obtain ⟨h1, h0⟩ := deFq2_some hd
    exact ⟨deserializeFq_canon c h.2.1 _ _ h0, deserializeFq_canon c h.2.1 _ _ h1⟩
  ser_zero := by
    show serializeFq c (0 : Fp c.p) ++ serializeFq c (0 : Fp c.p) = List.replicate 96 0
    rw [serializeFq_zero c h.1, List.replicate_append_replicate]
  canon_zero := ⟨h.2.1, h.2.1⟩

theorem zero_check2 (l : List Nat) (hl : l.length = 96) :
    l = List.replicate 96 0 ↔ l.take 48 = List.replicate 48 0 ∧ (l.drop 48).take 48 = List.replicate 48 0 := by
  rw [List.take_of_length_le (l := l.drop 48) (by rw [List.length_drop, hl])]
  exact eq_replicate_split l 48 48 hl

theorem zero_check4 (l : List Nat) (hl : l.length = 192) :
    l = List.replicate 192 0 ↔ l.take 48 = List.replicate 48 0 ∧ (l.drop 48).take 48 = List.replicate 48 0 ∧
      (l.drop 96).take 48 = List.replicate 48 0 ∧ (l.drop 144).take 48 = List.replicate 48 0 := by
  rw [eq_replicate_split l 48 144 hl,
    eq_replicate_split (l.drop 48) 48 96 (by rw [List.length_drop, hl]),
    eq_replicate_split ((l.drop 48).drop 48) 48 48 (by rw [List.length_drop, List.length_drop, hl])]
  simp only [List.drop_drop, Nat.reduceAdd]
  rw [List.take_of_length_le (l := l.drop 144) (by rw [List.length_drop, hl])]

section g2
variable (c : FpCfg) (β : Nat) (K : Codec (Fp2 c.p β)) (E : SWCfg (Fp2 c.p β))

theorem readG2Compressed_apply (s : Rd) :
    readG2Compressed c β K E s =
      if s.inp.length < 96 then .err .invalid ⟨[], s.used + s.inp.length⟩
      else runRes (parseC (fq2C c β) K E (s.inp.take 96)) ⟨s.inp.drop 96, s.used + 96⟩ := by
  unfold readG2Compressed g2SerializedSize
  rw [readExactInvalid_bind]
  by_cases hlen : s.inp.length < 96
  · rw [if_pos hlen, if_pos hlen]
  rw [if_neg hlen, if_neg hlen]
  have hl : (s.inp.take 96).length = 96 := by rw [List.length_take]; omega
  generalize s.inp.take 96 = bytes at hl
  generalize (⟨s.inp.drop 96, s.used + 96⟩ : Rd) = s'
  rw [rbwo_zero_mask bytes (by omega), rbwo_nomask bytes 1 (by omega)]
  have hx0 : (bytes.drop (1 * 48)).take 48 = ((maskTop bytes).drop 48).take 48 := by
    rw [drop_maskTop _ _ (by decide)]
  rw [hx0, ← take_maskTop]
  have hz : ((maskTop bytes).take 48 != zeros48 || ((maskTop bytes).drop 48).take 48 != zeros48) = true ↔
      ¬ maskTop bytes = List.replicate 96 0 := by
    rw [zero_check2 (maskTop bytes) (by rw [maskTop_length, hl])]
    simp only [Bool.or_eq_true, bne_iff_ne, ne_eq, zeros48_eq]
    tauto
  unfold parseC
  cases hg : getFlags bytes with
  | panic => rfl
  | err e => rfl
  | ok fl =>
    simp only [liftR, liftO, M_pure_bind]
    cases hc : fl.isCompressed with
    | false => rfl
    | true =>
      simp only [Bool.not_true, Bool.false_eq_true, if_false, Bool.true_eq_false]
      cases hi : fl.isInfinity with
      | true =>
        simp only [if_true, fq2C]
        by_cases hz' : maskTop bytes = List.replicate 96 0
        · have h2 := (not_congr hz).mpr (not_not.mpr hz')
          simp only [if_neg h2]
          show runRes (Res.ok SWAff.identity) s' = _
          exact (congrArg (fun r => runRes r s') (if_pos hz')).symm
        · simp only [if_pos (hz.mpr hz')]
          show runRes (Res.err Err.invalid) s' = _
          exact (congrArg (fun r => runRes r s') (if_neg hz')).symm
      | false =>
        simp only [Bool.false_eq_true, if_false, fq2C, deFq2]
        cases hd1 : deserializeFq c ((maskTop bytes).take 48) with
        | none => rfl
        | some xc1 =>
          simp only
          cases hd0 : deserializeFq c (((maskTop bytes).drop 48).take 48) with
          | none => rfl
          | some xc0 =>
            simp only
            cases hq : swGetPointFromX K E ⟨xc0, xc1⟩ fl.isLexographicallyLargest with
            | none => rfl
            | some p => rfl

theorem readG2Uncompressed_apply (s : Rd) :
    readG2Uncompressed c β s =
      if s.inp.length < 192 then .err .invalid ⟨[], s.used + s.inp.length⟩
      else runRes (parseU (fq2C c β) (s.inp.take 192)) ⟨s.inp.drop 192, s.used + 192⟩ := by
  unfold readG2Uncompressed g2SerializedSize
  rw [readExactInvalid_bind]
  by_cases hlen : s.inp.length < 192
  · rw [if_pos (by omega), if_pos hlen]
  rw [if_neg (by omega), if_neg hlen]
  have hl : (s.inp.take 192).length = 192 := by rw [List.length_take]; omega
  simp only [Nat.reduceMul]
  generalize s.inp.take 192 = bytes at hl
  generalize (⟨s.inp.drop 192, s.used + 192⟩ : Rd) = s'
  rw [rbwo_zero_mask bytes (by omega), rbwo_nomask bytes 1 (by omega), rbwo_nomask bytes 2 (by omega),
    rbwo_nomask bytes 3 (by omega)]
  have hx0 : (bytes.drop (1 * 48)).take 48 = ((maskTop bytes).drop 48).take 48 := by
    rw [drop_maskTop _ _ (by decide)]
  have hy1 : (bytes.drop (2 * 48)).take 48 = ((maskTop bytes).drop 96).take 48 := by
    rw [drop_maskTop _ _ (by decide)]
  have hy0 : (bytes.drop (3 * 48)).take 48 = ((maskTop bytes).drop 144).take 48 := by
    rw [drop_maskTop _ _ (by decide)]
  rw [hx0, hy1, hy0, ← take_maskTop]
  have hz : ((maskTop bytes).take 48 != zeros48 || ((maskTop bytes).drop 48).take 48 != zeros48 ||
        ((maskTop bytes).drop 96).take 48 != zeros48 || ((maskTop bytes).drop 144).take 48 != zeros48) = true ↔
      ¬ maskTop bytes = List.replicate (2 * 96) 0 := by
    rw [show (2 * 96 : Nat) = 192 from rfl, zero_check4 (maskTop bytes) (by rw [maskTop_length, hl])]
    simp only [Bool.or_eq_true, bne_iff_ne, ne_eq, zeros48_eq]
    tauto
  have ex1 : ((maskTop bytes).take 96).take 48 = (maskTop bytes).take 48 := by
    rw [List.take_take]; rfl
  have ex0 : (((maskTop bytes).take 96).drop 48).take 48 = ((maskTop bytes).drop 48).take 48 := by
    rw [List.drop_take, List.take_take]; rfl
  have ey1 : (bytes.drop 96).take 48 = ((maskTop bytes).drop 96).take 48 := by
    rw [drop_maskTop _ _ (by decide)]
  have ey0 : ((bytes.drop 96).drop 48).take 48 = ((maskTop bytes).drop 144).take 48 := by
    rw [drop_maskTop _ _ (by decide), List.drop_drop]
  unfold parseU
  cases hg : getFlags bytes with
  | panic => rfl
  | err e => rfl
  | ok fl =>
    simp only [liftR, liftO, M_pure_bind]
    cases hc : fl.isCompressed with
    | true => rfl
    | false =>
      simp only [Bool.false_eq_true, if_false]
      cases hi : fl.isInfinity with
      | true =>
        simp only [if_true, fq2C]
        by_cases hz' : maskTop bytes = List.replicate (2 * 96) 0
        · have h2 := (not_congr hz).mpr (not_not.mpr hz')
          simp only [if_neg h2]
          show runRes (Res.ok SWAff.identity) s' = _
          exact (congrArg (fun r => runRes r s') (if_pos hz')).symm
        · simp only [if_pos (hz.mpr hz')]
          show runRes (Res.err Err.invalid) s' = _
          exact (congrArg (fun r => runRes r s') (if_neg hz')).symm
      | false =>
        simp only [Bool.false_eq_true, if_false, fq2C, deFq2, ex1, ex0, ey1, ey0]
        cases hd1 : deserializeFq c ((maskTop bytes).take 48) with
        | none => rfl
        | some xc1 =>
          simp only
          cases hd0 : deserializeFq c (((maskTop bytes).drop 48).take 48) with
          | none => rfl
          | some xc0 =>
            simp only
            cases hd3 : deserializeFq c (((maskTop bytes).drop 96).take 48) with
            | none => rfl
            | some yc1 =>
              simp only
              cases hd2 : deserializeFq c (((maskTop bytes).drop 144).take 48) with
              | none => rfl
              | some yc0 => rfl

/-- `g2::Config::deserialize_with_mode`: `read_exact` of the advertised size, then a pure function of those bytes -/
theorem g2Deserialize_apply (cm : Compress) (vd : Validate) (s : Rd) :
    g2Deserialize c β K E cm vd s =
      if s.inp.length < g2SerializedSizeOf cm then .err .invalid ⟨[], s.used + s.inp.length⟩
      else runRes (deGen (fq2C c β) K E cm vd (s.inp.take (g2SerializedSizeOf cm)))
        ⟨s.inp.drop (g2SerializedSizeOf cm), s.used + g2SerializedSizeOf cm⟩ := by
  unfold g2Deserialize g2SerializedSizeOf g2SerializedSize deGen parseGen
  rw [M_bind_apply]
  cases cm with
  | yes =>
    simp only [if_true]
    rw [readG2Compressed_apply]
    by_cases hlen : s.inp.length < 96
    · rw [if_pos hlen, if_pos hlen]
    rw [if_neg hlen, if_neg hlen]
    cases hp : parseC (fq2C c β) K E (s.inp.take 96) with
    | panic => rfl
    | err e => rfl
    | ok p =>
      simp only [runRes]
      split <;> rfl
  | no =>
    simp only [reduceCtorEq, if_false, Nat.reduceMul]
    rw [readG2Uncompressed_apply]
    by_cases hlen : s.inp.length < 192
    · rw [if_pos hlen, if_pos hlen]
    rw [if_neg hlen, if_neg hlen]
    cases hp : parseU (fq2C c β) (s.inp.take 192) with
    | panic => rfl
    | err e => rfl
    | ok p =>
      simp only [runRes]
      split <;> rfl

theorem g2_isRead (cm : Compress) (vd : Validate) :
    IsRead (g2Deserialize c β K E cm vd) (g2SerializedSizeOf cm) (deGen (fq2C c β) K E cm vd) :=
  g2Deserialize_apply c β K E cm vd

theorem g2_reads (cm : Compress) (vd : Validate) :
    Reads (g2Deserialize c β K E cm vd) (g2SerializedSizeOf cm) :=
  (g2_isRead c β K E cm vd).reads (fun bytes hl => deGen_ne_panic _ K E cm vd bytes (by
    intro h0; rw [h0] at hl; cases cm <;> cases hl))

theorem g2Serialize_eq (item : SWAff (Fp2 c.p β)) (cm : Compress) :
    g2Serialize c β K item cm = serGen (fq2C c β) K item cm := rfl

theorem g2Size_eq (cm : Compress) : g2SerializedSizeOf cm = sizeGen (fq2C c β) cm := by
  cases cm <;> rfl

end g2

/-! ## 5. Run-level statements for any reader of the form `read_exact; deGen` -/

section run
variable {F : Type} [Add F] [Sub F] [Mul F] [Neg F] [Zero F] [One F] [Inv F] [DecidableEq F]
variable {C : FCodec F} {K : Codec F} {E : SWCfg F} {canon : F → Prop} {cm : Compress} {vd : Validate}
variable {m : M (SWAff F)} {n : Nat}

theorem run_valid (hR : IsRead m n (deGen C K E cm .yes)) {bs : List Nat} {P : SWAff F} {s : Rd}
    (h : runM m bs = .ok P s) : swIsOnCurve E P = true ∧ E.inSubgroup P = true :=
  (deGen_ok_inv (hR.run_ok_inv h).2.1).2 rfl

theorem run_canon (hC : FCodecOK C canon) (hL : SignLaws F canon) (hS : SqrtOK K canon) (hO : LtOK K canon)
    (hR : IsRead m n (deGen C K E cm vd)) {bs : List Nat} {P : SWAff F} {s : Rd}
    (h : runM m bs = .ok P s) :
    canon P.x ∧ canon P.y ∧ (P.infinity = true → P = SWAff.identity) ∧
      (cm = .yes → swIsOnCurve E P = true) := by
  have hp := (deGen_ok_inv (hR.run_ok_inv h).2.1).1
  unfold parseGen at hp
  cases cm with
  | yes =>
    simp only [if_true] at hp
    obtain ⟨h1, h2, h3, h4⟩ := parseC_on_curve hC hL hS hO hp
    exact ⟨h2, h3, h4, fun _ => h1⟩
  | no =>
    simp only [reduceCtorEq, if_false] at hp
    obtain ⟨h2, h3, h4⟩ := parseU_canon hC hp
    exact ⟨h2, h3, h4, fun hh => by cases hh⟩

theorem run_rt (hC : FCodecOK C canon) (hL : SignLaws F canon) (hS : SqrtOK K canon) (hO : LtOK K canon)
    (hR : IsRead m n (deGen C K E cm vd)) (hn : n = sizeGen C cm) (P : SWAff F)
    (hc : P.infinity = false → canon P.x ∧ canon P.y) (hon : cm = .yes → swIsOnCurve E P = true)
    (bs : List Nat) (hs : serGen C K P cm = .ok bs) (tl : List Nat) :
    bs.length = n ∧ runM m (bs ++ tl) =
      if vd = .yes ∧ swCheck E (if P.infinity = true then SWAff.identity else P) = false
      then .err .invalid ⟨tl, n⟩
      else .ok (if P.infinity = true then SWAff.identity else P) ⟨tl, n⟩ := by
  obtain ⟨h1, h2⟩ := serGen_rt hC hL hS hO E P hc cm vd hon bs hs
  rw [← hn] at h1
  refine ⟨h1, ?_⟩
  rw [hR.run_append bs tl h1, h2]
  generalize (if P.infinity = true then SWAff.identity else P) = P'
  by_cases hq : vd = .yes ∧ swCheck E P' = false
  · rw [if_pos hq, if_pos hq]; rfl
  · rw [if_neg hq, if_neg hq]; rfl

theorem run_uniq (hC : FCodecOK C canon) (hL : SignLaws F canon) (hS : SqrtOK K canon) (hO : LtOK K canon)
    (hR : IsRead m n (deGen C K E cm vd)) (hn : n = sizeGen C cm) (bs : List Nat)
    (hb : ∀ b ∈ bs, b < 256) (P : SWAff F) (s : Rd) (h : runM m bs = .ok P s)
    (hy : cm = .yes → P.infinity = false → -P.y ≠ P.y) :
    serGen C K P cm = .ok (bs.take n) := by
  obtain ⟨h1, h2, -⟩ := hR.run_ok_inv h
  exact deGen_uniq hC hL hS hO E cm vd (bs.take n) (by rw [List.length_take, ← hn]; omega)
    (fun b hm => hb b (List.mem_of_mem_take hm)) P h2 hy

end run

/-! ## 6. `−y = y` only for `y = 0` in odd characteristic -/

theorem Fp.neg_eq_self {p : Nat} (hodd : p % 2 = 1) (y : Fp p) (hy : y.val < p) (h : -y = y) : y = 0 := by
  have hv : (p - y.val % p) % p = y.val := congrArg Fp.val h
  apply Fp.ext'
  show y.val = 0
  rw [Nat.mod_eq_of_lt hy] at hv
  by_contra h0
  rw [Nat.mod_eq_of_lt (by omega)] at hv
  omega

theorem Fp2.neg_eq_self {p β : Nat} (hodd : p % 2 = 1) (y : Fp2 p β) (hy : y.c0.val < p ∧ y.c1.val < p)
    (h : -y = y) : y = 0 := by
  obtain ⟨c0, c1⟩ := y
  have h0 : -c0 = c0 := congrArg Fp2.c0 h
  have h1 : -c1 = c1 := congrArg Fp2.c1 h
  rw [Fp.neg_eq_self hodd c0 hy.1 h0, Fp.neg_eq_self hodd c1 hy.2 h1]
  rfl

theorem Fp.zero_mul_zero {p : Nat} : (0 : Fp p) * 0 = 0 := by
  apply Fp.ext'
  show (0 * 0) % p = 0
  simp

theorem Fp.zero_add_zero {p : Nat} : (0 : Fp p) + 0 = 0 := by
  apply Fp.ext'
  show (0 + 0) % p = 0
  simp

theorem Fp.mul_zero'' {p : Nat} (a : Fp p) : a * 0 = 0 := by
  apply Fp.ext'
  show (a.val * 0) % p = 0
  simp

theorem Fp2.zero_mul_zero {p β : Nat} : (0 : Fp2 p β) * 0 = 0 := by
  show (⟨(0 : Fp p) * 0 + Fp.ofNat p β * ((0 : Fp p) * 0), (0 : Fp p) * 0 + (0 : Fp p) * 0⟩ : Fp2 p β) = ⟨0, 0⟩
  rw [Fp.zero_mul_zero, Fp.mul_zero'', Fp.zero_add_zero]

theorem prime_odd {p : Nat} (hp : p.Prime) (h2 : p ≠ 2) : p % 2 = 1 := by
  rcases hp.eq_two_or_odd with h | h
  · exact absurd h h2
  · exact h

end Ark.Zcash
