import Ark.Model.EqOrd
import Ark.Model.DrvC19
import Ark.Props.C01f
import Ark.Props.C15a
import Ark.Props.C03a
import Ark.Props.C03b
import Mathlib.Data.List.GetD
/-
  Ark.Proofs.EqOrd — helper definitions and lemmas for Ark/Props/C19.lean:
  equality / ordering / hashing / zero-one predicates of `Ark.Model.EqOrd`.

    §0  vocabulary: `std`, `IsTotalOrderOn`, `lexHigh`
    §1  limb lists (`BigInt`, `Fp`)
    §2  extension towers (`Ext`) and pairing outputs
    §3  short Weierstrass          §4  twisted Edwards          §5  polynomials
-/
set_option linter.unusedSectionVars false

namespace Ark.EqOrd
open Ark Ark.Mont

/-! ## 0. vocabulary -/

/-- the standard residue denoted by the Montgomery limbs `a`: `value (into_bigint a)`
    (`= a·R⁻¹ mod p`; `std_eq_den_val`) -/
def std (c : MontCfg) (a : List Nat) : Nat := value (Mont.intoBigint c a)

/-- on the carrier `P`, `cmp` is a total (linear) order whose "equal" outcome is exactly `eq`:
    reflexive, `cmp b a` is the mirror image of `cmp a b` (hence total and antisymmetric),
    `≤` is transitive, and `cmp a b = .eq ↔ eq a b`. -/
structure IsTotalOrderOn {α : Type} (P : α → Prop) (cmp : α → α → Ordering) (eq : α → α → Bool) :
    Prop where
  refl : ∀ a, P a → cmp a a = .eq
  swap : ∀ a b, P a → P b → cmp b a = (cmp a b).swap
  trans : ∀ a b d, P a → P b → P d → (cmp a b).isLE = true → (cmp b d).isLE = true →
    (cmp a d).isLE = true
  eq_iff : ∀ a b, P a → P b → (cmp a b = .eq ↔ eq a b = true)

/-- a comparison that is `compare ∘ f` into a lawful linear order, with `eq a b ↔ f a = f b` -/
theorem IsTotalOrderOn.of_compare {α β : Type} [Ord β] [Std.TransOrd β] [Std.LawfulEqOrd β]
    {P : α → Prop} {cmp : α → α → Ordering} {eq : α → α → Bool} (f : α → β)
    (hc : ∀ a b, P a → P b → cmp a b = compare (f a) (f b))
    (he : ∀ a b, P a → P b → (eq a b = true ↔ f a = f b)) : IsTotalOrderOn P cmp eq where
  refl a ha := by rw [hc a a ha ha]; exact Std.ReflCmp.compare_self
  swap a b ha hb := by rw [hc a b ha hb, hc b a hb ha]; exact Std.OrientedCmp.eq_swap
  trans a b d ha hb hd := by
    rw [hc a b ha hb, hc b d hb hd, hc a d ha hd]; exact Std.TransCmp.isLE_trans
  eq_iff a b ha hb := by
    rw [hc a b ha hb, he a b ha hb]; exact Std.LawfulEqCmp.compare_eq_iff_eq

/-- consequences: trichotomy-based totality, antisymmetry, transitivity of `<` -/
theorem IsTotalOrderOn.total {α : Type} {P : α → Prop} {cmp eq} (h : IsTotalOrderOn (α := α) P cmp eq)
    (a b : α) (ha : P a) (hb : P b) : (cmp a b).isLE = true ∨ (cmp b a).isLE = true := by
  rw [h.swap a b ha hb]; cases cmp a b <;> simp

theorem IsTotalOrderOn.antisymm {α : Type} {P : α → Prop} {cmp eq}
    (h : IsTotalOrderOn (α := α) P cmp eq) (a b : α) (ha : P a) (hb : P b)
    (h1 : (cmp a b).isLE = true) (h2 : (cmp b a).isLE = true) : eq a b = true := by
  rw [← h.eq_iff a b ha hb]
  rw [h.swap a b ha hb] at h2
  revert h1 h2; cases cmp a b <;> simp

theorem IsTotalOrderOn.lt_trans {α : Type} {P : α → Prop} {cmp eq}
    (h : IsTotalOrderOn (α := α) P cmp eq) (a b d : α) (ha : P a) (hb : P b) (hd : P d)
    (h1 : cmp a b = .lt) (h2 : cmp b d = .lt) : cmp a d = .lt := by
  have t1 := h.trans a b d ha hb hd (by rw [h1]; rfl) (by rw [h2]; rfl)
  cases h3 : cmp a d with
  | lt => rfl
  | gt => rw [h3] at t1; cases t1
  | eq =>
    -- then `d ≤ a ≤ b`, so `d ≤ b`, contradicting `b < d`
    have t2 := h.trans d a b hd ha hb (by rw [h.swap a d ha hd, h3]; rfl) (by rw [h1]; rfl)
    rw [h.swap b d hb hd, h2] at t2; cases t2

/-- lexicographic comparison from the head -/
def lexHighRev : List Nat → List Nat → Ordering
  | a :: as, b :: bs => (compare a b).then (lexHighRev as bs)
  | _, _ => .eq

/-- lexicographic order on coefficient lists, the LAST (highest) coefficient most significant -/
def lexHigh (a b : List Nat) : Ordering := lexHighRev a.reverse b.reverse

theorem lexHighRev_eq_compare : ∀ (a b : List Nat), a.length = b.length →
    lexHighRev a b = compare a b
  | [], [], _ => rfl
  | [], _ :: _, h => by simp at h
  | _ :: _, [], h => by simp at h
  | a :: as, b :: bs, h => by
    rw [lexHighRev, List.compare_cons_cons,
      lexHighRev_eq_compare as bs (by simpa using h)]

theorem lexHigh_eq_compare (a b : List Nat) (h : a.length = b.length) :
    lexHigh a b = compare a.reverse b.reverse :=
  lexHighRev_eq_compare _ _ (by simp [h])

theorem lexHighRev_append : ∀ (x1 x2 y1 y2 : List Nat), x1.length = x2.length →
    lexHighRev (x1 ++ y1) (x2 ++ y2) = (lexHighRev x1 x2).then (lexHighRev y1 y2)
  | [], [], _, _, _ => by simp [lexHighRev]
  | [], _ :: _, _, _, h => by simp at h
  | _ :: _, [], _, _, h => by simp at h
  | a :: as, b :: bs, y1, y2, h => by
    simp only [List.cons_append, lexHighRev]
    rw [lexHighRev_append as bs y1 y2 (by simpa using h), Ordering.then_assoc]

/-- the higher block decides first -/
theorem lexHigh_append (x1 x2 y1 y2 : List Nat) (h : y1.length = y2.length) :
    lexHigh (x1 ++ y1) (x2 ++ y2) = (lexHigh y1 y2).then (lexHigh x1 x2) := by
  unfold lexHigh
  rw [List.reverse_append, List.reverse_append, lexHighRev_append _ _ _ _ (by simp [h])]

theorem lexHigh_singleton (x y : Nat) : lexHigh [x] [y] = compare x y := by
  simp [lexHigh, lexHighRev]

/-- the driver's specification function is the same function -/
theorem lexHighRev_eq_drv : ∀ a b : List Nat, lexHighRev a b = Ark.DrvC19.lexHighRev a b
  | [], _ => by simp [lexHighRev, Ark.DrvC19.lexHighRev]
  | _ :: _, [] => by simp [lexHighRev, Ark.DrvC19.lexHighRev]
  | a :: as, b :: bs => by
    rw [lexHighRev, Ark.DrvC19.lexHighRev, ← lexHighRev_eq_drv as bs, Nat.compare_eq_ite_lt]
    by_cases h1 : a < b
    · simp [h1]
    · by_cases h2 : a > b
      · have h2' : b < a := h2
        simp [h1, h2']
      · have h2' : ¬ b < a := h2
        simp [h1, h2']

theorem lexHigh_eq_drv (a b : List Nat) : lexHigh a b = Ark.DrvC19.lexHigh a b :=
  lexHighRev_eq_drv _ _

theorem natOrd_eq_compare (a b : Nat) : Ark.DrvC19.natOrd a b = compare a b := by
  rw [Ark.DrvC19.natOrd, Nat.compare_eq_ite_lt]

/-! ## 1. limb lists -/

section Limbs

theorem bigEq_iff_eq (a b : List Nat) : bigEq a b = true ↔ a = b := by simp [bigEq]
theorem fpEq_iff_eq (a b : List Nat) : fpEq a b = true ↔ a = b := bigEq_iff_eq a b

theorem bigEq_iff_value {a b : List Nat} (hl : a.length = b.length) (ha : WF a) (hb : WF b) :
    bigEq a b = true ↔ value a = value b := by
  rw [bigEq_iff_eq]
  exact ⟨fun e => by rw [e], value_inj a b ha hb hl⟩

theorem le64_length (x : Nat) : (le64 x).length = 8 := limbBytesLE_length x

/-- the byte stream of a well-formed limb list determines it (its length included) -/
theorem toBytesLE_inj {a b : List Nat} (ha : WF a) (hb : WF b) (e : toBytesLE a = toBytesLE b) :
    a = b := by
  have hl : a.length = b.length := by
    have := congrArg List.length e
    rw [toBytesLE_length, toBytesLE_length] at this
    omega
  apply value_inj a b ha hb hl
  rw [← toBytesLE_fold a ha, ← toBytesLE_fold b hb, e]

theorem bigHashKey_inj {a b : List Nat} (ha : WF a) (hb : WF b)
    (e : bigHashKey a = bigHashKey b) : a = b := by
  unfold bigHashKey at e
  exact toBytesLE_inj ha hb (List.append_inj e (by rw [le64_length, le64_length])).2

variable {c : MontCfg} {pv : Nat}

theorem std_lt (h : CfgOK c pv) {a : List Nat} (ha : Elem c pv a) : std c a < pv :=
  (C01.into_bigint_correct h ha).2.1

theorem std_mont (h : CfgOK c pv) {a : List Nat} (ha : Elem c pv a) :
    (std c a * B ^ c.n) % pv = value a := by
  rw [std, (C01.into_bigint_correct h ha).2.2, Nat.mod_eq_of_lt ha.lt]

theorem std_inj (h : CfgOK c pv) {a b : List Nat} (ha : Elem c pv a) (hb : Elem c pv b)
    (e : std c a = std c b) : a = b := by
  apply value_inj a b ha.wf hb.wf (by rw [ha.len, hb.len])
  rw [← std_mont h ha, ← std_mont h hb, e]

/-- `std c a` is the unique `t < p` with `t·R ≡ value a (mod p)` -/
theorem std_unique (h : CfgOK c pv) {a : List Nat} (ha : Elem c pv a) {t : Nat} (ht : t < pv)
    (e : (t * B ^ c.n) % pv = value a) : std c a = t := by
  apply from_mont_unique h ht (std_lt h ha)
  rw [std_mont h ha, e, Nat.mod_eq_of_lt ha.lt]

theorem std_eq_den_val [Fact pv.Prime] (h : CfgOK c pv) {a : List Nat} (ha : Elem c pv a) :
    std c a = (den c pv a).val := intoBigint_val h ha

theorem fpEq_iff_std (h : CfgOK c pv) {a b : List Nat} (ha : Elem c pv a) (hb : Elem c pv b) :
    fpEq a b = true ↔ std c a = std c b := by
  rw [fpEq_iff_eq]
  exact ⟨fun e => by rw [e], std_inj h ha hb⟩

theorem fpCmp_eq_compare (h : CfgOK c pv) {a b : List Nat} (ha : Elem c pv a) (hb : Elem c pv b) :
    fpCmp c a b = compare (std c a) (std c b) := by
  have ia := (C01.into_bigint_correct h ha).1
  have ib := (C01.into_bigint_correct h hb).1
  exact C15.cmp_exact _ _ (by rw [ia.len, ib.len]) ia.wf ib.wf

theorem fpCmp_total (h : CfgOK c pv) : IsTotalOrderOn (Elem c pv) (fpCmp c) fpEq :=
  IsTotalOrderOn.of_compare (std c) (fun _ _ ha hb => fpCmp_eq_compare h ha hb)
    (fun _ _ ha hb => fpEq_iff_std h ha hb)

theorem bigCmp_total (n : Nat) :
    IsTotalOrderOn (fun a => a.length = n ∧ WF a) bigCmp bigEq :=
  IsTotalOrderOn.of_compare value
    (fun a b ha hb => C15.cmp_exact a b (by rw [ha.1, hb.1]) ha.2 hb.2)
    (fun a b ha hb => bigEq_iff_value (by rw [ha.1, hb.1]) ha.2 hb.2)

theorem zeros_eq_iff {a : List Nat} {n : Nat} (hl : a.length = n) (hw : WF a) :
    a = zeros n ↔ value a = 0 := by
  constructor
  · rintro rfl; exact value_replicate_zero n
  · intro e
    apply value_inj a (zeros n) hw (WF_replicate_zero n) (by simp [zeros, hl])
    rw [e]; exact (value_replicate_zero n).symm

theorem fpIsZero_iff (h : CfgOK c pv) {a : List Nat} (ha : Elem c pv a) :
    fpIsZero c a = true ↔ std c a = 0 := by
  have hp := h.p_gt
  unfold fpIsZero
  rw [fpEq_iff_eq, zeros_eq_iff ha.len ha.wf]
  constructor
  · intro e
    exact std_unique h ha (by omega) (by rw [e]; simp)
  · intro e
    rw [← std_mont h ha, e]; simp

theorem fpIsOne_iff (h : CfgOK c pv) {a : List Nat} (ha : Elem c pv a) :
    fpIsOne c a = true ↔ std c a = 1 % pv := by
  have hp := h.p_gt
  have h1 : 1 % pv = 1 := Nat.mod_eq_of_lt hp
  unfold fpIsOne
  rw [fpEq_iff_eq, h1]
  constructor
  · rintro rfl
    exact std_unique h ha hp (by rw [h.r_val, Nat.one_mul])
  · intro e
    apply value_inj a c.r ha.wf h.r_wf (by rw [ha.len, h.r_len])
    rw [← std_mont h ha, e, h.r_val, Nat.one_mul]

end Limbs

/-! ## 2. extension towers -/

deriving instance DecidableEq for Ext

namespace Ext

/-- the shape of a tower element: all leaves erased -/
def skel : Ext → Ext
  | .fp _ => .fp []
  | .quad a b => .quad (skel a) (skel b)
  | .cubic a b d => .cubic (skel a) (skel b) (skel d)

/-- every base-prime-field coefficient satisfies `P` -/
def Leaves (P : List Nat → Prop) : Ext → Prop
  | .fp a => P a
  | .quad a b => Leaves P a ∧ Leaves P b
  | .cubic a b d => Leaves P a ∧ Leaves P b ∧ Leaves P d

theorem leaves_iff (P : List Nat → Prop) (a : Ext) : Leaves P a ↔ ∀ x ∈ flat a, P x := by
  induction a with
  | fp a => simp [Leaves, flat]
  | quad a b iha ihb =>
    simp only [Leaves, flat, iha, ihb, List.mem_append]
    exact ⟨fun h x hx => hx.elim (h.1 x) (h.2 x), fun h => ⟨fun x hx => h x (.inl hx),
      fun x hx => h x (.inr hx)⟩⟩
  | cubic a b d iha ihb ihd =>
    simp only [Leaves, flat, iha, ihb, ihd, List.mem_append]
    exact ⟨fun h x hx => hx.elim (fun hx => hx.elim (h.1 x) (h.2.1 x)) (h.2.2 x),
      fun h => ⟨fun x hx => h x (.inl (.inl hx)), fun x hx => h x (.inl (.inr hx)),
        fun x hx => h x (.inr hx)⟩⟩

/-- derived `PartialEq` is structural equality of the stored limbs -/
theorem eq_iff_eq (a b : Ext) : a.eq b = true ↔ a = b := by
  induction a generalizing b with
  | fp a => cases b <;> simp [Ext.eq, fpEq_iff_eq]
  | quad a0 a1 ih0 ih1 => cases b <;> simp [Ext.eq, ih0, ih1]
  | cubic a0 a1 a2 ih0 ih1 ih2 => cases b <;> simp [Ext.eq, ih0, ih1, ih2, and_assoc]

theorem flat_ne_nil (a : Ext) : flat a ≠ [] := by
  induction a with
  | fp a => simp [flat]
  | quad a b iha _ => simp [flat, iha]
  | cubic a b d iha _ _ => simp [flat, iha]

theorem flat_length_of_skel {a b : Ext} (h : skel a = skel b) :
    (flat a).length = (flat b).length := by
  induction a generalizing b with
  | fp a => cases b <;> simp [skel] at h; simp [flat]
  | quad a0 a1 ih0 ih1 =>
    cases b <;> simp [skel] at h
    simp [flat, ih0 h.1, ih1 h.2]
  | cubic a0 a1 a2 ih0 ih1 ih2 =>
    cases b <;> simp [skel] at h
    simp [flat, ih0 h.1, ih1 h.2.1, ih2 h.2.2]

/-- an element is determined by its shape and (any injective image of) its coefficient list -/
theorem eq_of_flat_map {β : Type} {f : List Nat → β} {P : List Nat → Prop}
    (hinj : ∀ x y, P x → P y → f x = f y → x = y) {a b : Ext} (hs : skel a = skel b)
    (ha : Leaves P a) (hb : Leaves P b) (e : (flat a).map f = (flat b).map f) : a = b := by
  induction a generalizing b with
  | fp a =>
    cases b <;> simp [skel] at hs
    simp only [flat, List.map_cons, List.map_nil, List.cons.injEq, and_true] at e
    rw [hinj _ _ ha hb e]
  | quad a0 a1 ih0 ih1 =>
    cases b <;> simp [skel] at hs
    rename_i b0 b1
    simp only [flat, List.map_append] at e
    have e' := List.append_inj e (by simp [flat_length_of_skel hs.1])
    rw [ih0 hs.1 ha.1 hb.1 e'.1, ih1 hs.2 ha.2 hb.2 e'.2]
  | cubic a0 a1 a2 ih0 ih1 ih2 =>
    cases b <;> simp [skel] at hs
    rename_i b0 b1 b2
    simp only [flat, List.map_append] at e
    have e' := List.append_inj e (by
      simp [flat_length_of_skel hs.1, flat_length_of_skel hs.2.1])
    have e'' := List.append_inj e'.1 (by simp [flat_length_of_skel hs.1])
    rw [ih0 hs.1 ha.1 hb.1 e''.1, ih1 hs.2.1 ha.2.1 hb.2.1 e''.2, ih2 hs.2.2 ha.2.2 hb.2.2 e'.2]

theorem eq_of_flat {a b : Ext} (hs : skel a = skel b) (e : flat a = flat b) : a = b :=
  eq_of_flat_map (f := id) (P := fun _ => True) (fun _ _ _ _ h => h) hs
    ((leaves_iff _ a).2 (fun _ _ => trivial)) ((leaves_iff _ b).2 (fun _ _ => trivial))
    (by simpa using e)

theorem quad_cmp (c : MontCfg) (a0 a1 b0 b1 : Ext) :
    Ext.cmp c (.quad a0 a1) (.quad b0 b1) = (Ext.cmp c a1 b1).then (Ext.cmp c a0 b0) := by
  rw [Ext.cmp]; cases Ext.cmp c a1 b1 <;> rfl

variable {c : MontCfg} {pv : Nat}

theorem cmp_eq_lexHigh (h : CfgOK c pv) {a b : Ext} (hs : skel a = skel b)
    (ha : Leaves (Elem c pv) a) (hb : Leaves (Elem c pv) b) :
    Ext.cmp c a b = lexHigh ((flat a).map (std c)) ((flat b).map (std c)) := by
  induction a generalizing b with
  | fp a =>
    cases b <;> simp [skel] at hs
    simp only [flat, List.map_cons, List.map_nil, lexHigh_singleton, Ext.cmp]
    exact fpCmp_eq_compare h ha hb
  | quad a0 a1 ih0 ih1 =>
    cases b <;> simp [skel] at hs
    rename_i b0 b1
    rw [quad_cmp, ih0 hs.1 ha.1 hb.1, ih1 hs.2 ha.2 hb.2]
    simp only [flat, List.map_append]
    rw [lexHigh_append _ _ _ _ (by simp [flat_length_of_skel hs.2])]
  | cubic a0 a1 a2 ih0 ih1 ih2 =>
    cases b <;> simp [skel] at hs
    rename_i b0 b1 b2
    rw [Ext.cmp, ih0 hs.1 ha.1 hb.1, ih1 hs.2.1 ha.2.1 hb.2.1, ih2 hs.2.2 ha.2.2 hb.2.2]
    simp only [flat, List.map_append]
    rw [lexHigh_append _ _ _ _ (by simp [flat_length_of_skel hs.2.2]),
      lexHigh_append _ _ _ _ (by simp [flat_length_of_skel hs.2.1]), Ordering.then_assoc]

theorem eq_iff_std (h : CfgOK c pv) {a b : Ext} (hs : skel a = skel b)
    (ha : Leaves (Elem c pv) a) (hb : Leaves (Elem c pv) b) :
    a.eq b = true ↔ (flat a).map (std c) = (flat b).map (std c) := by
  rw [eq_iff_eq]
  exact ⟨fun e => by rw [e], eq_of_flat_map (fun x y hx hy => std_inj h hx hy) hs ha hb⟩

theorem cmp_total (h : CfgOK c pv) (s : Ext) :
    IsTotalOrderOn (fun a => skel a = s ∧ Leaves (Elem c pv) a) (Ext.cmp c) Ext.eq :=
  IsTotalOrderOn.of_compare (fun a => ((flat a).map (std c)).reverse)
    (fun a b ha hb => by
      have hs : skel a = skel b := by rw [ha.1, hb.1]
      rw [cmp_eq_lexHigh h hs ha.2 hb.2,
        lexHigh_eq_compare _ _ (by simp [flat_length_of_skel hs])])
    (fun a b ha hb => by
      rw [eq_iff_std h (by rw [ha.1, hb.1]) ha.2 hb.2, List.reverse_inj])

theorem isZero_iff (h : CfgOK c pv) {a : Ext} (ha : Leaves (Elem c pv) a) :
    a.isZero c = true ↔ ∀ x ∈ (flat a).map (std c), x = 0 := by
  induction a with
  | fp a => simp [Ext.isZero, flat, fpIsZero_iff h ha]
  | quad a0 a1 ih0 ih1 =>
    simp only [Ext.isZero, Bool.and_eq_true, ih0 ha.1, ih1 ha.2, flat, List.map_append,
      List.mem_append]
    exact ⟨fun hh x hx => hx.elim (hh.1 x) (hh.2 x),
      fun hh => ⟨fun x hx => hh x (.inl hx), fun x hx => hh x (.inr hx)⟩⟩
  | cubic a0 a1 a2 ih0 ih1 ih2 =>
    simp only [Ext.isZero, Bool.and_eq_true, ih0 ha.1, ih1 ha.2.1, ih2 ha.2.2, flat,
      List.map_append, List.mem_append]
    exact ⟨fun hh x hx => hx.elim (fun hx => hx.elim (hh.1.1 x) (hh.1.2 x)) (hh.2 x),
      fun hh => ⟨⟨fun x hx => hh x (.inl (.inl hx)), fun x hx => hh x (.inl (.inr hx))⟩,
        fun x hx => hh x (.inr hx)⟩⟩

/-- `[p, 0, …, 0]` -/
def IsOneList (p : Nat) (l : List Nat) : Prop := ∃ t, l = p :: t ∧ ∀ x ∈ t, x = 0

theorem isOneList_append {p : Nat} {l m : List Nat} (hl : l ≠ []) :
    IsOneList p (l ++ m) ↔ IsOneList p l ∧ ∀ x ∈ m, x = 0 := by
  cases l with
  | nil => exact absurd rfl hl
  | cons y l' =>
    constructor
    · rintro ⟨t, e, ht⟩
      simp only [List.cons_append, List.cons.injEq] at e
      obtain ⟨rfl, rfl⟩ := e
      exact ⟨⟨l', rfl, fun x hx => ht x (List.mem_append_left _ hx)⟩,
        fun x hx => ht x (List.mem_append_right _ hx)⟩
    · rintro ⟨⟨t, e, ht⟩, hm⟩
      simp only [List.cons.injEq] at e
      obtain ⟨rfl, rfl⟩ := e
      exact ⟨l' ++ m, rfl, fun x hx => (List.mem_append.1 hx).elim (ht x) (hm x)⟩

theorem isOneList_iff (p : Nat) (l : List Nat) :
    IsOneList p l ↔ l = p :: List.replicate (l.length - 1) 0 := by
  constructor
  · rintro ⟨t, rfl, ht⟩
    simp only [List.length_cons, Nat.add_sub_cancel, List.cons.injEq, true_and]
    exact List.eq_replicate_iff.2 ⟨rfl, ht⟩
  · intro e
    exact ⟨_, e, fun x hx => (List.mem_replicate.1 hx).2⟩

theorem isOne_iff_list (h : CfgOK c pv) {a : Ext} (ha : Leaves (Elem c pv) a) :
    a.isOne c = true ↔ IsOneList (1 % pv) ((flat a).map (std c)) := by
  have hne : ∀ a : Ext, (flat a).map (std c) ≠ [] := fun a => by simpa using flat_ne_nil a
  induction a with
  | fp a =>
    simp only [Ext.isOne, flat, List.map_cons, List.map_nil, fpIsOne_iff h ha]
    exact ⟨fun e => ⟨[], by rw [e], by simp⟩, fun ⟨t, e, _⟩ => (List.cons.inj e).1⟩
  | quad a0 a1 ih0 _ =>
    simp only [Ext.isOne, Bool.and_eq_true, ih0 ha.1, isZero_iff h ha.2, flat, List.map_append]
    rw [isOneList_append (hne a0)]
  | cubic a0 a1 a2 ih0 _ _ =>
    simp only [Ext.isOne, Bool.and_eq_true, ih0 ha.1, isZero_iff h ha.2.1, isZero_iff h ha.2.2,
      flat, List.map_append]
    rw [isOneList_append (fun e => hne a0 (List.append_eq_nil_iff.1 e).1),
      isOneList_append (hne a0), and_assoc]

theorem isOne_iff (h : CfgOK c pv) {a : Ext} (ha : Leaves (Elem c pv) a) :
    a.isOne c = true ↔
      (flat a).map (std c) = (1 % pv) :: List.replicate ((flat a).length - 1) 0 := by
  rw [isOne_iff_list h ha, isOneList_iff, List.length_map]

/-- the zero of the tower that `a` lives in -/
def zeroLike (c : MontCfg) : Ext → Ext
  | .fp _ => .fp (zeros c.n)
  | .quad a b => .quad (zeroLike c a) (zeroLike c b)
  | .cubic a b d => .cubic (zeroLike c a) (zeroLike c b) (zeroLike c d)

/-- the one of the tower that `a` lives in: `c0 = one`, the other coefficients zero -/
def oneLike (c : MontCfg) : Ext → Ext
  | .fp _ => .fp c.r
  | .quad a b => .quad (oneLike c a) (zeroLike c b)
  | .cubic a b d => .cubic (oneLike c a) (zeroLike c b) (zeroLike c d)

theorem isZero_eq (c : MontCfg) (a : Ext) : a.isZero c = a.eq (zeroLike c a) := by
  induction a with
  | fp a => rfl
  | quad a b iha ihb => simp [Ext.isZero, Ext.eq, zeroLike, iha, ihb]
  | cubic a b d iha ihb ihd => simp [Ext.isZero, Ext.eq, zeroLike, iha, ihb, ihd]

theorem isOne_eq (c : MontCfg) (a : Ext) : a.isOne c = a.eq (oneLike c a) := by
  induction a with
  | fp a => rfl
  | quad a b iha _ => simp [Ext.isOne, Ext.eq, oneLike, iha, isZero_eq]
  | cubic a b d iha _ _ => simp [Ext.isOne, Ext.eq, oneLike, iha, isZero_eq]

theorem zeroLike_spec (c : MontCfg) (a : Ext) :
    skel (zeroLike c a) = skel a ∧
      flat (zeroLike c a) = List.replicate (flat a).length (zeros c.n) := by
  induction a with
  | fp a => simp [zeroLike, skel, flat]
  | quad a b iha ihb => simp [zeroLike, skel, flat, iha, ihb]
  | cubic a b d iha ihb ihd => simp [zeroLike, skel, flat, iha, ihb, ihd, Nat.add_assoc]

theorem oneLike_spec (c : MontCfg) (a : Ext) :
    skel (oneLike c a) = skel a ∧
      flat (oneLike c a) = c.r :: List.replicate ((flat a).length - 1) (zeros c.n) := by
  have hpos : ∀ a : Ext, 1 ≤ (flat a).length := fun a =>
    List.length_pos_iff.2 (flat_ne_nil a)
  induction a with
  | fp a => simp [oneLike, skel, flat]
  | quad a b iha _ =>
    have := hpos a
    simp only [oneLike, skel, flat, iha, zeroLike_spec, List.cons_append, List.length_append,
      ← List.replicate_add, true_and]
    congr 2; omega
  | cubic a b d iha _ _ =>
    have := hpos a
    simp only [oneLike, skel, flat, iha, zeroLike_spec, List.cons_append, List.length_append,
      ← List.replicate_add, true_and]
    congr 2; omega

end Ext

/-! ## 3. short Weierstrass -/

section SW
open Ark.Curve Ark.Curve.SW
variable {F : Type} [Field F] [DecidableEq F]

/-- canonical `Affine` value: the placeholder coordinates of a flagged point are `(0, 0)`
    (what `Affine::identity()`, `into_affine` and deserialisation produce) -/
def SWCanon (a : SW.Affine F) : Prop := a.infinity = true → a.x = 0 ∧ a.y = 0

theorem swEq_iff (p q : Jac F) : swEq p q = true ↔ toAff p = toAff q := C03.sw_eq_iff p q

theorem swEq_eq_decide (p q : Jac F) : swEq p q = decide (toAff p = toAff q) := by
  rw [Bool.eq_iff_iff, swEq_iff]; simp

theorem swAffEq_iff_eq (a b : SW.Affine F) : swAffEq a b = true ↔ a = b := by
  cases a; cases b; simp [swAffEq, and_assoc]

theorem ofAffine_inj_of_canon {a b : SW.Affine F} (ha : SWCanon a) (hb : SWCanon b)
    (e : ofAffine a = ofAffine b) : a = b := by
  obtain ⟨ax, ay, ai⟩ := a
  obtain ⟨bx, b_y, bi⟩ := b
  unfold SWCanon at ha hb
  cases ai <;> cases bi <;> simp_all [ofAffine]

/-- `From<Projective> for Affine` returns canonical values -/
theorem toAffine_canon {p : Jac F} {r : SW.Affine F} (h : toAffine p = .ok r) : SWCanon r := by
  unfold toAffine at h
  intro hi
  by_cases hz : p.isZero = true
  · rw [if_pos hz] at h
    cases h; exact ⟨rfl, rfl⟩
  · rw [if_neg hz] at h
    by_cases h1 : p.z = 1
    · rw [if_pos h1] at h; cases h; cases hi
    · rw [if_neg h1] at h
      cases hinv : inverse? p.z with
      | none => rw [hinv] at h; cases h
      | some zi => rw [hinv] at h; cases h; cases hi

theorem swHashKey_spec (p : Jac F) :
    ∃ r, toAffine p = .ok r ∧ swHashKey p = .ok (swAffHashKey r) ∧ SWCanon r ∧
      ofAffine r = toAff p := by
  obtain ⟨r, h1, h2⟩ := C03.sw_toAffine_total p
  exact ⟨r, h1, by simp [swHashKey, h1], toAffine_canon h1, h2⟩

theorem swHashKey_congr {p q : Jac F} (e : toAff p = toAff q) : swHashKey p = swHashKey q := by
  obtain ⟨r, _, hr, cr, er⟩ := swHashKey_spec p
  obtain ⟨s, _, hs, cs, es⟩ := swHashKey_spec q
  rw [hr, hs, ofAffine_inj_of_canon cr cs (by rw [er, es, e])]

theorem swAffHashKey_inj {a b : SW.Affine F} (e : swAffHashKey a = swAffHashKey b) : a = b := by
  cases a; cases b; simp_all [swAffHashKey]

/-- conversely, equal hash keys come from equal points -/
theorem swHashKey_inj {p q : Jac F} (e : swHashKey p = swHashKey q) : toAff p = toAff q := by
  obtain ⟨r, _, hr, _, er⟩ := swHashKey_spec p
  obtain ⟨s, _, hs, _, es⟩ := swHashKey_spec q
  rw [hr, hs] at e
  rw [← er, ← es, swAffHashKey_inj (Outcome.ok.inj e)]

theorem swProjEqAff_iff (p : Jac F) (a : SW.Affine F) :
    swProjEqAff p a = true ↔ ofAffine a = toAff p := by
  unfold swProjEqAff
  rw [swEq_iff, C03.sw_fromAffine_correct]
  exact eq_comm

theorem swAffEqProj_iff (a : SW.Affine F) (p : Jac F) :
    swAffEqProj a p = true ↔ ofAffine a = toAff p := C03.sw_affineEqProj_iff a p

theorem swAffIsZero_iff (a : SW.Affine F) : swAffIsZero a = true ↔ ofAffine a = none := by
  unfold swAffIsZero Affine.xy ofAffine
  cases a.infinity <;> simp

theorem identity_canon : SWCanon (Affine.identity : SW.Affine F) := fun _ => ⟨rfl, rfl⟩

theorem two_three_ne_zero : ¬ ((2 : F) = 0 ∧ (3 : F) = 0) := by
  rintro ⟨h2, h3⟩
  have : (1 : F) = 3 - 2 := by norm_num
  rw [h2, h3, sub_zero] at this
  exact one_ne_zero this

end SW

/-! ## 4. twisted Edwards -/

section TE
open Ark.Curve Ark.Curve.TE
variable {F : Type} [Field F] [DecidableEq F]

theorem teEq_iff (p q : TE.Ext F) (hp : wellFormed p = true) (hq : wellFormed q = true) :
    teEq p q = true ↔ toAff p = toAff q := C03.te_eq p q hp hq

theorem wellFormed_z {p : TE.Ext F} (hp : wellFormed p = true) : p.z ≠ 0 := by
  simp only [wellFormed, Bool.and_eq_true, Bool.not_eq_true', decide_eq_false_iff_not,
    decide_eq_true_eq] at hp
  exact hp.1

theorem teHashKey_spec (p : TE.Ext F) (hp : wellFormed p = true) :
    ∃ k, teHashKey p = .ok k ∧ some k = toAff p := by
  obtain ⟨a, h1, h2⟩ := C03.te_toAffine p (wellFormed_z hp)
  exact ⟨teAffHashKey a, by simp [teHashKey, h1], h2⟩

theorem teHashKey_congr {p q : TE.Ext F} (hp : wellFormed p = true) (hq : wellFormed q = true)
    (e : toAff p = toAff q) : teHashKey p = teHashKey q := by
  obtain ⟨k, hk, ek⟩ := teHashKey_spec p hp
  obtain ⟨l, hl, el⟩ := teHashKey_spec q hq
  rw [hk, hl, Option.some.inj (by rw [ek, el, e] : some k = some l)]

theorem teHashKey_inj {p q : TE.Ext F} (hp : wellFormed p = true) (hq : wellFormed q = true)
    (e : teHashKey p = teHashKey q) : toAff p = toAff q := by
  obtain ⟨k, hk, ek⟩ := teHashKey_spec p hp
  obtain ⟨l, hl, el⟩ := teHashKey_spec q hq
  rw [hk, hl] at e
  rw [← ek, ← el, Outcome.ok.inj e]

theorem teAffEq_iff_eq (a b : TE.Affine F) : teAffEq a b = true ↔ a = b := by
  cases a; cases b; simp [teAffEq]

theorem teProjEqAff_iff (p : TE.Ext F) (a : TE.Affine F) (hp : wellFormed p = true) :
    teProjEqAff p a = true ↔ some (ofAffine a) = toAff p := by
  unfold teProjEqAff
  rw [teEq_iff p _ hp (C03.te_fromAffine a).1, (C03.te_fromAffine a).2]
  exact eq_comm

theorem teAffEqProj_iff (a : TE.Affine F) (p : TE.Ext F) (hp : wellFormed p = true) :
    teAffEqProj a p = true ↔ some (ofAffine a) = toAff p := C03.te_affineEqProj a p hp

theorem teAffIsZero_iff (a : TE.Affine F) :
    teAffIsZero a = true ↔ ofAffine a = ((0 : F), (1 : F)) := by
  cases a; simp [teAffIsZero, Affine.isZero, ofAffine]

end TE

/-! ## 5. polynomials -/

section Polys
variable {F : Type} [DecidableEq F]

/-- the coefficient of `x^i` of a stored dense vector -/
def polyCoeff [Zero F] (a : List F) (i : Nat) : F := a.getD i 0

/-- canonical dense vector: empty, or the leading coefficient is non-zero -/
def PolyCanon [Zero F] (a : List F) : Prop := ∀ h : a ≠ [], a.getLast h ≠ 0

theorem polyCanon_iff [Zero F] (a : List F) :
    PolyCanon a ↔ a = [] ∨ ∃ h : a ≠ [], a.getLast h ≠ 0 := by
  unfold PolyCanon
  by_cases h : a = []
  · simp [h]
  · simp [h]

theorem polyEq_iff_eq (a b : List F) : polyEq a b = true ↔ a = b := by simp [polyEq]
theorem sparseEq_iff_eq (a b : List (Nat × F)) : sparseEq a b = true ↔ a = b := by
  simp [sparseEq]

theorem polyCanon_length_le [Zero F] {a b : List F} (hb : PolyCanon b)
    (h : ∀ i, polyCoeff a i = polyCoeff b i) : b.length ≤ a.length := by
  by_contra hlt
  have hne : b ≠ [] := by intro e; rw [e] at hlt; simp at hlt
  apply hb hne
  have e := h (b.length - 1)
  unfold polyCoeff at e
  rw [List.getLast_eq_getElem]
  rw [List.getD_eq_default _ _ (by omega), List.getD_eq_getElem _ _ (by
    have := List.length_pos_iff.2 hne; omega)] at e
  exact e.symm

theorem polyCanon_ext [Zero F] {a b : List F} (ha : PolyCanon a) (hb : PolyCanon b)
    (h : ∀ i, polyCoeff a i = polyCoeff b i) : a = b := by
  have l1 := polyCanon_length_le hb h
  have l2 := polyCanon_length_le ha (fun i => (h i).symm)
  apply List.ext_getElem (by omega)
  intro i h1 h2
  have e := h i
  unfold polyCoeff at e
  rwa [List.getD_eq_getElem _ _ h1, List.getD_eq_getElem _ _ h2] at e

theorem polyIsZero_iff_nil [Zero F] {isZ : F → Bool} (hz : ∀ x, isZ x = true ↔ x = 0)
    {a : List F} (ha : PolyCanon a) : polyIsZero isZ a = true ↔ a = [] := by
  constructor
  · intro h
    by_contra hne
    apply ha hne
    unfold polyIsZero at h
    rw [Bool.or_eq_true, List.isEmpty_iff, List.all_eq_true] at h
    rcases h with h | h
    · exact absurd h hne
    · exact (hz _).1 (h _ (List.getLast_mem hne))
  · rintro rfl; rfl

/-- in general `is_zero` says that every coefficient is zero -/
theorem polyIsZero_iff_coeff [Zero F] {isZ : F → Bool} (hz : ∀ x, isZ x = true ↔ x = 0)
    (a : List F) : polyIsZero isZ a = true ↔ ∀ i, polyCoeff a i = 0 := by
  unfold polyIsZero polyCoeff
  rw [Bool.or_eq_true, List.isEmpty_iff, List.all_eq_true]
  constructor
  · rintro (rfl | h) i
    · simp
    · by_cases hi : i < a.length
      · rw [List.getD_eq_getElem _ _ hi]; exact (hz _).1 (h _ (List.getElem_mem hi))
      · rw [List.getD_eq_default _ _ (by omega)]
  · intro h
    right
    intro x hx
    obtain ⟨i, hi, rfl⟩ := List.getElem_of_mem hx
    rw [hz, ← List.getD_eq_getElem _ 0 hi]
    exact h i

/-- the coefficient of `x^i` of a stored sparse vector (terms of equal degree add up, as in
    `evaluate`) -/
def sparseCoeff [Add F] [Zero F] : List (Nat × F) → Nat → F
  | [], _ => 0
  | t :: ts, i => if t.1 = i then t.2 + sparseCoeff ts i else sparseCoeff ts i

/-- canonical sparse vector: strictly increasing degrees, no zero coefficient -/
def SparseCanon [Zero F] (a : List (Nat × F)) : Prop :=
  a.Pairwise (fun s t => s.1 < t.1) ∧ ∀ t ∈ a, t.2 ≠ 0

theorem sparseCoeff_eq_zero [AddMonoid F] {a : List (Nat × F)} {i : Nat}
    (h : ∀ t ∈ a, i ≠ t.1) : sparseCoeff a i = 0 := by
  induction a with
  | nil => rfl
  | cons t ts ih =>
    rw [sparseCoeff, if_neg (fun e => h t (List.mem_cons_self) e.symm)]
    exact ih (fun s hs => h s (List.mem_cons_of_mem _ hs))

theorem sparseCanon_tail [Zero F] {t : Nat × F} {ts : List (Nat × F)}
    (h : SparseCanon (t :: ts)) : SparseCanon ts :=
  ⟨(List.pairwise_cons.1 h.1).2, fun s hs => h.2 s (List.mem_cons_of_mem _ hs)⟩

theorem sparseCoeff_head [AddMonoid F] {t : Nat × F} {ts : List (Nat × F)}
    (h : SparseCanon (t :: ts)) : sparseCoeff (t :: ts) t.1 = t.2 := by
  rw [sparseCoeff, if_pos rfl, sparseCoeff_eq_zero, add_zero]
  intro s hs
  exact Nat.ne_of_lt ((List.pairwise_cons.1 h.1).1 s hs)

/-- below the first degree every coefficient vanishes -/
theorem sparseCoeff_lt_head [AddMonoid F] {t : Nat × F} {ts : List (Nat × F)}
    (h : SparseCanon (t :: ts)) {i : Nat} (hi : i < t.1) : sparseCoeff (t :: ts) i = 0 := by
  apply sparseCoeff_eq_zero
  intro s hs
  rcases List.mem_cons.1 hs with rfl | hs
  · exact Nat.ne_of_lt hi
  · exact Nat.ne_of_lt (Nat.lt_trans hi ((List.pairwise_cons.1 h.1).1 s hs))

theorem sparseCanon_ext [AddMonoid F] : ∀ {a b : List (Nat × F)}, SparseCanon a → SparseCanon b →
    (∀ i, sparseCoeff a i = sparseCoeff b i) → a = b
  | [], [], _, _, _ => rfl
  | [], t :: ts, _, hb, h => by
    have e := h t.1
    rw [sparseCoeff_head hb] at e
    exact absurd e.symm (hb.2 t List.mem_cons_self)
  | t :: ts, [], ha, _, h => by
    have e := h t.1
    rw [sparseCoeff_head ha] at e
    exact absurd e (ha.2 t List.mem_cons_self)
  | s :: ss, t :: ts, ha, hb, h => by
    have hdeg : s.1 = t.1 := by
      rcases Nat.lt_trichotomy s.1 t.1 with hlt | heq | hgt
      · have e := h s.1
        rw [sparseCoeff_head ha, sparseCoeff_lt_head hb hlt] at e
        exact absurd e (ha.2 s List.mem_cons_self)
      · exact heq
      · have e := h t.1
        rw [sparseCoeff_head hb, sparseCoeff_lt_head ha hgt] at e
        exact absurd e.symm (hb.2 t List.mem_cons_self)
    have hco : s.2 = t.2 := by
      have e := h s.1
      rw [sparseCoeff_head ha, hdeg, sparseCoeff_head hb] at e
      exact e
    have hst : s = t := Prod.ext hdeg hco
    subst hst
    congr 1
    apply sparseCanon_ext (sparseCanon_tail ha) (sparseCanon_tail hb)
    intro i
    by_cases hi : s.1 = i
    · subst hi
      rw [sparseCoeff_eq_zero (fun u hu => Nat.ne_of_lt ((List.pairwise_cons.1 ha.1).1 u hu)),
        sparseCoeff_eq_zero (fun u hu => Nat.ne_of_lt ((List.pairwise_cons.1 hb.1).1 u hu))]
    · have e := h i
      rwa [sparseCoeff, sparseCoeff, if_neg hi, if_neg hi] at e

theorem sparseIsZero_iff_nil [Zero F] {isZ : F → Bool} (hz : ∀ x, isZ x = true ↔ x = 0)
    {a : List (Nat × F)} (ha : SparseCanon a) : sparseIsZero isZ a = true ↔ a = [] := by
  constructor
  · intro h
    cases a with
    | nil => rfl
    | cons t ts =>
      unfold sparseIsZero at h
      rw [Bool.or_eq_true, List.isEmpty_iff, List.all_eq_true] at h
      rcases h with h | h
      · exact h
      · exact absurd ((hz _).1 (h t List.mem_cons_self)) (ha.2 t List.mem_cons_self)
  · rintro rfl; rfl

end Polys

end Ark.EqOrd
